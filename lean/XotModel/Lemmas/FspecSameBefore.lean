/-
  FspecSameBefore — `insert_before` within one child list, and the total theorem.
-/
import XotModel.Lemmas.FspecSame

namespace XotModel
open HTree Spec

theorem prevOf_insert_ne_nil {m : List HTree} (l : List HTree) (t kr : HTree) (hm : m ≠ []) :
    prevOf (l ++ t :: m) kr = prevOf (l ++ m) kr := by
  obtain ⟨W, z, em⟩ : ∃ W z, m = W ++ [z] := by
    cases hlm : m.getLast? with
    | none => exact absurd (List.getLast?_eq_none_iff.1 hlm) hm
    | some k => exact ⟨_, k, (List.getLast?_eq_some_iff.1 hlm).choose_spec⟩
  subst em
  have e1 : l ++ t :: (W ++ [z]) = (l ++ t :: W) ++ [z] := by simp
  have e2 : l ++ (W ++ [z]) = (l ++ W) ++ [z] := by simp
  unfold prevOf
  rw [e1, e2, List.getLast?_concat, List.getLast?_concat]

/-- `insert_before` within one child list, nothing merged at the old place. -/
theorem insertBefore_same_nomerge {f : Forest} {q : Nat} {vq : Value} {l : List HTree} {t : HTree} {r : List HTree}
    {A : List HTree} {kr : HTree} {B : List HTree} (inv : f.Inv) (norm : f.Normal)
    (so : SiteAt f q vq (l ++ t :: r)) (hAB : A ++ kr :: B = l ++ t :: r)
    (hrc : kr.handle ≠ t.handle) (hkrn : kr.value.isNormal = true) (hnt : t.value.isNormal = true)
    (hseam : f.consolidation = true → ∀ a b, l.getLast? = some a → r.head? = some b →
      ¬ (a.value.isText = true ∧ b.value.isText = true))
    (hsame : ¬ prevOf A kr = some t.handle)
    (hocc : Dest.occupiedBy f t.handle (.before kr.handle) = false) :
    (insertBeforeTail f kr.handle t.handle).1 =
      specMove (Keep.resident t.handle) (.before kr.handle) t.handle f := by
  have nd := so.nd
  have sq : SiteAt f q vq (A ++ kr :: B) := hAB ▸ so
  have hgc : f.get? t.handle = some t := so.getKid
  have hpar : f.parent? kr.handle = some q := Forest.parent?_of_ctx sq.ctx
  have hparc : f.parent? t.handle = some q := Forest.parent?_of_ctx so.ctx
  have hqt : q ∉ handles t := by
    intro hin
    apply so.nodupKids.2
    rw [fs_handlesList_append, handlesList_cons]
    exact List.mem_append_right _ (List.mem_append_left _ hin)
  have hprev : f.prevSibling kr.handle = prevOf A kr := Forest.prevSibling_of_ctx sq.ctx
  have Vlr := view_without inv norm so hseam
  have F0 := far_same (keep := Keep.resident t.handle) so
  have hkt : kr ≠ t := fun e => hrc (by rw [e])
  have hplace : ∀ A' B', l ++ r = A' ++ kr :: B' →
      f.checkedInsertBefore kr.handle t.handle =
        ((f.editAt (some q) (dropTop t.handle)).editAt (some q) (insertBeforeTop kr.handle t), true) := by
    intro A' B' e
    rw [Forest.checkedInsertBefore_ok hgc sq hqt hrc, hparc]
    have sY : SiteAt (f.editAt (some q) (dropTop t.handle)) q vq (A' ++ kr :: B') := by
      have := F0.ysite
      rw [List.map_id, e] at this
      exact this
    rw [Forest.placeBefore_of_ctx t sY.nd sY.ctx]
  rcases split_two hAB hkt with ⟨m, hA, hr⟩ | ⟨m, hl, hB⟩
  · -- `t` stands before the reference, not directly
    have hm : m ≠ [] := by
      intro em
      apply hsame
      rw [hA, em]
      have h1 : t.value.category = .normal := by simpa [Value.isNormal] using hnt
      have h2 : kr.value.category = .normal := by simpa [Value.isNormal] using hkrn
      simp [prevOf, h1, h2]
    have e : l ++ r = (l ++ m) ++ kr :: B := by rw [hr]; simp
    have F : Far f (Keep.resident t.handle) t.handle t q vq ((l ++ m) ++ kr :: B) f
        (f.editAt (some q) (dropTop t.handle)) id := e ▸ F0
    have hpv : prevOf A kr = prevOf (l ++ m) kr := by rw [hA]; exact prevOf_insert_ne_nil l t kr hm
    exact insertBeforeTail_core inv F (e ▸ Vlr) hpar (fun _ => hprev.trans hpv) (hplace _ _ e) hgc (Or.inl rfl)
      hrc hkrn (by rw [← hpv]; exact hsame) hocc
  · -- `t` stands after the reference
    have e : l ++ r = A ++ kr :: (m ++ r) := by rw [hl]; simp
    have F : Far f (Keep.resident t.handle) t.handle t q vq (A ++ kr :: (m ++ r)) f
        (f.editAt (some q) (dropTop t.handle)) id := e ▸ F0
    exact insertBeforeTail_core inv F (e ▸ Vlr) hpar (fun _ => hprev) (hplace _ _ e) hgc (Or.inl rfl)
      hrc hkrn hsame hocc

/-- `insert_before` within one child list when the two text nodes around the moved node were merged. -/
theorem insertBefore_same_merged {f : Forest} {q : Nat} {vq : Value} {l' : List HTree} {a t b : HTree}
    {r' : List HTree} {x y : Str} {A : List HTree} {kr : HTree} {B : List HTree}
    (inv : f.Inv) (norm : f.Normal)
    (so : SiteAt f q vq ((l' ++ [a]) ++ t :: b :: r')) (hc : f.consolidation = true)
    (hx : a.value = .text x) (hy : b.value = .text y) (ht : textData t = none)
    (hAB : A ++ kr :: B = (l' ++ [a]) ++ t :: b :: r')
    (hrc : kr.handle ≠ t.handle) (hkrn : kr.value.isNormal = true) (hnt : t.value.isNormal = true)
    (hsame : ¬ prevOf A kr = some t.handle)
    (hocc : Dest.occupiedBy f t.handle (.before kr.handle) = false) :
    (insertBeforeTail (f.editAt (some q) (fun _ => l' ++ a.setValue (.text (x ++ y)) :: t :: r')) kr.handle t.handle).1 =
      specMove (Keep.resident t.handle) (.before kr.handle) t.handle f := by
  have nd := so.nd
  have sq : SiteAt f q vq (A ++ kr :: B) := hAB ▸ so
  have hgc : f.get? t.handle = some t := so.getKid
  have hpar : f.parent? kr.handle = some q := Forest.parent?_of_ctx sq.ctx
  have hqt : q ∉ handles t := by
    intro hin
    apply so.nodupKids.2
    rw [fs_handlesList_append, handlesList_cons]
    exact List.mem_append_right _ (List.mem_append_left _ hin)
  obtain ⟨ndL, _⟩ := so.nodupKids
  obtain ⟨tl, tr⟩ := tops_ne_of_nodup ndL
  have hnott : ¬ t.value.isText = true := by
    intro h
    obtain ⟨z, hz⟩ := isText_iff_textData.1 h
    rw [ht] at hz; cases hz
  have hstrict := (validTree_node (so.valid (norm hc))).2.2.1 rfl
  obtain ⟨hla, htbr, _⟩ := noAdj_append.1 hstrict
  have hbr : noAdjacentText (b :: r') = true := noAdj_tail htbr
  have hak : a.handle ≠ t.handle := tl a (by simp)
  have F0 := far_same (keep := Keep.resident t.handle) so
  have hsite : Dest.site f (.before kr.handle) = some q := by simp only [Dest.site]; exact hpar
  have hspec := F0.spec (.before kr.handle) hocc hsite (fun ψ hk hψ => natFor_insertBeforeTop hk _ hψ)
  simp only [Dest.insert] at hspec
  have hYc : ((f.editAt (some q) (dropTop t.handle)).editAt (some q) (insertBeforeTop kr.handle t)).consolidation = true := by
    rw [Forest.editAt_consolidation, Forest.editAt_consolidation]; exact hc
  rw [hspec, mergeAt_on hYc, Forest.editAt_editAt, Forest.editAt_editAt]
  have hdrop : dropTop t.handle ((l' ++ [a]) ++ t :: b :: r') = (l' ++ [a]) ++ b :: r' := dropTop_mid rfl tl tr
  let a' := a.setValue (.text (x ++ y))
  have sX : SiteAt (f.editAt (some q) (fun _ => l' ++ a' :: t :: r')) q vq ((l' ++ [a']) ++ t :: r') := by
    have := so.edit (fun _ => l' ++ a' :: t :: r') (by
      simp only [a', fs_handlesList_append, handlesList_cons, setValue_handles, handlesList_nil, List.append_nil,
        List.append_assoc]
      refine (List.Sublist.refl _).append ((List.Sublist.refl _).append ((List.Sublist.refl _).append ?_))
      exact List.sublist_append_right _ _)
    simpa using this
  obtain ⟨ndLX, _⟩ := sX.nodupKids
  obtain ⟨tlX, trX⟩ := tops_ne_of_nodup ndLX
  have hXget : (f.editAt (some q) (fun _ => l' ++ a' :: t :: r')).get? t.handle = some t := sX.getKid
  have hXpar : (f.editAt (some q) (fun _ => l' ++ a' :: t :: r')).parent? t.handle = some q :=
    Forest.parent?_of_ctx sX.ctx
  have hr2 : ∀ rf nx, (f.editAt (some q) (fun _ => l' ++ a' :: t :: r')).addConsolidate t.handle rf nx =
      (f.editAt (some q) (fun _ => l' ++ a' :: t :: r'), false) := by
    intro rf nx
    apply Forest.addConsolidate_not_text
    rw [Forest.textOf_of_get hXget]; exact ht
  have hXcut : (f.editAt (some q) (fun _ => l' ++ a' :: t :: r')).editAt (some q) (dropTop t.handle) =
      f.editAt (some q) (fun _ => (l' ++ [a']) ++ r') := by
    rw [Forest.editAt_editAt]
    apply so.congr
    simp only [Function.comp]
    have : l' ++ a' :: t :: r' = (l' ++ [a']) ++ t :: r' := by simp
    rw [this, dropTop_mid rfl tlX trX]
  have sYm : SiteAt (f.editAt (some q) (fun _ => (l' ++ [a']) ++ r')) q vq ((l' ++ [a']) ++ r') := by
    have := so.edit (fun _ => (l' ++ [a']) ++ r') (by
      simp only [a', fs_handlesList_append, handlesList_cons, setValue_handles, handlesList_nil, List.append_nil,
        List.append_assoc]
      refine (List.Sublist.refl _).append ((List.Sublist.refl _).append ?_)
      exact (List.sublist_append_right _ _).trans (List.sublist_append_right _ _))
    exact this
  have model : ∀ (P Q P2 Q2 : List HTree) (w w2 : HTree), w.handle = kr.handle → w2.handle = kr.handle →
      (l' ++ [a']) ++ t :: r' = P ++ w :: Q → (l' ++ [a']) ++ r' = P2 ++ w2 :: Q2 →
      (insertBeforeTail (f.editAt (some q) (fun _ => l' ++ a' :: t :: r')) kr.handle t.handle).1 =
        f.editAt (some q) (fun _ => P2 ++ t :: w2 :: Q2) := by
    intro P Q P2 Q2 w w2 hw hw2 e1 e2
    unfold insertBeforeTail
    rw [hr2]
    simp only [Bool.false_eq_true, if_false]
    have sX' : SiteAt (f.editAt (some q) (fun _ => l' ++ a' :: t :: r')) q vq (P ++ w :: Q) := e1 ▸ sX
    have := Forest.checkedInsertBefore_ok hXget sX' hqt (by rw [hw]; exact hrc)
    rw [hw] at this
    rw [this]
    simp only [if_true]
    rw [hXpar, hXcut]
    have sY' : SiteAt (f.editAt (some q) (fun _ => (l' ++ [a']) ++ r')) q vq (P2 ++ w2 :: Q2) := e2 ▸ sYm
    have hctx := sY'.ctx
    rw [hw2] at hctx
    rw [Forest.placeBefore_of_ctx t sY'.nd hctx, Forest.editAt_editAt]
    apply so.congr
    simp only [Function.comp]
    rw [e2]
    obtain ⟨ndY, _⟩ := sY'.nodupKids
    have := insertBeforeTop_mid (A := P2) (w := w2) (B := Q2) t (tops_ne_of_nodup ndY).1
    rw [hw2] at this
    exact this
  have hkt : kr ≠ t := fun e => hrc (by rw [e])
  have htopsAB : ∀ k ∈ A, k.handle ≠ kr.handle := (tops_ne_of_nodup (hAB ▸ ndL)).1
  rcases split_two hAB hkt with ⟨m, hA, hr⟩ | ⟨m, hl, hB⟩
  · -- `t` before the reference: the reference stands behind the merged pair
    cases m with
    | nil =>
      exfalso
      apply hsame
      rw [hA]
      have h1 : t.value.category = .normal := by simpa [Value.isNormal] using hnt
      have h2 : kr.value.category = .normal := by simpa [Value.isNormal] using hkrn
      simp [prevOf, h1, h2]
    | cons b0 Z =>
      simp only [List.cons_append] at hr
      injection hr with e1 e2
      subst e1
      subst e2
      rw [model ((l' ++ [a']) ++ t :: Z) B ((l' ++ [a']) ++ Z) B kr kr rfl rfl (by simp) (by simp)]
      apply so.congr
      simp only [Function.comp]
      rw [hdrop]
      have htopsk : ∀ k ∈ (l' ++ [a]) ++ b :: Z, k.handle ≠ kr.handle := by
        intro k hk
        apply htopsAB k
        rw [hA]
        simp only [List.mem_append, List.mem_cons, List.mem_singleton] at hk ⊢
        rcases hk with (h | h) | h | h
        · exact Or.inl (Or.inl h)
        · exact Or.inl (Or.inr h)
        · exact Or.inr (Or.inr (Or.inl h))
        · exact Or.inr (Or.inr (Or.inr h))
      have e3 : (l' ++ [a]) ++ b :: (Z ++ kr :: B) = ((l' ++ [a]) ++ b :: Z) ++ kr :: B := by simp
      rw [e3, insertBeforeTop_mid t htopsk]
      have e4 : ((l' ++ [a]) ++ b :: Z) ++ t :: kr :: B = l' ++ a :: b :: (Z ++ t :: kr :: B) := by simp
      rw [e4, mergeRuns_seam _ hx hy hla (by
        have : b :: (Z ++ t :: kr :: B) = (b :: Z) ++ t :: (kr :: B) := by simp
        rw [this]
        apply noAdj_insert_nontext _ hnott
        have : (b :: Z) ++ (kr :: B) = b :: (Z ++ kr :: B) := by simp
        rw [this]; exact hbr)]
      simp [join, Keep.resident, hak, a']
  · -- `t` after the reference
    cases hm : m.getLast? with
    | none =>
      -- the reference is the surviving text node `a`
      have em : m = [] := List.getLast?_eq_none_iff.1 hm
      subst em
      have e0 : l' ++ [a] = A ++ [kr] := by rw [hl]
      obtain ⟨el, ea⟩ := List.append_inj' e0 rfl
      have ea' : a = kr := by simpa using ea
      subst ea'
      subst el
      rw [model l' (t :: r') l' r' a' a' (by simp [a', setValue_handle]) (by simp [a', setValue_handle])
        (by simp) (by simp)]
      apply so.congr
      simp only [Function.comp]
      rw [hdrop]
      have e3 : (l' ++ [a]) ++ b :: r' = l' ++ a :: (b :: r') := by simp
      rw [e3, insertBeforeTop_mid t htopsAB]
      have e4 : l' ++ t :: a :: (b :: r') = (l' ++ [t]) ++ a :: b :: r' := by simp
      rw [e4, mergeRuns_seam _ hx hy (by
        have : (l' ++ [t]) ++ [a] = l' ++ t :: [a] := by simp
        rw [this]
        exact noAdj_insert_nontext hla hnott) hbr]
      simp [join, Keep.resident, hak, a']
    | some a0 =>
      obtain ⟨W, em⟩ := List.getLast?_eq_some_iff.1 hm
      subst em
      have e0 : l' ++ [a] = (A ++ kr :: W) ++ [a0] := by rw [hl]; simp
      obtain ⟨el, ea⟩ := List.append_inj' e0 rfl
      have ea' : a = a0 := by simpa using ea
      subst ea'
      subst el
      rw [model A (W ++ a' :: t :: r') A (W ++ a' :: r') kr kr rfl rfl (by simp) (by simp)]
      apply so.congr
      simp only [Function.comp]
      rw [hdrop]
      have e3 : ((A ++ kr :: W) ++ [a]) ++ b :: r' = A ++ kr :: (W ++ a :: b :: r') := by simp
      rw [e3, insertBeforeTop_mid t htopsAB]
      have e4 : A ++ t :: kr :: (W ++ a :: b :: r') = (A ++ t :: kr :: W) ++ a :: b :: r' := by simp
      rw [e4, mergeRuns_seam _ hx hy (by
        have : (A ++ t :: kr :: W) ++ [a] = A ++ t :: (kr :: W ++ [a]) := by simp
        rw [this]
        apply noAdj_insert_nontext _ hnott
        have : A ++ (kr :: W ++ [a]) = (A ++ kr :: W) ++ [a] := by simp
        rw [this]; exact hla) hbr]
      simp [join, Keep.resident, hak, a']

end XotModel

namespace XotModel
open HTree Spec

/-- **insert_before**: all geometries. -/
theorem insertBefore_spec {f : Forest} {ref c : Nat} (inv : f.Inv) (norm : f.Normal)
    (hok : (f.insertBefore ref c).2 = .ok) :
    (f.insertBefore ref c).1 = specMove (Keep.resident c) (.before ref) c f := by
  by_cases hfar : f.parent? c ≠ f.parent? ref
  · exact insertBefore_spec_far inv norm hfar hok
  have hsamepar : f.parent? c = f.parent? ref := Classical.not_not.1 hfar
  have nd := inv.nodup
  have hsc : f.structureCheck (f.parent? ref) c = true := by
    cases h : f.structureCheck (f.parent? ref) c with
    | true => rfl
    | false => rw [insertBefore_unfold] at hok; simp [h] at hok
  have hsr : f.siblingReferenceCheck ref c = true := by
    cases h : f.siblingReferenceCheck ref c with
    | true => rfl
    | false => rw [insertBefore_unfold] at hok; simp [hsc, h] at hok
  obtain ⟨q, vq, A, kr, B, t, sq, ekr, hkrn, hrc, hgc, hqt, hnorm, hndoc, hvq⟩ := sibling_checks_unpack nd hsc hsr
  subst ekr
  have htc : t.handle = c := (findList?_some f.roots t hgc).1
  have hprev : f.prevSibling kr.handle = prevOf A kr := Forest.prevSibling_of_ctx sq.ctx
  have hparref : f.parent? kr.handle = some q := Forest.parent?_of_ctx sq.ctx
  have hoccIff := occupied_before sq hgc hnorm hkrn
  by_cases hsame : prevOf A kr = some c
  · have hocc := hoccIff.2 hsame
    rw [insertBefore_unfold]
    unfold specMove
    simp [hsc, hsr, hprev, hsame, hocc]
  · have hocc : Dest.occupiedBy f c (.before kr.handle) = false := by
      cases h : Dest.occupiedBy f c (.before kr.handle) with
      | false => rfl
      | true => exact absurd (hoccIff.1 h) hsame
    rw [insertBefore_unfold]
    simp only [hsc, hsr, hprev, Bool.not_true, Bool.false_eq_true, if_false, beq_iff_eq, hsame]
    rw [hparref] at hsamepar
    cases hctx : f.ctx? c with
    | none => rw [Forest.parent?_of_no_ctx hctx] at hsamepar; cases hsamepar
    | some cx =>
      obtain ⟨e0, vo, so⟩ := SiteAt.of_ctx nd hctx
      have hself : cx.self = t := by
        have := Forest.get?_of_ctx nd hctx
        rw [hgc] at this
        exact (Option.some.inj this).symm
      obtain ⟨po, l, k, r⟩ := cx
      simp only at e0 so hself
      subst hself
      subst htc
      have hpo : po = q := by
        rw [Forest.parent?_of_ctx hctx] at hsamepar
        exact Option.some.inj hsamepar
      subst hpo
      have hlists : vo = vq ∧ A ++ kr :: B = l ++ k :: r := by
        have := so.kids
        rw [sq.kids] at this
        have := Option.some.inj this
        injection this with _ e2 e3
        exact ⟨e2.symm, e3⟩
      obtain ⟨ev, hAB⟩ := hlists
      subst ev
      rw [Forest.prevSibling_of_ctx hctx, Forest.nextSibling_of_ctx hctx]
      simp only
      have hold := old_stage inv norm so
      generalize hres : f.removeConsolidate (prevOf l k) (nextOf r k) = res at hold
      cases hold with
      | same hseam =>
        exact insertBefore_same_nomerge inv norm so hAB hrc hkrn hnorm hseam hsame hocc
      | merged l' a b r' x y hc el er hx hy hp hn ht =>
        subst el er
        have so' : SiteAt f po vo ((l' ++ [a]) ++ k :: b :: r') := so
        exact insertBefore_same_merged inv norm so' hc hx hy ht hAB hrc hkrn hnorm hsame hocc

theorem insertBefore_content {f : Forest} {ref c : Nat} (inv : f.Inv) (norm : f.Normal)
    (hok : (f.insertBefore ref c).2 = .ok) :
    (f.insertBefore ref c).1.content = (specMove Keep.earlier (.before ref) c f).content := by
  rw [insertBefore_spec inv norm hok]
  have nd := inv.nodup
  have hsc : f.structureCheck (f.parent? ref) c = true := by
    cases h : f.structureCheck (f.parent? ref) c with
    | true => rfl
    | false => rw [insertBefore_unfold] at hok; simp [h] at hok
  have hsr : f.siblingReferenceCheck ref c = true := by
    cases h : f.siblingReferenceCheck ref c with
    | true => rfl
    | false => rw [insertBefore_unfold] at hok; simp [hsc, h] at hok
  obtain ⟨q, vq, A, kr, B, t, sq, ekr, hkrn, hrc, hgc, hqt, hnorm, hndoc, hvq⟩ := sibling_checks_unpack nd hsc hsr
  subst ekr
  exact specMove_content_keep inv norm hgc sq hqt hvq _ (by
    simp only [Dest.site]; exact Forest.parent?_of_ctx sq.ctx)

end XotModel
