/-
  C06 lemmas: `Kept f f' x` — the node `x` has the same ancestor chain, parent and value (up to
  text content) in `f'` as in `f`.  Packaged per operation so that the composite edits
  (`replace`, `element_wrap`, …) can carry their argument checks from one state to the next.
-/
import XotModel.Lemmas.FatomMoves2

namespace XotModel
open HTree

namespace Forest

structure Kept (f f' : Forest) (x : Nat) : Prop where
  anc : f'.ancestors x = f.ancestors x
  parent : f'.parent? x = f.parent? x
  shape : (f'.value? x).map Value.shape = (f.value? x).map Value.shape

theorem Kept.refl (f : Forest) (x : Nat) : Kept f f x := ⟨rfl, rfl, rfl⟩

theorem Kept.trans {f f' f'' : Forest} {x : Nat} (a : Kept f f' x) (b : Kept f' f'' x) :
    Kept f f'' x :=
  ⟨b.anc.trans a.anc, b.parent.trans a.parent, b.shape.trans a.shape⟩

theorem Kept.viaShape {f f' : Forest} {x : Nat} (a : Kept f f' x) {β : Type} (g : Value → β)
    (hg : ∀ v, g v.shape = g v) : (f'.value? x).map g = (f.value? x).map g := by
  have := a.shape
  cases h1 : f'.value? x <;> cases h2 : f.value? x <;> simp [h1, h2] at this ⊢
  rw [← hg, this, hg]

theorem Kept.isLive {f f' : Forest} {x : Nat} (a : Kept f f' x) : f'.isLive x = f.isLive x := by
  rw [isLive_iff_value?, isLive_iff_value?]
  have := a.shape
  cases h1 : f'.value? x <;> cases h2 : f.value? x <;> simp [h1, h2] at this ⊢

theorem Kept.isElement {f f' : Forest} {x : Nat} (a : Kept f f' x) :
    f'.isElement x = f.isElement x := by
  unfold Forest.isElement; rw [a.viaShape _ shape_isElement]

theorem Kept.isDocument {f f' : Forest} {x : Nat} (a : Kept f f' x) :
    f'.isDocument x = f.isDocument x := by
  unfold Forest.isDocument; rw [a.viaShape _ shape_isDocument]

theorem Kept.isNormalNode {f f' : Forest} {x : Nat} (a : Kept f f' x) :
    f'.isNormalNode x = f.isNormalNode x := by
  unfold Forest.isNormalNode; rw [a.viaShape _ shape_isNormal]

theorem ancestors_live {f : Forest} (w : f.W) {x y : Nat} (h : y ∈ f.ancestors x) :
    f.isLive y = true := by
  by_cases e : y = x
  · subst e
    cases hl : f.isLive y with
    | true => rfl
    | false => rw [ancestors_dead hl] at h; cases h
  · obtain ⟨t, hg, _⟩ := ancestors_proper_kids w _ x y rfl h e
    exact isLive_of_get? hg

theorem Frame.kept {f f' : Forest} {P : List Nat} (fr : Frame f f' P) (w : f.W) (w' : f'.W)
    {x : Nat} (hl : f.isLive x = true) (hch : ∀ y ∈ f.ancestors x, y ∉ P) : Kept f f' x := by
  have hx : x ∉ P := hch x (self_mem_ancestors w hl)
  exact ⟨fr.ancestors' w w' hl hch, fr.parent x hx, fr.shape x hx⟩

theorem newNode_kept {f : Forest} (w : f.W) (v : Value) {x : Nat} (hl : f.isLive x = true) :
    Kept f (f.newNode v).1 x := by
  obtain ⟨_, w1, fr, _, _, hd⟩ := newNode_spec w v
  refine fr.kept w w1 hl ?_
  intro y hy hyn
  simp only [List.mem_singleton] at hyn
  subst hyn
  rw [ancestors_live w hy] at hd; cases hd

/-- Cutting, dropping or detaching the subtree at `h` keeps every node that does not have `h`
    among its ancestors. -/
theorem Frame.keptOutside {f f1 : Forest} {h : Nat} {t : HTree} (fr : Frame f f1 (handles t))
    (w : f.W) (w1 : f1.W) (hg : f.get? h = some t) {x : Nat} (hl : f.isLive x = true)
    (hx : h ∉ f.ancestors x) : Kept f f1 x := by
  refine fr.kept w w1 hl ?_
  intro y hy hyt
  exact hx (ancestors_trans w (mem_ancestors_of_subtree w hg hyt) hy)

theorem MoveOk.kept {f : Forest} {r : Forest × Res} {c : Nat} (m : MoveOk f r c) (w : f.W)
    {x : Nat} (hl : f.isLive x = true) (hc : c ∉ f.ancestors x) (hn : f.nextSibling c ≠ some x) :
    Kept f r.1 x := by
  obtain ⟨P, fr, hP⟩ := m.frame
  refine fr.kept w m.w hl ?_
  intro y hy hyP
  rcases hP y hyP with h' | ⟨h1, h2⟩
  · exact hc (ancestors_trans w h' hy)
  · cases hty : f.textOf y with
    | none => rw [hty] at h2; cases h2
    | some s =>
      obtain ⟨t, hg, hk, _⟩ := text_leaf w hty
      by_cases e : y = x
      · subst e; exact hn h1
      · exact leaf_not_ancestor w hg hk e hy

theorem removeConsolidate_kept {f : Forest} (w : f.W) (prev next : Option Nat) {x : Nat}
    (hl : f.isLive x = true) (hx : next ≠ some x) : Kept f (f.removeConsolidate prev next).1 x := by
  obtain ⟨w1, _, P, hP, fr⟩ := removeConsolidate_spec w prev next
  refine fr.kept w w1 hl ?_
  intro y hy hyP
  obtain ⟨h1, h2, _⟩ := hP y hyP
  cases hty : f.textOf y with
  | none => rw [hty] at h2; cases h2
  | some s =>
    obtain ⟨t, hg, hk, _⟩ := text_leaf w hty
    by_cases e : y = x
    · subst e; exact hx h1
    · exact leaf_not_ancestor w hg hk e hy

/-! ### The structure check as a proposition, and its transfer -/

theorem structureCheck_of_checked {f : Forest} {p c : Nat} (h : Checked f p c) :
    f.structureCheck (some p) c = true := by
  unfold structureCheck
  obtain ⟨v, hv, hcat, hdoc⟩ := h.normal
  have h1 : (f.isElement p || f.isDocument p) = true := by
    rcases h.container with h' | h' <;> simp [h']
  have h2 : (f.ancestors p).contains c = false := by simpa using h.notAnc
  simp only [h1, h2, hv, Bool.not_false, Bool.and_self, Bool.true_and]
  cases v <;> simp_all [Value.category, Value.isDocument]

theorem Checked.transfer {f f' : Forest} {p c : Nat} (h : Checked f p c) (kp : Kept f f' p)
    (kc : (f'.value? c).map Value.shape = (f.value? c).map Value.shape) : Checked f' p c := by
  refine ⟨by rw [kp.isElement, kp.isDocument]; exact h.container, by rw [kp.anc]; exact h.notAnc, ?_⟩
  obtain ⟨v, hv, hcat, hdoc⟩ := h.normal
  rw [hv] at kc
  cases hv' : f'.value? c with
  | none => rw [hv'] at kc; cases kc
  | some v' =>
    rw [hv'] at kc
    simp only [Option.map_some, Option.some.injEq] at kc
    refine ⟨v', rfl, ?_, ?_⟩
    · rw [← shape_category, kc, shape_category]; exact hcat
    · rw [← shape_isDocument, kc, shape_isDocument]; exact hdoc

/-- The parent of a node is an element or a document. -/
theorem parent?_container {f : Forest} (w : f.W) {x q : Nat} (h : f.parent? x = some q) :
    f.isElement q = true ∨ f.isDocument q = true := by
  obtain ⟨c, hc, hcp⟩ := ctx?_of_parent? h
  obtain ⟨⟨v, hg⟩, _⟩ := ctx?_spec w hc
  rw [hcp] at hg
  have hl := findList?_leafOk q f.roots _ w.leaves hg
  have hv : f.value? q = some v := by unfold value?; rw [hg]; rfl
  simp only [leafOk, Bool.and_eq_true, Bool.or_eq_true] at hl
  unfold isElement isDocument
  rw [hv]
  rcases hl.1 with (h' | h') | h'
  · simp at h'
  · exact Or.inl (by simp [h'])
  · exact Or.inr (by simp [h'])

end Forest
end XotModel
