/-
  XotModel.Lemmas.BytesDecode — `encoding::decode` (model `decodeBytes`) on encoded texts:
  byte order marks, declared single-byte / UTF-8 / UTF-16 texts.
-/
import XotModel.Lemmas.BytesSpell

namespace XotModel.Bytes

def asciiBytes (s : Str) : Bytes := s.map Char.toNat

/-! ### Byte order marks: the label does not matter (`Encoding::decode` sniffs first) -/

theorem decodeBytes_bom8 (t : Str) : decodeBytes (bom8 ++ encodeUtf8 t) = some t := by
  unfold decodeBytes decodeSniffed
  have : bomSniff (bom8 ++ encodeUtf8 t) = some (.utf8, encodeUtf8 t) := by
    simp [bomSniff, bom8, List.isPrefixOf]
  rw [this]
  simp only [decodeWith, decodeUtf8_encode]

theorem decodeBytes_bom16 (be : Bool) (t : Str) : decodeBytes (bom16 be ++ encodeUtf16 be t) = some t := by
  unfold decodeBytes decodeSniffed
  cases be
  · have : bomSniff (bom16 false ++ encodeUtf16 false t) = some (.utf16le, encodeUtf16 false t) := by
      simp [bomSniff, bom16, List.isPrefixOf]
    rw [this]
    simp only [decodeWith, decodeUtf16_encode]
  · have : bomSniff (bom16 true ++ encodeUtf16 true t) = some (.utf16be, encodeUtf16 true t) := by
      simp [bomSniff, bom16, List.isPrefixOf]
    rw [this]
    simp only [decodeWith, decodeUtf16_encode]

/-! ### The head of a declared text -/

theorem pushIfNotContains_nil (x : Str) : pushIfNotContains [] x = [x] := by
  simp [pushIfNotContains]

theorem endianify_notApplicable (e : Str) (f : Flavour) (w : Width) :
    endianify e (some ⟨f, w, .notApplicable⟩) = e := by
  unfold endianify
  split <;> rfl

/-- What `encoding()` chooses for a text whose head tells the detector nothing: the declared label
    through `normalise` and `for_label`; UTF-8 without a label. -/
def labelChoice : Option Str → Option Enc
  | some L => forLabel (normalise L)
  | none => some .utf8

/-- A text that begins `<?xml` in a single-byte / UTF-8 form: the label decides, the detector adds
    nothing (`utf-8` when there is no label). -/
theorem encodingOf_xmlHead (rest : Bytes) (D : Option Str)
    (hD : xmlDeclaration (0x3C :: 0x3F :: 0x78 :: 0x6D :: 0x6C :: rest) = D) :
    encodingOf (0x3C :: 0x3F :: 0x78 :: 0x6D :: 0x6C :: rest) = labelChoice D := by
  unfold encodingOf
  rw [hD]
  have hb : detectByteOrderMark 0x3C 0x3F 0x78 0x6D = some ⟨.ascii, .eight, .notApplicable⟩ := by decide
  simp only [List.take, detectHead, hb]
  have hl : bomLabel (some ⟨.ascii, .eight, .notApplicable⟩) = none := by decide
  rw [hl]
  cases D with
  | none =>
    simp only [labelChoice]
    decide
  | some L =>
    simp only [pushIfNotContains_nil, endianify_notApplicable, List.isEmpty_cons, Bool.false_and,
      Bool.false_eq_true, if_false, labelChoice]

theorem bomSniff_lt (b : Nat) (rest : Bytes) (h : b < 0xEF) : bomSniff (b :: rest) = none := by
  have h1 : ¬ 0xEF = b := by omega
  have h2 : ¬ 0xFF = b := by omega
  have h3 : ¬ 0xFE = b := by omega
  simp [bomSniff, List.isPrefixOf, h1, h2, h3]

theorem win1252_ascii (c : Char) (h : c.toNat < 0x80) : win1252 c.toNat = c := by
  unfold win1252
  have : (decide (0x80 ≤ c.toNat) && decide (c.toNat < 0xA0)) = false := by simp; omega
  rw [this]
  simp

theorem map_win1252_ascii (s : Str) (h : ∀ c ∈ s, c.toNat < 0x80) : (asciiBytes s).map win1252 = s := by
  induction s with
  | nil => rfl
  | cons c cs ih =>
    simp only [asciiBytes, List.map_cons, List.cons.injEq]
    exact ⟨win1252_ascii c (h c List.mem_cons_self), ih (fun x hx => h x (List.mem_cons_of_mem _ hx))⟩

theorem asciiBytes_render_head (d : LDecl) :
    ∃ rest, asciiBytes d.render = 0x3C :: 0x3F :: 0x78 :: 0x6D :: 0x6C :: rest := by
  rw [render_eq_attrs]
  exact ⟨_, rfl⟩

/-- The common part of the single-byte / UTF-8 cases: which encoding is chosen. -/
theorem encodingOf_declared (d : LDecl) (hok : d.ok = true) (tail : Bytes) :
    bomSniff (asciiBytes d.render ++ tail) = none ∧
    encodingOf (asciiBytes d.render ++ tail) = labelChoice d.encoding := by
  have hx := xmlDeclaration_spelled d hok [] (asciiBytes d.render) tail (by simp [declBoms])
    (spells_ascii _ (render_ascii d hok))
  rw [List.nil_append] at hx
  obtain ⟨rest, hr⟩ := asciiBytes_render_head d
  rw [hr] at hx ⊢
  simp only [List.cons_append] at hx ⊢
  exact ⟨bomSniff_lt _ _ (by omega), encodingOf_xmlHead _ _ hx⟩

/-- **Declared single-byte text** (`iso-8859-1`, `latin1`, `windows-1252`, `us-ascii`, … — every label
    `for_label` maps to windows-1252): the declaration in ASCII followed by ANY bytes decodes to the
    declaration followed by those bytes read through the windows-1252 table. -/
theorem decodeBytes_latin (d : LDecl) (hok : d.ok = true) (L : Str)
    (hL : d.encoding = some L) (hlabel : forLabel (normalise L) = some .windows1252) (body : Bytes) :
    decodeBytes (asciiBytes d.render ++ body) = some (d.render ++ body.map win1252) := by
  obtain ⟨hb, he⟩ := encodingOf_declared d hok body
  unfold decodeBytes decodeSniffed
  rw [hb, he, hL]
  simp only [labelChoice, hlabel, Option.getD_some, decodeWith, List.map_append,
    map_win1252_ascii _ (fun c hc => (render_ascii d hok c hc).2)]

/-- **Declared (or label-less, or unknown-label) UTF-8 text without byte order mark.** -/
theorem decodeBytes_utf8_declared (d : LDecl) (hok : d.ok = true)
    (hlabel : ∀ L, d.encoding = some L → (forLabel (normalise L)).getD .utf8 = .utf8) (body : Str) :
    decodeBytes (encodeUtf8 (d.render ++ body)) = some (d.render ++ body) := by
  have hasc : encodeUtf8 d.render = asciiBytes d.render :=
    encodeUtf8_ascii _ (fun c hc => (render_ascii d hok c hc).2)
  have hdec := decodeUtf8_encode (d.render ++ body)
  rw [encodeUtf8_append, hasc] at hdec ⊢
  obtain ⟨hb, he⟩ := encodingOf_declared d hok (encodeUtf8 body)
  unfold decodeBytes decodeSniffed
  rw [hb, he]
  cases hL : d.encoding with
  | none => simp only [labelChoice, Option.getD_some, decodeWith, hdec]
  | some L => simp only [labelChoice, hlabel L hL, decodeWith, hdec]

end XotModel.Bytes
