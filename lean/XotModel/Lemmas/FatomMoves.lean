/-
  C06 lemmas: the four moves.  Once the structure check (and the sibling reference check) has
  passed, `append` / `prepend` / `insert_after` / `insert_before` cannot fail any more: the
  indextree `checked_*` calls are never refused, and never leave the list semantics.
-/
import XotModel.Lemmas.FatomSym
import XotModel.Lemmas.FatomPlace

namespace XotModel
open HTree

namespace Forest

theorem get?_of_isLive {f : Forest} {h : Nat} (hl : f.isLive h = true) : ∃ t, f.get? h = some t := by
  unfold isLive at hl
  cases hg : f.get? h with
  | none => rw [hg] at hl; cases hl
  | some t => exact ⟨t, rfl⟩

theorem cut_of_isLive {f : Forest} (w : f.W) {c : Nat} (hl : f.isLive c = true) :
    ∃ f' t, f.cut c = (f', some t) ∧ f'.corrupt = f.corrupt := by
  obtain ⟨t, hg⟩ := get?_of_isLive hl
  obtain ⟨h1, _, _, fr, _⟩ := cut_spec w hg
  refine ⟨(f.cut c).1, t, ?_, fr.corrupt⟩
  rw [← h1]

/-! ### The indextree `checked_*` calls under their list-semantics preconditions -/

/-- Result of a successful `checked_*`: accepted, invariant kept, only the moved subtree touched. -/
structure CheckedOk (f : Forest) (r : Forest × Bool) (c : Nat) : Prop where
  ok : r.2 = true
  w : r.1.W
  frame : ∀ tc, f.get? c = some tc → Frame f r.1 (handles tc)
  count : ∀ a, r.1.allHandles.count a = f.allHandles.count a

theorem checkedUnder_ok {f : Forest} (w : f.W) {p c : Nat} (hpc : p ≠ c)
    (ha : c ∉ f.ancestors p) (hl : f.isLive c = true) (hp : f.isLive p = true)
    (hc : f.isElement p = true ∨ f.isDocument p = true) :
    CheckedOk f (f.checkedAppend p c) c ∧ CheckedOk f (f.checkedPrepend p c) c := by
  obtain ⟨tc, hg⟩ := get?_of_isLive hl
  obtain ⟨h1, w1, hcount, fr1, _⟩ := cut_spec w hg
  have fresh := cut_fresh w hg
  have hpt : p ∉ handles tc := not_mem_subtree w hg ha
  have hp1 : (f.cut c).1.isLive p = true := by rw [fr1.live p hpt]; exact hp
  have hc1 : (f.cut c).1.isElement p = true ∨ (f.cut c).1.isDocument p = true := by
    rw [fr1.isElement hpt, fr1.isDocument hpt]; exact hc
  have hcond : (p = c || (f.ancestors p).contains c) = false := by simp [hpc, ha]
  rcases hcut : f.cut c with ⟨f', o⟩
  rw [hcut] at h1 w1 hcount fr1 fresh hp1 hc1
  simp only at h1 w1 hcount fr1 fresh hp1 hc1
  subst h1
  constructor
  · obtain ⟨w2, hc2, fr2⟩ := placeLast_spec w1 fresh hp1 hc1
    unfold checkedAppend
    simp only [hcond, Bool.false_eq_true, if_false, hcut]
    refine ⟨rfl, w2, ?_, fun a => by have h3 := hcount a; have h4 := hc2 a; simp only; omega⟩
    intro tc' e
    rw [hg] at e; injection e with e; subst e
    exact (fr1.trans fr2).mono (fun x hx => by simpa using hx)
  · obtain ⟨w2, hc2, fr2⟩ := placeFirst_spec w1 fresh hp1 hc1
    unfold checkedPrepend
    simp only [hcond, Bool.false_eq_true, if_false, hcut]
    refine ⟨rfl, w2, ?_, fun a => by have h3 := hcount a; have h4 := hc2 a; simp only; omega⟩
    intro tc' e
    rw [hg] at e; injection e with e; subst e
    exact (fr1.trans fr2).mono (fun x hx => by simpa using hx)

theorem checkedBeside_ok {f : Forest} (w : f.W) {r n : Nat} (hrn : r ≠ n)
    (ha : n ∉ f.ancestors r) (hr : f.isRoot r = false) (hl : f.isLive n = true)
    (hlr : f.isLive r = true) :
    CheckedOk f (f.checkedInsertAfter r n) n ∧ CheckedOk f (f.checkedInsertBefore r n) n := by
  obtain ⟨tc, hg⟩ := get?_of_isLive hl
  obtain ⟨h1, w1, hcount, fr1, _⟩ := cut_spec w hg
  have fresh := cut_fresh w hg
  have hrt : r ∉ handles tc := not_mem_subtree w hg ha
  have hr1 : (f.cut n).1.isLive r = true := by rw [fr1.live r hrt]; exact hlr
  have hroot1 : (f.cut n).1.isRoot r = false := by rw [fr1.isRoot w w1 hrt]; exact hr
  have hcond : ((f.ancestors r).contains n || f.isRoot r) = false := by simp [ha, hr]
  rcases hcut : f.cut n with ⟨f', o⟩
  rw [hcut] at h1 w1 hcount fr1 fresh hr1 hroot1
  simp only at h1 w1 hcount fr1 fresh hr1 hroot1
  subst h1
  constructor
  · obtain ⟨w2, hc2, fr2⟩ := placeAfter_spec w1 fresh hr1 hroot1
    unfold checkedInsertAfter
    simp only [hrn, hcond, Bool.false_eq_true, if_false, hcut]
    refine ⟨rfl, w2, ?_, fun a => by have h3 := hcount a; have h4 := hc2 a; simp only; omega⟩
    intro tc' e
    rw [hg] at e; injection e with e; subst e
    exact (fr1.trans fr2).mono (fun x hx => by simpa using hx)
  · obtain ⟨w2, hc2, fr2⟩ := placeBefore_spec w1 fresh hr1 hroot1
    unfold checkedInsertBefore
    simp only [hrn, hcond, Bool.false_eq_true, if_false, hcut]
    refine ⟨rfl, w2, ?_, fun a => by have h3 := hcount a; have h4 := hc2 a; simp only; omega⟩
    intro tc' e
    rw [hg] at e; injection e with e; subst e
    exact (fr1.trans fr2).mono (fun x hx => by simpa using hx)

/-! ### What a passed structure check says -/

theorem isElement_value {f : Forest} {p : Nat} (h : f.isElement p = true) :
    ∃ n, f.value? p = some (.element n) := by
  unfold isElement at h
  cases hv : f.value? p with
  | none => rw [hv] at h; simp at h
  | some v => cases v <;> simp [hv, Value.isElement] at h ⊢

theorem isDocument_value {f : Forest} {p : Nat} (h : f.isDocument p = true) :
    f.value? p = some .document := by
  unfold isDocument at h
  cases hv : f.value? p with
  | none => rw [hv] at h; simp at h
  | some v => cases v <;> simp [hv, Value.isDocument] at h ⊢

structure Checked (f : Forest) (p c : Nat) : Prop where
  container : f.isElement p = true ∨ f.isDocument p = true
  notAnc : c ∉ f.ancestors p
  normal : ∃ v, f.value? c = some v ∧ v.category = .normal ∧ v.isDocument = false

theorem structureCheck_some {f : Forest} {p c : Nat} (h : f.structureCheck (some p) c = true) :
    Checked f p c := by
  unfold structureCheck at h
  simp only [Bool.and_eq_true, Bool.or_eq_true, Bool.not_eq_true'] at h
  obtain ⟨⟨h1, h2⟩, h3⟩ := h
  refine ⟨h1, by simpa using h2, ?_⟩
  cases hv : f.value? c with
  | none => rw [hv] at h3; cases h3
  | some v => cases v <;> simp [hv, Value.category, Value.isDocument] at h3 ⊢

theorem structureCheck_none {f : Forest} {c : Nat} : f.structureCheck none c = false := rfl

theorem Checked.liveP {f : Forest} {p c : Nat} (h : Checked f p c) : f.isLive p = true := by
  rw [isLive_iff_value?]
  rcases h.container with h' | h'
  · obtain ⟨n, e⟩ := isElement_value h'; rw [e]; rfl
  · rw [isDocument_value h']; rfl

theorem Checked.liveC {f : Forest} {p c : Nat} (h : Checked f p c) : f.isLive c = true := by
  rw [isLive_iff_value?]
  obtain ⟨v, e, _⟩ := h.normal; rw [e]; rfl

theorem Checked.noText {f : Forest} {p c : Nat} (h : Checked f p c) : f.textOf p = none := by
  unfold textOf
  rcases h.container with h' | h'
  · obtain ⟨n, e⟩ := isElement_value h'; rw [e]
  · rw [isDocument_value h']

theorem Checked.ne {f : Forest} (w : f.W) {p c : Nat} (h : Checked f p c) : p ≠ c := by
  intro e; subst e
  exact h.notAnc (self_mem_ancestors w h.liveP)

/-! ### The old-site consolidation step of a move -/

/-- Frames that only delete text leaves keep the chain of every surviving node. -/
theorem Frame.keepAll {f f1 : Forest} {P : List Nat} (fr : Frame f f1 P) (w : f.W)
    (w1 : f1.W) (hP : ∀ x ∈ P, (f.textOf x).isSome = true) {q : Nat} (hq : f.isLive q = true)
    (hqP : q ∉ P) :
    f1.ancestors q = f.ancestors q ∧ f1.parent? q = f.parent? q ∧ f1.isLive q = true := by
  refine ⟨fr.ancestors' w w1 hq ?_, fr.parent q hqP, by rw [fr.live q hqP]; exact hq⟩
  intro y hy hyP
  have ht := hP y hyP
  cases hty : f.textOf y with
  | none => rw [hty] at ht; cases ht
  | some s =>
    obtain ⟨t, hg, hk, _⟩ := text_leaf w hty
    have hne : y ≠ q := fun e => hqP (e ▸ hyP)
    exact leaf_not_ancestor w hg hk hne hy

/-- The state after `remove_consolidate_text_nodes(prev(c), next(c))`, as seen by a move of `c`:
    at most the next sibling (a text leaf) is gone. -/
structure OldSite (f f1 : Forest) (c : Nat) (P : List Nat) : Prop where
  w : f1.W
  fr : Frame f f1 P
  next : ∀ x ∈ P, f.nextSibling c = some x ∧ (f.textOf x).isSome = true

theorem OldSite.cP {f f1 : Forest} {c : Nat} {P : List Nat} (os : OldSite f f1 c P) (w : f.W) :
    c ∉ P := fun h' => (nextSibling_sib w (os.next c h').1).ne rfl

theorem OldSite.keep {f f1 : Forest} {c : Nat} {P : List Nat} (os : OldSite f f1 c P) (w : f.W)
    {q : Nat} (hq : f.isLive q = true) (hqP : q ∉ P) :
    f1.ancestors q = f.ancestors q ∧ f1.parent? q = f.parent? q ∧ f1.isLive q = true :=
  os.fr.keepAll w os.w (fun x hx => (os.next x hx).2) hq hqP

/-- A container (element or document) is never consumed by consolidation. -/
theorem OldSite.notText {f f1 : Forest} {c : Nat} {P : List Nat} (os : OldSite f f1 c P)
    {q : Nat} (hqt : f.textOf q = none) : q ∉ P :=
  fun h' => by have := (os.next q h').2; rw [hqt] at this; cases this

theorem oldSite {f : Forest} (w : f.W) (c : Nat) :
    ∃ P, OldSite f (f.removeConsolidate (f.prevSibling c) (f.nextSibling c)).1 c P := by
  obtain ⟨w1, _, P, hP, fr⟩ := removeConsolidate_spec w (f.prevSibling c) (f.nextSibling c)
  exact ⟨P, w1, fr, fun x hx => ⟨(hP x hx).1, (hP x hx).2.1⟩⟩

/-- What a carried-out move guarantees: outcome `ok`, the invariant, and a frame: only the moved
    subtree and (by consolidation at the old site) the moved node's next sibling are touched. -/
structure MoveOk (f : Forest) (r : Forest × Res) (c : Nat) : Prop where
  ok : r.2 = .ok
  w : r.1.W
  frame : ∃ P, Frame f r.1 P ∧
    ∀ x ∈ P, c ∈ f.ancestors x ∨ (f.nextSibling c = some x ∧ (f.textOf x).isSome = true)

theorem MoveOk.corrupt {f : Forest} {r : Forest × Res} {c : Nat} (m : MoveOk f r c) :
    r.1.corrupt = f.corrupt := by
  obtain ⟨P, fr, _⟩ := m.frame; exact fr.corrupt

theorem moveOk_same {f : Forest} (w : f.W) (c : Nat) : MoveOk f (f, .ok) c :=
  ⟨rfl, w, [], Frame.refl _ _, fun _ h => by cases h⟩

/-- The move ends with the new-site consolidation deleting the moved text node. -/
theorem moveOk_of_added {f f1 f2 : Forest} {c : Nat} {P : List Nat} (w : f.W)
    (os : OldSite f f1 c P) (hlc : f.isLive c = true) (w2 : f2.W) (fr2 : Frame f1 f2 [c]) :
    MoveOk f (f2, .ok) c := by
  refine ⟨rfl, w2, P ++ [c], os.fr.trans fr2, ?_⟩
  intro x hx
  rcases List.mem_append.1 hx with h' | h'
  · exact Or.inr (os.next x h')
  · simp only [List.mem_singleton] at h'; subst h'
    exact Or.inl (self_mem_ancestors w hlc)

/-- The move ends with an accepted indextree `checked_*` call. -/
theorem moveOk_of_checked {f f1 : Forest} {c : Nat} {P : List Nat} (w : f.W)
    (os : OldSite f f1 c P) (hlc : f.isLive c = true) {r : Forest × Bool}
    (ck : CheckedOk f1 r c) : MoveOk f (r.1, .ok) c := by
  have hl1 : f1.isLive c = true := (os.keep w hlc (os.cP w)).2.2
  obtain ⟨tc, hg⟩ := get?_of_isLive hl1
  refine ⟨rfl, ck.w, P ++ handles tc, os.fr.trans (ck.frame tc hg), ?_⟩
  intro x hx
  by_cases hxP : x ∈ P
  · exact Or.inr (os.next x hxP)
  · rcases List.mem_append.1 hx with h' | h'
    · exact absurd h' hxP
    · left
      have h1 : c ∈ f1.ancestors x := mem_ancestors_of_subtree os.w hg h'
      have hx1 : f1.isLive x = true :=
        (isLive_iff_mem f1 x).2 (findList?_handles_sub c f1.roots tc hg x h')
      have hx0 : f.isLive x = true := by rw [← os.fr.live x hxP]; exact hx1
      rw [(os.keep w hx0 hxP).1] at h1
      exact h1

end Forest
end XotModel
