/-
  C06 lemmas: the four moves.  Once the structure check (and the sibling reference check) has
  passed, `append` / `prepend` / `insert_after` / `insert_before` cannot fail any more: the
  indextree `checked_*` calls are never refused, and never leave the list semantics.
-/
import XotModel.Lemmas.FatomSym

namespace XotModel
open HTree

namespace Forest

theorem get?_of_isLive {f : Forest} {h : Nat} (hl : f.isLive h = true) : ∃ t, f.get? h = some t := by
  unfold isLive at hl
  cases hg : f.get? h with
  | none => rw [hg] at hl; cases hl
  | some t => exact ⟨t, rfl⟩

theorem cut_of_isLive {f : Forest} (w : f.W) {c : Nat} (hl : f.isLive c = true) :
    ∃ f' t, f.cut c = (f', some t) ∧ f'.corrupt = f.corrupt := by
  obtain ⟨t, hg⟩ := get?_of_isLive hl
  obtain ⟨h1, _, _, fr, _⟩ := cut_spec w hg
  refine ⟨(f.cut c).1, t, ?_, fr.corrupt⟩
  rw [← h1]

/-! ### The indextree `checked_*` calls under their list-semantics preconditions -/

theorem checkedAppend_ok {f : Forest} (w : f.W) {p c : Nat} (hpc : p ≠ c)
    (ha : c ∉ f.ancestors p) (hl : f.isLive c = true) :
    (f.checkedAppend p c).2 = true ∧ (f.checkedAppend p c).1.corrupt = f.corrupt := by
  obtain ⟨f', t, hc, hcor⟩ := cut_of_isLive w hl
  unfold checkedAppend
  have : (p = c || (f.ancestors p).contains c) = false := by simp [hpc, ha]
  simp only [this, Bool.false_eq_true, if_false, hc]
  exact ⟨trivial, hcor⟩

theorem checkedPrepend_ok {f : Forest} (w : f.W) {p c : Nat} (hpc : p ≠ c)
    (ha : c ∉ f.ancestors p) (hl : f.isLive c = true) :
    (f.checkedPrepend p c).2 = true ∧ (f.checkedPrepend p c).1.corrupt = f.corrupt := by
  obtain ⟨f', t, hc, hcor⟩ := cut_of_isLive w hl
  unfold checkedPrepend
  have : (p = c || (f.ancestors p).contains c) = false := by simp [hpc, ha]
  simp only [this, Bool.false_eq_true, if_false, hc]
  exact ⟨trivial, hcor⟩

theorem checkedInsertAfter_ok {f : Forest} (w : f.W) {r n : Nat} (hrn : r ≠ n)
    (ha : n ∉ f.ancestors r) (hr : f.isRoot r = false) (hl : f.isLive n = true) :
    (f.checkedInsertAfter r n).2 = true ∧ (f.checkedInsertAfter r n).1.corrupt = f.corrupt := by
  obtain ⟨f', t, hc, hcor⟩ := cut_of_isLive w hl
  unfold checkedInsertAfter
  have : ((f.ancestors r).contains n || f.isRoot r) = false := by simp [ha, hr]
  simp only [hrn, this, Bool.false_eq_true, if_false, hc]
  exact ⟨trivial, hcor⟩

theorem checkedInsertBefore_ok {f : Forest} (w : f.W) {r n : Nat} (hrn : r ≠ n)
    (ha : n ∉ f.ancestors r) (hr : f.isRoot r = false) (hl : f.isLive n = true) :
    (f.checkedInsertBefore r n).2 = true ∧ (f.checkedInsertBefore r n).1.corrupt = f.corrupt := by
  obtain ⟨f', t, hc, hcor⟩ := cut_of_isLive w hl
  unfold checkedInsertBefore
  have : ((f.ancestors r).contains n || f.isRoot r) = false := by simp [ha, hr]
  simp only [hrn, this, Bool.false_eq_true, if_false, hc]
  exact ⟨trivial, hcor⟩

/-! ### What a passed structure check says -/

theorem isElement_value {f : Forest} {p : Nat} (h : f.isElement p = true) :
    ∃ n, f.value? p = some (.element n) := by
  unfold isElement at h
  cases hv : f.value? p with
  | none => rw [hv] at h; simp at h
  | some v => cases v <;> simp [hv, Value.isElement] at h ⊢

theorem isDocument_value {f : Forest} {p : Nat} (h : f.isDocument p = true) :
    f.value? p = some .document := by
  unfold isDocument at h
  cases hv : f.value? p with
  | none => rw [hv] at h; simp at h
  | some v => cases v <;> simp [hv, Value.isDocument] at h ⊢

structure Checked (f : Forest) (p c : Nat) : Prop where
  container : f.isElement p = true ∨ f.isDocument p = true
  notAnc : c ∉ f.ancestors p
  normal : ∃ v, f.value? c = some v ∧ v.category = .normal ∧ v.isDocument = false

theorem structureCheck_some {f : Forest} {p c : Nat} (h : f.structureCheck (some p) c = true) :
    Checked f p c := by
  unfold structureCheck at h
  simp only [Bool.and_eq_true, Bool.or_eq_true, Bool.not_eq_true'] at h
  obtain ⟨⟨h1, h2⟩, h3⟩ := h
  refine ⟨h1, by simpa using h2, ?_⟩
  cases hv : f.value? c with
  | none => rw [hv] at h3; cases h3
  | some v => cases v <;> simp [hv, Value.category, Value.isDocument] at h3 ⊢

theorem structureCheck_none {f : Forest} {c : Nat} : f.structureCheck none c = false := rfl

theorem Checked.liveP {f : Forest} {p c : Nat} (h : Checked f p c) : f.isLive p = true := by
  rw [isLive_iff_value?]
  rcases h.container with h' | h'
  · obtain ⟨n, e⟩ := isElement_value h'; rw [e]; rfl
  · rw [isDocument_value h']; rfl

theorem Checked.liveC {f : Forest} {p c : Nat} (h : Checked f p c) : f.isLive c = true := by
  rw [isLive_iff_value?]
  obtain ⟨v, e, _⟩ := h.normal; rw [e]; rfl

theorem Checked.noText {f : Forest} {p c : Nat} (h : Checked f p c) : f.textOf p = none := by
  unfold textOf
  rcases h.container with h' | h'
  · obtain ⟨n, e⟩ := isElement_value h'; rw [e]
  · rw [isDocument_value h']

theorem Checked.ne {f : Forest} (w : f.W) {p c : Nat} (h : Checked f p c) : p ≠ c := by
  intro e; subst e
  exact h.notAnc (self_mem_ancestors w h.liveP)

/-! ### The old-site consolidation step of a move -/

/-- The state after `remove_consolidate_text_nodes(prev(c), next(c))`, as seen by a move of `c`. -/
structure OldSite (f f1 : Forest) (c : Nat) : Prop where
  w : f1.W
  corrupt : f1.corrupt = f.corrupt
  liveC : f1.isLive c = f.isLive c
  catC : (f1.value? c).map Value.category = (f.value? c).map Value.category
  /-- containers keep their ancestor chain, liveness and parent -/
  keep : ∀ q, f.isLive q = true → f.textOf q = none →
    f1.ancestors q = f.ancestors q ∧ f1.parent? q = f.parent? q ∧ f1.isLive q = true

/-- Frames that only delete text leaves keep the chain of every non-text node. -/
theorem Frame.keepContainer {f f1 : Forest} {P : List Nat} (fr : Frame f f1 P) (w : f.W)
    (w1 : f1.W) (hP : ∀ x ∈ P, (f.textOf x).isSome = true) {q : Nat} (hq : f.isLive q = true)
    (hqt : f.textOf q = none) :
    f1.ancestors q = f.ancestors q ∧ f1.parent? q = f.parent? q ∧ f1.isLive q = true := by
  have hqP : q ∉ P := fun h' => by have := hP q h'; rw [hqt] at this; cases this
  refine ⟨fr.ancestors' w w1 hq ?_, fr.parent q hqP, by rw [fr.live q hqP]; exact hq⟩
  intro y hy hyP
  have ht := hP y hyP
  cases hty : f.textOf y with
  | none => rw [hty] at ht; cases ht
  | some s =>
    obtain ⟨t, hg, hk, _⟩ := text_leaf w hty
    have hne : y ≠ q := fun e => by subst e; rw [hqt] at hty; cases hty
    exact leaf_not_ancestor w hg hk hne hy

theorem oldSite {f : Forest} (w : f.W) (c : Nat) :
    OldSite f (f.removeConsolidate (f.prevSibling c) (f.nextSibling c)).1 c := by
  obtain ⟨w1, _, P, hP, fr⟩ := removeConsolidate_spec w (f.prevSibling c) (f.nextSibling c)
  have hcP : c ∉ P := fun h' => (nextSibling_sib w (hP c h').1).ne rfl
  exact ⟨w1, fr.corrupt, fr.live c hcP, fr.category hcP,
    fun q hq hqt => fr.keepContainer w w1 (fun x hx => (hP x hx).2.1) hq hqt⟩

end Forest
end XotModel
