/-
  XotModel.Lemmas.SerIndentDefs — specification side of C14_options_indent (NOT a model of Rust code).

  * `prettyTree sup t` : the tree a parser reads the indented serialisation of the document `t` as:
    `t` with one whitespace-only text node in front of every child and behind the last child of every
    element whose content the `Pretty` stack grants whitespace to (`PStack.getNewline`: no open element
    with a text child or in the suppress list, innermost `xml:space` not `preserve`).  White space
    between the top-level nodes of the document is not part of it (the tokenizer skips it).
  * `spellNodeP` : the spelling (Lemmas/RoundTripDefs.lean vocabulary) of what the indenting writer writes
    for a subtree: `spellNodeO` with those whitespace runs as character data nodes.
  * `AddsWs t t'` : "`t'` differs from `t` only by added whitespace-only text nodes".
-/
import XotModel.Lemmas.SerOptDefs
import XotModel.Lemmas.PrettyTrace

namespace XotModel
open Gen

/-! ### What the `Pretty` stack grants -/

/-- The bytes `serialize_pretty` writes in front of a token that opens markup. -/
def indOf (ps : PStack) : Str := if ps.getIndentation > 0 then indentBytes ps.getIndentation else []

/-- … and behind a token that closes markup. -/
def nlOf (ps : PStack) : Str := if ps.getNewline then prettyNewline else []

/-- The white space between two children in content whose stack is `pc`. -/
def gapOf (pc : PStack) : Str := nlOf pc ++ indOf pc

/-- The white space between the last child and the end tag (`pc` = content stack, `ps` = the stack
    around the element). -/
def gapEnd (pc ps : PStack) : Str := nlOf pc ++ (if !(pc.inMixed || pc.inSpacePreserve) then indOf ps else [])

/-- Blank or line feed. -/
def isWsChar (c : Char) : Bool := c == ' ' || c == '\n'

/-- A non-empty run becomes one text node. -/
def wsNode (w : Str) : List Tree := if w.isEmpty then [] else [.node (.text w) []]

/-! ### The tree the indented output is read as -/

/-- The subtree `n`, written inside content whose `Pretty` stack is `ps`. -/
def prettyNode (sup : List Nat) (ps : PStack) : Tree → Tree
  | .node v ks =>
    match v with
    | .element name =>
      if (Tree.node (.element name) ks).firstChild?.isSome then
        .node v (prettyKids sup (entryFor sup (.node (.element name) ks) :: ps)
            (gapOf (entryFor sup (.node (.element name) ks) :: ps)) ks
          ++ wsNode (gapEnd (entryFor sup (.node (.element name) ks) :: ps) ps))
      else .node v ks
    | _ => .node v ks
where
  prettyKids (sup : List Nat) (pc : PStack) (gap : Str) : List Tree → List Tree
    | [] => []
    | k :: ks => (if k.value.isNormal then wsNode gap else []) ++ prettyNode sup pc k :: prettyKids sup pc gap ks

/-- The document: no white space node at the top level. -/
def prettyTree (sup : List Nat) : Tree → Tree
  | .node v ks => .node v (ks.map (prettyNode sup []))

/-! ### The spelling the indenting writer writes -/

/-- A non-empty run as a character data node. -/
def wsChars (w : Str) : List NSNode := if w.isEmpty then [] else [.chars [.txt (textPieces w) 0]]

/-- `spellNodeO` with the white space of `serialize_pretty` inside elements. -/
def spellNodeP (env : Env) (pr : TokenParams) (sup : List Nat) (inScope : List (Nat × Nat)) (isTop : Bool)
    (s : FStack) (cd : Bool) (ps : PStack) : Tree → List NSNode
  | .node v ks =>
    match v with
    | .element name =>
      let n := Tree.node (.element name) ks
      let s' := s.push n.nsDecls
      let pfx := sp0 (prefixText env (okPrefix (s'.elementPrefix env name)))
      let loc := sp0 (env.localName name)
      if n.firstChild?.isNone then
        .empty pfx loc noSpan (spellItems env inScope isTop s' n) noSpan ::
          spellKidsP env pr sup inScope s' (kidsCd pr (.element name)) ps [] ks
      else
        [.elem pfx loc noSpan (spellItems env inScope isTop s' n) noSpan
          (spellKidsP env pr sup inScope s' (kidsCd pr (.element name)) (entryFor sup n :: ps)
              (gapOf (entryFor sup n :: ps)) ks
            ++ wsChars (gapEnd (entryFor sup n :: ps) ps)) pfx loc noSpan]
    | .text str => .chars (textParts pr cd str) :: spellKidsP env pr sup inScope s false ps [] ks
    | .comment str => .comment (sp0 str) noSpan :: spellKidsP env pr sup inScope s false ps [] ks
    | .pi target data =>
      .pi (sp0 (env.localName target)) (data.map sp0) noSpan :: spellKidsP env pr sup inScope s false ps [] ks
    | _ => spellKidsP env pr sup inScope s false ps [] ks
where
  spellKidsP (env : Env) (pr : TokenParams) (sup : List Nat) (inScope : List (Nat × Nat)) (s : FStack)
      (cd : Bool) (pc : PStack) (gap : Str) : List Tree → List NSNode
    | [] => []
    | k :: ks =>
      (if k.value.isNormal then wsChars gap else []) ++ spellNodeP env pr sup inScope false s cd pc k
        ++ spellKidsP env pr sup inScope s cd pc gap ks

/-- What is written for one node in content with stack `ps`: markup nodes (element, comment, PI) get the
    indentation in front and the newline behind. -/
def wrapP (ps : PStack) (v : Value) (x : Str) : Str :=
  match v with
  | .element _ => indOf ps ++ x ++ nlOf ps
  | .comment _ => indOf ps ++ x ++ nlOf ps
  | .pi _ _ => indOf ps ++ x ++ nlOf ps
  | _ => x

/-! ### "Differs only by added whitespace-only text nodes" -/

/-- A whitespace-only text leaf. -/
def Tree.isWsText : Tree → Bool
  | .node (.text w) [] => !w.isEmpty && w.all isWsChar
  | _ => false

mutual
/-- `t'` is `t` with whitespace-only text nodes added among the children of some nodes. -/
inductive AddsWs : Tree → Tree → Prop where
  | node (v : Value) {ks ks' : List Tree} : AddsWsList ks ks' → AddsWs (.node v ks) (.node v ks')
/-- Child lists: the same children in the same order (each possibly with additions inside), with
    whitespace-only text leaves inserted anywhere. -/
inductive AddsWsList : List Tree → List Tree → Prop where
  | nil : AddsWsList [] []
  | cons {k k' : Tree} {ks ks' : List Tree} : AddsWs k k' → AddsWsList ks ks' → AddsWsList (k :: ks) (k' :: ks')
  | ins {w : Tree} {ks ks' : List Tree} : w.isWsText = true → AddsWsList ks ks' → AddsWsList ks (w :: ks')
end

end XotModel
