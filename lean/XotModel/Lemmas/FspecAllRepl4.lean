/-
  FspecAllRepl4 — C05 for `replace`, pair reading, part 4: the first two calls of `replace`
  (`remove_subtree(old)`, then `insert_after(previous, new)` or `prepend(parent, new)`) give the
  forest `replMid` with the replacing node merged at its new place (`mergeNewAt`) — for EVERY
  forest with the invariant.  The edit algebra is that of `FspecReplSpec.lean` (`repl_core`).
-/
import XotModel.Lemmas.FspecAllRepl3

namespace XotModel
open HTree Spec

namespace ReplArgs
variable {f : Forest} {a b q : Nat} {vq : Value} {l : List HTree} {A : HTree} {r : List HTree} {t : HTree}

theorem off_inv1 (h : ReplArgs f a b q vq l A r t) (inv : f.Inv) : (f.editAt (some q) (dropTop a)).off.Inv := by
  have := drop_off_inv inv h.sq
  rw [h.ha] at this
  exact this

/-- `insert_after(previous, new)` on the forest without the replaced subtree. -/
theorem after_eq (h : ReplArgs f a b q vq l A r t) (inv : f.Inv) {p : Nat} (hp : prevOf l A = some p)
    (h1 : prevOf l A ≠ some b) (h2 : nextOf r A ≠ some b)
    (hok : ((f.editAt (some q) (dropTop a)).insertAfter p b).2 = .ok) :
    ((f.editAt (some q) (dropTop a)).insertAfter p b).1 = (replMid f a b q t).mergeNewAt q b := by
  have hpb : p ≠ b := fun e => h1 (by rw [hp, e])
  obtain ⟨l2, P, el, hP, _⟩ := prevOf_eq_some hp
  subst el
  have s1 : SiteAt (f.editAt (some q) (dropTop a)) q vq (l2 ++ P :: r) := by
    have := h.site1
    rw [List.append_assoc] at this
    exact this
  have hctxp : (f.editAt (some q) (dropTop a)).ctx? p = some ⟨q, l2, P, r⟩ := hP ▸ s1.ctx
  have hocc : (Dest.after p).occupiedBy (f.editAt (some q) (dropTop a)) b = false := by
    simp only [Dest.occupiedBy, hctxp]
    cases r with
    | nil => rfl
    | cons R r2 =>
      by_cases hR : R.handle = b
      · exact absurd (h.nextOf_head rfl hR) h2
      · simp [hR]
  have hsite : Dest.site (f.editAt (some q) (dropTop a)) (.after p) = some q := Forest.parent?_of_ctx hctxp
  obtain ⟨ndL, _⟩ := h.sq.nodupKids
  have hshape : ShapeAfter p a ((l2 ++ [P]) ++ A :: r) := by
    have e1 : (l2 ++ [P]) ++ A :: r = l2 ++ P :: (A :: r) := by simp
    rw [e1] at ndL
    obtain ⟨tl, _⟩ := tops_ne_of_nodup ndL
    refine ⟨l2, P, A, r, e1, hP, h.ha, ?_, fun k hk => hP ▸ tl k hk,
      fun k hk => h.tops.1 k (List.mem_append_left _ hk), h.tops.2⟩
    rw [← hP]
    exact h.tops.1 P (List.mem_append_right _ List.mem_cons_self)
  have core := repl_core (a := a) h.sq h.hgb h.hqt (ShapeAfter p a) (insertAfterTop p t)
    (fun _ h' => h'.ins t) (fun _ hφ _ h' => h'.map hφ) (fun _ h' => h'.drop hpb h.hab) hshape
  rw [insertAfter_pair_w (h.off_inv1 inv) hok, specMoveP_unfold hocc h.get1 hsite, h.parent1, h.nb1 h1 h2]
  unfold replMid
  simp only [Dest.insert]
  rw [core]

/-- `prepend(parent, new)` on the forest without the replaced subtree. -/
theorem first_eq (h : ReplArgs f a b q vq l A r t) (inv : f.Inv) (hp : prevOf l A = none)
    (h1 : prevOf l A ≠ some b) (h2 : nextOf r A ≠ some b)
    (hok : ((f.editAt (some q) (dropTop a)).prepend q b).2 = .ok) :
    ((f.editAt (some q) (dropTop a)).prepend q b).1 = (replMid f a b q t).mergeNewAt q b := by
  have hord : kidsOrdered (l ++ A :: r) = true := (validTree_node (h.sq.valid inv.valid)).2.1
  obtain ⟨ln, rn⟩ := ordered_first hord h.hAn hp
  have s1 := h.site1
  have hocc : (Dest.firstNormalChildOf q).occupiedBy (f.editAt (some q) (dropTop a)) b = false := by
    simp only [Dest.occupiedBy, Forest.kidsOf_of_get s1.kids]
    rw [List.dropWhile_append_of_pos (by intro k hk; simp [ln k hk])]
    cases r with
    | nil => rfl
    | cons R r2 =>
      rw [List.dropWhile_cons_of_neg (by simp [rn R List.mem_cons_self])]
      by_cases hR : R.handle = b
      · exact absurd (h.nextOf_head rfl hR) h2
      · simp [hR]
  have hsite : Dest.site (f.editAt (some q) (dropTop a)) (.firstNormalChildOf q) = some q := by
    simp only [Dest.site, Forest.isLive_of_get s1.kids, if_true]
  have hshape : ShapeFirst a (l ++ A :: r) := ⟨l, A, r, rfl, h.ha, h.tops.1, h.tops.2, ln, rn⟩
  have core := repl_core (a := a) h.sq h.hgb h.hqt (ShapeFirst a) (insertFirstNormal t)
    (fun _ h' => h'.ins t) (fun _ hφ _ h' => h'.map hφ) (fun _ h' => h'.drop h.hab) hshape
  rw [prepend_pair_w (h.off_inv1 inv) hok, specMoveP_unfold hocc h.get1 hsite, h.parent1, h.nb1 h1 h2]
  unfold replMid
  simp only [Dest.insert]
  rw [core]

end ReplArgs
end XotModel
