/-
  GENERATED COPY (wt-c17str) of the declarations of XotModel.Lemmas.RoundTripItems that depend on `valueOK`, restated in the
  namespace `XotModel.PiColon`, where `valueOK` asks of a PI target what the tokenizer's `consume_name` accepts
  (`nameOK`: colons allowed) instead of an NCName (Lemmas/PiColonDefs.lean).  Proof texts unchanged except where noted.
-/
import XotModel.Lemmas.RoundTripItems
import XotModel.Lemmas.PiColonRoundTripScope

namespace XotModel.PiColon

variable {env : Env}

/-- The declarations of an element of a `nodeOK` tree. -/
theorem declsOK_of_nodeOK {v : Value} {ks : List Tree} (hn : (Tree.node v ks).allNodes (nodeOK env) = true) :
    DeclsOK env (Tree.node v ks).nsDecls := by
  have hnode : nodeOK env v ks = true := by
    rw [allNodes_node, Bool.and_eq_true] at hn; exact hn.1
  obtain ⟨hord, _, huniq, _, _⟩ := (nodeOK_iff env v ks).mp hnode
  refine ⟨?_, fun d hd => nsDecls_valueOK env hn hd⟩
  unfold UniquePrefixes
  rw [nsDecls_eq_kidDecls v ks hord, kidDecls_fst]
  exact huniq.2

/-! ### The items of the spelled start tag -/

theorem valueOK_attribute_facts {name : Nat} {v : Str} (h : valueOK env (.attribute name v) = true) :
    env.localName name ≠ [] ∧
      ¬ (env.nsOfName name = Env.noNamespace ∧ env.localName name = xmlnsName) ∧
      (isXmlIdName env name = true → normalizeXmlId v = v) := by
  simp only [valueOK, Bool.and_eq_true, Bool.or_eq_true, Bool.not_eq_true', beq_iff_eq, ncNameNE,
    List.isEmpty_eq_false_iff, Bool.and_eq_false_iff, beq_eq_false_iff_ne, ne_eq] at h
  obtain ⟨⟨⟨⟨_, h1⟩, _⟩, h2⟩, h3⟩ := h
  refine ⟨h1, fun hh => ?_, fun hid => ?_⟩
  · rcases h2 with h2 | h2
    · exact h2 hh.1
    · exact h2 hh.2
  · rcases h3 with h3 | h3
    · rw [hid] at h3; cases h3
    · exact h3

set_option linter.unusedSimpArgs false in
set_option linter.unusedVariables false in
/-- One spelled attribute: an ordinary attribute denoting (expanded name, value). -/
theorem spellAttr_facts (he : EnvFacts env) {s : FStack} {fs : Frames} {sc : Scope}
    (hrel : ScopeRel env s fs sc) {a : Nat × Str} (hv : valueOK env (.attribute a.1 a.2) = true)
    {p : Option Nat} (hp : s.attributePrefix env a.1 = .ok p) :
    (spellAttr env s a).declares = none ∧ NSAttr.denote sc (spellAttr env s a) = attrStr env a ∧
      (spellAttr env s a).pfx.text = prefixText env p ∧
      ((spellAttr env s a).pfx.text ≠ [] → (sc.lookup (spellAttr env s a).pfx.text).isSome = true) := by
  obtain ⟨h1, h2, h3, h4, h5, hns⟩ := hrel.attribute he hp
  obtain ⟨_, hx, hid⟩ := valueOK_attribute_facts hv
  have hpfx : (spellAttr env s a).pfx.text = prefixText env p := by simp [spellAttr, hp, okPrefix, sp0]
  have hloc : (spellAttr env s a).loc.text = env.localName a.1 := rfl
  have hpieces : (spellAttr env s a).pieces = attrPieces a.2 := rfl
  refine ⟨?_, ?_, hpfx, fun hne => hpfx ▸ h2 (hpfx ▸ hne)⟩
  · unfold NSAttr.declares
    rw [hpfx, hloc]
    have b1 : (prefixText env p == xmlnsStr) = false := by
      rw [← xmlnsName_eq]; simpa using h3
    simp only [b1, Bool.false_eq_true, if_false]
    by_cases he0 : prefixText env p = []
    · have : env.localName a.1 ≠ xmlnsStr := fun hh => hx ⟨h4 he0, hh⟩
      have b2 : (env.localName a.1 == xmlnsStr) = false := by simpa using this
      simp [b2]
    · have : (prefixText env p).isEmpty = false := by simpa using he0
      simp [this]
  · unfold NSAttr.denote NSAttr.value
    rw [hpfx, hloc, hpieces, h1, valueOf_attrPieces]
    simp only [attrStr, Env.expanded]
    congr 1
    split
    · rename_i hc
      -- the ID normalisation applies: by the name as written (`xml:id`), or — after the repair of
      -- the builder (wt-parsefix) — by the expanded name; either way the value is normalised already.
      -- `hc` is `local = id ∧ prefix = xml` in the first case, `URI = XML namespace ∧ local = id` in the
      -- second; the script below is valid for both.
      simp only [Bool.and_eq_true, beq_iff_eq, Prod.mk.injEq] at hc
      obtain ⟨x, y⟩ := hc
      have hl : env.localName a.1 = ['i', 'd'] := by first | exact x | exact y
      have hn : env.nsOfName a.1 = Env.xmlNamespace := by
        first
          | exact h5 y
          | exact he.namespaceStr_inj hns he.xmlNamespace_lt (x.trans he.ns1.symm)
      exact hid (by simp [isXmlIdName, hn, hl])
    · rfl

theorem spellAttrs_items (he : EnvFacts env) {s : FStack} {fs : Frames} {sc : Scope}
    (hrel : ScopeRel env s fs sc) : ∀ (as : List (Nat × Str)),
    (∀ a ∈ as, valueOK env (.attribute a.1 a.2) = true) →
    (∀ a ∈ as, ∃ p, s.attributePrefix env a.1 = .ok p) →
    declsOf (as.map (spellAttr env s)) = [] ∧ ordinary (as.map (spellAttr env s)) = as.map (spellAttr env s) ∧
      (as.map (spellAttr env s)).map (NSAttr.denote sc) = as.map (attrStr env)
  | [], _, _ => ⟨rfl, rfl, rfl⟩
  | a :: as, hv, hp => by
    obtain ⟨p, hpa⟩ := hp a (by simp)
    obtain ⟨h1, h2, _, _⟩ := spellAttr_facts he hrel (hv a (by simp)) hpa
    obtain ⟨h3, h4, h5⟩ := spellAttrs_items he hrel as (fun a' ha' => hv a' (by simp [ha']))
      (fun a' ha' => hp a' (by simp [ha']))
    refine ⟨?_, ?_, ?_⟩
    · simp only [List.map_cons, declsOf, List.filterMap_cons, h1, Option.map_none] at h3 ⊢
      exact h3
    · simp only [List.map_cons, ordinary, List.filter_cons, NSAttr.isDecl, h1, Option.isSome_none,
        Bool.not_false, if_true] at h4 ⊢
      rw [h4]
    · simp only [List.map_cons, h2, h5]

/-- The items of the start tag of an element that is not the start node. -/
theorem spellItems_facts (he : EnvFacts env) {s' : FStack} {fs : Frames} {sc : Scope}
    (hrel : ScopeRel env s' fs sc) (inScope : List (Nat × Nat)) (n : Tree) (hd : DeclsOK env n.nsDecls)
    (hv : ∀ a ∈ n.attrs, valueOK env (.attribute a.1 a.2) = true)
    (hp : ∀ a ∈ n.attrs, ∃ p, s'.attributePrefix env a.1 = .ok p) :
    declsOf (spellItems env inScope false s' n) = n.nsDecls.map (declStr env) ∧
      attrsOf sc (spellItems env inScope false s' n) = n.attrs.map (attrStr env) ∧
      ordinary (spellItems env inScope false s' n) = n.attrs.map (spellAttr env s') := by
  obtain ⟨h1, h2⟩ := spellDecls_items he n.nsDecls (fun d hd' => (valueOK_namespace_facts (hd.2 d hd')).2.1)
  obtain ⟨h3, h4, h5⟩ := spellAttrs_items he hrel n.attrs hv hp
  simp only [spellItems, writtenDecls, Bool.false_eq_true, if_false, List.nil_append, attrsOf,
    declsOf_append, ordinary_append, h1, h2, h3, h4, h5, List.append_nil, List.nil_append, and_self]

end XotModel.PiColon
