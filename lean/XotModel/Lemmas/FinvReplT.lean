/-
  Finv (C04), part 33: `replace` in the gap case — the argument checks of
  `insert_after(previous, replacing)` on the state after `remove_subtree(replaced)`, and the case of
  a text replacing node: it is merged into the left text, then the final consolidation (of the
  right text with what now stands before it: the left text) merges the right text; the result is `remove(replaced)` applied to the (valid) forest in which the replacing
  text has already been merged into the left text.
-/
import XotModel.Lemmas.FinvRepl

namespace XotModel
open HTree

namespace Forest

/-- A refused consolidation is refused in any forest that reads the same texts. -/
theorem removeConsolidate_false_of {f f' g : Forest} {pu nv : Option Nat}
    (h : f.removeConsolidate pu nv = (f', false)) (hc : g.consolidation = f.consolidation)
    (ht : ∀ x, (pu = some x ∨ nv = some x) → g.textOf x = f.textOf x) :
    g.removeConsolidate pu nv = (g, false) := by
  unfold removeConsolidate at h ⊢
  rw [hc]
  split
  · rfl
  · rename_i hcons
    rw [if_neg hcons] at h
    cases pu with
    | none => rfl
    | some p =>
      cases nv with
      | none => rfl
      | some n =>
        simp only at h ⊢
        rw [ht p (Or.inl rfl), ht n (Or.inr rfl)]
        cases hp : f.textOf p with
        | none => rfl
        | some ps =>
          cases hn : f.textOf n with
          | none => rfl
          | some ns => rw [hp, hn] at h; simp at h

theorem addConsolidate_prev_merge {f : Forest} {node p : Nat} {a ps : Str} (next : Option Nat)
    (hc : f.consolidation = true) (hn : f.textOf node = some a) (hp : f.textOf p = some ps)
    (hne : p ≠ node) :
    f.addConsolidate node (some p) next = ((f.setValue p (.text (ps ++ a))).spliceOut node, true) := by
  rw [addConsolidate_eq_old, selfPrev_of_ne (by simpa using hne)]
  unfold addConsolidateOld
  simp [hc, hn, hp]

/-- indextree `remove` of a leaf is `remove_subtree`. -/
theorem spliceOut_leaf_eq_drop {g : Forest} (nd : g.allHandles.Nodup) {n : Nat} {t : HTree}
    (hg : g.get? n = some t) (hk : t.kids = []) : g.spliceOut n = g.dropSubtree n := by
  have hl : g.isLive n = true := by simp [isLive, hg]
  obtain ⟨path, l, k, r, lc⟩ := exists_loc (mem_allHandles_of_isLive hl)
  have := get?_of_loc lc nd
  rw [hg] at this; cases this
  unfold dropSubtree
  rw [cut_of_loc lc nd]
  cases path with
  | nil => rw [spliceOut_of_loc_nil lc nd, hk]; simp
  | cons fr rest => rw [spliceOut_of_loc_cons lc nd, hk]; simp

/-- Whether `a` is above `x` only depends on the subtree of `a`. -/
theorem anc_contains_congr {g g' : Forest} (nd : g.allHandles.Nodup) (nd' : g'.allHandles.Nodup) {a : Nat}
    {path l A r path' l' r'} (lc : Loc g.roots a path l A r) (lc' : Loc g'.roots a path' l' A r')
    {x : Nat} (hx : x ∈ g.allHandles) (hx' : x ∈ g'.allHandles) :
    (g'.ancestors x).contains a = (g.ancestors x).contains a := by
  rw [Bool.eq_iff_iff]
  constructor
  · intro h; exact anc_of_mem_subtree lc nd (mem_subtree_of_anc lc' nd' hx' h)
  · intro h; exact anc_of_mem_subtree lc' nd' (mem_subtree_of_anc lc nd hx h)

section gap
variable {f : Forest} {a : Nat} {init : List ZipFrame} {fr : ZipFrame} {l0 : List HTree} {P A N : HTree}
  {r0 : List HTree} {ps ns : Str}

/-- What the argument checks of `replace` say about the replacing node `b`. -/
structure ReplArgs (f : Forest) (a b : Nat) (fr : ZipFrame) (P N : HTree) (bv : Value) : Prop where
  live : b ∈ f.allHandles
  val : f.value? b = some bv
  normal : bv.category = .normal
  nodoc : bv.isDocument = false
  kind : fr.v.isElement = true ∨ fr.v.isDocument = true
  ancPar : (f.ancestors fr.h).contains b = false
  ancB : (f.ancestors b).contains a = false
  ancA : (f.ancestors a).contains b = false
  neP : b ≠ P.handle
  neN : b ≠ N.handle

theorem Gap.locPar (g : Gap f a init fr l0 P A N r0 ps ns) :
    Loc f.roots fr.h init fr.l (.node fr.h fr.v ((l0 ++ [P]) ++ A :: N :: r0)) fr.r :=
  ⟨by rw [g.loc.eq, plug_append]; rfl, rfl⟩

theorem Gap.locPar1 (g : Gap f a init fr l0 P A N r0 ps ns) (nd : f.allHandles.Nodup) :
    Loc (f.dropSubtree a).roots fr.h init fr.l (.node fr.h fr.v (l0 ++ P :: N :: r0)) fr.r := by
  rw [g.drop nd]; exact ⟨by simp [plug_append], rfl⟩

/-- From the checks of `replace` (after its refusals and the early `remove`). -/
theorem Gap.replArgs (g : Gap f a init fr l0 P A N r0 ps ns) (hi : f.Inv) {b : Nat}
    (hsc : f.structureCheck (some fr.h) b = true) (hancB : (f.ancestors b).contains a = false)
    (hprev : ¬(f.prevSibling a == some b) = true) (hnext : ¬(f.nextSibling a == some b) = true) :
    ∃ bv, ReplArgs f a b fr P N bv := by
  have nd := hi.nodup
  obtain ⟨pv, bv, hpv, hpk, hancp, hbv, hbn, hbd⟩ := fi_structureCheck_some hsc
  have hfrv : pv = fr.v := by
    have := value?_of_loc g.locPar nd; rw [hpv] at this; exact (Option.some.inj this)
  subst hfrv
  have hba : b ≠ a := by
    intro e; subst e
    rw [ancestors_of_loc g.loc nd] at hancB; simp at hancB
  refine ⟨bv, mem_allHandles_of_isLive (isLive_of_value? hbv), hbv, hbn, hbd, hpk, hancp, hancB, ?_, ?_, ?_⟩
  · rw [ancestors_of_ctx? nd (g.ctx nd)]
    simp only [List.contains_cons, Bool.or_eq_false_iff, beq_eq_false_iff_ne, ne_eq]
    exact ⟨fun e => hba e, hancp⟩
  · intro e; apply hprev; rw [g.prev nd, e]; simp
  · intro e; apply hnext; rw [g.next nd, e]; simp

/-- The argument checks of `insert_after(P, b)` pass on the state after `remove_subtree(a)`. -/
theorem Gap.guards (g : Gap f a init fr l0 P A N r0 ps ns) (hi : f.Inv) {b : Nat} {bv : Value}
    (ra : ReplArgs f a b fr P N bv) :
    (f.dropSubtree a).parent? P.handle = some fr.h ∧
    (f.dropSubtree a).structureCheck (some fr.h) b = true ∧
    (f.dropSubtree a).siblingReferenceCheck P.handle b = true ∧
    ((f.dropSubtree a).nextSibling P.handle == some b) = false := by
  have nd := hi.nodup
  have nd1 := g.drop_nodup nd
  have lcP := g.locP1 nd
  obtain ⟨_, _, hv, _, _, _, _⟩ := g.sibs_b nd ra.live ra.ancB ra.ancA ra.neP ra.neN
  refine ⟨?_, ?_, ?_, ?_⟩
  · unfold parent?; rw [ctx?_of_loc_snoc lcP nd1]; rfl
  · apply structureCheck_eval (value?_of_loc (g.locPar1 nd) nd1) ra.kind ?_ (by rw [hv]; exact ra.val)
      ra.normal ra.nodoc
    rw [ancestors_of_loc (g.locPar1 nd) nd1, ← ancestors_of_loc g.locPar nd]
    exact ra.ancPar
  · unfold siblingReferenceCheck isNormalNode
    rw [value?_of_loc lcP nd1]
    simp [Ne.symm ra.neP, Value.isNormal, g.hPn]
  · rw [nextSibling_of_loc_snoc lcP nd1]
    simp [g.hNn, g.hPn, Ne.symm ra.neN]

/-- The replacing node is a text node. -/
theorem Gap.replace_text (g : Gap f a init fr l0 P A N r0 ps ns) (hi : f.Inv) {b : Nat} {bv : Value}
    (ra : ReplArgs f a b fr P N bv) (hbt : bv.isText = true) :
    ∃ Y, (f.dropSubtree a).insertAfter P.handle b = (Y, .ok) ∧
      (Y.removeConsolidate (Y.prevSibling N.handle) (some N.handle)).1.Inv := by
  have nd := hi.nodup
  have nd1 := g.drop_nodup nd
  obtain ⟨hpar, hsc1, hsr1, hnx1⟩ := g.guards hi ra
  obtain ⟨hpb, hnb, hvb, _, _, _, htx⟩ := g.sibs_b nd ra.live ra.ancB ra.ancA ra.neP ra.neN
  obtain ⟨bs, hbs⟩ := exists_text_of_isText hbt
  subst hbs
  have hcons := consolidation_of_strict hi g.strict
  have hcons1 : (f.dropSubtree a).consolidation = true := by rw [g.drop nd]; exact hcons
  -- nothing to consolidate where `b` was: `b` is text, strict mode
  obtain ⟨g', bb, so⟩ := exists_sibsOut hi ra.live
  obtain ⟨eg, ebb⟩ := so.same g.strict (fun cv h => by rw [ra.val] at h; cases h; rfl)
  have heq := so.eq
  rw [eg, ebb] at heq
  have hrc1 : (f.dropSubtree a).removeConsolidate (f.prevSibling b) (f.nextSibling b) =
      (f.dropSubtree a, false) :=
    removeConsolidate_false_of heq (by rw [g.drop nd]) (fun x hx => (htx x hx).1)
  have lcP1 := g.locP1 nd
  have htb1 : (f.dropSubtree a).textOf b = some bs := by
    rw [textOf_eq_some_iff, hvb]; exact ra.val
  have htp1 : (f.dropSubtree a).textOf P.handle = some ps := by
    rw [textOf_eq_some_iff, value?_of_loc lcP1 nd1, g.hP]
  refine ⟨((f.dropSubtree a).setValue P.handle (.text (ps ++ bs))).spliceOut b, ?_, ?_⟩
  · unfold insertAfter
    simp only [hpar, hsc1, hsr1, hnx1, hpb, hnb, hrc1, Bool.not_true, Bool.false_eq_true, if_false,
      Bool.false_and, addConsolidate_prev_merge _ hcons1 htb1 htp1 (Ne.symm ra.neP), if_true]
  · -- the valid forest in which `b` has been merged into `P`
    have htp : f.textOf P.handle = some ps := by
      have lcP : Loc f.roots P.handle (init ++ [fr]) l0 P (A :: N :: r0) := ⟨by rw [g.loc.eq]; simp, rfl⟩
      rw [textOf_eq_some_iff, value?_of_loc lcP nd, g.hP]
    have htb : f.textOf b = some bs := by rw [textOf_eq_some_iff]; exact ra.val
    have hYf : ((f.setValue P.handle (.text (ps ++ bs))).spliceOut b).Inv := merge_inv hi _ htp htb
    have hfs : (f.setValue P.handle (.text (ps ++ bs))).Inv :=
      setValue_inv hi ((textOf_eq_some_iff _ _ _).mp htp) ⟨rfl, rfl, rfl, rfl⟩ (fun _ => rfl)
    have lcP : Loc f.roots P.handle (init ++ [fr]) l0 P (A :: N :: r0) := ⟨by rw [g.loc.eq]; simp, rfl⟩
    have efs := setValue_of_loc (.text (ps ++ bs)) lcP nd
    generalize hfsdef : f.setValue P.handle (.text (ps ++ bs)) = fs at hYf hfs efs
    have hfsr : fs.roots = plug (init ++ [fr]) ((l0 ++ [P.setValue (.text (ps ++ bs))]) ++ A :: N :: r0) := by
      rw [efs]; simp
    have lcA : Loc fs.roots a (init ++ [fr]) (l0 ++ [P.setValue (.text (ps ++ bs))]) A (N :: r0) :=
      ⟨hfsr, g.loc.hk⟩
    have ndfs := hfs.nodup
    have hafs : a ∈ fs.allHandles := by rw [← hfsdef, allHandles_setValue]; exact g.mem
    have hbfs : b ∈ fs.allHandles := by rw [← hfsdef, allHandles_setValue]; exact ra.live
    have hancB : (fs.ancestors b).contains a = false := by
      rw [anc_contains_congr nd ndfs g.loc lcA ra.live hbfs]; exact ra.ancB
    have hancA : (fs.ancestors a).contains b = false := by
      rw [ancestors_of_loc lcA ndfs, ← ancestors_of_loc g.loc nd]; exact ra.ancA
    -- f1 with the new text = fs without `a`
    have e1 : (f.dropSubtree a).setValue P.handle (.text (ps ++ bs)) = fs.dropSubtree a := by
      rw [setValue_of_loc _ lcP1 nd1, g.drop nd]
      unfold dropSubtree
      rw [cut_of_loc lcA ndfs, efs]
      simp
    -- `b` in fs: a text leaf
    have htbfs : fs.textOf b = some bs := by
      rw [← hfsdef, textOf_eq_some_iff, value?_setValue_ne nd ra.neP]; exact ra.val
    obtain ⟨pathb, lb, Bt, rb, locb⟩ := exists_loc hbfs
    have hBt : Bt.kids = [] := by
      have hv := value?_of_loc locb ndfs
      rw [(textOf_eq_some_iff _ _ _).mp htbfs] at hv
      exact kids_nil_of_text (hfs.validTree_of_loc locb) (by rw [← Option.some.inj hv]; rfl)
    have vb := dropView locb ndfs hafs hancB
    have hgb1 : (fs.dropSubtree a).get? b = some Bt := vb.get? (by rw [hBt]; simp)
    have eY : ((f.dropSubtree a).setValue P.handle (.text (ps ++ bs))).spliceOut b =
        (fs.spliceOut b).dropSubtree a := by
      rw [e1, spliceOut_leaf_eq_drop vb.nodup hgb1 hBt,
        spliceOut_leaf_eq_drop ndfs (get?_of_loc locb ndfs) hBt]
      exact (dropSubtree_comm ndfs hafs hbfs hancB hancA).symm
    -- neighbours of `a` once `b` is gone
    have va := dropView lcA ndfs hbfs hancA
    have eYf : fs.spliceOut b = fs.dropSubtree b := spliceOut_leaf_eq_drop ndfs (get?_of_loc locb ndfs) hBt
    have hprevA : (fs.spliceOut b).prevSibling a = some P.handle := by
      rw [eYf, va.prevSibling lcA ndfs (by
        intro n hn; simp only [List.getLast?_concat, Option.some.injEq] at hn; subst hn
        simpa using Ne.symm ra.neP), prevSibling_of_loc_snoc lcA ndfs]
      simp only [List.getLast?_concat, Option.bind_some, fi_setValue_value, fi_setValue_handle, g.hAn]
      rfl
    have hnextA : (fs.spliceOut b).nextSibling a = some N.handle := by
      rw [eYf, va.nextSibling lcA ndfs (by
        intro n hn; simp only [List.head?_cons, Option.some.injEq] at hn; subst hn
        exact Ne.symm ra.neN), nextSibling_of_loc_snoc lcA ndfs]
      simp only [List.head?_cons, Option.bind_some, g.hAn, g.hNn]
      rfl
    -- the next sibling of `P` in the state the final consolidation runs on
    have lcP1s : Loc (fs.dropSubtree a).roots P.handle (init ++ [fr]) l0 (P.setValue (.text (ps ++ bs))) (N :: r0) := by
      refine ⟨?_, by simp⟩
      unfold dropSubtree; rw [cut_of_loc lcA ndfs]; simp
    have hb1s : b ∈ (fs.dropSubtree a).allHandles :=
      mem_allHandles_of_isLive (by simp [isLive, hgb1])
    have hancP : ((fs.dropSubtree a).ancestors P.handle).contains b = false := by
      rw [ancestors_of_loc lcP1s vb.nodup]
      have := ra.ancPar
      rw [ancestors_of_loc g.locPar nd] at this
      simp only [List.contains_eq_mem, List.mem_cons, List.mem_reverse, List.mem_map,
        decide_eq_false_iff_not, not_or, not_exists, not_and, List.map_append, List.map_cons,
        List.map_nil, List.reverse_append, List.reverse_cons, List.reverse_nil, List.nil_append,
        List.cons_append, List.mem_append, List.mem_singleton] at this ⊢
      exact ⟨ra.neP, this⟩
    have vp := dropView lcP1s vb.nodup hb1s hancP
    have hnextP : (((f.dropSubtree a).setValue P.handle (.text (ps ++ bs))).spliceOut b).nextSibling P.handle =
        some N.handle := by
      rw [e1, spliceOut_leaf_eq_drop vb.nodup hgb1 hBt, vp.nextSibling lcP1s vb.nodup (by
        intro n hn; simp only [List.head?_cons, Option.some.injEq] at hn; subst hn
        exact Ne.symm ra.neN), nextSibling_of_loc_snoc lcP1s vb.nodup]
      simp only [List.head?_cons, Option.bind_some, fi_setValue_value, g.hNn]
      rfl
    -- … and `P` is what stands before `N` there (xot 609b613 looks from `N`)
    have lcN1s : Loc (fs.dropSubtree a).roots N.handle (init ++ [fr]) (l0 ++ [P.setValue (.text (ps ++ bs))]) N r0 :=
      ⟨by rw [lcP1s.eq]; simp, rfl⟩
    have hancN : ((fs.dropSubtree a).ancestors N.handle).contains b = false := by
      rw [ancestors_of_loc lcN1s vb.nodup]
      have := ra.ancPar
      rw [ancestors_of_loc g.locPar nd] at this
      simp only [List.contains_eq_mem, List.mem_cons, List.mem_reverse, List.mem_map,
        decide_eq_false_iff_not, not_or, not_exists, not_and, List.map_append, List.map_cons,
        List.map_nil, List.reverse_append, List.reverse_cons, List.reverse_nil, List.nil_append,
        List.cons_append, List.mem_append, List.mem_singleton] at this ⊢
      exact ⟨ra.neN, this⟩
    have vn := dropView lcN1s vb.nodup hb1s hancN
    have hprevN : (((f.dropSubtree a).setValue P.handle (.text (ps ++ bs))).spliceOut b).prevSibling N.handle =
        some P.handle := by
      rw [e1, spliceOut_leaf_eq_drop vb.nodup hgb1 hBt, vn.prevSibling lcN1s vb.nodup (by
        intro n hn; simp only [List.getLast?_concat, Option.some.injEq] at hn; subst hn
        simpa using Ne.symm ra.neP), prevSibling_of_loc_snoc lcN1s vb.nodup]
      simp only [List.getLast?_concat, Option.bind_some, fi_setValue_value, fi_setValue_handle, g.hNn]
      rfl
    rw [hprevN, eY]
    have := remove_inv hYf a
    unfold remove at this
    rw [hprevA, hnextA] at this
    exact this

end gap
end Forest
end XotModel
