/-
  XotModel.Lemmas.LexSliceOrder — the reference tokenizer returns its character-data tokens in
  source order (`TextOrdered`, Lemmas/ParseSpanOrder.lean), on every input: the text slice of a
  text / CDATA token lies between the stream position before and after the call of
  `parse_next_impl` that returned it, and the stream position never decreases.
-/
import XotModel.Lemmas.LexSlice
import XotModel.Lemmas.ParseSpanOrder

namespace XotModel.Lex.Slice

open XotModel.Lex.Stream

/-! ### Positions along `Reach` -/

theorem Reach.pos_le {a b : Lex.Stream} (h : Reach a b) : a.pos ≤ b.pos := by
  obtain ⟨k, rfl⟩ := h
  simp only [Stream.adv]
  omega

theorem sliceBack_start (a b : Lex.Stream) : (sliceBack a b).start = a.pos := rfl

/-- Between two states of the same stream, `sliceBack` ends where the later one stands. -/
theorem Reach.sliceBack_stop {a b : Lex.Stream} (h : Reach a b) : (sliceBack a b).stop = b.pos := by
  obtain ⟨k, rfl⟩ := h
  have e : a.rest.take (a.rest.length - (a.rest.length - k)) = a.rest.take k := by
    rcases Nat.le_total k a.rest.length with hk | hk
    · have : a.rest.length - (a.rest.length - k) = k := by omega
      rw [this]
    · have : a.rest.length - (a.rest.length - k) = a.rest.length := by omega
      rw [this, List.take_of_length_le (Nat.le_refl _), List.take_of_length_le hk]
  simp only [StrSpan.stop, Stream.sliceBack, Stream.adv, List.length_drop, e]

theorem start_le_stop (sp : StrSpan) : sp.start ≤ sp.stop := by
  simp only [StrSpan.stop]
  omega

/-! ### Which parsers return character data -/

theorem textSpan_none_of_kind {t : Token} (h : kind t ≠ .other) : t.textSpan? = none := by
  cases t <;> first | rfl | exact absurd rfl h

theorem parseDeclaration_noText {s s' : Lex.Stream} {t : Token}
    (h : parseDeclaration s = some (t, s')) : t.textSpan? = none := by
  simp only [parseDeclaration, Option.bind_eq_bind, Option.bind_eq_some_iff, Option.some.injEq,
    Prod.mk.injEq] at h
  obtain ⟨⟨v, s2⟩, h2, s3, h3, ⟨e, s4⟩, h4, s5, h5, ⟨sa, s6⟩, h6, s7, h7, rfl, rfl⟩ := h
  rfl

theorem parseComment_noText {s s' : Lex.Stream} {t : Token}
    (h : parseComment s = some (t, s')) : t.textSpan? = none := by
  simp only [parseComment, Option.bind_eq_bind, Option.bind_eq_some_iff] at h
  obtain ⟨s2, h2, s3, h3, h⟩ := h
  split at h
  · simp at h
  · split at h
    · simp at h
    · simp only [Option.some.injEq, Prod.mk.injEq] at h
      obtain ⟨rfl, rfl⟩ := h
      rfl

theorem parsePI_noText {s s' : Lex.Stream} {t : Token}
    (h : parsePI s = some (t, s')) : t.textSpan? = none := by
  simp only [parsePI, Option.bind_eq_bind, Option.bind_eq_some_iff, Option.some.injEq,
    Prod.mk.injEq] at h
  obtain ⟨⟨tg, s2⟩, h2, s4, h4, s5, h5, rfl, rfl⟩ := h
  rfl

theorem parseEntityDecl_noText {s s' : Lex.Stream} {t : Token}
    (h : parseEntityDecl s = some (t, s')) : t.textSpan? = none := by
  simp only [parseEntityDecl, Option.bind_eq_bind, Option.bind_eq_some_iff, Option.some.injEq,
    Prod.mk.injEq] at h
  obtain ⟨s2, h2, s4, h4, ⟨n, s5⟩, h5, s6, h6, s7, h7, s8, h8, rfl, rfl⟩ := h
  rfl

/-- `parse_text`: the token is the text between the two stream states. -/
theorem parseText_form {s s' : Lex.Stream} {t : Token} (h : parseText s = some (t, s')) :
    t = .text (sliceBack s s') ∧ Reach s s' := by
  have r := parseText_reach h
  simp only [parseText, Option.bind_eq_bind, Option.bind_eq_some_iff] at h
  obtain ⟨s1, h1, h⟩ := h
  split at h
  · simp at h
  · simp only [Option.some.injEq, Prod.mk.injEq] at h
    obtain ⟨rfl, rfl⟩ := h
    exact ⟨rfl, r⟩

/-- `parse_cdata`: the text lies between `<![CDATA[` and `]]>`. -/
theorem parseCdata_form {s s' : Lex.Stream} {t : Token} (h : parseCdata s = some (t, s')) :
    ∃ s2, t = .cdata (sliceBack (s.adv 9) s2) (sliceBack s s') ∧ Reach (s.adv 9) s2 ∧
      Reach s2 s' := by
  simp only [parseCdata, Option.bind_eq_bind, Option.bind_eq_some_iff, Option.some.injEq,
    Prod.mk.injEq] at h
  obtain ⟨s2, h2, s3, h3, rfl, rfl⟩ := h
  exact ⟨s2, rfl, skipChars_reach h2, skipString_reach h3⟩

/-! ### One step -/

/-- The character data of a token lies between the stream positions before and after the
    step that returned it. -/
theorem TokStep.textSpan {src : Str} {tk tk' : Tokenizer} {t : Token} (hw : SWf src tk.stream)
    (h : TokStep tk t tk') :
    ∀ sp, t.textSpan? = some sp → tk.stream.pos ≤ sp.start ∧ sp.stop ≤ tk'.stream.pos := by
  have none_case : t.textSpan? = none →
      ∀ sp, t.textSpan? = some sp → tk.stream.pos ≤ sp.start ∧ sp.stop ≤ tk'.stream.pos := by
    intro hn sp hsp
    rw [hn] at hsp
    cases hsp
  cases h with
  | decl _ hp => exact none_case (parseDeclaration_noText hp)
  | doctype _ _ hp _ =>
    rcases (parseDoctype_good hw hp).2 with ⟨sp, rfl⟩ | ⟨sp, rfl⟩ <;> exact none_case rfl
  | entity _ hp => exact none_case (parseEntityDecl_noText hp)
  | comment _ hp => exact none_case (parseComment_noText hp)
  | pi _ hp => exact none_case (parsePI_noText hp)
  | dtdEnd _ _ => exact none_case rfl
  | start _ hp =>
    exact none_case (textSpan_none_of_kind (by rw [(parseElementStart_good hw hp).kind]; decide))
  | cdata _ hp =>
    obtain ⟨s2, rfl, r1, r2⟩ := parseCdata_form hp
    intro sp hsp
    simp only [Token.textSpan?, Option.some.injEq] at hsp
    subst hsp
    refine ⟨?_, ?_⟩
    · exact Reach.pos_le (Reach.adv _ 9)
    · rw [Reach.sliceBack_stop r1]
      exact Reach.pos_le r2
  | text _ hp =>
    obtain ⟨rfl, r⟩ := parseText_form hp
    intro sp hsp
    simp only [Token.textSpan?, Option.some.injEq] at hsp
    subst hsp
    exact ⟨Nat.le_refl _, Nat.le_of_eq (Reach.sliceBack_stop r)⟩
  | close _ hp =>
    exact none_case (textSpan_none_of_kind (by rw [(parseCloseElement_good hw hp).kind]; decide))
  | attr _ _ hk => exact none_case (textSpan_none_of_kind (by rw [hk]; decide))
  | tagOpen _ _ => exact none_case rfl
  | tagEmpty _ _ => exact none_case rfl

/-! ### The loop -/

theorem lexLoop_order (src : Str) (tk : Tokenizer) (position : Nat) :
    SWf src tk.stream →
    (∀ t ∈ (lexLoop tk position).1, ∀ sp, t.textSpan? = some sp → tk.stream.pos ≤ sp.stop) ∧
      TextOrdered (lexLoop tk position).1 := by
  fun_induction lexLoop tk position with
  | case1 tk pos hc =>
    intro _
    exact ⟨fun t ht => (by cases ht), List.Pairwise.nil⟩
  | case2 tk pos hc tk' hs ih =>
    intro hw
    have he : tk.stream.atEnd = false := by
      cases h : tk.stream.atEnd <;> simp_all
    have sk := parseNextImpl_skipStep he (fun h => hc (.inr h)) hs
    obtain ⟨h1, h2⟩ := ih (hw.reach sk.reach)
    have hp := Reach.pos_le sk.reach
    exact ⟨fun t ht sp hsp => Nat.le_trans hp (h1 t ht sp hsp), h2⟩
  | case3 tk pos hc t tk' hs r ih =>
    intro hw
    have he : tk.stream.atEnd = false := by
      cases h : tk.stream.atEnd <;> simp_all
    have hr := (parseNextImpl_token he hs).reach
    have hp := Reach.pos_le hr
    have ts := (parseNextImpl_tokStep hw he hs).textSpan hw
    obtain ⟨h1, h2⟩ := ih (hw.reach hr)
    refine ⟨?_, ?_⟩
    · intro t' ht' sp hsp
      rcases List.mem_cons.mp ht' with rfl | ht'
      · exact Nat.le_trans (ts sp hsp).1 (start_le_stop sp)
      · exact Nat.le_trans hp (h1 t' ht' sp hsp)
    · refine List.pairwise_cons.mpr ⟨?_, h2⟩
      intro b hb sa sb hsa hsb
      exact Nat.le_trans (start_le_stop sa) (Nat.le_trans (ts sa hsa).2 (h1 b hb sb hsb))
  | case4 tk pos hc hs =>
    intro _
    exact ⟨fun t ht => (by cases ht), List.Pairwise.nil⟩

end XotModel.Lex.Slice

namespace XotModel

open XotModel.Lex.Slice

/-- The text / CDATA tokens of a document come in source order. -/
theorem lexDocument_textOrdered (s : Str) : TextOrdered (lexDocument s).1 :=
  (lexLoop_order s (Lex.Tokenizer.ofStr s) _ (ofStr_swf s)).2

/-- The text / CDATA tokens of a fragment come in source order. -/
theorem lexFragment_textOrdered (s : Str) : TextOrdered (lexFragment s).1 :=
  (lexLoop_order s (Lex.Tokenizer.ofFragment s) _ (SWf.ofStr s)).2

end XotModel
