/-
  The indenting write loop (`XmlSerializer::serialize_pretty`) as one fold returning the final `Pretty`
  stack, the final `FullnameSerializer` stack and the bytes written (`runPEvents`), with the laws the tree
  induction of `SerIndentMain.lean` needs.
-/
import XotModel.Lemmas.SerIndentDefs
import XotModel.Lemmas.SerOptSpell

namespace XotModel
open Gen

variable (env : Env) (pr : TokenParams) (sup : List Nat) (t : Tree)

/-- Indentation in front, newline behind. -/
def prePost (r : PStack × Nat × Bool) (w : Str) : Str :=
  (if r.2.1 > 0 then indentBytes r.2.1 else []) ++ w ++ (if r.2.2 then prettyNewline else [])

/-- One event of the indenting writer. -/
def runPEvent (ps : PStack) (s : FStack) (p : Path) (o : Output) : Outcome XotError (PStack × FStack × Str) :=
  match runEvent xmlEscapers env pr t s p o with
  | .ok (s', w) => .ok ((prettifyAt sup t ps p o).1, s', prePost (prettifyAt sup t ps p o) w)
  | .err e => .err e
  | .panic => .panic

/-- Sequencing. -/
def runPThen (a : Outcome XotError (PStack × FStack × Str))
    (f : PStack → FStack → Outcome XotError (PStack × FStack × Str)) : Outcome XotError (PStack × FStack × Str) :=
  match a with
  | .ok (ps, s, w) =>
    (match f ps s with
     | .ok (ps', s', w') => .ok (ps', s', w ++ w')
     | .err e => .err e
     | .panic => .panic)
  | .err e => .err e
  | .panic => .panic

def runPEvents : PStack → FStack → List (Path × Output) → Outcome XotError (PStack × FStack × Str)
  | ps, s, [] => .ok (ps, s, [])
  | ps, s, (p, o) :: rest => runPThen (runPEvent env pr sup t ps s p o) (fun ps' s' => runPEvents ps' s' rest)

theorem runPThen_ok (ps : PStack) (s : FStack) (w : Str)
    (f : PStack → FStack → Outcome XotError (PStack × FStack × Str)) :
    runPThen (.ok (ps, s, w)) f =
      (match f ps s with
       | .ok (ps', s', w') => .ok (ps', s', w ++ w')
       | .err e => .err e
       | .panic => .panic) := rfl

theorem runPThen_assoc (a : Outcome XotError (PStack × FStack × Str))
    (f g : PStack → FStack → Outcome XotError (PStack × FStack × Str)) :
    runPThen (runPThen a f) g = runPThen a (fun ps s => runPThen (f ps s) g) := by
  cases a with
  | ok x =>
    obtain ⟨ps, s, w⟩ := x
    simp only [runPThen]
    cases f ps s with
    | ok y =>
      obtain ⟨ps', s', w'⟩ := y
      simp only []
      cases g ps' s' with
      | ok z => simp
      | err e => rfl
      | panic => rfl
    | err e => rfl
    | panic => rfl
  | err e => rfl
  | panic => rfl

theorem runPThen_pure (a : Outcome XotError (PStack × FStack × Str)) :
    runPThen a (fun ps s => .ok (ps, s, [])) = a := by
  cases a with
  | ok x => obtain ⟨ps, s, w⟩ := x; simp [runPThen]
  | err e => rfl
  | panic => rfl

theorem runPEvents_cons (ps : PStack) (s : FStack) (p : Path) (o : Output) (rest : List (Path × Output)) :
    runPEvents env pr sup t ps s ((p, o) :: rest) =
      runPThen (runPEvent env pr sup t ps s p o) (fun ps' s' => runPEvents env pr sup t ps' s' rest) := rfl

theorem runPEvents_single (ps : PStack) (s : FStack) (p : Path) (o : Output) :
    runPEvents env pr sup t ps s [(p, o)] = runPEvent env pr sup t ps s p o := by
  simp only [runPEvents, runPThen_pure]

theorem runPEvents_append (ps : PStack) (s : FStack) (a b : List (Path × Output)) :
    runPEvents env pr sup t ps s (a ++ b) =
      runPThen (runPEvents env pr sup t ps s a) (fun ps' s' => runPEvents env pr sup t ps' s' b) := by
  induction a generalizing ps s with
  | nil =>
    simp only [List.nil_append, runPEvents, runPThen]
    cases runPEvents env pr sup t ps s b with
    | ok x => simp
    | err e => rfl
    | panic => rfl
  | cons po a ih =>
    obtain ⟨p, o⟩ := po
    simp only [List.cons_append, runPEvents, runPThen_assoc]
    congr 1
    funext ps' s'
    exact ih ps' s'

/-- The indenting write loop is `runPEvents` (bytes of a failed run aside). -/
theorem writePrettyGo_runPEvents (ps : PStack) (s : FStack) (outs : List (Path × Output)) :
    bufferToString (writePrettyGoWith xmlEscapers env pr sup t ps s outs) =
      (match runPEvents env pr sup t ps s outs with
       | .ok (_, _, w) => .ok w
       | .err e => .err e
       | .panic => .panic) := by
  induction outs generalizing ps s with
  | nil => simp [writePrettyGoWith, runPEvents, bufferToString]
  | cons po rest ih =>
    obtain ⟨p, o⟩ := po
    simp only [writePrettyGoWith, runPEvents, runPEvent, runEvent]
    cases hr : renderAtWith xmlEscapers env pr t s p o with
    | ok st =>
      obtain ⟨s', tok⟩ := st
      have := ih (prettifyAt sup t ps p o).1 s'
      simp only [runPThen]
      cases hrun : runPEvents env pr sup t (prettifyAt sup t ps p o).1 s' rest with
      | ok x =>
        obtain ⟨ps2, s2, w⟩ := x
        rw [hrun] at this
        simp only [bufferToString] at this ⊢
        cases h2 : (writePrettyGoWith xmlEscapers env pr sup t (prettifyAt sup t ps p o).1 s' rest).2 with
        | ok u =>
          rw [h2] at this
          simp only [Outcome.ok.injEq] at this
          simp [this, prePost, List.append_assoc]
        | err e => rw [h2] at this; cases this
        | panic => rw [h2] at this; cases this
      | err e =>
        rw [hrun] at this
        simp only [bufferToString] at this ⊢
        cases h2 : (writePrettyGoWith xmlEscapers env pr sup t (prettifyAt sup t ps p o).1 s' rest).2 with
        | ok u => rw [h2] at this; cases this
        | err e' => rw [h2] at this; simpa using this
        | panic => rw [h2] at this; cases this
      | panic =>
        rw [hrun] at this
        simp only [bufferToString] at this ⊢
        cases h2 : (writePrettyGoWith xmlEscapers env pr sup t (prettifyAt sup t ps p o).1 s' rest).2 with
        | ok u => rw [h2] at this; cases this
        | err e' => rw [h2] at this; cases this
        | panic => rfl
    | err e => simp [runPThen, bufferToString]
    | panic => simp [runPThen, bufferToString]

/-- `serialize_xml_string` with indentation (token parameters, suppress list) in terms of `runPEvents`. -/
theorem serializePretty_runPEvents (start : Path) :
    serializePrettyWith xmlEscapers env pr sup t start =
      (match runPEvents env pr sup t [] (initStack t start) (genOutputs t start) with
       | .ok (_, _, w) => .ok w
       | .err e => .err e
       | .panic => .panic) := by
  unfold serializePrettyWith serializePrettyWriteWith
  exact writePrettyGo_runPEvents env pr sup t _ _ _

/-- An event `prettify` neither moves the stack for nor grants white space to: the plain event. -/
theorem runPEvent_plain (ps : PStack) (s : FStack) (p : Path) (o : Output)
    (h : prettifyAt sup t ps p o = (ps, 0, false)) :
    runPEvent env pr sup t ps s p o =
      (match runEvent xmlEscapers env pr t s p o with
       | .ok (s', w) => .ok (ps, s', w)
       | .err e => .err e
       | .panic => .panic) := by
  unfold runPEvent
  rw [h]
  cases runEvent xmlEscapers env pr t s p o with
  | ok x => obtain ⟨s', w⟩ := x; simp [prePost]
  | err e => rfl
  | panic => rfl

/-- A run of such events (the declarations and attributes of a start tag). -/
theorem runPEvents_plain (ps : PStack) (s : FStack) (evs : List (Path × Output))
    (h : ∀ po ∈ evs, prettifyAt sup t ps po.1 po.2 = (ps, 0, false)) :
    runPEvents env pr sup t ps s evs =
      (match runEvents xmlEscapers env pr t s evs with
       | .ok (s', w) => .ok (ps, s', w)
       | .err e => .err e
       | .panic => .panic) := by
  induction evs generalizing s with
  | nil => rfl
  | cons po evs ih =>
    obtain ⟨p, o⟩ := po
    rw [runPEvents_cons, runPEvent_plain env pr sup t ps s p o (h (p, o) (by simp)), runEvents_cons]
    cases runEvent xmlEscapers env pr t s p o with
    | ok x =>
      obtain ⟨s', w⟩ := x
      simp only [runPThen, runThen, ih s' (fun po hpo => h po (by simp [hpo]))]
      cases runEvents xmlEscapers env pr t s' evs with
      | ok y => rfl
      | err e => rfl
      | panic => rfl
    | err e => rfl
    | panic => rfl

theorem prettifyAt_at (ps : PStack) (p : Path) (o : Output) (n : Tree) (h : t.at? p = some n) :
    prettifyAt sup t ps p o = prettify sup ps n o := by
  simp only [prettifyAt, h]

end XotModel
