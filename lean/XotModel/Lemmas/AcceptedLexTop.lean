/-
  XotModel.Lemmas.AcceptedLexTop — every token the reference tokenizer returns, on ANY input and in
  both modes, has the lexical classes `Token.accLex` (Lemmas/AcceptedLex.lean): one lemma per token
  parser, then `TokStep`, then the loop.
-/
import XotModel.Lemmas.AcceptedLex
import XotModel.Model.ParseString

namespace XotModel.Lex.Acc

open XotModel.Lex XotModel.Lex.Stream XotModel.Lex.Slice

theorem parseComment_acc {s s' : Lex.Stream} {t : Token} (h : parseComment s = some (t, s')) :
    t.accLex = true := by
  simp only [parseComment, Option.bind_eq_bind, Option.bind_eq_some_iff] at h
  obtain ⟨s2, h2, s3, h3, h⟩ := h
  split at h
  · simp at h
  · next hdd =>
    split at h
    · simp at h
    · next hlast =>
      simp only [Option.some.injEq, Prod.mk.injEq] at h
      obtain ⟨rfl, rfl⟩ := h
      obtain ⟨k, rfl, _, ht, hall, _⟩ := skipChars_text h2
      simp only [Token.accLex, Bool.and_eq_true]
      refine ⟨⟨by rw [ht]; exact hall, by simpa [litDashDash] using hdd⟩, by simpa using hlast⟩

theorem parseCdata_acc {s s' : Lex.Stream} {t : Token} (h : parseCdata s = some (t, s')) :
    t.accLex = true := by
  simp only [parseCdata, Option.bind_eq_bind, Option.bind_eq_some_iff, Option.some.injEq,
    Prod.mk.injEq] at h
  obtain ⟨s2, h2, s3, h3, rfl, rfl⟩ := h
  obtain ⟨k, rfl, _, ht, hall, _⟩ := skipChars_text h2
  simp only [Token.accLex]
  rw [ht]; exact hall

theorem parseText_acc {s s' : Lex.Stream} {t : Token} (h : parseText s = some (t, s'))
    (hc : (s.curr? == some '<') = false) (he : s.atEnd = false) : t.accLex = true := by
  simp only [parseText, Option.bind_eq_bind, Option.bind_eq_some_iff] at h
  obtain ⟨s1, h1, h⟩ := h
  split at h
  · simp at h
  · simp only [Option.some.injEq, Prod.mk.injEq] at h
    obtain ⟨rfl, rfl⟩ := h
    obtain ⟨k, rfl, hk, ht, hall, _⟩ := skipChars_text h1
    simp only [Token.accLex, Bool.and_eq_true]
    refine ⟨?_, by rw [ht]; exact hall⟩
    rw [ht]
    cases s with
    | mk p r =>
      cases r with
      | nil => simp [atEnd] at he
      | cons c cs =>
        simp only [skipChars, Option.map_eq_some_iff] at h1
        obtain ⟨k', hk', e⟩ := h1
        have hf : (fun (_ : Str) (c : Char) => c != '<') (c :: cs) c = true := by
          simp only [curr?, List.head?_cons] at hc
          simpa using hc
        have hpos := scanChars_pos hk' hf
        have : k' = k := by
          have h1 := congrArg (fun x => x.rest.length) e
          simp only [adv_len, List.length_cons] at h1
          simp only [List.length_cons] at hk
          have := (scanChars_spec _ _ hk').1
          simp only [List.length_cons] at this
          omega
        subst this
        cases k' with
        | zero => omega
        | succ k' => simp

theorem drop_length_takeWhile (p : Char → Bool) : ∀ l : Str, l.drop (l.takeWhile p).length = l.dropWhile p
  | [] => rfl
  | c :: cs => by
    by_cases h : p c = true <;> simp [List.takeWhile_cons, List.dropWhile_cons, h, drop_length_takeWhile p cs]

theorem dropWhile_head_not (p : Char → Bool) : ∀ (l : Str) (c : Char) (cs : Str), l.dropWhile p = c :: cs → p c = false
  | [], _, _, h => by simp at h
  | d :: ds, c, cs, h => by
    by_cases hd : p d = true
    · rw [List.dropWhile_cons_of_pos hd] at h; exact dropWhile_head_not p ds c cs h
    · rw [List.dropWhile_cons_of_neg hd] at h
      simp only [List.cons.injEq] at h
      rw [← h.1]; simpa using hd

theorem parsePI_acc {s s' : Lex.Stream} {t : Token} (h : parsePI s = some (t, s')) : t.accLex = true := by
  simp only [parsePI, Option.bind_eq_bind, Option.bind_eq_some_iff, Option.some.injEq,
    Prod.mk.injEq] at h
  obtain ⟨⟨tg, s2⟩, h2, s4, h4, s5, h5, rfl, rfl⟩ := h
  have hn := consumeName_nameOK h2
  obtain ⟨k, rfl, _, ht, hall, hf⟩ := skipChars_text h4
  split
  · next hemp => simp only [Token.accLex]; exact hn
  · next hemp =>
    simp only [Token.accLex, Bool.and_eq_true, hn, true_and]
    rw [ht] at hemp ⊢
    refine ⟨⟨⟨by simpa using hemp, ?_⟩, hall⟩, ?_⟩
    · -- the content starts after `skip_spaces`
      have hh : ((s2.skipSpaces.rest.take k).head?.any isXmlSpace) = false := by
        cases hr : s2.skipSpaces.rest with
        | nil => simp
        | cons c cs =>
          cases k with
          | zero => simp
          | succ k =>
            simp only [List.take_succ_cons, List.head?_cons, Option.any_some]
            have : s2.skipSpaces.rest = s2.rest.dropWhile isXmlSpace := by
              simp only [skipSpaces, skipBytes, adv_rest]
              exact drop_length_takeWhile _ _
            rw [this] at hr
            exact dropWhile_head_not _ _ _ _ hr
      simp [hh]
    · have := no_infix_of_scan (x := '?') (y := '>') (r := s2.skipSpaces.rest) (k := k)
        (fun a c b hr hl => by simpa [litPiClose] using hf a c b hr hl)
      simp [this]

theorem parseElementStart_acc {s s' : Lex.Stream} {t : Token} (h : parseElementStart s = some (t, s')) :
    t.accLex = true := by
  simp only [parseElementStart, Option.bind_eq_bind, Option.bind_eq_some_iff, Option.some.injEq,
    Prod.mk.injEq] at h
  obtain ⟨⟨p, l, s1⟩, h1, rfl, rfl⟩ := h
  exact consumeQName_qnameOK h1

theorem parseCloseElement_acc {s s' : Lex.Stream} {t : Token} (h : parseCloseElement s = some (t, s')) :
    t.accLex = true := by
  simp only [parseCloseElement, Option.bind_eq_bind, Option.bind_eq_some_iff, Option.some.injEq,
    Prod.mk.injEq] at h
  obtain ⟨⟨p, l, s1⟩, h1, s2, h2, rfl, rfl⟩ := h
  exact consumeQName_qnameOK h1

theorem parseAttribute_acc {s s' : Lex.Stream} {t : Token} (h : parseAttribute s = some (t, s')) :
    t.accLex = true := by
  unfold parseAttribute at h
  dsimp only at h
  split at h
  · simp only [Option.bind_eq_bind, Option.bind_eq_some_iff, Option.some.injEq, Prod.mk.injEq] at h
    obtain ⟨s2, h2, rfl, rfl⟩ := h
    rfl
  · split at h
    · simp only [Option.some.injEq, Prod.mk.injEq] at h
      obtain ⟨rfl, rfl⟩ := h
      rfl
    · split at h
      · simp at h
      · simp only [Option.bind_eq_bind, Option.bind_eq_some_iff, Option.some.injEq, Prod.mk.injEq] at h
        obtain ⟨⟨p, l, s2⟩, h2, s3, h3, ⟨q, s4⟩, h4, s5, h5, s6, h6, rfl, rfl⟩ := h
        obtain ⟨k, rfl, _, ht, hall, _⟩ := skipChars_text h5
        simp only [Token.accLex, Bool.and_eq_true]
        exact ⟨consumeQName_qnameOK h2, by rw [ht]; exact hall⟩

theorem parseDeclaration_acc {s s' : Lex.Stream} {t : Token} (h : parseDeclaration s = some (t, s')) :
    t.accLex = true := by
  simp only [parseDeclaration, Option.bind_eq_bind, Option.bind_eq_some_iff, Option.some.injEq,
    Prod.mk.injEq] at h
  obtain ⟨⟨v, s2⟩, h2, s3, h3, ⟨e, s4⟩, h4, s5, h5, ⟨sa, s6⟩, h6, s7, h7, rfl, rfl⟩ := h
  rfl

/-- No markup parser returns a text token. -/
theorem ofParse_not_text {tk tk' : Tokenizer} {r : Option (Token × Lex.Stream)} {tx : StrSpan}
    (h : Step.ofParse tk r = .token (.text tx) tk') (hr : ∀ t s', r = some (t, s') → ∀ x, t ≠ .text x) : False := by
  obtain ⟨s', hp, _⟩ := Step.ofParse_token h
  exact hr _ _ hp tx rfl

theorem parseComment_not_text {s : Lex.Stream} : ∀ t s', parseComment s = some (t, s') → ∀ x, t ≠ .text x := by
  intro t s' h x
  simp only [parseComment, Option.bind_eq_bind, Option.bind_eq_some_iff] at h
  obtain ⟨_, _, _, _, h⟩ := h
  split at h
  · simp at h
  · split at h
    · simp at h
    · simp only [Option.some.injEq, Prod.mk.injEq] at h
      rw [← h.1]; simp

theorem parseCdata_not_text {s : Lex.Stream} : ∀ t s', parseCdata s = some (t, s') → ∀ x, t ≠ .text x := by
  intro t s' h x
  simp only [parseCdata, Option.bind_eq_bind, Option.bind_eq_some_iff, Option.some.injEq, Prod.mk.injEq] at h
  obtain ⟨_, _, _, _, h, _⟩ := h
  rw [← h]; simp

theorem parsePI_not_text {s : Lex.Stream} : ∀ t s', parsePI s = some (t, s') → ∀ x, t ≠ .text x := by
  intro t s' h x
  simp only [parsePI, Option.bind_eq_bind, Option.bind_eq_some_iff, Option.some.injEq, Prod.mk.injEq] at h
  obtain ⟨_, _, _, _, _, _, h, _⟩ := h
  rw [← h]; simp

theorem parseCloseElement_not_text {s : Lex.Stream} :
    ∀ t s', parseCloseElement s = some (t, s') → ∀ x, t ≠ .text x := by
  intro t s' h x
  simp only [parseCloseElement, Option.bind_eq_bind, Option.bind_eq_some_iff, Option.some.injEq, Prod.mk.injEq] at h
  obtain ⟨_, _, _, _, h, _⟩ := h
  rw [← h]; simp

theorem parseElementStart_not_text {s : Lex.Stream} :
    ∀ t s', parseElementStart s = some (t, s') → ∀ x, t ≠ .text x := by
  intro t s' h x
  simp only [parseElementStart, Option.bind_eq_bind, Option.bind_eq_some_iff, Option.some.injEq, Prod.mk.injEq] at h
  obtain ⟨_, _, h, _⟩ := h
  rw [← h]; simp

/-- In state `Elements`, at a `<`, the token is not a text token. -/
theorem elements_lt_not_text {tk tk' : Tokenizer} {tx : StrSpan} (he : tk.stream.atEnd = false)
    (hst : tk.state = .elements) (hc : tk.stream.curr? = some '<')
    (hs : parseNextImpl tk = .token (.text tx) tk') : False := by
  unfold parseNextImpl at hs
  have hc' : (tk.stream.curr? == some '<') = true := by simp [hc]
  simp only [he, Bool.false_eq_true, if_false, hst, hc', if_true] at hs
  split at hs
  · simp at hs
  · split at hs
    · split at hs
      · exact ofParse_not_text hs parseComment_not_text
      · split at hs
        · exact ofParse_not_text hs parseCdata_not_text
        · simp at hs
    · split at hs
      · split at hs
        · exact ofParse_not_text hs parsePI_not_text
        · simp at hs
      · split at hs
        · exact ofParse_not_text hs parseCloseElement_not_text
        · exact ofParse_not_text hs parseElementStart_not_text

/-- One token step: the text in state `Elements` is read at a character other than `<`. -/
theorem tokStep_acc {src : Str} {tk tk' : Tokenizer} {t : Token} (hw : SWf src tk.stream)
    (he : tk.stream.atEnd = false) (hs : parseNextImpl tk = .token t tk') (h : TokStep tk t tk') :
    t.accLex = true := by
  cases h with
  | decl _ hr => exact parseDeclaration_acc hr
  | doctype _ _ hr _ =>
    rcases (parseDoctype_good hw hr).2 with ⟨sp, rfl⟩ | ⟨sp, rfl⟩ <;> rfl
  | entity _ hr =>
    simp only [parseEntityDecl, Option.bind_eq_bind, Option.bind_eq_some_iff, Option.some.injEq,
      Prod.mk.injEq] at hr
    obtain ⟨s2, h2, s4, h4, ⟨n, s5⟩, h5, s6, h6, s7, h7, s8, h8, rfl, rfl⟩ := hr
    rfl
  | comment _ hr => exact parseComment_acc hr
  | pi _ hr => exact parsePI_acc hr
  | dtdEnd _ _ => rfl
  | start _ hr => exact parseElementStart_acc hr
  | cdata _ hr => exact parseCdata_acc hr
  | text hst hr =>
    refine parseText_acc hr ?_ he
    -- in state `Elements` the text parser is called only when the current character is not `<`
    by_cases hc : (tk.stream.curr? == some '<') = true
    · exfalso
      have ht : ∃ tx, t = .text tx := by
        simp only [parseText, Option.bind_eq_bind, Option.bind_eq_some_iff] at hr
        obtain ⟨s1, h1, hr⟩ := hr
        split at hr
        · simp at hr
        · simp only [Option.some.injEq, Prod.mk.injEq] at hr; exact ⟨_, hr.1.symm⟩
      obtain ⟨tx, rfl⟩ := ht
      exact elements_lt_not_text he hst (by simpa using hc) hs
    · simpa using hc
  | close _ hr => exact parseCloseElement_acc hr
  | attr _ hr _ => exact parseAttribute_acc hr
  | tagOpen _ hr => rfl
  | tagEmpty _ hr => rfl

/-- The invariant of the tokenizer loop: every token has its lexical classes. -/
theorem lexLoop_acc (src : Str) (tk : Tokenizer) (position : Nat) :
    SWf src tk.stream → ∀ t ∈ (lexLoop tk position).1, t.accLex = true := by
  fun_induction lexLoop tk position with
  | case1 tk pos hc => intro _ t ht; cases ht
  | case2 tk pos hc tk' hs ih =>
    intro hw
    have he : tk.stream.atEnd = false := by
      cases h : tk.stream.atEnd <;> simp_all
    have sk := parseNextImpl_skipStep he (fun h => hc (.inr h)) hs
    exact ih (hw.reach sk.reach)
  | case3 tk pos hc t tk' hs r ih =>
    intro hw
    have he : tk.stream.atEnd = false := by
      cases h : tk.stream.atEnd <;> simp_all
    have hw' : SWf src tk'.stream := hw.reach (parseNextImpl_token he hs).reach
    have ts := parseNextImpl_tokStep hw he hs
    intro t' ht'
    rcases List.mem_cons.mp ht' with rfl | ht'
    · exact tokStep_acc hw he hs ts
    · exact ih hw' t' ht'
  | case4 tk pos hc hs => intro _ t ht; cases ht

end XotModel.Lex.Acc

namespace XotModel

open XotModel.Lex.Acc XotModel.Lex.Slice

/-- Every token of `parse` / `parse_fragment`'s tokenizer run, on any string, has the lexical
    classes `Token.accLex`. -/
theorem lexMode_accLex (m : Mode) (s : Str) : ∀ t ∈ (lexMode m s).1, t.accLex = true := by
  cases m
  · exact lexLoop_acc s (Lex.Tokenizer.ofStr s) _ (ofStr_swf s)
  · exact lexLoop_acc s (Lex.Tokenizer.ofFragment s) _ (SWf.ofStr s)

end XotModel
