/-
  Edits that keep a tree inside the C01 domain (`Representable`, Model/SerTokens.lean): removing a
  namespace node (C15, `deduplicate_namespaces`) and inserting / overwriting one with a well-formed
  value (C10, `create_missing_prefixes`).

  `Keeps env t' t`: `t'` is `nodeOK` everywhere, has the value of `t`, its `xml:id` values are a
  sublist of those of `t`, and (when `t` is no element) the same child values.  The relation is
  closed under composition and under rebuilding a node from edited children (`keeps_node`), hence
  under `scopeModifyAt`.
-/
import XotModel.Lemmas.SerTokensLexTop
import XotModel.Model.Repair

namespace XotModel

variable {env : Env}

/-! ### `nodeOK` depends on the children through their values only -/

theorem orderedKids_congr {ks' ks : List Tree} (h : ks'.map Tree.value = ks.map Tree.value) :
    OrderedKids ks' ↔ OrderedKids ks := by
  have e : ∀ l : List Tree, OrderedKids l ↔
      (l.map Tree.value).Pairwise (fun a b => a.phase ≤ b.phase) := fun l => by
    unfold OrderedKids; rw [List.pairwise_map]
  rw [e, e, h]

theorem forall_kids_congr {ks' ks : List Tree} (h : ks'.map Tree.value = ks.map Tree.value)
    (P : Value → Prop) : (∀ k ∈ ks', P k.value) ↔ (∀ k ∈ ks, P k.value) := by
  have e : ∀ l : List Tree, (∀ k ∈ l, P k.value) ↔ ∀ v ∈ l.map Tree.value, P v := fun l => by
    simp [List.mem_map]
  rw [e, e, h]

theorem kindsOk_congr {v : Value} {ks' ks : List Tree} (h : ks'.map Tree.value = ks.map Tree.value) :
    KindsOk v ks' ↔ KindsOk v ks := by
  have hnil : ks' = [] ↔ ks = [] := by
    rw [← List.map_eq_nil_iff (f := Tree.value), h, List.map_eq_nil_iff]
  unfold KindsOk
  rw [hnil, forall_kids_congr h (fun x => x.isNormal = true), forall_kids_congr h (fun x => x.isDocument = false)]

/-- The key of an attribute node / a namespace node (named functions: a `match` written twice is two
    different terms). -/
def Value.attrKey : Value → Option Nat
  | .attribute n _ => some n
  | _ => none

def Value.nsKey : Value → Option Nat
  | .namespace p _ => some p
  | _ => none

theorem attrNames_eq_map (ks : List Tree) : attrNames ks = (ks.map Tree.value).filterMap Value.attrKey := by
  rw [List.filterMap_map]
  unfold attrNames
  congr 1

theorem nsPrefixes_eq_map (ks : List Tree) : nsPrefixes ks = (ks.map Tree.value).filterMap Value.nsKey := by
  rw [List.filterMap_map]
  unfold nsPrefixes
  congr 1

theorem uniqueKids_congr {ks' ks : List Tree} (h : ks'.map Tree.value = ks.map Tree.value) :
    UniqueKids ks' ↔ UniqueKids ks := by
  unfold UniqueKids
  rw [attrNames_eq_map, nsPrefixes_eq_map, attrNames_eq_map ks, nsPrefixes_eq_map ks, h]

theorem noAdjText_congr : ∀ (ks' ks : List Tree), ks'.map Tree.value = ks.map Tree.value →
    noAdjText ks' = noAdjText ks
  | [], [], _ => rfl
  | [], _ :: _, h => by simp at h
  | _ :: _, [], h => by simp at h
  | [_], [_], _ => rfl
  | [_], _ :: _ :: _, h => by simp at h
  | _ :: _ :: _, [_], h => by simp at h
  | a' :: b' :: r', a :: b :: r, h => by
    simp only [List.map_cons, List.cons.injEq] at h
    have ih := noAdjText_congr (b' :: r') (b :: r) (by simp [h.2.1, h.2.2])
    simp only [noAdjText, h.1, h.2.1, ih]

theorem nodeOK_congr {v : Value} {ks' ks : List Tree} (h : ks'.map Tree.value = ks.map Tree.value) :
    nodeOK env v ks' = nodeOK env v ks := by
  have h1 := orderedKids_congr h
  have h2 := kindsOk_congr (v := v) h
  have h3 := uniqueKids_congr h
  have h4 := noAdjText_congr ks' ks h
  simp only [nodeOK, h4, decide_eq_decide.mpr h1, decide_eq_decide.mpr h2, decide_eq_decide.mpr h3]

/-! ### The relation -/

/-- `t'` is an edit of `t` that stays in the C01 domain (see the header). -/
structure Keeps (env : Env) (t' t : Tree) : Prop where
  ok : t'.allNodes (nodeOK env) = true
  value : t'.value = t.value
  ids : (xmlIdValues env t').Sublist (xmlIdValues env t)
  top : t.value.isElement = false → t'.kids.map Tree.value = t.kids.map Tree.value

theorem Keeps.refl {t : Tree} (h : t.allNodes (nodeOK env) = true) : Keeps env t t :=
  ⟨h, rfl, List.Sublist.refl _, fun _ => rfl⟩

theorem Keeps.trans {a b c : Tree} (h1 : Keeps env a b) (h2 : Keeps env b c) : Keeps env a c :=
  ⟨h1.ok, h1.value.trans h2.value, h1.ids.trans h2.ids,
   fun hc => (h1.top (by rw [h2.value]; exact hc)).trans (h2.top hc)⟩

/-- Pointwise `Keeps`. -/
inductive KeepsList (env : Env) : List Tree → List Tree → Prop
  | nil : KeepsList env [] []
  | cons {k' k : Tree} {ks' ks : List Tree} : Keeps env k' k → KeepsList env ks' ks →
      KeepsList env (k' :: ks') (k :: ks)

theorem idsList_sublist : ∀ {ks' ks : List Tree}, KeepsList env ks' ks →
    (xmlIdValues.idsList env ks').Sublist (xmlIdValues.idsList env ks)
  | _, _, .nil => List.Sublist.refl _
  | _, _, .cons h hs => by
    simp only [xmlIdValues.idsList]
    exact List.Sublist.append h.ids (idsList_sublist hs)

theorem forall₂_values : ∀ {ks' ks : List Tree}, KeepsList env ks' ks →
    ks'.map Tree.value = ks.map Tree.value
  | _, _, .nil => rfl
  | _, _, .cons h hs => by simp only [List.map_cons, h.value, forall₂_values hs]

theorem forall₂_ok : ∀ {ks' ks : List Tree}, KeepsList env ks' ks →
    ∀ k ∈ ks', k.allNodes (nodeOK env) = true
  | _, _, .nil => fun _ hk => by cases hk
  | _, _, .cons h hs => fun k hk => by
    rcases List.mem_cons.mp hk with rfl | hk
    · exact h.ok
    · exact forall₂_ok hs k hk

/-- Rebuilding a node from edited children. -/
theorem keeps_node (v : Value) {ks' ks : List Tree} (hk : KeepsList env ks' ks)
    (hn : nodeOK env v ks = true) : Keeps env (.node v ks') (.node v ks) := by
  refine ⟨?_, rfl, ?_, fun _ => forall₂_values hk⟩
  · rw [allNodes_node, Bool.and_eq_true, List.all_eq_true]
    exact ⟨by rw [nodeOK_congr (forall₂_values hk)]; exact hn, forall₂_ok hk⟩
  · simp only [xmlIdValues]
    exact List.Sublist.append (List.Sublist.refl _) (idsList_sublist hk)

theorem forall₂_refl : ∀ (ks : List Tree), (∀ k ∈ ks, k.allNodes (nodeOK env) = true) →
    KeepsList env ks ks
  | [], _ => .nil
  | k :: ks, h => .cons (Keeps.refl (h k (by simp))) (forall₂_refl ks (fun k' hk' => h k' (by simp [hk'])))

theorem forall₂_modify (g : Tree → Tree) : ∀ (ks : List Tree) (i : Nat),
    (∀ k ∈ ks, k.allNodes (nodeOK env) = true) → (∀ k ∈ ks, Keeps env (g k) k) →
    KeepsList env (ks.modify i g) ks
  | [], _, _, _ => by simp only [List.modify_nil]; exact .nil
  | k :: ks, 0, hok, hg => by
    simp only [List.modify_zero_cons]
    exact .cons (hg k (by simp)) (forall₂_refl ks (fun k' hk' => hok k' (by simp [hk'])))
  | k :: ks, i + 1, hok, hg => by
    simp only [List.modify_succ_cons]
    exact .cons (Keeps.refl (hok k (by simp)))
      (forall₂_modify g ks i (fun k' hk' => hok k' (by simp [hk'])) (fun k' hk' => hg k' (by simp [hk'])))

theorem nodeOK_of_allNodes {v : Value} {ks : List Tree} (h : (Tree.node v ks).allNodes (nodeOK env) = true) :
    nodeOK env v ks = true := by
  rw [allNodes_node, Bool.and_eq_true] at h; exact h.1

/-- An edit somewhere below: `scopeModifyAt`. -/
theorem keeps_scopeModifyAt (f : Tree → Tree)
    (hf : ∀ k, k.allNodes (nodeOK env) = true → Keeps env (f k) k) :
    ∀ (path : Path) (t : Tree), t.allNodes (nodeOK env) = true → Keeps env (scopeModifyAt f t path) t
  | [], t, h => by cases t; exact hf _ h
  | i :: p, .node v ks, h => by
    simp only [scopeModifyAt]
    exact keeps_node v (forall₂_modify _ ks i (fun k hk => allNodes_kid h hk)
      (fun k hk => keeps_scopeModifyAt f hf p k (allNodes_kid h hk))) (nodeOK_of_allNodes h)

theorem forall₂_modify_at (g : Tree → Tree) : ∀ (ks : List Tree) (i : Nat),
    (∀ k ∈ ks, k.allNodes (nodeOK env) = true) → (∀ k, ks[i]? = some k → Keeps env (g k) k) →
    KeepsList env (ks.modify i g) ks
  | [], _, _, _ => by simp only [List.modify_nil]; exact .nil
  | k :: ks, 0, hok, hg => by
    simp only [List.modify_zero_cons]
    exact .cons (hg k (by simp)) (forall₂_refl ks (fun k' hk' => hok k' (by simp [hk'])))
  | k :: ks, i + 1, hok, hg => by
    simp only [List.modify_succ_cons]
    exact .cons (Keeps.refl (hok k (by simp)))
      (forall₂_modify_at g ks i (fun k' hk' => hok k' (by simp [hk'])) (fun k' hk' => hg k' (by simpa using hk')))

/-- An edit of the subtree at `path` (and only there). -/
theorem keeps_scopeModifyAt_at (f : Tree → Tree) :
    ∀ (path : Path) (t : Tree), t.allNodes (nodeOK env) = true →
      (∀ sub, t.at? path = some sub → Keeps env (f sub) sub) → Keeps env (scopeModifyAt f t path) t
  | [], t, _, hf => by cases t; exact hf _ rfl
  | i :: p, .node v ks, h, hf => by
    simp only [scopeModifyAt]
    refine keeps_node v (forall₂_modify_at _ ks i (fun k hk => allNodes_kid h hk) (fun k hk => ?_))
      (nodeOK_of_allNodes h)
    refine keeps_scopeModifyAt_at f p k (allNodes_kid h (List.mem_of_getElem? hk)) (fun sub hs => hf sub ?_)
    simp only [Tree.at?, hk]
    exact hs

/-! ### Back to `Representable` -/

theorem representableFragment_of_keeps {t' t : Tree} (hr : RepresentableFragment env t = true)
    (hk : Keeps env t' t) : RepresentableFragment env t' = true := by
  obtain ⟨h1, h2, _, h4⟩ := (representableFragment_iff env t).mp hr
  exact (representableFragment_iff env t').mpr ⟨h1, by rw [hk.value]; exact h2, hk.ok, h4.sublist hk.ids⟩

theorem singleRoot_of_values {t' t : Tree} (h : t'.kids.map Tree.value = t.kids.map Tree.value) :
    singleRoot t' = singleRoot t := by
  have e : ∀ l : List Tree, (l.filter (fun k => k.value.isElement)).length =
      ((l.map Tree.value).filter Value.isElement).length := fun l => by
    rw [List.filter_map, List.length_map]; rfl
  have e2 : ∀ l : List Tree, l.all (fun k => !k.value.isText) = (l.map Tree.value).all (fun v => !v.isText) :=
    fun l => by rw [List.all_map]; rfl
  simp only [singleRoot, e, e2, h]

theorem representable_of_keeps {t' t : Tree} (hr : Representable env t = true) (hk : Keeps env t' t) :
    Representable env t' = true := by
  simp only [Representable, Bool.and_eq_true] at hr ⊢
  obtain ⟨h1, h2, _, _⟩ := (representableFragment_iff env t).mp hr.1
  have hne : t.value.isElement = false := by
    cases hv : t.value <;> simp [hv, Value.isDocument] at h2 <;> rfl
  exact ⟨representableFragment_of_keeps hr.1 hk, by rw [singleRoot_of_values (hk.top hne)]; exact hr.2⟩

/-! ### Removing a namespace node (C15) -/

theorem removeNsKid_sublist (pfx : Nat) : ∀ ks : List Tree, (removeNsKid pfx ks).Sublist ks
  | [] => List.Sublist.refl _
  | k :: ks => by
    unfold removeNsKid
    split
    · split
      · exact List.sublist_cons_self k ks
      · exact (removeNsKid_sublist pfx ks).cons_cons k
    · exact List.Sublist.refl _

theorem noAdjText_cons_notText {k : Tree} (hk : k.value.isText = false) (l : List Tree) :
    noAdjText (k :: l) = noAdjText l := by
  cases l with
  | nil => rfl
  | cons b r => simp [noAdjText, hk]

theorem noAdjText_tail {k : Tree} {l : List Tree} (h : noAdjText (k :: l) = true) : noAdjText l = true := by
  cases l with
  | nil => rfl
  | cons b r => simp only [noAdjText, Bool.and_eq_true] at h; exact h.2

theorem noAdjText_removeNsKid (pfx : Nat) : ∀ ks : List Tree, noAdjText ks = true →
    noAdjText (removeNsKid pfx ks) = true
  | [], _ => rfl
  | k :: ks, h => by
    unfold removeNsKid
    split
    · rename_i p n hv
      split
      · exact noAdjText_tail h
      · have hnt : k.value.isText = false := by rw [hv]; rfl
        rw [noAdjText_cons_notText hnt] at h ⊢
        exact noAdjText_removeNsKid pfx ks h
    · exact h

/-- Without a leading namespace node nothing is removed. -/
theorem removeNsKid_normal (pfx : Nat) (ks : List Tree) (h : ∀ k ∈ ks, k.value.isNormal = true) :
    removeNsKid pfx ks = ks := by
  cases ks with
  | nil => rfl
  | cons k ks =>
    unfold removeNsKid
    split
    · rename_i p n hv
      have := h k (by simp)
      rw [hv] at this
      simp [Value.isNormal, Value.category] at this
    · rfl

theorem idsList_sublist_of_sublist : ∀ {ks' ks : List Tree}, ks'.Sublist ks →
    (xmlIdValues.idsList env ks').Sublist (xmlIdValues.idsList env ks)
  | _, _, .slnil => List.Sublist.refl _
  | _, _, .cons k h => by
    simp only [xmlIdValues.idsList]
    exact (idsList_sublist_of_sublist h).trans (List.sublist_append_right _ _)
  | _, _, .cons_cons k h => by
    simp only [xmlIdValues.idsList]
    exact List.Sublist.append (List.Sublist.refl _) (idsList_sublist_of_sublist h)

theorem keeps_removeNsKidsOf (pfx : Nat) (t : Tree) (h : t.allNodes (nodeOK env) = true) :
    Keeps env (removeNsKidsOf pfx t) t := by
  cases t with
  | node v ks =>
    have hsub := removeNsKid_sublist pfx ks
    obtain ⟨ho, hkind, hu, hadj, hval⟩ := (nodeOK_iff env v ks).mp (nodeOK_of_allNodes h)
    simp only [removeNsKidsOf]
    refine ⟨?_, rfl, ?_, ?_⟩
    · rw [allNodes_node, Bool.and_eq_true, List.all_eq_true]
      refine ⟨(nodeOK_iff env v _).mpr ⟨ho.sublist hsub, ⟨?_, ?_, ?_⟩, ⟨?_, ?_⟩,
        noAdjText_removeNsKid pfx ks hadj, hval⟩, fun k hk => allNodes_kid h (hsub.subset hk)⟩
      · intro hl; rw [hkind.1 hl]; rfl
      · exact fun hne k hk => hkind.2.1 hne k (hsub.subset hk)
      · exact fun k hk => hkind.2.2 k (hsub.subset hk)
      · exact hu.1.sublist (hsub.filterMap _)
      · exact hu.2.sublist (hsub.filterMap _)
    · simp only [xmlIdValues]
      exact List.Sublist.append (List.Sublist.refl _) (idsList_sublist_of_sublist hsub)
    · intro hne
      simp only [Tree.value] at hne
      simp only [Tree.kids]
      rw [removeNsKid_normal pfx ks (hkind.2.1 hne)]

end XotModel
