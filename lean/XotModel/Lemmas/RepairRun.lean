/-
  From `okRec` (the serialiser's `MissingPrefix` checks as a recursion over the tree, Lemmas/RepairOk; what
  `create_missing_prefixes` establishes) to the serialisation RUN itself, for EVERY tree — no well-formedness,
  no `Representable`: along `genOutputs` rendered by `render_output`, every event that is reached is rendered
  `Ok`, except that a processing instruction with a namespaced target answers `NamespaceInProcessingInstruction`.
  So the run ends `Ok` or with that one error: never `MissingPrefix`, never a panic.
  Family prefix `rrun_`.
-/
import XotModel.Lemmas.RepairBridge
import XotModel.Lemmas.TraceInv
import XotModel.Lemmas.Output

namespace XotModel.Repair
open XotModel

variable (esc : Escapers) (env : Env) (pr : TokenParams) (t : Tree)

/-- The step at a reached event: `Ok`, or the event is a processing instruction and the error is
    `NamespaceInProcessingInstruction` (the one error of `render_output` that is not about a name's prefix). -/
def rrun_StepFine (x : FStack × Path × Output) : Prop :=
  (∃ v, renderAtWith esc env pr t x.1 x.2.1 x.2.2 = .ok v) ∨
    ((∃ tg d, x.2.2 = .pi tg d) ∧
      renderAtWith esc env pr t x.1 x.2.1 x.2.2 = .err .namespaceInProcessingInstruction)

theorem rrun_exceptIsOk {ε α : Type} {r : Except ε α} (h : exceptIsOk r = true) : ∃ v, r = .ok v := by
  cases r with
  | ok v => exact ⟨v, rfl⟩
  | error e => cases h

/-- Text, comment, `>`, declaration events are always rendered; a PI is rendered or refused for its target. -/
theorem rrun_neutral_fine (s : FStack) (p : Path) (o : Output) (node : Tree) (hn : t.at? p = some node)
    (ho : ∀ a v, o ≠ .attribute a v) (hopen : ∀ nm, o ≠ .startTagOpen nm) (hend : ∀ nm, o ≠ .endTag nm) :
    rrun_StepFine esc env pr t (s, p, o) := by
  unfold rrun_StepFine renderAtWith
  simp only [hn]
  cases o with
  | startTagOpen nm => exact absurd rfl (hopen nm)
  | endTag nm => exact absurd rfl (hend nm)
  | «attribute» a v => exact absurd rfl (ho a v)
  | startTagClose => left; simp only [renderXmlWith]; split <;> exact ⟨_, rfl⟩
  | pfx a b =>
    left; simp only [renderXmlWith]
    split
    · exact ⟨_, rfl⟩
    · split <;> exact ⟨_, rfl⟩
  | text x => left; simp only [renderXmlWith]; split <;> exact ⟨_, rfl⟩
  | comment x => left; exact ⟨_, rfl⟩
  | pi tg d =>
    simp only [renderXmlWith]
    split
    · right; exact ⟨⟨tg, d, rfl⟩, rfl⟩
    · left; split <;> exact ⟨_, rfl⟩

/-- A leaf event followed by the children's events. -/
theorem rrun_leaf (path : Path) (node : Tree) (hn : t.at? path = some node) (o : Output)
    (hneut : o.isNeutral = true) (ho : ∀ a v, o ≠ .attribute a v) (s : FStack) {evs : List (Path × Output)}
    (hk : (∀ x ∈ stackTrace esc env pr t s evs, rrun_StepFine esc env pr t x) ∧
      (∀ s', runStack esc env pr t s evs = some s' → s' = s)) :
    (∀ x ∈ stackTrace esc env pr t s ((path, o) :: evs), rrun_StepFine esc env pr t x) ∧
    (∀ s', runStack esc env pr t s ((path, o) :: evs) = some s' → s' = s) := by
  obtain ⟨k1, k2⟩ := hk
  have hfine : rrun_StepFine esc env pr t (s, path, o) :=
    rrun_neutral_fine esc env pr t s path o node hn ho
      (by intro nm h; subst h; cases hneut) (by intro nm h; subst h; cases hneut)
  constructor
  · intro x hx
    simp only [stackTrace, List.mem_cons] at hx
    rcases hx with rfl | hx
    · exact hfine
    · cases hstep : stepStack esc env pr t s (path, o) with
      | none => simp [hstep] at hx
      | some s1 =>
        have := stepStack_neutral esc env pr t s s1 path o hneut hstep
        subst this
        simp only [hstep] at hx
        exact k1 x hx
  · intro s' hrun
    simp only [runStack] at hrun
    cases hstep : stepStack esc env pr t s (path, o) with
    | none => simp [hstep] at hrun
    | some s1 =>
      have := stepStack_neutral esc env pr t s s1 path o hneut hstep
      subst this
      simp only [hstep] at hrun
      exact k2 s' hrun

/-- The declaration / attribute / `>` events of a start tag, rendered with the element's frame pushed: all
    fine when every attribute name has a prefix in that frame. -/
theorem rrun_head (inScope : List (Nat × Nat)) (isTop : Bool) (path : Path) (node : Tree)
    (hn : t.at? path = some node) (s1 : FStack)
    (hattrs : ∀ a ∈ node.attrs, exceptIsOk (s1.attributeFullname env a.1) = true) :
    ∀ x ∈ stackTrace esc env pr t s1 (headEvents inScope isTop path node), rrun_StepFine esc env pr t x := by
  intro x hx
  obtain ⟨n1, _⟩ := neutral_run esc env pr t s1 _ (fun po hpo => (headEvents_neutral inScope isTop path node po hpo).1)
  obtain ⟨e1, e2⟩ := n1 x hx
  obtain ⟨xs, xp, xo⟩ := x
  simp only at e1 e2
  subst e1
  unfold headEvents at e2
  simp only [List.mem_append, List.mem_map, List.mem_singleton, Prod.mk.injEq] at e2
  rcases e2 with ((⟨o, ho, rfl, rfl⟩ | ⟨d, _, rfl, rfl⟩) | ⟨a, ha, rfl, rfl⟩) | ⟨rfl, rfl⟩
  · split at ho
    · unfold extraPrefixes at ho
      obtain ⟨d, _, rfl⟩ := List.mem_map.mp ho
      exact rrun_neutral_fine esc env pr t xs _ _ node hn (by intro a v h; cases h) (by intro a h; cases h)
        (by intro a h; cases h)
    · cases ho
  · exact rrun_neutral_fine esc env pr t xs _ _ node hn (by intro a v h; cases h) (by intro a h; cases h)
      (by intro a h; cases h)
  · left
    obtain ⟨full, hfull⟩ := rrun_exceptIsOk (hattrs a ha)
    unfold renderAtWith
    simp only [hn, renderXmlWith, hfull]
    exact ⟨_, rfl⟩
  · exact rrun_neutral_fine esc env pr t xs _ _ node hn (by intro a v h; cases h) (by intro a h; cases h)
      (by intro a h; cases h)

mutual
/-- The events of a subtree whose names are all writable from the top frame of the stack it is entered with:
    every reached event is fine, and the stack is restored. -/
theorem rrun_genNode (inScope : List (Nat × Nat)) (isTop : Bool) (path : Path) (n : Tree)
    (hat : t.at? path = some n) (s : FStack) (hok : okRec env.nsOfName s.top n = true) :
    (∀ x ∈ stackTrace esc env pr t s (genNode inScope isTop path n), rrun_StepFine esc env pr t x) ∧
    (∀ s', runStack esc env pr t s (genNode inScope isTop path n) = some s' → s' = s) := by
  cases n with
  | node v ks =>
    have hkat : ∀ (j : Nat) (k : Tree), ks[j]? = some k → t.at? (path ++ [0 + j]) = some k := by
      intro j k hk
      rw [at?_append, hat]
      simp only [Nat.zero_add]
      rw [at?_cons, hk]
      rfl
    cases v with
    | element name =>
      rw [genNode_element_split]
      rw [okRec_element, Bool.and_eq_true] at hok
      obtain ⟨hE, hK⟩ := hok
      have hdecl : (Tree.node (.element name) ks).nsDecls = declsOfKids ks := nsDecls_node _ ks
      have htop : (s.push (Tree.node (.element name) ks).nsDecls).top = pushTop s.top (declsOfKids ks) := by
        rw [top_push, hdecl]
      simp only [elementOkAt, Bool.and_eq_true, List.all_eq_true] at hE
      obtain ⟨⟨hE1, hE2⟩, hE3⟩ := hE
      rw [← htop] at hE1 hE2 hE3 hK
      rw [← hasDefaultNamespace_eq] at hE1
      rw [← exceptIsOk_elementFullname] at hE2
      obtain ⟨full, hfull⟩ := rrun_exceptIsOk hE2
      have hattrs : ∀ a ∈ (Tree.node (.element name) ks).attrs,
          exceptIsOk ((s.push (Tree.node (.element name) ks).nsDecls).attributeFullname env a.1) = true := by
        intro a ha
        rw [exceptIsOk_attributeFullname]
        exact hE3 a.1 (List.mem_map.mpr ⟨a, ha, rfl⟩)
      -- the start tag is rendered
      have hopen : renderAtWith esc env pr t s path (.startTagOpen name) =
          .ok (s.push (Tree.node (.element name) ks).nsDecls, ⟨false, fmt Gen.fmtStartTagOpen [full]⟩) := by
        have hc : (env.nsOfName name == Env.noNamespace &&
            (s.push (Tree.node (.element name) ks).nsDecls).hasDefaultNamespace) = false := by
          cases h : (env.nsOfName name == Env.noNamespace &&
              (s.push (Tree.node (.element name) ks).nsDecls).hasDefaultNamespace) with
          | false => rfl
          | true => rw [h] at hE1; cases hE1
        unfold renderAtWith
        simp only [hat, renderXmlWith, hc, Bool.false_eq_true, if_false, hfull]
      have hstep : stepStack esc env pr t s (path, .startTagOpen name) =
          some (s.push (Tree.node (.element name) ks).nsDecls) := by
        simp only [stepStack, hopen]
      generalize hs1 : s.push (Tree.node (.element name) ks).nsDecls = s1 at *
      have hhead := rrun_head esc env pr t inScope isTop path _ hat s1 hattrs
      obtain ⟨_, n2⟩ := neutral_run esc env pr t s1 _
        (fun po hpo => (headEvents_neutral inScope isTop path (.node (.element name) ks) po hpo).1)
      obtain ⟨k1, k2⟩ := rrun_genKids inScope path 0 ks hkat s1 hK
      -- the end tag is rendered with the same stack
      have hend : ∃ tok, renderAtWith esc env pr t s1 path (.endTag name) =
          .ok (s1.pop (Tree.node (.element name) ks).hasNsDecls, tok) := by
        unfold renderAtWith
        simp only [hat, renderXmlWith]
        split
        · rw [hfull]; exact ⟨_, rfl⟩
        · exact ⟨_, rfl⟩
      have hpop : s1.pop (Tree.node (.element name) ks).hasNsDecls = s := by
        rw [← hs1]; exact FStack.pop_push s _
      constructor
      · intro x hx
        simp only [stackTrace, List.mem_cons, hstep] at hx
        rcases hx with rfl | hx
        · exact Or.inl ⟨_, hopen⟩
        · rcases (mem_stackTrace_append esc env pr t s1 _ _ x).mp hx with hx | ⟨s2, hr2, hx2⟩
          · exact hhead x hx
          · have := n2 s2 hr2
            subst this
            rcases (mem_stackTrace_append esc env pr t s2 _ _ x).mp hx2 with hx3 | ⟨s3, hr3, hx3⟩
            · exact k1 x hx3
            · have := k2 s3 hr3
              subst this
              simp only [stackTrace, List.mem_cons] at hx3
              rcases hx3 with rfl | hx3
              · obtain ⟨tok, htok⟩ := hend
                exact Or.inl ⟨_, htok⟩
              · split at hx3 <;> cases hx3
      · intro s' hrun
        simp only [runStack, hstep] at hrun
        rw [runStack_append] at hrun
        cases hr2 : runStack esc env pr t s1 (headEvents inScope isTop path (.node (.element name) ks)) with
        | none => simp [hr2] at hrun
        | some s2 =>
          have := n2 s2 hr2
          subst this
          simp only [hr2, Option.bind_some] at hrun
          rw [runStack_append] at hrun
          cases hr3 : runStack esc env pr t s2 (genNode.genKids inScope path 0 ks) with
          | none => simp [hr3] at hrun
          | some s3 =>
            have := k2 s3 hr3
            subst this
            obtain ⟨tok, htok⟩ := hend
            simp only [hr3, Option.bind_some, runStack, stepStack, htok, Option.some.injEq] at hrun
            rw [← hrun]; exact hpop
    | document =>
      rw [genNode_document]
      exact rrun_genKids inScope path 0 ks hkat s (by rwa [okRec_other _ _ _ _ rfl] at hok)
    | «attribute» a val =>
      rw [genNode_attribute]
      exact rrun_genKids inScope path 0 ks hkat s (by rwa [okRec_other _ _ _ _ rfl] at hok)
    | «namespace» p ns =>
      rw [genNode_namespace]
      exact rrun_genKids inScope path 0 ks hkat s (by rwa [okRec_other _ _ _ _ rfl] at hok)
    | text x =>
      rw [genNode_text]
      exact rrun_leaf esc env pr t path _ hat _ rfl (by intro a v h; cases h) s
        (rrun_genKids inScope path 0 ks hkat s (by rwa [okRec_other _ _ _ _ rfl] at hok))
    | comment x =>
      rw [genNode_comment]
      exact rrun_leaf esc env pr t path _ hat _ rfl (by intro a v h; cases h) s
        (rrun_genKids inScope path 0 ks hkat s (by rwa [okRec_other _ _ _ _ rfl] at hok))
    | pi tg d =>
      rw [genNode_pi]
      exact rrun_leaf esc env pr t path _ hat _ rfl (by intro a v h; cases h) s
        (rrun_genKids inScope path 0 ks hkat s (by rwa [okRec_other _ _ _ _ rfl] at hok))

theorem rrun_genKids (inScope : List (Nat × Nat)) (path : Path) (i : Nat) (ks : List Tree)
    (hat : ∀ (j : Nat) (k : Tree), ks[j]? = some k → t.at? (path ++ [i + j]) = some k)
    (s : FStack) (hok : okKids env.nsOfName s.top ks = true) :
    (∀ x ∈ stackTrace esc env pr t s (genNode.genKids inScope path i ks), rrun_StepFine esc env pr t x) ∧
    (∀ s', runStack esc env pr t s (genNode.genKids inScope path i ks) = some s' → s' = s) := by
  cases ks with
  | nil => simp [genNode.genKids, stackTrace, runStack]
  | cons k ks' =>
    simp only [genNode.genKids]
    simp only [okKids, Bool.and_eq_true] at hok
    obtain ⟨a1, a2⟩ := rrun_genNode inScope false (path ++ [i]) k (by simpa using hat 0 k rfl) s hok.1
    obtain ⟨b1, b2⟩ := rrun_genKids inScope path (i + 1) ks'
      (fun j k' hk => by have := hat (j + 1) k' (by simpa using hk); rwa [show i + (j + 1) = i + 1 + j by omega] at this)
      s hok.2
    constructor
    · intro x hx
      rcases (mem_stackTrace_append esc env pr t s _ _ x).mp hx with hx1 | ⟨s1, hr1, hx1⟩
      · exact a1 x hx1
      · have := a2 s1 hr1
        subst this
        exact b1 x hx1
    · intro s' hrun
      rw [runStack_append] at hrun
      cases hr1 : runStack esc env pr t s (genNode inScope false (path ++ [i]) k) with
      | none => simp [hr1] at hrun
      | some s1 =>
        have := a2 s1 hr1
        subst this
        simp only [hr1, Option.bind_some] at hrun
        exact b2 s' hrun
end

/-- A run all of whose reached events are fine ends `Ok` or with `NamespaceInProcessingInstruction`. -/
theorem rrun_outcome (evs : List (Path × Output)) : ∀ (s : FStack),
    (∀ x ∈ stackTrace esc env pr t s evs, rrun_StepFine esc env pr t x) →
    (∃ l, renderAllWith esc env pr t s evs = .ok l) ∨
      renderAllWith esc env pr t s evs = .err .namespaceInProcessingInstruction := by
  induction evs with
  | nil => intro s _; exact Or.inl ⟨[], rfl⟩
  | cons po evs ih =>
    intro s h
    obtain ⟨p, o⟩ := po
    have h0 := h (s, p, o) (by simp [stackTrace])
    simp only [renderAllWith]
    rcases h0 with ⟨v, hv⟩ | ⟨_, he⟩
    · obtain ⟨s', tok⟩ := v
      simp only at hv
      have hstep : stepStack esc env pr t s (p, o) = some s' := by simp [stepStack, hv]
      have := ih s' (fun x hx => h x (by simp only [stackTrace, List.mem_cons, hstep]; exact Or.inr hx))
      rcases this with ⟨l, hl⟩ | he
      · exact Or.inl ⟨(p, o, tok) :: l, by simp only [hv, hl]⟩
      · exact Or.inr (by simp only [hv, he])
    · simp only at he
      exact Or.inr (by simp only [he])

/-- `Ok` exactly when no processing instruction of the run is refused for its target. -/
theorem rrun_ok_of_no_pi (evs : List (Path × Output)) : ∀ (s : FStack),
    (∀ x ∈ stackTrace esc env pr t s evs, rrun_StepFine esc env pr t x) →
    (∀ p tg d, (p, Output.pi tg d) ∈ evs → (env.namespaceStr (env.nsOfName tg)).isEmpty = true) →
    ∃ l, renderAllWith esc env pr t s evs = .ok l := by
  induction evs with
  | nil => intro s _ _; exact ⟨[], rfl⟩
  | cons po evs ih =>
    intro s h hpi
    obtain ⟨p, o⟩ := po
    have h0 := h (s, p, o) (by simp [stackTrace])
    simp only [renderAllWith]
    rcases h0 with ⟨v, hv⟩ | ⟨⟨tg, d, ho⟩, he⟩
    · obtain ⟨s', tok⟩ := v
      simp only at hv
      have hstep : stepStack esc env pr t s (p, o) = some s' := by simp [stepStack, hv]
      obtain ⟨l, hl⟩ := ih s' (fun x hx => h x (by simp only [stackTrace, List.mem_cons, hstep]; exact Or.inr hx))
        (fun p' tg d hm => hpi p' tg d (List.mem_cons_of_mem _ hm))
      exact ⟨(p, o, tok) :: l, by simp only [hv, hl]⟩
    · simp only at ho he
      subst ho
      have hemp := hpi p tg d (by simp)
      unfold renderAtWith at he
      cases hn : t.at? p with
      | none => simp [hn] at he
      | some node =>
        simp only [hn, renderXmlWith, hemp, Bool.not_true, Bool.false_eq_true, if_false] at he
        split at he <;> cases he

/-- From the start node: `XmlSerializer::new` starts with `namespaces_in_scope(start)`, which is the frame
    `namesWritable` starts from. -/
theorem rrun_of_namesWritable (start : Path) (hw : namesWritable env t start = some true) :
    (∀ x ∈ stackTrace esc env pr t (initStack t start) (genOutputs t start), rrun_StepFine esc env pr t x) := by
  unfold namesWritable at hw
  cases hc : t.ancestorsOrSelf start with
  | none => simp [hc] at hw
  | some chain =>
    cases hn : t.at? start with
    | none => simp [hc, hn] at hw
    | some n =>
      simp only [hc, hn, Option.some.injEq, namesWritableChain_eq] at hw
      have hs : namespacesInScope t start = some (namespacesInScopeChain chain) := by
        simp [namespacesInScope, hc]
      have hg : genOutputs t start = genNode (namespacesInScopeChain chain) true start n := by
        simp [genOutputs, hn, hs]
      have hinit : (initStack t start).top = namespacesInScopeChain chain := by
        simp [initStack, hs, FStack.new, FStack.top]
      rw [hg]
      exact (rrun_genNode esc env pr t _ true start n hn _ (by rw [hinit]; exact hw)).1

/-! ### What a fine step says about a name event -/

/-- A start tag that is rendered: `element_prefix` answered, the token is `<` + the qualified name. -/
theorem rrun_fine_open (s : FStack) (p : Path) (nm : Nat) (node : Tree) (hn : t.at? p = some node)
    (hf : rrun_StepFine esc env pr t (s, p, .startTagOpen nm)) :
    ∃ pfx, (s.push node.nsDecls).elementPrefix env nm = .ok pfx ∧
      renderAtWith esc env pr t s p (.startTagOpen nm) =
        .ok (s.push node.nsDecls, ⟨false, fmt Gen.fmtStartTagOpen [qname env pfx nm]⟩) := by
  rcases hf with ⟨v, hv⟩ | ⟨⟨tg, d, ho⟩, _⟩
  · simp only at hv
    unfold renderAtWith at hv ⊢
    simp only [hn, renderXmlWith] at hv ⊢
    split at hv
    · cases hv
    · rename_i hc
      rw [if_neg hc]
      unfold FStack.elementFullname at hv ⊢
      cases hp : (s.push node.nsDecls).elementPrefix env nm with
      | ok q => exact ⟨q, rfl, by simp only [hp]⟩
      | error e => simp [hp] at hv
  · cases ho

/-- An attribute that is rendered. -/
theorem rrun_fine_attribute (s : FStack) (p : Path) (nm : Nat) (v : Str) (node : Tree) (hn : t.at? p = some node)
    (hf : rrun_StepFine esc env pr t (s, p, .attribute nm v)) :
    ∃ pfx, s.attributePrefix env nm = .ok pfx ∧
      renderAtWith esc env pr t s p (.attribute nm v) =
        .ok (s, ⟨true, fmt Gen.fmtAttribute [qname env pfx nm, esc.attr v]⟩) := by
  rcases hf with ⟨w, hv⟩ | ⟨⟨tg, d, ho⟩, _⟩
  · simp only at hv
    unfold renderAtWith at hv ⊢
    simp only [hn, renderXmlWith] at hv ⊢
    unfold FStack.attributeFullname at hv ⊢
    cases hp : s.attributePrefix env nm with
    | ok q => exact ⟨q, rfl, by simp only [hp]⟩
    | error e => simp [hp] at hv
  · cases ho

/-- An end tag that is rendered for an element with children: the name is written again. -/
theorem rrun_fine_end (s : FStack) (p : Path) (nm : Nat) (node : Tree) (hn : t.at? p = some node)
    (hc : node.firstChild?.isSome = true)
    (hf : rrun_StepFine esc env pr t (s, p, .endTag nm)) :
    ∃ pfx, s.elementPrefix env nm = .ok pfx ∧
      renderAtWith esc env pr t s p (.endTag nm) =
        .ok (s.pop node.hasNsDecls, ⟨false, fmt Gen.fmtEndTag [qname env pfx nm]⟩) := by
  rcases hf with ⟨w, hv⟩ | ⟨⟨tg, d, ho⟩, _⟩
  · simp only at hv
    unfold renderAtWith at hv ⊢
    simp only [hn, renderXmlWith, hc, if_true] at hv ⊢
    unfold FStack.elementFullname at hv ⊢
    cases hp : s.elementPrefix env nm with
    | ok q => exact ⟨q, rfl, by simp only [hp]⟩
    | error e => simp [hp] at hv
  · cases ho

/-- A fine step that is not a refused processing instruction advances the stack. -/
theorem rrun_fine_step (x : FStack × Path × Output) (hf : rrun_StepFine esc env pr t x)
    (hpi : ∀ tg d, x.2.2 ≠ .pi tg d) : ∃ s', stepStack esc env pr t x.1 (x.2.1, x.2.2) = some s' := by
  rcases hf with ⟨v, hv⟩ | ⟨⟨tg, d, ho⟩, _⟩
  · exact ⟨v.1, by simp [stepStack, hv]⟩
  · exact absurd ho (hpi tg d)

/-- The outcome of `serialize_xml_string` / `to_string` follows the rendered stream. -/
theorem rrun_string_outcome (start : Path)
    (h : (∃ l, renderAllWith esc env pr t (initStack t start) (genOutputs t start) = .ok l) ∨
      renderAllWith esc env pr t (initStack t start) (genOutputs t start) = .err .namespaceInProcessingInstruction) :
    (∃ l, renderAllWith esc env pr t (initStack t start) (genOutputs t start) = .ok l ∧
        serializeStringWith esc env pr t start = .ok (streamBytes l)) ∨
      serializeStringWith esc env pr t start = .err .namespaceInProcessingInstruction := by
  unfold serializeStringWith serializeWriteWith bufferToString
  rcases h with ⟨l, hl⟩ | he
  · left
    refine ⟨l, hl, ?_⟩
    rw [writeGo_of_renderAll_ok esc env pr t _ _ l hl]
  · right
    rw [writeGo_of_renderAll_err esc env pr t _ _ _ he]

/-- `attribute_prefix` never answers the empty prefix. -/
theorem rrun_attributePrefix_ne_empty (s : FStack) (name : Nat) (p : Option Nat)
    (h : s.attributePrefix env name = .ok p) : p ≠ some Env.emptyPrefix := by
  unfold FStack.attributePrefix at h
  by_cases hns : (env.nsOfName name == Env.noNamespace) = true
  · simp only [hns, if_true] at h
    cases h
    simp
  · simp only [hns] at h
    by_cases hxml : (env.nsOfName name == Env.xmlNamespace) = true
    · simp only [hxml, if_true] at h
      cases h
      decide
    · simp only [hxml] at h
      cases hp : attributePrefixByNamespace s.top (env.nsOfName name) with
      | none => simp [hp] at h
      | some q =>
        obtain ⟨_, hne⟩ := attributePrefixByNamespace_mem hp
        simp only [hp] at h
        cases h
        simpa using hne

end XotModel.Repair
