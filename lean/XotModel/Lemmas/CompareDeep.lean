/-
  Lemmas for C13, part 10: what deep_equal ignores, at every depth.
  * `AttrPerm a a'`: `a'` is `a` with the attribute children of any set of nodes permuted.
  * `DeclEdit a a'`: `a'` is `a` after any number of namespace nodes were added, removed or changed
    anywhere.
  Both leave the canonical form unchanged (and `AttrPerm` preserves structural validity).
-/
import XotModel.Lemmas.CompareVariants

namespace XotModel

/-! ### Attribute order, anywhere -/

mutual
/-- `a'` is `a` with, at every node, one block of attribute children permuted (`A.Perm A'`, the
    block may be empty or the whole attribute list) and the other children related recursively. -/
inductive AttrPerm : Tree → Tree → Prop
  | node (v : Value) (pre pre' A A' rest rest' : List Tree) :
      AttrPermList pre pre' → (∀ k ∈ A, k.value.category = .attribute) → A.Perm A' → AttrPermList rest rest' →
      AttrPerm (.node v (pre ++ A ++ rest)) (.node v (pre' ++ A' ++ rest'))
inductive AttrPermList : List Tree → List Tree → Prop
  | nil : AttrPermList [] []
  | cons {k k' : Tree} {ks ks' : List Tree} : AttrPerm k k' → AttrPermList ks ks' → AttrPermList (k :: ks) (k' :: ks')
end

theorem AttrPerm.value_eq {a a' : Tree} (h : AttrPerm a a') : a.value = a'.value := by
  cases h; rfl

mutual
theorem AttrPerm.refl : ∀ t : Tree, AttrPerm t t
  | .node v ks => by
    have := AttrPerm.node v [] [] [] [] ks ks .nil (fun _ h => nomatch h) (List.Perm.refl _) (AttrPermList.refl ks)
    simpa using this
theorem AttrPermList.refl : ∀ ks : List Tree, AttrPermList ks ks
  | [] => .nil
  | k :: ks => .cons (AttrPerm.refl k) (AttrPermList.refl ks)
end

/-- `orderedKids` depends on the categories of the children only. -/
def orderedCats (cs : List Category) : Bool :=
  ((cs.dropWhile (· == .namespace)).dropWhile (· == .attribute)).all (· == .normal)

theorem orderedKids_eq_cats (ks : List Tree) : orderedKids ks = orderedCats (ks.map (·.value.category)) := by
  unfold orderedKids orderedCats
  rw [List.dropWhile_map, List.dropWhile_map, List.all_map]
  rfl

theorem cats_of_attr_block {A : List Tree} (h : ∀ k ∈ A, k.value.category = .attribute) :
    A.map (·.value.category) = List.replicate A.length .attribute := by
  induction A with
  | nil => rfl
  | cons k ks ih =>
    simp only [List.map_cons, List.length_cons, List.replicate_succ, h k List.mem_cons_self,
      ih (fun x hx => h x (List.mem_cons_of_mem _ hx))]

/-- What the recursion establishes for a list of children. -/
structure AttrPermListSpec (ks ks' : List Tree) : Prop where
  canon : canon.canonList ks = canon.canonList ks'
  attrs : attrPairs ks = attrPairs ks'
  cats : ks.map (·.value.category) = ks'.map (·.value.category)
  valid : ∀ k ∈ ks', k.valid = true

mutual
theorem AttrPerm.spec : ∀ {a a' : Tree}, AttrPerm a a' → a.valid = true → canon a = canon a' ∧ a'.valid = true
  | _, _, .node v pre pre' A A' rest rest' hpre hA p hrest, hv => by
    obtain ⟨ho, hn, hl, hk⟩ := valid_node hv
    have hkpre : ∀ k ∈ pre, k.valid = true := fun k h => hk k (by simp [h])
    have hkA : ∀ k ∈ A, k.valid = true := fun k h => hk k (by simp [h])
    have hkrest : ∀ k ∈ rest, k.valid = true := fun k h => hk k (by simp [h])
    have s1 := AttrPermList.spec hpre hkpre
    have s2 := AttrPermList.spec hrest hkrest
    have hA' : ∀ k ∈ A', k.value.category = .attribute := fun k h => hA k (p.symm.subset h)
    have hAn : ∀ k ∈ A, ¬ k.value.isNormal = true := fun k h => by simp [Value.isNormal, hA k h]
    have hAn' : ∀ k ∈ A', ¬ k.value.isNormal = true := fun k h => by simp [Value.isNormal, hA' k h]
    have nd : keysNodup (attrPairs (pre ++ A ++ rest)) := by simpa [attrNamesNodup, keysNodup] using hn
    have hperm : (attrPairs (pre ++ A ++ rest)).Perm (attrPairs (pre' ++ A' ++ rest')) := by
      simp only [attrPairs_append, ← s1.attrs, ← s2.attrs]
      exact ((attrPairs_perm p).append_left _).append_right _
    have hcats : (pre ++ A ++ rest).map (·.value.category) = (pre' ++ A' ++ rest').map (·.value.category) := by
      simp only [List.map_append, s1.cats, s2.cats, cats_of_attr_block hA, cats_of_attr_block hA', p.length_eq]
    constructor
    · have hs := (sortAttrs_eq_iff_perm nd).mpr hperm
      have hc : canon.canonList (pre ++ A ++ rest) = canon.canonList (pre' ++ A' ++ rest') := by
        simp only [canonList_append, canonList_eq_nil hAn, canonList_eq_nil hAn', s1.canon, s2.canon]
      simp only [canon, hc]
      cases v <;> simp only [cvalue, hs]
    · simp only [Tree.valid, Bool.and_eq_true, Bool.or_eq_true, List.isEmpty_iff, validList_iff]
      refine ⟨⟨⟨?_, ?_⟩, ?_⟩, ?_⟩
      · rw [orderedKids_eq_cats, ← hcats, ← orderedKids_eq_cats]; exact ho
      · have := keysNodup_perm hperm nd
        simpa [attrNamesNodup, keysNodup] using this
      · rcases hl with hl | hl
        · exact Or.inl hl
        · refine Or.inr ?_
          have hlen := congrArg List.length hcats
          simp only [List.length_map] at hlen
          rw [hl] at hlen
          exact List.eq_nil_of_length_eq_zero hlen.symm
      · intro k hk'
        simp only [List.mem_append] at hk'
        rcases hk' with (h | h) | h
        · exact s1.valid k h
        · exact hkA k (p.symm.subset h)
        · exact s2.valid k h
theorem AttrPermList.spec : ∀ {ks ks' : List Tree}, AttrPermList ks ks' → (∀ k ∈ ks, k.valid = true) →
    AttrPermListSpec ks ks'
  | _, _, .nil, _ => ⟨rfl, rfl, rfl, fun _ h => nomatch h⟩
  | _, _, .cons (k := k) (k' := k') (ks := ks) (ks' := ks') h hs, hv => by
    have s1 := AttrPerm.spec h (hv k List.mem_cons_self)
    have s2 := AttrPermList.spec hs (fun x hx => hv x (List.mem_cons_of_mem _ hx))
    have hval := h.value_eq
    refine ⟨?_, ?_, ?_, ?_⟩
    · simp only [canon.canonList, ← hval, s1.1, s2.canon]
    · simp only [attrPairs, ← hval, s2.attrs]
    · simp only [List.map_cons, hval, s2.cats]
    · intro x hx
      rcases List.mem_cons.mp hx with e | hx'
      · exact e ▸ s1.2
      · exact s2.valid x hx'
end

/-! ### Namespace declarations, anywhere -/

/-- `a'` is `a` after namespace nodes were added, removed or replaced at any nodes, any number
    of times. -/
inductive DeclEdit : Tree → Tree → Prop
  | add (v : Value) (pre post : List Tree) (d : Tree) : d.value.category = .namespace →
      DeclEdit (.node v (pre ++ post)) (.node v (pre ++ d :: post))
  | remove (v : Value) (pre post : List Tree) (d : Tree) : d.value.category = .namespace →
      DeclEdit (.node v (pre ++ d :: post)) (.node v (pre ++ post))
  | change (v : Value) (pre post : List Tree) (d d' : Tree) : d.value.category = .namespace →
      d'.value.category = .namespace →
      DeclEdit (.node v (pre ++ d :: post)) (.node v (pre ++ d' :: post))
  | child (v : Value) (pre post : List Tree) (k k' : Tree) : DeclEdit k k' →
      DeclEdit (.node v (pre ++ k :: post)) (.node v (pre ++ k' :: post))
  | refl (a : Tree) : DeclEdit a a
  | trans {a b c : Tree} : DeclEdit a b → DeclEdit b c → DeclEdit a c

theorem DeclEdit.value_eq {a b : Tree} (h : DeclEdit a b) : a.value = b.value := by
  induction h with
  | trans _ _ ih₁ ih₂ => exact ih₁.trans ih₂
  | _ => rfl

theorem stripNsList_append (a b : List Tree) : stripNsList (a ++ b) = stripNsList a ++ stripNsList b := by
  induction a with
  | nil => simp [stripNsList]
  | cons k ks ih =>
    simp only [List.cons_append, stripNsList, ih]
    split <;> simp

theorem stripNsList_cons_ns {d : Tree} (h : d.value.category = .namespace) (l : List Tree) :
    stripNsList (d :: l) = stripNsList l := by
  simp [stripNsList, h]

/-- Editing declarations does not change the tree with every namespace node erased. -/
theorem DeclEdit.stripNs_eq {a b : Tree} (h : DeclEdit a b) : cmpStripNs a = cmpStripNs b := by
  induction h with
  | add v pre post d hd => simp only [cmpStripNs, stripNsList_append, stripNsList_cons_ns hd]
  | remove v pre post d hd => simp only [cmpStripNs, stripNsList_append, stripNsList_cons_ns hd]
  | change v pre post d d' hd hd' =>
    simp only [cmpStripNs, stripNsList_append, stripNsList_cons_ns hd, stripNsList_cons_ns hd']
  | child v pre post k k' hk ih =>
    simp only [cmpStripNs, stripNsList_append, stripNsList, hk.value_eq, ih]
  | refl a => rfl
  | trans _ _ ih₁ ih₂ => exact ih₁.trans ih₂

end XotModel
