/-
  Lemmas for C20 (any construction order), part 3: one call, then whole programs.

  `call_impl_spec`: a call the implementation answers `ok` is accepted by the specification and
  yields the same state, handle for handle (hypotheses: `Forest.Inv`, and the flags are such that
  `Forest.Normal` follows: consolidation never switched off, or off).
  `run_refine`: induction over the program, given `Forest.Inv` along the implementation run.
-/
import XotModel.Lemmas.FanyorderMove
import XotModel.Lemmas.FanyorderEntry

namespace XotModel
namespace Prog
open Spec Fmap

/-- The flag settings under which the store never holds adjacent text nodes while consolidation
    is on: consolidation has never been switched off, or it is off. -/
def FlagsOk (f : Forest) : Prop := f.everOff = false ∨ f.consolidation = false

theorem normal_of_flags {f : Forest} (inv : f.Inv) (h : FlagsOk f) : f.Normal := by
  intro hc
  rcases h with h | h
  · have := inv.valid
    rw [h] at this
    exact this
  · rw [h] at hc; cases hc

/-- Same flags, same `FlagsOk`. -/
theorem FlagsOk.of_eq {f f' : Forest} (h : FlagsOk f) (h1 : f'.consolidation = f.consolidation)
    (h2 : f'.everOff = f.everOff) : FlagsOk f' := by
  unfold FlagsOk at *
  rw [h1, h2]; exact h

/-! ### One call -/

theorem anyAppend_normal (f : Forest) (p c : Nat) (t : HTree) (hg : f.get? c = some t)
    (hn : t.value.isNormal = true) :
    f.anyAppend p c = ((f.append p c).1, (f.append p c).2,
      Forest.anyAppendRet (f.append p c).1 (f.append p c).2 p c) := by
  have hv : f.value? c = some t.value := by simp [Forest.value?, hg]
  unfold Forest.anyAppend
  rw [hv]
  cases h : t.value <;> simp_all [Value.isNormal, Value.category]

theorem anyAppend_entry' (f : Forest) (p c : Nat) (t : HTree) (hg : f.get? c = some t)
    (hn : t.value.isNormal = false) :
    ∃ k : Forest.MapKind, k.matches t.value = true ∧ f.anyAppend p c = f.appendEntryNode k p c := by
  have hv : f.value? c = some t.value := by simp [Forest.value?, hg]
  cases h : t.value with
  | «attribute» a b =>
    refine ⟨.attributes, by simp [Forest.MapKind.matches], ?_⟩
    exact anyAppend_entry f .attributes p c _ (by rw [hv, h]) (by simp [Forest.MapKind.matches])
  | «namespace» a b =>
    refine ⟨.namespaces, by simp [Forest.MapKind.matches], ?_⟩
    exact anyAppend_entry f .namespaces p c _ (by rw [hv, h]) (by simp [Forest.MapKind.matches])
  | _ => simp_all [Value.isNormal, Value.category]

theorem append_dead (f : Forest) (p c : Nat) (hg : f.get? c = none) : (f.append p c).2 ≠ .ok := by
  intro hok
  have := implCheck_of_ok (d := .lastChildOf p) (n := c) hok
  simp only [implCheck, Forest.structureCheck, Forest.value?, hg] at this
  simp at this

/-- What a call accepted by the specification leaves alone. -/
theorem spec_fields {f f' : Forest} {c : Call} {o : Option Nat} (h : c.spec f = some (f', o)) :
    f'.consolidation = f.consolidation ∧ f'.everOff = f.everOff := by
  cases c with
  | create v =>
    simp only [Call.spec, Option.some.injEq, Prod.mk.injEq] at h
    rw [← h.1]; exact ⟨rfl, rfl⟩
  | move d n =>
    simp only [Call.spec] at h
    split at h
    · simp only [Option.some.injEq, Prod.mk.injEq] at h
      rw [← h.1]
      exact ⟨(specMove_fields _ d n f).1, (specMove_fields _ d n f).2.1⟩
    · cases h
  | anyAppend p c =>
    simp only [Call.spec] at h
    split at h
    · cases h
    · split at h
      · split at h
        · simp only [Option.some.injEq, Prod.mk.injEq] at h
          rw [← h.1]
          exact ⟨(specMove_fields _ _ c f).1, (specMove_fields _ _ c f).2.1⟩
        · cases h
      · split at h
        · simp only [Option.some.injEq, Prod.mk.injEq] at h
          rw [← h.1]
          unfold specAttachEntry
          split
          · exact ⟨rfl, rfl⟩
          · exact ⟨rfl, rfl⟩
        · cases h
  | setAttribute e name v =>
    simp only [Call.spec] at h
    split at h
    · simp only [Option.some.injEq, Prod.mk.injEq] at h
      rw [← h.1]
      unfold specSetEntry
      split
      · exact ⟨rfl, rfl⟩
      · exact ⟨rfl, rfl⟩
    · cases h
  | setNamespace e pfx ns =>
    simp only [Call.spec] at h
    split at h
    · simp only [Option.some.injEq, Prod.mk.injEq] at h
      rw [← h.1]
      unfold specSetEntry
      split
      · exact ⟨rfl, rfl⟩
      · exact ⟨rfl, rfl⟩
    · cases h

/-- **One call**: what the implementation answers `ok` the specification accepts, with the same
    resulting store (handle for handle) and the same created node. -/
theorem call_impl_spec {f : Forest} (inv : f.Inv) (hfl : FlagsOk f) (c : Call) (hs : c.inScope f = true)
    {f' : Forest} {o : Option Nat} (h : c.impl f = (f', .ok, o)) : c.spec f = some (f', o) := by
  have norm := normal_of_flags inv hfl
  cases c with
  | create v =>
    simp only [Call.impl, Forest.newNode, Prod.mk.injEq] at h
    simp only [Call.spec]
    rw [← h.1, ← h.2.2]
  | move d n =>
    simp only [Call.impl, Prod.mk.injEq] at h
    obtain ⟨h1, h2, h3⟩ := h
    have hck := implCheck_of_ok h2
    simp only [Call.spec, moveOk_eq, hck, if_true]
    rw [← h1, ← h3, moveImpl_spec inv norm h2]
  | anyAppend p c =>
    simp only [Call.impl, Prod.mk.injEq] at h
    obtain ⟨h1, h2, h3⟩ := h
    simp only [Call.spec]
    cases hg : f.get? c with
    | none =>
      exfalso
      have hv : f.value? c = none := by simp [Forest.value?, hg]
      have : f.anyAppend p c = ((f.append p c).1, (f.append p c).2,
          Forest.anyAppendRet (f.append p c).1 (f.append p c).2 p c) := by
        unfold Forest.anyAppend; rw [hv]
      rw [this] at h2
      exact append_dead f p c hg h2
    | some t =>
      simp only
      cases hn : t.value.isNormal with
      | true =>
        rw [anyAppend_normal f p c t hg hn] at h1 h2
        simp only at h1 h2
        have hck := implCheck_of_ok (d := .lastChildOf p) (n := c) h2
        simp only [if_true, moveOk_eq, hck]
        rw [← h1, ← h3]
        exact congrArg (fun x => some (x, none)) (moveImpl_spec (d := .lastChildOf p) inv norm h2).symm
      | false =>
        obtain ⟨k, hm, hk⟩ := anyAppend_entry' f p c t hg hn
        rw [hk] at h1 h2
        have hv : f.value? c = some t.value := by simp [Forest.value?, hg]
        have he : f.isElement p = true := by
          cases he : f.isElement p with
          | true => rfl
          | false =>
            unfold Forest.appendEntryNode at h2
            simp [he] at h2
        have hroot : f.isRoot c = true := by
          simp only [Call.inScope, hv, hn, Bool.false_or] at hs
          exact hs
        obtain ⟨e1, _⟩ := appendEntryNode_spec inv k p c t he hg hroot hm
        simp only [Bool.false_eq_true, if_false, isElementAt_eq, he, hroot, Bool.and_self, if_true]
        rw [← h1, ← h3, e1]
  | setAttribute e name v =>
    simp only [Call.impl, Prod.mk.injEq] at h
    obtain ⟨h1, h2, h3⟩ := h
    have he : f.isElement e = true := by
      cases he : f.isElement e with
      | true => rfl
      | false => unfold Forest.mapInsert at h2; simp [he] at h2
    have := mapInsert_spec inv .attributes e (.attribute name v) he rfl
    simp only [Call.spec, isElementAt_eq, he, if_true]
    rw [← h1, ← h3, this]
  | setNamespace e pfx ns =>
    simp only [Call.impl, Prod.mk.injEq] at h
    obtain ⟨h1, h2, h3⟩ := h
    have he : f.isElement e = true := by
      cases he : f.isElement e with
      | true => rfl
      | false => unfold Forest.mapInsert at h2; simp [he] at h2
    have := mapInsert_spec inv .namespaces e (.namespace pfx ns) he rfl
    simp only [Call.spec, isElementAt_eq, he, if_true]
    rw [← h1, ← h3, this]

/-! ### Programs -/

/-- `Forest.Inv` holds in every state the implementation passes through while it answers `ok`
    (the start state included).  This is what C04 proves of every history (`C04_step_all`). -/
def InvAlong (s : State) : Program → Prop
  | [] => s.forest.Inv
  | st :: rest =>
    s.forest.Inv ∧
      (match stepImpl s st with
       | (s', .ok) => InvAlong s' rest
       | _ => True)

theorem InvAlong.head {s : State} {P : Program} (h : InvAlong s P) : s.forest.Inv := by
  cases P with
  | nil => exact h
  | cons st rest => exact h.1

/-- One step: `ok` on the implementation ⇒ accepted by the specification, same state. -/
theorem step_impl_spec {s s' : State} {st : Step} (inv : s.forest.Inv) (hfl : FlagsOk s.forest)
    (hsc : ∀ c, st.resolve s.env = some c → c.inScope s.forest = true)
    (h : stepImpl s st = (s', .ok)) : stepSpec s st = some s' ∧ FlagsOk s'.forest := by
  unfold stepImpl at h
  unfold stepSpec
  cases hr : st.resolve s.env with
  | none => rw [hr] at h; simp at h
  | some c =>
    rw [hr] at h
    simp only at h ⊢
    cases hi : c.impl s.forest with
    | mk f' ro =>
      obtain ⟨r, o⟩ := ro
      rw [hi] at h
      simp only [Prod.mk.injEq] at h
      obtain ⟨h1, h2⟩ := h
      subst h2
      have hsp := call_impl_spec inv hfl c (hsc c hr) hi
      rw [hsp]
      simp only
      rw [← h1]
      refine ⟨rfl, ?_⟩
      obtain ⟨a, b⟩ := spec_fields hsp
      exact hfl.of_eq a b

/-- **Refinement, implementation ⇒ specification**: a program every step of which the
    implementation answers `ok` is well-formed for the specification, and the two final states
    are the same, handle for handle — provided `Forest.Inv` holds along the run. -/
theorem run_refine : ∀ (P : Program) (s : State), InvAlong s P → FlagsOk s.forest → inScope s P = true →
    (runImpl s P).2 = .ok → runSpec s P = some (runImpl s P).1
  | [], s, _, _, _, _ => rfl
  | st :: rest, s, hinv, hfl, hsc, hok => by
    simp only [runImpl] at hok ⊢
    simp only [runSpec]
    simp only [inScope, Bool.and_eq_true] at hsc
    obtain ⟨hsc1, hsc2⟩ := hsc
    obtain ⟨inv, halong⟩ := hinv
    cases hst : stepImpl s st with
    | mk s' r =>
      rw [hst] at hok hsc2 halong
      cases r with
      | ok =>
        simp only at hok hsc2 halong ⊢
        have hsc' : ∀ c, st.resolve s.env = some c → c.inScope s.forest = true := by
          intro c hc; rw [hc] at hsc1; exact hsc1
        obtain ⟨e1, hfl'⟩ := step_impl_spec inv hfl hsc' hst
        rw [e1]
        exact run_refine rest s' halong hfl' hsc2 hok
      | err e => simp at hok
      | panic => simp at hok

end Prog
end XotModel
