/-
  XotModel.Lemmas.ArenaExamples — closed arenas for the non-vacuity examples of the arena
  theorems in `Props/C04`, `C06`, `C07`, and the closed facts about the calls that leave the list
  semantics (what indextree really does there).
-/
import XotModel.Lemmas.ArenaHistory
import XotModel.Lemmas.ArenaRefusal

namespace XotModel
namespace Arena

/-- The arena reached by `f`, whatever the outcome. -/
def after (a : Arena) (f : Arena → Step α) : Arena := (f a).arena

theorem liveId_of_isLiveId {a : Arena} {id : NodeId} (h : a.isLiveId id = true) : LiveId a id := by
  simp only [isLiveId, Bool.and_eq_true, decide_eq_true_eq] at h
  obtain ⟨⟨h1, h2⟩, h3⟩ := h
  refine ⟨h1, ?_, h3⟩
  unfold liveAt at h2
  unfold Live slot
  cases hs : a.nodes[id.index0]? with
  | none => rw [hs] at h2; cases h2
  | some s =>
    rw [hs] at h2
    refine ⟨s, rfl, ?_⟩
    simp [Slot.isRemoved, Stamp.isRemoved] at h2
    exact h2

/-- Three nodes: 1 with children 2, 3 (ids `1:0`, `2:0`, `3:0`). -/
def sampleA : Arena :=
  ((((({} : Arena).after (newNode · 10)).after (newNode · 20)).after (newNode · 30)).after
    (checkedAppend · ⟨1, 0⟩ ⟨2, 0⟩)).after (checkedAppend · ⟨1, 0⟩ ⟨3, 0⟩)

/-- `sampleA` plus a grandchild `4:0` under `2:0`. -/
def sampleB : Arena := (sampleA.after (newNode · 40)).after (checkedAppend · ⟨2, 0⟩ ⟨4, 0⟩)

/-- `sampleB` after `remove(2:0)` (its child `4:0` takes its place) and a `new_node` that reuses
    slot 2 with stamp 1. -/
def sampleC : Arena := (sampleB.after (remove · ⟨2, 0⟩)).after (newNode · 50)

/-- Two nodes: 1 with the only child 2 (ids `1:0`, `2:0`); 1 is parentless. -/
def sampleD : Arena :=
  ((({} : Arena).after (newNode · 10)).after (newNode · 20)).after (checkedAppend · ⟨1, 0⟩ ⟨2, 0⟩)

theorem sampleA_steps : Steps {} sampleA := by
  refine .tail (.tail (.tail (.tail (.tail (.refl _) (.newNode 10 ⟨1, 0⟩ _ rfl)) (.newNode 20 ⟨2, 0⟩ _ rfl))
    (.newNode 30 ⟨3, 0⟩ _ rfl)) (.append ⟨1, 0⟩ ⟨2, 0⟩ (.ok ()) _ ?_ ?_ rfl)) (.append ⟨1, 0⟩ ⟨3, 0⟩ (.ok ()) _ ?_ ?_ rfl)
  all_goals exact liveId_of_isLiveId (by decide)

theorem sampleD_steps : Steps {} sampleD := by
  refine .tail (.tail (.tail (.refl _) (.newNode 10 ⟨1, 0⟩ _ rfl)) (.newNode 20 ⟨2, 0⟩ _ rfl))
    (.append ⟨1, 0⟩ ⟨2, 0⟩ (.ok ()) _ ?_ ?_ rfl)
  all_goals exact liveId_of_isLiveId (by decide)

theorem sampleB_steps : Steps {} sampleB := by
  refine .tail (.tail sampleA_steps (.newNode 40 ⟨4, 0⟩ _ rfl)) (.append ⟨2, 0⟩ ⟨4, 0⟩ (.ok ()) _ ?_ ?_ rfl)
  all_goals exact liveId_of_isLiveId (by decide)

theorem sampleC_steps : Steps {} sampleC := by
  refine .tail (.tail sampleB_steps (.remove ⟨2, 0⟩ _ (liveId_of_isLiveId (by decide)) (Or.inl ⟨_, rfl, rfl⟩) rfl))
    (.newNode 50 ⟨2, 1⟩ _ rfl)

end Arena
end XotModel
