/-
  Finv (C04), part 25: `element_unwrap` preserves the invariant (all cases, all outcomes).
-/
import XotModel.Lemmas.FinvUnwrap

namespace XotModel
open HTree

namespace Forest

theorem splice_perm (l r ab nk : List HTree) (T : HTree) (hk : T.kids = ab ++ nk) :
    (handlesList (l ++ nk ++ r) ++ (T.handle :: handlesList ab)).Perm (handlesList (l ++ T :: r)) := by
  simp only [fi_handlesList_append, fi_handlesList_cons, fi_handles_eq T, hk, List.append_assoc, List.cons_append]
  refine List.Perm.append_left _ ?_
  -- nk ++ (r ++ h :: ab)  ~  h :: (ab ++ nk ++ r)
  refine List.Perm.trans ?_ (List.Perm.cons _ (List.perm_append_comm (l₁ := handlesList nk ++ handlesList r) (l₂ := handlesList ab)))
  rw [← List.append_assoc]
  exact List.perm_middle

/-- If the first and the last normal child have the same handle, there is only one. -/
theorem single_of_first_eq_last {F Lk : HTree} {nk' nk0 : List HTree} (h : F :: nk' = nk0 ++ [Lk])
    (hh : F.handle = Lk.handle) (nd : (handlesList (F :: nk')).Nodup) : nk' = [] ∧ nk0 = [] ∧ F = Lk := by
  cases nk0 with
  | nil => simp at h; exact ⟨h.2, rfl, h.1⟩
  | cons x xs =>
    exfalso
    simp only [List.cons_append, List.cons.injEq] at h
    obtain ⟨h1, h2⟩ := h
    subst h1
    rw [h2] at nd
    simp only [fi_handlesList_cons, fi_handlesList_append, fi_handlesList_nil, List.append_nil] at nd
    have := (List.nodup_append.mp nd).2.2 F.handle (fi_handle_mem_handles F) F.handle
      (by simp only [List.mem_append]; right; rw [hh]; exact fi_handle_mem_handles Lk)
    exact this rfl

/-- `element_unwrap` preserves the invariant, whatever it answers. -/
theorem elementUnwrap_inv {f : Forest} (hi : f.Inv) (node : Nat) : (f.elementUnwrap node).1.Inv := by
  have nd := hi.nodup
  unfold elementUnwrap
  split
  · exact hi
  rename_i hel
  cases hfc : f.firstChild node with
  | none => exact remove_inv hi node
  | some first =>
  simp only
  split
  · exact hi
  rename_i hpar
  cases hlc : f.lastChild node with
  | none => exact hi
  | some last =>
  simp only
  -- locate the element
  obtain ⟨en, hnv⟩ := value?_of_isElement (by simpa using hel)
  have hctx : ∃ c, f.ctx? node = some c := by
    unfold parent? at hpar
    cases h : f.ctx? node with
    | none => rw [h] at hpar; simp at hpar
    | some c => exact ⟨c, rfl⟩
  obtain ⟨c, hctx⟩ := hctx
  obtain ⟨init, fr, lc, _⟩ := ctx?_some_loc nd hctx
  generalize hl : c.left = l at lc
  generalize hT : c.self = T at lc
  generalize hrr : c.right = r at lc
  have hTv : T.value = .element en := by
    have := value?_of_loc lc nd; rw [hnv] at this; exact (Option.some.inj this).symm
  have hTe : T.value.isElement = true := by rw [hTv]; rfl
  have hK := get?_of_loc lc nd
  obtain ⟨k1, k2⟩ := hi.kids_at lc.eq
  rw [innerValue_snoc] at k1
  have K := (kidsOK_iff _ _ _).mp k1
  have k2' : validList (!f.everOff) l = true ∧ validTree (!f.everOff) T = true ∧
      validList (!f.everOff) r = true := by
    simpa only [validList_append, validList_cons, Bool.and_eq_true] using k2
  have hTvalid := k2'.2.1
  rw [validTree_eq, Bool.and_eq_true] at hTvalid
  have KT := (kidsOK_iff _ _ _).mp hTvalid.1
  have hsplit : T.kids.takeWhile fiAbn ++ T.kids.dropWhile fiAbn = T.kids := List.takeWhile_append_dropWhile
  have hnkn := normal_dropWhile_of_sorted KT.sorted
  -- the first and the last normal child
  obtain ⟨F, nk', hnk, hFh⟩ : ∃ F nk', T.kids.dropWhile fiAbn = F :: nk' ∧ F.handle = first := by
    rw [firstChild_eq hK] at hfc
    cases h : T.kids.dropWhile fiAbn with
    | nil => rw [h] at hfc; simp at hfc
    | cons F nk' => rw [h] at hfc; simp at hfc; exact ⟨F, nk', rfl, hfc⟩
  obtain ⟨nk0, Lk, hnk2, hLh⟩ : ∃ nk0 Lk, F :: nk' = nk0 ++ [Lk] ∧ Lk.handle = last := by
    unfold lastChild at hlc
    rw [hK] at hlc
    simp only at hlc
    have hlast : T.kids.getLast? = (F :: nk').getLast? := by
      rw [← hsplit, hnk, List.getLast?_append]
      cases h : (F :: nk').getLast? with
      | none => simp at h
      | some x => rfl
    rw [hlast] at hlc
    rcases List.eq_nil_or_concat (F :: nk') with h0 | ⟨nk0, Lk, h0⟩
    · cases h0
    · rw [List.concat_eq_append] at h0
      rw [h0, List.getLast?_concat] at hlc
      simp only at hlc
      split at hlc
      · exact ⟨nk0, Lk, h0, by simpa using hlc⟩
      · cases hlc
  have hFn : F.value.category = .normal := hnkn F (by rw [hnk]; simp)
  have hLn : Lk.value.category = .normal := hnkn Lk (by rw [hnk, hnk2]; simp)
  have hTkids : T.kids = T.kids.takeWhile fiAbn ++ (F :: nk') := by rw [← hnk]; exact hsplit.symm
  have hvnk : validList (!f.everOff) (F :: nk') = true := by
    have := hTvalid.2
    rw [hTkids, validList_append, Bool.and_eq_true] at this
    exact this.2
  -- step 1
  rw [removeElement_of_loc hi lc, hnk]
  have KTw : KidsOK false T.value (T.kids.takeWhile fiAbn ++ (F :: nk')) := by rw [← hTkids]; exact KT.weaken
  have KS : KidsOK false fr.v (l ++ (F :: nk') ++ r) :=
    K.weaken.splice KTw hTe (fun y hy => hnkn y (by rw [hnk]; exact hy))
  have hperm0 := splice_perm l r (T.kids.takeWhile fiAbn) (F :: nk') T hTkids
  have hvalid1 : validList (!f.everOff) (l ++ (F :: nk') ++ r) = true := by
    simp only [validList_append, Bool.and_eq_true]
    exact ⟨⟨k2'.1, hvnk⟩, k2'.2.2⟩
  by_cases hoff : f.everOff = true
  · -- non-strict: the state after step 1 satisfies the invariant, the rest is consolidation
    have hs : (!f.everOff) = false := by simp [hoff]
    have hi1 : ({ f with roots := plug (init ++ [fr]) (l ++ (F :: nk') ++ r) } : Forest).Inv := by
      apply hi.edit _ lc.eq hperm0
      · rw [innerValue_snoc, hs]; exact (kidsOK_iff _ _ _).mpr KS
      · exact hvalid1
    generalize ({ f with roots := plug (init ++ [fr]) (l ++ (F :: nk') ++ r) } : Forest) = g1 at hi1
    have h2 := removeConsolidate_inv hi1 (g1.prevSibling first) (some first)
    cases hrc : g1.removeConsolidate (g1.prevSibling first) (some first) with
    | mk f2 c2 =>
      rw [hrc] at h2
      simp only
      split
      · split
        · exact removeConsolidate_inv h2 _ _
        · exact removeConsolidate_inv h2 _ _
      · exact removeConsolidate_inv h2 _ _
  · -- strict
    have hoff' : f.everOff = false := by simpa using hoff
    have hs : (!f.everOff) = true := by simp [hoff']
    have hcons := consolidation_of_strict hi hoff'
    rw [hs] at K KT k2' hvnk hvalid1 k2
    -- text flags
    have hTt : T.value.isText = false := by rw [hTv]; rfl
    have hfl : noAdjB (textFlags l) = true ∧ noAdjB (textFlags r) = true := by
      have := K.text rfl
      simp only [textFlags_append, textFlags_cons, hTt] at this
      rw [noAdjB_glue, Bool.and_eq_true, noAdjB_snoc, noAdjB_cons] at this
      simp only [Bool.and_false, Bool.not_false, Bool.and_true, Bool.false_and, Bool.true_and] at this
      exact this
    have hfnk : noAdjB (textFlags (F :: nk')) = true := by
      have := KT.text rfl
      rw [hTkids, textFlags_append, noAdjB_append] at this
      simp only [Bool.and_eq_true] at this
      exact this.1.2
    -- the state after step 1
    have nd1 : ({ f with roots := plug (init ++ [fr]) (l ++ (F :: nk') ++ r) } : Forest).allHandles.Nodup := by
      have : (handlesList (plug (init ++ [fr]) (l ++ (F :: nk') ++ r)) ++ (T.handle :: handlesList (T.kids.takeWhile fiAbn))).Perm
          f.allHandles := by
        unfold allHandles; rw [lc.eq]
        refine ((handlesList_plug_perm _ _).append_right _).trans
          (List.Perm.trans ?_ (handlesList_plug_perm _ _).symm)
        rw [List.append_assoc]
        exact List.Perm.append_left _ hperm0
      exact List.Nodup.sublist (List.sublist_append_left _ _) (this.symm.nodup nd)
    have hFk : F.value.isText = true → F.kids = [] := by
      intro ht
      have : validTree true F = true := by
        simp only [validList_cons, Bool.and_eq_true] at hvnk; exact hvnk.1
      exact kids_nil_of_text this ht
    have hroots1 : ({ f with roots := plug (init ++ [fr]) (l ++ (F :: nk') ++ r) } : Forest).roots =
        plug (init ++ [fr]) (l ++ F :: (nk' ++ r)) := by simp
    -- finishing: a final child list `Y` with the lost handles `X`
    have finish : ∀ (g : Forest) (Y : List HTree) (X : List Nat), g = { f with roots := plug (init ++ [fr]) Y } →
        (handlesList Y ++ X).Perm (handlesList (l ++ (F :: nk') ++ r)) → kidsOK true fr.v Y = true →
        validList true Y = true → g.Inv := by
      intro g Y X hg hp hk hv
      rw [hg]
      apply hi.edit (X ++ (T.handle :: handlesList (T.kids.takeWhile fiAbn))) lc.eq
      · rw [← List.append_assoc]
        exact (hp.append_right _).trans hperm0
      · rw [innerValue_snoc, hs]; exact hk
      · rw [hs]; exact hv
    rcases fixLeft nd1 hcons hroots1 hFn hFk with ⟨l0, Pl, ps, fs, hl0, hPv, hFv, hprev, hmerge⟩ | ⟨hnoop, hnb⟩
    · -- merged on the left
      rw [hFh] at hprev hmerge
      rw [hmerge]
      simp only [if_true]
      have hPt : Pl.value.isText = true := by rw [hPv]; rfl
      have hFt : F.value.isText = true := by rw [hFv]; rfl
      have hFkids := hFk hFt
      have nd2 : ({ f with roots := plug (init ++ [fr]) (l0 ++ Pl.setValue (.text (ps ++ fs)) :: (nk' ++ r)) } : Forest).allHandles.Nodup := by
        refine List.Nodup.sublist ?_ nd1
        unfold allHandles
        simp only
        have key : ∀ (pth : List ZipFrame) (X Y : List HTree), (handlesList X).Sublist (handlesList Y) →
            (handlesList (plug pth X)).Sublist (handlesList (plug pth Y)) := by
          intro pth
          induction pth with
          | nil => intro X Y h; exact h
          | cons fr0 rest ih =>
            intro X Y h
            simp only [plug_cons, fi_handlesList_append, fi_handlesList_cons, fi_handles_node]
            exact List.Sublist.append_left (List.Sublist.append_right (List.Sublist.cons_cons _ (ih X Y h)) _) _
        apply key
        rw [hl0]
        simp only [fi_handlesList_append, fi_handlesList_cons, handles_setValue, fi_handlesList_nil,
          List.append_nil, List.append_assoc]
        refine List.Sublist.append_left (List.Sublist.append_left ?_ _) _
        exact List.sublist_append_right _ _
      -- structure and validity of the merged list
      have KS1 : KidsOK false fr.v (l0 ++ Pl.setValue (.text (ps ++ fs)) :: (nk' ++ r)) := by
        have h1 : KidsOK false fr.v ((l0 ++ [Pl]) ++ F :: (nk' ++ r)) := by rw [← hl0]; simpa using KS
        have h2 : KidsOK false fr.v (l0 ++ Pl :: (nk' ++ r)) := by simpa using h1.remove (fun hs => by cases hs)
        exact h2.sameKind (by rw [fi_setValue_value, hPv]; exact ⟨rfl, rfl, rfl, rfl⟩)
      have hv1 : validList true (l0 ++ Pl.setValue (.text (ps ++ fs)) :: (nk' ++ r)) = true := by
        rw [hl0] at k2'
        have hl0v : validList true l0 = true ∧ validTree true Pl = true := by
          simpa only [validList_append, validList_cons, validList_nil, Bool.and_true, Bool.and_eq_true] using k2'.1
        simp only [validList_cons, Bool.and_eq_true] at hvnk
        simp only [validList_append, validList_cons, Bool.and_eq_true]
        exact ⟨hl0v.1, validTree_setValue hl0v.2 (by rw [hPv]; intro x; rfl), hvnk.2, k2'.2.2⟩
      have hp1 : (handlesList (l0 ++ Pl.setValue (.text (ps ++ fs)) :: (nk' ++ r)) ++ [F.handle]).Perm
          (handlesList (l ++ (F :: nk') ++ r)) := by
        rw [hl0]
        simp only [fi_handlesList_append, fi_handlesList_cons, handles_setValue, fi_handles_eq F, hFkids,
          fi_handlesList_nil, List.append_nil, List.append_assoc, List.cons_append, List.nil_append]
        refine List.Perm.append_left _ (List.Perm.append_left _ ?_)
        rw [← List.append_assoc]
        exact List.perm_append_comm (l₂ := [F.handle])
      -- flags left of the merged text
      have hflL : noAdjB (textFlags (l0 ++ [Pl.setValue (.text (ps ++ fs))])) = true := by
        have := hfl.1
        rw [hl0] at this
        simp only [textFlags_append, textFlags_cons, textFlags_nil, hPt] at this
        simp only [textFlags_append, textFlags_cons, textFlags_nil, fi_setValue_value]
        exact this
      by_cases hfl2 : first = last
      · -- a single child: consolidate the merged text with the right neighbour
        rw [if_pos (show (first == last) = true by simpa using hfl2)]
        obtain ⟨hnk'e, _, hFL⟩ := single_of_first_eq_last hnk2 (by rw [hFh, hLh]; exact hfl2) (by
          have h1 : (handlesList (plug (init ++ [fr]) (l ++ (F :: nk') ++ r))).Nodup := nd1
          have h2 := (List.nodup_append.mp (nodup_plug.mp h1)).2.1
          rw [fi_handlesList_append, fi_handlesList_append] at h2
          exact (List.nodup_append.mp (List.nodup_append.mp h2).1).2.1)
        subst hnk'e
        simp only [List.nil_append] at *
        -- `next` was computed before the merge: it is the merged text's right neighbour
        have lcF1 : Loc ({ f with roots := plug (init ++ [fr]) (l ++ [F] ++ r) } : Forest).roots F.handle
            (init ++ [fr]) l F r := ⟨by simp, rfl⟩
        have lcP2 : Loc ({ f with roots := plug (init ++ [fr]) (l0 ++ Pl.setValue (.text (ps ++ fs)) :: r) } : Forest).roots
            Pl.handle (init ++ [fr]) l0 (Pl.setValue (.text (ps ++ fs))) r := ⟨rfl, by simp⟩
        have enext : ({ f with roots := plug (init ++ [fr]) (l ++ [F] ++ r) } : Forest).nextSibling last =
            ({ f with roots := plug (init ++ [fr]) (l0 ++ Pl.setValue (.text (ps ++ fs)) :: r) } : Forest).nextSibling Pl.handle := by
          rw [← hLh, ← hFL, nextSibling_of_loc_snoc lcF1 nd1, nextSibling_of_loc_snoc lcP2 nd2]
          simp only [hFn, fi_setValue_value]
          rfl
        rw [hprev, enext]
        obtain ⟨Y, X, hres, hpY, hkY, hvY⟩ := fixRight (Lk := Pl.setValue (.text (ps ++ fs))) nd2 hcons rfl
          KS1 hv1 (by simp [Value.category]) hflL hfl.2
        simp only [fi_setValue_handle] at hres
        exact finish _ Y (X ++ [F.handle]) (by rw [hres]) (by
          rw [← List.append_assoc]; exact (hpY.append_right _).trans hp1) hkY hvY
      · -- several children: consolidate the last one with the right neighbour
        rw [if_neg (show ¬((first == last) = true) by simpa using hfl2)]
        obtain ⟨nk0', hnk'⟩ : ∃ nk0', nk' = nk0' ++ [Lk] := by
          cases nk0 with
          | nil =>
            exfalso
            simp only [List.nil_append, List.cons.injEq] at hnk2
            exact hfl2 (by rw [← hFh, ← hLh, hnk2.1])
          | cons x xs =>
            simp only [List.cons_append, List.cons.injEq] at hnk2
            exact ⟨xs, hnk2.2⟩
        have hroots2 : ({ f with roots := plug (init ++ [fr]) (l0 ++ Pl.setValue (.text (ps ++ fs)) :: (nk' ++ r)) } : Forest).roots =
            plug (init ++ [fr]) ((l0 ++ Pl.setValue (.text (ps ++ fs)) :: nk0') ++ Lk :: r) := by
          simp [hnk']
        have hflL2 : noAdjB (textFlags ((l0 ++ Pl.setValue (.text (ps ++ fs)) :: nk0') ++ [Lk])) = true := by
          have e : (l0 ++ Pl.setValue (.text (ps ++ fs)) :: nk0') ++ [Lk] =
              l0 ++ Pl.setValue (.text (ps ++ fs)) :: nk' := by simp [hnk']
          rw [e, textFlags_append, textFlags_cons, noAdjB_glue, Bool.and_eq_true]
          refine ⟨by simpa using hflL, ?_⟩
          have := hfnk
          simp only [textFlags_cons, hFt] at this
          rw [fi_setValue_value]
          exact this
        obtain ⟨Y, X, hres, hpY, hkY, hvY⟩ := fixRight nd2 hcons hroots2
          (by simpa [hnk'] using KS1) (by simpa [hnk'] using hv1) hLn hflL2 hfl.2
        rw [hLh] at hres
        exact finish _ Y (X ++ [F.handle]) (by rw [hres]) (by
          rw [← List.append_assoc]
          refine (hpY.append_right _).trans ?_
          have : (l0 ++ Pl.setValue (.text (ps ++ fs)) :: nk0') ++ Lk :: r =
              l0 ++ Pl.setValue (.text (ps ++ fs)) :: (nk' ++ r) := by simp [hnk']
          rw [this]; exact hp1) hkY hvY
    · -- nothing merged on the left
      rw [hFh] at hnoop
      rw [hnoop]
      simp only [Bool.false_eq_true, if_false]
      have hroots2 : ({ f with roots := plug (init ++ [fr]) (l ++ (F :: nk') ++ r) } : Forest).roots =
          plug (init ++ [fr]) ((l ++ nk0) ++ Lk :: r) := by
        simp [hnk2]
      have hflL2 : noAdjB (textFlags ((l ++ nk0) ++ [Lk])) = true := by
        have e : (l ++ nk0) ++ [Lk] = l ++ (F :: nk') := by rw [hnk2]; simp
        rw [e, textFlags_append, noAdjB_append]
        simp only [Bool.and_eq_true, Bool.not_eq_true']
        refine ⟨⟨hfl.1, hfnk⟩, ?_⟩
        simpa [lastText, headB] using hnb
      obtain ⟨Y, X, hres, hpY, hkY, hvY⟩ := fixRight nd1 hcons hroots2
        (by simpa [hnk2] using KS) (by simpa [hnk2] using hvalid1) hLn hflL2 hfl.2
      rw [hLh] at hres
      exact finish _ Y X (by rw [hres]) (by
        have : (l ++ nk0) ++ Lk :: r = l ++ (F :: nk') ++ r := by rw [hnk2]; simp
        rw [← this]; exact hpY) hkY hvY

end Forest
end XotModel
