/-
  XotModel.Lemmas.SpanDelimWitness — `<a></a ␣⏎>`: an end tag with white space between the name and `>`,
  through the reference tokenizer step by step in the kernel (as Lemmas/ColonWitness.lean); used by the
  non-vacuity `example` of C17_slice_element_end_name in Props/C17.lean.
-/
import XotModel.Lemmas.ColonWitness

namespace XotModel.Witness
open XotModel XotModel.Lex XotModel.Lex.Canon

/-- `<a></a` space line-feed `>` (9 bytes). -/
def wsEndTagText : Str := ['<', 'a', '>', '<', '/', 'a', ' ', '\n', '>']

def wsEndTagTokens : List Token :=
  [.elementStart ⟨[], 0⟩ ⟨['a'], 1⟩ ⟨['<', 'a'], 0⟩, .elementEnd .open ⟨['>'], 2⟩,
   .elementEnd (.close ⟨[], 0⟩ ⟨['a'], 5⟩) ⟨['<', '/', 'a', ' ', '\n', '>'], 3⟩]

theorem lex_wsEndTag : lexDocument wsEndTagText = (wsEndTagTokens, none) := by
  unfold lexDocument wsEndTagText
  lex_skip
  lex_skip
  lex_token
  lex_token
  lex_token
  lex_end
  rfl

/-- Accepted; `ElementStart` = 1..2 (`a`), `ElementEnd` = 3..9 (`</a ␣⏎>`). -/
def wsEndTagCheck (r : BuildResult) : Bool :=
  match r with
  | .ok p =>
    (match p.tree.at? [0] with | some (.node (.element _) _) => true | _ => false) &&
    p.spans.get ⟨[0], .elementStart⟩ == some ⟨1, 2⟩ && p.spans.get ⟨[0], .elementEnd⟩ == some ⟨3, 9⟩
  | _ => false

end XotModel.Witness
