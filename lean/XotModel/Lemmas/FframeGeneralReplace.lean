/-
  FframeGeneralReplace — the `get?`-form frame of `replace` (after `frame_put_stepP`, `frame_specReplaceP_far`,
  `replace_frame_all`, Lemmas/FspecFrameReplace.lean).
-/
import XotModel.Lemmas.FframeGeneralMove
import XotModel.Lemmas.FspecFrameReplace

namespace XotModel
open HTree Spec PairAll

theorem getFrame_put_stepP {Y : Forest} {t : HTree} {q : Nat} {vq : Value} (a c : Nat)
    {LY : List HTree} (sY : SiteAt Y q vq LY) {z : Nat} (hne : z ≠ q)
    (hleaf : LeafZ z LY)
    (hleaft : t.value.isText = true → t.kids = [] ∧ t.handle ≠ z)
    (hpt : z ∉ handles t) (hpA : ∀ k ∈ LY, k.handle = a → z ∉ handles k) :
    GetFrame Y ((Y.editAt (some q) (replaceTop a (fun _ => [t]))).mergeNew3At q c) z := by
  rw [mergeNew3At_eq_new3Opt, Forest.editAt_consolidation, Forest.editAt_editAt]
  apply sY.frameGet _ hne
  simp only [Function.comp]
  rw [findList?_new3Opt _ _ (leafZ_putTop hleaf hleaft), ReplFrame.findList?_putTop hpt LY hpA]

theorem getFrame_specReplaceP_far {f : Forest} {a b q : Nat} {vq : Value} {l : List HTree} {A : HTree}
    {r : List HTree} {t : HTree} (inv : f.Inv) (ra : ReplArgs f a b q vq l A r t)
    (hnadj : adjacentTo f a b = false)
    {z : Nat} (h1 : z ≠ q) (h2 : some z ≠ f.parent? b) (h3 : z ∉ handles t) (h5 : z ∉ handles A)
    (hTq : TextFree f z (some q)) (hTo : TextFree f z (f.parent? b)) :
    GetFrame f (specReplaceP a b f) z := by
  have nd := inv.nodup
  have sq := ra.sq
  have hgb := ra.hgb
  have hqt := ra.hqt
  have hvq : vq.isText = false := not_text_of_site_value ra.hvq
  unfold specReplaceP
  rw [hnadj]
  simp only [Bool.false_eq_true, if_false]
  rw [hgb, Forest.parent?_of_ctx ra.ctx_a]
  simp only
  obtain ⟨ndL, _⟩ := sq.nodupKids
  have hleaft : t.value.isText = true → t.kids = [] ∧ t.handle ≠ z := by
    intro ht
    exact ⟨leaf_of_text inv.valid hgb ht, fun e => h3 (e ▸ fs_handle_mem_handles t)⟩
  have hleafq : LeafZ z (l ++ A :: r) := leafZ_of_textFree sq inv.valid hTq
  have hpA : ∀ k ∈ l ++ A :: r, k.handle = a → z ∉ handles k := by
    intro k hk hka
    have : k = A := PairAfter.eq_of_handle ndL hk (by simp) (hka.trans ra.ha.symm)
    rw [this]; exact h5
  cases hpar : f.parent? b with
  | none =>
    rw [Forest.nbOf_root hpar, Forest.mergeLeftAt_none, ← specRemoveP_root hpar]
    have sY : SiteAt (specRemoveP b f) q vq (l ++ A :: r) := by
      rw [specRemoveP_root hpar]; exact sq.dropRoot hgb hqt
    have g1 := getFrame_specRemoveP (z := z) inv hgb (by rw [hpar]; simp) hTo h3
    have g2 := getFrame_put_stepP (t := t) a b sY h1 hleafq hleaft h3 hpA
    exact g1.trans g2
  | some po =>
    rw [hpar] at h2 hTo
    have hne_po : z ≠ po := fun e => h2 (by rw [e])
    have hpot : po ∉ handles t := parent_not_mem_subtree nd hgb hpar
    rw [mergeLeftAt_eq_pairOpt]
    simp only [Forest.editAt_consolidation]
    by_cases hpq : po = q
    · subst hpq
      rw [mergeNew3At_eq_new3Opt]
      simp only [Forest.editAt_consolidation]
      rw [Forest.editAt_editAt, Forest.editAt_editAt, Forest.editAt_editAt]
      have hdropb : ∀ k ∈ l ++ A :: r, k.handle = b → z ∉ handles k := by
        intro k hk hkb
        rw [ra.kid_eq hk hkb]; exact h3
      have hLZ1 : LeafZ z (dropTop b (l ++ A :: r)) :=
        fun k hk hkt => hleafq k (mem_of_mem_dropTop hk) hkt
      have hLZ2 := leafZ_putTop (a := a) hLZ1 hleaft
      apply sq.frameGet _ h1
      simp only [Function.comp]
      rw [findList?_new3Opt _ _ (leafZ_pairOpt _ _ hLZ2), findList?_pairOpt _ _ hLZ2,
        ReplFrame.findList?_putTop h3 _ (fun k hk hka => hpA k (mem_of_mem_dropTop hk) hka),
        findList?_dropTop _ hdropb]
    · cases hctx : f.ctx? b with
      | none => rw [Forest.parent?_of_no_ctx hctx] at hpar; cases hpar
      | some cc =>
        obtain ⟨e0, vo, so⟩ := SiteAt.of_ctx nd hctx
        have hself : cc.self = t := by
          have := Forest.get?_of_ctx nd hctx
          rw [hgb] at this
          exact (Option.some.inj this).symm
        obtain ⟨po', lo, k, ro⟩ := cc
        simp only at e0 so hself
        subst hself
        have hpo' : po' = po := by
          rw [Forest.parent?_of_ctx hctx] at hpar
          exact Option.some.inj hpar
        subst hpo'
        obtain ⟨ndLo, hpoL⟩ := so.nodupKids
        obtain ⟨tl, tr⟩ := tops_ne_of_nodup ndLo
        have hnatI : ∀ g, NatFor (HTree.editAt po' g) (replaceTop a (fun _ => [k])) :=
          fun g => ReplFrame.natFor_putTop (kidMap_editAt _ _) a (editAt_of_not_mem k hpot)
        have hnatP : NatFor (HTree.editAt q (replaceTop a (fun _ => [k]))) (pairOpt f.consolidation (f.nbOf b)) := by
          unfold pairOpt
          split
          · exact natFor_adjOpt (kidMap_editAt _ _) _
          · exact natFor_id _
        rw [Forest.editAt_comm _ hpq hnatP (hnatI _), Forest.editAt_editAt, ← specRemoveP_kid hpar]
        have g1 := getFrame_specRemoveP (z := z) inv hgb (by rw [hpar]; exact h2) (by rw [hpar]; exact hTo) h3
        have hsub : (handlesList ((pairOpt f.consolidation (f.nbOf b) ∘ dropTop b) (lo ++ k :: ro))).Sublist
            (handlesList (lo ++ k :: ro)) := by
          simp only [Function.comp]
          exact (pairOpt_sublist _ _ _).trans (handlesList_dropTop_sublist _ _)
        have hLZq : LeafZ q (lo ++ k :: ro) := by
          intro k' hk' hkt
          exact ⟨so.leaf inv.valid k' hk' hkt, PairAfter.text_ne_site sq hvq (PairAfter.site_getKid so hk') hkt⟩
        have hlook : findList? q ((pairOpt f.consolidation (f.nbOf b) ∘ dropTop b) (lo ++ k :: ro)) =
            findList? q (lo ++ k :: ro) := by
          simp only [Function.comp]
          rw [findList?_pairOpt, findList?_dropTop]
          · intro k' hk' hkc
            have : k' = k := PairAfter.eq_of_handle ndLo hk' (by simp) (hkc.trans e0.symm)
            rw [this]; exact hqt
          · intro k' hk' hkt
            exact hLZq k' (mem_of_mem_dropTop hk') hkt
        have sY := so.other sq.kids (fun e => hpq e.symm) _ hsub hlook
        rw [← specRemoveP_kid hpar] at sY
        have hkm := kidMap_editAt po' (pairOpt f.consolidation (f.nbOf b) ∘ dropTop b)
        have g2 := getFrame_put_stepP (t := k) a b sY h1
          (by
            intro k' hk' hkt
            obtain ⟨k0, hk0, e⟩ := List.mem_map.1 hk'
            subst e
            rw [hkm.value] at hkt
            obtain ⟨hl0, hz0⟩ := hleafq k0 hk0 hkt
            refine ⟨?_, by rw [hkm.handle]; exact hz0⟩
            exact ReplGapNF.editAt_kids_leaf hl0 (PairAfter.leaf_ne_site so (PairAfter.site_getKid sq hk0) hl0))
          hleaft h3
          (by
            intro k' hk' hka
            obtain ⟨k0, hk0, e⟩ := List.mem_map.1 hk'
            subst e
            rw [hkm.handle] at hka
            intro hin
            exact hpA k0 hk0 hka ((handles_editAt_sublist
              (fun L => (pairOpt_sublist _ _ _).trans (handlesList_dropTop_sublist _ _)) k0).subset hin))
        exact g1.trans g2

/-- **Frame of `replace`, `get?` form**: every forest with the invariant, every geometry. -/
theorem getFrame_replace {f : Forest} {a b : Nat} (inv : f.Inv) (hok : (f.replace a b).2 = .ok) {z : Nat}
    (hwa : z ∉ f.siteW (f.parent? a)) (hwb : z ∉ f.siteW (f.parent? b))
    (h3 : z ∉ f.subtreeHandles b) (h5 : z ∉ f.subtreeHandles a) :
    GetFrame f (f.replace a b).1 z := by
  rw [replace_pair inv hok]
  obtain ⟨q, vq, l, A, r, t, ra, _⟩ := replace_unpack inv hok
  have hq : f.parent? a = some q := Forest.parent?_of_ctx ra.ctx_a
  rw [hq] at hwa
  have h3' : z ∉ handles t := by
    unfold Forest.subtreeHandles at h3; rw [ra.hgb] at h3; exact h3
  have h5' : z ∉ handles A := by
    unfold Forest.subtreeHandles at h5; rw [ra.live_a] at h5; exact h5
  have hTq : TextFree f z (some q) := textFree_of_not_mem hwa
  have h1 : z ≠ q := fun e => hwa (by rw [e]; exact List.mem_cons_self ..)
  cases hadj : adjacentTo f a b with
  | true =>
    unfold specReplaceP
    rw [hadj, if_pos rfl]
    exact getFrame_specRemoveP inv ra.live_a (by rw [hq]; exact fun e => h1 (Option.some.inj e))
      (by rw [hq]; exact hTq) h5'
  | false =>
    have h2 : some z ≠ f.parent? b := by
      intro e
      apply hwb
      rw [← e]
      exact List.mem_cons_self ..
    have hTo : TextFree f z (f.parent? b) := textFree_of_not_mem hwb
    exact getFrame_specReplaceP_far inv ra hadj h1 h2 h3' h5' hTq hTo

end XotModel
