/-
  The tree the indented output is read as, `prettyNode sup ps n`, against the original subtree `n`:
    F  the default serialisation of `prettyNode n` succeeds where that of `n` does;
    R  the default spelling `spellNode` of `prettyNode n` is, up to how the character data runs are
       spelled (`NSNode.Resp`), the spelling `spellNodeP` of what the indenting writer writes for `n`.
-/
import XotModel.Lemmas.SerIndentOK
import XotModel.Lemmas.SerIndentNode
import XotModel.Lemmas.RoundTripDenote

namespace XotModel
open Gen

variable (env : Env) (pr : TokenParams) (sup : List Nat)

/-! ### An element with children, before and after -/

/-- What the start tag and the `<a/>` / `<a>` decision read off an element is unchanged. -/
structure ElemSame (n n' : Tree) : Prop where
  decls : n'.nsDecls = n.nsDecls
  attrs : n'.attrs = n.attrs
  first : n'.firstChild?.isNone = false

theorem dropWhile_cons_head_false {α : Type} (p : α → Bool) : ∀ (l : List α) (a : α) (r : List α),
    l.dropWhile p = a :: r → p a = false ∧ a ∈ l
  | [], a, r, h => by simp at h
  | x :: l, a, r, h => by
    rw [List.dropWhile_cons] at h
    split at h
    · obtain ⟨h1, h2⟩ := dropWhile_cons_head_false p l a r h
      exact ⟨h1, List.mem_cons_of_mem _ h2⟩
    · rename_i hx
      simp only [List.cons.injEq] at h
      obtain ⟨rfl, _⟩ := h
      exact ⟨by simpa using hx, by simp⟩

theorem mem_prettyKids_of_mem (pc : PStack) (gap : Str) {k : Tree} : ∀ {ks : List Tree}, k ∈ ks →
    prettyNode sup pc k ∈ prettyNode.prettyKids sup pc gap ks
  | [], h => by cases h
  | k0 :: ks, h => by
    simp only [prettyNode.prettyKids, List.mem_append, List.mem_cons]
    rcases List.mem_cons.mp h with rfl | h
    · exact .inr (.inl rfl)
    · exact .inr (.inr (mem_prettyKids_of_mem pc gap h))

theorem elemSame_pretty {name : Nat} {ks : List Tree}
    (hn : (Tree.node (.element name) ks).allNodes (nodeOK env) = true)
    (hc : (Tree.node (.element name) ks).firstChild?.isSome = true) (ps : PStack) :
    ElemSame (.node (.element name) ks)
      (.node (.element name) (prettyNode.prettyKids sup (entryFor sup (.node (.element name) ks) :: ps)
          (gapOf (entryFor sup (.node (.element name) ks) :: ps)) ks
        ++ wsNode (gapEnd (entryFor sup (.node (.element name) ks) :: ps) ps))) := by
  have hnode : nodeOK env (.element name) ks = true := by
    rw [allNodes_node, Bool.and_eq_true] at hn; exact hn.1
  obtain ⟨hord, _, _, _, _⟩ := (nodeOK_iff env _ ks).mp hnode
  obtain ⟨hord', _, _, _, _⟩ := (nodeOK_iff env _ _).mp (nodeOK_prettyKids env sup hn ps)
  refine ⟨?_, ?_, ?_⟩
  · rw [nsDecls_eq_kidDecls _ _ hord', nsDecls_eq_kidDecls _ _ hord]
    unfold kidDecls
    rw [List.filterMap_append, filterMap_prettyKids sup _ (fun pc k => by simp only [prettyNode_value]) (fun _ => rfl),
      filterMap_wsNode _ (fun _ => rfl), List.append_nil]
  · rw [attrs_eq_kidAttrs _ _ hord', attrs_eq_kidAttrs _ _ hord]
    unfold kidAttrs
    rw [List.filterMap_append, filterMap_prettyKids sup _ (fun pc k => by simp only [prettyNode_value]) (fun _ => rfl),
      filterMap_wsNode _ (fun _ => rfl), List.append_nil]
  · -- a normal child of the original is a normal child of the result
    have hex : ∃ k ∈ ks, k.value.isNormal = true := by
      simp only [Tree.firstChild?, Tree.normalKids, Tree.kids] at hc
      cases hd : ks.dropWhile (fun k => !k.value.isNormal) with
      | nil => simp [hd] at hc
      | cons k rest =>
        obtain ⟨h1, h2⟩ := dropWhile_cons_head_false _ ks k rest hd
        exact ⟨k, h2, by simpa using h1⟩
    obtain ⟨k, hk, hnorm⟩ := hex
    have hmem : prettyNode sup (entryFor sup (.node (.element name) ks) :: ps) k ∈
        (prettyNode.prettyKids sup (entryFor sup (.node (.element name) ks) :: ps)
          (gapOf (entryFor sup (.node (.element name) ks) :: ps)) ks
        ++ wsNode (gapEnd (entryFor sup (.node (.element name) ks) :: ps) ps)) :=
      List.mem_append_left _ (mem_prettyKids_of_mem sup _ _ hk)
    have := mem_normalKids (Tree.node (.element name) _) _ hmem (by rw [prettyNode_value]; exact hnorm)
    simp only [Tree.firstChild?]
    cases hnk : (Tree.node (.element name)
        (prettyNode.prettyKids sup (entryFor sup (.node (.element name) ks) :: ps)
          (gapOf (entryFor sup (.node (.element name) ks) :: ps)) ks
        ++ wsNode (gapEnd (entryFor sup (.node (.element name) ks) :: ps) ps))).normalKids with
    | nil => rw [hnk] at this; cases this
    | cons a b => rfl

theorem declaresPrefix_same {n n' : Tree} (h : n'.nsDecls = n.nsDecls) (p : Nat) :
    n'.declaresPrefix p = n.declaresPrefix p := by
  simp only [Tree.declaresPrefix, h]

theorem spellItems_same {n n' : Tree} (h : ElemSame n n') (inScope : List (Nat × Nat)) (isTop : Bool) (s : FStack) :
    spellItems env inScope isTop s n' = spellItems env inScope isTop s n := by
  simp only [spellItems, writtenDecls, h.decls, h.attrs, declaresPrefix_same h.decls]

/-! ### Spelling of child lists -/

theorem spellKids_append (inScope : List (Nat × Nat)) (s : FStack) (a b : List Tree) :
    spellNode.spellKids env inScope s (a ++ b) =
      spellNode.spellKids env inScope s a ++ spellNode.spellKids env inScope s b := by
  induction a with
  | nil => rfl
  | cons k ks ih => simp only [List.cons_append, spellNode.spellKids, ih, List.append_assoc]

/-- A white space node is spelled as the white space run. -/
theorem spellKids_wsNode (inScope : List (Nat × Nat)) (s : FStack) (w : Str) :
    spellNode.spellKids env inScope s (wsNode w) = wsChars w := by
  unfold wsNode wsChars
  split
  · rfl
  · simp [spellNode.spellKids, spellNode]

theorem resp_wsChars {w : Str} (hw : w.all isWsChar = true) : NSNode.Resp.respList (wsChars w) (wsChars w) := by
  unfold wsChars
  split
  · rfl
  · rename_i hne
    have hne' : w ≠ [] := by simpa using hne
    have hx : w.all isXmlChar = true := by
      simp only [List.all_eq_true] at hw ⊢
      exact fun c hc => isWsChar_xml (hw c hc)
    have := resp_text {} false w hne' hx
    simp only [textParts, Bool.false_eq_true, if_false, txtPieces] at this
    exact respList_cons this rfl

/-! ### R -/

mutual
theorem spellP_resp (inScope : List (Nat × Nat)) (isTop : Bool) (s : FStack) (cd : Bool) (ps : PStack) (n : Tree)
    (hn : n.allNodes (nodeOK env) = true) (hdoc : n.value.isDocument = false) :
    NSNode.Resp.respList (spellNode env inScope isTop s (prettyNode sup ps n))
      (spellNodeP env pr sup inScope isTop s cd ps n) := by
  cases n with
  | node v ks =>
    have hkn : ∀ k ∈ ks, k.allNodes (nodeOK env) = true := fun k hk => allNodes_kid hn hk
    have hval := allNodes_value env hn
    cases v with
    | document => simp [Tree.value, Value.isDocument] at hdoc
    | «attribute» a b =>
      have hl := allNodes_leaf env hn rfl
      subst hl; rfl
    | «namespace» a b =>
      have hl := allNodes_leaf env hn rfl
      subst hl; rfl
    | text str =>
      have hl := allNodes_leaf env hn rfl
      subst hl
      obtain ⟨h1, h2⟩ := text_valueOK env hval
      simp only [prettyNode, spellNode, spellNodeP, spellNode.spellKids, spellNodeP.spellKidsP]
      exact respList_cons (resp_text pr cd str h1 h2) rfl
    | comment str =>
      have hl := allNodes_leaf env hn rfl
      subst hl
      simp only [prettyNode, spellNode, spellNodeP, spellNode.spellKids, spellNodeP.spellKidsP]
      exact respList_cons rfl rfl
    | pi target data =>
      have hl := allNodes_leaf env hn rfl
      subst hl
      simp only [prettyNode, spellNode, spellNodeP, spellNode.spellKids, spellNodeP.spellKidsP]
      exact respList_cons rfl rfl
    | element name =>
      have hnode : nodeOK env (.element name) ks = true := by
        rw [allNodes_node, Bool.and_eq_true] at hn; exact hn.1
      obtain ⟨_, hkinds, _, _, _⟩ := (nodeOK_iff env _ ks).mp hnode
      by_cases hc : (Tree.node (.element name) ks).firstChild?.isSome = true
      · have hnone : (Tree.node (.element name) ks).firstChild?.isNone = false := by
          cases h : (Tree.node (.element name) ks).firstChild? <;> simp_all
        have hsame := elemSame_pretty env sup hn hc ps
        have hk := spellKidsP_resp inScope (s.push (Tree.node (.element name) ks).nsDecls)
          (kidsCd pr (.element name)) (entryFor sup (.node (.element name) ks) :: ps)
          (gapOf (entryFor sup (.node (.element name) ks) :: ps)) (gapOf_ws _) ks hkn hkinds.2.2
        simp only [prettyNode, hc, if_true, spellNode, hsame.decls, hsame.first, Bool.false_eq_true, if_false,
          spellItems_same env hsame, spellNodeP, hnone, spellKids_append, spellKids_wsNode]
        exact respList_cons ⟨_, rfl, respList_append hk (resp_wsChars (gapEnd_ws _ ps))⟩ rfl
      · have hnone : (Tree.node (.element name) ks).firstChild?.isNone = true := by
          cases h : (Tree.node (.element name) ks).firstChild? <;> simp_all
        have hab : ∀ k ∈ ks, k.value.isNormal = false ∧ k.kids = [] := by
          intro k hk'
          have h1 := firstChild_none_abnormal hnone k hk'
          refine ⟨h1, ?_⟩
          cases k with
          | node v' ks' => exact allNodes_leaf env (hkn _ hk') (abnormal_leafKind h1)
        simp only [prettyNode, hc, Bool.false_eq_true, if_false, spellNode, hnone, if_true, spellNodeP,
          spellKids_abnormal inScope _ ks hab, spellKidsP_abnormal env pr sup inScope _ _ ps [] ks hab]
        exact respList_cons rfl rfl

theorem spellKidsP_resp (inScope : List (Nat × Nat)) (s : FStack) (cd : Bool) (pc : PStack) (gap : Str)
    (hgap : gap.all isWsChar = true) (ks : List Tree)
    (hn : ∀ k ∈ ks, k.allNodes (nodeOK env) = true) (hdocs : ∀ k ∈ ks, k.value.isDocument = false) :
    NSNode.Resp.respList (spellNode.spellKids env inScope s (prettyNode.prettyKids sup pc gap ks))
      (spellNodeP.spellKidsP env pr sup inScope s cd pc gap ks) := by
  cases ks with
  | nil => rfl
  | cons k ks =>
    simp only [prettyNode.prettyKids, spellNodeP.spellKidsP, spellKids_append, spellNode.spellKids, List.append_assoc]
    refine respList_append ?_ (respList_append (spellP_resp inScope false s cd pc k (hn k (by simp)) (hdocs k (by simp)))
      (spellKidsP_resp inScope s cd pc gap hgap ks (fun k' hk' => hn k' (by simp [hk']))
        (fun k' hk' => hdocs k' (by simp [hk']))))
    split
    · rw [spellKids_wsNode]; exact resp_wsChars hgap
    · rfl
end

/-! ### F: the default serialisation of the tree the indented output is read as succeeds -/

theorem serKids_append (inScope : List (Nat × Nat)) (s : FStack) (a b : List Tree) :
    serNode.serKids env false inScope s (a ++ b) =
      appendOk (serNode.serKids env false inScope s a) (serNode.serKids env false inScope s b) := by
  induction a with
  | nil =>
    simp only [List.nil_append, serNode.serKids, appendOk]
    cases serNode.serKids env false inScope s b <;> simp
  | cons k ks ih =>
    simp only [List.cons_append, serNode.serKids, ih]
    cases serNode env false inScope false s k with
    | error e => rfl
    | ok x =>
      cases serNode.serKids env false inScope s ks with
      | error e => rfl
      | ok y =>
        cases serNode.serKids env false inScope s b with
        | error e => rfl
        | ok z => simp [appendOk]

theorem serKids_wsNode_ok (inScope : List (Nat × Nat)) (s : FStack) (w : Str) :
    ∃ ts, serNode.serKids env false inScope s (wsNode w) = .ok ts := by
  rcases wsNode_cases w with h | h <;> rw [h]
  · exact ⟨_, rfl⟩
  · exact ⟨[.text (sp0 (serializeText false w))], by simp [serNode.serKids, serNode, appendOk]⟩

mutual
theorem serNode_pretty_ok (inScope : List (Nat × Nat)) (isTop : Bool) (s : FStack) (ps : PStack) (n : Tree)
    (hn : n.allNodes (nodeOK env) = true) (ts : List Token)
    (h : serNode env false inScope isTop s n = .ok ts) :
    ∃ ts', serNode env false inScope isTop s (prettyNode sup ps n) = .ok ts' := by
  cases n with
  | node v ks =>
    have hkn : ∀ k ∈ ks, k.allNodes (nodeOK env) = true := fun k hk => allNodes_kid hn hk
    cases v with
    | element name =>
      by_cases hc : (Tree.node (.element name) ks).firstChild?.isSome = true
      · have hnone : (Tree.node (.element name) ks).firstChild?.isNone = false := by
          cases h' : (Tree.node (.element name) ks).firstChild? <;> simp_all
        have hsame := elemSame_pretty env sup hn hc ps
        obtain ⟨p, ats, content, hdef, hp, ha, hk, _⟩ := serNode_element_ok env h
        obtain ⟨c1, hc1⟩ := serKids_pretty_ok inScope (s.push (Tree.node (.element name) ks).nsDecls)
          (entryFor sup (.node (.element name) ks) :: ps) (gapOf (entryFor sup (.node (.element name) ks) :: ps))
          ks hkn content hk
        obtain ⟨c2, hc2⟩ := serKids_wsNode_ok env inScope (s.push (Tree.node (.element name) ks).nsDecls)
          (gapEnd (entryFor sup (.node (.element name) ks) :: ps) ps)
        have hdef' : (env.nsOfName name == Env.noNamespace &&
            (s.push (Tree.node (.element name) ks).nsDecls).hasDefaultNamespace) = false := by
          cases hcc : (env.nsOfName name == Env.noNamespace &&
            (s.push (Tree.node (.element name) ks).nsDecls).hasDefaultNamespace) with
          | false => rfl
          | true =>
            simp only [Bool.and_eq_true, beq_iff_eq] at hcc
            exact absurd hcc hdef
        simp only [prettyNode, hc, if_true]
        rw [serNode]
        simp only [hsame.decls, hsame.attrs, hdef', Bool.false_eq_true, if_false, hp, ha, serKids_append, hc1, hc2,
          appendOk]
        exact ⟨_, rfl⟩
      · exact ⟨ts, by simpa [prettyNode, hc] using h⟩
    | _ => exact ⟨ts, h⟩

theorem serKids_pretty_ok (inScope : List (Nat × Nat)) (s : FStack) (pc : PStack) (gap : Str) (ks : List Tree)
    (hn : ∀ k ∈ ks, k.allNodes (nodeOK env) = true) (ts : List Token)
    (h : serNode.serKids env false inScope s ks = .ok ts) :
    ∃ ts', serNode.serKids env false inScope s (prettyNode.prettyKids sup pc gap ks) = .ok ts' := by
  cases ks with
  | nil => exact ⟨_, rfl⟩
  | cons k ks =>
    obtain ⟨x, y, hx, hy, _⟩ := serKids_cons_ok env h
    obtain ⟨x', hx'⟩ := serNode_pretty_ok inScope false s pc k (hn k (by simp)) x hx
    obtain ⟨y', hy'⟩ := serKids_pretty_ok inScope s pc gap ks (fun k' hk' => hn k' (by simp [hk'])) y hy
    obtain ⟨w, hw⟩ : ∃ w, serNode.serKids env false inScope s (if k.value.isNormal then wsNode gap else []) = .ok w := by
      split
      · exact serKids_wsNode_ok env inScope s gap
      · exact ⟨_, rfl⟩
    simp only [prettyNode.prettyKids, serKids_append, hw, serNode.serKids, hx', hy', appendOk]
    exact ⟨_, rfl⟩
end

end XotModel
