/-
  C06 lemmas: frames.  `Frame f f' S` says that outside the handles in `S` every node keeps its
  value (hence its liveness) and its parent, and that the flags are untouched.  Ancestor chains
  and root-ness are functions of these, so they are kept for the nodes whose chain avoids `S`.
-/
import XotModel.Lemmas.FatomReplace

namespace XotModel
open HTree

namespace Forest

structure Frame (f f' : Forest) (P V : List Nat) : Prop where
  parent : ∀ x, x ∉ P → f'.parent? x = f.parent? x
  live : ∀ x, x ∉ P → f'.isLive x = f.isLive x
  value : ∀ x, x ∉ V → f'.value? x = f.value? x
  corrupt : f'.corrupt = f.corrupt
  consolidation : f'.consolidation = f.consolidation

theorem Frame.refl (f : Forest) (P V : List Nat) : Frame f f P V :=
  ⟨fun _ _ => rfl, fun _ _ => rfl, fun _ _ => rfl, rfl, rfl⟩

theorem Frame.trans {f f' f'' : Forest} {P V P' V' : List Nat} (a : Frame f f' P V)
    (b : Frame f' f'' P' V') : Frame f f'' (P ++ P') (V ++ V') :=
  ⟨fun x hx => by
      rw [List.mem_append, not_or] at hx
      rw [b.parent x hx.2, a.parent x hx.1],
   fun x hx => by
      rw [List.mem_append, not_or] at hx
      rw [b.live x hx.2, a.live x hx.1],
   fun x hx => by
      rw [List.mem_append, not_or] at hx
      rw [b.value x hx.2, a.value x hx.1],
   by rw [b.corrupt, a.corrupt], by rw [b.consolidation, a.consolidation]⟩

theorem Frame.mono {f f' : Forest} {P V P' V' : List Nat} (a : Frame f f' P V)
    (hP : ∀ x ∈ P, x ∈ P') (hV : ∀ x ∈ V, x ∈ V') : Frame f f' P' V' :=
  ⟨fun x hx => a.parent x (fun h' => hx (hP x h')), fun x hx => a.live x (fun h' => hx (hP x h')),
   fun x hx => a.value x (fun h' => hx (hV x h')), a.corrupt, a.consolidation⟩

theorem Frame.isRoot {f f' : Forest} {P V : List Nat} (a : Frame f f' P V) (w : f.W) (w' : f'.W)
    {x : Nat} (hx : x ∉ P) : f'.isRoot x = f.isRoot x := by
  have h1 := isRoot_iff w x
  have h2 := isRoot_iff w' x
  rw [a.live x hx, a.parent x hx] at h2
  cases h : f.isRoot x with
  | true => exact h2.2 (h1.1 h)
  | false =>
    cases h' : f'.isRoot x with
    | false => rfl
    | true => rw [h1.2 (h2.1 h')] at h; cases h

theorem Frame.textOf {f f' : Forest} {P V : List Nat} (a : Frame f f' P V) {x : Nat} (hx : x ∉ V) :
    f'.textOf x = f.textOf x := by
  unfold Forest.textOf; rw [a.value x hx]

/-- The ancestor chain of a node is kept when the whole chain lies outside `S`. -/
theorem Frame.ancestors {f f' : Forest} {P V : List Nat} (a : Frame f f' P V) (w : f.W) (w' : f'.W) :
    ∀ (l : List Nat) (x : Nat), f.ancestors x = l → f.isLive x = true → (∀ y ∈ l, y ∉ P) →
      f'.ancestors x = l
  | [], x, e, hl, _ => by
    have := self_mem_ancestors w hl
    rw [e] at this; cases this
  | y :: l, x, e, hl, hS => by
    have hxS : x ∉ P := by
      apply hS
      have := self_mem_ancestors w hl
      rwa [e] at this
    have hl' : f'.isLive x = true := by rw [a.live x hxS]; exact hl
    cases hp : f.parent? x with
    | none =>
      have hp' : f'.parent? x = none := by rw [a.parent x hxS]; exact hp
      rw [(ancestors_root hl' hp').1, ← e, (ancestors_root hl hp).1]
    | some q =>
      have hp' : f'.parent? x = some q := by rw [a.parent x hxS]; exact hp
      rw [ancestors_step w hp] at e
      rw [ancestors_step w' hp']
      have hy : x = y := by injection e
      have hq : f.ancestors q = l := by injection e
      rw [Frame.ancestors a w w' l q hq (parent?_live hp).2 (fun z hz => hS z (List.mem_cons_of_mem _ hz)), hy]

theorem Frame.ancestors' {f f' : Forest} {P V : List Nat} (a : Frame f f' P V) (w : f.W) (w' : f'.W)
    {x : Nat} (hl : f.isLive x = true) (hS : ∀ y ∈ f.ancestors x, y ∉ P) :
    f'.ancestors x = f.ancestors x :=
  Frame.ancestors a w w' _ x rfl hl hS

theorem setValue_frame (f : Forest) (h : Nat) (v : Value) : Frame f (f.setValue h v) [] [h] :=
  ⟨fun x _ => setValue_parent? f h v x, fun x _ => setValue_isLive f h v x,
   fun x hx => by
     rw [setValue_value?]
     have : x ≠ h := by simpa using hx
     simp [this],
   rfl, rfl⟩

/-- A proper ancestor has children. -/
theorem ancestors_proper_kids {f : Forest} (w : f.W) : ∀ (l : List Nat) (x a : Nat),
    f.ancestors x = l → a ∈ l → a ≠ x → ∃ t, f.get? a = some t ∧ t.kids ≠ []
  | [], x, a, _, ha, _ => by cases ha
  | y :: l, x, a, e, ha, hne => by
    cases hl : f.isLive x with
    | false => rw [ancestors_dead hl] at e; cases e
    | true =>
      cases hp : f.parent? x with
      | none =>
        rw [(ancestors_root hl hp).1] at e
        injection e with e1 e2
        subst e1 e2
        simp at ha; exact absurd ha hne
      | some q =>
        rw [ancestors_step w hp] at e
        injection e with e1 e2
        subst e1
        rcases List.mem_cons.1 ha with h' | h'
        · exact absurd h' hne
        · by_cases hq : a = q
          · subst hq
            obtain ⟨c, hc, hcp⟩ := ctx?_of_parent? hp
            obtain ⟨⟨v, hg⟩, _⟩ := ctx?_spec w hc
            rw [hcp] at hg
            exact ⟨_, hg, by simp [HTree.kids]⟩
          · exact ancestors_proper_kids w l q a e2 h' hq

/-- A leaf is an ancestor of itself only. -/
theorem leaf_not_ancestor {f : Forest} (w : f.W) {n x : Nat} {t : HTree} (hg : f.get? n = some t)
    (hk : t.kids = []) (hne : n ≠ x) : n ∉ f.ancestors x := by
  intro hm
  obtain ⟨t', hg', hk'⟩ := ancestors_proper_kids w _ x n rfl hm hne
  rw [hg] at hg'
  injection hg' with e
  subst e
  exact hk' hk

end Forest
end XotModel
