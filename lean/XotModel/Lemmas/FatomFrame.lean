/-
  C06 lemmas: frames.  `Frame f f' S` says that outside the handles in `S` every node keeps its
  value (hence its liveness) and its parent, and that the flags are untouched.  Ancestor chains
  and root-ness are functions of these, so they are kept for the nodes whose chain avoids `S`.
-/
import XotModel.Lemmas.FatomReplace

namespace XotModel
open HTree

namespace Forest

/-- A value up to text content (consolidation rewrites the content of text nodes only). -/
def _root_.XotModel.Value.shape : Value → Value
  | .text _ => .text []
  | v => v

/-- Outside `P` every node keeps its parent and its value up to text content (hence its
    liveness and kind); the flags are untouched and no handle is given back. -/
structure Frame (f f' : Forest) (P : List Nat) : Prop where
  parent : ∀ x, x ∉ P → f'.parent? x = f.parent? x
  shape : ∀ x, x ∉ P → (f'.value? x).map Value.shape = (f.value? x).map Value.shape
  corrupt : f'.corrupt = f.corrupt
  consolidation : f'.consolidation = f.consolidation
  next_le : f.next ≤ f'.next

theorem Frame.refl (f : Forest) (P : List Nat) : Frame f f P :=
  ⟨fun _ _ => rfl, fun _ _ => rfl, rfl, rfl, Nat.le_refl _⟩

theorem Frame.trans {f f' f'' : Forest} {P P' : List Nat} (a : Frame f f' P)
    (b : Frame f' f'' P') : Frame f f'' (P ++ P') :=
  ⟨fun x hx => by
      rw [List.mem_append, not_or] at hx
      rw [b.parent x hx.2, a.parent x hx.1],
   fun x hx => by
      rw [List.mem_append, not_or] at hx
      rw [b.shape x hx.2, a.shape x hx.1],
   by rw [b.corrupt, a.corrupt], by rw [b.consolidation, a.consolidation],
   Nat.le_trans a.next_le b.next_le⟩

theorem Frame.mono {f f' : Forest} {P P' : List Nat} (a : Frame f f' P)
    (hP : ∀ x ∈ P, x ∈ P') : Frame f f' P' :=
  ⟨fun x hx => a.parent x (fun h' => hx (hP x h')), fun x hx => a.shape x (fun h' => hx (hP x h')),
   a.corrupt, a.consolidation, a.next_le⟩

theorem Frame.live {f f' : Forest} {P : List Nat} (a : Frame f f' P) (x : Nat) (hx : x ∉ P) :
    f'.isLive x = f.isLive x := by
  rw [isLive_iff_value?, isLive_iff_value?]
  have := a.shape x hx
  cases h1 : f'.value? x <;> cases h2 : f.value? x <;> simp [h1, h2] at this ⊢

theorem Frame.isRoot {f f' : Forest} {P : List Nat} (a : Frame f f' P) (w : f.W) (w' : f'.W)
    {x : Nat} (hx : x ∉ P) : f'.isRoot x = f.isRoot x := by
  have h1 := isRoot_iff w x
  have h2 := isRoot_iff w' x
  rw [a.live x hx, a.parent x hx] at h2
  cases h : f.isRoot x with
  | true => exact h2.2 (h1.1 h)
  | false =>
    cases h' : f'.isRoot x with
    | false => rfl
    | true => rw [h1.2 (h2.1 h')] at h; cases h

theorem shape_isElement (v : Value) : v.shape.isElement = v.isElement := by cases v <;> rfl
theorem shape_isDocument (v : Value) : v.shape.isDocument = v.isDocument := by cases v <;> rfl
theorem shape_isText (v : Value) : v.shape.isText = v.isText := by cases v <;> rfl
theorem shape_category (v : Value) : v.shape.category = v.category := by cases v <;> rfl
theorem shape_isNormal (v : Value) : v.shape.isNormal = v.isNormal := by cases v <;> rfl

/-- Any function of the shape is kept. -/
theorem Frame.viaShape {f f' : Forest} {P : List Nat} (a : Frame f f' P) {x : Nat} (hx : x ∉ P)
    {β : Type} (g : Value → β) (hg : ∀ v, g v.shape = g v) :
    (f'.value? x).map g = (f.value? x).map g := by
  have := a.shape x hx
  cases h1 : f'.value? x <;> cases h2 : f.value? x <;> simp [h1, h2] at this ⊢
  rw [← hg, this, hg]

theorem Frame.isElement {f f' : Forest} {P : List Nat} (a : Frame f f' P) {x : Nat} (hx : x ∉ P) :
    f'.isElement x = f.isElement x := by
  unfold Forest.isElement; rw [a.viaShape hx _ shape_isElement]

theorem Frame.isDocument {f f' : Forest} {P : List Nat} (a : Frame f f' P) {x : Nat} (hx : x ∉ P) :
    f'.isDocument x = f.isDocument x := by
  unfold Forest.isDocument; rw [a.viaShape hx _ shape_isDocument]

theorem Frame.isText {f f' : Forest} {P : List Nat} (a : Frame f f' P) {x : Nat} (hx : x ∉ P) :
    f'.isText x = f.isText x := by
  unfold Forest.isText; rw [a.viaShape hx _ shape_isText]

theorem Frame.isNormalNode {f f' : Forest} {P : List Nat} (a : Frame f f' P) {x : Nat}
    (hx : x ∉ P) : f'.isNormalNode x = f.isNormalNode x := by
  unfold Forest.isNormalNode; rw [a.viaShape hx _ shape_isNormal]

theorem Frame.category {f f' : Forest} {P : List Nat} (a : Frame f f' P) {x : Nat} (hx : x ∉ P) :
    (f'.value? x).map Value.category = (f.value? x).map Value.category :=
  a.viaShape hx _ shape_category

theorem textOf_isSome (f : Forest) (x : Nat) : (f.textOf x).isSome = f.isText x := by
  unfold Forest.textOf Forest.isText
  cases h : f.value? x with
  | none => rfl
  | some v => cases v <;> rfl

theorem Frame.textOf_isSome {f f' : Forest} {P : List Nat} (a : Frame f f' P) {x : Nat}
    (hx : x ∉ P) : (f'.textOf x).isSome = (f.textOf x).isSome := by
  rw [Forest.textOf_isSome, Forest.textOf_isSome, a.isText hx]

/-- The ancestor chain of a node is kept when the whole chain lies outside `S`. -/
theorem Frame.ancestors {f f' : Forest} {P : List Nat} (a : Frame f f' P) (w : f.W) (w' : f'.W) :
    ∀ (l : List Nat) (x : Nat), f.ancestors x = l → f.isLive x = true → (∀ y ∈ l, y ∉ P) →
      f'.ancestors x = l
  | [], x, e, hl, _ => by
    have := self_mem_ancestors w hl
    rw [e] at this; cases this
  | y :: l, x, e, hl, hS => by
    have hxS : x ∉ P := by
      apply hS
      have := self_mem_ancestors w hl
      rwa [e] at this
    have hl' : f'.isLive x = true := by rw [a.live x hxS]; exact hl
    cases hp : f.parent? x with
    | none =>
      have hp' : f'.parent? x = none := by rw [a.parent x hxS]; exact hp
      rw [(ancestors_root hl' hp').1, ← e, (ancestors_root hl hp).1]
    | some q =>
      have hp' : f'.parent? x = some q := by rw [a.parent x hxS]; exact hp
      rw [ancestors_step w hp] at e
      rw [ancestors_step w' hp']
      have hy : x = y := by injection e
      have hq : f.ancestors q = l := by injection e
      rw [Frame.ancestors a w w' l q hq (parent?_live hp).2 (fun z hz => hS z (List.mem_cons_of_mem _ hz)), hy]

theorem Frame.ancestors' {f f' : Forest} {P : List Nat} (a : Frame f f' P) (w : f.W) (w' : f'.W)
    {x : Nat} (hl : f.isLive x = true) (hS : ∀ y ∈ f.ancestors x, y ∉ P) :
    f'.ancestors x = f.ancestors x :=
  Frame.ancestors a w w' _ x rfl hl hS

theorem setValue_frame (f : Forest) (h : Nat) (v : Value) : Frame f (f.setValue h v) [h] :=
  ⟨fun x _ => setValue_parent? f h v x,
   fun x hx => by
     rw [setValue_value?]
     have : x ≠ h := by simpa using hx
     simp [this],
   rfl, rfl, Nat.le_refl _⟩

/-- Rewriting the content of a text node changes no shape at all. -/
theorem setValue_frame_text (f : Forest) {h : Nat} {a : Str} (ht : f.textOf h = some a) (s : Str) :
    Frame f (f.setValue h (.text s)) [] :=
  ⟨fun x _ => setValue_parent? f h _ x,
   fun x _ => by
     rw [setValue_value?]
     by_cases hx : x = h
     · subst hx
       unfold Forest.textOf at ht
       cases hv : f.value? x with
       | none => rw [hv] at ht; cases ht
       | some v => cases v <;> simp [hv, Value.shape] at ht ⊢
     · simp [hx],
   rfl, rfl, Nat.le_refl _⟩

/-- A proper ancestor has children. -/
theorem ancestors_proper_kids {f : Forest} (w : f.W) : ∀ (l : List Nat) (x a : Nat),
    f.ancestors x = l → a ∈ l → a ≠ x → ∃ t, f.get? a = some t ∧ t.kids ≠ []
  | [], x, a, _, ha, _ => by cases ha
  | y :: l, x, a, e, ha, hne => by
    cases hl : f.isLive x with
    | false => rw [ancestors_dead hl] at e; cases e
    | true =>
      cases hp : f.parent? x with
      | none =>
        rw [(ancestors_root hl hp).1] at e
        injection e with e1 e2
        subst e1 e2
        simp at ha; exact absurd ha hne
      | some q =>
        rw [ancestors_step w hp] at e
        injection e with e1 e2
        subst e1
        rcases List.mem_cons.1 ha with h' | h'
        · exact absurd h' hne
        · by_cases hq : a = q
          · subst hq
            obtain ⟨c, hc, hcp⟩ := ctx?_of_parent? hp
            obtain ⟨⟨v, hg⟩, _⟩ := ctx?_spec w hc
            rw [hcp] at hg
            exact ⟨_, hg, by simp [HTree.kids]⟩
          · exact ancestors_proper_kids w l q a e2 h' hq

/-- A leaf is an ancestor of itself only. -/
theorem leaf_not_ancestor {f : Forest} (w : f.W) {n x : Nat} {t : HTree} (hg : f.get? n = some t)
    (hk : t.kids = []) (hne : n ≠ x) : n ∉ f.ancestors x := by
  intro hm
  obtain ⟨t', hg', hk'⟩ := ancestors_proper_kids w _ x n rfl hm hne
  rw [hg] at hg'
  injection hg' with e
  subst e
  exact hk' hk

end Forest
end XotModel
