/-
  Finv (C04), part 32: `VStep` for raw placement, the `checked_*` calls, the two consolidation
  helpers and the four moves, `detach`, `remove`.  The text nodes whose content consolidation may
  extend are named explicitly (hypotheses `T …`): the previous sibling of the node taken out, and
  the neighbour at the place a text node arrives at.
-/
import XotModel.Lemmas.FinvValue1

namespace XotModel
open HTree

namespace Forest

variable {S T : Nat → Prop}

theorem hv_setKids (k : HTree) (ks : List HTree) :
    hv (k.setKids ks) = (k.handle, k.value) :: hvList ks := by
  cases k; simp [HTree.setKids]

/-- Raw placement of a tree whose pairs are accounted for. -/
theorem vstep_place {f0 f : Forest} (hle : VStep S T f0 f) (t : HTree)
    (ht : ∀ x v', (x, v') ∈ hv t → VOrigin S T f0 x v') :
    ∀ ref, VStep S T f0 (f.placeAfter ref t) ∧ VStep S T f0 (f.placeBefore ref t) ∧
      VStep S T f0 (f.placeLast ref t) ∧ VStep S T f0 (f.placeFirst ref t) := by
  intro ref
  have fin : ∀ f' : Forest, f'.next = f.next →
      (∀ x ∈ hvList f'.roots, x ∈ hvList f.roots ∨ x ∈ hv t) → VStep S T f0 f' := by
    intro f' hn hs
    refine ⟨by rw [hn]; exact hle.next, ?_⟩
    intro x v' hx
    rcases hs _ hx with h1 | h1
    · exact hle.old x v' h1
    · exact ht x v' h1
  refine ⟨?_, ?_, ?_, ?_⟩
  · apply fin _ (by rfl)
    intro x hx
    exact hvList_map_replaceBelow_sub ref _ (hv t) (by
      intro k x hx
      simp only [hvList_cons, hvList_nil, List.append_nil, List.mem_append] at hx
      exact hx) f.roots x hx
  · apply fin _ (by rfl)
    intro x hx
    exact hvList_map_replaceBelow_sub ref _ (hv t) (by
      intro k x hx
      simp only [hvList_cons, hvList_nil, List.append_nil, List.mem_append] at hx
      exact hx.symm) f.roots x hx
  · apply fin _ (by rfl)
    intro x hx
    unfold placeLast at hx
    simp only at hx
    rw [← mapAtList_eq_map] at hx
    exact hvList_mapAtList_sub ref _ (hv t) (by
      intro k _ x hx
      rw [hv_setKids, List.mem_cons, hvList_append, List.mem_append] at hx
      rw [hv_eq k, List.mem_cons]
      simp only [hvList_cons, hvList_nil, List.append_nil] at hx
      rcases hx with hx | hx | hx
      · exact Or.inl (Or.inl hx)
      · exact Or.inl (Or.inr hx)
      · exact Or.inr hx) f.roots x hx
  · apply fin _ (by rfl)
    intro x hx
    unfold placeFirst at hx
    simp only at hx
    rw [← mapAtList_eq_map] at hx
    exact hvList_mapAtList_sub ref _ (hv t) (by
      intro k _ x hx
      rw [hv_setKids, List.mem_cons, hvList_cons, List.mem_append] at hx
      rw [hv_eq k, List.mem_cons]
      rcases hx with hx | hx | hx
      · exact Or.inl (Or.inl hx)
      · exact Or.inr hx
      · exact Or.inl (Or.inr hx)) f.roots x hx

theorem vstep_corrupt {f0 f : Forest} (h : VStep S T f0 f) : VStep S T f0 { f with corrupt := true } :=
  ⟨h.next, h.old⟩

/-- Cut, then place: the four indextree `checked_*` calls. -/
theorem vstep_checked (f : Forest) (a b : Nat) :
    VStep S T f (f.checkedAppend a b).1 ∧ VStep S T f (f.checkedPrepend a b).1 ∧
    VStep S T f (f.checkedInsertAfter a b).1 ∧ VStep S T f (f.checkedInsertBefore a b).1 := by
  have hc := vstep_cut (S := S) (T := T) f b
  have key : ∀ ref, (match f.cut b with
      | (f', some t) => VStep S T f (f'.placeAfter ref t) ∧ VStep S T f (f'.placeBefore ref t) ∧
          VStep S T f (f'.placeLast ref t) ∧ VStep S T f (f'.placeFirst ref t)
      | (f', none) => VStep S T f { f' with corrupt := true }) := by
    intro ref
    cases hcut : f.cut b with
    | mk f' o =>
      rw [hcut] at hc
      cases o with
      | none => exact vstep_corrupt hc.1
      | some t => exact vstep_place hc.1 t (fun x v' hx => VOrigin.of_mem (hc.2 t rfl _ hx)) ref
  refine ⟨?_, ?_, ?_, ?_⟩
  · unfold checkedAppend
    split
    · exact VStep.refl f
    · have := key a
      cases hcut : f.cut b with
      | mk f' o => rw [hcut] at this; cases o with
        | none => exact this
        | some t => exact this.2.2.1
  · unfold checkedPrepend
    split
    · exact VStep.refl f
    · have := key a
      cases hcut : f.cut b with
      | mk f' o => rw [hcut] at this; cases o with
        | none => exact this
        | some t => exact this.2.2.2
  · unfold checkedInsertAfter
    split
    · exact VStep.refl f
    · split
      · exact vstep_corrupt (VStep.refl f)
      · have := key a
        cases hcut : f.cut b with
        | mk f' o => rw [hcut] at this; cases o with
          | none => exact this
          | some t => exact this.1
  · unfold checkedInsertBefore
    split
    · exact VStep.refl f
    · split
      · exact vstep_corrupt (VStep.refl f)
      · have := key a
        cases hcut : f.cut b with
        | mk f' o => rw [hcut] at this; cases o with
          | none => exact this
          | some t => exact this.2.1

/-! ### Consolidation: only the surviving text node changes, by extension -/

theorem vstep_removeConsolidate (f : Forest) (prev next : Option Nat)
    (hT : ∀ p, prev = some p → T p) : VStep S T f (f.removeConsolidate prev next).1 := by
  unfold removeConsolidate
  split
  · exact VStep.refl f
  · split
    · rename_i p n
      cases hp : f.textOf p with
      | none => exact VStep.refl f
      | some ps =>
        cases f.textOf n with
        | none => exact VStep.refl f
        | some ns => exact (vstep_setText_prefix f (hT p rfl) hp ns).trans (vstep_spliceOut _ n)
    · exact VStep.refl f

theorem vstep_addConsolidateOld (f : Forest) (node : Nat) (prev next : Option Nat)
    (hTp : ∀ p, prev = some p → T p) (hTn : ∀ n, next = some n → T n) :
    VStep S T f (f.addConsolidateOld node prev next).1 := by
  unfold addConsolidateOld
  split
  · exact VStep.refl f
  · cases f.textOf node with
    | none => exact VStep.refl f
    | some added =>
      have viaNext : VStep S T f (match next with
          | some n => (match f.textOf n with
              | some ns => ((f.setValue n (.text (added ++ ns))).spliceOut node, true)
              | none => (f, false))
          | none => (f, false)).1 := by
        cases next with
        | none => exact VStep.refl f
        | some n =>
          simp only
          cases hn : f.textOf n with
          | none => exact VStep.refl f
          | some ns => exact (vstep_setText_suffix f (hTn n rfl) hn added).trans (vstep_spliceOut _ node)
      cases prev with
      | some p =>
        simp only
        cases hp : f.textOf p with
        | some ps => exact (vstep_setText_prefix f (hTp p rfl) hp added).trans (vstep_spliceOut _ node)
        | none => exact viaNext
      | none => exact viaNext

/-- eccbbb7: the neighbours that may change are the ones the helper works with (`selfPrev`,
    `selfNext`: the node's own sibling where the neighbour handed in is the node itself). -/
theorem vstep_addConsolidate (f : Forest) (node : Nat) (prev next : Option Nat)
    (hTp : ∀ p, f.selfPrev node prev = some p → T p) (hTn : ∀ n, f.selfNext node next = some n → T n) :
    VStep S T f (f.addConsolidate node prev next).1 := by
  rw [addConsolidate_eq_old]; exact vstep_addConsolidateOld f node _ _ hTp hTn

theorem vstep_res {f g : Forest} {b : Bool} {r1 r2 : Res} (h : VStep S T f g) :
    VStep S T f (if b = true then (g, r1) else (g, r2)).1 := by split <;> exact h

/-! ### The moves -/

/-- The state after the old-site consolidation of a move of `c`. -/
def afterOldSite (f : Forest) (c : Nat) : Forest :=
  (f.removeConsolidate (f.prevSibling c) (f.nextSibling c)).1

theorem vstep_append (f : Forest) (p c : Nat) (hT1 : ∀ q, f.prevSibling c = some q → T q)
    (hT2 : ∀ q, (f.afterOldSite c).selfPrev c ((f.afterOldSite c).lastChild p) = some q → T q) :
    VStep S T f (f.append p c).1 := by
  unfold append
  split
  · exact VStep.refl f
  split
  · exact VStep.refl f
  have h1 := vstep_removeConsolidate (S := S) f (f.prevSibling c) (f.nextSibling c) hT1
  unfold afterOldSite at hT2
  cases hr : f.removeConsolidate (f.prevSibling c) (f.nextSibling c) with
  | mk f1 b1 =>
    rw [hr] at h1 hT2
    simp only at hT2 ⊢
    have h2 := vstep_addConsolidate (S := S) f1 c (f1.lastChild p) none hT2
      (fun _ h => by rw [selfNext_none] at h; cases h)
    cases ha : f1.addConsolidate c (f1.lastChild p) none with
    | mk f2 cc =>
      rw [ha] at h2
      simp only
      split
      · exact h1.trans h2
      · have h3 := (vstep_checked (S := S) (T := T) f2 p c).1
        cases hc : f2.checkedAppend p c with
        | mk f3 okb =>
          rw [hc] at h3
          exact vstep_res ((h1.trans h2).trans h3)

theorem vstep_mapPlace (f : Forest) (k : MapKind) (parent node : Nat) :
    VStep S T f (f.mapPlace k parent node).1 := by
  unfold mapPlace
  cases f.mapInsertionPoint k parent with
  | some ip =>
    simp only
    have := (vstep_checked (S := S) (T := T) f ip node).2.2.1
    cases hc : f.checkedInsertAfter ip node with
    | mk f' okb => rw [hc] at this; exact vstep_res this
  | none =>
    simp only
    have := (vstep_checked (S := S) (T := T) f parent node).2.1
    cases hc : f.checkedPrepend parent node with
    | mk f' okb => rw [hc] at this; exact vstep_res this

theorem vstep_prepend (f : Forest) (p c : Nat) (hT1 : ∀ q, f.prevSibling c = some q → T q)
    (hT2 : ∀ q, (f.afterOldSite c).selfNext c ((f.afterOldSite c).firstChild p) = some q → T q) :
    VStep S T f (f.prepend p c).1 := by
  unfold prepend
  split
  · exact VStep.refl f
  split
  · exact VStep.refl f
  have h1 := vstep_removeConsolidate (S := S) f (f.prevSibling c) (f.nextSibling c) hT1
  unfold afterOldSite at hT2
  cases hr : f.removeConsolidate (f.prevSibling c) (f.nextSibling c) with
  | mk f1 b1 =>
    rw [hr] at h1 hT2
    simp only at hT2 ⊢
    have h2 := vstep_addConsolidate (S := S) f1 c none (f1.firstChild p)
      (fun _ h => by rw [selfPrev_none] at h; cases h) hT2
    cases ha : f1.addConsolidate c none (f1.firstChild p) with
    | mk f2 cc =>
      rw [ha] at h2
      simp only
      split
      · exact h1.trans h2
      · cases f2.prependPoint p with
        | some ip =>
          simp only
          have h3 := (vstep_checked (S := S) (T := T) f2 ip c).2.2.1
          cases hc : f2.checkedInsertAfter ip c with
          | mk f3 okb => rw [hc] at h3; exact vstep_res ((h1.trans h2).trans h3)
        | none =>
          simp only
          have h3 := (vstep_checked (S := S) (T := T) f2 p c).2.1
          cases hc : f2.checkedPrepend p c with
          | mk f3 okb => rw [hc] at h3; exact vstep_res ((h1.trans h2).trans h3)

/-- The reference node `insert_after` really uses: the previous sibling of the moved node when the
    old-site consolidation has just merged the reference node away. -/
def insertAfterRef (f : Forest) (ref c : Nat) : Nat :=
  if ((f.removeConsolidate (f.prevSibling c) (f.nextSibling c)).2 && f.nextSibling c == some ref) = true
  then (f.prevSibling c).getD ref else ref

theorem vstep_insertAfter (f : Forest) (ref c : Nat) (hT1 : ∀ q, f.prevSibling c = some q → T q)
    (hT2 : T (f.insertAfterRef ref c))
    (hT3 : ∀ q, (f.afterOldSite c).selfNext c
      ((f.afterOldSite c).nextSibling (f.insertAfterRef ref c)) = some q → T q)
    (hT4 : f.insertAfterRef ref c = c → ∀ q, (f.afterOldSite c).prevSibling c = some q → T q) :
    VStep S T f (f.insertAfter ref c).1 := by
  unfold insertAfter
  split
  · exact VStep.refl f
  split
  · exact VStep.refl f
  split
  · exact VStep.refl f
  have h1 := vstep_removeConsolidate (S := S) f (f.prevSibling c) (f.nextSibling c) hT1
  unfold afterOldSite insertAfterRef at hT3 hT4
  unfold insertAfterRef at hT2
  cases hr : f.removeConsolidate (f.prevSibling c) (f.nextSibling c) with
  | mk f1 b1 =>
    rw [hr] at h1 hT2 hT3 hT4
    simp only [hr] at hT2 hT3 hT4 ⊢
    generalize (if (b1 && f.nextSibling c == some ref) = true then (f.prevSibling c).getD ref else ref) = ref'
      at hT2 hT3 hT4 ⊢
    have h2 := vstep_addConsolidate (S := S) f1 c (some ref') (f1.nextSibling ref')
      (fun q h => by
        unfold selfPrev at h
        split at h
        · rename_i e; exact hT4 (by simpa using e) q h
        · cases h; exact hT2) hT3
    cases ha : f1.addConsolidate c (some ref') (f1.nextSibling ref') with
    | mk f2 cc =>
      rw [ha] at h2
      try simp only
      split
      · exact h1.trans h2
      · have h3 := (vstep_checked (S := S) (T := T) f2 ref' c).2.2.1
        cases hc : f2.checkedInsertAfter ref' c with
        | mk f3 okb => rw [hc] at h3; exact vstep_res ((h1.trans h2).trans h3)

theorem vstep_insertBefore (f : Forest) (ref c : Nat) (hT1 : ∀ q, f.prevSibling c = some q → T q)
    (hT2 : T ref)
    (hT3 : ∀ q, (f.afterOldSite c).selfPrev c ((f.afterOldSite c).prevSibling ref) = some q → T q) :
    VStep S T f (f.insertBefore ref c).1 := by
  unfold insertBefore
  split
  · exact VStep.refl f
  split
  · exact VStep.refl f
  rename_i hsr
  have hrc : ref ≠ c := by
    unfold siblingReferenceCheck at hsr
    simp only [Bool.not_eq_true', Bool.not_eq_false, Bool.and_eq_true, bne_iff_ne] at hsr
    exact hsr.1
  split
  · exact VStep.refl f
  have h1 := vstep_removeConsolidate (S := S) f (f.prevSibling c) (f.nextSibling c) hT1
  unfold afterOldSite at hT3
  cases hr : f.removeConsolidate (f.prevSibling c) (f.nextSibling c) with
  | mk f1 b1 =>
    rw [hr] at h1 hT3
    simp only at hT3 ⊢
    have h2 := vstep_addConsolidate (S := S) f1 c (f1.prevSibling ref) (some ref) hT3
      (fun q h => by
        rw [selfNext_of_ne (by simpa using hrc)] at h
        cases h; exact hT2)
    cases ha : f1.addConsolidate c (f1.prevSibling ref) (some ref) with
    | mk f2 cc =>
      rw [ha] at h2
      simp only
      split
      · exact h1.trans h2
      · have h3 := (vstep_checked (S := S) (T := T) f2 ref c).2.2.2
        cases hc : f2.checkedInsertBefore ref c with
        | mk f3 okb => rw [hc] at h3; exact vstep_res ((h1.trans h2).trans h3)

theorem vstep_detach (f : Forest) (node : Nat) (hT : ∀ q, f.prevSibling node = some q → T q) :
    VStep S T f (f.detach node).1 :=
  (vstep_detachRaw f node).trans (vstep_removeConsolidate _ _ _ hT)

theorem vstep_remove (f : Forest) (node : Nat) (hT : ∀ q, f.prevSibling node = some q → T q) :
    VStep S T f (f.remove node).1 :=
  (vstep_dropSubtree f node).trans (vstep_removeConsolidate _ _ _ hT)

end Forest
end XotModel
