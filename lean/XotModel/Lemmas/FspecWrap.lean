/-
  FspecWrap — C05 for `element_wrap`: exactly one new element (handle `f.next`) appears at the
  place of the node, with the node as its only child.
-/
import XotModel.Lemmas.FspecSurvivor
import XotModel.Lemmas.FspecDetach

namespace XotModel
open HTree Spec

theorem Forest.ext' {a b : Forest} (h1 : a.roots = b.roots) (h2 : a.next = b.next)
    (h3 : a.consolidation = b.consolidation) (h4 : a.everOff = b.everOff) (h5 : a.corrupt = b.corrupt) :
    a = b := by
  cases a; cases b; simp_all

/-! ### A forest with one more parentless tree -/

namespace Forest

theorem addRoot_roots (X : Forest) (e : HTree) : (X.addRoot e).roots = X.roots ++ [e] := rfl

theorem addRoot_allHandles (X : Forest) (e : HTree) : (X.addRoot e).allHandles = X.allHandles ++ handles e := by
  unfold Forest.allHandles
  rw [addRoot_roots, fs_handlesList_append, handlesList_cons, handlesList_nil, List.append_nil]

theorem addRoot_get_left {X : Forest} {x : Nat} {u : HTree} (e : HTree) (h : X.get? x = some u) :
    (X.addRoot e).get? x = some u :=
  findList?_append_left X.roots [e] h

theorem addRoot_get_new {X : Forest} {x : Nat} (e : HTree) (h : x ∉ X.allHandles) :
    (X.addRoot e).get? x = find? x e := by
  rw [Forest.get?_eq, addRoot_roots, findList?_append, findList?_eq_none X.roots h, findList?_cons, findList?_nil]
  cases find? x e <;> rfl

theorem addRoot_site {X : Forest} {q : Nat} {v : Value} {L : List HTree} (e : HTree) (s : SiteAt X q v L)
    (nd : (X.addRoot e).allHandles.Nodup) : SiteAt (X.addRoot e) q v L :=
  ⟨nd, addRoot_get_left e s.kids⟩

theorem addRoot_isRoot (X : Forest) (e : HTree) : (X.addRoot e).isRoot e.handle = true := by
  unfold Forest.isRoot
  rw [addRoot_roots, List.any_append]
  simp

theorem addRoot_no_ctx {X : Forest} (e : HTree) (nd : (X.addRoot e).allHandles.Nodup) :
    (X.addRoot e).ctx? e.handle = none :=
  ctx_none_of_root nd (addRoot_isRoot X e)

/-- An edit of a child list of the old part. -/
theorem addRoot_editAt_old (X : Forest) (e : HTree) (q : Nat) (g : List HTree → List HTree) (h : q ∉ handles e) :
    (X.addRoot e).editAt (some q) g = (X.editAt (some q) g).addRoot e := by
  simp only [Forest.editAt, Forest.addRoot, List.map_append, List.map_cons, List.map_nil]
  rw [editAt_of_not_mem e h]

/-- An edit of a child list inside the new tree. -/
theorem addRoot_editAt_new (X : Forest) (e : HTree) (q : Nat) (g : List HTree → List HTree) (h : q ∉ X.allHandles) :
    (X.addRoot e).editAt (some q) g = X.addRoot (HTree.editAt q g e) := by
  simp only [Forest.editAt, Forest.addRoot, List.map_append, List.map_cons, List.map_nil]
  rw [map_editAt_of_not_mem X.roots h]

/-- Dropping the new tree again. -/
theorem addRoot_drop (X : Forest) (e : HTree) (h : e.handle ∉ X.allHandles) :
    (X.addRoot e).editAt none (dropTop e.handle) = X := by
  refine Forest.ext' ?_ rfl rfl rfl rfl
  show dropTop e.handle (X.roots ++ [e]) = X.roots
  rw [dropTop_append, dropTop_cons, if_pos rfl, dropTop_nil, List.append_nil]
  exact dropTop_of_not_top X.roots (fun k hk hke => h (hke ▸ handle_mem_handlesList hk))

end Forest

/-! ### The three moves of `element_wrap`, each on a parentless tree -/

theorem textOf_of_value {Z : Forest} {x : Nat} {u : HTree} (h : Z.get? x = some u) (hv : u.value.isText = false) :
    Z.textOf x = none := by
  rw [Forest.textOf_of_get h]
  cases hd : textData u with
  | none => rfl
  | some s => rw [isText_iff_textData.2 ⟨s, hd⟩] at hv; cases hv

/-- `append(wrapper, node)` when the wrapper has no children and the node is a parentless tree. -/
theorem append_fresh {Z : Forest} {w n : Nat} {vw : Value} {t : HTree} (nd : Z.allHandles.Nodup)
    (hgw : Z.get? w = some (.node w vw [])) (hgn : Z.get? n = some t) (hroot : Z.isRoot n = true)
    (hok : (Z.append w n).2 = .ok) :
    (Z.append w n).1 = (Z.editAt none (dropTop n)).editAt (some w) (insertLast t) := by
  have hno := Forest.ctx_none_of_root nd hroot
  have hsc : Z.structureCheck (some w) n = true := by
    cases h : Z.structureCheck (some w) n with
    | true => rfl
    | false => rw [Forest.append_unfold] at hok; simp [h] at hok
  have hlast : Z.lastChild w = none := by rw [Forest.lastChild_of_get hgw]; rfl
  rw [Forest.append_unfold] at hok ⊢
  simp only [hsc, hlast, Bool.not_true, Bool.false_eq_true, if_false, Forest.prevSibling_of_no_ctx hno,
    Forest.removeConsolidate_none_left] at hok ⊢
  have hadd : Z.addConsolidate n none none = (Z, false) :=
    Forest.addConsolidate_none (fun a h => by cases h) (fun a h => by cases h)
  have hbeq : ((none : Option Nat) == some n) = false := rfl
  simp only [hbeq, hadd, Bool.false_eq_true, if_false] at hok ⊢
  have hr3 : (Z.checkedAppend w n).2 = true := by
    cases h : (Z.checkedAppend w n).2 with
    | true => rfl
    | false => rw [h] at hok; simp at hok
  rw [hr3]
  simp only [if_true]
  rw [Forest.checkedAppend_ok nd hgn hr3, Forest.parent?_of_no_ctx hno]

/-- The indextree insertion of the parentless tree `w` after the child `a` of `p`. -/
theorem place_root_after {Z : Forest} {w p : Nat} {v : Value} {l' : List HTree} {a : HTree} {r : List HTree}
    {wt : HTree} (sq : SiteAt Z p v (l' ++ a :: r)) (hgw : Z.get? w = some wt) (hroot : Z.isRoot w = true)
    (hq : p ∉ handles wt) (hne : a.handle ≠ w) :
    Z.checkedInsertAfter a.handle w =
      ((Z.editAt none (dropTop w)).editAt (some p) (insertAfterTop a.handle wt), true) := by
  have hno := Forest.ctx_none_of_root sq.nd hroot
  rw [Forest.checkedInsertAfter_ok hgw sq hq hne, Forest.parent?_of_no_ctx hno]
  have s' := sq.dropRoot hgw hq
  rw [Forest.placeAfter_of_ctx wt s'.nd s'.ctx]

/-- `insert_after(previous, wrapper)` for a parentless wrapper that is not a text node. -/
theorem insertAfter_root {Z : Forest} {w p : Nat} {v : Value} {l' : List HTree} {a : HTree} {r : List HTree}
    {wt : HTree} (sq : SiteAt Z p v (l' ++ a :: r)) (hgw : Z.get? w = some wt) (hroot : Z.isRoot w = true)
    (hq : p ∉ handles wt) (hne : a.handle ≠ w) (hr : ∀ k ∈ r, k.handle ≠ w) (hnt : wt.value.isText = false)
    (hok : (Z.insertAfter a.handle w).2 = .ok) :
    (Z.insertAfter a.handle w).1 =
      (Z.editAt none (dropTop w)).editAt (some p) (insertAfterTop a.handle wt) := by
  have hno := Forest.ctx_none_of_root sq.nd hroot
  have hsc : Z.structureCheck (Z.parent? a.handle) w = true := by
    cases h : Z.structureCheck (Z.parent? a.handle) w with
    | true => rfl
    | false => rw [insertAfter_unfold] at hok; simp [h] at hok
  have hsr : Z.siblingReferenceCheck a.handle w = true := by
    cases h : Z.siblingReferenceCheck a.handle w with
    | true => rfl
    | false => rw [insertAfter_unfold] at hok; simp [hsc, h] at hok
  have hnx : (Z.nextSibling a.handle == some w) = false := by
    cases h : Z.nextSibling a.handle == some w with
    | false => rfl
    | true =>
      rw [Forest.nextSibling_of_ctx sq.ctx] at h
      obtain ⟨kb, B2, e, ekb, _⟩ := nextOf_eq_some (by simpa using h)
      exact absurd ekb (hr kb (by rw [e]; exact List.mem_cons_self))
  rw [insertAfter_unfold]
  simp only [hsc, hsr, hnx, Bool.not_true, Bool.false_eq_true, if_false, Forest.prevSibling_of_no_ctx hno,
    Forest.removeConsolidate_none_left, Bool.false_and]
  unfold insertAfterTail
  rw [Forest.addConsolidate_not_text (textOf_of_value hgw hnt)]
  simp only [Bool.false_eq_true, if_false]
  rw [place_root_after sq hgw hroot hq hne]
  simp only [if_true]

/-- `prepend(parent, wrapper)` for a parentless wrapper that is not a text node. -/
theorem prepend_root {Z : Forest} {w p : Nat} {v : Value} {L : List HTree} {wt : HTree}
    (sq : SiteAt Z p v L) (hgw : Z.get? w = some wt) (hroot : Z.isRoot w = true)
    (hq : p ∉ handles wt) (hL : ∀ k ∈ L, k.handle ≠ w) (hnt : wt.value.isText = false)
    (hok : (Z.prepend p w).2 = .ok) :
    (Z.prepend p w).1 = (Z.editAt none (dropTop w)).editAt (some p) (insertFirstNormal wt) := by
  have hno := Forest.ctx_none_of_root sq.nd hroot
  have hsc : Z.structureCheck (some p) w = true := by
    cases h : Z.structureCheck (some p) w with
    | true => rfl
    | false => rw [prepend_unfold] at hok; simp [h] at hok
  have hfc : (Z.firstChild p == some w) = false := by
    cases h : Z.firstChild p == some w with
    | false => rfl
    | true =>
      rw [Forest.firstChild_of_get sq.kids] at h
      cases hd : (L.dropWhile abn).head? with
      | none => rw [hd] at h; simp at h
      | some k =>
        rw [hd] at h
        have hk : k ∈ L := (List.dropWhile_sublist abn).subset (List.mem_of_head? hd)
        exact absurd (by simpa using h) (hL k hk)
  have s' := sq.dropRoot hgw hq
  rw [prepend_unfold] at hok ⊢
  simp only [hsc, hfc, Bool.not_true, Bool.false_eq_true, if_false, Forest.prevSibling_of_no_ctx hno,
    Forest.removeConsolidate_none_left] at hok ⊢
  unfold prependTail at hok ⊢
  rw [Forest.addConsolidate_not_text (textOf_of_value hgw hnt)] at hok ⊢
  simp only [Bool.false_eq_true, if_false] at hok ⊢
  rw [Forest.prependPoint_of_get sq.kids] at hok ⊢
  cases hl : (L.takeWhile abn).getLast? with
  | none =>
    rw [hl] at hok
    simp only [Option.map_none] at hok ⊢
    have hr3 : (Z.checkedPrepend p w).2 = true := by
      cases h : (Z.checkedPrepend p w).2 with
      | true => rfl
      | false => rw [h] at hok; simp at hok
    rw [hr3]
    simp only [if_true]
    rw [Forest.checkedPrepend_ok sq.nd hgw hr3, Forest.parent?_of_no_ctx hno]
    apply s'.congr
    have hnil : L.takeWhile abn = [] := List.getLast?_eq_none_iff.1 hl
    have hdw : L.dropWhile abn = L := by
      have := List.takeWhile_append_dropWhile (p := abn) (l := L)
      rw [hnil] at this
      simpa using this
    rw [insertFirstNormal_eq, hnil, hdw]
    rfl
  | some kip =>
    simp only [Option.map_some]
    obtain ⟨Ab2, eAb⟩ := List.getLast?_eq_some_iff.1 hl
    have hLs : L = Ab2 ++ kip :: L.dropWhile abn := by
      calc L = L.takeWhile abn ++ L.dropWhile abn := (List.takeWhile_append_dropWhile).symm
        _ = Ab2 ++ kip :: L.dropWhile abn := by rw [eAb]; simp
    have sq' : SiteAt Z p v (Ab2 ++ kip :: L.dropWhile abn) := hLs ▸ sq
    have hkw : kip.handle ≠ w := hL kip (by rw [hLs]; simp)
    rw [place_root_after sq' hgw hroot hq hkw]
    simp only [if_true]
    apply s'.congr
    obtain ⟨ndL, _⟩ := sq'.nodupKids
    rw [insertFirstNormal_eq, eAb]
    conv => lhs; rw [hLs]
    rw [insertAfterTop_mid wt (tops_ne_of_nodup ndL).1]
    simp

/-! ### `element_wrap` unfolded -/

/-- The store after `new_element`, with the counter already advanced. -/
def Forest.bump (f : Forest) : Forest := { f with next := f.next + 1 }

theorem Forest.newElement_eq (f : Forest) (name : Nat) :
    f.newElement name = (f.bump.addRoot (.node f.next (.element name) []), f.next) := rfl

theorem elementWrap_guards {f : Forest} {n name : Nat} (hok : (f.elementWrap n name).2.1 = .ok) :
    f.isDocument n = false ∧ f.isNormalNode n = true ∧
      (f.hasDocumentParent n && !f.isDocumentElement n) = false := by
  unfold Forest.elementWrap at hok
  cases h1 : f.isDocument n with
  | true => rw [h1] at hok; simp at hok
  | false =>
    cases h2 : f.isNormalNode n with
    | false => rw [h1, h2] at hok; simp at hok
    | true =>
      cases h3 : (f.hasDocumentParent n && !f.isDocumentElement n) with
      | true => rw [h1, h2, h3] at hok; simp at hok
      | false => exact ⟨rfl, rfl, rfl⟩

theorem elementWrap_root_eq {f : Forest} {n name : Nat} (h1 : f.isDocument n = false) (h2 : f.isNormalNode n = true)
    (h3 : (f.hasDocumentParent n && !f.isDocumentElement n) = false) (hp : f.parent? n = none) :
    f.elementWrap n name =
      (((f.bump.addRoot (.node f.next (.element name) [])).append f.next n).1,
       ((f.bump.addRoot (.node f.next (.element name) [])).append f.next n).2, f.next) := by
  unfold Forest.elementWrap
  rw [h1, h2, h3, hp]
  simp only [Bool.false_eq_true, if_false, Bool.not_true, Forest.newElement_eq]

/-- The store of `element_wrap` after `append(wrapper, node)` (node with a parent). -/
def Forest.wrapMid (f : Forest) (n name : Nat) : Forest × Res :=
  ((f.bump.addRoot (.node f.next (.element name) [])).detachRaw n).append f.next n

theorem elementWrap_kid_ok {f : Forest} {n name p : Nat} (hp : f.parent? n = some p)
    (hok : (f.elementWrap n name).2.1 = .ok) : (f.wrapMid n name).2 = .ok := by
  obtain ⟨h1, h2, h3⟩ := elementWrap_guards hok
  unfold Forest.elementWrap at hok
  rw [h1, h2, h3, hp] at hok
  simp only [Bool.false_eq_true, if_false, Bool.not_true, Forest.newElement_eq] at hok
  unfold Forest.wrapMid
  generalize ((f.bump.addRoot (.node f.next (.element name) [])).detachRaw n).append f.next n = x at hok ⊢
  obtain ⟨f3, r3⟩ := x
  cases r3 <;> simp_all

theorem elementWrap_kid_after {f : Forest} {n name p q : Nat} (hp : f.parent? n = some p)
    (hprev : f.prevSibling n = some q) (hok : (f.elementWrap n name).2.1 = .ok) :
    f.elementWrap n name =
      (((f.wrapMid n name).1.insertAfter q f.next).1, ((f.wrapMid n name).1.insertAfter q f.next).2, f.next) := by
  have hmid := elementWrap_kid_ok hp hok
  obtain ⟨h1, h2, h3⟩ := elementWrap_guards hok
  unfold Forest.elementWrap
  rw [h1, h2, h3, hp, hprev]
  simp only [Bool.false_eq_true, if_false, Bool.not_true, Forest.newElement_eq]
  unfold Forest.wrapMid at hmid ⊢
  generalize ((f.bump.addRoot (.node f.next (.element name) [])).detachRaw n).append f.next n = x at hmid ⊢
  obtain ⟨f3, r3⟩ := x
  simp only at hmid
  subst hmid
  rfl

theorem elementWrap_kid_first {f : Forest} {n name p : Nat} (hp : f.parent? n = some p)
    (hprev : f.prevSibling n = none) (hok : (f.elementWrap n name).2.1 = .ok) :
    f.elementWrap n name =
      (((f.wrapMid n name).1.prepend p f.next).1, ((f.wrapMid n name).1.prepend p f.next).2, f.next) := by
  have hmid := elementWrap_kid_ok hp hok
  obtain ⟨h1, h2, h3⟩ := elementWrap_guards hok
  unfold Forest.elementWrap
  rw [h1, h2, h3, hp, hprev]
  simp only [Bool.false_eq_true, if_false, Bool.not_true, Forest.newElement_eq]
  unfold Forest.wrapMid at hmid ⊢
  generalize ((f.bump.addRoot (.node f.next (.element name) [])).detachRaw n).append f.next n = x at hmid ⊢
  obtain ⟨f3, r3⟩ := x
  simp only at hmid
  subst hmid
  rfl

/-! ### Facts about the store after `new_element` -/

theorem get_of_isNormalNode {f : Forest} {n : Nat} (h : f.isNormalNode n = true) :
    ∃ t, f.get? n = some t ∧ t.value.isNormal = true := by
  unfold Forest.isNormalNode Forest.value? at h
  cases hg : f.get? n with
  | none => rw [hg] at h; simp at h
  | some t => rw [hg] at h; exact ⟨t, rfl, by simpa using h⟩

theorem isRoot_addRoot_left {X : Forest} {x : Nat} (e : HTree) (h : X.isRoot x = true) :
    (X.addRoot e).isRoot x = true := by
  unfold Forest.isRoot at h ⊢
  rw [Forest.addRoot_roots, List.any_append, h]
  rfl

theorem ctx_none_of_parent_none {f : Forest} {n : Nat} (h : f.parent? n = none) : f.ctx? n = none := by
  unfold Forest.parent? at h
  cases hc : f.ctx? n with
  | none => rfl
  | some c => rw [hc] at h; cases h

/-- **wrap**, for a parentless tree: the wrapper is a new parentless tree (listed last). -/
theorem wrap_spec_root {f : Forest} {n name : Nat} (inv : f.Inv) (hpar : f.parent? n = none)
    (hok : (f.elementWrap n name).2.1 = .ok) :
    (f.elementWrap n name).1 = specWrap n name f ∧ (f.elementWrap n name).2.2 = f.next := by
  obtain ⟨h1, h2, h3⟩ := elementWrap_guards hok
  obtain ⟨t, hg, _⟩ := get_of_isNormalNode h2
  have nd := inv.nodup
  have hno := ctx_none_of_parent_none hpar
  have hroot : f.isRoot n = true := by
    rcases Forest.root_or_ctx hg with h | ⟨c, hc⟩
    · exact h
    · rw [hno] at hc; cases hc
  have hw : f.next ∉ f.bump.allHandles := fun h => Nat.lt_irrefl _ (inv.below _ h)
  have hnw : n ≠ f.next := fun e => hw (e ▸ mem_of_findList?_some hg)
  have ndZ : (f.bump.addRoot (.node f.next (.element name) [])).allHandles.Nodup := by
    rw [Forest.addRoot_allHandles, handles_node, handlesList_nil]
    apply List.nodup_append.2
    refine ⟨nd, by simp, ?_⟩
    intro a ha b hb e
    simp only [List.mem_singleton] at hb
    exact hw (hb ▸ e ▸ ha)
  have hgw : (f.bump.addRoot (.node f.next (.element name) [])).get? f.next =
      some (.node f.next (.element name) []) := by
    rw [Forest.addRoot_get_new _ hw, find?_node, if_pos rfl]
  have hgn : (f.bump.addRoot (.node f.next (.element name) [])).get? n = some t :=
    Forest.addRoot_get_left (X := f.bump) _ hg
  have hrootZ : (f.bump.addRoot (.node f.next (.element name) [])).isRoot n = true :=
    isRoot_addRoot_left (X := f.bump) _ hroot
  rw [elementWrap_root_eq h1 h2 h3 hpar] at hok ⊢
  refine ⟨?_, rfl⟩
  simp only at hok ⊢
  rw [append_fresh ndZ hgw hgn hrootZ hok]
  unfold specWrap
  rw [hg, hpar]
  simp only
  refine Forest.ext' ?_ rfl rfl rfl rfl
  show (dropTop n (f.roots ++ [.node f.next (.element name) []])).map (HTree.editAt f.next (insertLast t)) =
    dropTop n f.roots ++ [.node f.next (.element name) [t]]
  have hsub : f.next ∉ handlesList (dropTop n f.roots) :=
    fun h => hw ((handlesList_dropTop_sublist n f.roots).subset h)
  rw [dropTop_append, dropTop_cons, if_neg (fun (e : (HTree.node f.next (Value.element name) []).handle = n) => hnw e.symm), dropTop_nil, List.map_append,
    map_editAt_of_not_mem _ hsub, List.map_cons, List.map_nil, editAt_node, if_pos rfl]
  rfl

/-! ### The node has a parent -/

/-- The new element before / after it received the node. -/
def wrapNew (f : Forest) (name : Nat) : HTree := .node f.next (.element name) []
def wrapTree (f : Forest) (name : Nat) (t : HTree) : HTree := .node f.next (.element name) [t]

/-- The store with the node cut out of its parent's child list. -/
def cutSite (f : Forest) (p n : Nat) : Forest := f.bump.editAt (some p) (replaceTop n (fun _ => []))

/-- What is known after `new_element`, the raw detach and `append(wrapper, node)`. -/
structure WrapMid (f : Forest) (p : Nat) (v : Value) (l : List HTree) (t : HTree) (r : List HTree) (name : Nat) :
    Prop where
  mid : (f.wrapMid t.handle name).1 = (cutSite f p t.handle).addRoot (wrapTree f name t)
  site : SiteAt ((cutSite f p t.handle).addRoot (wrapTree f name t)) p v (l ++ r)
  getw : ((cutSite f p t.handle).addRoot (wrapTree f name t)).get? f.next = some (wrapTree f name t)
  hq : p ∉ handles (wrapTree f name t)
  fresh : ∀ k ∈ l ++ r, k.handle ≠ f.next
  drop : ((cutSite f p t.handle).addRoot (wrapTree f name t)).editAt none (dropTop f.next) = cutSite f p t.handle

theorem wrapMid_spec {f : Forest} {p : Nat} {v : Value} {l : List HTree} {t : HTree} {r : List HTree} {name : Nat}
    (inv : f.Inv) (s : SiteAt f p v (l ++ t :: r)) (hmid : (f.wrapMid t.handle name).2 = .ok) :
    WrapMid f p v l t r name := by
  have nd := inv.nodup
  have sF : SiteAt f.bump p v (l ++ t :: r) := ⟨s.nd, s.kids⟩
  obtain ⟨ndL, hpL⟩ := s.nodupKids
  obtain ⟨tl, tr⟩ := tops_ne_of_nodup ndL
  have hgL : replaceTop t.handle (fun _ => []) (l ++ t :: r) = l ++ r := by
    rw [replaceTop_mid rfl tl]; simp
  have hw : f.next ∉ f.bump.allHandles := fun h => Nat.lt_irrefl _ (inv.below _ h)
  have hpin : p ∈ f.allHandles := mem_of_findList?_some s.kids
  have hpw : p ≠ f.next := fun e => hw (e ▸ hpin)
  have hpt : p ∉ handles t := fun h => hpL (by
    rw [fs_handlesList_append, handlesList_cons]
    exact List.mem_append_right _ (List.mem_append_left _ h))
  -- the cut
  have sc : SiteAt (cutSite f p t.handle) p v (l ++ r) := by
    have := sF.edit (replaceTop t.handle (fun _ => [])) (by
      rw [hgL]
      simp only [fs_handlesList_append, handlesList_cons]
      exact (List.Sublist.refl _).append (List.sublist_append_right _ _))
    rw [hgL] at this
    exact this
  have hperm : ((cutSite f p t.handle).allHandles ++ handles t).Perm f.allHandles :=
    handlesList_editAt_perm (g := replaceTop t.handle (fun _ => [])) (E := handles t)
      (by
        rw [hgL]
        simp only [fs_handlesList_append, handlesList_cons]
        rw [List.append_assoc]
        exact List.Perm.append_left _ List.perm_append_comm) f.roots nd s.kids
  have hcnt : ∀ z, (cutSite f p t.handle).allHandles.count z + (handles t).count z = f.allHandles.count z := by
    intro z
    rw [← List.count_append]
    exact hperm.count_eq z
  have hle : ∀ z, f.allHandles.count z ≤ 1 := List.nodup_iff_count.1 nd
  have hwc : f.next ∉ (cutSite f p t.handle).allHandles := fun h => hw (hperm.subset (List.mem_append_left _ h))
  have hwt : f.next ∉ handles t := fun h => hw (hperm.subset (List.mem_append_right _ h))
  have hnc : t.handle ∉ (cutSite f p t.handle).allHandles := by
    intro h
    have h1 := List.count_pos_iff.2 h
    have h2 := List.count_pos_iff.2 (fs_handle_mem_handles t)
    have := hcnt t.handle
    have := hle t.handle
    omega
  have hnw : t.handle ≠ f.next := fun e => hwt (e ▸ fs_handle_mem_handles t)
  -- after `new_element`
  have ndZ1 : (f.bump.addRoot (wrapNew f name)).allHandles.Nodup := by
    rw [Forest.addRoot_allHandles, wrapNew, handles_node, handlesList_nil]
    apply List.nodup_append.2
    refine ⟨nd, by simp, ?_⟩
    intro a ha b hb e
    simp only [List.mem_singleton] at hb
    exact hw (hb ▸ e ▸ ha)
  have s1 : SiteAt (f.bump.addRoot (wrapNew f name)) p v (l ++ t :: r) := Forest.addRoot_site _ sF ndZ1
  have hpw0 : p ∉ handles (wrapNew f name) := by
    rw [wrapNew, handles_node, handlesList_nil]; simpa using hpw
  -- the raw detach
  have hdet : (f.bump.addRoot (wrapNew f name)).detachRaw t.handle =
      ((cutSite f p t.handle).addRoot (wrapNew f name)).addRoot t := by
    unfold Forest.detachRaw
    rw [Forest.cut_of_ctx s1.nd s1.ctx]
    simp only
    rw [Forest.addRoot_editAt_old _ _ _ _ hpw0]
    rfl
  have hZ1h : ((cutSite f p t.handle).addRoot (wrapNew f name)).allHandles =
      (cutSite f p t.handle).allHandles ++ [f.next] := by
    rw [Forest.addRoot_allHandles, wrapNew, handles_node, handlesList_nil]
  have nd2 : (((cutSite f p t.handle).addRoot (wrapNew f name)).addRoot t).allHandles.Nodup := by
    rw [Forest.addRoot_allHandles, hZ1h, List.nodup_iff_count]
    intro z
    simp only [List.count_append]
    have := hcnt z
    have := hle z
    by_cases hz : z = f.next
    · subst hz
      have : f.allHandles.count f.next = 0 := List.count_eq_zero.2 hw
      simp only [List.count_cons_self, List.count_nil]
      omega
    · have : [f.next].count z = 0 := List.count_eq_zero.2 (by simpa using hz)
      omega
  have hgw2 : (((cutSite f p t.handle).addRoot (wrapNew f name)).addRoot t).get? f.next =
      some (.node f.next (.element name) []) := by
    apply Forest.addRoot_get_left
    rw [Forest.addRoot_get_new _ hwc, wrapNew, find?_node, if_pos rfl]
  have hnZ : t.handle ∉ ((cutSite f p t.handle).addRoot (wrapNew f name)).allHandles := by
    rw [hZ1h]
    intro h
    cases List.mem_append.1 h with
    | inl h => exact hnc h
    | inr h => exact hnw (by simpa using h)
  have hgn2 : (((cutSite f p t.handle).addRoot (wrapNew f name)).addRoot t).get? t.handle = some t := by
    rw [Forest.addRoot_get_new _ hnZ, fs_find?_self]
  unfold Forest.wrapMid at hmid
  have hmid' : (f.wrapMid t.handle name).1 =
      (cutSite f p t.handle).addRoot (wrapTree f name t) := by
    unfold Forest.wrapMid
    change ((f.bump.addRoot (wrapNew f name)).detachRaw t.handle |>.append f.next t.handle).2 = .ok at hmid
    change ((f.bump.addRoot (wrapNew f name)).detachRaw t.handle |>.append f.next t.handle).1 = _
    rw [hdet] at hmid ⊢
    rw [append_fresh nd2 hgw2 hgn2 (Forest.addRoot_isRoot _ t) hmid, Forest.addRoot_drop _ t hnZ,
      Forest.addRoot_editAt_new _ _ _ _ hwc, wrapNew, editAt_node, if_pos rfl]
    rfl
  have nd3 : ((cutSite f p t.handle).addRoot (wrapTree f name t)).allHandles.Nodup := by
    rw [Forest.addRoot_allHandles, wrapTree, handles_node, handlesList_cons, handlesList_nil, List.append_nil,
      List.nodup_iff_count]
    intro z
    simp only [List.count_append, List.count_cons]
    have := hcnt z
    have := hle z
    by_cases hz : z = f.next
    · subst hz
      have : f.allHandles.count f.next = 0 := List.count_eq_zero.2 hw
      simp only [beq_self_eq_true, if_true]
      omega
    · have : (f.next == z) = false := by simpa using (fun e => hz e.symm)
      simp only [this, Bool.false_eq_true, if_false]
      omega
  refine ⟨hmid', Forest.addRoot_site _ sc nd3, ?_, ?_, ?_, ?_⟩
  · rw [Forest.addRoot_get_new _ hwc, wrapTree, find?_node, if_pos rfl]
  · rw [wrapTree, handles_node, handlesList_cons, handlesList_nil, List.append_nil]
    intro h
    cases List.mem_cons.1 h with
    | inl h => exact hpw h
    | inr h => exact hpt h
  · intro k hk e
    apply hw
    have hk' : k ∈ l ++ t :: r := by
      cases List.mem_append.1 hk with
      | inl h => exact List.mem_append_left _ h
      | inr h => exact List.mem_append_right _ (List.mem_cons_of_mem _ h)
    have : k.handle ∈ handlesList (l ++ t :: r) := handle_mem_handlesList hk'
    rw [← e]
    exact (findList?_some f.roots _ s.kids).2 _ (by rw [handles_node]; exact List.mem_cons_of_mem _ this)
  · exact Forest.addRoot_drop _ (wrapTree f name t) hwc

/-! ### The position of the node among its siblings -/

theorem rank_le_of_ordered : ∀ (l : List HTree) {x : HTree} {rest : List HTree},
    kidsOrdered (l ++ x :: rest) = true → ∀ k ∈ l, k.value.category.rank ≤ x.value.category.rank
  | [], _, _, _ => by intro k hk; cases hk
  | a :: l, x, rest, h => by
    intro k hk
    cases List.mem_cons.1 hk with
    | inl e => rw [e]; exact kidsOrdered_rank_le _ h x (by simp)
    | inr e => exact rank_le_of_ordered l (kidsOrdered_tail h) k e

theorem insertFirstNormal_split (wt : HTree) : ∀ (l r : List HTree), (∀ k ∈ l, k.value.isNormal = false) →
    (∀ k ∈ r, k.value.isNormal = true) → insertFirstNormal wt (l ++ r) = l ++ wt :: r
  | [], [], _, _ => rfl
  | [], k :: r, _, hr => by simp [insertFirstNormal, hr k]
  | a :: l, r, hl, hr => by
    simp only [List.cons_append, insertFirstNormal, hl a List.mem_cons_self, Bool.false_eq_true, if_false]
    rw [insertFirstNormal_split wt l r (fun k hk => hl k (List.mem_cons_of_mem _ hk)) hr]

theorem isNormal_iff_rank_w (v : Value) : v.isNormal = true ↔ v.category.rank = 2 := by
  rw [rank_normal]; simp [Value.isNormal]

/-- A normal node without a previous sibling (of its category) stands right behind the attribute and
    namespace nodes. -/
theorem split_of_no_prev {l : List HTree} {t : HTree} {r : List HTree} (ho : kidsOrdered (l ++ t :: r) = true)
    (ht : t.value.isNormal = true) (hp : prevOf l t = none) :
    (∀ k ∈ l, k.value.isNormal = false) ∧ (∀ k ∈ r, k.value.isNormal = true) := by
  have ht2 : t.value.category.rank = 2 := (isNormal_iff_rank_w _).1 ht
  constructor
  · cases hl : l.getLast? with
    | none =>
      have : l = [] := List.getLast?_eq_none_iff.1 hl
      subst this
      intro k hk; cases hk
    | some a =>
      obtain ⟨l', el⟩ := List.getLast?_eq_some_iff.1 hl
      unfold prevOf at hp
      rw [hl] at hp
      simp only at hp
      have hac : a.value.category ≠ t.value.category := by
        intro e
        rw [e] at hp
        simp at hp
      have ha2 : a.value.category.rank ≠ 2 := by
        intro e
        apply hac
        rw [rank_normal.1 e, rank_normal.1 ht2]
      subst el
      have ho' : kidsOrdered (l' ++ a :: (t :: r)) = true := by simpa using ho
      intro k hk
      have hka : k.value.category.rank ≤ a.value.category.rank := by
        cases List.mem_append.1 hk with
        | inl h => exact rank_le_of_ordered l' ho' k h
        | inr h => simp only [List.mem_singleton] at h; rw [h]; exact Nat.le_refl _
      have := rank_le_two a.value.category
      cases hn : k.value.isNormal with
      | false => rfl
      | true => have := (isNormal_iff_rank_w _).1 hn; omega
  · intro k hk
    have := kidsOrdered_rank_le r (kidsOrdered_drop l ho) k hk
    have := rank_le_two k.value.category
    exact (isNormal_iff_rank_w _).2 (by omega)

/-- **wrap**, for a node with a parent: the wrapper takes the node's place in the child list. -/
theorem wrap_spec_kid {f : Forest} {n name p : Nat} (inv : f.Inv) (hpar : f.parent? n = some p)
    (hok : (f.elementWrap n name).2.1 = .ok) :
    (f.elementWrap n name).1 = specWrap n name f ∧ (f.elementWrap n name).2.2 = f.next := by
  have nd := inv.nodup
  obtain ⟨_, h2, _⟩ := elementWrap_guards hok
  obtain ⟨t0, hg, hnorm⟩ := get_of_isNormalNode h2
  cases hc : f.ctx? n with
  | none => rw [Forest.parent?_of_no_ctx hc] at hpar; cases hpar
  | some c =>
  obtain ⟨e0, v, s⟩ := SiteAt.of_ctx nd hc
  have hself : c.self = t0 := by
    have := Forest.get?_of_ctx nd hc
    rw [hg] at this
    exact (Option.some.inj this).symm
  have hpp : c.parent = p := by
    rw [Forest.parent?_of_ctx hc] at hpar
    exact Option.some.inj hpar
  have hprev := Forest.prevSibling_of_ctx hc
  obtain ⟨p', l, t, r⟩ := c
  simp only at e0 s hself hpp hprev
  subst hself hpp e0
  have hmid := elementWrap_kid_ok hpar hok
  have W := wrapMid_spec inv s hmid
  have sF : SiteAt f.bump p' v (l ++ t :: r) := ⟨s.nd, s.kids⟩
  obtain ⟨ndL, _⟩ := s.nodupKids
  obtain ⟨tl, _⟩ := tops_ne_of_nodup ndL
  have hspec : specWrap t.handle name f =
      f.bump.editAt (some p') (replaceTop t.handle (fun k => [wrapTree f name k])) := by
    unfold specWrap
    rw [hg, hpar]
    rfl
  have hG : replaceTop t.handle (fun k => [wrapTree f name k]) (l ++ t :: r) = l ++ wrapTree f name t :: r := by
    rw [replaceTop_mid rfl tl]; simp
  have hgL : replaceTop t.handle (fun _ => []) (l ++ t :: r) = l ++ r := by
    rw [replaceTop_mid rfl tl]; simp
  have hroot : ((cutSite f p' t.handle).addRoot (wrapTree f name t)).isRoot f.next = true :=
    Forest.addRoot_isRoot (cutSite f p' t.handle) (wrapTree f name t)
  rw [hspec]
  cases hpv : prevOf l t with
  | some q =>
    obtain ⟨l', a, el, ea, _⟩ := prevOf_eq_some hpv
    subst el ea
    have heq := elementWrap_kid_after hpar (hprev.trans hpv) hok
    rw [heq] at hok ⊢
    refine ⟨?_, rfl⟩
    simp only at hok ⊢
    rw [W.mid] at hok ⊢
    have sq : SiteAt ((cutSite f p' t.handle).addRoot (wrapTree f name t)) p' v (l' ++ a :: r) := by
      have := W.site; simpa using this
    rw [insertAfter_root sq W.getw hroot W.hq (W.fresh a (by simp)) (fun k hk => W.fresh k (by simp [hk])) rfl hok,
      W.drop]
    unfold cutSite
    rw [Forest.editAt_editAt]
    apply sF.congr
    simp only [Function.comp]
    rw [hG, hgL]
    have : (l' ++ [a]) ++ r = l' ++ a :: r := by simp
    rw [this, insertAfterTop_mid _ (tops_ne_of_nodup sq.nodupKids.1).1]
    simp
  | none =>
    have heq := elementWrap_kid_first hpar (hprev.trans hpv) hok
    rw [heq] at hok ⊢
    refine ⟨?_, rfl⟩
    simp only at hok ⊢
    rw [W.mid] at hok ⊢
    rw [prepend_root W.site W.getw hroot W.hq W.fresh rfl hok, W.drop]
    unfold cutSite
    rw [Forest.editAt_editAt]
    apply sF.congr
    simp only [Function.comp]
    have hord := (validTree_node (s.valid inv.valid)).2.1
    obtain ⟨hl, hr⟩ := split_of_no_prev hord hnorm hpv
    rw [hG, hgL, insertFirstNormal_split _ l r hl hr]

set_option linter.unusedVariables false in
/-- **wrap**: `element_wrap` does what `specWrap` says, and returns the new handle. (`norm` is not
    needed: the wrapper is not a text node, so no merge can happen.) -/
theorem wrap_spec {f : Forest} {n name : Nat} (inv : f.Inv) (norm : f.Normal)
    (hok : (f.elementWrap n name).2.1 = .ok) :
    (f.elementWrap n name).1 = specWrap n name f ∧ (f.elementWrap n name).2.2 = f.next := by
  cases hpar : f.parent? n with
  | none => exact wrap_spec_root inv hpar hok
  | some p => exact wrap_spec_kid inv hpar hok

end XotModel
