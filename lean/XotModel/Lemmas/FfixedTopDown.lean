/-
  The top-down construction route: every node is appended to its (already attached) parent right
  after creation, so parents sit arbitrarily deep inside the tree under construction.
-/
import XotModel.Lemmas.FfixedMapAt
import XotModel.Lemmas.FfixedRtl

namespace XotModel
open HTree

theorem Good.of_count_add {f : Forest} (hg : Good f) (roots' : List HTree) (n' : Nat) (H : List Nat)
    (hc : ∀ a, (handlesList roots').count a = (handlesList f.roots).count a + H.count a)
    (hnd : H.Nodup) (hb : ∀ h ∈ H, f.next ≤ h ∧ h < n') (hn : f.next ≤ n') :
    Good { f with roots := roots', next := n' } := by
  intro a
  have h0 := hg a
  unfold Forest.allHandles at h0 ⊢
  show (handlesList roots').count a ≤ if a < n' then 1 else 0
  rw [hc]
  have h1 := List.nodup_iff_count.1 hnd a
  by_cases hlt : a < f.next
  · have : H.count a = 0 := List.count_eq_zero.2 (fun hm => by have := (hb a hm).1; omega)
    rw [if_pos hlt] at h0
    rw [if_pos (by omega)]; omega
  · rw [if_neg hlt] at h0
    by_cases hlt' : a < n'
    · rw [if_pos hlt']; omega
    · have : H.count a = 0 := List.count_eq_zero.2 (fun hm => by have := (hb a hm).2; omega)
      rw [if_neg hlt']; omega

mutual
  theorem ff_mapAt_id (h : Nat) (g : HTree → HTree) (hg : ∀ t, g t = t) : ∀ t : HTree, mapAt h g t = t
    | .node h' v ks => by
      unfold mapAt
      split
      · exact hg _
      · rw [ff_mapAtList_id h g hg ks]
  theorem ff_mapAtList_id (h : Nat) (g : HTree → HTree) (hg : ∀ t, g t = t) : ∀ ks : List HTree,
      mapAtList h g ks = ks
    | [] => rfl
    | k :: ks => by simp only [mapAtList]; rw [ff_mapAt_id h g hg k, ff_mapAtList_id h g hg ks]
end

theorem appKids_nil (t : HTree) : appKids [] t = t := by
  cases t; simp [appKids, HTree.setKids, HTree.kids]

namespace Forest

/-- Create-then-append of a finished tree `x` under a parent `p` that lives anywhere in the
    store. -/
theorem appendNew_spec (f : Forest) (hg : Good f) {p : Nat} {tp x : HTree} (n' : Nat)
    (hget : f.get? p = some tp) (hpv : tp.value.isElement = true ∨ tp.value.isDocument = true)
    (hnd : (handles x).Nodup) (hb : ∀ h ∈ handles x, f.next ≤ h ∧ h < n')
    (hxn : x.value.isNormal = true) (hxd : x.value.isDocument = false)
    (htext : f.consolidation = true → x.value.isText = true →
      ∀ k, tp.kids.getLast? = some k → k.value.isText = false) :
    let f1 : Forest := { f with roots := f.roots ++ [x], next := n' }
    let f2 : Forest := { f with roots := f.roots.map (mapAt p (appKids [x])), next := n' }
    f1.append p x.handle = (f2, .ok) ∧ Good f2 ∧ f2.get? x.handle = some x ∧
      f2.get? p = some (appKids [x] tp) := by
  intro f1 f2
  have hn : f.next ≤ n' := by have := hb x.handle (handle_mem_handles_ff x); omega
  have hg1 : Good f1 := hg.add_roots [x] n' (by simpa [handlesList] using hnd)
    (by intro h hh; simp only [handlesList, List.append_nil] at hh; exact hb h hh) hn
  have hR : RootAt f1 f.roots x [] := ⟨rfl, hg1.nodup⟩
  have hp : findList? p (f.roots ++ []) = some tp := by rw [List.append_nil]; exact hget
  have hpm : p ∈ handlesList f.roots := by simpa using RootAt.mem_rest_of_find hp
  have hxm : x.handle ∉ handlesList f.roots := by
    intro hm
    have := hg.below _ hm
    have := (hb x.handle (handle_mem_handles_ff x)).1
    omega
  have hpx : p ≠ x.handle := fun e => hxm (e ▸ hpm)
  refine ⟨?_, ?_, ?_, ?_⟩
  · rw [hR.append_spec hp hpv hxn hxd htext]
    simp only [List.append_nil]
    rfl
  · apply hg.of_count_add _ n' (handles x) _ hnd hb hn
    intro a
    rw [← mapAtList_eq_map, count_handlesList_mapAtList_app p a [x] f.roots hg.nodup]
    simp [hpm, handlesList]
  · show findList? x.handle (f.roots.map (mapAt p (appKids [x]))) = some x
    rw [← mapAtList_eq_map]
    exact findList?_appended p x.handle x rfl f.roots hxm hpm
  · show findList? p (f.roots.map (mapAt p (appKids [x]))) = some (appKids [x] tp)
    rw [← mapAtList_eq_map, ff_findList?_mapAtList_self p _ (appKids_handle [x])]
    have : findList? p f.roots = some tp := hget
    rw [this]; rfl

/-- A leaf created and appended at once. -/
theorem topDown_leaf (f : Forest) (hg : Good f) {p : Nat} {tp : HTree} (v : Value)
    (hget : f.get? p = some tp) (hpv : tp.value.isElement = true ∨ tp.value.isDocument = true)
    (hvn : v.isNormal = true) (hvd : v.isDocument = false)
    (htext : f.consolidation = true → v.isText = true →
      ∀ k, tp.kids.getLast? = some k → k.value.isText = false) :
    ({ f with roots := f.roots ++ [HTree.node f.next v []], next := f.next + 1 } : Forest).appendOk p f.next =
      some { f with roots := f.roots.map (mapAt p (appKids [HTree.node f.next v []])), next := f.next + 1 } := by
  have := appendNew_spec f hg (x := HTree.node f.next v []) (f.next + 1) hget hpv
    (by simp [handles, handlesList])
    (by intro h hh; simp only [handles, handlesList, List.mem_singleton] at hh; omega)
    hvn hvd htext
  exact appendOk_eq this.1

mutual
  theorem topDownContent_spec : ∀ (c : FContent) (f : Forest) (p : Nat) (tp : HTree), Good f →
      f.get? p = some tp → (tp.value.isElement = true ∨ tp.value.isDocument = true) →
      c.wf f.consolidation = true →
      (f.consolidation = true → c.isText = true →
        ∀ k, tp.kids.getLast? = some k → k.value.isText = false) →
      ∃ t, Built f.next c t ∧
        topDownContent f p c =
          some { f with roots := f.roots.map (mapAt p (appKids [t])), next := f.next + c.size }
    | .text s, f, p, tp, hg, hget, hpv, _, htext =>
      ⟨.node f.next (.text s) [], Built.leaf _ _ _ rfl rfl,
        topDown_leaf f hg (.text s) hget hpv rfl rfl (fun hc _ => htext hc rfl)⟩
    | .comment s, f, p, tp, hg, hget, hpv, _, _ =>
      ⟨.node f.next (.comment s) [], Built.leaf _ _ _ rfl rfl,
        topDown_leaf f hg (.comment s) hget hpv rfl rfl (fun _ ht => by cases ht)⟩
    | .pi t d, f, p, tp, hg, hget, hpv, _, _ =>
      ⟨.node f.next (.pi t d) [], Built.leaf _ _ _ rfl rfl,
        topDown_leaf f hg (.pi t d) hget hpv rfl rfl (fun _ ht => by cases ht)⟩
    | .element nm ps as cs, f, p, tp, hg, hget, hpv, hwf, _ => by
      simp only [FContent.wf, Bool.and_eq_true, decide_eq_true_eq, Bool.or_eq_true] at hwf
      obtain ⟨⟨⟨hps, has⟩, hadj⟩, hwfl⟩ := hwf
      have hhead := newElementWithMaps_spec f hg nm ps as hps has
      let el := f.next
      let K := headKids el ps as
      let elT : HTree := .node el (.element nm) K
      let n1 := el + 1 + ps.length + as.length
      have hKn : (handlesList K).Nodup := nodup_handlesList_leavesFrom _ _
      obtain ⟨happ, hg2, hgetel, _⟩ := appendNew_spec f hg (x := elT) n1 hget hpv
        (by
          simp only [elT, handles, List.nodup_cons]
          refine ⟨?_, hKn⟩
          rw [mem_handlesList_headKids]; omega)
        (by
          intro h hh
          simp only [elT, handles, List.mem_cons] at hh
          rcases hh with rfl | hh
          · omega
          · rw [mem_handlesList_headKids] at hh; omega)
        rfl rfl (fun _ ht => by cases ht)
      let f2 : Forest := { f with roots := f.roots.map (mapAt p (appKids [elT])), next := n1 }
      have hadj' : f.consolidation = true → noAdjacentFText cs = true := by
        intro hc
        rcases hadj with hadj | hadj
        · rw [hc] at hadj; cases hadj
        · exact hadj
      obtain ⟨ts, hts, hl⟩ := topDownList_spec cs f2 el elT hg2 hgetel (Or.inl rfl) hwfl hadj'
        (by
          intro _ _ _ _ k hk
          exact (headKids_nontext k (List.mem_of_getLast? hk)).1)
      have hpm : p ∈ handlesList f.roots := by
        have hp : findList? p (f.roots ++ []) = some tp := by rw [List.append_nil]; exact hget
        simpa using RootAt.mem_rest_of_find hp
      have helm : el ∉ handlesList f.roots := fun hm => Nat.lt_irrefl _ (hg.below el hm)
      refine ⟨HTree.node el (.element nm) (K ++ ts), ?_, ?_⟩
      · exact built_element n1 hts (by simp only [el, FContent.size]; omega)
          (by simp only [n1, el, FContent.size]; omega) (Or.inr (by omega))
      · unfold topDownContent
        rw [hhead]
        simp only
        show (match (({ f with roots := f.roots ++ [elT], next := n1 } : Forest).appendOk p elT.handle) with
          | none => none
          | some f2 => topDownList f2 el cs) = _
        rw [appendOk_eq happ]
        simp only
        rw [hl]
        simp only [f2, n1, el, FContent.size, Option.some.injEq]
        have hcomp : (f.roots.map (mapAt p (appKids [elT]))).map (mapAt el (appKids ts)) =
            f.roots.map (mapAt p (appKids [HTree.node el (.element nm) (K ++ ts)])) := by
          rw [← mapAtList_eq_map, ← mapAtList_eq_map, ← mapAtList_eq_map,
            mapAtList_in_appended p el (appKids ts) elT rfl (fun e => helm (e ▸ hpm)) f.roots helm]
          rfl
        rw [hcomp]
        congr 1
        omega
  theorem topDownList_spec : ∀ (cs : List FContent) (f : Forest) (p : Nat) (tp : HTree), Good f →
      f.get? p = some tp → (tp.value.isElement = true ∨ tp.value.isDocument = true) →
      FContent.wfList f.consolidation cs = true →
      (f.consolidation = true → noAdjacentFText cs = true) →
      (f.consolidation = true → ∀ c0, cs.head? = some c0 → c0.isText = true →
        ∀ k, tp.kids.getLast? = some k → k.value.isText = false) →
      ∃ ts, BuiltL f.next cs ts ∧
        topDownList f p cs =
          some { f with roots := f.roots.map (mapAt p (appKids ts)), next := f.next + FContent.sizeList cs }
    | [], f, p, tp, _, _, _, _, _, _ => by
      refine ⟨[], ⟨rfl, ?_, ?_⟩, ?_⟩
      · intro h hh; simp [handlesList] at hh
      · simp [handlesList]
      · have : f.roots.map (mapAt p (appKids [])) = f.roots := by
          rw [← mapAtList_eq_map]; exact ff_mapAtList_id p _ appKids_nil f.roots
        simp [topDownList, FContent.sizeList, this]
    | c :: cs, f, p, tp, hg, hget, hpv, hwf, hadj, hfirst => by
      simp only [FContent.wfList, Bool.and_eq_true] at hwf
      obtain ⟨t, ht, hc⟩ := topDownContent_spec c f p tp hg hget hpv hwf.1
        (fun hcons hct => hfirst hcons c rfl hct)
      let f1 : Forest := { f with roots := f.roots.map (mapAt p (appKids [t])), next := f.next + c.size }
      have hpm : p ∈ handlesList f.roots := by
        have hp : findList? p (f.roots ++ []) = some tp := by rw [List.append_nil]; exact hget
        simpa using RootAt.mem_rest_of_find hp
      have hg1 : Good f1 := by
        apply hg.of_count_add _ _ (handles t) _ ht.nodup ht.bounds (by omega)
        intro a
        rw [← mapAtList_eq_map, count_handlesList_mapAtList_app p a [t] f.roots hg.nodup]
        simp [hpm, handlesList]
      have hget1 : f1.get? p = some (appKids [t] tp) := by
        show findList? p (f.roots.map (mapAt p (appKids [t]))) = some (appKids [t] tp)
        rw [← mapAtList_eq_map, ff_findList?_mapAtList_self p _ (appKids_handle [t])]
        have : findList? p f.roots = some tp := hget
        rw [this]; rfl
      have hadj' : f.consolidation = true → noAdjacentFText cs = true := by
        intro hcons
        have := hadj hcons
        cases cs with
        | nil => rfl
        | cons c' cs' =>
          simp only [noAdjacentFText, Bool.and_eq_true] at this
          exact this.2
      obtain ⟨ts, hts, hl⟩ := topDownList_spec cs f1 p (appKids [t] tp) hg1 hget1
        (by cases tp; exact hpv) hwf.2 hadj'
        (by
          intro hcons c0 hc0 hc0t k hk
          -- the last child is now `t`, the tree of `c`; `c` and `c0` are adjacent
          have hk' : k = t := by
            cases tp with
            | node h v ks =>
              simp only [appKids_node, HTree.kids] at hk
              simpa using hk.symm
          subst hk'
          cases cs with
          | nil => cases hc0
          | cons c' cs' =>
            simp only [List.head?_cons, Option.some.injEq] at hc0
            subst hc0
            have hn := hadj hcons
            simp only [noAdjacentFText, Bool.and_eq_true, Bool.not_eq_true', Bool.and_eq_false_iff] at hn
            rw [← ffx_erase_value, ht.erase, treeOfContent_isText]
            rcases hn.1 with h1 | h1
            · exact h1
            · rw [hc0t] at h1; cases h1)
      refine ⟨t :: ts, ⟨?_, ?_, ?_⟩, ?_⟩
      · simp [eraseList, treeOfList, ht.erase, hts.erase]
      · intro h hh
        simp only [handlesList, List.mem_append, FContent.sizeList] at hh ⊢
        rcases hh with hh | hh
        · have := ht.bounds h hh; omega
        · have := hts.bounds h hh; simp only [f1] at this; omega
      · simp only [handlesList]
        refine List.nodup_append.2 ⟨ht.nodup, hts.nodup, ?_⟩
        intro a ha b hb e
        have h1 := ht.bounds a ha
        have h2 := hts.bounds b hb
        simp only [f1] at h2
        omega
      · unfold topDownList
        rw [hc]
        simp only
        rw [hl]
        simp only [f1, FContent.sizeList, Option.some.injEq]
        have hcomp : (f.roots.map (mapAt p (appKids [t]))).map (mapAt p (appKids ts)) =
            f.roots.map (mapAt p (appKids (t :: ts))) := by
          rw [← mapAtList_eq_map, ← mapAtList_eq_map, ← mapAtList_eq_map,
            mapAtList_mapAtList_self p _ _ (appKids_handle [t]), appKids_comp]
          rfl
        rw [hcomp]
        congr 1
        omega
end

/-- Top-down document. -/
theorem topDownDocument_spec (f : Forest) (d : FDocument) (hg : Good f)
    (hwf : d.wf f.consolidation = true) :
    ∃ t, f.topDownDocument d =
          some ({ f with roots := f.roots ++ [t], next := f.next + d.size }, t.handle) ∧
        t.erase = treeOf d ∧
        Good { f with roots := f.roots ++ [t], next := f.next + d.size } := by
  let dn := f.next
  let docleaf : HTree := .node dn .document []
  let f1 : Forest := { f with roots := f.roots ++ [docleaf], next := dn + 1 }
  have hg1 : Good f1 := hg.newNode .document
  have hdnm : dn ∉ handlesList f.roots := fun hm => Nat.lt_irrefl _ (hg.below dn hm)
  have hget1 : f1.get? dn = some docleaf := by
    show findList? dn (f.roots ++ [docleaf]) = some docleaf
    rw [ffx_findList?_append_of_not_mem _ _ _ hdnm]
    exact ffx_findList?_cons_self docleaf []
  obtain ⟨ts, hts, hl⟩ := topDownList_spec d.items f1 dn docleaf hg1 hget1 (Or.inr rfl)
    (items_wfList d _ hwf) (fun _ => noAdjacentFText_of_no_text _ (items_no_text d))
    (by intro _ _ _ _ k hk; simp [docleaf, HTree.kids] at hk)
  obtain ⟨he, hgood⟩ := built_document hg d (dn := dn) hts
    (by simp only [dn, FDocument.size]; omega) (by simp only [f1, dn, FDocument.size]; omega)
    (Or.inl (by simp only [f1, dn]; omega))
  refine ⟨HTree.node dn .document ts, ?_, he, hgood⟩
  unfold topDownDocument
  simp only [newDocument, newNode]
  show (match topDownList f1 dn d.items with
    | none => none
    | some f2 => some (f2, dn)) = _
  rw [hl]
  have hmap : (f.roots ++ [docleaf]).map (mapAt dn (appKids ts)) = f.roots ++ [HTree.node dn .document ts] := by
    have := map_mapAt_root (A := f.roots) (B := []) (ks := []) (p := dn) (v := .document) (appKids ts)
      hdnm (by simp [handlesList])
    simpa [appKids_node] using this
  simp only [f1, hmap, dn, FDocument.size, HTree.handle, Option.some.injEq, Prod.mk.injEq, and_true]
  congr 1
  omega

end Forest
end XotModel
