/-
  C02_spelled, part 4: the parse entry points on the tokens of a spelled document / fragment, and
  reading the id tree back as an abstract document.
-/
import XotModel.Lemmas.ParseSpell

namespace XotModel

/-- What a fresh `Xot` guarantees about the interning tables: `""` is prefix 0 and name 1
    (`xml:id`) is in a namespace other than "no namespace". -/
structure EnvBase (env : Env) : Prop where
  pfx0 : env.prefixes.head? = some []
  xmlId : ∃ x ns, env.names[1]? = some (x, ns) ∧ ns ≠ 0

theorem ready_new {env : Env} (h : EnvBase env) : Ready (Builder.new env) :=
  ⟨rfl, h.pfx0, lookup_default_new env, h.xmlId⟩

/-- The token loop on a spelled node list, from the initial builder. -/
theorem run_spelled {env : Env} (h : EnvBase env) (sns : List SNode) (hw : SNode.Well.wellList sns)
    (hadj : noAdjChars sns = true) :
    ∃ sp, (Builder.new env).run (SNode.tokens.tokensList sns) none =
      .ok ((Builder.new env).emit (PNode.encode.encodeList env (SNode.denote.denoteList sns)).1
        (PNode.encode.encodeList env (SNode.denote.denoteList sns)).2 sp) := by
  obtain ⟨hsim, _⟩ := sim_list sns hw hadj (Builder.new env) (ready_new h)
    (fun _ _ _ _ => by intro s ks more heq; simp [Builder.new] at heq)
  obtain ⟨sp, hrun⟩ := hsim [] none
  refine ⟨sp, ?_⟩
  rw [List.append_nil] at hrun
  rw [hrun]
  simp [Builder.run, Builder.emit, Builder.new]

theorem emit_new_root (env env' : Env) (trees : List Tree) (sp : SpanMap) :
    ((Builder.new env).emit env' trees sp).root = .node .document trees := by
  simp [Builder.root, Builder.emit, Builder.new, zipInto, Frame.close]

/-- `parse_fragment` on a spelled fragment. -/
theorem build_fragment_spelled {env : Env} (h : EnvBase env) (len : Nat) (sns : List SNode)
    (hw : SNode.Well.wellList sns) (hadj : noAdjChars sns = true) :
    ∃ p, build .fragment len env (SNode.tokens.tokensList sns) none = .ok p ∧
      p.tree = .node .document (PNode.encode.encodeList env (SNode.denote.denoteList sns)).2 ∧
      p.env = (PNode.encode.encodeList env (SNode.denote.denoteList sns)).1 := by
  obtain ⟨sp, hrun⟩ := run_spelled h sns hw hadj
  refine ⟨((Builder.new env).emit (PNode.encode.encodeList env (SNode.denote.denoteList sns)).1
    (PNode.encode.encodeList env (SNode.denote.denoteList sns)).2 sp).parsed, ?_, ?_, ?_⟩
  · unfold build
    rw [hrun]
    simp only [Builder.finishFragment, Builder.isCurrentDocument, Builder.emit, Builder.new, Value.isDocument, if_true]
  · simp only [Builder.parsed]; exact emit_new_root env _ _ sp
  · rfl

/-- The top-level scan accepts children without text. -/
theorem topLevelScan_notext (spans : SpanMap) : ∀ (ks : List Tree) (i : Nat) (elems : List Nat),
    (∀ k ∈ ks, k.value.isText = false) →
    ∃ es, topLevelScan spans i ks elems = .ok es ∧ es.length = elems.length + countElements ks := by
  intro ks
  induction ks with
  | nil => intro i elems _; exact ⟨elems, rfl, by simp [countElements]⟩
  | cons k rest ih =>
    intro i elems h
    have hk := h k (by simp)
    have hr : ∀ x ∈ rest, x.value.isText = false := fun x hx => h x (by simp [hx])
    simp only [topLevelScan]
    cases hv : k.value with
    | element n =>
      obtain ⟨es, h1, h2⟩ := ih (i + 1) (elems ++ [i]) hr
      exact ⟨es, h1, by simp [countElements, hv, Value.isElement] at h2 ⊢; omega⟩
    | text s => simp [hv, Value.isText] at hk
    | document =>
      obtain ⟨es, h1, h2⟩ := ih (i + 1) elems hr
      exact ⟨es, h1, by simpa [countElements, hv, Value.isElement] using h2⟩
    | pi t d =>
      obtain ⟨es, h1, h2⟩ := ih (i + 1) elems hr
      exact ⟨es, h1, by simpa [countElements, hv, Value.isElement] using h2⟩
    | comment s =>
      obtain ⟨es, h1, h2⟩ := ih (i + 1) elems hr
      exact ⟨es, h1, by simpa [countElements, hv, Value.isElement] using h2⟩
    | «attribute» n v =>
      obtain ⟨es, h1, h2⟩ := ih (i + 1) elems hr
      exact ⟨es, h1, by simpa [countElements, hv, Value.isElement] using h2⟩
    | «namespace» p n =>
      obtain ⟨es, h1, h2⟩ := ih (i + 1) elems hr
      exact ⟨es, h1, by simpa [countElements, hv, Value.isElement] using h2⟩

/-- `parse` on a spelled document whose top level has exactly one element and no text. -/
theorem build_document_spelled {env : Env} (h : EnvBase env) (len : Nat) (sns : List SNode)
    (hw : SNode.Well.wellList sns) (hadj : noAdjChars sns = true)
    (htop : WellFormedTop (.node .document (PNode.encode.encodeList env (SNode.denote.denoteList sns)).2)) :
    ∃ p, build .document len env (SNode.tokens.tokensList sns) none = .ok p ∧
      p.tree = .node .document (PNode.encode.encodeList env (SNode.denote.denoteList sns)).2 ∧
      p.env = (PNode.encode.encodeList env (SNode.denote.denoteList sns)).1 := by
  obtain ⟨sp, hrun⟩ := run_spelled h sns hw hadj
  obtain ⟨hcount, hnotext⟩ := htop
  simp only [Tree.kids] at hcount hnotext
  refine ⟨((Builder.new env).emit (PNode.encode.encodeList env (SNode.denote.denoteList sns)).1
    (PNode.encode.encodeList env (SNode.denote.denoteList sns)).2 sp).parsed, ?_, ?_, ?_⟩
  · unfold build
    rw [hrun]
    simp only [Builder.finishDocument]
    have hdoc : ((Builder.new env).emit (PNode.encode.encodeList env (SNode.denote.denoteList sns)).1
        (PNode.encode.encodeList env (SNode.denote.denoteList sns)).2 sp).isCurrentDocument = true := by
      simp [Builder.isCurrentDocument, Builder.emit, Builder.new, Value.isDocument]
    simp only [hdoc, if_true, emit_new_root, Tree.kids]
    obtain ⟨es, hs, hl⟩ := topLevelScan_notext
      ((Builder.new env).emit (PNode.encode.encodeList env (SNode.denote.denoteList sns)).1
        (PNode.encode.encodeList env (SNode.denote.denoteList sns)).2 sp).spans _ 0 [] hnotext
    rw [hs]
    simp only [List.length_nil, Nat.zero_add, hcount] at hl
    match es, hl with
    | [x], _ => rfl
  · simp only [Builder.parsed]; exact emit_new_root env _ _ sp
  · rfl

/-! ### Reading the id tree back -/

/-- An id tree read back through the interning tables: an attribute leaf as `(name, value)`, any
    other node as an abstract node. -/
def decodeTree (env : Env) : Tree → Option (Sum (Str × Str) PNode)
  | .node (.attribute n v) [] => some (.inl (env.localName n, v))
  | .node (.element n) ks =>
    match decodeList ks with
    | some items =>
      some (.inr (.elem (env.localName n)
        (items.filterMap fun x => match x with | .inl a => some a | .inr _ => none)
        (items.filterMap fun x => match x with | .inl _ => none | .inr k => some k)))
    | none => none
  | .node (.text s) [] => some (.inr (.text s))
  | .node (.comment s) [] => some (.inr (.comment s))
  | .node (.pi t d) [] => some (.inr (.pi (env.localName t) d))
  | _ => none
where
  decodeList : List Tree → Option (List (Sum (Str × Str) PNode))
    | [] => some []
    | k :: ks =>
      match decodeTree env k, decodeList ks with
      | some a, some as => some (a :: as)
      | _, _ => none

theorem localName_of_get {env : Env} {n : Nat} {a : Str} {ns : Nat} (h : env.names[n]? = some (a, ns)) :
    env.localName n = a := by
  simp [Env.localName, List.getD, h]

theorem decodeList_append (env : Env) : ∀ (l1 l2 : List Tree) (r1 r2 : List (Sum (Str × Str) PNode)),
    decodeTree.decodeList env l1 = some r1 → decodeTree.decodeList env l2 = some r2 →
    decodeTree.decodeList env (l1 ++ l2) = some (r1 ++ r2) := by
  intro l1
  induction l1 with
  | nil => intro l2 r1 r2 h1 h2; simp only [decodeTree.decodeList, Option.some.injEq] at h1; subst h1; simpa using h2
  | cons k ks ih =>
    intro l2 r1 r2 h1 h2
    simp only [decodeTree.decodeList] at h1
    cases hk : decodeTree env k with
    | none => simp [hk] at h1
    | some a =>
      cases hks : decodeTree.decodeList env ks with
      | none => simp [hk, hks] at h1
      | some as =>
        simp only [hk, hks, Option.some.injEq] at h1
        subst h1
        simp only [List.cons_append, decodeTree.decodeList, hk, ih l2 as r2 hks h2]

/-- Attribute leaves read back as the pairs they were made from. -/
theorem decode_encodeAttrs : ∀ (attrs : List (Str × Str)) (env envF : Env), EnvExt (encodeAttrs env attrs).1 envF →
    decodeTree.decodeList envF (encodeAttrs env attrs).2 = some (attrs.map Sum.inl)
  | [], _, _, _ => rfl
  | (a, v) :: rest, env, envF, h => by
    simp only [encodeAttrs] at h ⊢
    have hget := (((encodeAttrs_ext rest (env.internName a Env.noNamespace).1).trans h).names_get
      (internName_get env a Env.noNamespace))
    simp only [decodeTree.decodeList, decodeTree, localName_of_get hget,
      decode_encodeAttrs rest _ envF h, List.map_cons]

theorem filterMap_inl (as : List (Str × Str)) (ks : List PNode) :
    ((as.map Sum.inl ++ ks.map Sum.inr : List (Sum (Str × Str) PNode)).filterMap
      fun x => match x with | .inl a => some a | .inr _ => none) = as := by
  induction as with
  | nil => induction ks with
    | nil => rfl
    | cons k ks ih => simpa using ih
  | cons a as ih => simp [ih]

theorem filterMap_inr (as : List (Str × Str)) (ks : List PNode) :
    ((as.map Sum.inl ++ ks.map Sum.inr : List (Sum (Str × Str) PNode)).filterMap
      fun x => match x with | .inl _ => none | .inr k => some k) = ks := by
  induction as with
  | nil => induction ks with
    | nil => rfl
    | cons k ks ih => simpa using ih
  | cons a as ih => simpa using ih

mutual
/-- Reading back what `encode` produced gives the abstract node, in every later state of the tables. -/
theorem decode_encode : ∀ (n : PNode) (env envF : Env), EnvExt (n.encode env).1 envF →
    decodeTree envF (n.encode env).2 = some (.inr n)
  | .elem name attrs kids, env, envF, h => by
    simp only [PNode.encode] at h ⊢
    have hk := decodeList_encodeList kids _ envF h
    have hak : EnvExt (encodeAttrs (env.internName name Env.noNamespace).1 attrs).1 envF :=
      (encodeList_ext kids _).trans h
    have ha := decode_encodeAttrs attrs _ envF hak
    have hget := (((encodeAttrs_ext attrs _).trans hak).names_get (internName_get env name Env.noNamespace))
    simp only [decodeTree, decodeList_append envF _ _ _ _ ha hk, localName_of_get hget, filterMap_inl, filterMap_inr]
  | .text s, _, _, _ => rfl
  | .comment s, _, _, _ => rfl
  | .pi t d, env, envF, h => by
    simp only [PNode.encode] at h ⊢
    simp only [decodeTree, localName_of_get (h.names_get (internName_get env t Env.noNamespace))]
theorem decodeList_encodeList : ∀ (ns : List PNode) (env envF : Env),
    EnvExt (PNode.encode.encodeList env ns).1 envF →
    decodeTree.decodeList envF (PNode.encode.encodeList env ns).2 = some (ns.map Sum.inr)
  | [], _, _, _ => rfl
  | k :: ks, env, envF, h => by
    simp only [PNode.encode.encodeList] at h ⊢
    have hk := decode_encode k env envF ((encodeList_ext ks _).trans h)
    have hks := decodeList_encodeList ks _ envF h
    simp only [decodeTree.decodeList, hk, hks, List.map_cons]
end

/-! ### Top-level shape in abstract terms -/

def PNode.isElem : PNode → Bool
  | .elem _ _ _ => true
  | _ => false

def PNode.isText : PNode → Bool
  | .text _ => true
  | _ => false

/-- Exactly one element and no text among the top-level nodes. -/
def AbstractTop (ds : List PNode) : Prop :=
  (ds.filter PNode.isElem).length = 1 ∧ ∀ d ∈ ds, d.isText = false

theorem encode_kind (n : PNode) (env : Env) :
    (n.encode env).2.value.isElement = n.isElem ∧ (n.encode env).2.value.isText = n.isText := by
  cases n <;> simp [PNode.encode, Tree.value, Value.isElement, Value.isText, PNode.isElem, PNode.isText]

theorem encodeList_top : ∀ (ds : List PNode) (env : Env),
    countElements (PNode.encode.encodeList env ds).2 = (ds.filter PNode.isElem).length ∧
    ((∀ d ∈ ds, d.isText = false) → ∀ k ∈ (PNode.encode.encodeList env ds).2, k.value.isText = false)
  | [], _ => ⟨rfl, fun _ k hk => by simp [PNode.encode.encodeList] at hk⟩
  | d :: ds, env => by
    obtain ⟨h1, h2⟩ := encodeList_top ds (d.encode env).1
    obtain ⟨k1, k2⟩ := encode_kind d env
    simp only [PNode.encode.encodeList]
    constructor
    · simp only [countElements, List.filter_cons, k1] at h1 ⊢
      cases d.isElem <;> simp [h1]
    · intro hd k hk
      simp only [List.mem_cons] at hk
      rcases hk with rfl | hk
      · rw [k2]; exact hd d (by simp)
      · exact h2 (fun x hx => hd x (by simp [hx])) k hk

theorem wellFormedTop_of_abstract {env : Env} {ds : List PNode} (h : AbstractTop ds) :
    WellFormedTop (.node .document (PNode.encode.encodeList env ds).2) := by
  obtain ⟨h1, h2⟩ := encodeList_top ds env
  exact ⟨by simp only [Tree.kids]; rw [h1]; exact h.1, by simp only [Tree.kids]; exact h2 h.2⟩

end XotModel
