/-
  The `n{counter}` loop of `create_missing_prefixes_for_element` cannot run out of fuel: the decimal
  spellings `n0, n1, …` are pairwise different strings, an interned string keeps its id while the
  table grows, so every iteration that does not break "kills" a different member of `used`
  (pigeonhole), and `used.length + 1` iterations suffice.  No hypothesis on the interning table is
  needed (duplicate entries are harmless: `add_prefix` always answers the first).
-/
import XotModel.Lemmas.RepairDoc

namespace XotModel.Repair
open XotModel

/-! ### The decimal rendering is injective -/

theorem generatedPrefixName_inj {a b : Nat} (h : generatedPrefixName a = generatedPrefixName b) :
    a = b := by
  simp only [generatedPrefixName, List.cons.injEq, true_and] at h
  rw [← Nat.ofDigitChars_ten_toDigits (n := a), h, Nat.ofDigitChars_ten_toDigits]

/-! ### `add_prefix`: the table only grows, and the id answered names the string -/

theorem addPrefix_prefixes (env : Env) (s : Str) :
    ∃ ext, (env.addPrefix s).1.prefixes = env.prefixes ++ ext := by
  unfold Env.addPrefix
  cases h : env.prefixes.findIdx? (· == s) with
  | some i => exact ⟨[], by simp⟩
  | none => exact ⟨[s], rfl⟩

theorem addPrefix_getElem (env : Env) (s : Str) :
    (env.addPrefix s).1.prefixes[(env.addPrefix s).2]? = some s := by
  unfold Env.addPrefix
  cases h : env.prefixes.findIdx? (· == s) with
  | some i =>
    rw [List.findIdx?_eq_some_iff_getElem] at h
    obtain ⟨hlt, hp, _⟩ := h
    simp only [List.getElem?_eq_getElem hlt, Option.some.injEq]
    simpa using hp
  | none => simp

/-! ### Pigeonhole -/

theorem filter_length_le {α : Type} (p q : α → Bool) (himp : ∀ x, q x = true → p x = true) :
    ∀ l : List α, (l.filter q).length ≤ (l.filter p).length
  | [] => by simp
  | x :: l => by
    have ih := filter_length_le p q himp l
    simp only [List.filter_cons]
    cases hq : q x with
    | true => simp only [himp x hq, if_true, List.length_cons]; omega
    | false =>
      cases hp : p x with
      | true => simp only [Bool.false_eq_true, if_false, if_true, List.length_cons]; omega
      | false => simpa using ih

theorem filter_length_lt {α : Type} (p q : α → Bool) (himp : ∀ x, q x = true → p x = true) (a : α)
    (hp : p a = true) (hq : q a = false) :
    ∀ l : List α, a ∈ l → (l.filter q).length < (l.filter p).length
  | [], h => by cases h
  | x :: l, h => by
    have hle := filter_length_le p q himp l
    simp only [List.filter_cons]
    rcases List.mem_cons.mp h with rfl | h
    · simp only [hp, hq, if_true, Bool.false_eq_true, if_false, List.length_cons]; omega
    · have ih := filter_length_lt p q himp a hp hq l h
      cases hqx : q x with
      | true => simp only [himp x hqx, if_true, List.length_cons]; omega
      | false =>
        cases hpx : p x with
        | true => simp only [Bool.false_eq_true, if_false, if_true, List.length_cons]; omega
        | false => simpa using ih

/-- A prefix id can still be answered by the loop standing at `counter = c` with the table `env`:
    it is unregistered, or registered for a spelling `n{k}` with `k ≥ c`. -/
def AliveP (env : Env) (c u : Nat) : Prop :=
  ∀ s, env.prefixes[u]? = some s → ∃ k, c ≤ k ∧ s = generatedPrefixName k

open Classical in
noncomputable def alive (env : Env) (c u : Nat) : Bool := decide (AliveP env c u)

theorem alive_iff (env : Env) (c u : Nat) : alive env c u = true ↔ AliveP env c u := by
  simp [alive]

/-- The loop ends within `fuel` iterations when fewer than `fuel` members of `used` can still be
    answered. -/
theorem freshPrefix_isSome (used : List Nat) : ∀ (fuel : Nat) (env : Env) (c : Nat),
    (used.filter (alive env c)).length < fuel → (freshPrefix used fuel env c).isSome = true
  | 0, _, _, h => by omega
  | fuel + 1, env, c, h => by
    simp only [freshPrefix]
    split
    · rfl
    · rename_i hc
      have hmem : (env.addPrefix (generatedPrefixName c)).2 ∈ used := by simpa using hc
      obtain ⟨ext, hext⟩ := addPrefix_prefixes env (generatedPrefixName c)
      have hget := addPrefix_getElem env (generatedPrefixName c)
      apply freshPrefix_isSome used fuel
      have hlt := filter_length_lt (alive env c)
        (alive (env.addPrefix (generatedPrefixName c)).1 (c + 1)) ?_
        (env.addPrefix (generatedPrefixName c)).2 ?_ ?_ used hmem
      · omega
      · intro u hu
        rw [alive_iff] at hu ⊢
        intro s hs
        have hs' : (env.addPrefix (generatedPrefixName c)).1.prefixes[u]? = some s := by
          rw [hext]
          have hlt : u < env.prefixes.length := by
            rcases Nat.lt_or_ge u env.prefixes.length with h' | h'
            · exact h'
            · rw [List.getElem?_eq_none h'] at hs; cases hs
          rw [List.getElem?_append_left hlt]; exact hs
        obtain ⟨k, hk, rfl⟩ := hu s hs'
        exact ⟨k, by omega, rfl⟩
      · rw [alive_iff]
        intro s hs
        have hs' : (env.addPrefix (generatedPrefixName c)).1.prefixes[(env.addPrefix (generatedPrefixName c)).2]? = some s := by
          rw [hext]
          have hlt : (env.addPrefix (generatedPrefixName c)).2 < env.prefixes.length := by
            rcases Nat.lt_or_ge (env.addPrefix (generatedPrefixName c)).2 env.prefixes.length with h' | h'
            · exact h'
            · rw [List.getElem?_eq_none h'] at hs; cases hs
          rw [List.getElem?_append_left hlt]; exact hs
        rw [hget] at hs'
        cases hs'
        exact ⟨c, Nat.le_refl c, rfl⟩
      · cases hal : alive (env.addPrefix (generatedPrefixName c)).1 (c + 1)
            (env.addPrefix (generatedPrefixName c)).2 with
        | false => rfl
        | true =>
          rw [alive_iff] at hal
          obtain ⟨k, hk, hkk⟩ := hal _ hget
          have := generatedPrefixName_inj hkk
          omega

/-- The fuel the model gives the loop is enough, whatever the table, the counter and `used`. -/
theorem freshPrefix_fuel (used : List Nat) (env : Env) (c : Nat) :
    (freshPrefix used (used.length + 1) env c).isSome = true := by
  apply freshPrefix_isSome
  have := List.length_filter_le (alive env c) used
  omega

theorem assignPrefixes_isSome : ∀ (M : List Nat) (env : Env) (used : List Nat) (c : Nat),
    (assignPrefixes env used c M).isSome = true
  | [], _, _, _ => rfl
  | ns :: M, env, used, c => by
    simp only [assignPrefixes]
    have h1 := freshPrefix_fuel used env c
    cases hf : freshPrefix used (used.length + 1) env c with
    | none => rw [hf] at h1; cases h1
    | some r =>
      obtain ⟨env1, p, c1⟩ := r
      simp only
      have h2 := assignPrefixes_isSome M env1 (p :: used) c1
      cases ha : assignPrefixes env1 (p :: used) c1 M with
      | none => rw [ha] at h2; cases h2
      | some r2 => rfl

/-! ### The call never panics -/

/-- `create_missing_prefixes_for_element` on an existing node returns `Ok`. -/
theorem repairElement_ok (env : Env) (t : Tree) (path : Path) (E : Tree) (hat : t.at? path = some E) :
    ∃ env' nd, repairElement env t path = .ok (env', scopeModifyAt
      (fun _ => rebuild env.nsOfName nd true (inheritedDecls t path) E) t path) := by
  rw [repairElement_eq env t path E hat]
  have h := assignPrefixes_isSome
    (collectRec env.nsOfName (inheritedDecls t path) path E ⟨[], [], []⟩).missing env
    ((collectRec env.nsOfName (inheritedDecls t path) path E ⟨[], [], []⟩).used ++
      ((namespacesInScope t path).getD []).map (·.1)) 0
  cases ha : assignPrefixes env _ 0 _ with
  | none => rw [ha] at h; cases h
  | some r => exact ⟨r.1, r.2, rfl⟩

/-- The loop over the element children returns `Ok` when the children exist. -/
theorem repairElements_ok (path : Path) : ∀ (is : List Nat) (env : Env) (t : Tree),
    (∀ i ∈ is, (t.at? (path ++ [i])).isSome = true) →
    ∃ env' t', repairElements is path env t = .ok (env', t')
  | [], env, t, _ => ⟨env, t, rfl⟩
  | i0 :: is, env, t, h => by
    have h0 := h i0 (by simp)
    cases hE : t.at? (path ++ [i0]) with
    | none => rw [hE] at h0; cases h0
    | some E =>
      obtain ⟨env1, nd, hr⟩ := repairElement_ok env t (path ++ [i0]) E hE
      simp only [repairElements, hr]
      apply repairElements_ok path is
      intro j hj
      by_cases hji : j = i0
      · subst hji
        rw [at?_scopeModifyAt, hE]; rfl
      · have := at?_scopeModifyAt_sibling
          (fun _ => rebuild env.nsOfName nd true (inheritedDecls t (path ++ [i0])) E) path t j i0 [] hji
        rw [this]
        exact h j (by simp [hj])

theorem at?_child_of_getElem? (t : Tree) (path : Path) (i : Nat) (d k : Tree)
    (h : t.at? path = some d) (hk : d.kids[i]? = some k) : t.at? (path ++ [i]) = some k := by
  rw [at?_append, h]
  cases d with
  | node v ks =>
    simp only [Tree.kids] at hk
    show (Tree.node v ks).at? [i] = some k
    rw [at?_cons, hk]
    rfl

/-- `create_missing_prefixes` on an existing node never panics: it answers `Ok`, except that a
    node that is neither a document nor an element is refused with `NotElement` and a document
    without element child with `NoElementAtTopLevel`. -/
theorem createMissingPrefixes_total (env : Env) (t : Tree) (path : Path) (node : Tree)
    (hat : t.at? path = some node) :
    (node.value.isDocument = false → node.value.isElement = false →
      createMissingPrefixes env t path = .err .notElement) ∧
    (node.value.isDocument = true → elementKidIndices node.kids = [] →
      createMissingPrefixes env t path = .err .noElementAtTopLevel) ∧
    ((node.value.isElement = true ∨
        (node.value.isDocument = true ∧ elementKidIndices node.kids ≠ [])) →
      ∃ env' t', createMissingPrefixes env t path = .ok (env', t')) := by
  refine ⟨fun h1 h2 => by simp [createMissingPrefixes, hat, h1, h2],
    fun h1 h2 => by simp [createMissingPrefixes, hat, h1, h2], ?_⟩
  rintro (hel | ⟨hdoc, hne⟩)
  · have hnd : node.value.isDocument = false := by
      cases node with
      | node v ks => cases v <;> simp_all [Tree.value, Value.isElement, Value.isDocument]
    obtain ⟨env', nd, hr⟩ := repairElement_ok env t path node hat
    exact ⟨env', _, by simp only [createMissingPrefixes, hat, hnd, hel, hr]; rfl⟩
  · obtain ⟨env', t', hr⟩ := repairElements_ok path (elementKidIndices node.kids) env t (by
      intro i hi
      obtain ⟨k, hk, _⟩ := mem_elementKidIndices.mp hi
      rw [at?_child_of_getElem? t path i node k hat hk]; rfl)
    refine ⟨env', t', ?_⟩
    have : (elementKidIndices node.kids).isEmpty = false := by
      cases h : elementKidIndices node.kids with
      | nil => exact absurd h hne
      | cons a l => rfl
    simp [createMissingPrefixes, hat, hdoc, this, hr]

end XotModel.Repair
