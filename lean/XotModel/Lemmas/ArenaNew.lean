/-
  XotModel.Lemmas.ArenaNew — `Arena::new_node` on a well-formed arena: never panics, hands out
  the current id of a live, parentless, childless slot that was not live before (a fresh slot,
  or the head of the free list with its stamp negated back), pops the free list, and changes no
  other slot.
-/
import XotModel.Lemmas.ArenaShape

namespace XotModel
namespace Arena

theorem wrap16_id (x : Int) (h1 : -32768 ≤ x) (h2 : x ≤ 32767) : wrap16 x = x := by
  unfold wrap16; omega

theorem slot_setSlot (a : Arena) (i j : Nat) (s s' : Slot) (h : a.slot i = some s) :
    (a.setSlot i s').slot j = if i = j then some s' else a.slot j := by
  rw [setSlot_eq_mod a i s (fun _ => s') h, slot_mod]
  by_cases hij : i = j
  · subst hij; simp [h]
  · simp [hij]

/-- Ids of live slots are the same in `a'` as in `a`. -/
def IdAgree (a a' : Arena) : Prop := ∀ k, Live a k → a'.idAt k = a.idAt k

theorem map_idAt_congr {a a' : Arena} (h : IdAgree a a') (o : Option Nat) (ho : ∀ k, o = some k → Live a k) :
    o.map a'.idAt = o.map a.idAt := by
  cases o with
  | none => rfl
  | some k => simp [h k (ho k rfl)]

theorem PtrOk.transfer {a a' : Arena} {g g' : Shape} {i : Nat} {s : Slot} (r : Rep a g)
    (h : PtrOk a g i s) (hid : IdAgree a a')
    (hpar : g'.par i = g.par i) (hkids : g'.kids i = g.kids i)
    (hpk : ∀ p, g.par i = some p → g'.kids p = g.kids p) : PtrOk a' g' i s := by
  have live_kids : ∀ p c, c ∈ g.kids p → Live a c := fun p c hc => (r.kidsLive p c hc).2.1
  refine ⟨?_, ?_, ?_, ?_, ?_⟩
  · rw [h.parent, hpar, map_idAt_congr hid]
    intro k hk; exact (r.live_of_par hk).2
  · rw [h.first, hkids, map_idAt_congr hid]
    intro k hk; exact live_kids i k (List.mem_of_mem_head? hk)
  · rw [h.last, hkids, map_idAt_congr hid]
    intro k hk; exact live_kids i k (List.mem_of_getLast? hk)
  · intro hn; rw [hpar] at hn; exact h.root hn
  · intro p hp
    rw [hpar] at hp
    obtain ⟨L, R, hk, hprev, hnext⟩ := h.sib p hp
    refine ⟨L, R, by rw [hpk p hp, hk], ?_, ?_⟩
    · rw [hprev, map_idAt_congr hid]
      intro k hk'
      exact live_kids p k (by rw [hk]; exact List.mem_append_left _ (List.mem_of_getLast? hk'))
    · rw [hnext, map_idAt_congr hid]
      intro k hk'
      exact live_kids p k (by rw [hk]; exact List.mem_append_right _ (List.mem_cons_of_mem _ (List.mem_of_mem_head? hk')))

/-- What `new_node` guarantees. -/
structure NewNodeOk (a : Arena) (g : Shape) (v : Nat) (a' : Arena) (id : NodeId) (g' : Shape) : Prop where
  rep : Rep a' g'
  liveId : LiveId a' id
  fresh : ¬ Live a id.index0
  par : g'.par = g.par
  kids : g'.kids = g.kids
  parNone : g'.par id.index0 = none
  kidsNil : g'.kids id.index0 = []
  value : ∃ s, a'.slot id.index0 = some s ∧ s.data = .data v
  others : ∀ j, j ≠ id.index0 → a'.slot j = a.slot j
  free : g'.free = g.free.tail
  slotFresh : g.free = [] → id = ⟨a.nodes.length + 1, 0⟩
  slotReuse : ∀ i rest, g.free = i :: rest → ∃ s, a.slot i = some s ∧ id = ⟨i + 1, -s.stamp⟩

theorem slot_push (a : Arena) (s : Slot) (j : Nat) :
    ({ a with nodes := a.nodes ++ [s] } : Arena).slot j =
      if j = a.nodes.length then some s else a.slot j := by
  unfold slot
  simp only
  by_cases h : j = a.nodes.length
  · subst h; simp
  · rcases Nat.lt_or_gt_of_ne h with h1 | h1
    · simp [List.getElem?_append_left h1, h]
    · have h2 : a.nodes.length ≤ j := Nat.le_of_lt h1
      rw [List.getElem?_append_right h2]
      have : j - a.nodes.length ≠ 0 := by omega
      simp [h, List.getElem?_eq_none h2]
      cases hj : j - a.nodes.length with
      | zero => omega
      | succ m => simp

theorem slot_none_of_ge (a : Arena) (j : Nat) (h : a.nodes.length ≤ j) : a.slot j = none := by
  unfold slot; exact List.getElem?_eq_none h

theorem lt_of_slot {a : Arena} {j : Nat} {s : Slot} (h : a.slot j = some s) : j < a.nodes.length := by
  unfold slot at h
  exact (List.getElem?_eq_some_iff.mp h).1

theorem Rep.newNode_fresh {a : Arena} {g : Shape} (r : Rep a g) (v : Nat) (hf : g.free = []) :
    ∃ a' id, newNode a v = .done a' id ∧ NewNodeOk a g v a' id g := by
  have hff : a.firstFree = none := by rw [r.free.head, hf]; rfl
  let n := a.nodes.length
  have hnew : newNode a v = .done { a with nodes := a.nodes ++ [Slot.new v] } ⟨n + 1, 0⟩ := by
    unfold newNode popFrontFreeNode
    obtain ⟨nodes, ff, lf⟩ := a
    simp only at hff
    subst hff
    rfl
  refine ⟨_, _, hnew, ?_⟩
  generalize ha' : ({ a with nodes := a.nodes ++ [Slot.new v] } : Arena) = a'
  have hslot : ∀ j, a'.slot j = if j = n then some (Slot.new v) else a.slot j := fun j => by
    rw [← ha']; exact slot_push a _ j
  have hff' : a'.firstFree = a.firstFree := by rw [← ha']
  have hlf' : a'.lastFree = a.lastFree := by rw [← ha']
  have hold : ∀ j s, a.slot j = some s → a'.slot j = some s := by
    intro j s hs
    rw [hslot, if_neg]; exact hs
    have := lt_of_slot hs; omega
  have hlive : ∀ j, Live a j → Live a' j := fun j ⟨s, hs, h0⟩ => ⟨s, hold j s hs, h0⟩
  have hnl : ¬ Live a n := by
    rintro ⟨s, hs, _⟩
    have := lt_of_slot hs
    omega
  have hid : IdAgree a a' := by
    intro k ⟨s, hs, _⟩
    rw [idAt_of_slot hs, idAt_of_slot (hold k s hs)]
  have hnslot : a'.slot n = some (Slot.new v) := by rw [hslot]; simp
  refine ⟨⟨?_, ?_, ⟨r.free.nodup, ?_, ?_, ?_, ?_⟩, ?_, ?_, r.kidsNodup, r.acyclic, ?_⟩, ?_, ?_, rfl, rfl, ?_, ?_, ?_, ?_, ?_, ?_, ?_⟩
  · intro i s hs
    rw [hslot] at hs
    split at hs
    · cases hs; simp [Slot.new]
    · exact r.stampRange i s hs
  · intro i s hs
    rw [hslot] at hs
    split at hs
    · cases hs; simp [Slot.new]
    · exact r.dataLive i s hs
  · intro i
    rw [r.free.mem i, hslot]
    split
    · rename_i h; subst h
      constructor
      · rintro ⟨s, hs, _⟩; exact absurd (lt_of_slot hs) (by omega)
      · rintro ⟨s, hs, hneg⟩; cases hs; simp [Slot.new] at hneg
    · rfl
  · rw [hff']; exact r.free.head
  · rw [hlf']; exact r.free.last
  · intro k i hk
    obtain ⟨s, hs, hd⟩ := r.free.link k i hk
    exact ⟨s, hold i s hs, hd⟩
  · intro p c hc
    obtain ⟨h1, h2, h3⟩ := r.kidsLive p c hc
    exact ⟨hlive p h1, hlive c h2, h3⟩
  · intro c p hp
    obtain ⟨h1, h2⟩ := r.parKids c p hp
    exact ⟨hlive c h1, h2⟩
  · intro i s hs h0
    rw [hslot] at hs
    split at hs
    · rename_i h; subst h; cases hs
      have hp := r.par_none_of_not_live hnl
      have hk := r.kids_nil_of_not_live hnl
      refine ⟨by simp [Slot.new, hp], by simp [Slot.new, hk], by simp [Slot.new, hk], fun _ => by simp [Slot.new], ?_⟩
      intro p hp'; rw [hp] at hp'; cases hp'
    · exact (r.ptrs i s hs h0).transfer r hid rfl rfl (fun _ _ => rfl)
  · refine ⟨by simp, ?_, ?_⟩
    · exact ⟨_, by simpa [NodeId.index0] using hnslot, by simp [Slot.new]⟩
    · simp only [NodeId.index0, Nat.add_sub_cancel]
      rw [idAt_of_slot hnslot]; simp [Slot.new]
  · simpa [NodeId.index0] using hnl
  · simpa [NodeId.index0] using r.par_none_of_not_live hnl
  · simpa [NodeId.index0] using r.kids_nil_of_not_live hnl
  · exact ⟨_, by simpa [NodeId.index0] using hnslot, by simp [Slot.new]⟩
  · intro j hj
    rw [hslot, if_neg]; simpa [NodeId.index0] using hj
  · simp [hf]
  · intro _; rfl
  · intro i rest h; rw [hf] at h; cases h

theorem Rep.newNode_reuse {a : Arena} {g : Shape} (r : Rep a g) (v : Nat) (i : Nat) (rest : List Nat)
    (hf : g.free = i :: rest) :
    ∃ a' id, newNode a v = .done a' id ∧ NewNodeOk a g v a' id { g with free := rest } := by
  have hff : a.firstFree = some i := by rw [r.free.head, hf]; rfl
  obtain ⟨s, hs, hdata⟩ := r.free.link 0 i (by rw [hf]; rfl)
  have hnf : (g.free)[0 + 1]? = rest.head? := by rw [hf]; simp [List.head?_eq_getElem?]
  rw [hnf] at hdata
  have hneg : s.stamp < 0 := by
    obtain ⟨s', hs', hn⟩ := (r.free.mem i).mp (by rw [hf]; simp)
    rw [hs] at hs'; cases hs'; exact hn
  obtain ⟨hlo, hhi⟩ := r.stampRange i s hs
  have hst : (s.reuse v).stamp = -s.stamp := by
    simp only [Slot.reuse, Stamp.reuse]
    exact wrap16_id _ (by omega) (by omega)
  have hnodes : a.nodes[i]? = some s := hs
  have hnew : newNode a v = .done
      (Arena.setSlot ({ a with firstFree := rest.head?, lastFree := if rest.head?.isNone then none else a.lastFree } : Arena) i (s.reuse v))
      ⟨i + 1, -s.stamp⟩ := by
    unfold newNode popFrontFreeNode
    obtain ⟨nodes, ff, lf⟩ := a
    simp only at hff hnodes
    subst hff
    simp only [hnodes, hdata, Step.bind_done]
    by_cases hh : rest.head?.isNone = true
    · simp only [hh, if_true, hnodes]; rw [hst]
    · have hh' : rest.head?.isNone = false := by simpa using hh
      simp only [hh', Bool.false_eq_true, if_false, hnodes]; rw [hst]
  refine ⟨_, _, hnew, ?_⟩
  generalize ha' : (Arena.setSlot ({ a with firstFree := rest.head?, lastFree := if rest.head?.isNone then none else a.lastFree } : Arena) i (s.reuse v)) = a'
  have hslot : ∀ j, a'.slot j = if i = j then some (s.reuse v) else a.slot j := fun j => by
    rw [← ha']
    exact slot_setSlot _ i j s _ hs
  have hff' : a'.firstFree = rest.head? := by rw [← ha']; rfl
  have hlf' : a'.lastFree = if rest.head?.isNone then none else a.lastFree := by rw [← ha']; rfl
  have hlen : a'.nodes.length = a.nodes.length := by rw [← ha']; simp [setSlot]
  have hnd : (i :: rest).Nodup := by rw [← hf]; exact r.free.nodup
  have hirest : i ∉ rest := (List.nodup_cons.mp hnd).1
  have hnl : ¬ Live a i := Rep.not_live_of_neg hs hneg
  have hold : ∀ j s', Live a j → a.slot j = some s' → a'.slot j = some s' := by
    intro j s' hl hs'
    rw [hslot, if_neg]; exact hs'
    intro e; subst e; exact hnl hl
  have hlive : ∀ j, Live a j → Live a' j := fun j hl => by
    obtain ⟨s', hs', h0⟩ := hl
    exact ⟨s', hold j s' ⟨s', hs', h0⟩ hs', h0⟩
  have hid : IdAgree a a' := by
    intro k hl
    obtain ⟨s', hs', h0⟩ := hl
    rw [idAt_of_slot hs', idAt_of_slot (hold k s' ⟨s', hs', h0⟩ hs')]
  have hislot : a'.slot i = some (s.reuse v) := by rw [hslot]; simp
  refine ⟨⟨?_, ?_, ⟨(List.nodup_cons.mp hnd).2, ?_, ?_, ?_, ?_⟩, ?_, ?_, r.kidsNodup, r.acyclic, ?_⟩, ?_, ?_, rfl, rfl, ?_, ?_, ?_, ?_, ?_, ?_, ?_⟩
  · intro j s' hs'
    rw [hslot] at hs'
    split at hs'
    · cases hs'; rw [hst]; omega
    · exact r.stampRange j s' hs'
  · intro j s' hs'
    rw [hslot] at hs'
    split at hs'
    · cases hs'; rw [hst]; simp [Slot.reuse]; omega
    · exact r.dataLive j s' hs'
  · intro j
    simp only
    by_cases hij : i = j
    · subst hij
      constructor
      · intro hm; exact absurd hm hirest
      · rintro ⟨s', hs', hn⟩
        rw [hislot] at hs'; cases hs'; rw [hst] at hn; omega
    · rw [hslot, if_neg hij, ← r.free.mem j, hf]
      simp [Ne.symm hij]
  · rw [hff']
  · rw [hlf']
    simp only
    cases rest with
    | nil => simp
    | cons b bs => simp [r.free.last, hf]
  · intro k j hk
    simp only at hk
    obtain ⟨s', hs', hd⟩ := r.free.link (k + 1) j (by rw [hf]; simpa using hk)
    have hji : i ≠ j := by
      intro e; subst e
      exact hirest (List.mem_of_getElem? hk)
    refine ⟨s', by rw [hslot, if_neg hji]; exact hs', ?_⟩
    rw [hd, hf]; simp
  · intro p c hc
    obtain ⟨h1, h2, h3⟩ := r.kidsLive p c hc
    exact ⟨hlive p h1, hlive c h2, h3⟩
  · intro c p hp
    obtain ⟨h1, h2⟩ := r.parKids c p hp
    exact ⟨hlive c h1, h2⟩
  · intro j s' hs' h0
    rw [hslot] at hs'
    split at hs'
    · rename_i h; subst h; cases hs'
      have hp := r.par_none_of_not_live hnl
      have hk := r.kids_nil_of_not_live hnl
      refine ⟨by simp [Slot.reuse, hp], by simp [Slot.reuse, hk], by simp [Slot.reuse, hk], fun _ => by simp [Slot.reuse], ?_⟩
      intro p hp'; simp only at hp'; rw [hp] at hp'; cases hp'
    · exact (r.ptrs j s' hs' h0).transfer r hid rfl rfl (fun _ _ => rfl)
  · refine ⟨by simp, ?_, ?_⟩
    · exact ⟨_, by simpa [NodeId.index0] using hislot, by rw [hst]; omega⟩
    · simp only [NodeId.index0, Nat.add_sub_cancel]
      rw [idAt_of_slot hislot, hst]
  · simpa [NodeId.index0] using hnl
  · simpa [NodeId.index0] using r.par_none_of_not_live hnl
  · simpa [NodeId.index0] using r.kids_nil_of_not_live hnl
  · exact ⟨_, by simpa [NodeId.index0] using hislot, by simp [Slot.reuse]⟩
  · intro j hj
    rw [hslot, if_neg]; intro e; subst e; simp [NodeId.index0] at hj
  · simp [hf]
  · intro h; rw [hf] at h; cases h
  · intro i' rest' h
    rw [hf] at h; cases h
    exact ⟨s, hs, rfl⟩

/-- `new_node` on a well-formed arena. -/
theorem Rep.newNode {a : Arena} {g : Shape} (r : Rep a g) (v : Nat) :
    ∃ a' id g', Arena.newNode a v = .done a' id ∧ NewNodeOk a g v a' id g' := by
  cases hf : g.free with
  | nil =>
    obtain ⟨a', id, h1, h2⟩ := r.newNode_fresh v hf
    exact ⟨a', id, g, h1, h2⟩
  | cons i rest =>
    obtain ⟨a', id, h1, h2⟩ := r.newNode_reuse v i rest hf
    exact ⟨a', id, _, h1, h2⟩

end Arena
end XotModel
