/-
  XotModel.Lemmas.DedupRoundTrip — the C01 domain meets the hypothesis of the C15 theorems: a tree that
  is `nodeOK` everywhere (`Representable`, `RepresentableFragment`) declares no prefix twice on any
  element (`UniqueKids` is part of `nodeOK`), and only its elements carry namespace nodes (`KindsOk`).
-/
import XotModel.Lemmas.ScopeRoundTrip
import XotModel.Lemmas.DedupInside

namespace XotModel

variable {env : Env}

theorem ddKeys_declsOfKids_sublist : ∀ ks : List Tree,
    ((declsOfKids ks).map Prod.fst).Sublist (nsPrefixes ks)
  | [] => by simp [declsOfKids, nsPrefixes]
  | k :: ks => by
    by_cases hc : (k.value.category == Category.namespace) = true
    · obtain ⟨p, n, hv⟩ := (category_namespace_iff_ex _).1 hc
      simp only [declsOfKids, hv, List.map_cons, nsPrefixes, List.filterMap_cons]
      exact (ddKeys_declsOfKids_sublist ks).cons_cons p
    · rw [declsOfKids_not_namespace k ks hc]
      exact List.nil_sublist _

theorem uniqueDeclsBelow_of_allNodes (t : Tree) (h : t.allNodes (nodeOK env) = true) :
    UniqueDeclsBelow t := by
  intro q e hq _
  induction q generalizing t with
  | nil =>
    simp only [Tree.at?, Option.some.injEq] at hq
    subst hq
    obtain ⟨v, ks⟩ := t
    obtain ⟨_, _, hu, _, _⟩ := (nodeOK_iff env v ks).mp (nodeOK_of_allNodes h)
    rw [nsDecls_node]
    exact hu.2.sublist (ddKeys_declsOfKids_sublist ks)
  | cons i q ih =>
    obtain ⟨v, ks⟩ := t
    simp only [Tree.at?] at hq
    cases hk : ks[i]? with
    | none => simp [hk] at hq
    | some k =>
      simp only [hk] at hq
      exact ih k (allNodes_kid h (List.mem_of_getElem? hk)) hq

theorem declsOfKids_of_all_normal : ∀ ks : List Tree, (∀ k ∈ ks, k.value.isNormal = true) →
    declsOfKids ks = []
  | [], _ => rfl
  | k :: ks, h => by
    apply declsOfKids_not_namespace
    have := h k (List.mem_cons_self ..)
    intro hc
    obtain ⟨p, n, hv⟩ := (category_namespace_iff_ex _).1 hc
    rw [hv] at this
    simp [Value.isNormal, Value.category] at this

mutual
theorem onlyElementsDeclare_of_allNodes : ∀ (t : Tree), t.allNodes (nodeOK env) = true →
    OnlyElementsDeclare t
  | .node v ks, h => by
    unfold OnlyElementsDeclare
    rw [Tree.Forall]
    refine ⟨fun he => ?_, onlyElementsDeclareList_of_allNodes ks (fun k hk => allNodes_kid h hk)⟩
    obtain ⟨_, hkind, _, _, _⟩ := (nodeOK_iff env v ks).mp (nodeOK_of_allNodes h)
    rw [nsDecls_node]
    exact declsOfKids_of_all_normal ks (hkind.2.1 he)
theorem onlyElementsDeclareList_of_allNodes : ∀ (ks : List Tree),
    (∀ k ∈ ks, k.allNodes (nodeOK env) = true) →
    Tree.Forall.forallList (fun v ks => v.isElement = false → (Tree.node v ks).nsDecls = []) ks
  | [], _ => trivial
  | k :: ks, h => by
    rw [Tree.Forall.forallList]
    exact ⟨onlyElementsDeclare_of_allNodes k (h k (List.mem_cons_self ..)),
      onlyElementsDeclareList_of_allNodes ks (fun k' hk' => h k' (List.mem_cons_of_mem _ hk'))⟩
end

theorem OnlyElementsDeclare.at : ∀ (q : Path) (t e : Tree), OnlyElementsDeclare t → t.at? q = some e →
    OnlyElementsDeclare e
  | [], t, e, h, hq => by
    simp only [Tree.at?, Option.some.injEq] at hq
    subst hq; exact h
  | i :: q, .node v ks, e, h, hq => by
    simp only [Tree.at?] at hq
    cases hk : ks[i]? with
    | none => simp [hk] at hq
    | some k =>
      simp only [hk] at hq
      unfold OnlyElementsDeclare at h
      rw [Tree.forall_node] at h
      exact OnlyElementsDeclare.at q k e (h.2 k (List.mem_of_getElem? hk)) hq

theorem onlyElementsDeclare_of_representableFragment {t : Tree} (hr : RepresentableFragment env t = true) :
    OnlyElementsDeclare t :=
  onlyElementsDeclare_of_allNodes t ((representableFragment_iff env t).mp hr).2.2.1

theorem uniqueDeclsBelow_of_representableFragment {t : Tree} (hr : RepresentableFragment env t = true) :
    UniqueDeclsBelow t :=
  uniqueDeclsBelow_of_allNodes t ((representableFragment_iff env t).mp hr).2.2.1

theorem uniqueDeclsBelow_of_representable {t : Tree} (hr : Representable env t = true) :
    UniqueDeclsBelow t := by
  simp only [Representable, Bool.and_eq_true] at hr
  exact uniqueDeclsBelow_of_representableFragment hr.1

end XotModel
