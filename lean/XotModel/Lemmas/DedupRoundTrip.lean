/-
  XotModel.Lemmas.DedupRoundTrip — the C01 domain meets the hypothesis of the C15 theorems: a tree that
  is `nodeOK` everywhere (`Representable`, `RepresentableFragment`) declares no prefix twice on any
  element (`UniqueKids` is part of `nodeOK`).
-/
import XotModel.Lemmas.ScopeRoundTrip
import XotModel.Lemmas.DedupSerialise

namespace XotModel

variable {env : Env}

theorem ddKeys_declsOfKids_sublist : ∀ ks : List Tree,
    ((declsOfKids ks).map Prod.fst).Sublist (nsPrefixes ks)
  | [] => by simp [declsOfKids, nsPrefixes]
  | k :: ks => by
    by_cases hc : (k.value.category == Category.namespace) = true
    · obtain ⟨p, n, hv⟩ := (category_namespace_iff_ex _).1 hc
      simp only [declsOfKids, hv, List.map_cons, nsPrefixes, List.filterMap_cons]
      exact (ddKeys_declsOfKids_sublist ks).cons_cons p
    · rw [declsOfKids_not_namespace k ks hc]
      exact List.nil_sublist _

theorem uniqueDeclsBelow_of_allNodes (t : Tree) (h : t.allNodes (nodeOK env) = true) :
    UniqueDeclsBelow t := by
  intro q e hq _
  induction q generalizing t with
  | nil =>
    simp only [Tree.at?, Option.some.injEq] at hq
    subst hq
    obtain ⟨v, ks⟩ := t
    obtain ⟨_, _, hu, _, _⟩ := (nodeOK_iff env v ks).mp (nodeOK_of_allNodes h)
    rw [nsDecls_node]
    exact hu.2.sublist (ddKeys_declsOfKids_sublist ks)
  | cons i q ih =>
    obtain ⟨v, ks⟩ := t
    simp only [Tree.at?] at hq
    cases hk : ks[i]? with
    | none => simp [hk] at hq
    | some k =>
      simp only [hk] at hq
      exact ih k (allNodes_kid h (List.mem_of_getElem? hk)) hq

theorem uniqueDeclsBelow_of_representableFragment {t : Tree} (hr : RepresentableFragment env t = true) :
    UniqueDeclsBelow t :=
  uniqueDeclsBelow_of_allNodes t ((representableFragment_iff env t).mp hr).2.2.1

theorem uniqueDeclsBelow_of_representable {t : Tree} (hr : Representable env t = true) :
    UniqueDeclsBelow t := by
  simp only [Representable, Bool.and_eq_true] at hr
  exact uniqueDeclsBelow_of_representableFragment hr.1

end XotModel
