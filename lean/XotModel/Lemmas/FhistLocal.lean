/-
  Fhist (extended histories), part 3: locality (C12) for every extended call (`Forest.XCall`,
  Model/FhistSpec.lean).  A separated root `r` (`SepB r f`, Lemmas/FlocalAll1.lean) none of whose
  nodes is named as an argument the call writes below is left exactly as it is.  No invariant is
  needed: the composites `create_missing_prefixes` / `deduplicate_namespaces` are lists of
  `namespaces_mut(h).insert / remove` calls whose targets `h` lie in the root tree of the argument
  (`handleAt` of a path of that tree), `clone_with_prefixes` is `clone_node` followed by insertions on
  the clone, which lies outside every old tree.
-/
import XotModel.Lemmas.FlocalAll3
import XotModel.Lemmas.FhistBasic

namespace XotModel
open HTree

/-! ### Handles found through paths lie in the tree -/

theorem fhl_getElem?_handles : ∀ (ks : List HTree) (i : Nat) (k : HTree), ks[i]? = some k →
    ∀ x ∈ handles k, x ∈ handlesList ks
  | [], _, _, h, _, _ => by simp at h
  | k' :: ks, 0, k, h, x, hx => by
    simp only [List.getElem?_cons_zero, Option.some.injEq] at h
    subst h; simp [handlesList, hx]
  | k' :: ks, i + 1, k, h, x, hx => by
    simp only [List.getElem?_cons_succ] at h
    simp [handlesList, fhl_getElem?_handles ks i k h x hx]

/-- `handleAt` only finds handles of the tree. -/
theorem fhl_handleAt_mem : ∀ (p : Path) (r : HTree) (h : Nat), r.handleAt p = some h → h ∈ handles r
  | [], node h' v ks, h, hh => by
    simp only [handleAt, Option.some.injEq] at hh
    subst hh; simp [handles]
  | i :: p, node h' v ks, h, hh => by
    simp only [handleAt] at hh
    cases hk : ks[i]? with
    | none => rw [hk] at hh; cases hh
    | some k =>
      rw [hk] at hh
      have := fhl_handleAt_mem p k h hh
      simp only [handles, List.mem_cons]
      exact Or.inr (fhl_getElem?_handles ks i k hk h this)

mutual
  /-- `pathOf` only finds handles of the tree. -/
  theorem fhl_pathOf_mem (h : Nat) : ∀ (r : HTree), (pathOf h r).isSome = true → h ∈ handles r
    | node h' v ks, hs => by
      simp only [pathOf] at hs
      simp only [handles, List.mem_cons]
      split at hs
      · rename_i e; exact Or.inl e.symm
      · exact Or.inr (fhl_pathOfList_mem h ks 0 hs)
  theorem fhl_pathOfList_mem (h : Nat) : ∀ (ks : List HTree) (j : Nat),
      (pathOfList h j ks).isSome = true → h ∈ handlesList ks
    | [], _, hs => by simp [pathOfList] at hs
    | k :: ks, j, hs => by
      simp only [pathOfList] at hs
      simp only [handlesList, List.mem_append]
      cases hp : pathOf h k with
      | some p => exact Or.inl (fhl_pathOf_mem h k (by rw [hp]; rfl))
      | none =>
        rw [hp] at hs
        exact Or.inr (fhl_pathOfList_mem h ks (j + 1) hs)
end

namespace Forest

/-- The parentless tree containing `h` is a root that contains `h`. -/
theorem fhl_rootOf? {f : Forest} {h : Nat} {r0 : HTree} (hr : f.rootOf? h = some r0) :
    r0 ∈ f.roots ∧ h ∈ handles r0 := by
  unfold rootOf? at hr
  have hp := List.find?_some (p := fun r => (pathOf h r).isSome) hr
  exact ⟨List.mem_of_find?_eq_some hr, fhl_pathOf_mem h r0 hp⟩

end Forest

namespace SepB

variable {r : HTree} {f : Forest}

/-- A handle found by a path in the root tree of a node outside `r` lies outside `r`. -/
theorem handleAt_disj (s : SepB r f) {node : Nat} (hn : node ∉ handles r) {r0 : HTree}
    (hr : f.rootOf? node = some r0) {p : Path} {h : Nat} (hh : r0.handleAt p = some h) :
    h ∉ handles r := by
  obtain ⟨hm, hnm⟩ := Forest.fhl_rootOf? hr
  have hne : r0 ≠ r := fun e => hn (e ▸ hnm)
  exact fun har => s.sep.disj r0 hm hne h har (fhl_handleAt_mem p r0 h hh)

/-- A list of calls none of whose node arguments lies in `r`, however far it gets. -/
theorem runCalls : ∀ (cs : List Forest.Call) {f : Forest}, SepB r f →
    (∀ c ∈ cs, ∀ a ∈ c.args, a ∉ handles r) → SepB r (f.runCalls cs).1
  | [], _, s, _ => s
  | c :: cs, f, s, h => by
    have s1 := s.call c (h c (by simp))
    unfold Forest.runCalls
    rcases hc : c.run f with ⟨f', res⟩
    rw [hc] at s1
    cases res with
    | ok => exact runCalls cs s1 (fun c' h' => h c' (by simp [h']))
    | err e => exact s1
    | panic => exact s1

/-- The insertions `create_missing_prefixes_for_element(node)` decides on are made on `node` and on
    nodes of its root tree. -/
theorem repairCalls_args (s : SepB r f) (env : Env) {node : Nat} (hn : node ∉ handles r)
    {env' : Env} {cs : List Forest.Call} (hc : f.repairCalls env node = some (env', cs)) :
    ∀ c ∈ cs, ∀ a ∈ c.args, a ∉ handles r := by
  unfold Forest.repairCalls at hc
  cases hr : f.rootOf? node with
  | none => rw [hr] at hc; cases hc
  | some r0 =>
    rw [hr] at hc
    simp only at hc
    cases hp : r0.pathOf node with
    | none => rw [hp] at hc; cases hc
    | some path =>
      rw [hp] at hc
      simp only at hc
      cases hat : r0.erase.at? path with
      | none => rw [hat] at hc; cases hc
      | some sub =>
        rw [hat] at hc
        simp only at hc
        split at hc
        · cases hc
        · split at hc
          · cases hc
          · rename_i env'' newDecls _
            simp only [Option.some.injEq, Prod.mk.injEq] at hc
            obtain ⟨-, rfl⟩ := hc
            intro c hcm a ha
            rcases List.mem_append.mp hcm with hcm | hcm
            · obtain ⟨d, -, rfl⟩ := List.mem_map.mp hcm
              simp only [Forest.nsInsertCall, Forest.Call.args, List.mem_singleton] at ha
              subst ha; exact hn
            · obtain ⟨up, -, hup⟩ := List.mem_filterMap.mp hcm
              cases hh : r0.handleAt up with
              | none => rw [hh] at hup; cases hup
              | some h =>
                rw [hh] at hup
                simp only [Option.map_some, Option.some.injEq] at hup
                subst hup
                simp only [Forest.nsInsertCall, Forest.Call.args, List.mem_singleton] at ha
                subst ha
                exact s.handleAt_disj hn hr hh

theorem repairElementF (s : SepB r f) (env : Env) {node : Nat} (hn : node ∉ handles r) :
    SepB r (f.repairElementF env node).1 := by
  unfold Forest.repairElementF
  cases hc : f.repairCalls env node with
  | none => exact s
  | some ec =>
    obtain ⟨env', cs⟩ := ec
    exact s.runCalls cs (s.repairCalls_args env hn hc)

theorem repairElementsF : ∀ (es : List Nat) (env : Env) {f : Forest}, SepB r f →
    (∀ e ∈ es, e ∉ handles r) → SepB r (Forest.repairElementsF es env f).1
  | [], _, _, s, _ => s
  | e :: rest, env, f, s, h => by
    have s1 := s.repairElementF env (h e (by simp))
    unfold Forest.repairElementsF
    rcases hc : f.repairElementF env e with ⟨f', env', res⟩
    rw [hc] at s1
    cases res with
    | ok => exact repairElementsF rest env' s1 (fun e' h' => h e' (by simp [h']))
    | err e => exact s1
    | panic => exact s1

/-- `create_missing_prefixes(node)` with `node` outside `r`. -/
theorem createMissingPrefixes (s : SepB r f) (env : Env) {node : Nat} (hn : node ∉ handles r) :
    SepB r (f.createMissingPrefixes env node).1 := by
  unfold Forest.createMissingPrefixes
  by_cases hd : f.isDocument node = true
  · rw [if_pos hd]
    cases hg : f.get? node with
    | none => exact s
    | some t =>
      simp only
      split
      · exact s
      · refine s.repairElementsF _ env ?_
        intro e he
        simp only [List.mem_map, List.mem_filter] at he
        obtain ⟨k, ⟨hk, -⟩, rfl⟩ := he
        exact s.sep.kids_disj hn hg k hk _ (fc_handle_mem_handles k)
  · rw [if_neg hd]
    split
    · exact s
    · exact s.repairElementF env hn

/-- The removals of one pass of `deduplicate_namespaces(node)` are made on nodes of the root tree of
    `node`. -/
theorem dedupCalls_args (s : SepB r f) (env : Env) {node : Nat} (hn : node ∉ handles r) :
    ∀ c ∈ f.dedupCalls env node, ∀ a ∈ c.args, a ∉ handles r := by
  unfold Forest.dedupCalls
  cases hr : f.rootOf? node with
  | none => simp
  | some r0 =>
    simp only
    cases hp : r0.pathOf node with
    | none => simp
    | some path =>
      simp only
      cases hat : r0.erase.at? path with
      | none => simp
      | some sub =>
        simp only
        intro c hcm a ha
        obtain ⟨rm, -, hc⟩ := List.mem_flatMap.mp hcm
        cases hh : r0.handleAt rm.1 with
        | none => rw [hh] at hc; simp at hc
        | some h =>
          rw [hh] at hc
          simp only [List.mem_singleton] at hc
          subst hc
          simp only [Forest.Call.args, List.mem_singleton] at ha
          subst ha
          exact s.handleAt_disj hn hr hh

theorem dedupLoop (env : Env) {node : Nat} (hn : node ∉ handles r) : ∀ (fuel : Nat) {f : Forest},
    SepB r f → SepB r (Forest.dedupLoop env node fuel f).1
  | 0, _, s => s
  | fuel + 1, f, s => by
    unfold Forest.dedupLoop
    dsimp only
    split
    · exact s
    · have s1 := s.runCalls (f.dedupCalls env node) (s.dedupCalls_args env hn)
      rcases hc : f.runCalls (f.dedupCalls env node) with ⟨f', res⟩
      rw [hc] at s1
      cases res with
      | ok => exact dedupLoop env hn fuel s1
      | err e => exact s1
      | panic => exact s1

/-- `deduplicate_namespaces(node)` with `node` outside `r`. -/
theorem deduplicateNamespaces (s : SepB r f) (env : Env) {node : Nat} (hn : node ∉ handles r) :
    SepB r (f.deduplicateNamespaces env node).1 :=
  dedupLoop env hn _ s

/-- The node `clone_node` returns lies outside `r` — wherever the source lies. -/
theorem cloneNode_result (s : SepB r f) (n : Nat) {c : Nat} (hc : (f.cloneNode n).2 = some c) :
    c ∉ handles r := by
  unfold Forest.cloneNode at hc
  cases hg : f.get? n with
  | none => rw [hg] at hc; cases hc
  | some src =>
    rw [hg] at hc
    simp only at hc
    split at hc
    · obtain ⟨s1, h1⟩ := s.newNode .document
      unfold Forest.newDocument at hc
      generalize f.newNode .document = nn at s1 h1 hc
      obtain ⟨f1, top⟩ := nn
      simp only at s1 h1 hc
      cases hk : Forest.cloneKids f1 top src.kids with
      | some f2 =>
        rw [hk] at hc
        simp only [Option.some.injEq] at hc
        subst hc; exact h1
      | none => rw [hk] at hc; cases hc
    · rename_i name _
      obtain ⟨s1, h1⟩ := s.newNode (.element name)
      unfold Forest.newElement at hc
      generalize f.newNode (.element name) = nn at s1 h1 hc
      obtain ⟨f1, top⟩ := nn
      simp only at s1 h1 hc
      cases hk : Forest.cloneInto f1 top src with
      | some f2 =>
        rw [hk] at hc
        simp only at hc
        have s2 := SepB.cloneInto src top f1 f2 s1 h1 hk
        cases hfc : f2.firstChild top with
        | some c' =>
          rw [hfc] at hc
          simp only [Option.some.injEq] at hc
          subst hc
          unfold Forest.firstChild at hfc
          cases hgt : f2.get? top with
          | none => rw [hgt] at hfc; cases hfc
          | some t =>
            rw [hgt] at hfc
            simp only at hfc
            cases hd : (t.kids.dropWhile (fun k => !k.value.isNormal)).head? with
            | none => rw [hd] at hfc; cases hfc
            | some k =>
              rw [hd] at hfc
              simp only [Option.map_some, Option.some.injEq] at hfc
              subst hfc
              have hk' : k ∈ t.kids :=
                (List.dropWhile_sublist _).subset (List.mem_of_mem_head? hd)
              exact s2.sep.kids_disj h1 hgt k hk' _ (fc_handle_mem_handles k)
        | none => rw [hfc] at hc; cases hc
      | none => rw [hk] at hc; cases hc
    · have h1 := (s.newNode src.value).2
      generalize f.newNode src.value = nn at h1 hc
      obtain ⟨f1, top⟩ := nn
      simp only [Option.some.injEq] at hc
      subst hc; exact h1

/-- The insertion loop of `clone_with_prefixes` on a clone outside `r`. -/
theorem addPrefixes : ∀ (order : List (Nat × Nat)) {f : Forest}, SepB r f → ∀ {c : Nat},
    c ∉ handles r → SepB r (f.addPrefixes c order).1
  | [], _, s, _, _ => s
  | (p, ns) :: rest, f, s, c, hc => by
    unfold Forest.addPrefixes
    split
    · exact addPrefixes rest s hc
    · have s1 : SepB r (f.mapInsert .namespaces c (.namespace p ns)).1 :=
        s.call (.mapInsert .namespaces c (.namespace p ns))
          (fun a ha => by simp only [Forest.Call.args, List.mem_singleton] at ha; subst ha; exact hc)
      rcases hm : f.mapInsert .namespaces c (.namespace p ns) with ⟨f', res⟩
      rw [hm] at s1
      cases res with
      | ok => exact addPrefixes rest s1 hc
      | err e => exact s1
      | panic => exact s1

/-- `clone_with_prefixes(node)`, for any source node at all (inside `r` or not): cloning only reads the
    source, the declarations are added to the clone. -/
theorem cloneWithPrefixes (s : SepB r f) (n : Nat) (order : List (Nat × Nat)) :
    SepB r (f.cloneWithPrefixes n order).1 := by
  have s1 := s.cloneNode n
  have h1 := fun c => s.cloneNode_result n (c := c)
  unfold Forest.cloneWithPrefixes
  rcases hc : f.cloneNode n with ⟨f1, oc⟩
  rw [hc] at s1 h1
  cases oc with
  | none => exact s1
  | some c =>
    simp only
    split
    · have s2 := s1.addPrefixes order (h1 c rfl)
      rcases ha : f1.addPrefixes c order with ⟨f2, res⟩
      rw [ha] at s2
      cases res <;> exact s2
    · exact s1

/-- **One extended call** none of whose written node arguments lies in `r`. -/
theorem xcall {st : Store} (s : SepB r st.forest) (c : Forest.XCall)
    (h : ∀ a ∈ c.writeArgs, a ∉ handles r) : SepB r (c.run st).1.forest := by
  cases c with
  | call c =>
    cases c with
    | cloneNode n => exact s.cloneNode n
    | _ => exact s.call _ h
  | newNode v => exact (s.newNode v).1
  | setConsolidation b => exact ⟨s.sep.setConsolidation b, s.below⟩
  | removeInsignificantWhitespace n =>
    exact s.stepAll (.removeInsignificantWhitespace n) h
  | createMissingPrefixes n => exact s.createMissingPrefixes st.env (h n (by simp [Forest.XCall.writeArgs, Forest.XCall.args]))
  | deduplicateNamespaces n => exact s.deduplicateNamespaces st.env (h n (by simp [Forest.XCall.writeArgs, Forest.XCall.args]))
  | cloneWithPrefixes n order => exact s.cloneWithPrefixes n order

/-- **Any extended history.** -/
theorem xrun : ∀ (cs : List Forest.XCall) {st : Store}, SepB r st.forest →
    (∀ c ∈ cs, ∀ a ∈ c.writeArgs, a ∉ handles r) → SepB r (st.xrun cs).forest
  | [], _, s, _ => s
  | c :: cs, st, s, h =>
    xrun cs (st := st.xstep c) (s.xcall c (h c (by simp))) (fun c' h' => h c' (by simp [h']))

end SepB

/-- The written arguments are among the arguments. -/
theorem Forest.XCall.writeArgs_sub (c : Forest.XCall) : ∀ a ∈ c.writeArgs, a ∈ c.args := by
  cases c with
  | call c => cases c <;> simp [Forest.XCall.writeArgs]
  | cloneWithPrefixes n order => simp [Forest.XCall.writeArgs]
  | _ => simp [Forest.XCall.writeArgs]

end XotModel
