/-
  XotModel.Lemmas.ArenaAbsNew — refinement theorem for `new_node`: the forest model's `newNode`,
  with the handle numbering extended by the slot handed out (fresh or reused).
-/
import XotModel.Lemmas.ArenaAbsCut

namespace XotModel
namespace Arena

/-- The view after `new_node` handed out slot `i` for the forest handle `h` with payload `v`. -/
def View.extend (w : View) (i h : Nat) (v : Value) : View :=
  ⟨fun j => if j = i then h else w.rho j, fun j => if j = i then v else w.val j⟩

theorem Abs.newNode {a : Arena} {g : Shape} {w : View} {rs : List Nat} {f : Forest} (h : Abs a g w rs f) (v : Nat) :
    ∃ a' id g', Arena.newNode a v = .done a' id ∧ LiveId a' id ∧ ¬ Live a id.index0 ∧
      Abs a' g' (w.extend id.index0 f.next (dec v)) (rs ++ [id.index0]) (f.newNode (dec v)).1 ∧
      (f.newNode (dec v)).2 = (w.extend id.index0 f.next (dec v)).rho id.index0 := by
  obtain ⟨a', id, g', hn, ok⟩ := h.ctx.rep.newNode v
  refine ⟨a', id, g', hn, ok.liveId, ok.fresh, ?_, by simp [Forest.newNode, View.extend]⟩
  have hfresh : ¬ Live a id.index0 := ok.fresh
  have hliveold : ∀ j, Live a j → Live a' j ∧ j ≠ id.index0 := by
    intro j hj
    have hji : j ≠ id.index0 := fun e => hfresh (e ▸ hj)
    obtain ⟨s, hs, h0⟩ := hj
    exact ⟨⟨s, by rw [ok.others j hji]; exact hs, h0⟩, hji⟩
  have hlivenew : ∀ j, Live a' j → Live a j ∨ j = id.index0 := by
    intro j hj
    by_cases hji : j = id.index0
    · exact Or.inr hji
    · obtain ⟨s, hs, h0⟩ := hj
      exact Or.inl ⟨s, by rw [← ok.others j hji]; exact hs, h0⟩
  have hi' : Live a' id.index0 := ok.liveId.2.1
  have hkidsLive : ∀ u, Live a u → ∀ k ∈ g.kids u, Live a k := fun u _ k hk => (h.ctx.rep.kidsLive u k hk).2.1
  refine ⟨⟨ok.rep, ?_⟩, ?_, ?_, ?_, ?_, ?_, h.clean⟩
  · -- injectivity of the extended numbering
    intro u v' hu hv e
    simp only [View.extend] at e
    by_cases hui : u = id.index0
    · by_cases hvi : v' = id.index0
      · rw [hui, hvi]
      · rw [if_pos hui, if_neg hvi] at e
        have := h.below v' ((hlivenew v' hv).resolve_right hvi)
        omega
    · by_cases hvi : v' = id.index0
      · rw [if_neg hui, if_pos hvi] at e
        have := h.below u ((hlivenew u hu).resolve_right hui)
        omega
      · rw [if_neg hui, if_neg hvi] at e
        exact h.ctx.inj u v' ((hlivenew u hu).resolve_right hui) ((hlivenew v' hv).resolve_right hvi) e
  · -- the old trees read the same, the new node is a new root
    simp only [Forest.newNode]
    refine IsTrees.append ?_ (.cons ?_ .nil)
    · refine IsTrees.congr (fun u => Live a u) ?_ h.trees h.rsLive
      intro u hu
      have hui := (hliveold u hu).2
      exact ⟨by rw [ok.kids], by simp [View.extend, hui], by simp [View.extend, hui], hkidsLive u hu⟩
    · have : IsTree g' (w.extend id.index0 f.next (dec v)) id.index0
          (.node ((w.extend id.index0 f.next (dec v)).rho id.index0) ((w.extend id.index0 f.next (dec v)).val id.index0) []) :=
        .mk (by rw [ok.kidsNil]; exact .nil)
      simpa [View.extend] using this
  · refine List.nodup_append.mpr ⟨h.rsNodup, by simp, fun y hy z hz e => ?_⟩
    simp at hz; subst hz; subst e
    exact hfresh (h.rsLive _ hy)
  · intro j
    simp only [List.mem_append, List.mem_singleton]
    constructor
    · rintro (hj | hj)
      · obtain ⟨hl, hp⟩ := (h.rsMem j).mp hj
        exact ⟨(hliveold j hl).1, by rw [ok.par]; exact hp⟩
      · subst hj; exact ⟨hi', ok.parNone⟩
    · rintro ⟨hl, hp⟩
      rcases hlivenew j hl with hl' | e
      · exact Or.inl ((h.rsMem j).mpr ⟨hl', by rw [← ok.par]; exact hp⟩)
      · exact Or.inr e
  · intro u hu
    simp only [Forest.newNode, View.extend]
    by_cases hui : u = id.index0
    · rw [if_pos hui]; omega
    · rw [if_neg hui]
      have := h.below u ((hlivenew u hu).resolve_right hui)
      omega
  · intro j s v' hs hd
    simp only [View.extend]
    by_cases hji : j = id.index0
    · subst hji
      rw [if_pos rfl]
      obtain ⟨s0, hs0, hd0⟩ := ok.value
      rw [hs] at hs0; cases hs0
      rw [hd] at hd0; cases hd0; rfl
    · rw [if_neg hji]
      exact h.vals j s v' (by rw [← ok.others j hji]; exact hs) hd

end Arena
end XotModel
