/-
  FspecReplGapNS2 — C05 for `replace(a, b)`, gap geometry, replacing node not text and a sibling
  of `a`: the replacing node stands LEFT of the gap (`gap_left`).
-/
import XotModel.Lemmas.FspecReplGapNS

namespace XotModel
open HTree Spec

namespace ReplGapNS

/-- `… t … P A N …`: the replacing node `t` stands before `P`. -/
theorem gap_left {f : Forest} {a b q : Nat} {vq : Value} {l1 l2 r0 : List HTree} {P A N t : HTree}
    {ps ns : Str} (inv : f.Inv) (norm : f.Normal) (hc : f.consolidation = true)
    (sq : SiteAt f q vq (l1 ++ t :: (l2 ++ P :: A :: N :: r0)))
    (ha : A.handle = a) (hb : t.handle = b)
    (hvq : vq.isElement = true ∨ vq.isDocument = true)
    (htn : t.value.isNormal = true) (htd : t.value.isDocument = false) (htt : t.value.isText = false)
    (hP : P.value = .text ps) (hN : N.value = .text ns) :
    ∃ f2, (f.editAt (some q) (dropTop a)).insertAfter P.handle b = (f2, .ok) ∧
      (f2.removeConsolidate (some P.handle) (f2.nextSibling P.handle)).1
        = specReplace (Keep.resident b) a b f := by
  subst ha hb
  obtain ⟨ndL, hqL⟩ := sq.nodupKids
  have htx : textData t = none := textData_none_of_not_text htt
  have hPt : P.value.isText = true := by rw [hP]; rfl
  have hNt : N.value.isText = true := by rw [hN]; rfl
  have hPn : P.value.isNormal = true := normal_of_text hPt
  -- bracketings of the child list
  have eP : l1 ++ t :: (l2 ++ P :: A :: N :: r0) = (l1 ++ t :: l2) ++ P :: (A :: N :: r0) := by simp
  have eA : l1 ++ t :: (l2 ++ P :: A :: N :: r0) = (l1 ++ t :: (l2 ++ [P])) ++ A :: (N :: r0) := by simp
  obtain ⟨tlT, trT⟩ := tops_ne_of_nodup ndL
  obtain ⟨tlP, trP⟩ := tops_ne_of_nodup (eP ▸ ndL)
  obtain ⟨tlA, trA⟩ := tops_ne_of_nodup (eA ▸ ndL)
  have sqA : SiteAt f q vq ((l1 ++ t :: (l2 ++ [P])) ++ A :: (N :: r0)) := eA ▸ sq
  have hgb : f.get? t.handle = some t := sq.getKid
  have hpb : f.parent? t.handle = some q := Forest.parent?_of_ctx sq.ctx
  have hpa : f.parent? A.handle = some q := Forest.parent?_of_ctx sqA.ctx
  -- the forest after `remove_subtree(a)`
  have s1 : SiteAt (f.editAt (some q) (dropTop A.handle)) q vq (l1 ++ t :: (l2 ++ P :: N :: r0)) := by
    have := sqA.edit (dropTop A.handle) (by
      rw [dropTop_mid rfl tlA trA]; exact sublist_without_mid _ _ _)
    rw [dropTop_mid rfl tlA trA] at this
    simpa using this
  have s1P : SiteAt (f.editAt (some q) (dropTop A.handle)) q vq ((l1 ++ t :: l2) ++ P :: (N :: r0)) := by
    simpa using s1
  have hns : (f.editAt (some q) (dropTop A.handle)).nextSibling P.handle ≠ some t.handle := by
    rw [Forest.nextSibling_of_ctx s1P.ctx]
    have : nextOf (N :: r0) P = some N.handle := by
      simp [nextOf, text_category hPt, text_category hNt]
    simp only
    rw [this]
    intro e
    exact trT N (by simp) (Option.some.inj e)
  have hleafL := sq.leaf inv.valid
  have hleafZ : ∀ k ∈ l2 ++ P :: N :: r0, k.value.isText = true → k.kids = [] := by
    intro k hk
    apply hleafL k
    simp only [List.mem_append, List.mem_cons] at hk ⊢
    rcases hk with h | h | h | h
    · exact Or.inr (Or.inr (Or.inl h))
    · exact Or.inr (Or.inr (Or.inr (Or.inl h)))
    · exact Or.inr (Or.inr (Or.inr (Or.inr (Or.inr (Or.inl h)))))
    · exact Or.inr (Or.inr (Or.inr (Or.inr (Or.inr (Or.inr h)))))
  -- no adjacent text in the original list
  have hstrict : noAdjacentText (l1 ++ t :: (l2 ++ P :: A :: N :: r0)) = true :=
    (validTree_node (sq.valid (norm hc))).2.2.1 rfl
  obtain ⟨hl1, htrest, _⟩ := noAdj_append.1 hstrict
  have hrest : noAdjacentText ((l2 ++ [P]) ++ A :: N :: r0) = true := by
    have := noAdj_tail htrest
    simpa using this
  obtain ⟨hl2P, hANr, _⟩ := noAdj_append.1 hrest
  have hNr : noAdjacentText (N :: r0) = true := noAdj_tail hANr
  have htNr : noAdjacentText (t :: N :: r0) = true := noAdj_nontext_cons htt hNr
  -- the specification's list, up to the merge left of `t`
  have hspec0 : mergeRuns (Keep.resident t.handle)
      (replaceTop A.handle (fun _ => [t]) (dropTop t.handle (l1 ++ t :: (l2 ++ P :: A :: N :: r0))))
      = mergeRuns (Keep.resident t.handle) (l1 ++ (l2 ++ [P])) ++ t :: N :: r0 := by
    rw [dropTop_mid rfl tlT trT]
    have e : l1 ++ (l2 ++ P :: A :: N :: r0) = (l1 ++ (l2 ++ [P])) ++ A :: (N :: r0) := by simp
    rw [e, spec_list rfl (fun k hk => tlA k (by
      simp only [List.mem_append, List.mem_cons, List.not_mem_nil, or_false] at hk ⊢
      rcases hk with h | h | h
      · exact Or.inl h
      · exact Or.inr (Or.inr (Or.inl h))
      · exact Or.inr (Or.inr (Or.inr h)))) htt, mergeRuns_id _ hNr]
  rcases insertAfter_eval s1 hvq htn htd htx (w := P) (by simp) hPn hns hleafZ with
    ⟨hseam, hm⟩ | ⟨_, X', u, v, Z', x, y, eX, eZ, hx, hy, hm⟩
  · -- nothing merged at the old place of `t`
    have hc1 : (f.editAt (some q) (dropTop A.handle)).consolidation = true := by
      rw [Forest.editAt_consolidation]; exact hc
    have hI : insertAfterTop P.handle t (l1 ++ (l2 ++ P :: N :: r0)) = (l1 ++ l2) ++ P :: t :: N :: r0 := by
      have e : l1 ++ (l2 ++ P :: N :: r0) = (l1 ++ l2) ++ P :: (N :: r0) := by simp
      rw [e, insertAfterTop_mid t (fun k hk => tlP k (by
        simp only [List.mem_append, List.mem_cons] at hk ⊢
        rcases hk with h | h
        · exact Or.inl h
        · exact Or.inr (Or.inr h)))]
    apply close sq hc hgb hpa hpb (R := (l1 ++ l2) ++ P :: t :: N :: r0)
    · rw [hm, Forest.editAt_editAt, hI]; rfl
    · rw [hspec0, mergeRuns_after_leave hl1 hl2P (by
        intro a' b' ea eb
        rw [← head?_append_cons] at eb
        exact hseam hc1 a' b' ea eb)]
      simp
    · apply final_alive sq _ hPn htn htx
      intro z
      simp only [fs_handlesList_append, handlesList_cons, List.count_append]
      omega
  · -- the two text neighbours `u`, `v` of `t` are merged into `u`
    subst eX
    have hut : u.handle ≠ t.handle := tlT u (by simp)
    cases l2 with
    | nil =>
      -- `v` is `P` itself: the reference is rewritten to `u`, `P` is gone
      simp only [List.nil_append] at eZ
      injection eZ with e1 e2
      subst e1 e2
      have hy' : y = ps := by
        rw [hP] at hy
        injection hy with e
        exact e.symm
      subst hy'
      rw [if_pos rfl] at hm
      have hXu : ∀ k ∈ X', k.handle ≠ u.handle := by
        have e : (X' ++ [u]) ++ t :: ([] ++ P :: A :: N :: r0) = X' ++ u :: (t :: P :: A :: N :: r0) := by simp
        exact (tops_ne_of_nodup (e ▸ ndL)).1
      have hI : insertAfterTop u.handle t (X' ++ u.setValue (.text (x ++ y)) :: N :: r0)
          = X' ++ u.setValue (.text (x ++ y)) :: t :: N :: r0 := by
        have := insertAfterTop_mid (A := X') (w := u.setValue (.text (x ++ y))) (B := N :: r0) t
          (by rw [setValue_handle]; exact hXu)
        rw [setValue_handle] at this
        exact this
      apply close sq hc hgb hpa hpb (R := X' ++ u.setValue (.text (x ++ y)) :: t :: N :: r0)
      · rw [hm, Forest.editAt_editAt, hI]; rfl
      · rw [hspec0]
        simp only [List.nil_append]
        rw [mergeRuns_after_leave_merge (l' := X') (r' := []) hl1 (noAdj_single _) hx hP
          (Keep.resident_spec _ _ _ hut)]
        simp
      · apply final_dead sq (p := P.handle)
        · exact handle_mem_handlesList (by simp)
        · intro hmem
          have h1 := (List.nodup_iff_count.1 ndL) P.handle
          have h2 : 0 < (handles P).count P.handle := List.count_pos_iff.2 (fs_handle_mem_handles P)
          have h3 := List.count_pos_iff.2 hmem
          simp only [fs_handlesList_append, handlesList_cons, handlesList_nil, List.count_append,
            setValue_handles, List.count_nil] at h1 h3
          omega
    | cons v0 l2' =>
      simp only [List.cons_append] at eZ
      injection eZ with e1 e2
      subst e1 e2
      have hvP : v0.handle ≠ P.handle := tlP v0 (by simp)
      rw [if_neg hvP] at hm
      have hI : insertAfterTop P.handle t (X' ++ u.setValue (.text (x ++ y)) :: (l2' ++ P :: N :: r0))
          = (X' ++ u.setValue (.text (x ++ y)) :: l2') ++ P :: t :: N :: r0 := by
        have e : X' ++ u.setValue (.text (x ++ y)) :: (l2' ++ P :: N :: r0)
            = (X' ++ u.setValue (.text (x ++ y)) :: l2') ++ P :: (N :: r0) := by simp
        rw [e, insertAfterTop_mid t (by
          intro k hk
          simp only [List.mem_append, List.mem_cons] at hk
          rcases hk with h | h | h
          · exact tlP k (by simp [h])
          · rw [h, setValue_handle]; exact tlP u (by simp)
          · exact tlP k (by simp [h]))]
      apply close sq hc hgb hpa hpb (R := (X' ++ u.setValue (.text (x ++ y)) :: l2') ++ P :: t :: N :: r0)
      · rw [hm, Forest.editAt_editAt, hI]; rfl
      · rw [hspec0]
        have e : (X' ++ [u]) ++ ((v0 :: l2') ++ [P]) = (X' ++ [u]) ++ v0 :: (l2' ++ [P]) := by simp
        rw [e, mergeRuns_after_leave_merge (l' := X') (r' := l2' ++ [P]) hl1 hl2P hx hy
          (Keep.resident_spec _ _ _ hut)]
        simp
      · apply final_alive sq _ hPn htn htx
        intro z
        simp only [fs_handlesList_append, handlesList_cons, List.count_append, setValue_handles,
          handlesList_nil, List.count_nil]
        omega

theorem exists_concat_of_ne_nil {W : List HTree} (h : W ≠ []) : ∃ W' c, W = W' ++ [c] := by
  rcases List.eq_nil_or_concat W with e | ⟨W', c, e⟩
  · exact absurd e h
  · exact ⟨W', c, by rw [e, List.concat_eq_append]⟩

theorem getLast?_append_ne_nil (l : List HTree) {W : List HTree} (h : W ≠ []) :
    (l ++ W).getLast? = W.getLast? := by
  obtain ⟨W', c, e⟩ := exists_concat_of_ne_nil h
  subst e
  rw [← List.append_assoc, List.getLast?_concat, List.getLast?_concat]

/-- `… P A N … t …`: the replacing node `t` stands after `N` (`W` = the children from `N` up to `t`). -/
theorem gap_right {f : Forest} {a b q : Nat} {vq : Value} {l0 W r1 r2 : List HTree} {P A N t : HTree}
    {ps ns : Str} (inv : f.Inv) (norm : f.Normal) (hc : f.consolidation = true)
    (sq : SiteAt f q vq ((l0 ++ P :: A :: W) ++ t :: r2)) (hW : W = N :: r1)
    (ha : A.handle = a) (hb : t.handle = b)
    (hvq : vq.isElement = true ∨ vq.isDocument = true)
    (htn : t.value.isNormal = true) (htd : t.value.isDocument = false) (htt : t.value.isText = false)
    (hP : P.value = .text ps) (hN : N.value = .text ns) :
    ∃ f2, (f.editAt (some q) (dropTop a)).insertAfter P.handle b = (f2, .ok) ∧
      (f2.removeConsolidate (some P.handle) (f2.nextSibling P.handle)).1
        = specReplace (Keep.resident b) a b f := by
  subst ha hb
  obtain ⟨ndL, hqL⟩ := sq.nodupKids
  have htx : textData t = none := textData_none_of_not_text htt
  have hPt : P.value.isText = true := by rw [hP]; rfl
  have hNt : N.value.isText = true := by rw [hN]; rfl
  have hPn : P.value.isNormal = true := normal_of_text hPt
  have hWne : W ≠ [] := by rw [hW]; simp
  have hNW : N ∈ W := by rw [hW]; simp
  -- bracketings of the child list
  have eP : (l0 ++ P :: A :: W) ++ t :: r2 = l0 ++ P :: (A :: W ++ t :: r2) := by simp
  have eA : (l0 ++ P :: A :: W) ++ t :: r2 = (l0 ++ [P]) ++ A :: (W ++ t :: r2) := by simp
  obtain ⟨tlT, trT⟩ := tops_ne_of_nodup ndL
  obtain ⟨tlP, trP⟩ := tops_ne_of_nodup (eP ▸ ndL)
  obtain ⟨tlA, trA⟩ := tops_ne_of_nodup (eA ▸ ndL)
  have sqA : SiteAt f q vq ((l0 ++ [P]) ++ A :: (W ++ t :: r2)) := eA ▸ sq
  have hgb : f.get? t.handle = some t := sq.getKid
  have hpb : f.parent? t.handle = some q := Forest.parent?_of_ctx sq.ctx
  have hpa : f.parent? A.handle = some q := Forest.parent?_of_ctx sqA.ctx
  -- the forest after `remove_subtree(a)`
  have s1 : SiteAt (f.editAt (some q) (dropTop A.handle)) q vq ((l0 ++ P :: W) ++ t :: r2) := by
    have := sqA.edit (dropTop A.handle) (by
      rw [dropTop_mid rfl tlA trA]; exact sublist_without_mid _ _ _)
    rw [dropTop_mid rfl tlA trA] at this
    simpa using this
  have s1P : SiteAt (f.editAt (some q) (dropTop A.handle)) q vq (l0 ++ P :: (W ++ t :: r2)) := by
    simpa using s1
  have hns : (f.editAt (some q) (dropTop A.handle)).nextSibling P.handle ≠ some t.handle := by
    rw [Forest.nextSibling_of_ctx s1P.ctx]
    have : nextOf (W ++ t :: r2) P = some N.handle := by
      rw [hW]
      simp [nextOf, text_category hPt, text_category hNt]
    simp only
    rw [this]
    intro e
    exact tlT N (by simp [hNW]) (Option.some.inj e)
  have hleafL := sq.leaf inv.valid
  have hleafZ : ∀ k ∈ r2, k.value.isText = true → k.kids = [] := by
    intro k hk
    exact hleafL k (List.mem_append_right _ (List.mem_cons_of_mem _ hk))
  -- no adjacent text in the original list
  have hstrict : noAdjacentText ((l0 ++ [P]) ++ A :: (W ++ t :: r2)) = true := by
    rw [← eA]
    exact (validTree_node (sq.valid (norm hc))).2.2.1 rfl
  obtain ⟨hl0P, hArest, _⟩ := noAdj_append.1 hstrict
  obtain ⟨hWn, htr2, _⟩ := noAdj_append.1 (noAdj_tail hArest)
  have hr2 : noAdjacentText r2 = true := noAdj_tail htr2
  -- the specification's list, up to the merge right of `t`
  have hspec0 : mergeRuns (Keep.resident t.handle)
      (replaceTop A.handle (fun _ => [t]) (dropTop t.handle ((l0 ++ P :: A :: W) ++ t :: r2)))
      = (l0 ++ [P]) ++ t :: mergeRuns (Keep.resident t.handle) (W ++ r2) := by
    rw [dropTop_mid rfl tlT trT]
    have e : (l0 ++ P :: A :: W) ++ r2 = (l0 ++ [P]) ++ A :: (W ++ r2) := by simp
    rw [e, spec_list rfl tlA htt, mergeRuns_id _ hl0P]
  have hl0Pne : ∀ k ∈ l0, k.handle ≠ P.handle := tlP
  rcases insertAfter_eval s1 hvq htn htd htx (w := P) (by simp) hPn hns hleafZ with
    ⟨hseam, hm⟩ | ⟨_, X', u, v, Z', x, y, eX, eZ, hx, hy, hm⟩
  · -- nothing merged at the old place of `t`
    have hc1 : (f.editAt (some q) (dropTop A.handle)).consolidation = true := by
      rw [Forest.editAt_consolidation]; exact hc
    have hI : insertAfterTop P.handle t ((l0 ++ P :: W) ++ r2) = l0 ++ P :: t :: (W ++ r2) := by
      have e : (l0 ++ P :: W) ++ r2 = l0 ++ P :: (W ++ r2) := by simp
      rw [e, insertAfterTop_mid t hl0Pne]
    apply close sq hc hgb hpa hpb (R := l0 ++ P :: t :: (W ++ r2))
    · rw [hm, Forest.editAt_editAt, hI]; rfl
    · rw [hspec0, mergeRuns_after_leave hWn hr2 (by
        intro a' b' ea eb
        have e : (l0 ++ P :: W).getLast? = W.getLast? := by
          have : l0 ++ P :: W = (l0 ++ [P]) ++ W := by simp
          rw [this, getLast?_append_ne_nil _ hWne]
        exact hseam hc1 a' b' (e.trans ea) eb)]
      simp
    · apply final_alive sq _ hPn htn htx
      intro z
      simp only [fs_handlesList_append, handlesList_cons, List.count_append]
      omega
  · -- the two text neighbours `u`, `v` of `t` are merged into `u`
    subst eZ
    obtain ⟨W', c, hWc⟩ := exists_concat_of_ne_nil hWne
    subst hWc
    have e0 : (l0 ++ P :: W') ++ [c] = X' ++ [u] := by simpa using eX
    obtain ⟨e1, e2⟩ := List.append_inj' e0 rfl
    have e3 : c = u := by simpa using e2
    subst e3 e1
    have hut : c.handle ≠ t.handle := tlT c (by simp)
    have hvP : v.handle ≠ P.handle := trP v (by simp)
    rw [if_neg hvP] at hm
    have hI : insertAfterTop P.handle t ((l0 ++ P :: W') ++ c.setValue (.text (x ++ y)) :: Z')
        = l0 ++ P :: t :: (W' ++ c.setValue (.text (x ++ y)) :: Z') := by
      have e : (l0 ++ P :: W') ++ c.setValue (.text (x ++ y)) :: Z'
          = l0 ++ P :: (W' ++ c.setValue (.text (x ++ y)) :: Z') := by simp
      rw [e, insertAfterTop_mid t hl0Pne]
    apply close sq hc hgb hpa hpb (R := l0 ++ P :: t :: (W' ++ c.setValue (.text (x ++ y)) :: Z'))
    · rw [hm, Forest.editAt_editAt, hI]; rfl
    · rw [hspec0, mergeRuns_after_leave_merge (l' := W') (r' := Z') hWn hr2 hx hy
        (Keep.resident_spec _ _ _ hut)]
      simp
    · apply final_alive sq _ hPn htn htx
      intro z
      simp only [fs_handlesList_append, handlesList_cons, List.count_append, setValue_handles,
        handlesList_nil, List.count_nil]
      omega

end ReplGapNS

/-- **replace(a, b), gap geometry, `b` not text and a sibling of `a`** (not adjacent to it):
    `a` stands between the text nodes `P` and `N`.  After `remove_subtree(a)` the call
    `insert_after(P, b)` succeeds, and together with the last consolidation around `P` it yields
    exactly the specification's replacement, handle for handle, with xot's survivor rule. -/
theorem replace_gap_nontext_same {f : Forest} {a b q : Nat} {vq : Value} {l0 : List HTree} {P A N : HTree}
    {r0 : List HTree} {t : HTree} {ps ns : Str}
    (inv : f.Inv) (norm : f.Normal) (hc : f.consolidation = true)
    (ra : ReplArgs f a b q vq (l0 ++ [P]) A (N :: r0) t)
    (hP : P.value = .text ps) (hN : N.value = .text ns)
    (hbP : b ≠ P.handle) (hbN : b ≠ N.handle)
    (hbt : t.value.isText = false)
    (hsame : f.parent? b = some q) :
    ∃ f2, (f.editAt (some q) (dropTop a)).insertAfter P.handle b = (f2, .ok) ∧
      (f2.removeConsolidate (some P.handle) (f2.nextSibling P.handle)).1
        = specReplace (Keep.resident b) a b f := by
  have nd := inv.nodup
  have sq := ra.sq
  cases hctx : f.ctx? b with
  | none => rw [Forest.parent?_of_no_ctx hctx] at hsame; cases hsame
  | some cx =>
    obtain ⟨e0, vo, so⟩ := SiteAt.of_ctx nd hctx
    have hself : cx.self = t := by
      have := Forest.get?_of_ctx nd hctx
      rw [ra.hgb] at this
      exact (Option.some.inj this).symm
    have hpo : cx.parent = q := by
      rw [Forest.parent?_of_ctx hctx] at hsame
      exact Option.some.inj hsame
    obtain ⟨po, cl, k, cr⟩ := cx
    simp only at e0 so hself hpo
    subst hself hpo
    have hL : cl ++ k :: cr = (l0 ++ [P]) ++ A :: (N :: r0) := by
      have := so.kids
      rw [sq.kids] at this
      have := Option.some.inj this
      injection this with _ _ e3
      exact e3.symm
    have hk : k ∈ (l0 ++ [P]) ++ A :: (N :: r0) := by rw [← hL]; simp
    have hkP : k ≠ P := fun e => hbP (by rw [← e0, e])
    have hkN : k ≠ N := fun e => hbN (by rw [← e0, e])
    have hkA : k ≠ A := fun e => ra.hab (by rw [← e0, e, ra.ha])
    simp only [List.mem_append, List.mem_cons, List.not_mem_nil, or_false] at hk
    rcases hk with (h | h) | h | h | h
    · obtain ⟨l1, l2, e⟩ := List.append_of_mem h
      subst e
      have sq' : SiteAt f po vq (l1 ++ k :: (l2 ++ P :: A :: N :: r0)) := by simpa using sq
      exact ReplGapNS.gap_left inv norm hc sq' ra.ha e0 ra.hvq ra.htn ra.htd hbt hP hN
    · exact absurd h hkP
    · exact absurd h hkA
    · exact absurd h hkN
    · obtain ⟨r1, r2, e⟩ := List.append_of_mem h
      subst e
      have sq' : SiteAt f po vq ((l0 ++ P :: A :: (N :: r1)) ++ k :: r2) := by simpa using sq
      exact ReplGapNS.gap_right inv norm hc sq' rfl ra.ha e0 ra.hvq ra.htn ra.htd hbt hP hN

/-! ### Non-vacuity -/

namespace ReplGapNS

/-- `<p>x<b/>y<a/>z</p>`: text 1, element 2 (`b`), text 3 (`P`), element 4 (`a`), text 5 (`N`). -/
def witnessLeft : Forest :=
  { roots := [.node 0 (.element 2) [.node 1 (.text ['x']) [], .node 2 (.element 3) [],
      .node 3 (.text ['y']) [], .node 4 (.element 4) [], .node 5 (.text ['z']) []]], next := 6 }

/-- `<p>y<a/>z<b/>w</p>`: text 1 (`P`), element 2 (`a`), text 3 (`N`), element 4 (`b`), text 5. -/
def witnessRight : Forest :=
  { roots := [.node 0 (.element 2) [.node 1 (.text ['y']) [], .node 2 (.element 4) [],
      .node 3 (.text ['z']) [], .node 4 (.element 3) [.node 6 (.text ['i']) []],
      .node 5 (.text ['w']) []]], next := 7 }

/-- What the model computes on the two witnesses: `replace(a, b)` succeeds and is the
    specification; on the left witness `P` (node 3) is consumed by the merge at the old place of
    `b` and node 1 carries `xy`; on the right one node 3 carries `zw` and node 5 is gone. -/
example :
    witnessLeft.inv = true ∧ (witnessLeft.replace 4 2).2 = .ok ∧
    (witnessLeft.replace 4 2).1 = specReplace (Keep.resident 2) 4 2 witnessLeft ∧
    (witnessLeft.replace 4 2).1.roots = [.node 0 (.element 2) [.node 1 (.text ['x', 'y']) [],
      .node 2 (.element 3) [], .node 5 (.text ['z']) []]] ∧
    witnessRight.inv = true ∧ (witnessRight.replace 2 4).2 = .ok ∧
    (witnessRight.replace 2 4).1 = specReplace (Keep.resident 4) 2 4 witnessRight ∧
    (witnessRight.replace 2 4).1.roots = [.node 0 (.element 2) [.node 1 (.text ['y']) [],
      .node 4 (.element 3) [.node 6 (.text ['i']) []], .node 3 (.text ['z', 'w']) []]] := by
  decide

/-- The hypotheses of `replace_gap_nontext_same` hold on the left witness (`b` left of the gap,
    `P` itself is the consumed text node). -/
example : ∃ f2, (witnessLeft.editAt (some 0) (dropTop 4)).insertAfter 3 2 = (f2, .ok) ∧
    (f2.removeConsolidate (some 3) (f2.nextSibling 3)).1 = specReplace (Keep.resident 2) 4 2 witnessLeft :=
  replace_gap_nontext_same (f := witnessLeft) (a := 4) (b := 2) (q := 0) (vq := .element 2)
    (l0 := [.node 1 (.text ['x']) [], .node 2 (.element 3) []]) (P := .node 3 (.text ['y']) [])
    (A := .node 4 (.element 4) []) (N := .node 5 (.text ['z']) []) (r0 := []) (t := .node 2 (.element 3) [])
    (ps := ['y']) (ns := ['z'])
    ((Forest.inv_iff _).1 (by decide)) (fun _ => by decide) (by decide)
    ⟨⟨by decide, by decide⟩, rfl, by decide, Or.inl rfl, by decide, by decide, by decide, by decide, by decide⟩
    rfl rfl (by decide) (by decide) (by decide) (by decide)

/-- … and on the right witness (`b` right of the gap, `N` absorbs the text after `b`). -/
example : ∃ f2, (witnessRight.editAt (some 0) (dropTop 2)).insertAfter 1 4 = (f2, .ok) ∧
    (f2.removeConsolidate (some 1) (f2.nextSibling 1)).1 = specReplace (Keep.resident 4) 2 4 witnessRight :=
  replace_gap_nontext_same (f := witnessRight) (a := 2) (b := 4) (q := 0) (vq := .element 2)
    (l0 := []) (P := .node 1 (.text ['y']) [])
    (A := .node 2 (.element 4) []) (N := .node 3 (.text ['z']) [])
    (r0 := [.node 4 (.element 3) [.node 6 (.text ['i']) []], .node 5 (.text ['w']) []])
    (t := .node 4 (.element 3) [.node 6 (.text ['i']) []])
    (ps := ['y']) (ns := ['z'])
    ((Forest.inv_iff _).1 (by decide)) (fun _ => by decide) (by decide)
    ⟨⟨by decide, by decide⟩, rfl, by decide, Or.inl rfl, by decide, by decide, by decide, by decide, by decide⟩
    rfl rfl (by decide) (by decide) (by decide) (by decide)

end ReplGapNS
end XotModel
