/-
  FspecReplGapNF2 — C05 for `replace`, the gap case with a replacing node that is not text and
  not a child of the same parent, part 2: the replacing node `b` is a child of another node `po`.
  The old-site consolidation around `b` happens in the child list of `po`, seen through the
  removal of `a` (`φ = HTree.editAt q (dropTop a)`); it is written with list functions that
  commute with maps over the children, so that the edits at `po` and `q` can be exchanged.
-/
import XotModel.Lemmas.FspecReplGapNF

namespace XotModel
open HTree Spec

namespace ReplGapNF

/-- Everything after the old-site consolidation, for an abstract description `G` of what that
    consolidation did to the child list of `po`. -/
theorem gap_kid_finish {f : Forest} {a q : Nat} {vq : Value} {l0 : List HTree} {P A N : HTree}
    {r0 : List HTree} {t : HTree} {po : Nat} {vo : Value} {l r l1 r1 : List HTree}
    {G : List HTree → List HTree} {c1 : Bool}
    (hc : f.consolidation = true)
    (ra : ReplArgs f a t.handle q vq (l0 ++ [P]) A (N :: r0) t)
    (gp : Gap f a t.handle q vq l0 P A N r0 t) (hbt : t.value.isText = false)
    (so : SiteAt f po vo (l ++ t :: r)) (hne : po ≠ q)
    (so1 : SiteAt (f.editAt (some q) (dropTop a)) po vo
      (l.map (HTree.editAt q (dropTop a)) ++ t :: r.map (HTree.editAt q (dropTop a))))
    (hnat : ∀ ψ, KidMap ψ → NatFor ψ G)
    (hrc : (f.editAt (some q) (dropTop a)).removeConsolidate
        (prevOf (l.map (HTree.editAt q (dropTop a))) t) (nextOf (r.map (HTree.editAt q (dropTop a))) t)
        = ((f.editAt (some q) (dropTop a)).editAt (some po) G, c1))
    (hGL : G (l.map (HTree.editAt q (dropTop a)) ++ t :: r.map (HTree.editAt q (dropTop a))) = l1 ++ t :: r1)
    (hsub : (handlesList (l1 ++ t :: r1)).Sublist
      (handlesList (l.map (HTree.editAt q (dropTop a)) ++ t :: r.map (HTree.editAt q (dropTop a)))))
    (hlook : findList? q (l1 ++ t :: r1) =
      findList? q (l.map (HTree.editAt q (dropTop a)) ++ t :: r.map (HTree.editAt q (dropTop a))))
    (hgf : dropTop t.handle (G (l ++ t :: r)) =
      mergeRuns (Keep.resident t.handle) (dropTop t.handle (l ++ t :: r))) :
    ∃ f2, (f.editAt (some q) (dropTop a)).insertAfter P.handle t.handle = (f2, .ok) ∧
      (f2.removeConsolidate (some P.handle) (f2.nextSibling P.handle)).1
        = specReplace (Keep.resident t.handle) a t.handle f := by
  have sq := ra.sq
  obtain ⟨heval, sY, hcount⟩ := insertAfter_eval_kid so1 gp.s1 hne ra.hvq ra.hqt ra.htn ra.htd hbt gp.hPn
    gp.hnext hrc hGL hsub hlook
  refine ⟨_, heval, ?_⟩
  -- the final consolidation
  have sY' : SiteAt ((f.editAt (some q) (dropTop a)).editAt (some po) (dropTop t.handle ∘ G)) q vq
      (l0.map (HTree.editAt po (dropTop t.handle ∘ G)) ++ HTree.editAt po (dropTop t.handle ∘ G) P ::
        (N :: r0).map (HTree.editAt po (dropTop t.handle ∘ G))) := by
    simpa using sY
  have hfin := final_noop sY' hcount (by rw [editAt_value]; exact gp.hPn) ra.htn hbt
  rw [editAt_handle] at hfin
  rw [hfin]
  -- against the specification
  obtain ⟨_, hpoL⟩ := so.nodupKids
  have hpot : po ∉ handles t := by
    intro hin
    apply hpoL
    rw [fs_handlesList_append, handlesList_cons]
    exact List.mem_append_right _ (List.mem_append_left _ hin)
  have hfix : ∀ g, HTree.editAt po g t = t := fun g => editAt_of_not_mem t hpot
  have hnG : ∀ ψ, KidMap ψ → NatFor ψ (dropTop t.handle ∘ G) :=
    fun ψ hψ => NatFor.comp (hnat ψ hψ) (natFor_dropTop hψ _)
  have hnM : ∀ ψ, KidMap ψ → NatFor ψ (mergeRuns (Keep.resident t.handle) ∘ dropTop t.handle) :=
    fun ψ hψ => NatFor.comp (natFor_dropTop hψ _) (natFor_mergeRuns hψ _)
  have hnI : ∀ g, NatFor (HTree.editAt po g) (insertAfterTop P.handle t ∘ dropTop a) :=
    fun g => NatFor.comp (natFor_dropTop (kidMap_editAt _ _) _) (natFor_insertAfterTop (kidMap_editAt _ _) _ (hfix g))
  have hnR : ∀ g, NatFor (HTree.editAt po g) (replaceTop a (fun _ => [t])) :=
    fun g => natFor_replaceTop (kidMap_editAt _ _) a (by intro k; simp [hfix g])
  have hnMR : ∀ g, NatFor (HTree.editAt po g) (mergeRuns (Keep.resident t.handle) ∘ replaceTop a (fun _ => [t])) :=
    fun g => NatFor.comp (hnR g) (natFor_mergeRuns (kidMap_editAt _ _) _)
  -- the model: both edits of `q` after the edit of `po`
  have hmodel : ((f.editAt (some q) (dropTop a)).editAt (some po) (dropTop t.handle ∘ G)).editAt (some q)
        (insertAfterTop P.handle t) =
      (f.editAt (some po) (dropTop t.handle ∘ G)).editAt (some q) (insertAfterTop P.handle t ∘ dropTop a) := by
    rw [Forest.editAt_comm f hne (hnG _ (kidMap_editAt _ _)) (natFor_dropTop (kidMap_editAt _ _) _),
      Forest.editAt_editAt]
  -- the specification: both edits of `po` first
  have hpb : f.parent? t.handle = some po := Forest.parent?_of_ctx so.ctx
  have hspec : specReplace (Keep.resident t.handle) a t.handle f =
      (f.editAt (some po) (mergeRuns (Keep.resident t.handle) ∘ dropTop t.handle)).editAt (some q)
        (mergeRuns (Keep.resident t.handle) ∘ replaceTop a (fun _ => [t])) := by
    have hpa : f.parent? a = some q := Forest.parent?_of_ctx ra.ctx_a
    have e1 : ((f.editAt (some po) (dropTop t.handle)).editAt (some q) (replaceTop a (fun _ => [t]))).mergeAt
          (Keep.resident t.handle) (some po) =
        ((f.editAt (some po) (dropTop t.handle)).editAt (some q) (replaceTop a (fun _ => [t]))).editAt (some po)
          (mergeRuns (Keep.resident t.handle)) :=
      mergeAt_on (by rw [Forest.editAt_consolidation, Forest.editAt_consolidation]; exact hc) _ _
    rw [specReplace_unfold ra.hgb hpa, hpb, e1,
      mergeAt_on (by rw [Forest.editAt_consolidation, Forest.editAt_consolidation,
        Forest.editAt_consolidation]; exact hc),
      Forest.editAt_comm _ hne (natFor_mergeRuns (kidMap_editAt _ _) _) (hnR _),
      Forest.editAt_editAt, Forest.editAt_editAt]
  rw [hmodel, hspec]
  apply two_site_congr hne so sq
  · simp only [Function.comp]; exact hgf
  · simp only [Function.comp]
    rw [gp.dropA, gp.replA, insertAfterTop_mid t gp.tl0, mergeRuns_id _ gp.noadj]
  · exact hnM _ (kidMap_editAt _ _)
  · exact hnI _
  · exact hnM _ (kidMap_editAt _ _)
  · exact hnMR _

/-! ### The old-site consolidation as a function on lists that commutes with maps -/

/-- `u` gets the concatenated data, `v` disappears. -/
def mergeFn (uh vh : Nat) (V : Value) : List HTree → List HTree :=
  dropTop vh ∘ replaceTop uh (fun k => [k.setValue V])

theorem natFor_mergeFn {ψ : HTree → HTree} (hψ : KidMap ψ) (uh vh : Nat) (V : Value) :
    NatFor ψ (mergeFn uh vh V) :=
  NatFor.comp (natFor_setValTop hψ _ _) (natFor_dropTop hψ _)

/-- `mergeFn` on a child list `… u t v …` with distinct handles; and the list after `t` left. -/
theorem mergeFn_mid {X Y : List HTree} {u t v : HTree} (V : Value)
    (nd : (handlesList ((X ++ [u]) ++ t :: v :: Y)).Nodup) :
    mergeFn u.handle v.handle V ((X ++ [u]) ++ t :: v :: Y) = (X ++ [u.setValue V]) ++ t :: Y ∧
    dropTop t.handle ((X ++ [u.setValue V]) ++ t :: Y) = X ++ u.setValue V :: Y ∧
    dropTop t.handle ((X ++ [u]) ++ t :: v :: Y) = (X ++ [u]) ++ v :: Y ∧
    u.handle ≠ t.handle := by
  have e1 : (X ++ [u]) ++ t :: v :: Y = X ++ u :: (t :: v :: Y) := by simp
  have e2 : (X ++ [u]) ++ t :: v :: Y = (X ++ [u, t]) ++ v :: Y := by simp
  obtain ⟨tX, _⟩ := tops_ne_of_nodup (e1 ▸ nd)
  obtain ⟨tv1, tv2⟩ := tops_ne_of_nodup (e2 ▸ nd)
  obtain ⟨tt1, tt2⟩ := tops_ne_of_nodup nd
  have hut : u.handle ≠ t.handle := tt1 u (by simp)
  have tt1' : ∀ k ∈ X ++ [u.setValue V], k.handle ≠ t.handle := by
    intro k hk
    cases List.mem_append.1 hk with
    | inl h => exact tt1 k (List.mem_append_left _ h)
    | inr h =>
      have : k = u.setValue V := by simpa using h
      rw [this, setValue_handle]; exact hut
  refine ⟨?_, ?_, ?_, hut⟩
  · unfold mergeFn
    simp only [Function.comp]
    rw [e1, replaceTop_mid rfl tX]
    have e3 : X ++ [u.setValue V] ++ (t :: v :: Y) = (X ++ [u.setValue V, t]) ++ v :: Y := by simp
    rw [e3, dropTop_mid rfl (by
      intro k hk
      have hk' : k ∈ X ∨ k = u.setValue V ∨ k = t := by simpa using hk
      rcases hk' with h | h | h
      · exact tv1 k (by simp [h])
      · rw [h, setValue_handle]; exact tv1 u (by simp)
      · rw [h]; exact tv1 t (by simp)) tv2]
    simp
  · rw [dropTop_mid rfl tt1' (fun k hk => tt2 k (List.mem_cons_of_mem _ hk))]
    simp
  · rw [dropTop_mid rfl tt1 tt2]

/-- A text child is not the element / document `q`. -/
theorem text_kid_ne {f : Forest} {po q : Nat} {vo vq : Value} {L Lq : List HTree} {k : HTree}
    (so : SiteAt f po vo L) (sq : SiteAt f q vq Lq) (hk : k ∈ L) (hkt : k.value.isText = true)
    (hvq : vq.isElement = true ∨ vq.isDocument = true) : k.handle ≠ q := by
  intro e
  obtain ⟨X, Y, hXY⟩ := List.append_of_mem hk
  have so' : SiteAt f po vo (X ++ k :: Y) := hXY ▸ so
  have := so'.getKid
  rw [e, sq.kids] at this
  have := Option.some.inj this
  rw [← this] at hkt
  simp only [HTree.value] at hkt
  cases hvq with
  | inl h => cases vq <;> simp_all [Value.isElement, Value.isText]
  | inr h => cases vq <;> simp_all [Value.isDocument, Value.isText]

theorem find?_leaf_none {x : Nat} {k : HTree} (hleaf : k.kids = []) (hx : k.handle ≠ x) : find? x k = none := by
  cases k with
  | node h v ks =>
    simp only [HTree.kids] at hleaf
    simp only [HTree.handle] at hx
    subst hleaf
    rw [find?_node, if_neg hx, findList?_nil]

theorem editAt_kids_leaf {s : Nat} {g : List HTree → List HTree} {k : HTree} (hleaf : k.kids = [])
    (hs : k.handle ≠ s) : (HTree.editAt s g k).kids = [] := by
  cases k with
  | node h v ks =>
    simp only [HTree.kids] at hleaf
    simp only [HTree.handle] at hs
    subst hleaf
    rw [editAt_node, if_neg hs]
    rfl

/-- The child list of `po` (the parent of the replacing node) after `a` was removed. -/
theorem gap_site_other {f : Forest} {a b q : Nat} {vq : Value} {l0 : List HTree} {P A N : HTree}
    {r0 : List HTree} {t : HTree} {po : Nat} {vo : Value} {l r : List HTree}
    (ra : ReplArgs f a b q vq (l0 ++ [P]) A (N :: r0) t) (gp : Gap f a b q vq l0 P A N r0 t)
    (so : SiteAt f po vo (l ++ t :: r)) (hne : po ≠ q) :
    SiteAt (f.editAt (some q) (dropTop a)) po vo
      (l.map (HTree.editAt q (dropTop a)) ++ t :: r.map (HTree.editAt q (dropTop a))) := by
  have sq := ra.sq
  have nd := sq.nd
  have hpoA : po ∉ handles A := by
    intro hin
    have h1 : f.get? po = find? po A := by
      rw [Forest.get?_eq]; exact findList?_inside f.roots A nd ra.live_a hin
    rw [so.kids] at h1
    have hsub := find?_sublist A _ h1.symm
    apply ra.hbA
    apply hsub.subset
    rw [handles_node, ← ra.hb]
    exact List.mem_cons_of_mem _ (handle_mem_handlesList (List.mem_append_right _ List.mem_cons_self))
  have := sq.other so.kids hne (dropTop a) (handlesList_dropTop_sublist a _)
    (findList?_dropTop _ (by
      intro k hk hka
      rw [gp.onlyA k hk hka]; exact hpoA))
  rw [List.map_append, List.map_cons, editAt_of_not_mem t ra.hqt] at this
  exact this

end ReplGapNF

open ReplGapNF

/-- **replace**, gap case, the replacing node (not text) is a child of another node. -/
theorem replace_gap_nontext_other {f : Forest} {a b q : Nat} {vq : Value} {l0 : List HTree} {P A N : HTree}
    {r0 : List HTree} {t : HTree} {ps ns : Str} {po : Nat} {vo : Value} {l r : List HTree}
    (inv : f.Inv) (norm : f.Normal) (hc : f.consolidation = true)
    (ra : ReplArgs f a b q vq (l0 ++ [P]) A (N :: r0) t)
    (hP : P.value = .text ps) (hN : N.value = .text ns)
    (hbt : t.value.isText = false)
    (so : SiteAt f po vo (l ++ t :: r)) (hne : po ≠ q) :
    ∃ f2, (f.editAt (some q) (dropTop a)).insertAfter P.handle b = (f2, .ok) ∧
      (f2.removeConsolidate (some P.handle) (f2.nextSibling P.handle)).1
        = specReplace (Keep.resident b) a b f := by
  have hb := ra.hb
  subst hb
  have gp := gap_of_args norm hc ra hP hN hbt
  have sq := ra.sq
  have so1 := gap_site_other ra gp so hne
  have hc1 : (f.editAt (some q) (dropTop a)).consolidation = true := by
    rw [Forest.editAt_consolidation]; exact hc
  -- what validity of `f` says about the child list of `po`
  have hord := (validTree_node (so.valid inv.valid)).2.1
  have hleaf := so.leaf inv.valid
  have hstrict := (validTree_node (so.valid (norm hc))).2.2.1 rfl
  obtain ⟨hl, htr, _⟩ := noAdj_append.1 hstrict
  have hr := noAdj_tail htr
  obtain ⟨ndL, _⟩ := so.nodupKids
  obtain ⟨tl, tr⟩ := tops_ne_of_nodup ndL
  have hcat := hcat_of_ordered hord
  -- the model's consolidation around `b`, in the forest without `a`
  have so1' : SiteAt (f.editAt (some q) (dropTop a)) po vo
      (l.map (HTree.editAt q (dropTop a)) ++ ([t] ++ r.map (HTree.editAt q (dropTop a)))) := so1
  have hleaf1 : ∀ k ∈ r.map (HTree.editAt q (dropTop a)), k.value.isText = true → k.kids = [] := by
    intro k hk hkt
    obtain ⟨k0, hk0, e⟩ := List.mem_map.1 hk
    subst e
    rw [editAt_value] at hkt
    have hk0m : k0 ∈ l ++ t :: r := List.mem_append_right _ (List.mem_cons_of_mem _ hk0)
    exact editAt_kids_leaf (hleaf k0 hk0m hkt) (text_kid_ne so sq hk0m hkt ra.hvq)
  have hcat1 : ∀ x y, (l.map (HTree.editAt q (dropTop a))).getLast? = some x →
      (r.map (HTree.editAt q (dropTop a))).head? = some y → x.value.isText = true → y.value.isText = true →
      x.value.category = t.value.category ∧ y.value.category = t.value.category := by
    intro x y hx hy hxt hyt
    rw [List.getLast?_map] at hx
    rw [List.head?_map] at hy
    cases hx0 : l.getLast? with
    | none => rw [hx0] at hx; cases hx
    | some x0 =>
      cases hy0 : r.head? with
      | none => rw [hy0] at hy; cases hy
      | some y0 =>
        rw [hx0] at hx
        rw [hy0] at hy
        simp only [Option.map_some, Option.some.injEq] at hx hy
        subst hx hy
        rw [editAt_value] at hxt hyt ⊢
        rw [editAt_value]
        exact hcat x0 y0 hx0 hy0 hxt hyt
  rcases oldSite (k := t) so1' hleaf1 hcat1 with ⟨h1, h2⟩ | ⟨_, l'', a', b', r'', x, y, el, er, hx, hy, _, _, h3⟩
  · -- nothing to consolidate at the old site
    refine gap_kid_finish (G := id) (c1 := false) (l1 := l.map (HTree.editAt q (dropTop a)))
      (r1 := r.map (HTree.editAt q (dropTop a))) hc ra gp hbt so hne so1 (fun ψ _ => natFor_id ψ) ?_ rfl
      (List.Sublist.refl _) rfl ?_
    · rw [h1, Forest.editAt_id]
    · simp only [id]
      rw [dropTop_mid rfl tl tr]
      symm
      apply mergeRuns_after_leave hl hr
      intro x0 y0 hx0 hy0 ⟨hxt, hyt⟩
      refine h2 hc1 (HTree.editAt q (dropTop a) x0) (HTree.editAt q (dropTop a) y0) ?_ ?_ ?_
      · rw [List.getLast?_map, hx0]; rfl
      · rw [List.head?_map, hy0]; rfl
      · rw [editAt_value, editAt_value]; exact ⟨hxt, hyt⟩
  · -- the two text nodes around `b` are consolidated
    obtain ⟨lA, lB, e1, e2, e3⟩ := List.map_eq_append_iff.1 el
    obtain ⟨u, e4, e5⟩ := List.map_eq_singleton_iff.1 e3
    obtain ⟨v, r', e6, e7, e8⟩ := List.map_eq_cons_iff.1 er
    subst e1 e2 e4 e5 e6 e7 e8
    rw [editAt_value] at hx hy
    have hut : u.value.isText = true := by rw [hx]; rfl
    have hvt : v.value.isText = true := by rw [hy]; rfl
    have hum : u ∈ (lA ++ [u]) ++ t :: v :: r' := by simp
    have hvm : v ∈ (lA ++ [u]) ++ t :: v :: r' := by simp
    have huq : u.handle ≠ q := text_kid_ne so sq hum hut ra.hvq
    have hvq : v.handle ≠ q := text_kid_ne so sq hvm hvt ra.hvq
    have hvleaf : v.kids = [] := hleaf v hvm hvt
    obtain ⟨g1, g2, g3, hub⟩ := mergeFn_mid (.text (x ++ y)) ndL
    have so1n : SiteAt (f.editAt (some q) (dropTop a)) po vo
        ((lA.map (HTree.editAt q (dropTop a)) ++ [HTree.editAt q (dropTop a) u]) ++ t ::
          HTree.editAt q (dropTop a) v :: r'.map (HTree.editAt q (dropTop a))) := by
      simpa using so1
    obtain ⟨k1, _, _, _⟩ := mergeFn_mid (.text (x ++ y)) so1n.nodupKids.1
    rw [editAt_handle, editAt_handle] at k1
    refine gap_kid_finish (G := mergeFn u.handle v.handle (.text (x ++ y))) (c1 := true)
      (l1 := lA.map (HTree.editAt q (dropTop a)) ++ [(HTree.editAt q (dropTop a) u).setValue (.text (x ++ y))])
      (r1 := r'.map (HTree.editAt q (dropTop a))) hc ra gp hbt so hne so1
      (fun ψ hψ => natFor_mergeFn hψ _ _ _) ?_ ?_ ?_ ?_ ?_
    · rw [h3]
      congr 1
      apply so1.congr
      simp only [List.map_append, List.map_cons, List.map_nil]
      rw [k1]
      simp
    · simp only [List.map_append, List.map_cons, List.map_nil]
      exact k1
    · simp only [List.map_append, List.map_cons, List.map_nil, fs_handlesList_append, handlesList_cons,
        handlesList_nil, setValue_handles, List.append_nil, List.append_assoc]
      exact (List.Sublist.refl _).append ((List.Sublist.refl _).append ((List.Sublist.refl _).append
        (List.sublist_append_right _ _)))
    · have hv0 : find? q (HTree.editAt q (dropTop a) v) = none :=
        find?_leaf_none (editAt_kids_leaf hvleaf hvq) (by rw [editAt_handle]; exact hvq)
      simp only [List.map_append, List.map_cons, List.map_nil, findList?_append, findList?_cons,
        findList?_nil, hv0, find?_setValue _ (show (HTree.editAt q (dropTop a) u).handle ≠ q by
          rw [editAt_handle]; exact huq)]
      simp
    · rw [g1, g2, g3]
      symm
      apply mergeRuns_after_leave_merge hl hr hx hy
      exact Keep.resident_spec t.handle _ _ hub

end XotModel

namespace XotModel
open HTree Spec ReplGapNF

/-- **replace**, gap case (`a` between the text nodes `P` and `N`), the replacing node `b` is not
    text and is not a child of `a`'s parent: `remove_subtree(a)`, `insert_after(P, b)` and the
    final consolidation together do what the specification says. -/
theorem replace_gap_nontext_far {f : Forest} {a b q : Nat} {vq : Value} {l0 : List HTree} {P A N : HTree}
    {r0 : List HTree} {t : HTree} {ps ns : Str}
    (inv : f.Inv) (norm : f.Normal) (hc : f.consolidation = true)
    (ra : ReplArgs f a b q vq (l0 ++ [P]) A (N :: r0) t)
    (hP : P.value = .text ps) (hN : N.value = .text ns)
    (hbt : t.value.isText = false)
    (hfar : f.parent? b ≠ some q) :
    ∃ f2, (f.editAt (some q) (dropTop a)).insertAfter P.handle b = (f2, .ok) ∧
      (f2.removeConsolidate (some P.handle) (f2.nextSibling P.handle)).1
        = specReplace (Keep.resident b) a b f := by
  have nd := inv.nodup
  rcases Forest.root_or_ctx ra.hgb with hroot | ⟨cx, hctx⟩
  · exact replace_gap_nontext_root norm hc ra hP hN hbt (Forest.ctx_none_of_root nd hroot)
  · obtain ⟨_, vo, so⟩ := SiteAt.of_ctx nd hctx
    have hself : cx.self = t := by
      have := Forest.get?_of_ctx nd hctx
      rw [ra.hgb] at this
      exact (Option.some.inj this).symm
    obtain ⟨po, l, k, r⟩ := cx
    simp only at so hself
    subst hself
    have hpo : po ≠ q := by
      intro e
      apply hfar
      rw [Forest.parent?_of_ctx hctx, e]
    exact replace_gap_nontext_other inv norm hc ra hP hN hbt so hpo

/-! ### The hypotheses are satisfiable: both geometries, on concrete forests -/

/-- `b = 6` (an element with a text child) is a child of `4`, between the text nodes `5` and `7`;
    `a = 2` sits between the text nodes `1` and `3` under `0`. -/
example :
    let f : Forest := { roots := [
      .node 0 (.element 2) [.node 1 (.text ['x']) [], .node 2 (.element 3) [], .node 3 (.text ['y']) []],
      .node 4 (.element 2) [.node 5 (.text ['u']) [], .node 6 (.element 3) [.node 8 (.text ['w']) []],
        .node 7 (.text ['v']) []]], next := 9 }
    ∃ f2, (f.editAt (some 0) (dropTop 2)).insertAfter 1 6 = (f2, .ok) ∧
      (f2.removeConsolidate (some 1) (f2.nextSibling 1)).1 = specReplace (Keep.resident 6) 2 6 f :=
  replace_gap_nontext_far (l0 := []) (P := .node 1 (.text ['x']) []) (A := .node 2 (.element 3) [])
    (N := .node 3 (.text ['y']) []) (r0 := []) (vq := .element 2)
    (t := .node 6 (.element 3) [.node 8 (.text ['w']) []])
    ((Forest.inv_iff _).1 (by decide)) (fun _ => by decide) rfl
    ⟨⟨by decide, by decide⟩, rfl, rfl, Or.inl rfl, by decide, rfl, rfl, by decide, by decide⟩
    rfl rfl rfl (by decide)

/-- The same call evaluated: the forest satisfies the invariant, `replace(2, 6)` succeeds and
    yields the specified forest (`5` keeps its identity with the data `uv`, `7` is gone);
    and the parentless geometry (`b = 6` a tree of its own). -/
example :
    let f : Forest := { roots := [
      .node 0 (.element 2) [.node 1 (.text ['x']) [], .node 2 (.element 3) [], .node 3 (.text ['y']) []],
      .node 4 (.element 2) [.node 5 (.text ['u']) [], .node 6 (.element 3) [.node 8 (.text ['w']) []],
        .node 7 (.text ['v']) []]], next := 9 }
    let g : Forest := { roots := [
      .node 0 (.element 2) [.node 1 (.text ['x']) [], .node 2 (.element 3) [], .node 3 (.text ['y']) []],
      .node 6 (.element 3) [.node 8 (.text ['w']) []]], next := 9 }
    f.inv = true ∧ (f.replace 2 6).2 = .ok ∧ f.parent? 6 = some 4 ∧
      (f.replace 2 6).1 = specReplace (Keep.resident 6) 2 6 f ∧
      (f.replace 2 6).1.roots =
        [.node 0 (.element 2) [.node 1 (.text ['x']) [], .node 6 (.element 3) [.node 8 (.text ['w']) []],
           .node 3 (.text ['y']) []],
         .node 4 (.element 2) [.node 5 (.text ['u', 'v']) []]] ∧
      g.inv = true ∧ (g.replace 2 6).2 = .ok ∧ g.parent? 6 = none ∧
      (g.replace 2 6).1 = specReplace (Keep.resident 6) 2 6 g := by
  decide

end XotModel
