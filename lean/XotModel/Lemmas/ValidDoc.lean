/-
  Lemmas about `validateWellFormedDocument` (Model/ValidDoc.lean): the loop against its
  specification, and the bridge from the parser's soundness facts (`StructValid`, `WellFormedTop`).
-/
import XotModel.Model.ValidDoc
import XotModel.Model.Valid
import XotModel.Lemmas.Parse

namespace XotModel

/-- A legal top-level child: element, comment or processing instruction. -/
def topOk (k : Tree) : Bool := k.value.isElement || k.value.isCommentOrPi

/-- The error the loop raises at an illegal child. -/
def topOffence (k : Tree) : XotError := if k.value.isText then .textAtTopLevel else .illegalAtTopLevel

theorem validateScan_cons_ok (k : Tree) (ks : List Tree) (n : Nat) (h : topOk k = true) :
    validateScan (k :: ks) n = validateScan ks (n + (if k.value.isElement then 1 else 0)) := by
  cases k with | node v kk => cases v <;> simp_all [topOk, validateScan, Tree.value, Value.isElement, Value.isCommentOrPi]

theorem validateScan_cons_bad (k : Tree) (ks : List Tree) (n : Nat) (h : topOk k = false) :
    validateScan (k :: ks) n = .error (topOffence k) := by
  cases k with | node v kk =>
    cases v <;> simp_all [topOk, topOffence, validateScan, Tree.value, Value.isElement, Value.isCommentOrPi, Value.isText]

/-- The loop succeeds iff every child is legal, and then it has counted the elements. -/
theorem validateScan_ok_iff (ks : List Tree) (n m : Nat) :
    validateScan ks n = .ok m ↔ ks.all topOk = true ∧ m = n + countElements ks := by
  induction ks generalizing n with
  | nil => simp [validateScan, countElements]; omega
  | cons k ks ih =>
    by_cases hk : topOk k = true
    · rw [validateScan_cons_ok k ks n hk, ih]
      simp only [List.all_cons, hk, Bool.true_and, countElements, List.filter_cons]
      by_cases he : k.value.isElement = true <;> simp [he] <;> omega
    · have hk' : topOk k = false := by simpa using hk
      rw [validateScan_cons_bad k ks n hk']
      simp [hk']

/-- The loop fails exactly at the FIRST illegal child, with that child's error. -/
theorem validateScan_error_iff (ks : List Tree) (n : Nat) (e : XotError) :
    validateScan ks n = .error e ↔
      ∃ pre k post, ks = pre ++ k :: post ∧ pre.all topOk = true ∧ topOk k = false ∧ e = topOffence k := by
  induction ks generalizing n with
  | nil => simp [validateScan]
  | cons k ks ih =>
    by_cases hk : topOk k = true
    · rw [validateScan_cons_ok k ks n hk, ih]
      constructor
      · rintro ⟨pre, k', post, rfl, hp, hk', he⟩
        exact ⟨k :: pre, k', post, rfl, by simp [hk, hp], hk', he⟩
      · rintro ⟨pre, k', post, heq, hp, hk', he⟩
        cases pre with
        | nil => simp only [List.nil_append, List.cons.injEq] at heq; rw [← heq.1, hk] at hk'; cases hk'
        | cons a pre =>
          simp only [List.cons_append, List.cons.injEq] at heq
          simp only [List.all_cons, Bool.and_eq_true] at hp
          exact ⟨pre, k', post, heq.2, hp.2, hk', he⟩
    · have hk' : topOk k = false := by simpa using hk
      rw [validateScan_cons_bad k ks n hk']
      constructor
      · intro h; cases h; exact ⟨[], k, ks, rfl, rfl, hk', rfl⟩
      · rintro ⟨pre, k', post, heq, hp, hk2, he⟩
        cases pre with
        | nil => simp only [List.nil_append, List.cons.injEq] at heq; rw [he, heq.1]
        | cons a pre =>
          simp only [List.cons_append, List.cons.injEq] at heq
          simp only [List.all_cons, Bool.and_eq_true] at hp
          rw [← heq.1, hk'] at hp; cases hp.1

theorem validateCount_ok_iff (n : Nat) : validateCount n = .ok () ↔ n = 1 := by
  unfold validateCount
  by_cases h0 : n = 0
  · simp [h0]
  · by_cases h1 : n > 1
    · simp [h0, h1]; omega
    · simp [h0, h1]; omega

theorem wellFormedDocument_eq (t : Tree) :
    wellFormedDocument t = (t.value.isDocument && t.normalKids.all topOk && (countElements t.normalKids == 1)) := rfl

/-- `validate_well_formed_document` against its decidable specification. -/
theorem validate_iff (t : Tree) : validateWellFormedDocument t = .ok () ↔ wellFormedDocument t = true := by
  rw [wellFormedDocument_eq]
  unfold validateWellFormedDocument
  by_cases hd : t.value.isDocument = false
  · simp [hd]
  · have hd' : t.value.isDocument = true := by simpa using hd
    simp only [hd', Bool.true_eq_false, if_false, Bool.true_and, Bool.and_eq_true, beq_iff_eq]
    cases hs : validateScan t.normalKids 0 with
    | error e =>
      simp only [reduceCtorEq, false_iff, not_and]
      intro hall hc
      have := (validateScan_ok_iff t.normalKids 0 (0 + countElements t.normalKids)).2 ⟨hall, rfl⟩
      rw [hs] at this; cases this
    | ok m =>
      obtain ⟨hall, hm⟩ := (validateScan_ok_iff _ _ _).1 hs
      simp only [validateCount_ok_iff, hall, true_and]
      omega

/-- The error answers, one by one (statement order of the Rust). -/
theorem validate_error_iff (t : Tree) (e : XotError) :
    validateWellFormedDocument t = .error e ↔
      (t.value.isDocument = false ∧ e = .notDocument) ∨
      (t.value.isDocument = true ∧ ∃ pre k post, t.normalKids = pre ++ k :: post ∧ pre.all topOk = true ∧
          topOk k = false ∧ e = topOffence k) ∨
      (t.value.isDocument = true ∧ t.normalKids.all topOk = true ∧ countElements t.normalKids = 0 ∧
          e = .noElementAtTopLevel) ∨
      (t.value.isDocument = true ∧ t.normalKids.all topOk = true ∧ countElements t.normalKids > 1 ∧
          e = .multipleElementsAtTopLevel) := by
  unfold validateWellFormedDocument
  by_cases hd : t.value.isDocument = false
  · simp only [hd, if_true, Except.error.injEq, Bool.false_eq_true, false_and, or_false]
    constructor
    · intro h; exact ⟨trivial, h.symm⟩
    · intro h; exact h.2.symm
  · have hd' : t.value.isDocument = true := by simpa using hd
    simp only [hd', Bool.true_eq_false, if_false, false_and, true_and, false_or]
    cases hs : validateScan t.normalKids 0 with
    | error e' =>
      have hex := (validateScan_error_iff _ _ _).1 hs
      have hnall : t.normalKids.all topOk = false := by
        apply Bool.eq_false_iff.2
        intro hall
        have := (validateScan_ok_iff t.normalKids 0 (0 + countElements t.normalKids)).2 ⟨hall, rfl⟩
        rw [hs] at this; cases this
      simp only [Except.error.injEq, hnall, Bool.false_eq_true, false_and, or_false]
      constructor
      · intro h; subst h; exact hex
      · intro h
        have := (validateScan_error_iff _ 0 e).2 h
        rw [hs] at this; cases this; rfl
    | ok m =>
      obtain ⟨hall, hm⟩ := (validateScan_ok_iff _ _ _).1 hs
      have hno : ¬ ∃ pre k post, t.normalKids = pre ++ k :: post ∧ pre.all topOk = true ∧
          topOk k = false ∧ e = topOffence k := by
        rintro ⟨pre, k, post, heq, _, hk, _⟩
        rw [heq] at hall
        simp only [List.all_append, List.all_cons, Bool.and_eq_true] at hall
        rw [hk] at hall; cases hall.2.1
      simp only [hno, false_or, hall, true_and]
      simp only [Nat.zero_add] at hm
      subst hm
      unfold validateCount
      by_cases h0 : countElements t.normalKids = 0
      · simp only [h0, if_true, Except.error.injEq]
        constructor
        · intro h; exact Or.inl ⟨trivial, h.symm⟩
        · rintro (h | h)
          · exact h.2.symm
          · omega
      · by_cases h1 : countElements t.normalKids > 1
        · simp only [h0, h1, if_true, if_false, Except.error.injEq, false_and, false_or, true_and]
          constructor <;> intro h <;> exact h.symm
        · simp [h0, h1]

/-- What the parser's soundness theorems give is what the call checks. -/
theorem validate_of_sound {t : Tree} (hv : StructValid t) (hw : WellFormedTop t) :
    validateWellFormedDocument t = .ok () := by
  rw [validate_iff, wellFormedDocument_eq]
  obtain ⟨hdoc, _, hk, _⟩ := hv
  cases t with
  | node v ks =>
    simp only [Tree.value] at hdoc
    rw [Tree.forall_node] at hk
    obtain ⟨⟨_, hnorm, hnodoc⟩, _⟩ := hk
    have hne : v.isElement = false := by cases v <;> simp_all [Value.isDocument, Value.isElement]
    have hnormal := hnorm hne
    have hkids : (Tree.node v ks).normalKids = ks := by
      unfold Tree.normalKids
      simp only [Tree.kids]
      cases ks with
      | nil => rfl
      | cons a r =>
        rw [List.dropWhile_cons]
        have := hnormal a (List.mem_cons_self ..)
        simp [this]
    rw [hkids]
    obtain ⟨hc, hnt⟩ := hw
    simp only [Tree.kids] at hc hnt
    simp only [Tree.value, hdoc, hc, Bool.true_and, beq_self_eq_true, Bool.and_true, List.all_eq_true]
    intro k hkm
    have h1 := hnormal k hkm
    have h2 := hnodoc k hkm
    have h3 := hnt k hkm
    cases k with
    | node kv kk =>
      simp only [Tree.value] at h1 h2 h3
      cases kv <;> simp_all [topOk, Tree.value, Value.isElement, Value.isCommentOrPi, Value.isNormal,
        Value.category, Value.isDocument, Value.isText]

end XotModel
