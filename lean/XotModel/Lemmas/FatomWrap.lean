/-
  C06 lemmas: `element_wrap`: refused with nothing changed, or carried out.
-/
import XotModel.Lemmas.FatomComposite

namespace XotModel
open HTree

namespace Forest

theorem isNormalNode_checked {f : Forest} {x : Nat} (hn : f.isNormalNode x = true)
    (hd : f.isDocument x = false) :
    ∃ v, f.value? x = some v ∧ v.category = .normal ∧ v.isDocument = false := by
  have hc := isNormalNode_cat hn
  unfold isDocument at hd
  cases hv : f.value? x with
  | none => rw [hv] at hc; simp at hc
  | some v =>
    rw [hv] at hc hd
    simp only [Option.map_some, Option.some.injEq] at hc
    refine ⟨v, rfl, hc, ?_⟩
    cases h : v.isDocument with
    | false => rfl
    | true => simp [h] at hd

/-- A parentless element can take any other live normal non-document node as child. -/
theorem checked_root_element {f : Forest} {wr x : Nat} (hel : f.isElement wr = true)
    (hp : f.parent? wr = none)
    (hx : ∃ v, f.value? x = some v ∧ v.category = .normal ∧ v.isDocument = false)
    (hne : x ≠ wr) : Checked f wr x := by
  have hl : f.isLive wr = true := by
    rw [isLive_iff_value?]; obtain ⟨n, e⟩ := isElement_value hel; rw [e]; rfl
  refine ⟨Or.inl hel, ?_, hx⟩
  rw [(ancestors_root hl hp).1]
  simpa using hne

theorem ancestors_root_of_isRoot {f : Forest} (w : f.W) {x : Nat} (h : f.isRoot x = true) :
    f.ancestors x = [x] := (ancestors_root (isRoot_live h) (isRoot_noParent w h)).1

/-- `element_wrap`: refused with nothing changed, or carried out. -/
theorem elementWrap_outcome {f : Forest} (w : f.W) (node name : Nat) :
    ((f.elementWrap node name).1 = f ∧ (f.elementWrap node name).2.1 = .err .invalidOperation) ∨
    OkRes f ((f.elementWrap node name).1, (f.elementWrap node name).2.1) := by
  unfold elementWrap
  cases hd : f.isDocument node with
  | true => left; simp
  | false =>
    cases hn : f.isNormalNode node with
    | false => left; simp
    | true =>
      cases hdp : (f.hasDocumentParent node && !f.isDocumentElement node) with
      | true => left; simp
      | false =>
        right
        simp only [Bool.not_true, Bool.false_eq_true, if_false]
        have hnorm := isNormalNode_checked hn hd
        have hlive : f.isLive node = true := by
          rw [isLive_iff_value?]; obtain ⟨v, hv, _⟩ := hnorm; rw [hv]; rfl
        -- the wrapper
        obtain ⟨hwr, w1, fr1, hg1, hr1, hdead⟩ := newNode_spec w (.element name)
        have hne : node ≠ f.next := fun e => by rw [e, hdead] at hlive; cases hlive
        have k1 : ∀ x, f.isLive x = true → Kept f (f.newNode (.element name)).1 x :=
          fun x hx => newNode_kept w _ hx
        unfold newElement
        rcases hnew : f.newNode (.element name) with ⟨f1, wr⟩
        rw [hnew] at hwr w1 fr1 hg1 hr1 k1
        simp only at hwr w1 fr1 hg1 hr1 k1
        subst hwr
        have k1n := k1 node hlive
        have hnorm1 : ∃ v, f1.value? node = some v ∧ v.category = .normal ∧ v.isDocument = false :=
          isNormalNode_checked (by rw [k1n.isNormalNode]; exact hn) (by rw [k1n.isDocument]; exact hd)
        have hel1 : f1.isElement f.next = true := by
          unfold isElement value?; rw [hg1]; rfl
        have hp1 : f1.parent? f.next = none := isRoot_noParent w1 hr1
        cases hpar : f.parent? node with
        | none =>
          simp only
          have ck : Checked f1 f.next node := checked_root_element hel1 hp1 hnorm1 hne
          have m := append_ok w1 (structureCheck_of_checked ck)
          exact ⟨m.ok, m.w, by rw [m.corrupt, fr1.corrupt]⟩
        | some parent =>
          simp only
          -- detach the node
          have hl1 : f1.isLive node = true := by rw [k1n.isLive]; exact hlive
          obtain ⟨t, hgt⟩ := get?_of_isLive hl1
          obtain ⟨w2, fr2, hg2, hr2, _⟩ := detachRaw_spec w1 hgt
          have hanc1w : node ∉ f1.ancestors f.next := by
            rw [ancestors_root_of_isRoot w1 hr1]; simpa using hne
          have k2 : ∀ x, f1.isLive x = true → node ∉ f1.ancestors x → Kept f1 (f1.detachRaw node) x :=
            fun x hx hax => fr2.keptOutside w1 w2 hgt hx hax
          have k2w := k2 f.next (isRoot_live hr1) hanc1w
          have hnorm2 : ∃ v, (f1.detachRaw node).value? node = some v ∧ v.category = .normal ∧
              v.isDocument = false := by
            have : (f1.detachRaw node).value? node = f1.value? node := by
              unfold value?; rw [hg2, hgt]
            rw [this]; exact hnorm1
          have hp2n : (f1.detachRaw node).parent? node = none := isRoot_noParent w2 hr2
          generalize f1.detachRaw node = f2 at w2 fr2 hg2 hr2 k2 k2w hnorm2 hp2n ⊢
          have ck2 : Checked f2 f.next node :=
            checked_root_element (by rw [k2w.isElement]; exact hel1) (by rw [k2w.parent]; exact hp1)
              hnorm2 hne
          have m3 := append_ok w2 (structureCheck_of_checked ck2)
          have hns2 : ∀ x, f2.nextSibling node ≠ some x := by
            intro x; rw [nextSibling_none_of_root hp2n]; simp
          have k3 : ∀ x, f2.isLive x = true → node ∉ f2.ancestors x →
              Kept f2 (f2.append f.next node).1 x :=
            fun x hx hax => m3.kept w2 hx hax (hns2 x)
          -- everything that does not have `node` among its ancestors is kept all the way
          have chain : ∀ x, f.isLive x = true → node ∉ f.ancestors x →
              Kept f (f2.append f.next node).1 x := by
            intro x hx hax
            have a1 := k1 x hx
            have a2 := k2 x (by rw [a1.isLive]; exact hx) (by rw [a1.anc]; exact hax)
            have a12 := a1.trans a2
            have a3 := k3 x (by rw [a12.isLive]; exact hx) (by rw [a12.anc]; exact hax)
            exact a12.trans a3
          have k3w : Kept f2 (f2.append f.next node).1 f.next :=
            k3 f.next (by rw [k2w.isLive]; exact isRoot_live hr1)
              (by rw [k2w.anc]; exact hanc1w)
          have hanp : node ∉ f.ancestors parent := not_mem_ancestors_parent w hpar
          have hlp : f.isLive parent = true := (parent?_live hpar).2
          have kpar := chain parent hlp hanp
          rcases happ : f2.append f.next node with ⟨f3, r3⟩
          rw [happ] at m3 k3w kpar chain
          have hr3 : r3 = .ok := m3.ok
          subst hr3
          simp only at m3 k3w kpar chain ⊢
          have w3 : f3.W := m3.w
          have hcor3 : f3.corrupt = f.corrupt := by
            have := m3.corrupt; simp only at this; rw [this, fr2.corrupt, fr1.corrupt]
          -- the wrapper can go under the old parent
          have hwel3 : f3.isElement f.next = true := by
            rw [k3w.isElement, k2w.isElement]; exact hel1
          have ck3 : Checked f3 parent f.next := by
            refine ⟨?_, ?_, ?_⟩
            · rw [kpar.isElement, kpar.isDocument]; exact parent?_container w hpar
            · rw [kpar.anc]
              intro h'
              rw [ancestors_live w h'] at hdead; cases hdead
            · obtain ⟨n, hv⟩ := isElement_value hwel3
              exact ⟨_, hv, rfl, rfl⟩
          have hs3 := structureCheck_of_checked ck3
          cases hprev : f.prevSibling node with
          | none =>
            simp only
            have m := prepend_ok w3 hs3
            exact ⟨m.ok, m.w, by rw [m.corrupt, hcor3]⟩
          | some p =>
            simp only
            have sib := prevSibling_sib w hprev
            obtain ⟨q, hq1, hq2⟩ := sib.parent
            have hqp : q = parent := Option.some.inj (hq1.symm.trans hpar)
            rw [hqp] at hq2
            have hanpp : node ∉ f.ancestors p := by
              rw [ancestors_step w hq2]
              intro h'
              rcases List.mem_cons.1 h' with e | e
              · exact sib.ne e.symm
              · exact hanp e
            have kp := chain p sib.live hanpp
            have hpp3 : f3.parent? p = some parent := by rw [kp.parent]; exact hq2
            have hpw : p ≠ f.next := fun e => by
              have := sib.live; rw [e, hdead] at this; cases this
            have hsr3 : f3.siblingReferenceCheck p f.next = true := by
              unfold siblingReferenceCheck
              rw [kp.isNormalNode]
              have : f.isNormalNode p = true :=
                isNormalNode_of_cat (by rw [sib.cat]; exact isNormalNode_cat hn)
              simp [hpw, this]
            have m := insertAfter_ok w3 hpp3 hs3 hsr3
            exact ⟨m.ok, m.w, by rw [m.corrupt, hcor3]⟩

end Forest
end XotModel
