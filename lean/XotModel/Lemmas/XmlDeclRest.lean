/-
  `serialize_xml_string` with declaration / doctype = declaration bytes ++ doctype bytes ++ the
  output without them: the prolog never changes the content (Model/XmlDecl).
-/
import XotModel.Model.XmlDecl

namespace XotModel

/-- The same parameters without declaration and doctype. -/
def XmlParams.body (p : XmlParams) : XmlParams := { p with declaration := none, doctype := none }

/-- What `Declaration::serialize` contributes. -/
def XmlParams.declBytes (p : XmlParams) : Str :=
  match p.declaration with
  | some d => d.bytes
  | none => []

/-- `dt` is what the `if let Some(doctype)` block wrote (successfully). -/
def DoctypeWritten (env : Env) (p : XmlParams) (t : Tree) (start : Path) (dt : Str) : Prop :=
  match p.doctype with
  | some d => ∃ name, doctypeName env t start = .ok name ∧ dt = d.bytes name
  | none => dt = []

variable (esc : Escapers) (env : Env)

theorem body_write (p : XmlParams) (t : Tree) (start : Path) :
    serializeXmlWriteWith esc env p.body t start =
      (match p.indentation with
       | some suppress => serializePrettyWriteWith esc env p.tokenParams suppress t start
       | none => serializeWriteWith esc env p.tokenParams t start) := by
  unfold serializeXmlWriteWith
  simp only [XmlParams.body, XmlParams.tokenParams, List.nil_append]
  cases p.indentation <;> rfl

/-- `serialize_xml_write` in terms of the same call without declaration and doctype. -/
theorem xmlWrite_eq (p : XmlParams) (t : Tree) (start : Path) :
    serializeXmlWriteWith esc env p t start =
      (match p.doctype with
       | none => (p.declBytes ++ (serializeXmlWriteWith esc env p.body t start).1,
                  (serializeXmlWriteWith esc env p.body t start).2)
       | some d =>
         match doctypeName env t start with
         | .ok name => (p.declBytes ++ d.bytes name ++ (serializeXmlWriteWith esc env p.body t start).1,
                        (serializeXmlWriteWith esc env p.body t start).2)
         | .err e => (p.declBytes, .err e)
         | .panic => (p.declBytes, .panic)) := by
  rw [body_write]
  unfold serializeXmlWriteWith XmlParams.declBytes
  cases hd : p.doctype with
  | none => cases hc : p.declaration <;> cases hi : p.indentation <;> simp
  | some d =>
    cases hn : doctypeName env t start with
    | ok name => cases hc : p.declaration <;> cases hi : p.indentation <;> simp
    | err e => cases hc : p.declaration <;> simp
    | panic => cases hc : p.declaration <;> simp

theorem xmlString_split (p : XmlParams) (t : Tree) (start : Path) (s : Str)
    (h : serializeXmlStringWith esc env p t start = .ok s) :
    ∃ dt body, DoctypeWritten env p t start dt ∧
      serializeXmlStringWith esc env p.body t start = .ok body ∧
      s = p.declBytes ++ dt ++ body := by
  unfold serializeXmlStringWith at h ⊢
  rw [xmlWrite_eq] at h
  unfold DoctypeWritten
  generalize serializeXmlWriteWith esc env p.body t start = bw at h ⊢
  obtain ⟨w, r⟩ := bw
  unfold bufferToString at h ⊢
  cases hd : p.doctype with
  | none =>
    simp only [hd] at h
    cases r with
    | ok u => cases u; simp only [] at h; cases h; exact ⟨[], w, rfl, rfl, by simp⟩
    | err e => cases h
    | panic => cases h
  | some d =>
    simp only [hd] at h
    cases hn : doctypeName env t start with
    | ok name =>
      simp only [hn] at h
      cases r with
      | ok u => cases u; simp only [] at h; cases h; exact ⟨d.bytes name, w, ⟨name, rfl, rfl⟩, rfl, rfl⟩
      | err e => cases h
      | panic => cases h
    | err e => simp [hn] at h
    | panic => simp [hn] at h

theorem xmlString_join (p : XmlParams) (t : Tree) (start : Path) (dt body : Str)
    (hdt : DoctypeWritten env p t start dt)
    (hb : serializeXmlStringWith esc env p.body t start = .ok body) :
    serializeXmlStringWith esc env p t start = .ok (p.declBytes ++ dt ++ body) := by
  unfold serializeXmlStringWith at hb ⊢
  rw [xmlWrite_eq]
  unfold DoctypeWritten at hdt
  generalize serializeXmlWriteWith esc env p.body t start = bw at hb ⊢
  obtain ⟨w, r⟩ := bw
  unfold bufferToString at hb ⊢
  cases r with
  | err e => cases hb
  | panic => cases hb
  | ok u =>
    cases u
    simp only [] at hb
    cases hb
    cases hd : p.doctype with
    | none =>
      simp only [hd] at hdt ⊢
      subst hdt
      simp
    | some d =>
      simp only [hd] at hdt ⊢
      obtain ⟨name, hn, rfl⟩ := hdt
      simp only [hn]

end XotModel
