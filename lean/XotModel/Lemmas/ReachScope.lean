/-
  Reach, part 4: the structural hypotheses of the namespace theorems (C09, C10, C15) —
  `UniqueDeclsBelow` (no element declares a prefix twice; C09 / C15), `UniqueBelow` (the same, in the
  vocabulary of the serialiser's frames; C10), `OnlyElementsDeclare` (C15) — follow from
  `Reach.Structural`, hence hold of the erasure of every root of a forest with the invariant.
-/
import XotModel.Lemmas.ReachNode
import XotModel.Lemmas.ScopeUnres
import XotModel.Lemmas.DedupInside
import XotModel.Lemmas.Trace

namespace XotModel.Reach
open XotModel

/-- The declared prefixes of a node are among the prefixes of its namespace children. -/
theorem nsDecls_fst_sublist (v : Value) (ks : List Tree) :
    ((Tree.node v ks).nsDecls.map Prod.fst).Sublist (nsPrefixes ks) := by
  have h1 : (Tree.node v ks).nsDecls.map Prod.fst =
      nsPrefixes (ks.takeWhile (fun k => k.value.category == .namespace)) := by
    unfold Tree.nsDecls Tree.namespaceNodes nsPrefixes
    simp only [Tree.kids]
    rw [List.map_filterMap]
    congr 1
    funext k
    cases k.value <;> rfl
  rw [h1]
  exact (List.takeWhile_sublist _).filterMap _

/-- No element of a structurally valid tree declares a prefix twice (C09 / C15 vocabulary). -/
theorem uniqueDeclsBelow_of_structural {t : Tree} (h : Structural t) : UniqueDeclsBelow t := by
  intro q e hq _
  cases e with
  | node v ks =>
    exact (forall_at _ q t h.unique v ks hq).2.sublist (nsDecls_fst_sublist v ks)

/-- The same in the vocabulary of the serialiser's frames (C10). -/
theorem uniqueBelow_of_structural {t : Tree} (h : Structural t) : UniqueBelow t := by
  intro rel n' hn
  cases n' with
  | node v ks =>
    have hu := (forall_at _ rel t h.unique v ks hn).2.sublist (nsDecls_fst_sublist v ks)
    unfold frameOf
    simp only [Tree.value]
    split
    · exact hu
    · exact List.nodup_nil

/-- Only elements carry namespace nodes (C15). -/
theorem onlyElementsDeclare_of_structural {t : Tree} (h : Structural t) : OnlyElementsDeclare t := by
  unfold OnlyElementsDeclare
  refine forall_mono (fun v ks hk hne => ?_) t h.kinds
  unfold Tree.nsDecls Tree.namespaceNodes
  simp only [Tree.kids]
  cases ks with
  | nil => rfl
  | cons k ks =>
    have hn := hk.2.1 hne k (List.mem_cons_self ..)
    have : (k.value.category == Category.namespace) = false := by
      cases hv : k.value <;> simp_all [Value.isNormal, Value.category]
    simp [this]

/-! ### From the forest invariant -/

/-- **No element of any root of a forest with the invariant declares a prefix twice**, nor does any
    element of any subtree `sub` of it (the form the C09 theorems take the hypothesis in). -/
theorem uniqueDeclsBelow_root {f : Forest} (hi : f.Inv) {r : HTree} (hr : r ∈ f.roots) {p : Path} {sub : Tree}
    (hs : r.erase.at? p = some sub) : UniqueDeclsBelow sub :=
  uniqueDeclsBelow_of_structural ((structural_root hi hr).sub hs)

theorem uniqueBelow_root {f : Forest} (hi : f.Inv) {r : HTree} (hr : r ∈ f.roots) : UniqueBelow r.erase :=
  uniqueBelow_of_structural (structural_root hi hr)

theorem onlyElementsDeclare_root {f : Forest} (hi : f.Inv) {r : HTree} (hr : r ∈ f.roots) :
    OnlyElementsDeclare r.erase :=
  onlyElementsDeclare_of_structural (structural_root hi hr)

end XotModel.Reach
