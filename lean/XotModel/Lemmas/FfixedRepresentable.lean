/-
  C20, parse route: an abstract document whose tree is in the C01 domain (`nodeOK` at every node) is
  well formed in the sense the construction routes need (`FContent.wf strict`, both settings of text
  consolidation) and has no empty text item (`FContent.noEmptyText`).
-/
import XotModel.Lemmas.RepresentableEdit
import XotModel.Model.Fixed

namespace XotModel

variable {env : Env}

/-- The value of the node an item becomes. -/
def contentValue : FContent → Value
  | .text s => .text s
  | .comment s => .comment s
  | .pi t d => .pi t d
  | .element n _ _ _ => .element n

theorem treeOfContent_value (c : FContent) : (treeOfContent c).value = contentValue c := by
  cases c <;> simp [treeOfContent, contentValue, Tree.value]

theorem treeOfList_values : ∀ cs : List FContent, (treeOfList cs).map Tree.value = cs.map contentValue
  | [] => by simp [treeOfList]
  | c :: cs => by simp [treeOfList, treeOfContent_value, treeOfList_values cs]

theorem element_kid_values (ps : List (Nat × Nat)) (as : List (Nat × Str)) (cs : List FContent) :
    (ps.map nsTree ++ (as.map attrTree ++ treeOfList cs)).map Tree.value =
      ps.map (fun p => Value.namespace p.1 p.2) ++ (as.map (fun a => Value.attribute a.1 a.2) ++
        cs.map contentValue) := by
  simp [treeOfList_values, nsTree, attrTree, Tree.value, Function.comp_def]

theorem nsPrefixes_element (ps : List (Nat × Nat)) (as : List (Nat × Str)) (cs : List FContent) :
    nsPrefixes (ps.map nsTree ++ (as.map attrTree ++ treeOfList cs)) = ps.map (·.1) := by
  rw [nsPrefixes_eq_map, element_kid_values, List.filterMap_append, List.filterMap_append]
  have h1 : (ps.map (fun p => Value.namespace p.1 p.2)).filterMap Value.nsKey = ps.map (·.1) := by
    rw [List.filterMap_map]; induction ps <;> simp_all [Value.nsKey, Value.attrKey]
  have h2 : (as.map (fun a => Value.attribute a.1 a.2)).filterMap Value.nsKey = [] := by
    rw [List.filterMap_map]; induction as <;> simp_all [Value.nsKey, Value.attrKey]
  have h3 : (cs.map contentValue).filterMap Value.nsKey = [] := by
    rw [List.filterMap_map]
    induction cs with
    | nil => rfl
    | cons c cs ih => cases c <;> simp_all [contentValue, Value.nsKey, Value.attrKey]
  rw [h1, h2, h3]; simp

theorem attrNames_element (ps : List (Nat × Nat)) (as : List (Nat × Str)) (cs : List FContent) :
    attrNames (ps.map nsTree ++ (as.map attrTree ++ treeOfList cs)) = as.map (·.1) := by
  rw [attrNames_eq_map, element_kid_values, List.filterMap_append, List.filterMap_append]
  have h1 : (ps.map (fun p => Value.namespace p.1 p.2)).filterMap Value.attrKey = [] := by
    rw [List.filterMap_map]; induction ps <;> simp_all [Value.nsKey, Value.attrKey]
  have h2 : (as.map (fun a => Value.attribute a.1 a.2)).filterMap Value.attrKey = as.map (·.1) := by
    rw [List.filterMap_map]; induction as <;> simp_all [Value.nsKey, Value.attrKey]
  have h3 : (cs.map contentValue).filterMap Value.attrKey = [] := by
    rw [List.filterMap_map]
    induction cs with
    | nil => rfl
    | cons c cs ih => cases c <;> simp_all [contentValue, Value.nsKey, Value.attrKey]
  rw [h1, h2, h3]; simp

theorem noAdjText_append_right : ∀ (a b : List Tree), noAdjText (a ++ b) = true → noAdjText b = true
  | [], _, h => h
  | _ :: a, b, h => noAdjText_append_right a b (noAdjText_tail h)

theorem noAdjText_treeOfList : ∀ cs : List FContent, noAdjText (treeOfList cs) = noAdjacentFText cs
  | [] => rfl
  | [c] => by simp [treeOfList, noAdjText, noAdjacentFText]
  | a :: b :: rest => by
    have ih := noAdjText_treeOfList (b :: rest)
    have ha : (treeOfContent a).value.isText = a.isText := by
      cases a <;> simp [treeOfContent, Tree.value, Value.isText, FContent.isText]
    have hb : (treeOfContent b).value.isText = b.isText := by
      cases b <;> simp [treeOfContent, Tree.value, Value.isText, FContent.isText]
    simp only [treeOfList] at ih ⊢
    simp only [noAdjText, noAdjacentFText, ha, hb, ih]

mutual
theorem wf_of_nodeOK (strict : Bool) : ∀ c : FContent, (treeOfContent c).allNodes (nodeOK env) = true →
    c.wf strict = true ∧ c.noEmptyText = true
  | .text s, h => by
    have := allNodes_value (env := env) h
    simp only [treeOfContent, Tree.value, valueOK, Bool.and_eq_true] at this
    exact ⟨rfl, by simpa [FContent.noEmptyText] using this.1⟩
  | .comment _, _ => ⟨rfl, rfl⟩
  | .pi _ _, _ => ⟨rfl, rfl⟩
  | .element n ps as cs, h => by
    simp only [treeOfContent] at h
    obtain ⟨_, _, hu, hadj, _⟩ := (nodeOK_iff env _ _).mp (nodeOK_of_allNodes h)
    have hk := wfList_of_nodeOK strict cs (fun k hk => allNodes_kid h (by simp [hk]))
    have h1 : (ps.map (·.1)).Nodup := by rw [← nsPrefixes_element ps as cs]; exact hu.2
    have h2 : (as.map (·.1)).Nodup := by rw [← attrNames_element ps as cs]; exact hu.1
    have h3 : noAdjacentFText cs = true := by
      rw [← noAdjText_treeOfList]
      exact noAdjText_append_right _ _ (noAdjText_append_right _ _ hadj)
    simp only [FContent.wf, FContent.noEmptyText, Bool.and_eq_true, decide_eq_true_eq, Bool.or_eq_true]
    exact ⟨⟨⟨⟨h1, h2⟩, Or.inr h3⟩, hk.1⟩, hk.2⟩
theorem wfList_of_nodeOK (strict : Bool) : ∀ cs : List FContent,
    (∀ k ∈ treeOfList cs, k.allNodes (nodeOK env) = true) →
    FContent.wfList strict cs = true ∧ FContent.noEmptyTextList cs = true
  | [], _ => ⟨rfl, rfl⟩
  | c :: cs, h => by
    have h1 := wf_of_nodeOK strict c (h _ (by simp [treeOfList]))
    have h2 := wfList_of_nodeOK strict cs (fun k hk => h k (by simp [treeOfList, hk]))
    simp only [FContent.wfList, FContent.noEmptyTextList, Bool.and_eq_true]
    exact ⟨⟨h1.1, h2.1⟩, h1.2, h2.2⟩
end

/-- A document whose tree is in the C01 domain is well formed for every construction route (text
    consolidation on or off) and has no empty text item. -/
theorem FDocument.wf_of_representable (strict : Bool) (d : FDocument)
    (hr : RepresentableFragment env (treeOf d) = true) :
    d.wf strict = true ∧ d.documentElement.toContent.noEmptyText = true := by
  obtain ⟨_, _, h3, _⟩ := (representableFragment_iff env _).mp hr
  unfold FDocument.wf
  apply wf_of_nodeOK strict
  apply allNodes_kid h3
  have : ∀ cs : List FContent, ∀ c ∈ cs, treeOfContent c ∈ treeOfList cs := by
    intro cs
    induction cs with
    | nil => intro c hc; cases hc
    | cons a cs ih =>
      intro c hc
      rcases List.mem_cons.mp hc with rfl | hc
      · simp [treeOfList]
      · simp [treeOfList, ih c hc]
  exact this _ _ (by simp [FDocument.items])

end XotModel
