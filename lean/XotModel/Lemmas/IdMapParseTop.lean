/-
  C08 and parsing, part 9: ids keep their meaning as tables grow (`Env.PrefixOf`), the summary of
  a parse used by `Props/C08.lean`, and the capacity witness.
-/
import XotModel.Lemmas.ParseQName
import XotModel.Lemmas.IdMapHtml5

namespace XotModel
open IdParse IdMap Gen

/-! ### An id of `e` means in `e'` what it means in `e` -/

theorem IdParse.prefix_get_eq {α : Type} {l l' : List α} (h : l <+: l') {i : Nat} (hi : i < l.length) :
    l'[i]? = l[i]? := by
  rw [List.getElem?_eq_getElem hi]
  exact prefix_get h (List.getElem?_eq_getElem hi)

theorem Env.PrefixOf.names_get {e e' : Env} (h : e.PrefixOf e') {n : Nat} (hn : n < e.names.length) :
    e'.names[n]? = e.names[n]? := prefix_get_eq h.names hn

theorem Env.PrefixOf.prefixStr_eq {e e' : Env} (h : e.PrefixOf e') {p : Nat} (hp : p < e.prefixes.length) :
    e'.prefixStr p = e.prefixStr p := by
  simp only [Env.prefixStr, List.getD_eq_getElem?_getD, prefix_get_eq h.prefixes hp]

theorem Env.PrefixOf.namespaceStr_eq {e e' : Env} (h : e.PrefixOf e') {p : Nat} (hp : p < e.namespaces.length) :
    e'.namespaceStr p = e.namespaceStr p := by
  simp only [Env.namespaceStr, List.getD_eq_getElem?_getD, prefix_get_eq h.namespaces hp]

/-- The expanded name (namespace URI, local name) of a name id of `e` is the same in `e'`. -/
theorem Env.PrefixOf.expanded_eq {e e' : Env} (h : e.PrefixOf e') (hd : e.DupFree) {n : Nat}
    (hn : n < e.names.length) : e'.expanded n = e.expanded n := by
  have hg := h.names_get hn
  have hns : e'.nsOfName n = e.nsOfName n := by
    simp only [Env.nsOfName, List.getD_eq_getElem?_getD, hg]
  have hl : e'.localName n = e.localName n := by
    simp only [Env.localName, List.getD_eq_getElem?_getD, hg]
  have hr : e.nsOfName n < e.namespaces.length := by
    have := hd.nsInRange _ (getD_mem ([], 0) hn)
    exact this
  simp only [Env.expanded, hns, hl, h.namespaceStr_eq hr]

theorem Value.idsIn_mono {e e' : Env} (h : e.PrefixOf e') {v : Value} (hv : v.idsIn e = true) :
    v.idsIn e' = true := by
  have a := h.names.length_le
  have b := h.prefixes.length_le
  have c := h.namespaces.length_le
  cases v <;> simp only [Value.idsIn, Bool.and_eq_true, decide_eq_true_eq] at hv ⊢ <;> omega

mutual
theorem Tree.idsIn_mono {e e' : Env} (h : e.PrefixOf e') : ∀ (t : Tree), t.idsIn e = true → t.idsIn e' = true
  | .node v ks, ht => by
    rw [Tree.idsIn, Bool.and_eq_true] at ht ⊢
    exact ⟨Value.idsIn_mono h ht.1, Tree.idsInList_mono h ks ht.2⟩
theorem Tree.idsInList_mono {e e' : Env} (h : e.PrefixOf e') : ∀ (ks : List Tree),
    Tree.idsIn.idsInList e ks = true → Tree.idsIn.idsInList e' ks = true
  | [], _ => rfl
  | k :: ks, hk => by
    rw [Tree.idsIn.idsInList, Bool.and_eq_true] at hk ⊢
    exact ⟨Tree.idsIn_mono h k hk.1, Tree.idsInList_mono h ks hk.2⟩
end

/-! ### What one parse does to a well-formed interner -/

/-- Accepted or rejected: the interner after the parse is the interner before after exactly the
    calls `buildRegs`; its `by_id` vectors are the tables the parser model reports. -/
theorem Interner.parse_tables {x : Interner} (h : x.WF) (m : Mode) (len : Nat) (ts : List Token)
    (lexErr : Option Nat) {env' : Env}
    (hb : (∃ p, build m len x.env ts lexErr = .ok p ∧ p.env = env') ∨
          (∃ e, build m len x.env ts lexErr = .err e env')) :
    (x.parse ts).env = env' ∧ env' = (x.env.regAll (buildRegs x.env ts)).1 ∧ (x.parse ts).WF ∧
      x.Mono (x.parse ts) ∧ x.env.PrefixOf env' ∧ env'.DupFree ∧ x.env.RegsInRange (buildRegs x.env ts) := by
  obtain ⟨b1, b2⟩ := Interner.parse_build h.inv m len ts lexErr
  have he : (x.parse ts).env = env' := by
    rcases hb with ⟨p, hp, rfl⟩ | ⟨e, he⟩
    · exact b1 p hp
    · exact b2 e env' he
  have hwf := h.parse ts
  refine ⟨he, ?_, hwf, Interner.regAll_mono _ x, ?_, ?_,
    buildRegs_inRange h.dupFree.prefixes h.dupFree.namespaces h.pf2 h.ns2 ts⟩
  · rw [← he]; exact Interner.regAll_env _ h.inv
  · rw [← he]; exact (Interner.regAll_mono _ x).prefixOf
  · rw [← he]; exact hwf.dupFree

/-- Accepted: every id in the tree was returned by one of the parse's calls and is an id of the
    tables left behind. -/
theorem Interner.parse_tree {x : Interner} {m : Mode} {len : Nat} {ts : List Token}
    {lexErr : Option Nat} {p : Parsed} (hb : build m len x.env ts lexErr = .ok p) :
    AllV (IssuedBy x.env (buildRegs x.env ts)) p.tree ∧ p.tree.idsIn p.env = true := by
  have hi := build_issued hb
  refine ⟨hi, ?_⟩
  rw [(build_trace m len x.env ts lexErr).1 p hb]
  exact idsIn_of_allV _ _ (allV_imp (fun v hv => IssuedBy.idsIn hv) _ hi)

/-! ### Capacity -/

/-- A full name table (exactly `2^bits` entries — still within `Env.Cap`) and one more name: the
    interner hands out id 0, the id of another name; the width-free tables of the parser model say
    `2^bits`.  So "at most `2^bits` entries in the table REACHED" cannot be dropped. -/
theorem Interner.full_table_wraps (x : Interner) (hx : x.Inv)
    (hfull : x.nameLookup.byId.length = 2 ^ nameIdBits) (loc : Str) (ns : Nat)
    (hnew : (loc, ns) ∉ x.nameLookup.byId) :
    (x.reg (.name loc ns)).2 = 0 ∧ (x.env.reg (.name loc ns)).2 = 2 ^ nameIdBits ∧
    x.env.names.length ≤ 2 ^ nameIdBits ∧
    (∃ k, x.nameLookup.getValue 0 = some k ∧ k ≠ (loc, ns)) := by
  refine ⟨?_, ?_, Nat.le_of_eq hfull, ?_⟩
  · show (getIdMut nameIdBits x.nameLookup (loc, ns)).2 = 0
    rw [getIdMut_of_not_mem hx.nm hnew]
    show toId nameIdBits x.nameLookup.byId.length = 0
    rw [hfull, toId_pow]
  · show (internIn x.nameLookup.byId (loc, ns)).2 = 2 ^ nameIdBits
    rw [internIn_snd_eq, List.idxOf_eq_length hnew, hfull]
  · have hpos : 0 < x.nameLookup.byId.length := by rw [hfull]; exact Nat.two_pow_pos _
    refine ⟨x.nameLookup.byId[0], List.getElem?_eq_getElem hpos, ?_⟩
    intro he
    exact hnew (he ▸ List.getElem_mem hpos)

/-! ### The smallest document that registers a name -/

/-- The tokens of `<loc/>`. -/
def emptyElementTokens (loc : Str) : List Token :=
  [.elementStart ⟨[], 0⟩ ⟨loc, 1⟩ ⟨'<' :: loc, 0⟩, .elementEnd .empty ⟨['/', '>'], 1 + strLen loc⟩]

theorem buildRegs_emptyElement (env : Env) (h0 : env.prefixes.idxOf ([] : Str) = 0) (loc : Str) :
    buildRegs env (emptyElementTokens loc) = [.pfx [], .name loc Env.noNamespace] := by
  have hp : (env.internPrefix []).2 = 0 := h0
  have hl : lookupPrefix ([] :: (Builder.new env).nsStack) (env.internPrefix []).2 = some Env.noNamespace := by
    rw [hp]; rfl
  simp only [buildRegs, emptyElementTokens, Builder.runRegs, Builder.stepRegs, Builder.step, Builder.element,
    ElementBuilder.new, List.nil_append, StrSpan.bareColon_zero, Bool.false_eq_true, if_false]
  simp only [Builder.openRegs, Builder.new, elementNameRegs, elementNameId, attrsRegs] at hl ⊢
  simp only [hl, List.cons_append, List.nil_append, List.append_nil, List.cons.injEq, true_and]
  split <;> rfl

/-! ### Which call names which place of the document -/

/-- A start tag `<p:loc …>` (`eb` = what `DocumentBuilder::element` kept of the `ElementStart`
    token: prefix and local name as written): the calls of `open_element` begin with the prefix as
    written and the name (local name as written, the namespace id the prefix resolves to on the
    namespace stack with this tag's own declarations on top); the element node stores the id the
    second call returned. -/
theorem openElement_place {b b' : Builder} {eb : ElementBuilder} (heb : b.eb = some eb)
    (hr : b.openElement = .ok b') :
    ∃ ns rest id, lookupPrefix (eb.namespaces :: b.nsStack) (b.env.internPrefix eb.pfx).2 = some ns ∧
      b.openRegs = .pfx eb.pfx :: .name eb.name ns :: rest ∧
      (b.env.regAll b.openRegs).2[1]? = some id ∧ b'.cur.value = .element id := by
  unfold Builder.openElement at hr
  rw [heb] at hr
  dsimp only at hr
  cases hn : elementNameId b.env (eb.namespaces :: b.nsStack) eb.pfx eb.name eb.prefixSpan with
  | panic => rw [hn] at hr; cases hr
  | err e env => rw [hn] at hr; cases hr
  | ok r =>
    obtain ⟨env1, nameId⟩ := r
    obtain ⟨ns, hns, hregs, hall⟩ := elementNameId_ok hn
    rw [hn] at hr
    simp only at hr
    split at hr
    · cases hr
    · cases hr
    · rename_i st hst
      simp only [Step.ok.injEq] at hr
      subst hr
      have hopen : b.openRegs = elementNameRegs b.env (eb.namespaces :: b.nsStack) eb.pfx eb.name ++
          attrsRegs (eb.namespaces :: b.nsStack) (b.curPath ++ [b.cur.rkids.length])
            { env := env1, seenIds := b.seenIds, idNodes := b.idNodes, seenNames := [],
              rkids := namespaceKids eb.namespaces, aspans := [] } eb.attributes := by
        unfold Builder.openRegs
        rw [heb]
        simp only [hn]
      refine ⟨ns, _, nameId, hns, by rw [hopen, hregs]; rfl, ?_, rfl⟩
      rw [hopen, Env.regAll_append, hall]
      rfl

/-- `DocumentBuilder::element` keeps prefix and local name of the `ElementStart` token as written. -/
theorem element_place (b : Builder) (pfx loc : StrSpan) :
    ∃ eb, (b.element pfx loc).eb = some eb ∧ eb.pfx = pfx.text ∧ eb.name = loc.text ∧ eb.namespaces = [] :=
  ⟨_, rfl, rfl, rfl, rfl⟩

/-- One attribute `p:loc="…"` of the start tag (`ab` = what `DocumentBuilder::attribute` kept):
    two calls, the prefix as written and (local name as written, namespace id: none for an
    unprefixed attribute, else what the prefix resolves to); the attribute node stores the id
    the second call returned. -/
theorem attribute_place {stack : NsStack} {node : Path} {st st1 : AttrLoop} {ab : AttributeBuilder}
    (h : addAttributes stack node st [ab] = .ok st1) :
    ∃ ns id v, attributeNameRegs st.env stack ab.pfx ab.name = [.pfx ab.pfx, .name ab.name ns] ∧
      (ns = Env.noNamespace ∨ lookupPrefix stack (st.env.internPrefix ab.pfx).2 = some ns) ∧
      (st.env.regAll (attributeNameRegs st.env stack ab.pfx ab.name)).2[1]? = some id ∧
      st1.rkids = .node (.attribute id v) [] :: st.rkids := by
  simp only [addAttributes] at h
  cases hn : attributeNameId st.env stack ab.pfx ab.name ab.prefixSpan with
  | panic => rw [hn] at h; cases h
  | err e env => rw [hn] at h; cases h
  | ok r =>
    obtain ⟨env1, nameId⟩ := r
    obtain ⟨ns, hregs, hns, hall⟩ := attributeNameId_ok hn
    rw [hn] at h
    simp only at h
    split at h
    · cases h
    · split at h
      · cases h
      · simp only [Step.ok.injEq] at h
        subst h
        exact ⟨ns, nameId, _, hregs, hns, by rw [hall]; rfl, rfl⟩

/-- A namespace declaration `xmlns:p="…"` / `xmlns="…"`: two calls, the prefix as written (empty
    for `xmlns=`) and the DECODED attribute value; the pair of ids returned is what the namespace
    node of the element will hold. -/
theorem prefix_place {b b' : Builder} {p : Str} {u : StrSpan} {sp : Span} (hr : b.prefix p u sp = .ok b') :
    ∃ us eb eb', parseContentGo true u.start 0 u.text = .ok us ∧ prefixRegs p u = [.pfx p, .ns us] ∧
      b.eb = some eb ∧ b'.eb = some eb' ∧
      eb'.namespaces = eb.namespaces ++ [((b.env.regAll (prefixRegs p u)).2.getD 0 0, (b.env.regAll (prefixRegs p u)).2.getD 1 0)] := by
  unfold Builder.prefix at hr
  split at hr
  · cases hr
  · rename_i us hus
    split at hr
    · cases hr
    rename_i hres
    dsimp only at hr
    split at hr
    · cases hr
    · rename_i eb heb
      split at hr
      · cases hr
      · simp only [Step.ok.injEq] at hr
        subst hr
        refine ⟨us, eb, _, hus, by simp only [prefixRegs, hus, hres, Bool.false_eq_true, if_false], heb, rfl, ?_⟩
        simp only [prefixRegs, hus, hres, Bool.false_eq_true, if_false]
        rfl

/-- A processing instruction `<?target …?>` (target other than `xml`): one call, (target as
    written, no namespace); the node stores the id returned. -/
theorem processingInstruction_place (b : Builder) (target : StrSpan) (content : Option StrSpan) :
    (b.processingInstruction target content).cur.rkids =
      .node (.pi ((b.env.regAll [.name target.text Env.noNamespace]).2.getD 0 0) (content.map (fun c => normalizeLineEnds c.text))) []
        :: b.cur.rkids := rfl

end XotModel
