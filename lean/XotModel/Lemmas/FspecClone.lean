/-
  FspecClone — C05 for `clone_node`: "adds exactly one copy".  A corollary of the C12 development
  (`cloneNode_full`: frame, freshness and equality of the clone), restated on the content of
  the forest (`Forest.content`, handles forgotten) against `Spec.specCloneContent`.
-/
import XotModel.Lemmas.FcloneMain
import XotModel.Lemmas.FcloneStrict
import XotModel.Lemmas.FspecContent
import XotModel.Model.FspecSpec2

namespace XotModel
open HTree Spec

/-- `clone_node` of a live node: no panic; the old trees stay, unchanged and in order; exactly one
    new tree is added after them, the returned node `c` is its root, all its handles are new, and
    with handles forgotten the forest is the old content followed by the copy of the source. -/
theorem cloneNode_spec' {f : Forest} {n : Nat} {src : HTree} (inv : f.Inv) (hsrc : f.get? n = some src) :
    ∃ c C, (f.cloneNode n).2 = some c ∧ C.handle = c ∧
      (f.cloneNode n).1.roots = f.roots ++ [C] ∧
      (f.cloneNode n).1.content = specCloneContent n f ∧
      (∀ h ∈ handles C, f.next ≤ h ∧ h < (f.cloneNode n).1.next ∧ h ∉ f.allHandles) ∧
      (f.cloneNode n).1.consolidation = f.consolidation ∧ (f.cloneNode n).1.everOff = f.everOff ∧
      (f.cloneNode n).1.corrupt = f.corrupt := by
  obtain ⟨C, f', h1, h2, h3, h4, h5, h6, h7, h8, h9, h10⟩ := cloneNode_full f inv n src hsrc
  refine ⟨C.handle, C, by rw [h1], rfl, by rw [h1]; exact h2, ?_, ?_, by rw [h1]; exact h7, by rw [h1]; exact h8,
    by rw [h1]; exact h9⟩
  · rw [h1]
    show eraseList f'.roots = _
    unfold specCloneContent
    rw [hsrc, h2, fs_eraseList_append, eraseList_cons, eraseList_nil, h6]
    rfl
  · intro h hm
    obtain ⟨a, b⟩ := h4 h hm
    rw [h1]
    exact ⟨a, b, fun hh => by have := inv.below h hh; omega⟩

end XotModel

namespace XotModel
open HTree Spec

/-- Handle for handle: the clone is the structural copy `copyRoot` numbered from `f.next`. -/
theorem cloneNode_eq_specClone {f : Forest} {n : Nat} {src : HTree} (inv : f.Inv) (hsrc : f.get? n = some src) :
    (f.cloneNode n).1 = specClone n f := by
  obtain ⟨f', h1, h2, h3, h4, _⟩ := cloneNode_spec f inv n src hsrc
  rw [h1]
  unfold specClone
  rw [hsrc]
  obtain ⟨e1, e2, e3⟩ := h4
  cases f'
  cases f
  simp_all

/-- In a forest without adjacent text nodes the copy is literally the source (handles forgotten). -/
theorem specCloneContent_normal {f : Forest} {n : Nat} {src : HTree} (norm : f.Normal) (hsrc : f.get? n = some src) :
    specCloneContent n f = f.content ++ [src.erase] := by
  unfold specCloneContent
  rw [hsrc]
  simp only
  rcases Bool.eq_false_or_eq_true f.consolidation with hc | hc
  · rw [expectedClone_strict _ src (valid_findList f.roots src (norm hc) hsrc)]
  · rw [hc]; rfl

end XotModel
