/-
  Proofs of the token-level and stream-level C19 theorems whose statements are in Props/C19.lean
  (kept here so that the property file stays readable).
-/
import XotModel.Lemmas.Html5Esc
import XotModel.Lemmas.Html5Names
import XotModel.Lemmas.Html5Stream
import XotModel.Lemmas.Html5Ctx

namespace XotModel
open Gen

theorem c19_unprefixed (c : HtmlCtx) (s s' : HState) (node : Tree) (parent : Option Tree) (name : Nat)
    (tok : OutputToken)
    (hns : c.h.isHtmlNamespace (c.env.nsOfName name) = true ∨ c.h.mustBeUnprefixed (c.env.nsOfName name) = true)
    (hxml : c.env.nsOfName name ≠ Env.xmlNamespace)
    (h : renderHtml c s node parent (.startTagOpen name) = .ok (s', tok)) :
    tok.text = ['<'] ++ c.env.localName name ∨
    tok.text = ['<'] ++ c.env.localName name ++ [' ','x','m','l','n','s','=','"']
      ++ serializeAttributeHtml (c.env.namespaceStr (c.env.nsOfName name)) ++ ['"'] := by
  simp only [renderHtml] at h
  split at h
  · simp only [Outcome.ok.injEq, Prod.mk.injEq] at h
    obtain ⟨_, rfl⟩ := h
    right
    simp [fmt, fmtHtmlStartTagOpenNs]
  · rename_i hcond
    left
    have hfull : (s.stack.push (htmlDeclarations node (c.env.nsOfName name))).elementFullname c.env name =
        .ok (c.env.localName name) := by
      unfold FStack.elementFullname FStack.elementPrefix
      by_cases h0 : (c.env.nsOfName name == Env.noNamespace) = true
      · simp [h0, qname]
      · have h1 : (c.env.nsOfName name == Env.xmlNamespace) = false := by simpa using hxml
        have hmust : c.h.mustBeUnprefixed (c.env.nsOfName name) = true := by
          rcases hns with hh | hm
          · simp only [Html5Elements.isHtmlNamespace, Bool.or_eq_true] at hh
            rcases hh with hh | hh
            · simp [Html5Elements.mustBeUnprefixed, hh]
            · exact absurd hh h0
          · exact hm
        have hhas : (s.stack.push (htmlDeclarations node (c.env.nsOfName name))).hasEmptyPrefix
            (c.env.nsOfName name) = true := by
          simpa [hmust] using hcond
        simp only [FStack.hasEmptyPrefix, beq_iff_eq] at hhas
        simp [h0, h1, hhas, qname]
    rw [hfull] at h
    simp only [Outcome.ok.injEq, Prod.mk.injEq] at h
    obtain ⟨_, rfl⟩ := h
    simp [fmt, fmtHtmlStartTagOpen]

theorem c19_attr (c : HtmlCtx) (s s' : HState) (node : Tree) (parent : Option Tree) (name : Nat)
    (value : Str) (tok : OutputToken)
    (h : renderHtml c s node parent (.attribute name value) = .ok (s', tok)) :
    ∃ full, s.stack.attributeFullname c.env name = .ok full ∧ tok.space = true ∧
      ((tok.text = full ∧ asciiLower (c.env.localName name) = asciiLower value) ∨
       (∃ v, tok.text = full ++ ['=','"'] ++ v ++ ['"'] ∧ '"' ∉ v ∧ refsOnly knownRefs v = true)) := by
  simp only [renderHtml] at h
  cases hf : s.stack.attributeFullname c.env name with
  | error e => rw [hf] at h; cases h
  | ok full =>
    rw [hf] at h
    simp only at h
    refine ⟨full, rfl, ?_⟩
    cases hb : htmlIsBooleanAttr c s.stack name value with
    | error e => rw [hb] at h; cases h
    | ok b =>
      rw [hb] at h
      cases b with
      | true =>
        simp only [Outcome.ok.injEq, Prod.mk.injEq] at h
        obtain ⟨_, rfl⟩ := h
        refine ⟨rfl, Or.inl ⟨by simp [fmt, fmtHtmlBooleanAttr], ?_⟩⟩
        unfold htmlIsBooleanAttr at hb
        split at hb
        · split at hb
          · simp only [Except.ok.injEq, Bool.and_eq_true, beq_iff_eq] at hb
            exact hb.2
          · cases hb
        · cases hb
      | false =>
        simp only [Outcome.ok.injEq, Prod.mk.injEq] at h
        obtain ⟨_, rfl⟩ := h
        refine ⟨rfl, Or.inr ⟨htmlAttrValue c name value, by simp [fmt, fmtHtmlAttribute], ?_⟩⟩
        unfold htmlAttrValue
        split
        · exact ⟨(serializeAttribute_safe value).1, (serializeAttribute_safe value).2.2⟩
        · exact serializeAttributeHtml_safe value

theorem c19_attr_xmlns (c : HtmlCtx) (s s' : HState) (node : Tree) (parent : Option Tree) (p ns : Nat)
    (tok : OutputToken) (h : renderHtml c s node parent (.pfx p ns) = .ok (s', tok)) :
    tok.text = [] ∨
    ∃ v, (tok.text = ['x','m','l','n','s','=','"'] ++ v ++ ['"'] ∨
          tok.text = ['x','m','l','n','s',':'] ++ c.env.prefixStr p ++ ['=','"'] ++ v ++ ['"']) ∧
      '"' ∉ v ∧ refsOnly knownRefs v = true := by
  simp only [renderHtml] at h
  split at h
  · split at h
    · simp only [Outcome.ok.injEq, Prod.mk.injEq] at h
      obtain ⟨_, rfl⟩ := h
      left; rfl
    · split at h
      · simp only [Outcome.ok.injEq, Prod.mk.injEq] at h
        obtain ⟨_, rfl⟩ := h
        exact Or.inr ⟨serializeAttributeHtml (c.env.namespaceStr ns),
          Or.inl (by simp [fmt, fmtHtmlXmlnsDefault]), serializeAttributeHtml_safe _⟩
      · simp only [Outcome.ok.injEq, Prod.mk.injEq] at h
        obtain ⟨_, rfl⟩ := h
        exact Or.inr ⟨serializeAttributeHtml (c.env.namespaceStr ns),
          Or.inr (by simp [fmt, fmtHtmlXmlnsPrefix]), serializeAttributeHtml_safe _⟩
  · cases h

theorem c19_pi_form (c : HtmlCtx) (s : HState) (node : Tree) (parent : Option Tree) (target : Nat)
    (data : Option Str) (s' : HState) (tok : OutputToken)
    (h : renderHtml c s node parent (.pi target data) = .ok (s', tok)) :
    (c.env.namespaceStr (c.env.nsOfName target)).isEmpty = true ∧
    match data with
    | some d => '>' ∉ d ∧ tok.text = ['<','?'] ++ c.env.localName target ++ [' '] ++ d ++ ['>']
    | none => tok.text = ['<','?'] ++ c.env.localName target ++ ['>'] := by
  simp only [renderHtml] at h
  split at h
  · cases h
  · rename_i hns
    refine ⟨by simpa using hns, ?_⟩
    cases data with
    | none =>
      simp only [Outcome.ok.injEq, Prod.mk.injEq] at h
      obtain ⟨_, rfl⟩ := h
      simp [fmt, fmtHtmlPi]
    | some d =>
      simp only at h
      split at h
      · cases h
      · rename_i hgt
        simp only [Outcome.ok.injEq, Prod.mk.injEq] at h
        obtain ⟨_, rfl⟩ := h
        refine ⟨by simpa [htmlPiForbidden] using hgt, by simp [fmt, fmtHtmlPiData]⟩

theorem c19_tokens (env : Env) (p : HtmlParams) (t : Tree) (start : Path) (out : Str)
    (h : serializeHtmlString env p t start = .ok out) :
    ∃ l, renderHtmlAll (htmlCtx env p) t (htmlInitState (htmlCtx env p) t start) (genOutputs t start) = .ok l ∧
      (∀ k ∈ l, ∃ s1 s2 node, t.at? k.1 = some node ∧
        renderHtml (htmlCtx env p) s1 node (t.parentAt? k.1) k.2.1 = .ok (s2, k.2.2)) ∧
      ∃ decor : List (Nat × Bool), decor.length = l.length ∧
        (p.indentation = none → ∀ d ∈ decor, d = (0, false)) ∧
        out = htmlDoctype ++ (List.zip decor l).flatMap (fun dk =>
          (if dk.1.1 > 0 then htmlIndentBytes dk.1.1 else []) ++ htmlTokenBytes dk.2.2.2
            ++ (if dk.1.2 then htmlNewline else [])) := by
  unfold serializeHtmlString bufferToString at h
  cases hr : (serializeHtmlWrite env p t start).2 with
  | err e => rw [hr] at h; cases h
  | panic => rw [hr] at h; cases h
  | ok u =>
    cases u
    rw [hr] at h
    simp only [Outcome.ok.injEq] at h
    subst h
    unfold serializeHtmlWrite at hr ⊢
    cases hi : p.indentation with
    | some sup =>
      rw [hi] at hr
      simp only at hr ⊢
      obtain ⟨l, hl, decor, hlen, hb⟩ := writeHtmlPrettyGo_tokens _ sup t _ _ _ hr
      exact ⟨l, hl, renderHtmlAll_mem _ t _ _ l hl, decor, hlen, by simp, by rw [hb]⟩
    | none =>
      rw [hi] at hr
      simp only at hr ⊢
      obtain ⟨l, hl, hb⟩ := writeHtmlGo_tokens _ t _ _ hr
      refine ⟨l, hl, renderHtmlAll_mem _ t _ _ l hl, List.replicate l.length (0, false), by simp,
        fun _ d hd => (List.eq_of_mem_replicate hd), ?_⟩
      rw [hb]
      congr 1
      clear hb hl hr
      induction l with
      | nil => rfl
      | cons k l ih =>
        simp only [List.length_cons, List.replicate_succ, List.zip_cons_cons, List.flatMap_cons]
        rw [ih]
        simp

theorem c19_text_cdata (c : HtmlCtx) (parent : Option Tree) (text : Str) (pn : Nat)
    (hpn : parentElementName parent = some pn) (hraw : c.h.noEscape.matches c.env pn = false)
    (hcd : c.cdata.contains pn = true) :
    htmlTextValue c parent text = serializeCdata text ∧
    cdataSectionsContent (htmlTextValue c parent text) = some text := by
  have hv : htmlTextValue c parent text = serializeCdata text := by
    simp only [htmlTextValue, hpn, hraw, hcd, Bool.false_eq_true, if_false, if_true]
  refine ⟨hv, ?_⟩
  rw [hv]
  have hO : cdataOpen = ['<','!','[','C','D','A','T','A','['] := by decide
  have hS : cdataSplit = [']',']',']',']','>'] ++ cdataOpen ++ ['>'] := by decide
  have hR : cdataCr = [']',']','>'] ++ ['&','#','x','D',';'] ++ cdataOpen := by decide
  have hC : cdataClose = [']',']','>'] := by decide
  have h := cdataGo_sections hO hS hR hC text 0 0 (by omega) (by intro; rfl)
  simp only [List.replicate_zero, List.nil_append, Nat.zero_add] at h
  unfold cdataSectionsContent serializeCdata
  rw [hO]
  simp only [List.cons_append, List.nil_append]
  rw [afterSection_open, h]

theorem c19_tags_end (c : HtmlCtx) (s s' : HState) (node : Tree) (parent : Option Tree) (name : Nat)
    (tok : OutputToken) (h : renderHtml c s node parent (.endTag name) = .ok (s', tok)) :
    (tok.text = [] ↔ c.h.void.matches c.env name = true) ∧
    (c.h.void.matches c.env name = false →
      ∃ full, s.stack.elementFullname c.env name = .ok full ∧ tok.text = ['<','/'] ++ full ++ ['>']) := by
  simp only [renderHtml] at h
  by_cases hv : c.h.void.matches c.env name = true
  · simp only [hv, if_true, Outcome.ok.injEq, Prod.mk.injEq] at h
    obtain ⟨_, rfl⟩ := h
    simp [hv, litHtmlVoidEndTag]
  · have hv' : c.h.void.matches c.env name = false := by simpa using hv
    simp only [hv', Bool.false_eq_true, if_false] at h
    cases hf : s.stack.elementFullname c.env name with
    | error e => rw [hf] at h; cases h
    | ok full =>
      rw [hf] at h
      simp only [Outcome.ok.injEq, Prod.mk.injEq] at h
      obtain ⟨_, rfl⟩ := h
      simp [hv', fmt, fmtHtmlEndTag]

end XotModel
