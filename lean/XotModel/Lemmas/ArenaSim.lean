/-
  XotModel.Lemmas.ArenaSim — the simulation: every arena call of `Arena.Call` (live arguments, inside
  the list semantics) is matched by the corresponding primitive of the forest model
  (`Model/Forest.lean`), and the abstraction relation `Abs` is kept.  Hence every history of arena
  calls from the empty arena is simulated by a history of forest primitives from the empty forest.
-/
import XotModel.Lemmas.ArenaAbsRemove

namespace XotModel
namespace Arena

/-- One primitive of the forest model. -/
inductive FCall (f : Forest) : Forest → Prop where
  | newNode (v : Value) : FCall f (f.newNode v).1
  | detach (h : Nat) : FCall f (f.detachRaw h)
  | append (p c : Nat) : FCall f (f.checkedAppend p c).1
  | prepend (p c : Nat) : FCall f (f.checkedPrepend p c).1
  | insertAfter (r n : Nat) : FCall f (f.checkedInsertAfter r n).1
  | insertBefore (r n : Nat) : FCall f (f.checkedInsertBefore r n).1
  | splice (h : Nat) : FCall f (f.spliceOut h)
  | drop (h : Nat) : FCall f (f.dropSubtree h)

inductive FSteps : Forest → Forest → Prop where
  | refl (f : Forest) : FSteps f f
  | tail {f f1 f2 : Forest} : FSteps f f1 → FCall f1 f2 → FSteps f f2

/-- The empty arena is the empty forest. -/
theorem Abs.empty : Abs {} Shape.empty ⟨fun _ => 0, fun _ => .document⟩ [] {} := by
  refine ⟨⟨Rep.empty, fun u v hu _ _ => ?_⟩, .nil, List.nodup_nil, fun i => ?_, fun u hu => ?_, fun i s v hs _ => ?_, rfl⟩
  · obtain ⟨s, hs, _⟩ := hu; simp [slot] at hs
  · constructor
    · intro h; cases h
    · rintro ⟨⟨s, hs, _⟩, _⟩; simp [slot] at hs
  · obtain ⟨s, hs, _⟩ := hu; simp [slot] at hs
  · simp [slot] at hs

/-- A refused `checked_append` / `checked_prepend` is refused by the forest model too. -/
theorem Abs.checkedAppend_refused {a : Arena} {g : Shape} {w : View} {rs : List Nat} {f : Forest} (h : Abs a g w rs f)
    (p c : Nat) (hp : Live a p) (hc : Live a c) (hr : p = c ∨ Reach g.par p c) :
    f.checkedAppend (w.rho p) (w.rho c) = (f, false) ∧ f.checkedPrepend (w.rho p) (w.rho c) = (f, false) := by
  have : (decide (w.rho p = w.rho c) || (f.ancestors (w.rho p)).contains (w.rho c)) = true := by
    rcases hr with e | hr
    · subst e; simp
    · rw [(h.ancestors_contains p c hp hc).mpr hr]; simp
  constructor
  · unfold Forest.checkedAppend; rw [if_pos this]
  · unfold Forest.checkedPrepend; rw [if_pos this]

/-- `remove` of a childless parentless node: `spliceOut` drops the root. -/
theorem Abs.remove_leaf_root {a : Arena} {g : Shape} {w : View} {rs : List Nat} {f : Forest} (h : Abs a g w rs f)
    (i : Nat) (hi : Live a i) (hpar : g.par i = none) (hK : g.kids i = []) :
    ∃ a', Arena.remove a (a.idAt i) = .done a' () ∧ Abs a' (g.removeLeaf i) w (rs.filter (· ≠ i)) (f.spliceOut (w.rho i)) := by
  obtain ⟨ti, hti, hget⟩ := h.get?_live i hi
  have hroot : f.isRoot (w.rho i) = true := (h.isRoot_iff i hi).mpr ((h.rsMem i).mpr ⟨hi, hpar⟩)
  have htk : ti.kids = [] := by
    have := hti.kids; rw [hK] at this
    exact List.length_eq_zero_iff.mp (by simpa using this.length)
  have hfs : f.spliceOut (w.rho i) = { f with roots := f.roots.filter (fun r => r.handle != w.rho i) } := by
    unfold Forest.spliceOut; rw [hget]; simp only [hroot, if_true, htk, List.append_nil, List.length_nil, Nat.zero_le]
  rw [hfs]
  obtain ⟨a1, a', _, hM, r1, hcall, ok, r'⟩ := h.ctx.rep.remove_leaf i hi hK
  have hlive' : ∀ j, Live a' j ↔ (Live a j ∧ j ≠ i) := fun j => by rw [ok.live j, hM.live j]
  refine ⟨a', hcall, ⟨r', fun u v hu hv => h.ctx.inj u v ((hlive' u).mp hu).1 ((hlive' v).mp hv).1⟩, ?_,
    h.rsNodup.filter _, ?_, ?_, ?_, h.clean⟩
  · have := IsTrees.filter_ne h.ctx i hi h.trees h.rsLive
    simp only [Shape.removeLeaf, Shape.detach_of_root g i hpar]
    exact IsTrees.congr (g := g) (g' := { par := g.par, kids := g.kids, free := g.free ++ [i] }) (w := w) (w' := w) (fun _ => True) (fun _ _ => ⟨rfl, rfl, rfl, fun _ _ => trivial⟩) this (fun _ _ => trivial)
  · intro j
    simp only [List.mem_filter, ne_eq, decide_eq_true_eq, Shape.removeLeaf, Shape.detach_of_root g i hpar]
    rw [hlive' j, h.rsMem j]
    constructor
    · rintro ⟨⟨h1, h2⟩, h3⟩; exact ⟨⟨h1, h3⟩, h2⟩
    · rintro ⟨⟨h1, h3⟩, h2⟩; exact ⟨⟨h1, h2⟩, h3⟩
  · intro u hu; exact h.below u ((hlive' u).mp hu).1
  · intro j s v hs hd
    have hlj : Live a' j := ⟨s, hs, (r'.dataLive j s hs).mpr ⟨v, hd⟩⟩
    have hji : j ≠ i := ((hlive' j).mp hlj).2
    obtain ⟨s0, hs0, h00⟩ := ((hlive' j).mp hlj).1
    obtain ⟨v0, hv0⟩ := (h.ctx.rep.dataLive j s0 hs0).mp h00
    obtain ⟨s1, hs1, _, hd1⟩ := hM.slot_some hs0
    obtain ⟨s2, hs2, hd2⟩ := ok.payload j s1 v0 hji hs1 (by rw [hd1]; exact hv0)
    rw [hs] at hs2; cases hs2
    rw [hd] at hd2; cases hd2
    exact h.vals j s0 v hs0 hv0

/-- One arena call is simulated by one forest primitive. -/
theorem Abs.call {a a' : Arena} {g : Shape} {w : View} {rs : List Nat} {f : Forest} (h : Abs a g w rs f)
    (c : Call a a') : ∃ g' w' rs' f', Abs a' g' w' rs' f' ∧ FCall f f' := by
  cases c with
  | newNode v id a' hn =>
    obtain ⟨a2, id2, g2, h2, _, _, habs, _⟩ := h.newNode v
    rw [h2] at hn; cases hn
    exact ⟨_, _, _, _, habs, .newNode _⟩
  | detach x a' hx hd =>
    obtain ⟨a2, h2, habs⟩ := h.detach x hx
    rw [h2] at hd; cases hd
    exact ⟨_, _, _, _, habs, .detach _⟩
  | append p x res a' hp hx hc =>
    rw [hp.eq, hx.eq] at hc
    by_cases hpx : p.index0 = x.index0
    · rw [hpx, checkedAppend_self] at hc; cases hc
      have := (h.checkedAppend_refused x.index0 x.index0 hx.2.1 hx.2.1 (Or.inl rfl)).1
      exact ⟨g, w, rs, f, h, by have e := FCall.append (f := f) (w.rho x.index0) (w.rho x.index0); rw [this] at e; exact e⟩
    · by_cases hanc : Reach g.par p.index0 x.index0
      · rw [h.ctx.rep.checkedAppend_ancestor _ _ hp.2.1 hx.2.1 hpx hanc] at hc; cases hc
        have := (h.checkedAppend_refused p.index0 x.index0 hp.2.1 hx.2.1 (Or.inr hanc)).1
        exact ⟨g, w, rs, f, h, by have e := FCall.append (f := f) (w.rho p.index0) (w.rho x.index0); rw [this] at e; exact e⟩
      · obtain ⟨a2, h2, _, habs⟩ := h.checkedAppend_ok _ _ hp.2.1 hx.2.1 hpx hanc
        rw [h2] at hc; cases hc
        exact ⟨_, _, _, _, habs, .append _ _⟩
  | prepend p x res a' hp hx hc =>
    rw [hp.eq, hx.eq] at hc
    by_cases hpx : p.index0 = x.index0
    · rw [hpx, checkedPrepend_self] at hc; cases hc
      have := (h.checkedAppend_refused x.index0 x.index0 hx.2.1 hx.2.1 (Or.inl rfl)).2
      exact ⟨g, w, rs, f, h, by have e := FCall.prepend (f := f) (w.rho x.index0) (w.rho x.index0); rw [this] at e; exact e⟩
    · by_cases hanc : Reach g.par p.index0 x.index0
      · rw [h.ctx.rep.checkedPrepend_ancestor _ _ hp.2.1 hx.2.1 hpx hanc] at hc; cases hc
        have := (h.checkedAppend_refused p.index0 x.index0 hp.2.1 hx.2.1 (Or.inr hanc)).2
        exact ⟨g, w, rs, f, h, by have e := FCall.prepend (f := f) (w.rho p.index0) (w.rho x.index0); rw [this] at e; exact e⟩
      · by_cases hfirst : (g.kids p.index0).head? = some x.index0
        · rw [h.ctx.rep.checkedPrepend_first_panics _ _ hp.2.1 hx.2.1 hpx hanc hfirst] at hc; cases hc
        · obtain ⟨a2, h2, _, habs⟩ := h.checkedPrepend_ok _ _ hp.2.1 hx.2.1 hpx hanc hfirst
          rw [h2] at hc; cases hc
          exact ⟨_, _, _, _, habs, .prepend _ _⟩
  | insertAfter ref x res a' hr hx hpar hanc hc =>
    rw [hr.eq, hx.eq] at hc hanc
    rw [hr.eq] at hpar
    obtain ⟨p, hp⟩ := (h.ctx.rep.hasParent_iff _ hr.2.1).mp hpar
    have hanc' := fun hh => hanc ((h.ctx.rep.isAncestorOrSelf_iff _ _ hr.2.1).mpr hh)
    have hne : ref.index0 ≠ x.index0 := fun e => hanc' (e ▸ .refl _)
    obtain ⟨a2, A, B, h2, _, habs⟩ := h.checkedInsertAfter_ok _ _ p hr.2.1 hx.2.1 hne hp hanc'
    rw [h2] at hc; cases hc
    exact ⟨_, _, _, _, habs, .insertAfter _ _⟩
  | insertBefore ref x res a' hr hx hpar hanc hc =>
    rw [hr.eq, hx.eq] at hc hanc
    rw [hr.eq] at hpar
    obtain ⟨p, hp⟩ := (h.ctx.rep.hasParent_iff _ hr.2.1).mp hpar
    have hanc' := fun hh => hanc ((h.ctx.rep.isAncestorOrSelf_iff _ _ hr.2.1).mpr hh)
    have hne : ref.index0 ≠ x.index0 := fun e => hanc' (e ▸ .refl _)
    obtain ⟨a2, A, B, h2, _, habs⟩ := h.checkedInsertBefore_ok _ _ p hr.2.1 hx.2.1 hne hp hanc'
    rw [h2] at hc; cases hc
    exact ⟨_, _, _, _, habs, .insertBefore _ _⟩
  | remove x a' hx hcond hc =>
    rw [hx.eq] at hc hcond
    cases hpar : g.par x.index0 with
    | some p =>
      obtain ⟨L, R, hkp⟩ := List.append_of_mem (h.ctx.rep.parKids _ _ hpar).2
      obtain ⟨a2, g2, h2, _, habs⟩ := h.remove_inner _ p L R hx.2.1 hpar hkp
      rw [h2] at hc; cases hc
      exact ⟨_, _, _, _, habs, .splice _⟩
    | none =>
      have hK : g.kids x.index0 = [] := by
        rcases hcond with h1 | h1
        · obtain ⟨p, hp⟩ := (h.ctx.rep.hasParent_iff _ hx.2.1).mp h1
          rw [hpar] at hp; cases hp
        · exact (h.ctx.rep.childless_iff _ hx.2.1).mp h1
      obtain ⟨a2, h2, habs⟩ := h.remove_leaf_root _ hx.2.1 hpar hK
      rw [h2] at hc; cases hc
      exact ⟨_, _, _, _, habs, .splice _⟩
  | removeSubtree x a' hx hc =>
    rw [hx.eq] at hc
    obtain ⟨a2, l, h2, _, habs⟩ := h.removeSubtree _ hx.2.1
    rw [h2] at hc; cases hc
    exact ⟨_, _, _, _, habs, .drop _⟩

/-- Histories of arena calls are simulated by histories of forest primitives. -/
theorem Abs.steps {a a' : Arena} {g : Shape} {w : View} {rs : List Nat} {f : Forest} (h : Abs a g w rs f)
    (s : Steps a a') : ∃ g' w' rs' f', Abs a' g' w' rs' f' ∧ FSteps f f' := by
  induction s with
  | refl => exact ⟨g, w, rs, f, h, .refl f⟩
  | tail _ c ih =>
    obtain ⟨g1, w1, rs1, f1, h1, s1⟩ := ih
    obtain ⟨g2, w2, rs2, f2, h2, c2⟩ := h1.call c
    exact ⟨g2, w2, rs2, f2, h2, .tail s1 c2⟩

end Arena
end XotModel
