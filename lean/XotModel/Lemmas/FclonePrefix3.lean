/-
  Lemmas for C12, part 20 (clone_with_prefixes serialises): the serializer's name stack on the
  way down from a root (`stackAlong`) offers nothing that `namespaces_in_scope` of the same
  ancestor chain does not list (the `xml` binding and `xmlns=""` aside).
-/
import XotModel.Lemmas.FclonePrefix2

namespace XotModel

/-- Top of the serializer's stack after the start tags of the trees of `rest` (nearest first,
    outermost last), starting from `L0`. -/
def stackAlong (L0 : List (Nat × Nat)) : List Tree → List (Nat × Nat)
  | [] => L0
  | a :: more =>
    if a.value.isElement then fullnameInfoNew a.nsDecls (stackAlong L0 more) else stackAlong L0 more

/-- Nearest declaration of the prefix `q` on the chain. -/
def nearestDecl : List Tree → Nat → Option Nat
  | [], _ => none
  | a :: more, q =>
    match a.nsDecls.lookup q with
    | some n => some n
    | none => nearestDecl more q

/-- Elements declare each prefix once; other nodes declare nothing. -/
def ChainOK (rest : List Tree) : Prop :=
  ∀ a ∈ rest, (a.value.isElement = false → a.nsDecls = []) ∧ (a.nsDecls.map (·.1)).Nodup

theorem lookup_cons_eq (q p n : Nat) (d : List (Nat × Nat)) :
    List.lookup q ((p, n) :: d) = if q = p then some n else List.lookup q d := by
  rw [List.lookup_cons]
  by_cases e : q = p
  · have : (q == p) = true := by simp [e]
    rw [this, if_pos e]
  · have : (q == p) = false := by simp [e]
    rw [this, if_neg e]

theorem lookup_of_mem_nodup : ∀ (d : List (Nat × Nat)) (b : Nat × Nat), (d.map (·.1)).Nodup → b ∈ d →
    d.lookup b.1 = some b.2
  | [], b, _, hb => by cases hb
  | (p, n) :: d, b, hn, hb => by
    simp only [List.map_cons, List.nodup_cons] at hn
    rw [lookup_cons_eq]
    rcases List.mem_cons.mp hb with rfl | hb'
    · simp
    · have : b.1 ≠ p := by
        intro e
        apply hn.1
        rw [← e]
        exact List.mem_map.mpr ⟨b, hb', rfl⟩
      rw [if_neg this]
      exact lookup_of_mem_nodup d b hn.2 hb'

theorem lookup_none_of_no_key : ∀ (d : List (Nat × Nat)) (q : Nat), (∀ x ∈ d, x.1 ≠ q) → d.lookup q = none
  | [], _, _ => rfl
  | (p, n) :: d, q, h => by
    rw [lookup_cons_eq]
    have : q ≠ p := fun e => h (p, n) (by simp) e.symm
    rw [if_neg this]
    exact lookup_none_of_no_key d q (fun x hx => h x (by simp [hx]))

theorem lookup_some_mem : ∀ (d : List (Nat × Nat)) (q n : Nat), d.lookup q = some n → (q, n) ∈ d
  | [], _, _, h => by simp at h
  | (p, m) :: d, q, n, h => by
    rw [lookup_cons_eq] at h
    by_cases e : q = p
    · rw [if_pos e] at h
      cases h
      simp [e]
    · rw [if_neg e] at h
      simp [lookup_some_mem d q n h]

theorem lookup_ne_none_of_mem : ∀ (d : List (Nat × Nat)) (b : Nat × Nat), b ∈ d → d.lookup b.1 ≠ none
  | [], _, hb => by cases hb
  | (p, m) :: d, b, hb => by
    rw [lookup_cons_eq]
    by_cases e : b.1 = p
    · rw [if_pos e]; simp
    · rw [if_neg e]
      rcases List.mem_cons.mp hb with rfl | hb'
      · exact absurd rfl e
      · exact lookup_ne_none_of_mem d b hb'

/-- (S1) what the stack offers is the nearest declaration, or comes from the start value. -/
theorem stackAlong_mem : ∀ (rest : List Tree) (L0 : List (Nat × Nat)) (b : Nat × Nat), ChainOK rest →
    b ∈ stackAlong L0 rest →
    nearestDecl rest b.1 = some b.2 ∨ (nearestDecl rest b.1 = none ∧ b ∈ L0)
  | [], L0, b, _, hb => Or.inr ⟨rfl, hb⟩
  | a :: more, L0, b, ok, hb => by
    have oka := ok a (by simp)
    have okm : ChainOK more := fun x hx => ok x (by simp [hx])
    simp only [stackAlong] at hb
    simp only [nearestDecl]
    by_cases hel : a.value.isElement = true
    · rw [if_pos hel, fc_mem_fullnameInfoNew] at hb
      rcases hb with h1 | ⟨h1, h2⟩
      · rw [lookup_of_mem_nodup a.nsDecls b oka.2 h1]
        exact Or.inl rfl
      · rw [lookup_none_of_no_key a.nsDecls b.1 h2]
        exact stackAlong_mem more L0 b okm h1
    · rw [if_neg hel] at hb
      have : a.nsDecls = [] := oka.1 (by simpa using hel)
      rw [this]
      simp only [List.lookup_nil]
      exact stackAlong_mem more L0 b okm hb

/-! #### `namespace_traverse` yields the nearest declaration -/

theorem traverseDecls_yields : ∀ (d : List (Nat × Nat)) (seen : List Nat) (q n : Nat), q ∉ seen →
    d.lookup q = some n → ¬(q = Env.emptyPrefix ∧ n = Env.noNamespace) →
    (q, n) ∈ (traverseDecls seen d).2
  | [], _, _, _, _, h, _ => by simp at h
  | (p, m) :: d, seen, q, n, hs, hl, hu => by
    rw [lookup_cons_eq] at hl
    simp only [traverseDecls]
    by_cases e : q = p
    · subst e
      rw [if_pos rfl] at hl
      cases hl
      have : seen.contains q = false := by simpa using hs
      simp only [this, Bool.false_eq_true, if_false]
      have hu' : (q == Env.emptyPrefix && m == Env.noNamespace) = false := by
        simp only [Bool.and_eq_false_iff, beq_eq_false_iff_ne]
        by_cases h1 : q = Env.emptyPrefix
        · exact Or.inr (fun h2 => hu ⟨h1, h2⟩)
        · exact Or.inl h1
      simp [hu']
    · rw [if_neg e] at hl
      by_cases hc : seen.contains p = true
      · simp only [hc, if_true]
        exact traverseDecls_yields d seen q n hs hl hu
      · simp only [hc, Bool.false_eq_true, if_false]
        have hs' : q ∉ seen ++ [p] := by simp [hs, e]
        have ih := traverseDecls_yields d (seen ++ [p]) q n hs' hl hu
        split <;> simp [ih]

theorem fc_traverseDecls_seen : ∀ (d : List (Nat × Nat)) (seen : List Nat) (q : Nat), q ∉ seen →
    d.lookup q = none → q ∉ (traverseDecls seen d).1
  | [], _, _, hs, _ => by simpa [traverseDecls] using hs
  | (p, m) :: d, seen, q, hs, hl => by
    rw [lookup_cons_eq] at hl
    have e : q ≠ p := by
      intro e; rw [if_pos e] at hl; cases hl
    rw [if_neg e] at hl
    simp only [traverseDecls]
    by_cases hc : seen.contains p = true
    · simp only [hc, if_true]
      exact fc_traverseDecls_seen d seen q hs hl
    · simp only [hc, Bool.false_eq_true, if_false]
      exact fc_traverseDecls_seen d (seen ++ [p]) q (by simp [hs, e]) hl

theorem traverseDecls_out_sub : ∀ (d : List (Nat × Nat)) (seen : List Nat) (b : Nat × Nat),
    b ∈ (traverseDecls seen d).2 → b ∈ d
  | [], _, _, h => by simp [traverseDecls] at h
  | (p, m) :: d, seen, b, h => by
    simp only [traverseDecls] at h
    by_cases hc : seen.contains p = true
    · simp only [hc, if_true] at h
      simp [traverseDecls_out_sub d seen b h]
    · simp only [hc, Bool.false_eq_true, if_false] at h
      split at h
      · simp [traverseDecls_out_sub d _ b h]
      · rcases List.mem_cons.mp h with rfl | h'
        · simp
        · simp [traverseDecls_out_sub d _ b h']

/-- (S2) -/
theorem traverseChain_yields : ∀ (chain : List Tree) (seen : List Nat) (q n : Nat), q ∉ seen →
    nearestDecl chain q = some n → ¬(q = Env.emptyPrefix ∧ n = Env.noNamespace) →
    (q, n) ∈ (traverseChain seen chain).2
  | [], _, _, _, _, h, _ => by simp [nearestDecl] at h
  | t :: rest, seen, q, n, hs, hn, hu => by
    simp only [nearestDecl] at hn
    simp only [traverseChain, List.mem_append]
    cases hl : t.nsDecls.lookup q with
    | some m =>
      rw [hl] at hn
      cases hn
      exact Or.inl (traverseDecls_yields _ seen q n hs hl hu)
    | none =>
      rw [hl] at hn
      exact Or.inr (traverseChain_yields rest _ q n (fc_traverseDecls_seen _ seen q hs hl) hn hu)

theorem nearestDecl_none : ∀ (chain : List Tree) (q : Nat), nearestDecl chain q = none →
    ∀ a ∈ chain, a.nsDecls.lookup q = none
  | [], _, _, a, ha => by cases ha
  | t :: rest, q, h, a, ha => by
    simp only [nearestDecl] at h
    cases hl : t.nsDecls.lookup q with
    | some m => rw [hl] at h; cases h
    | none =>
      rw [hl] at h
      rcases List.mem_cons.mp ha with rfl | ha'
      · exact hl
      · exact nearestDecl_none rest q h a ha'

/-- (S) What the serializer's stack offers at a node, started at the root `r` of its chain with
    `namespaces_in_scope(r)`, is listed by `namespaces_in_scope` of the chain — except the `xml`
    binding and the `xmlns=""` undeclaration. -/
theorem stackAlong_sub_inScope (rest : List Tree) (r : Tree) (hr : r ∈ rest) (ok : ChainOK rest)
    (b : Nat × Nat) (hb : b ∈ stackAlong (namespacesInScopeChain [r]) rest)
    (hx : b.2 ≠ Env.xmlNamespace) (hu : ¬(b.1 = Env.emptyPrefix ∧ b.2 = Env.noNamespace)) :
    b ∈ namespacesInScopeChain rest := by
  have key : nearestDecl rest b.1 = some b.2 := by
    rcases stackAlong_mem rest _ b ok hb with h | ⟨h1, h2⟩
    · exact h
    · exfalso
      have hnone := nearestDecl_none rest b.1 h1 r hr
      unfold namespacesInScopeChain at h2
      simp only [traverseChain, List.append_nil, List.mem_append, List.mem_filter] at h2
      rcases h2 with h3 | ⟨h3, _⟩
      · exact lookup_ne_none_of_mem r.nsDecls b (traverseDecls_out_sub r.nsDecls [] b h3) hnone
      · simp only [basePrefixes, List.mem_singleton] at h3
        apply hx
        rw [h3]
  unfold namespacesInScopeChain
  simp only [List.mem_append]
  exact Or.inl (traverseChain_yields rest [] b.1 b.2 (by simp) key hu)

/-! #### the converse: what `namespaces_in_scope` lists is on the serializer's stack -/

theorem lookup_none_no_key : ∀ (d : List (Nat × Nat)) (q : Nat), d.lookup q = none → ∀ x ∈ d, x.1 ≠ q
  | [], _, _, x, hx => by cases hx
  | (p, m) :: d, q, h, x, hx => by
    rw [lookup_cons_eq] at h
    by_cases e : q = p
    · rw [if_pos e] at h; cases h
    · rw [if_neg e] at h
      rcases List.mem_cons.mp hx with rfl | hx'
      · exact fun e' => e e'.symm
      · exact lookup_none_no_key d q h x hx'

theorem traverseDecls_seen_mono : ∀ (d : List (Nat × Nat)) (seen : List Nat),
    (∀ q ∈ seen, q ∈ (traverseDecls seen d).1) ∧ (∀ x ∈ d, x.1 ∈ (traverseDecls seen d).1)
  | [], seen => by simp [traverseDecls]
  | (p, m) :: d, seen => by
    simp only [traverseDecls]
    by_cases hc : seen.contains p = true
    · simp only [hc, if_true]
      obtain ⟨h1, h2⟩ := traverseDecls_seen_mono d seen
      refine ⟨h1, ?_⟩
      intro x hx
      rcases List.mem_cons.mp hx with rfl | hx'
      · exact h1 _ (by simpa using hc)
      · exact h2 x hx'
    · simp only [hc, Bool.false_eq_true, if_false]
      obtain ⟨h1, h2⟩ := traverseDecls_seen_mono d (seen ++ [p])
      refine ⟨fun q hq => h1 q (by simp [hq]), ?_⟩
      intro x hx
      rcases List.mem_cons.mp hx with rfl | hx'
      · exact h1 _ (by simp)
      · exact h2 x hx'

/-- What one declaration list yields is its first declaration of a prefix not seen before. -/
theorem traverseDecls_out_first : ∀ (d : List (Nat × Nat)) (seen : List Nat) (b : Nat × Nat),
    b ∈ (traverseDecls seen d).2 → b.1 ∉ seen ∧ d.lookup b.1 = some b.2
  | [], _, _, h => by simp [traverseDecls] at h
  | (p, m) :: d, seen, b, h => by
    simp only [traverseDecls] at h
    rw [lookup_cons_eq]
    by_cases hc : seen.contains p = true
    · simp only [hc, if_true] at h
      obtain ⟨h1, h2⟩ := traverseDecls_out_first d seen b h
      have : b.1 ≠ p := fun e => h1 (e ▸ (by simpa using hc))
      rw [if_neg this]
      exact ⟨h1, h2⟩
    · simp only [hc, Bool.false_eq_true, if_false] at h
      have hp : p ∉ seen := by simpa using hc
      have tail : b ∈ (traverseDecls (seen ++ [p]) d).2 → b.1 ∉ seen ∧
          (if b.1 = p then some m else d.lookup b.1) = some b.2 := by
        intro hb
        obtain ⟨h1, h2⟩ := traverseDecls_out_first d (seen ++ [p]) b hb
        simp only [List.mem_append, List.mem_singleton, not_or] at h1
        rw [if_neg h1.2]
        exact ⟨h1.1, h2⟩
      split at h
      · exact tail h
      · rcases List.mem_cons.mp h with rfl | h'
        · exact ⟨hp, by simp⟩
        · exact tail h'

theorem traverseChain_out_nearest : ∀ (chain : List Tree) (seen : List Nat) (b : Nat × Nat),
    b ∈ (traverseChain seen chain).2 → b.1 ∉ seen ∧ nearestDecl chain b.1 = some b.2
  | [], _, _, h => by simp [traverseChain] at h
  | t :: rest, seen, b, h => by
    simp only [traverseChain, List.mem_append] at h
    simp only [nearestDecl]
    rcases h with h | h
    · obtain ⟨h1, h2⟩ := traverseDecls_out_first t.nsDecls seen b h
      rw [h2]
      exact ⟨h1, rfl⟩
    · obtain ⟨h1, h2⟩ := traverseChain_out_nearest rest _ b h
      obtain ⟨m1, m2⟩ := traverseDecls_seen_mono t.nsDecls seen
      have hs : b.1 ∉ seen := fun hq => h1 (m1 _ hq)
      have hl : t.nsDecls.lookup b.1 = none := by
        cases hl : t.nsDecls.lookup b.1 with
        | none => rfl
        | some n => exact absurd (m2 _ (lookup_some_mem _ _ _ hl)) h1
      rw [hl]
      exact ⟨hs, h2⟩

theorem nearestDecl_on_stack : ∀ (rest : List Tree) (L0 : List (Nat × Nat)) (q n : Nat), ChainOK rest →
    nearestDecl rest q = some n → (q, n) ∈ stackAlong L0 rest
  | [], _, _, _, _, h => by simp [nearestDecl] at h
  | a :: more, L0, q, n, ok, h => by
    have oka := ok a (by simp)
    have okm : ChainOK more := fun x hx => ok x (by simp [hx])
    simp only [nearestDecl] at h
    simp only [stackAlong]
    cases hl : a.nsDecls.lookup q with
    | some m =>
      rw [hl] at h
      cases h
      have hel : a.value.isElement = true := by
        cases he : a.value.isElement with
        | true => rfl
        | false => rw [oka.1 he] at hl; simp at hl
      rw [if_pos hel, fc_mem_fullnameInfoNew]
      exact Or.inl (lookup_some_mem _ _ _ hl)
    | none =>
      rw [hl] at h
      have ih := nearestDecl_on_stack more L0 q n okm h
      by_cases hel : a.value.isElement = true
      · rw [if_pos hel, fc_mem_fullnameInfoNew]
        exact Or.inr ⟨ih, lookup_none_no_key _ _ hl⟩
      · rw [if_neg hel]; exact ih

/-- (S') Every binding that `namespaces_in_scope` lists for the chain, the `xml` one aside, is on
    the serializer's stack there. -/
theorem inScope_sub_stackAlong (rest : List Tree) (L0 : List (Nat × Nat)) (ok : ChainOK rest)
    (b : Nat × Nat) (hb : b ∈ namespacesInScopeChain rest) (hx : b.1 ≠ Env.xmlPrefix) :
    b ∈ stackAlong L0 rest := by
  unfold namespacesInScopeChain at hb
  simp only [List.mem_append, List.mem_filter] at hb
  rcases hb with h | ⟨h, _⟩
  · exact nearestDecl_on_stack rest L0 b.1 b.2 ok (traverseChain_out_nearest rest [] b h).2
  · simp only [basePrefixes, List.mem_singleton] at h
    exact absurd (by rw [h]) hx

theorem stackAlong_append (L0 : List (Nat × Nat)) (A B : List Tree) :
    stackAlong L0 (A ++ B) = stackAlong (stackAlong L0 B) A := by
  induction A with
  | nil => rfl
  | cons a A ih => simp [stackAlong, ih]

end XotModel
