/-
  Machinery for closed witnesses: `build` calls `parseContentGo`, which is defined by
  well-founded recursion and therefore does not reduce under `decide`.  `buildE` is `build`
  with the attribute step short-cut for EMPTY attribute values (no call to `parseContentGo`);
  `build_eq_buildE` proves the two equal on every input, so a closed witness whose attribute
  values are empty and which has no text token can be evaluated by the kernel.
  Observables of a `BuildResult` used by the witnesses are projected to decidable data.
-/
import XotModel.Model.Parse
import XotModel.Model.Valid
import XotModel.Lemmas.ParseContent

namespace XotModel

/-- `Builder.attribute` on an empty value, without going through `parseContentGo`. -/
def Builder.attributeEmpty (b : Builder) (pfx loc : StrSpan) (start : Nat) : Step Builder :=
  match b.eb with
  | none => .panic
  | some eb =>
    if eb.attributes.any (fun ab => ab.pfx == pfx.text && ab.name == loc.text) then
      .err (.duplicateAttribute (attrDisplayName pfx.text loc.text) (Span.fromPrefixName pfx loc)) b.env
    else
      let ab : AttributeBuilder :=
        { pfx := pfx.text, name := loc.text, value := [],
          nameSpan := Span.fromPrefixName pfx loc, valueSpan := ⟨start, start⟩, prefixSpan := pfx.span }
      .ok { b with eb := some { eb with attributes := eb.attributes ++ [ab] } }

theorem attribute_empty (b : Builder) (pfx loc : StrSpan) (start : Nat) :
    b.attribute pfx loc ⟨[], start⟩ = b.attributeEmpty pfx loc start := by
  unfold Builder.attribute Builder.attributeEmpty
  simp only [parseGo_nil]
  cases b.eb with
  | none => rfl
  | some eb =>
    simp only
    split
    · rfl
    · simp [normalizeXmlId, stripOnePrefix, stripOneSuffix, collapseSpaces, StrSpan.span, StrSpan.stop, strLen]

def Builder.stepE (b : Builder) : Token → Step Builder
  | .attribute pfx loc value sp =>
    if pfx.text == ['x', 'm', 'l', 'n', 's'] then b.prefix loc.text value.text
    else if loc.text == ['x', 'm', 'l', 'n', 's'] then b.prefix [] value.text
    else if value.text = [] then b.attributeEmpty pfx loc value.start
    else b.attribute pfx loc value
  | .elementEnd .empty sp =>
    match b.openElement with
    | .ok b1 => b1.closeImmediate sp
    | r => r
  | t => b.step t

theorem stepE_eq (b : Builder) (t : Token) : b.stepE t = b.step t := by
  cases t with
  | «attribute» pfx loc value sp =>
    simp only [Builder.stepE, Builder.step]
    split
    · rfl
    · split
      · rfl
      · split
        · rename_i hv
          obtain ⟨txt, st⟩ := value
          simp only at hv
          subst hv
          exact (attribute_empty b pfx loc st).symm
        · rfl
  | elementEnd e sp => cases e <;> rfl
  | _ => rfl

def Builder.runE (b : Builder) : List Token → Option Nat → Step Builder
  | [], none => .ok b
  | [], some pos => .err (.xmlParser pos) b.env
  | t :: ts, lexErr =>
    match b.stepE t with
    | .ok b1 => Builder.runE b1 ts lexErr
    | r => r

theorem runE_eq (ts : List Token) (lexErr : Option Nat) : ∀ b : Builder, b.runE ts lexErr = b.run ts lexErr := by
  induction ts with
  | nil => intro b; cases lexErr <;> rfl
  | cons t ts ih =>
    intro b
    simp only [Builder.runE, Builder.run, stepE_eq]
    cases b.step t with
    | ok b1 => exact ih b1
    | err e env => rfl
    | panic => rfl

def buildE (m : Mode) (len : Nat) (env : Env) (ts : List Token) (lexErr : Option Nat) : BuildResult :=
  match (Builder.new env).runE ts lexErr with
  | .panic => .panic
  | .err e env' => .err e env'
  | .ok b =>
    match m with
    | .document => b.finishDocument len
    | .fragment => b.finishFragment

theorem build_eq_buildE (m : Mode) (len : Nat) (env : Env) (ts : List Token) (lexErr : Option Nat) :
    build m len env ts lexErr = buildE m len env ts lexErr := by
  unfold build buildE
  rw [runE_eq]
  cases (Builder.new env).run ts lexErr with
  | panic => rfl
  | err e env' => rfl
  | ok b => cases m <;> rfl

/-! ### Decidable observables -/

def BuildResult.isPanic : BuildResult → Bool
  | .panic => true
  | _ => false

def BuildResult.isOk : BuildResult → Bool
  | .ok _ => true
  | _ => false

/-- The tree as nested lists of values (`Tree` itself has no decidable equality). -/
def Tree.flat : Tree → List (Nat × Value)
  | t => go 0 t
where
  go (d : Nat) : Tree → List (Nat × Value)
    | .node v ks => (d, v) :: goList (d + 1) ks
  goList (d : Nat) : List Tree → List (Nat × Value)
    | [] => []
    | k :: ks => go d k ++ goList d ks

/-- Pre-order list of (depth, value) of the accepted tree. -/
def BuildResult.flat : BuildResult → Option (List (Nat × Value))
  | .ok p => some p.tree.flat
  | _ => none

/-- Decidable form of "attribute names and declared prefixes are unique at every node". -/
def Tree.uniqueB : Tree → Bool
  | .node _ ks => decide ((attrNames ks).Nodup) && decide ((nsPrefixes ks).Nodup) && uniqueBList ks
where
  uniqueBList : List Tree → Bool
    | [] => true
    | k :: ks => Tree.uniqueB k && uniqueBList ks

mutual
theorem uniqueB_of_forall : ∀ t : Tree, t.Forall (fun _ ks => UniqueKids ks) → t.uniqueB = true
  | .node v ks, h => by
    rw [Tree.Forall] at h
    rw [Tree.uniqueB]
    simp only [Bool.and_eq_true, decide_eq_true_eq]
    exact ⟨⟨h.1.1, h.1.2⟩, uniqueBList_of_forall ks h.2⟩
theorem uniqueBList_of_forall : ∀ ks : List Tree,
    Tree.Forall.forallList (fun _ ks => UniqueKids ks) ks → Tree.uniqueB.uniqueBList ks = true
  | [], _ => rfl
  | k :: ks, h => by
    rw [Tree.uniqueB.uniqueBList]
    simp only [Bool.and_eq_true]
    exact ⟨uniqueB_of_forall k h.1, uniqueBList_of_forall ks h.2⟩
end

def BuildResult.uniqueB : BuildResult → Option Bool
  | .ok p => some p.tree.uniqueB
  | _ => none

/-- The span of the error, if the call failed. -/
def BuildResult.errSpan : BuildResult → Option Span
  | .err e _ => some e.span
  | _ => none

/-- The recorded span for a key, if the call succeeded. -/
def BuildResult.spanOf (r : BuildResult) (k : SpanKey) : Option Span :=
  match r with
  | .ok p => p.spans.get k
  | _ => none

/-- The namespace table after the call. -/
def BuildResult.namespaces : BuildResult → List Str
  | .ok p => p.env.namespaces
  | .err _ env => env.namespaces
  | .panic => []

/-- The interning tables of a fresh `Xot` (`Xot::new`). -/
def Env.fresh : Env :=
  { namespaces := [[], ['h', 't', 't', 'p', ':', '/', '/', 'w', 'w', 'w', '.', 'w', '3', '.', 'o', 'r', 'g', '/', 'X', 'M', 'L', '/', '1', '9', '9', '8', '/', 'n', 'a', 'm', 'e', 's', 'p', 'a', 'c', 'e']],
    prefixes := [[], ['x', 'm', 'l']],
    names := [(['s', 'p', 'a', 'c', 'e'], 1), (['i', 'd'], 1)] }

end XotModel
