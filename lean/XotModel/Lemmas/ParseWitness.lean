/-
  Machinery for closed witnesses: `build` calls `parseContentGo`, which is defined by
  well-founded recursion and therefore does not reduce under `decide`.  `parseContentFuel` is the
  same loop by structural recursion on a fuel argument, `buildE` is `build` with every call of
  `parseContentGo` replaced by it; `build_eq_buildE` proves the two equal on every input, so a
  closed witness can be evaluated by the kernel (`decide +kernel`).
  Observables of a `BuildResult` used by the witnesses are projected to decidable data.
-/
import XotModel.Model.Parse
import XotModel.Model.Valid
import XotModel.Lemmas.ParseContent

namespace XotModel

/-- `parseContentGo` by structural recursion on `fuel`. -/
def parseContentFuel (attr : Bool) (base : Nat) : Nat → Nat → Str → Except ContentErr Str
  | 0, _, _ => .ok []
  | _ + 1, _, [] => .ok []
  | fuel + 1, pos, c :: rest =>
    if c = '\r' then
      consOk (if attr then ' ' else '\n')
        (parseContentFuel attr base fuel (pos + 1 + (rest.length - (skipLf rest).length)) (skipLf rest))
    else if c = '&' then
      match splitSemi rest with
      | none => .error (.unclosed rest (base + pos))
      | some (ent, rest') =>
        match decodeEntity ent with
        | none => .error (.invalid (entityErrText ent) (base + pos) (base + (pos + 1 + strLen ent + 1)))
        | some ch => consOk ch (parseContentFuel attr base fuel (pos + 1 + strLen ent + 1) rest')
    else if attr && (c = '\t' || c = '\n') then
      consOk ' ' (parseContentFuel attr base fuel (pos + utf8Len c) rest)
    else
      consOk c (parseContentFuel attr base fuel (pos + utf8Len c) rest)

theorem parseGo_amp (attr : Bool) (base pos : Nat) (rest : Str) :
    parseContentGo attr base pos ('&' :: rest) =
      (match splitSemi rest with
       | none => .error (.unclosed rest (base + pos))
       | some (ent, rest') =>
         match decodeEntity ent with
         | none => .error (.invalid (entityErrText ent) (base + pos) (base + (pos + 1 + strLen ent + 1)))
         | some ch => consOk ch (parseContentGo attr base (pos + 1 + strLen ent + 1) rest')) := by
  rw [parseContentGo.eq_def]
  have h1 : ('&' : Char) ≠ '\r' := by decide
  simp only [h1, if_false, if_true]
  split
  · rename_i hnone; rw [hnone]
  · rename_i ent rest' hsome
    rw [hsome]
    simp only
    cases decodeEntity ent <;> rfl

theorem parseContentFuel_eq (attr : Bool) (base : Nat) : ∀ (fuel pos : Nat) (s : Str), s.length < fuel →
    parseContentFuel attr base fuel pos s = parseContentGo attr base pos s := by
  intro fuel
  induction fuel with
  | zero => intro pos s h; omega
  | succ fuel ih =>
    intro pos s hs
    cases s with
    | nil => rw [parseGo_nil]; rfl
    | cons c rest =>
      simp only [List.length_cons] at hs
      simp only [parseContentFuel]
      by_cases h1 : c = '\r'
      · subst h1
        simp only [if_true]
        rw [parseGo_cr, ih _ _ (by have := skipLf_length rest; omega)]
      · simp only [h1, if_false]
        by_cases h2 : c = '&'
        · subst h2
          simp only [if_true]
          rw [parseGo_amp]
          cases hsp : splitSemi rest with
          | none => rfl
          | some p =>
            obtain ⟨ent, rest'⟩ := p
            simp only
            cases decodeEntity ent with
            | none => rfl
            | some ch =>
              simp only
              rw [ih _ _ (by have := splitSemi_length hsp; omega)]
        · simp only [h2, if_false]
          by_cases h3 : attr = true ∧ (c = '\t' ∨ c = '\n')
          · obtain ⟨ha, hc⟩ := h3
            subst ha
            have : (true && (decide (c = '\t') || decide (c = '\n'))) = true := by
              rcases hc with h | h <;> subst h <;> decide
            simp only [this, if_true]
            rw [parseGo_attr_ws base pos c rest hc, ih _ _ (by omega)]
          · have hplain : plainFor attr c = true := by
              simp only [plainFor, Bool.and_eq_true, bne_iff_ne, ne_eq, Bool.not_eq_true', Bool.and_eq_false_iff,
                Bool.or_eq_false_iff, beq_eq_false_iff_ne]
              refine ⟨⟨h1, h2⟩, ?_⟩
              by_cases ha : attr = true
              · right
                exact ⟨fun h => h3 ⟨ha, Or.inl h⟩, fun h => h3 ⟨ha, Or.inr h⟩⟩
              · left; simpa using ha
            have : (attr && (decide (c = '\t') || decide (c = '\n'))) = false := by
              cases attr with
              | false => rfl
              | true =>
                simp only [Bool.true_and, Bool.or_eq_false_iff, decide_eq_false_iff_not]
                exact ⟨fun h => h3 ⟨rfl, Or.inl h⟩, fun h => h3 ⟨rfl, Or.inr h⟩⟩
            simp only [this, Bool.false_eq_true, if_false]
            rw [parseGo_plain attr base pos c rest hplain, ih _ _ (by omega)]

/-- `parse_content(content, attribute, base_position)` in kernel-evaluable form. -/
def parseContentE (attr : Bool) (base : Nat) (s : Str) : Except ContentErr Str :=
  parseContentFuel attr base (s.length + 1) 0 s

theorem parseContentE_eq (attr : Bool) (base : Nat) (s : Str) :
    parseContentE attr base s = parseContentGo attr base 0 s :=
  parseContentFuel_eq attr base _ 0 s (by omega)

/-- `Builder.prefix` / `attribute` / `text` with `parseContentE`. -/
def Builder.prefixE (b : Builder) (pfx : Str) (uri : StrSpan) (nameSpan : Span) : Step Builder :=
  match parseContentE true uri.start uri.text with
  | .error e => .err (ParseErr.ofContent e) b.env
  | .ok u =>
    if reservedDecl pfx u then
      .err (.invalidNamespaceDeclaration (declDisplayName pfx) nameSpan) b.env
    else
    let r1 := b.env.internPrefix pfx
    let r2 := r1.1.internNamespace u
    match b.eb with
    | none => .panic
    | some eb =>
      if eb.namespaces.any (fun d => d.1 == r1.2) then
        .err (.duplicateAttribute (declDisplayName pfx) nameSpan) r2.1
      else
        .ok { b with env := r2.1, eb := some { eb with namespaces := eb.namespaces ++ [(r1.2, r2.2)] } }

def Builder.attributeE (b : Builder) (pfx loc value : StrSpan) : Step Builder :=
  match b.eb with
  | none => .panic
  | some eb =>
    if eb.attributes.any (fun ab => ab.pfx == pfx.text && ab.name == loc.text) then
      .err (.duplicateAttribute (attrDisplayName pfx.text loc.text) (Span.fromPrefixName pfx loc)) b.env
    else
      match parseContentE true value.start value.text with
      | .error e => .err (ParseErr.ofContent e) b.env
      | .ok v =>
        let ab : AttributeBuilder :=
          { pfx := pfx.text, name := loc.text, value := v,
            nameSpan := Span.fromPrefixName pfx loc, valueSpan := value.span, prefixSpan := pfx.span }
        .ok { b with eb := some { eb with attributes := eb.attributes ++ [ab] } }

def Builder.textE (b : Builder) (t : StrSpan) : Step Builder :=
  match parseContentE false t.start t.text with
  | .error e => .err (ParseErr.ofContent e) b.env
  | .ok content =>
    let r := b.addText content
    .ok { r.1 with spans := r.1.spans.extendText r.2 t.span }

theorem prefixE_eq (b : Builder) (pfx : Str) (uri : StrSpan) (sp : Span) :
    b.prefixE pfx uri sp = b.prefix pfx uri sp := by
  unfold Builder.prefixE Builder.prefix
  rw [parseContentE_eq]
  cases parseContentGo true uri.start 0 uri.text <;> rfl

theorem attributeE_eq (b : Builder) (pfx loc value : StrSpan) :
    b.attributeE pfx loc value = b.attribute pfx loc value := by
  unfold Builder.attributeE Builder.attribute
  rw [parseContentE_eq]
  cases b.eb with
  | none => rfl
  | some eb =>
    simp only
    split
    · rfl
    · cases parseContentGo true value.start 0 value.text <;> rfl

theorem textE_eq (b : Builder) (t : StrSpan) : b.textE t = b.text t := by
  unfold Builder.textE Builder.text
  rw [parseContentE_eq]
  cases parseContentGo false t.start 0 t.text <;> rfl

def Builder.stepE (b : Builder) : Token → Step Builder
  | .attribute pfx loc value _ =>
    if pfx.bareColon then .err (qnameError pfx loc) b.env
    else if pfx.text == ['x', 'm', 'l', 'n', 's'] then b.prefixE loc.text value (Span.fromPrefixName pfx loc)
    else if pfx.text.isEmpty && loc.text == ['x', 'm', 'l', 'n', 's'] then
      b.prefixE [] value (Span.fromPrefixName pfx loc)
    else b.attributeE pfx loc value
  | .text t => b.textE t
  | .elementEnd .empty sp =>
    match b.openElement with
    | .ok b1 => b1.closeImmediate sp
    | r => r
  | t => b.step t

theorem stepE_eq (b : Builder) (t : Token) : b.stepE t = b.step t := by
  cases t with
  | «attribute» pfx loc value sp =>
    simp only [Builder.stepE, Builder.step, prefixE_eq, attributeE_eq]
  | text t => simp only [Builder.stepE, Builder.step, textE_eq]
  | elementEnd e sp => cases e <;> rfl
  | _ => rfl

def Builder.runE (b : Builder) : List Token → Option Nat → Step Builder
  | [], none =>
    match b.eb with
    | some eb => .err (.unclosedTag eb.span) b.env
    | none => .ok b
  | [], some pos => .err (.xmlParser pos) b.env
  | t :: ts, lexErr =>
    match b.stepE t with
    | .ok b1 => Builder.runE b1 ts lexErr
    | r => r

theorem runE_eq (ts : List Token) (lexErr : Option Nat) : ∀ b : Builder, b.runE ts lexErr = b.run ts lexErr := by
  induction ts with
  | nil => intro b; cases lexErr <;> simp only [Builder.runE, Builder.run] <;> cases b.eb <;> rfl
  | cons t ts ih =>
    intro b
    simp only [Builder.runE, Builder.run, stepE_eq]
    cases b.step t with
    | ok b1 => exact ih b1
    | err e env => rfl
    | panic => rfl

def buildE (m : Mode) (len : Nat) (env : Env) (ts : List Token) (lexErr : Option Nat) : BuildResult :=
  match (Builder.new env).runE ts lexErr with
  | .panic => .panic
  | .err e env' => .err e env'
  | .ok b =>
    match m with
    | .document => b.finishDocument len
    | .fragment => b.finishFragment

theorem build_eq_buildE (m : Mode) (len : Nat) (env : Env) (ts : List Token) (lexErr : Option Nat) :
    build m len env ts lexErr = buildE m len env ts lexErr := by
  unfold build buildE
  rw [runE_eq]
  cases (Builder.new env).run ts lexErr with
  | panic => rfl
  | err e env' => rfl
  | ok b => cases m <;> rfl

/-! ### Decidable observables -/

def BuildResult.isPanic : BuildResult → Bool
  | .panic => true
  | _ => false

def BuildResult.isOk : BuildResult → Bool
  | .ok _ => true
  | _ => false

/-- The tree as nested lists of values (`Tree` itself has no decidable equality). -/
def Tree.flat : Tree → List (Nat × Value)
  | t => go 0 t
where
  go (d : Nat) : Tree → List (Nat × Value)
    | .node v ks => (d, v) :: goList (d + 1) ks
  goList (d : Nat) : List Tree → List (Nat × Value)
    | [] => []
    | k :: ks => go d k ++ goList d ks

/-- Pre-order list of (depth, value) of the accepted tree. -/
def BuildResult.flat : BuildResult → Option (List (Nat × Value))
  | .ok p => some p.tree.flat
  | _ => none

/-- Decidable form of "attribute names and declared prefixes are unique at every node". -/
def Tree.uniqueB : Tree → Bool
  | .node _ ks => decide ((attrNames ks).Nodup) && decide ((nsPrefixes ks).Nodup) && uniqueBList ks
where
  uniqueBList : List Tree → Bool
    | [] => true
    | k :: ks => Tree.uniqueB k && uniqueBList ks

mutual
theorem uniqueB_of_forall : ∀ t : Tree, t.Forall (fun _ ks => UniqueKids ks) → t.uniqueB = true
  | .node v ks, h => by
    rw [Tree.Forall] at h
    rw [Tree.uniqueB]
    simp only [Bool.and_eq_true, decide_eq_true_eq]
    exact ⟨⟨h.1.1, h.1.2⟩, uniqueBList_of_forall ks h.2⟩
theorem uniqueBList_of_forall : ∀ ks : List Tree,
    Tree.Forall.forallList (fun _ ks => UniqueKids ks) ks → Tree.uniqueB.uniqueBList ks = true
  | [], _ => rfl
  | k :: ks, h => by
    rw [Tree.uniqueB.uniqueBList]
    simp only [Bool.and_eq_true]
    exact ⟨uniqueB_of_forall k h.1, uniqueBList_of_forall ks h.2⟩
end

def BuildResult.uniqueB : BuildResult → Option Bool
  | .ok p => some p.tree.uniqueB
  | _ => none

/-- The error, if the call failed. -/
def BuildResult.err? : BuildResult → Option ParseErr
  | .err e _ => some e
  | _ => none

/-- The span of the error, if the call failed. -/
def BuildResult.errSpan : BuildResult → Option Span
  | .err e _ => some e.span
  | _ => none

/-- The recorded span for a key, if the call succeeded. -/
def BuildResult.spanOf (r : BuildResult) (k : SpanKey) : Option Span :=
  match r with
  | .ok p => p.spans.get k
  | _ => none

/-- The namespace table after the call. -/
def BuildResult.namespaces : BuildResult → List Str
  | .ok p => p.env.namespaces
  | .err _ env => env.namespaces
  | .panic => []

/-- The interning tables of a fresh `Xot` (`Xot::new`). -/
def Env.fresh : Env :=
  { namespaces := [[], ['h', 't', 't', 'p', ':', '/', '/', 'w', 'w', 'w', '.', 'w', '3', '.', 'o', 'r', 'g', '/', 'X', 'M', 'L', '/', '1', '9', '9', '8', '/', 'n', 'a', 'm', 'e', 's', 'p', 'a', 'c', 'e']],
    prefixes := [[], ['x', 'm', 'l']],
    names := [(['s', 'p', 'a', 'c', 'e'], 1), (['i', 'd'], 1)] }

end XotModel
