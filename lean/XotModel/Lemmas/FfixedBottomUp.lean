/-
  The bottom-up construction route: children first, then the parent, then `append` in order.
-/
import XotModel.Lemmas.FfixedDocument2

namespace XotModel
open HTree

/-- `t` is a handle-labelled copy of the tree of `c`, with handles in `[n, n + size)`
    (no claim about which of them is the root's). -/
structure Built (n : Nat) (c : FContent) (t : HTree) : Prop where
  erase : t.erase = treeOfContent c
  bounds : ∀ h ∈ handles t, n ≤ h ∧ h < n + c.size
  nodup : (handles t).Nodup

theorem BuiltC.toBuilt {n : Nat} {c : FContent} {t : HTree} (h : BuiltC n c t) : Built n c t :=
  ⟨h.erase, h.bounds, h.nodup⟩

theorem Built.leaf (n : Nat) (c : FContent) (v : Value) (hc : treeOfContent c = .node v [])
    (hs : c.size = 1) : Built n c (.node n v []) := (BuiltC.leaf n c v hc hs).toBuilt

namespace Forest

theorem good_add_built {f : Forest} (hg : Good f) {c : FContent} {t : HTree} (hb : Built f.next c t) :
    Good { f with roots := f.roots ++ [t], next := f.next + c.size } :=
  hg.add_roots [t] _ (by simpa [handlesList] using hb.nodup)
    (by intro h hh; simp only [handlesList, List.append_nil] at hh; exact hb.bounds h hh) (by omega)

/-- The `append` loop when the children are roots right *before* the parent. -/
theorem appendAllOk_before {A B : List HTree} {p : Nat} {v : Value}
    (hpv : v.isElement = true ∨ v.isDocument = true) : ∀ (ts : List HTree) (f : Forest)
    (ks : List HTree), f.roots = A ++ (ts ++ HTree.node p v ks :: B) → Good f →
    (∀ t ∈ ts, t.value.isNormal = true ∧ t.value.isDocument = false) →
    (f.consolidation = true → noAdjacentText (ks ++ ts) = true) →
    f.appendAllOk p (ts.map HTree.handle) = some { f with roots := A ++ HTree.node p v (ks ++ ts) :: B }
  | [], f, ks, hroots, _, _, _ => by
    simp only [List.map_nil, appendAllOk, List.append_nil]
    simp only [List.nil_append] at hroots
    rw [← hroots]
  | t :: ts, f, ks, hroots, hg, hnorm, htext => by
    have hR : RootAt f A t (ts ++ HTree.node p v ks :: B) := ⟨by simp [hroots], hg.nodup⟩
    have hXY : A ++ (ts ++ HTree.node p v ks :: B) = (A ++ ts) ++ HTree.node p v ks :: B := by simp
    have happ := hR.append_root hXY hpv (hnorm t (by simp)).1 (hnorm t (by simp)).2 (by
      intro hc ht k hk
      obtain ⟨k1, rfl⟩ := List.getLast?_eq_some_iff.1 hk
      have := noAdjacentText_last k1 k t ts (by simpa using htext hc)
      cases hkt : k.value.isText with
      | false => rfl
      | true => exact absurd ⟨hkt, ht⟩ this)
    simp only [List.map_cons, appendAllOk]
    rw [appendOk_eq happ]
    simp only
    have hg' : Good { f with roots := (A ++ ts) ++ HTree.node p v (ks ++ [t]) :: B } := by
      refine Good.of_count_eq (f' := { f with roots := (A ++ ts) ++ HTree.node p v (ks ++ [t]) :: B })
        hg (Nat.le_refl f.next) ?_
      intro a
      show (handlesList ((A ++ ts) ++ HTree.node p v (ks ++ [t]) :: B)).count a = _
      rw [count_move_last hXY a, hR.roots]
    rw [appendAllOk_before (A := A) (B := B) hpv ts _ (ks ++ [t]) (by simp) hg'
      (fun x hx => hnorm x (List.mem_cons_of_mem _ hx))
      (by intro hc; simpa using htext hc)]
    simp

/-- The element tree from its head kids and built children is a built tree. -/
theorem built_element {n el : Nat} {nm : Nat} {ps : List (Nat × Nat)} {as : List (Nat × Str)}
    {cs : List FContent} {ts : List HTree} (lo : Nat) (hts : BuiltL lo cs ts)
    (hel : n ≤ el ∧ el + 1 + ps.length + as.length ≤ n + (FContent.element nm ps as cs).size)
    (hlo : n ≤ lo ∧ lo + FContent.sizeList cs ≤ n + (FContent.element nm ps as cs).size)
    (hdisj : lo + FContent.sizeList cs ≤ el ∨ el + 1 + ps.length + as.length ≤ lo) :
    Built n (.element nm ps as cs) (HTree.node el (.element nm) (headKids el ps as ++ ts)) := by
  have hKn : (handlesList (headKids el ps as)).Nodup := nodup_handlesList_leavesFrom _ _
  refine ⟨?_, ?_, ?_⟩
  · simp only [erase, treeOfContent, ffx_eraseList_append, hts.erase, eraseList_headKids,
      List.append_assoc]
  · intro h hh
    simp only [handles, handlesList_append_ff, List.mem_cons, List.mem_append] at hh
    rcases hh with rfl | hh | hh
    · omega
    · rw [mem_handlesList_headKids] at hh; omega
    · have := hts.bounds h hh; omega
  · simp only [handles, handlesList_append_ff, List.nodup_cons, List.mem_append, not_or]
    refine ⟨⟨?_, ?_⟩, List.nodup_append.2 ⟨hKn, hts.nodup, ?_⟩⟩
    · rw [mem_handlesList_headKids]; omega
    · intro hh; have := hts.bounds _ hh; omega
    · intro a ha b hb e
      rw [mem_handlesList_headKids] at ha
      have := hts.bounds _ hb; omega

theorem element_adjacency {f : Forest} {el : Nat} {ps : List (Nat × Nat)} {as : List (Nat × Str)}
    {cs : List FContent} {ts : List HTree} (he : eraseList ts = treeOfList cs)
    (hadj : (!f.consolidation) = true ∨ noAdjacentFText cs = true) :
    f.consolidation = true → noAdjacentText (headKids el ps as ++ ts) = true := by
  intro hc
  apply noAdjacentText_append_nontext
  · intro k hk; exact (headKids_nontext k hk).1
  · apply built_noAdjacentText ts cs he
    rcases hadj with hadj | hadj
    · rw [hc] at hadj; cases hadj
    · exact hadj

mutual
  theorem bottomUpContent_spec : ∀ (c : FContent) (f : Forest), Good f → c.wf f.consolidation = true →
      ∃ t, Built f.next c t ∧
        bottomUpContent f c = some ({ f with roots := f.roots ++ [t], next := f.next + c.size }, t.handle)
    | .text s, f, _, _ => ⟨.node f.next (.text s) [], Built.leaf _ _ _ rfl rfl, rfl⟩
    | .comment s, f, _, _ => ⟨.node f.next (.comment s) [], Built.leaf _ _ _ rfl rfl, rfl⟩
    | .pi t d, f, _, _ => ⟨.node f.next (.pi t d) [], Built.leaf _ _ _ rfl rfl, rfl⟩
    | .element nm ps as cs, f, hg, hwf => by
      simp only [FContent.wf, Bool.and_eq_true, decide_eq_true_eq, Bool.or_eq_true] at hwf
      obtain ⟨⟨⟨hps, has⟩, hadj⟩, hwfl⟩ := hwf
      obtain ⟨ts, hts, hlist⟩ := bottomUpList_spec cs f hg hwfl
      let f1 : Forest := { f with roots := f.roots ++ ts, next := f.next + FContent.sizeList cs }
      have hg1 : Good f1 := hg.add_roots ts _ hts.nodup hts.bounds (by omega)
      have hhead := newElementWithMaps_spec f1 hg1 nm ps as hps has
      let el := f1.next
      let K := headKids el ps as
      let f2 : Forest := { f1 with roots := f1.roots ++ [HTree.node el (.element nm) K],
                                   next := el + 1 + ps.length + as.length }
      have hg2 : Good f2 := hg1.add_roots [HTree.node el (.element nm) K] _
        (by
          simp only [handlesList, handles, List.append_nil, List.nodup_cons]
          refine ⟨?_, nodup_handlesList_leavesFrom _ _⟩
          rw [mem_handlesList_headKids]; omega)
        (by
          intro h hh
          simp only [handlesList, handles, List.append_nil, List.mem_cons] at hh
          rcases hh with rfl | hh
          · omega
          · rw [mem_handlesList_headKids] at hh; omega)
        (by omega)
      have hroots2 : f2.roots = f.roots ++ (ts ++ HTree.node el (.element nm) K :: []) := by
        simp [f2, f1]
      have happ := appendAllOk_before (A := f.roots) (B := []) (p := el) (v := .element nm)
        (Or.inl rfl) ts f2 K hroots2 hg2 (built_normal ts cs hts.erase)
        (element_adjacency (f := f) hts.erase hadj)
      refine ⟨HTree.node el (.element nm) (K ++ ts), ?_, ?_⟩
      · exact built_element f.next hts (by simp only [el, f1, FContent.size]; omega)
          (by simp only [FContent.size]; omega) (Or.inl (by simp only [el, f1]; omega))
      · unfold bottomUpContent
        rw [hlist]
        simp only
        rw [hhead]
        simp only
        rw [happ]
        simp only [f2, f1, el, FContent.size, HTree.handle, Option.some.injEq, Prod.mk.injEq, and_true]
        congr 1
        omega
  theorem bottomUpList_spec : ∀ (cs : List FContent) (f : Forest), Good f →
      FContent.wfList f.consolidation cs = true →
      ∃ ts, BuiltL f.next cs ts ∧
        bottomUpList f cs = some ({ f with roots := f.roots ++ ts, next := f.next + FContent.sizeList cs },
          ts.map HTree.handle)
    | [], f, _, _ => by
      refine ⟨[], ⟨rfl, ?_, ?_⟩, ?_⟩
      · intro h hh; simp [handlesList] at hh
      · simp [handlesList]
      · simp [bottomUpList, FContent.sizeList]
    | c :: cs, f, hg, hwf => by
      simp only [FContent.wfList, Bool.and_eq_true] at hwf
      obtain ⟨t, ht, hc⟩ := bottomUpContent_spec c f hg hwf.1
      let f1 : Forest := { f with roots := f.roots ++ [t], next := f.next + c.size }
      have hg1 : Good f1 := good_add_built hg ht
      obtain ⟨ts, hts, hl⟩ := bottomUpList_spec cs f1 hg1 hwf.2
      refine ⟨t :: ts, ⟨?_, ?_, ?_⟩, ?_⟩
      · simp [eraseList, treeOfList, ht.erase, hts.erase]
      · intro h hh
        simp only [handlesList, List.mem_append, FContent.sizeList] at hh ⊢
        rcases hh with hh | hh
        · have := ht.bounds h hh; omega
        · have := hts.bounds h hh; simp only [f1] at this; omega
      · simp only [handlesList]
        refine List.nodup_append.2 ⟨ht.nodup, hts.nodup, ?_⟩
        intro a ha b hb e
        have h1 := ht.bounds a ha
        have h2 := hts.bounds b hb
        simp only [f1] at h2
        omega
      · unfold bottomUpList
        rw [hc]
        simp only
        rw [hl]
        simp only [f1, List.map_cons, FContent.sizeList, List.append_assoc,
          List.cons_append, List.nil_append, Option.some.injEq, Prod.mk.injEq, and_true]
        congr 1
        omega
end

end Forest
end XotModel
