/-
  Lemmas for C20 (extended construction programs), part 5: the value setters preserve the C04
  invariant — `specSetValue n v' f` when `v'` is of the kind of the old value (text → text, element →
  element, comment → comment, PI → PI, attribute → attribute with the same name).
-/
import XotModel.Lemmas.Fprog2Inv1
import XotModel.Lemmas.FspecSet2

namespace XotModel
namespace Prog2
open HTree Spec Prog Fmap
open Forest (entryKey)

/-- The new value is of the kind of the old one (and keeps the key of an attribute / the prefix of a
    namespace declaration). -/
def sameKind : Value → Value → Bool
  | .text _, .text _ => true
  | .element _, .element _ => true
  | .comment _, .comment _ => true
  | .pi _ _, .pi _ _ => true
  | .attribute a _, .attribute b _ => a == b
  | .namespace a _, .namespace b _ => a == b
  | _, _ => false

/-- What a child list's local conditions see of a child's value. -/
structure Sig (a b : Value) : Prop where
  cat : a.category = b.category
  key : entryKey a = entryKey b
  text : a.isText = b.isText
  allowed : ∀ p, kidAllowed p a = kidAllowed p b

theorem Sig.refl (a : Value) : Sig a a := ⟨rfl, rfl, rfl, fun _ => rfl⟩

theorem sameKind_sig {v v' : Value} (h : sameKind v v' = true) : Sig v' v := by
  cases v <;> cases v' <;> simp only [sameKind] at h <;> try (cases h)
  all_goals first
    | exact ⟨rfl, rfl, rfl, fun p => by cases p <;> rfl⟩
    | (have e := (beq_iff_eq.1 h); subst e; exact ⟨rfl, rfl, rfl, fun p => by cases p <;> rfl⟩)

theorem sameKind_parent {v v' : Value} (h : sameKind v v' = true) (x : Value) :
    kidAllowed v' x = kidAllowed v x := by
  cases v <;> cases v' <;> simp only [sameKind] at h <;> first | rfl | cases h

/-! ### The local conditions only see signatures -/

theorem all_kidAllowed_sig (v : Value) (φ : HTree → HTree) (hφ : ∀ k, Sig (φ k).value k.value)
    (ks : List HTree) :
    (ks.map φ).all (fun k => kidAllowed v k.value) = ks.all (fun k => kidAllowed v k.value) := by
  induction ks with
  | nil => rfl
  | cons k ks ih => simp only [List.map_cons, List.all_cons, (hφ k).allowed, ih]

theorem kidsOrdered_sig (φ : HTree → HTree) (hφ : ∀ k, Sig (φ k).value k.value) :
    ∀ ks : List HTree, kidsOrdered (ks.map φ) = kidsOrdered ks
  | [] => rfl
  | [_] => rfl
  | a :: b :: rest => by
    have ih := kidsOrdered_sig φ hφ (b :: rest)
    simp only [List.map_cons] at ih ⊢
    simp only [kidsOrdered, (hφ a).cat, (hφ b).cat, ih]

theorem noAdjacentText_sig (φ : HTree → HTree) (hφ : ∀ k, Sig (φ k).value k.value) :
    ∀ ks : List HTree, noAdjacentText (ks.map φ) = noAdjacentText ks
  | [] => rfl
  | [_] => rfl
  | a :: b :: rest => by
    have ih := noAdjacentText_sig φ hφ (b :: rest)
    simp only [List.map_cons] at ih ⊢
    simp only [noAdjacentText, (hφ a).text, (hφ b).text, ih]

theorem keysUnique_sig (c : Category) (φ : HTree → HTree) (hφ : ∀ k, Sig (φ k).value k.value)
    (ks : List HTree) : keysUnique c (ks.map φ) = keysUnique c ks := by
  have : ((ks.map φ).filter (fun k => k.value.category == c)).map (fun k => entryKey k.value) =
      (ks.filter (fun k => k.value.category == c)).map (fun k => entryKey k.value) := by
    induction ks with
    | nil => rfl
    | cons k ks ih =>
      simp only [List.map_cons, List.filter_cons, (hφ k).cat]
      split
      · simp only [List.map_cons, (hφ k).key, ih]
      · exact ih
  simp only [keysUnique, this]

theorem localOK_sig (b : Bool) (v : Value) (φ : HTree → HTree) (hφ : ∀ k, Sig (φ k).value k.value)
    (ks : List HTree) : localOK b v (ks.map φ) = localOK b v ks := by
  simp only [localOK, all_kidAllowed_sig v φ hφ, kidsOrdered_sig φ hφ, keysUnique_sig _ φ hφ,
    noAdjacentText_sig φ hφ]

/-- The parent's value only matters through what it allows. -/
theorem localOK_parent {b : Bool} {v v' : Value} (h : ∀ x, kidAllowed v' x = kidAllowed v x) (ks : List HTree) :
    localOK b v' ks = localOK b v ks := by
  simp only [localOK, h]

/-! ### One value changed in a child list -/

/-- The child `n` with a new value. -/
def setAt (n : Nat) (v' : Value) (k : HTree) : HTree := if k.handle = n then k.setValue v' else k

theorem setAt_sig {n : Nat} {v' : Value} {L : List HTree}
    (h : ∀ k ∈ L, k.handle = n → sameKind k.value v' = true) :
    ∀ k ∈ L, Sig (setAt n v' k).value k.value := by
  intro k hk
  unfold setAt
  by_cases e : k.handle = n
  · rw [if_pos e]
    have := sameKind_sig (h k hk e)
    cases k
    exact this
  · rw [if_neg e]; exact Sig.refl _

theorem localOK_map_mem {b : Bool} {v : Value} {φ : HTree → HTree} {L : List HTree}
    (hφ : ∀ k ∈ L, Sig (φ k).value k.value) : localOK b v (L.map φ) = localOK b v L := by
  -- make `φ` total: the identity outside `L`
  classical
  let ψ : HTree → HTree := fun k => if k ∈ L then φ k else k
  have e : L.map φ = L.map ψ := by
    apply List.map_congr_left
    intro k hk
    simp only [ψ, if_pos hk]
  rw [e]
  apply localOK_sig
  intro k
  by_cases hk : k ∈ L
  · simp only [ψ, if_pos hk]; exact hφ k hk
  · simp only [ψ, if_neg hk]; exact Sig.refl _

theorem replaceTop_setValue_eq_map {n : Nat} {v' : Value} {l : List HTree} {t : HTree} {r : List HTree}
    (ht : t.handle = n) (hl : ∀ k ∈ l, k.handle ≠ n) (hr : ∀ k ∈ r, k.handle ≠ n) :
    replaceTop n (fun k => [k.setValue v']) (l ++ t :: r) = (l ++ t :: r).map (setAt n v') := by
  rw [replaceTop_mid ht hl, List.map_append, List.map_cons]
  have e1 : l.map (setAt n v') = l := by
    rw [List.map_congr_left (g := id) (fun k hk => by simp [setAt, hl k hk]), List.map_id]
  have e2 : r.map (setAt n v') = r := by
    rw [List.map_congr_left (g := id) (fun k hk => by simp [setAt, hr k hk]), List.map_id]
  rw [e1, e2]
  simp [setAt, ht]

theorem validX_setValue {sx : Nat → Bool} {t : HTree} {v' : Value} (hv : validX sx t = true)
    (hk : sameKind t.value v' = true) : validX sx (t.setValue v') = true := by
  cases t with
  | node h v ks =>
    simp only [HTree.setValue, HTree.value] at hk ⊢
    rw [validX_node, Bool.and_eq_true] at hv ⊢
    exact ⟨by rw [localOK_parent (sameKind_parent hk)]; exact hv.1, hv.2⟩

theorem validXList_replaceTop {sx : Nat → Bool} {n : Nat} {F : HTree → List HTree} : ∀ (L : List HTree),
    validXList sx L = true → (∀ k ∈ L, k.handle = n → validXList sx (F k) = true) →
    validXList sx (replaceTop n F L) = true
  | [], _, _ => rfl
  | k :: ks, hv, hF => by
    rw [validXList_cons, Bool.and_eq_true] at hv
    rw [replaceTop_cons]
    by_cases e : k.handle = n
    · rw [if_pos e, validXList_append, Bool.and_eq_true]
      exact ⟨hF k List.mem_cons_self e, hv.2⟩
    · rw [if_neg e, validXList_cons, Bool.and_eq_true]
      exact ⟨hv.1, validXList_replaceTop ks hv.2 (fun k' hk' => hF k' (List.mem_cons_of_mem _ hk'))⟩

/-! ### The forest -/

/-- **A value setter that keeps the kind of the value preserves the invariant.** -/
theorem specSetValue_inv {f : Forest} {n : Nat} {v v' : Value} (inv : f.Inv) (hv : f.value? n = some v)
    (hk : sameKind v v' = true) : (specSetValue n v' f).Inv := by
  have nd := inv.nodup
  have hv0 := valid0 inv
  obtain ⟨t, hg, htv⟩ := get_of_value hv
  have htn : t.handle = n := (findList?_some f.roots t hg).1
  have htV : validX (sx0 f) (t.setValue v') = true :=
    validX_setValue (validX_findList f.roots t hv0 hg) (by rw [htv]; exact hk)
  apply inv_of_valid_count (g := specSetValue n v' f) inv rfl rfl rfl rfl
  · rw [← setValue_eq_spec]
    rcases Forest.root_or_ctx hg with hroot | ⟨cx, hctx⟩
    · -- a parentless tree
      have htop : IsTop n f.roots := by
        unfold Forest.isRoot at hroot
        obtain ⟨k, hk1, hk2⟩ := List.any_eq_true.1 hroot
        exact ⟨k, hk1, by simpa using hk2⟩
      show validXList (sx0 f) (f.roots.map (mapAt n (HTree.setValue v'))) = true
      have e : f.roots.map (mapAt n (HTree.setValue v')) = mapAtList n (HTree.setValue v') f.roots := by
        generalize f.roots = rs
        induction rs with
        | nil => simp [mapAtList]
        | cons k ks ih => simp only [List.map_cons, mapAtList, ih]
      rw [e, mapAtList_eq_replaceTop f.roots nd htop]
      apply validXList_replaceTop f.roots hv0
      intro k hkm hkn
      have : f.get? n = some k := by
        have := root_is nd hg k hkm hkn
        rw [this]; exact hg
      rw [hg] at this
      rw [← Option.some.inj this, validXList_cons, Bool.and_eq_true]
      exact ⟨htV, rfl⟩
    · obtain ⟨vo, _, _, so, hp⟩ := site_of_kid nd hg hctx
      obtain ⟨ndL, _⟩ := so.nodupKids
      obtain ⟨tl, tr⟩ := tops_ne_of_nodup ndL
      rw [htn] at tl tr
      rw [Forest.setValue_of_ctx v' nd hctx]
      have hsite : validX (sx0 f) (.node cx.parent vo (cx.left ++ t :: cx.right)) = true :=
        validX_findList f.roots _ hv0 so.kids
      rw [validX_node, Bool.and_eq_true] at hsite
      obtain ⟨hloS, hmo⟩ := hsite
      apply stage so hv0 (fun _ _ h => h)
      · rw [replaceTop_setValue_eq_map htn tl tr, localOK_map_mem]
        · exact hloS
        · apply setAt_sig
          intro k hkm hkn
          rcases List.mem_append.1 hkm with e | e
          · exact absurd hkn (tl k e)
          · rcases List.mem_cons.1 e with e | e
            · rw [e, htv]; exact hk
            · exact absurd hkn (tr k e)
      · apply validXList_replaceTop _ hmo
        intro k hkm hkn
        have : k = t := by
          rcases List.mem_append.1 hkm with e | e
          · exact absurd hkn (tl k e)
          · rcases List.mem_cons.1 e with e | e
            · exact e
            · exact absurd hkn (tr k e)
        rw [this, validXList_cons, Bool.and_eq_true]
        exact ⟨htV, rfl⟩
  · intro z
    rw [specSetValue_allHandles]
    exact Nat.le_refl _

end Prog2
end XotModel
