/-
  The HTML5 serialiser with a normalizer (`Model/Normalizer.lean`: `renderHtmlN` … `serializeHtmlStringN`).

  * `N = id` is `Model/Html5.lean` (`serializeHtmlStringN_id`).
  * The normalizer is a pre-map (`serializeHtmlStringN_norm`): serialising WITH `N` = serialising
    `t.mapText N` without one, provided
      - `N` fixes the namespace URIs of the serialiser's table (they are written through
        `serialize_attribute_html(.., normalizer)`; MathML / SVG / XHTML URIs registered by `xot.html5()` included),
      - `BoolKept`: `N` does not change the outcome of the boolean-attribute test, which compares the local
        name with the value AS STORED (`value.to_ascii_lowercase()`, not normalised),
      - `SpaceKept` (only with indentation): as for XML, `xml:space` is read as stored.
  * For EVERY `N`, without any of these: what is written for character data / an attribute value / a namespace
    URI is the escaping function applied to the normalizer's result (`htmlTextValueN_eq`, `c19n_attr`,
    `c19n_attr_xmlns`), so markup characters produced by the normalizer are escaped.
-/
import XotModel.Lemmas.NormalizerXml
import XotModel.Lemmas.Html5Esc

namespace XotModel
open Gen

variable (N : Str → Str)

/-! ### What is written, for every normalizer -/

theorem htmlTextValueN_eq (c : HtmlCtx) (parent : Option Tree) (text : Str) :
    htmlTextValueN N c parent text = htmlTextValue c parent (N text) := by
  unfold htmlTextValueN htmlTextValue
  rfl

theorem htmlAttrValueN_eq (c : HtmlCtx) (name : Nat) (value : Str) :
    htmlAttrValueN N c name value = htmlAttrValue c name (N value) := rfl

/-- The attribute token under a normalizer: the bare name (decided on the value as stored) or
    `name="v"` with `v` the escaped NORMALISED value. -/
theorem c19n_attr (c : HtmlCtx) (s s' : HState) (node : Tree) (parent : Option Tree) (name : Nat)
    (value : Str) (tok : OutputToken)
    (h : renderHtmlN N c s node parent (.attribute name value) = .ok (s', tok)) :
    ∃ full, s.stack.attributeFullname c.env name = .ok full ∧ tok.space = true ∧
      ((tok.text = full ∧ asciiLower (c.env.localName name) = asciiLower value) ∨
       (tok.text = full ++ ['=','"'] ++ htmlAttrValue c name (N value) ++ ['"'] ∧
        '"' ∉ htmlAttrValue c name (N value) ∧ refsOnly knownRefs (htmlAttrValue c name (N value)) = true)) := by
  simp only [renderHtmlN] at h
  cases hf : s.stack.attributeFullname c.env name with
  | error e => rw [hf] at h; cases h
  | ok full =>
    rw [hf] at h
    simp only at h
    refine ⟨full, rfl, ?_⟩
    cases hb : htmlIsBooleanAttr c s.stack name value with
    | error e => rw [hb] at h; cases h
    | ok b =>
      rw [hb] at h
      cases b with
      | true =>
        simp only [Outcome.ok.injEq, Prod.mk.injEq] at h
        obtain ⟨_, rfl⟩ := h
        refine ⟨rfl, Or.inl ⟨by simp [fmt, fmtHtmlBooleanAttr], ?_⟩⟩
        unfold htmlIsBooleanAttr at hb
        split at hb
        · split at hb
          · simp only [Except.ok.injEq, Bool.and_eq_true, beq_iff_eq] at hb
            exact hb.2
          · cases hb
        · cases hb
      | false =>
        simp only [Outcome.ok.injEq, Prod.mk.injEq] at h
        obtain ⟨_, rfl⟩ := h
        refine ⟨rfl, Or.inr ⟨by simp [fmt, fmtHtmlAttribute, htmlAttrValueN_eq], ?_⟩⟩
        unfold htmlAttrValue
        split
        · exact ⟨(serializeAttribute_safe _).1, (serializeAttribute_safe _).2.2⟩
        · exact serializeAttributeHtml_safe _

/-- The `xmlns` token under a normalizer: the URI is normalised, then escaped. -/
theorem c19n_attr_xmlns (c : HtmlCtx) (s s' : HState) (node : Tree) (parent : Option Tree) (p ns : Nat)
    (tok : OutputToken) (h : renderHtmlN N c s node parent (.pfx p ns) = .ok (s', tok)) :
    tok.text = [] ∨
    ∃ v, (tok.text = ['x','m','l','n','s','=','"'] ++ v ++ ['"'] ∨
          tok.text = ['x','m','l','n','s',':'] ++ c.env.prefixStr p ++ ['=','"'] ++ v ++ ['"']) ∧
      v = serializeAttributeHtml (N (c.env.namespaceStr ns)) ∧ '"' ∉ v ∧ refsOnly knownRefs v = true := by
  simp only [renderHtmlN] at h
  split at h
  · split at h
    · simp only [Outcome.ok.injEq, Prod.mk.injEq] at h
      obtain ⟨_, rfl⟩ := h
      left; rfl
    · split at h
      · simp only [Outcome.ok.injEq, Prod.mk.injEq] at h
        obtain ⟨_, rfl⟩ := h
        exact Or.inr ⟨serializeAttributeHtml (N (c.env.namespaceStr ns)),
          Or.inl (by simp [fmt, fmtHtmlXmlnsDefault, serializeAttributeHtmlN]), rfl, serializeAttributeHtml_safe _⟩
      · simp only [Outcome.ok.injEq, Prod.mk.injEq] at h
        obtain ⟨_, rfl⟩ := h
        exact Or.inr ⟨serializeAttributeHtml (N (c.env.namespaceStr ns)),
          Or.inr (by simp [fmt, fmtHtmlXmlnsPrefix, serializeAttributeHtmlN]), rfl, serializeAttributeHtml_safe _⟩
  · cases h

/-! ### `N = id` -/

theorem renderHtmlN_id (c : HtmlCtx) (s : HState) (node : Tree) (parent : Option Tree) (o : Output) :
    renderHtmlN id c s node parent o = renderHtml c s node parent o := by
  cases o <;> rfl

theorem renderHtmlAtN_id (c : HtmlCtx) (t : Tree) (s : HState) (path : Path) (o : Output) :
    renderHtmlAtN id c t s path o = renderHtmlAt c t s path o := by
  unfold renderHtmlAtN renderHtmlAt
  cases t.at? path with
  | none => rfl
  | some node => exact renderHtmlN_id c s node _ o

theorem renderHtmlAllN_id (c : HtmlCtx) (t : Tree) (s : HState) (outs : List (Path × Output)) :
    renderHtmlAllN id c t s outs = renderHtmlAll c t s outs := by
  induction outs generalizing s with
  | nil => rfl
  | cons po rest ih =>
    obtain ⟨p, o⟩ := po
    simp only [renderHtmlAllN, renderHtmlAll, renderHtmlAtN_id]
    cases renderHtmlAt c t s p o with
    | err e => rfl
    | panic => rfl
    | ok r =>
      simp only [ih]
      cases renderHtmlAll c t r.1 rest <;> rfl

theorem writeHtmlGoN_id (c : HtmlCtx) (t : Tree) (s : HState) (outs : List (Path × Output)) :
    writeHtmlGoN id c t s outs = writeHtmlGo c t s outs := by
  induction outs generalizing s with
  | nil => rfl
  | cons po rest ih =>
    obtain ⟨p, o⟩ := po
    simp only [writeHtmlGoN, writeHtmlGo, renderHtmlAtN_id]
    cases renderHtmlAt c t s p o with
    | err e => rfl
    | panic => rfl
    | ok r => simp only [ih]

theorem writeHtmlPrettyGoN_id (c : HtmlCtx) (sup : List Nat) (t : Tree) (ps : PStack) (s : HState)
    (outs : List (Path × Output)) :
    writeHtmlPrettyGoN id c sup t ps s outs = writeHtmlPrettyGo c sup t ps s outs := by
  induction outs generalizing ps s with
  | nil => rfl
  | cons po rest ih =>
    obtain ⟨p, o⟩ := po
    simp only [writeHtmlPrettyGoN, writeHtmlPrettyGo, renderHtmlAtN_id]
    cases renderHtmlAt c t s p o with
    | err e => rfl
    | panic => rfl
    | ok r => simp only [ih]

theorem serializeHtmlWriteN_id (env : Env) (p : HtmlParams) (t : Tree) (start : Path) :
    serializeHtmlWriteN id env p t start = serializeHtmlWrite env p t start := by
  unfold serializeHtmlWriteN serializeHtmlWrite
  cases p.indentation with
  | none => simp only [writeHtmlGoN_id]
  | some sup => simp only [writeHtmlPrettyGoN_id]

theorem serializeHtmlStringN_id (env : Env) (p : HtmlParams) (t : Tree) (start : Path) :
    serializeHtmlStringN id env p t start = serializeHtmlString env p t start := by
  unfold serializeHtmlStringN serializeHtmlString
  rw [serializeHtmlWriteN_id]

/-! ### The normalizer as a pre-map -/

/-- The boolean-attribute test has the same outcome on the normalised value. -/
def Output.boolKept (c : HtmlCtx) : Output → Prop
  | .attribute name v =>
    c.h.isHtmlNamespace (c.env.nsOfName name) = true →
      (asciiLower (c.env.localName name) == asciiLower (N v)) = (asciiLower (c.env.localName name) == asciiLower v)
  | _ => True

def BoolKept (c : HtmlCtx) (outs : List (Path × Output)) : Prop := ∀ po ∈ outs, po.2.boolKept N c

theorem parentElementName_mapText (parent : Option Tree) :
    parentElementName (parent.map (Tree.mapText N)) = parentElementName parent := by
  cases parent with
  | none => rfl
  | some par =>
    simp only [Option.map_some, parentElementName, mapText_value]
    cases par.value <;> rfl

theorem htmlTextValue_mapText (c : HtmlCtx) (parent : Option Tree) (text : Str) :
    htmlTextValue c (parent.map (Tree.mapText N)) text = htmlTextValue c parent text := by
  unfold htmlTextValue
  rw [parentElementName_mapText]

theorem htmlPrefixHidden_mapText (c : HtmlCtx) (node : Tree) (en p ns : Nat) :
    htmlPrefixHidden c (node.mapText N) en p ns = htmlPrefixHidden c node en p ns := by
  simp [htmlPrefixHidden, mapText_attrs, List.any_map, Function.comp_def]

theorem htmlDeclarations_mapText (node : Tree) (ns : Nat) :
    htmlDeclarations (node.mapText N) ns = htmlDeclarations node ns := by
  simp [htmlDeclarations]

theorem htmlIsBooleanAttr_kept (c : HtmlCtx) (s : FStack) (name : Nat) (v : Str)
    (h : Output.boolKept N c (.attribute name v)) :
    htmlIsBooleanAttr c s name (N v) = htmlIsBooleanAttr c s name v := by
  unfold htmlIsBooleanAttr
  by_cases hn : c.h.isHtmlNamespace (c.env.nsOfName name) = true
  · simp only [hn, if_true, h hn]
  · simp [hn]

theorem renderHtmlN_norm (c : HtmlCtx) (s : HState) (node : Tree) (parent : Option Tree) (o : Output)
    (hns : ∀ ns, N (c.env.namespaceStr ns) = c.env.namespaceStr ns) (hb : o.boolKept N c) :
    renderHtmlN N c s node parent o =
      renderHtml c s (node.mapText N) (parent.map (Tree.mapText N)) (o.mapText N) := by
  cases o with
  | startTagOpen name =>
    simp only [Output.mapText, renderHtmlN, renderHtml, htmlDeclarations_mapText, serializeAttributeHtmlN, hns]
    split
    · rfl
    · cases FStack.elementFullname c.env (s.stack.push (htmlDeclarations node (c.env.nsOfName name))) name <;> rfl
  | pfx p ns =>
    simp only [Output.mapText, renderHtmlN, renderHtml, mapText_value, serializeAttributeHtmlN, hns]
    cases hv : node.value <;> simp only [Value.mapText, htmlPrefixHidden_mapText]
  | text s =>
    simp only [Output.mapText, renderHtmlN, renderHtml, htmlTextValueN_eq, htmlTextValue_mapText]
  | startTagClose => rfl
  | endTag name =>
    simp only [Output.mapText, renderHtmlN, renderHtml]
    split
    · rfl
    · cases FStack.elementFullname c.env s.stack name <;> rfl
  | comment s => rfl
  | pi target data =>
    simp only [Output.mapText, renderHtmlN, renderHtml]
    split
    · rfl
    · cases data <;> rfl
  | _ =>
    simp only [Output.mapText, renderHtmlN, renderHtml, htmlAttrValueN_eq,
        htmlIsBooleanAttr_kept N c _ _ _ hb]
    rename_i name value
    cases FStack.attributeFullname c.env s.stack name with
    | error e => rfl
    | ok full =>
      cases htmlIsBooleanAttr c s.stack name value with
      | error e => rfl
      | ok b => cases b <;> rfl

theorem renderHtmlAtN_norm (c : HtmlCtx) (t : Tree) (s : HState) (path : Path) (o : Output)
    (hns : ∀ ns, N (c.env.namespaceStr ns) = c.env.namespaceStr ns) (hb : o.boolKept N c) :
    renderHtmlAtN N c t s path o = renderHtmlAt c (t.mapText N) s path (o.mapText N) := by
  unfold renderHtmlAtN renderHtmlAt
  rw [mapText_at?, mapText_parentAt?]
  cases t.at? path with
  | none => rfl
  | some node => exact renderHtmlN_norm N c s node _ o hns hb

theorem renderHtmlAllN_norm (c : HtmlCtx) (t : Tree) (s : HState) (outs : List (Path × Output))
    (hns : ∀ ns, N (c.env.namespaceStr ns) = c.env.namespaceStr ns) (hb : BoolKept N c outs) :
    renderHtmlAll c (t.mapText N) s (outs.map (tagMapText N)) =
      (renderHtmlAllN N c t s outs).mapOk (List.map (tokMapText N)) := by
  induction outs generalizing s with
  | nil => rfl
  | cons po rest ih =>
    obtain ⟨p, o⟩ := po
    have h1 : o.boolKept N c := hb (p, o) (by simp)
    have h2 : BoolKept N c rest := fun q hq => hb q (by simp [hq])
    simp only [List.map_cons, tagMapText, renderHtmlAll, renderHtmlAllN, ← renderHtmlAtN_norm N c t s p o hns h1]
    cases renderHtmlAtN N c t s p o with
    | err e => rfl
    | panic => rfl
    | ok r =>
      obtain ⟨s', tok⟩ := r
      simp only [ih s' h2]
      cases renderHtmlAllN N c t s' rest <;> rfl

theorem writeHtmlGoN_norm (c : HtmlCtx) (t : Tree) (s : HState) (outs : List (Path × Output))
    (hns : ∀ ns, N (c.env.namespaceStr ns) = c.env.namespaceStr ns) (hb : BoolKept N c outs) :
    writeHtmlGo c (t.mapText N) s (outs.map (tagMapText N)) = writeHtmlGoN N c t s outs := by
  induction outs generalizing s with
  | nil => rfl
  | cons po rest ih =>
    obtain ⟨p, o⟩ := po
    have h1 : o.boolKept N c := hb (p, o) (by simp)
    have h2 : BoolKept N c rest := fun q hq => hb q (by simp [hq])
    simp only [List.map_cons, tagMapText, writeHtmlGo, writeHtmlGoN, ← renderHtmlAtN_norm N c t s p o hns h1]
    cases renderHtmlAtN N c t s p o with
    | err e => rfl
    | panic => rfl
    | ok r =>
      obtain ⟨s', tok⟩ := r
      simp only [ih s' h2]

theorem htmlHasInlineChild_mapText (c : HtmlCtx) (n : Tree) :
    htmlHasInlineChild c (n.mapText N) = htmlHasInlineChild c n := by
  simp only [htmlHasInlineChild, mapText_normalKids, List.any_map]
  congr 1
  funext k
  simp only [Function.comp_def, mapText_value]
  cases k.value <;> rfl

theorem prettifyHtml_mapText (c : HtmlCtx) (sup : List Nat) (ps : PStack) (node : Tree) (o : Output)
    (h : elementSpace (node.mapText N) = elementSpace node) :
    prettifyHtml c sup ps (node.mapText N) (o.mapText N) = prettifyHtml c sup ps node o := by
  cases o with
  | startTagClose =>
    simp only [Output.mapText, prettifyHtml, mapText_firstChild?_isSome, htmlHasInlineChild_mapText, h,
      mapText_value]
    cases node.value <;> rfl
  | endTag name => simp [Output.mapText, prettifyHtml]
  | _ => simp [Output.mapText, prettifyHtml]

theorem prettifyHtmlAt_mapText (c : HtmlCtx) (sup : List Nat) (t : Tree) (ps : PStack) (path : Path) (o : Output)
    (h : ∀ n, t.at? path = some n → elementSpace (n.mapText N) = elementSpace n) :
    prettifyHtmlAt c sup (t.mapText N) ps path (o.mapText N) = prettifyHtmlAt c sup t ps path o := by
  unfold prettifyHtmlAt
  rw [mapText_at?]
  cases hn : t.at? path with
  | none => rfl
  | some node => exact prettifyHtml_mapText N c sup ps node o (h node hn)

theorem writeHtmlPrettyGoN_norm (c : HtmlCtx) (sup : List Nat) (t : Tree) (ps : PStack) (s : HState)
    (outs : List (Path × Output))
    (hns : ∀ ns, N (c.env.namespaceStr ns) = c.env.namespaceStr ns) (hb : BoolKept N c outs)
    (hs : SpaceKept N t outs) :
    writeHtmlPrettyGo c sup (t.mapText N) ps s (outs.map (tagMapText N)) =
      writeHtmlPrettyGoN N c sup t ps s outs := by
  induction outs generalizing ps s with
  | nil => rfl
  | cons po rest ih =>
    obtain ⟨p, o⟩ := po
    have h1 : o.boolKept N c := hb (p, o) (by simp)
    have h2 : BoolKept N c rest := fun q hq => hb q (by simp [hq])
    have hs1 := prettifyHtmlAt_mapText N c sup t ps p o (fun n hn => hs (p, o) (by simp) n hn)
    have hs2 : SpaceKept N t rest := fun q hq => hs q (by simp [hq])
    simp only [List.map_cons, tagMapText, writeHtmlPrettyGo, writeHtmlPrettyGoN,
      ← renderHtmlAtN_norm N c t s p o hns h1, hs1]
    cases renderHtmlAtN N c t s p o with
    | err e => rfl
    | panic => rfl
    | ok r =>
      obtain ⟨s', tok⟩ := r
      simp only [ih _ s' h2 hs2]

theorem htmlInitState_mapText (c : HtmlCtx) (t : Tree) (start : Path) :
    htmlInitState c (t.mapText N) start = htmlInitState c t start := by
  unfold htmlInitState
  rw [mapText_at?, mapText_namespacesInScope]
  cases t.at? start with
  | none => rfl
  | some n =>
    simp only [Option.map_some, mapText_value]
    cases n.value <;> rfl

/-- **The normalizer is a pre-map** (HTML, write level). -/
theorem serializeHtmlWriteN_norm (env : Env) (p : HtmlParams) (t : Tree) (start : Path)
    (hns : ∀ ns, N ((htmlCtx env p).env.namespaceStr ns) = (htmlCtx env p).env.namespaceStr ns)
    (hb : BoolKept N (htmlCtx env p) (genOutputs t start))
    (hs : p.indentation ≠ none → SpaceKept N t (genOutputs t start)) :
    serializeHtmlWriteN N env p t start = serializeHtmlWrite env p (t.mapText N) start := by
  unfold serializeHtmlWriteN serializeHtmlWrite
  simp only [genOutputs_mapText, htmlInitState_mapText]
  cases hi : p.indentation with
  | none => simp only [writeHtmlGoN_norm N _ t _ _ hns hb]
  | some sup =>
    have hs' := hs (by simp [hi])
    simp only [writeHtmlPrettyGoN_norm N _ sup t _ _ _ hns hb hs']

theorem serializeHtmlStringN_norm (env : Env) (p : HtmlParams) (t : Tree) (start : Path)
    (hns : ∀ ns, N ((htmlCtx env p).env.namespaceStr ns) = (htmlCtx env p).env.namespaceStr ns)
    (hb : BoolKept N (htmlCtx env p) (genOutputs t start))
    (hs : p.indentation ≠ none → SpaceKept N t (genOutputs t start)) :
    serializeHtmlStringN N env p t start = serializeHtmlString env p (t.mapText N) start := by
  unfold serializeHtmlStringN serializeHtmlString
  rw [serializeHtmlWriteN_norm N env p t start hns hb hs]

/-! ### The normalizer never decides about success -/

/-- One `render_output` call: same outcome kind, same error, same next state under every normalizer
    (only the token text depends on it). -/
theorem renderHtmlN_outcome (c : HtmlCtx) (s : HState) (node : Tree) (parent : Option Tree) (o : Output) :
    (renderHtmlN N c s node parent o).mapOk Prod.fst = (renderHtml c s node parent o).mapOk Prod.fst := by
  cases o with
  | startTagOpen name =>
    simp only [renderHtmlN, renderHtml]
    split
    · rfl
    · cases FStack.elementFullname c.env (s.stack.push (htmlDeclarations node (c.env.nsOfName name))) name <;> rfl
  | pfx p ns =>
    simp only [renderHtmlN, renderHtml]
    cases node.value <;> try rfl
    simp only
    split
    · rfl
    · split <;> rfl
  | text s => rfl
  | startTagClose => rfl
  | endTag name =>
    simp only [renderHtmlN, renderHtml]
    split
    · rfl
    · cases FStack.elementFullname c.env s.stack name <;> rfl
  | comment s => rfl
  | pi target data =>
    simp only [renderHtmlN, renderHtml]
    split
    · rfl
    · cases data <;> rfl
  | _ =>
    simp only [renderHtmlN, renderHtml]
    rename_i name value
    cases FStack.attributeFullname c.env s.stack name with
    | error e => rfl
    | ok full =>
      cases htmlIsBooleanAttr c s.stack name value with
      | error e => rfl
      | ok b => cases b <;> rfl

theorem renderHtmlAtN_outcome (c : HtmlCtx) (t : Tree) (s : HState) (path : Path) (o : Output) :
    (renderHtmlAtN N c t s path o).mapOk Prod.fst = (renderHtmlAt c t s path o).mapOk Prod.fst := by
  unfold renderHtmlAtN renderHtmlAt
  cases t.at? path with
  | none => rfl
  | some node => exact renderHtmlN_outcome N c s node _ o

theorem writeHtmlGoN_outcome (c : HtmlCtx) (t : Tree) (s : HState) (outs : List (Path × Output)) :
    (writeHtmlGoN N c t s outs).2 = (writeHtmlGo c t s outs).2 := by
  induction outs generalizing s with
  | nil => rfl
  | cons po rest ih =>
    obtain ⟨p, o⟩ := po
    have h := renderHtmlAtN_outcome N c t s p o
    simp only [writeHtmlGoN, writeHtmlGo]
    cases h1 : renderHtmlAtN N c t s p o <;> cases h2 : renderHtmlAt c t s p o <;>
      simp only [h1, h2, Outcome.mapOk, Outcome.ok.injEq, Outcome.err.injEq, reduceCtorEq] at h
    · rename_i r1 r2
      obtain ⟨s1, k1⟩ := r1
      obtain ⟨s2, k2⟩ := r2
      simp only at h
      subst h
      exact ih s1
    · subst h; rfl
    · rfl

theorem writeHtmlPrettyGoN_outcome (c : HtmlCtx) (sup : List Nat) (t : Tree) (ps : PStack) (s : HState)
    (outs : List (Path × Output)) :
    (writeHtmlPrettyGoN N c sup t ps s outs).2 = (writeHtmlPrettyGo c sup t ps s outs).2 := by
  induction outs generalizing ps s with
  | nil => rfl
  | cons po rest ih =>
    obtain ⟨p, o⟩ := po
    have h := renderHtmlAtN_outcome N c t s p o
    simp only [writeHtmlPrettyGoN, writeHtmlPrettyGo]
    cases h1 : renderHtmlAtN N c t s p o <;> cases h2 : renderHtmlAt c t s p o <;>
      simp only [h1, h2, Outcome.mapOk, Outcome.ok.injEq, Outcome.err.injEq, reduceCtorEq] at h
    · rename_i r1 r2
      obtain ⟨s1, k1⟩ := r1
      obtain ⟨s2, k2⟩ := r2
      simp only at h
      subst h
      exact ih _ s1
    · subst h; rfl
    · rfl

/-- Under EVERY normalizer the call ends as it ends without one: success, the same error, never a panic. -/
theorem serializeHtmlWriteN_outcome (env : Env) (p : HtmlParams) (t : Tree) (start : Path) :
    (serializeHtmlWriteN N env p t start).2 = (serializeHtmlWrite env p t start).2 := by
  unfold serializeHtmlWriteN serializeHtmlWrite
  cases p.indentation with
  | none => exact writeHtmlGoN_outcome N _ t _ _
  | some sup => exact writeHtmlPrettyGoN_outcome N _ sup t _ _ _
end XotModel
