/-
  C19_embedded / C19_unprefixed_end for a whole serialisation: the start node with the initial
  name stack of `Html5Serializer::new` (inherited declarations, minus a default namespace that is
  not the top element's own and therefore not written).
-/
import XotModel.Lemmas.Html5Default3
import XotModel.Lemmas.Scope

namespace XotModel
open Gen

theorem html_lookup_some_mem {l : List (Nat × Nat)} {p n : Nat} (h : l.lookup p = some n) : (p, n) ∈ l := by
  induction l with
  | nil => simp at h
  | cons d l ih =>
    obtain ⟨q, m⟩ := d
    simp only [List.lookup] at h
    split at h
    · rename_i heq
      simp only [beq_iff_eq] at heq
      simp only [Option.some.injEq] at h
      subst heq; subst h; simp
    · exact List.mem_cons_of_mem _ (ih h)

theorem html_lookup_none_any {l : List (Nat × Nat)} {p : Nat} (h : l.lookup p = none) :
    l.any (fun d => d.1 == p) = false := by
  induction l with
  | nil => rfl
  | cons d l ih =>
    obtain ⟨q, m⟩ := d
    simp only [List.lookup] at h
    split at h
    · cases h
    · rename_i heq
      simp only [List.any_cons, Bool.or_eq_false_iff]
      refine ⟨?_, ih h⟩
      cases hq : (q == p) with
      | false => rfl
      | true =>
        have : p = q := (eq_of_beq hq).symm
        subst this
        simp at heq

/-- An in-scope default binding of an element has a declaration event on it when it is the top
    element: its own declaration, or the inherited one `gen_outputs` adds. -/
theorem top_default_declared (t : Tree) (start : Path) (inScope : List (Nat × Nat)) (n : Tree) (X : Nat)
    (hat : t.at? start = some n) (hs : namespacesInScope t start = some inScope)
    (hm : (Env.emptyPrefix, X) ∈ inScope) :
    (start, Output.pfx Env.emptyPrefix X) ∈ declEvents inScope true start n := by
  unfold namespacesInScope at hs
  cases hc : t.ancestorsOrSelf start with
  | none => rw [hc] at hs; cases hs
  | some chain =>
    rw [hc] at hs
    simp only [Option.map_some, Option.some.injEq] at hs
    subst hs
    have hh := ancestorsOrSelf_head start t chain hc
    rw [hat] at hh
    cases chain with
    | nil => cases hh
    | cons a rest =>
      simp only [List.head?_cons, Option.some.injEq] at hh
      subst hh
      have hspec := (mem_namespacesInScopeChain (a :: rest) Env.emptyPrefix X).mp hm
      simp only [scopeSpecChain] at hspec
      cases hl : a.nsDecls.lookup Env.emptyPrefix with
      | some ns =>
        rw [hl] at hspec
        simp only at hspec
        split at hspec
        · cases hspec
        · simp only [Option.some.injEq] at hspec
          subst hspec
          exact declEvents_own _ true start a _ _ (html_lookup_some_mem hl)
      | none =>
        have hnd : a.declaresPrefix Env.emptyPrefix = false := html_lookup_none_any hl
        simp only [declEvents, if_true, List.mem_append, List.mem_map]
        refine Or.inl (Or.inl ⟨Output.pfx Env.emptyPrefix X, ?_, rfl⟩)
        simp only [extraPrefixes, List.mem_map, List.mem_filter]
        exact ⟨(Env.emptyPrefix, X), ⟨hm, by simp [hnd]⟩, rfl⟩

/-- `genNode` looks at `isTop` for element nodes only. -/
theorem genNode_isTop_irrelevant (inScope : List (Nat × Nat)) (path : Path) (n : Tree)
    (h : ∀ name, n.value ≠ .element name) :
    genNode inScope true path n = genNode inScope false path n := by
  cases n with
  | node v ks =>
    cases v with
    | element name => exact absurd rfl (h name)
    | text s => rw [genNode_text, genNode_text]
    | comment s => rw [genNode_comment, genNode_comment]
    | pi tg d => rw [genNode_pi, genNode_pi]
    | document => rw [genNode_document, genNode_document]
    | «attribute» a v => rw [genNode_attribute, genNode_attribute]
    | «namespace» p ns => rw [genNode_namespace, genNode_namespace]

/-- A whole successful serialisation passes the default-namespace replay and writes bare end
    tags. -/
theorem run_top {c : HtmlCtx} (P : Prop) (hxml : P → c.h.mustBeUnprefixed Env.xmlNamespace = false)
    (hsp : P → NoSpaces c.env) (t : Tree) (start : Path) (l : List (Path × Output × OutputToken))
    (hl : renderHtmlAll c t (htmlInitState c t start) (genOutputs t start) = .ok l) :
    (P → embeddedReplay c [] l = some []) ∧ EndTagsBare c l := by
  obtain ⟨sf, hrun⟩ := renderHtmlAll_run c t _ _ l hl
  unfold genOutputs at hrun
  cases hn : t.at? start with
  | none =>
    simp only [hn, runHtml, Option.some.injEq, Prod.mk.injEq] at hrun
    obtain ⟨_, rfl⟩ := hrun
    exact ⟨fun _ => rfl, EndTagsBare.nil c⟩
  | some n =>
    cases hs : namespacesInScope t start with
    | none =>
      simp only [hn, hs, runHtml, Option.some.injEq, Prod.mk.injEq] at hrun
      obtain ⟨_, rfl⟩ := hrun
      exact ⟨fun _ => rfl, EndTagsBare.nil c⟩
    | some inScope =>
      simp only [hn, hs] at hrun
      have hne : (htmlInitState c t start).stack ≠ [] := by simp [htmlInitState, FStack.new]
      cases n with
      | node v ks =>
        have kidsOk : KidsOk P c t inScope ks := fun path i S S' l st hk hs hinv h =>
          run_kids_default P hxml hsp t inScope ks path i S S' l st hk hs hinv h
        by_cases hel : ∃ name, v = .element name
        · obtain ⟨name, rfl⟩ := hel
          have hpre : ElemPre inScope true start (.node (.element name) ks) (c.env.nsOfName name)
              (htmlInitState c t start).stack (dOf []) := by
            right
            intro Y _ hY
            simp only [htmlInitState, hn, hs, Option.getD_some, FStack.new, FStack.top, List.headD_cons,
              List.mem_filter, Tree.value] at hY
            obtain ⟨hmem, hf⟩ := hY
            have hYX : Y = c.env.nsOfName name := by simpa using hf
            subst hYX
            exact ⟨rfl, top_default_declared t start inScope _ _ hn hs hmem⟩
          obtain ⟨_, hrep, hb⟩ := run_element_default P hxml hsp t inScope name ks kidsOk true start _ sf l []
            hn hne (fun _ => hpre) hrun
          exact ⟨hrep, hb⟩
        · have hnel : ∀ name, (Tree.node v ks).value ≠ .element name := by
            intro name he
            exact hel ⟨name, he⟩
          rw [genNode_isTop_irrelevant inScope start _ hnel] at hrun
          have hinv : DefaultInv (htmlInitState c t start).stack (dOf []) := by
            intro Y _ hY
            exfalso
            have hv : ∀ name, v ≠ .element name := fun name he => hel ⟨name, he⟩
            cases v with
            | element name => exact hv name rfl
            | _ =>
              simp [htmlInitState, hn, hs, FStack.new, FStack.top, Tree.value] at hY
          obtain ⟨_, hrep, hb⟩ := run_node_default P hxml hsp t inScope _ start _ sf l [] hn hne (fun _ => hinv) hrun
          exact ⟨hrep, hb⟩

end XotModel
