/-
  FpxRefine, part 9: the refinement theorems in the vocabulary of the models (`Forest.rootOf?`,
  `HTree.pathOf`, `HTree.erase`, `HTree.handles`), ready for Props/C10:
  * `fpxr_element`  : `Forest.createMissingPrefixes` on an element;
  * `fpxr_document` : on a document / fragment with an element child;
  * a structurally valid `HTree` erases to a tree in which no element declares a prefix twice
    (`uniqueBelow_erase`: the side condition of the tree-level C10 theorems comes from `Forest.Inv`).
-/
import XotModel.Lemmas.FpxRefineTop
import XotModel.Lemmas.RepairValid

namespace XotModel
open HTree Repair

namespace HTree

theorem attrNames_eraseList : ∀ ks : List HTree,
    attrNames (eraseList ks) =
      (ks.filter (fun k => k.value.category == .attribute)).map (fun k => Forest.entryKey k.value)
  | [] => rfl
  | k :: ks => by
    have ih := attrNames_eraseList ks
    cases k with
    | node h v kk =>
      cases v <;> simp_all [attrNames, eraseList, erase, Tree.value, HTree.value, Value.category,
        Forest.entryKey]

theorem nsPrefixes_eraseList : ∀ ks : List HTree,
    nsPrefixes (eraseList ks) =
      (ks.filter (fun k => k.value.category == .namespace)).map (fun k => Forest.entryKey k.value)
  | [] => rfl
  | k :: ks => by
    have ih := nsPrefixes_eraseList ks
    cases k with
    | node h v kk =>
      cases v <;> simp_all [nsPrefixes, eraseList, erase, Tree.value, HTree.value, Value.category,
        Forest.entryKey]

mutual
  theorem uniqueKids_erase (b : Bool) : ∀ r : HTree, validTree b r = true →
      (erase r).Forall (fun _ ks => UniqueKids ks)
    | .node h v ks => by
      intro hv
      simp only [validTree, Bool.and_eq_true] at hv
      obtain ⟨⟨⟨⟨⟨_, _⟩, hua⟩, hun⟩, _⟩, hvk⟩ := hv
      simp only [erase]
      rw [Tree.forall_node]
      refine ⟨⟨?_, ?_⟩, uniqueKids_eraseList b ks hvk⟩
      · rw [attrNames_eraseList]; simpa [keysUnique] using hua
      · rw [nsPrefixes_eraseList]; simpa [keysUnique] using hun
  theorem uniqueKids_eraseList (b : Bool) : ∀ ks : List HTree, validList b ks = true →
      ∀ k ∈ eraseList ks, k.Forall (fun _ ks => UniqueKids ks)
    | [], _ => by simp [eraseList]
    | k :: ks, hv => by
      simp only [validList, Bool.and_eq_true] at hv
      intro k' hk'
      simp only [eraseList, List.mem_cons] at hk'
      rcases hk' with rfl | hk'
      · exact uniqueKids_erase b k hv.1
      · exact uniqueKids_eraseList b ks hv.2 k' hk'
end

/-- No element of a structurally valid tree declares a prefix twice. -/
theorem uniqueBelow_erase (b : Bool) (r : HTree) (hv : validTree b r = true) : UniqueBelow r.erase :=
  uniqueBelow_of_uniqueKids _ (uniqueKids_erase b r hv)

end HTree

namespace Forest

/-- The subtree of a live node is structurally valid, so its erasure is `UniqueBelow`. -/
theorem fpxr_uniqueBelow {f : Forest} (hi : f.Inv) {nd : Nat} {S : HTree} (hg : f.get? nd = some S) :
    UniqueBelow S.erase :=
  uniqueBelow_erase _ S (Fmap.validList_findList? _ nd f.roots S hi.valid hg)

/-- The other roots are untouched (any handle `w` of `r` can serve to tell `r` from them). -/
theorem fpxr_roots_graft' {f : Forest} (hnd : f.allHandles.Nodup) {nd w : Nat} {r : HTree} (S' : HTree)
    (hr : r ∈ f.roots) (hn : nd ∈ handles r) (hw : w ∈ handles r) :
    mapAtList nd (fun _ => S') f.roots =
      f.roots.map (fun y => if (pathOf w y).isSome then mapAt nd (fun _ => S') r else y) := by
  rw [fpxr_roots_graft hnd S' hr hn]
  apply List.map_congr_left
  intro y hy
  have : (pathOf nd y).isSome = (pathOf w y).isSome := by
    cases h1 : pathOf nd y with
    | some q =>
      have : y = r := fpxr_root_unique hnd hy hr (ftrav_pathOf_mem h1) hn
      subst this
      rw [Option.isSome_some, ftrav_pathOf_isSome w y hw]
    | none =>
      cases h2 : pathOf w y with
      | none => rfl
      | some q =>
        have : y = r := fpxr_root_unique hnd hy hr (ftrav_pathOf_mem h2) hw
        subst this
        have := ftrav_pathOf_isSome nd y hn
        rw [h1] at this; cases this
  rw [this]

/-- **`create_missing_prefixes(node)` on an element: the forest model refines the tree model.** -/
theorem fpxr_element {f : Forest} (hi : f.Inv) (env : Env) {nd : Nat} (he : f.isElement nd = true)
    {r : HTree} (hr : f.rootOf? nd = some r) {path : Path} (hp : r.pathOf nd = some path) :
    ∃ r',
      (f.createMissingPrefixes env nd).2.2 = .ok ∧
      (f.createMissingPrefixes env nd).1.Inv ∧
      XotModel.createMissingPrefixes env r.erase path = .ok ((f.createMissingPrefixes env nd).2.1, r'.erase) ∧
      (f.createMissingPrefixes env nd).1.rootOf? nd = some r' ∧
      pathOf nd r' = some path ∧
      (f.createMissingPrefixes env nd).1.roots =
        f.roots.map (fun y => if (pathOf nd y).isSome then r' else y) ∧
      (handles r').filter (· < f.next) = handles r ∧
      f.next ≤ (f.createMissingPrefixes env nd).1.next ∧
      (∀ x, (f.createMissingPrefixes env nd).1.isElement x = f.isElement x) ∧
      ∀ x q, pathOf x r = some q → (path <+: q → q = path) → pathOf x r' = some q := by
  obtain ⟨e1, e2⟩ := fpxr_cmp_element hi env he hr hp
  obtain ⟨hrm, hnr⟩ := fpxr_rootOf_mem hr
  have hndr : (handles r).Nodup := ftrav_nodup_mem _ r hi.nodup hrm
  obtain ⟨S, S', hg, hS, hS'h, hok, hi1, hel, hnext, hroots, hg1, hfil, htree⟩ :=
    fpxr_repairElementF hi env he hr hp
  have hSh : S.handle = nd := Fmap.findList?_handle nd _ _ hg
  rw [e1, e2]
  have hstab : ∀ x q, pathOf x r = some q → (path <+: q → q = path) →
      pathOf x (mapAt nd (fun _ => S') r) = some q :=
    fun x q hx hq => fpxr_path_stable hi hi1 hrm hS hSh hS'h hg1 hfil hx hq
  have hpn := hstab nd path hp (fun _ => rfl)
  refine ⟨mapAt nd (fun _ => S') r, hok, hi1, htree, ?_, hpn, ?_, ?_, hnext, hel, hstab⟩
  · unfold rootOf?
    rw [hroots]
    exact fpxr_find_graft hi.nodup S' hrm hnr hnr (ftrav_pathOf_mem hpn)
  · rw [hroots]
    exact fpxr_roots_graft hi.nodup S' hrm hnr
  · rw [handles_graft_filter' (fun x => decide (x < f.next)) hndr hS hSh
      (S' := S') (by rw [hfil]; exact (handles_filter_self (fun x hx => hi.below x
        ((findList?_sublist nd f.roots S hg).subset hx))).symm)]
    exact handles_filter_self (fun x hx => hi.below x (ftrav_mem_handlesList _ r x hrm hx))

/-- **`create_missing_prefixes(node)` on a document / fragment with an element child: the forest
    model refines the tree model.** -/
theorem fpxr_document {f : Forest} (hi : f.Inv) (env : Env) {nd : Nat} (hd : f.isDocument nd = true)
    (hk : ∃ D k, f.get? nd = some D ∧ k ∈ D.kids ∧ k.value.isElement = true)
    {r : HTree} (hr : f.rootOf? nd = some r) {path : Path} (hp : r.pathOf nd = some path) :
    ∃ r',
      (f.createMissingPrefixes env nd).2.2 = .ok ∧
      (f.createMissingPrefixes env nd).1.Inv ∧
      XotModel.createMissingPrefixes env r.erase path = .ok ((f.createMissingPrefixes env nd).2.1, r'.erase) ∧
      (f.createMissingPrefixes env nd).1.rootOf? nd = some r' ∧
      pathOf nd r' = some path ∧
      (f.createMissingPrefixes env nd).1.roots =
        f.roots.map (fun y => if (pathOf nd y).isSome then r' else y) ∧
      (handles r').filter (· < f.next) = handles r ∧
      f.next ≤ (f.createMissingPrefixes env nd).1.next ∧
      (∀ x, (f.createMissingPrefixes env nd).1.isElement x = f.isElement x) ∧
      ∀ x q, pathOf x r = some q → q.length ≤ path.length + 1 → pathOf x r' = some q := by
  obtain ⟨hrm, hnr⟩ := fpxr_rootOf_mem hr
  obtain ⟨r', k1, k2, k3, k4, k5, k6, k7, k8, k9⟩ := (fpxr_createMissingPrefixes_document hi env hd hr hp).2 hk
  have hpn := k9 nd path hp (by omega)
  have hrh : r.handle ∈ handles r := ftrav_handle_mem r
  have hgr : mapAt r.handle (fun _ => r') r = r' := Fmap.mapAt_hit r.handle _ r rfl
  refine ⟨r', k2, k3, k7, ?_, hpn, ?_, k8, k5, k4, k9⟩
  · unfold rootOf?
    rw [k6]
    have := fpxr_find_graft hi.nodup (nd := r.handle) (x := nd) r' hrm hrh hnr
      (by rw [hgr]; exact ftrav_pathOf_mem hpn)
    rw [hgr] at this
    exact this
  · rw [k6, fpxr_roots_graft' hi.nodup r' hrm hrh hnr, hgr]

/-- The tree-level theorem WRITABLE of C10 (`facts_writable`, Props/C10 `C10_repair_writable`) carried to
    the forest model: after `create_missing_prefixes` on an element of a forest with the invariant the
    serialiser's `MissingPrefix` checks pass on the erased root tree at the (unchanged) path of the
    element. -/
theorem fpxr_element_writable {f : Forest} (hi : f.Inv) (env : Env) (hok : EnvOk env) {nd : Nat}
    (he : f.isElement nd = true) {r : HTree} (hr : f.rootOf? nd = some r) {path : Path}
    (hp : r.pathOf nd = some path) :
    ∃ r', (f.createMissingPrefixes env nd).1.rootOf? nd = some r' ∧ pathOf nd r' = some path ∧
      namesWritable (f.createMissingPrefixes env nd).2.1 r'.erase path = some true := by
  obtain ⟨r', _, _, htree, hroot, hpath, _⟩ := fpxr_element hi env he hr hp
  obtain ⟨D, _, hg, _, _, hDe⟩ := fpxr_locate hi hr hp
  have hu := fpxr_uniqueBelow hi hg
  have hel : D.value.isElement = true := by rw [← (fpxr_kinds hg).1]; exact he
  rw [(fpxr_cmp_element hi env he hr hp).2] at htree
  cases D with
  | node dh dv dk =>
    cases dv <;> simp [HTree.value, Value.isElement] at hel
    simp only [erase] at hDe hu
    exact ⟨r', hroot, hpath,
      facts_writable hDe (repairElement_facts env hok r.erase path _ _ hDe hu _ _ htree)⟩

end Forest
end XotModel
