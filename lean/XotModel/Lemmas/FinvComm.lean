/-
  Finv (C04), part 31: what `remove_subtree(c)` leaves untouched, seen from another node `x` that
  is not inside `c` — its subtree, value, ancestors, neighbours — and that two `remove_subtree`s of
  unrelated nodes commute.  Used for `replace`, whose first step takes the replaced node out.
-/
import XotModel.Lemmas.FinvUnwrap2
import XotModel.Lemmas.FinvWs

namespace XotModel
open HTree

theorem getLast?_rk' {c : Nat} {ks : List HTree} {n : HTree} (hl : ks.getLast? = some n) (hn : n.handle ≠ c) :
    ∃ n', (rk c ks).getLast? = some n' ∧ n'.value = n.value ∧ n'.handle = n.handle := by
  induction ks with
  | nil => simp at hl
  | cons k ks ih =>
    cases ks with
    | nil =>
      simp only [List.getLast?_singleton, Option.some.injEq] at hl
      subst hl
      rw [rk_cons_ne c k [] hn]
      exact ⟨rb c k, by simp [rk, replaceKids], by simp, by simp⟩
    | cons b rest =>
      rw [List.getLast?_cons_cons] at hl
      by_cases hk : k.handle = c
      · rw [rk_cons_eq c k _ hk]; exact ⟨n, hl, rfl, rfl⟩
      · obtain ⟨n', h1, h2, h3⟩ := ih hl
        rw [rk_cons_ne c k _ hk]
        refine ⟨n', ?_, h2, h3⟩
        cases hr : rk c (b :: rest) with
        | nil => rw [hr] at h1; simp at h1
        | cons y ys => rw [hr] at h1; rw [List.getLast?_cons_cons]; exact h1

theorem head?_rk' {c : Nat} {ks : List HTree} {n : HTree} (hl : ks.head? = some n) (hn : n.handle ≠ c) :
    ∃ n', (rk c ks).head? = some n' ∧ n'.value = n.value ∧ n'.handle = n.handle := by
  cases ks with
  | nil => simp at hl
  | cons k rest =>
    simp only [List.head?_cons, Option.some.injEq] at hl
    subst hl
    rw [rk_cons_ne c k rest hn]
    exact ⟨rb c k, rfl, by simp, by simp⟩

theorem rk_nil (c : Nat) : rk c [] = [] := by simp [rk, replaceKids]

theorem rb_of_not_mem {c : Nat} {K : HTree} (h : c ∉ handlesList K.kids) : rb c K = K :=
  fi_replaceBelow_of_not_mem c _ K h

theorem rk_of_not_mem {c : Nat} {ks : List HTree} (h : c ∉ handlesList ks) : rk c ks = ks :=
  replaceKids_of_not_mem c _ ks h

theorem map_h_cutPath (c : Nat) (path : List ZipFrame) : (cutPath c path).map (·.h) = path.map (·.h) := by
  simp [cutPath, List.map_map, Function.comp_def]

theorem cutPath_append (c : Nat) (p q : List ZipFrame) : cutPath c (p ++ q) = cutPath c p ++ cutPath c q := by
  simp [cutPath]

namespace Forest

/-- `remove_subtree(c)` seen from a node `x` that is not inside `c`. -/
structure DropView (f : Forest) (c x : Nat) (path : List ZipFrame) (lx : List HTree) (K : HTree)
    (rx : List HTree) : Prop where
  eq : f.dropSubtree c = { f with roots := plug (cutPath c path) (rk c lx ++ rb c K :: rk c rx) }
  loc : Loc (f.dropSubtree c).roots x (cutPath c path) (rk c lx) (rb c K) (rk c rx)
  nodup : (f.dropSubtree c).allHandles.Nodup

theorem dropView {f : Forest} {x c : Nat} {path lx K rx} (lc : Loc f.roots x path lx K rx)
    (nd : f.allHandles.Nodup) (hc : c ∈ f.allHandles) (hanc : (f.ancestors x).contains c = false) :
    DropView f c x path lx K rx := by
  obtain ⟨t, hg, hcut⟩ := cut_of_loc_other lc nd hc hanc
  have e : f.dropSubtree c = { f with roots := plug (cutPath c path) (rk c lx ++ rb c K :: rk c rx) } := by
    unfold dropSubtree; rw [hcut]
  refine ⟨e, ?_, ?_⟩
  · rw [e]; exact ⟨rfl, by simp [lc.hk]⟩
  · have hp := cut_perm nd hcut
    have : (f.cut c).1 = f.dropSubtree c := rfl
    rw [← this, hcut]
    exact List.Nodup.sublist (List.sublist_append_left _ _) (hp.symm.nodup nd)

section view
variable {f : Forest} {x c : Nat} {path : List ZipFrame} {lx : List HTree} {K : HTree} {rx : List HTree}

theorem DropView.value? (v : DropView f c x path lx K rx) (lc : Loc f.roots x path lx K rx)
    (nd : f.allHandles.Nodup) : (f.dropSubtree c).value? x = f.value? x := by
  rw [value?_of_loc v.loc v.nodup, value?_of_loc lc nd, rb_value]

theorem DropView.textOf (v : DropView f c x path lx K rx) (lc : Loc f.roots x path lx K rx)
    (nd : f.allHandles.Nodup) : (f.dropSubtree c).textOf x = f.textOf x := by
  unfold Forest.textOf; rw [v.value? lc nd]

theorem DropView.ancestors (v : DropView f c x path lx K rx) (lc : Loc f.roots x path lx K rx)
    (nd : f.allHandles.Nodup) : (f.dropSubtree c).ancestors x = f.ancestors x := by
  rw [ancestors_of_loc v.loc v.nodup, ancestors_of_loc lc nd, map_h_cutPath]

theorem DropView.isRoot (v : DropView f c x path lx K rx) (lc : Loc f.roots x path lx K rx)
    (nd : f.allHandles.Nodup) : (f.dropSubtree c).isRoot x = f.isRoot x := by
  cases path with
  | nil => rw [isRoot_of_loc_nil lc]; exact isRoot_of_loc_nil (by simpa [cutPath] using v.loc)
  | cons fr rest =>
    rw [isRoot_of_loc_cons lc nd]
    exact isRoot_of_loc_ne v.loc (by simp [cutPath]) v.nodup

theorem DropView.get? (v : DropView f c x path lx K rx) (hsub : c ∉ handlesList K.kids) :
    (f.dropSubtree c).get? x = some K := by
  rw [get?_of_loc v.loc v.nodup, rb_of_not_mem hsub]

theorem DropView.parent? (v : DropView f c x path lx K rx) (lc : Loc f.roots x path lx K rx)
    (nd : f.allHandles.Nodup) : (f.dropSubtree c).parent? x = f.parent? x := by
  rcases List.eq_nil_or_concat path with h0 | ⟨init, fr, h0⟩
  · subst h0
    unfold Forest.parent?
    rw [ctx?_of_loc_nil lc nd, ctx?_of_loc_nil (by simpa [cutPath] using v.loc) v.nodup]
  · rw [List.concat_eq_append] at h0
    subst h0
    have lc' := v.loc
    rw [cutPath_append] at lc'
    unfold Forest.parent?
    rw [ctx?_of_loc_snoc lc nd, ctx?_of_loc_snoc lc' v.nodup]
    rfl

/-- The previous sibling is the same unless it is the removed node. -/
theorem DropView.prevSibling (v : DropView f c x path lx K rx) (lc : Loc f.roots x path lx K rx)
    (nd : f.allHandles.Nodup) (hadj : ∀ n, lx.getLast? = some n → n.handle ≠ c) :
    (f.dropSubtree c).prevSibling x = f.prevSibling x := by
  rcases List.eq_nil_or_concat path with h0 | ⟨init, fr, h0⟩
  · subst h0
    rw [prevSibling_of_loc_nil lc nd, prevSibling_of_loc_nil (by simpa [cutPath] using v.loc) v.nodup]
  · rw [List.concat_eq_append] at h0
    subst h0
    have lc' := v.loc
    rw [cutPath_append] at lc'
    rw [prevSibling_of_loc_snoc lc nd, prevSibling_of_loc_snoc (fr := (cutPath c [fr]).head (by simp [cutPath]))
      (by simpa [cutPath] using lc') v.nodup]
    cases hl : lx.getLast? with
    | none =>
      rw [List.getLast?_eq_none_iff] at hl; subst hl
      simp [rk_nil]
    | some n =>
      obtain ⟨n', h1, h2, h3⟩ := getLast?_rk' hl (hadj n hl)
      rw [h1]
      simp [h2, h3]

theorem DropView.nextSibling (v : DropView f c x path lx K rx) (lc : Loc f.roots x path lx K rx)
    (nd : f.allHandles.Nodup) (hadj : ∀ n, rx.head? = some n → n.handle ≠ c) :
    (f.dropSubtree c).nextSibling x = f.nextSibling x := by
  rcases List.eq_nil_or_concat path with h0 | ⟨init, fr, h0⟩
  · subst h0
    rw [nextSibling_of_loc_nil lc nd, nextSibling_of_loc_nil (by simpa [cutPath] using v.loc) v.nodup]
  · rw [List.concat_eq_append] at h0
    subst h0
    have lc' := v.loc
    rw [cutPath_append] at lc'
    rw [nextSibling_of_loc_snoc lc nd, nextSibling_of_loc_snoc (fr := (cutPath c [fr]).head (by simp [cutPath]))
      (by simpa [cutPath] using lc') v.nodup]
    cases hl : rx.head? with
    | none =>
      rw [List.head?_eq_none_iff] at hl; subst hl
      simp [rk_nil]
    | some n =>
      obtain ⟨n', h1, h2, h3⟩ := head?_rk' hl (hadj n hl)
      rw [h1]
      simp [h2, h3]

end view

/-- Two `remove_subtree`s of nodes that are not inside one another commute. -/
theorem dropSubtree_comm {f : Forest} (nd : f.allHandles.Nodup) {a c : Nat}
    (ha : a ∈ f.allHandles) (hc : c ∈ f.allHandles)
    (h1 : (f.ancestors c).contains a = false) (h2 : (f.ancestors a).contains c = false) :
    (f.dropSubtree c).dropSubtree a = (f.dropSubtree a).dropSubtree c := by
  obtain ⟨pathc, lc, C, rc, locc⟩ := exists_loc hc
  obtain ⟨patha, la, A, ra, loca⟩ := exists_loc ha
  -- neither is inside the other
  have haC : a ∉ handlesList C.kids := by
    intro hm
    have := anc_of_mem_subtree locc nd (x := a) (by rw [fi_handles_eq]; exact List.mem_cons_of_mem _ hm)
    rw [this] at h2; cases h2
  have hcA : c ∉ handlesList A.kids := by
    intro hm
    have := anc_of_mem_subtree loca nd (x := c) (by rw [fi_handles_eq]; exact List.mem_cons_of_mem _ hm)
    rw [this] at h1; cases h1
  -- left side: drop c, then a (seen from a)
  have va := dropView loca nd hc h2
  have vc := dropView locc nd ha h1
  have e1 : (f.dropSubtree c).dropSubtree a =
      { f with roots := plug (cutPath c patha) (rk c la ++ rk c ra) } := by
    have := cut_of_loc va.loc va.nodup
    show ((f.dropSubtree c).cut a).1 = _
    rw [this]; simp only; rw [va.eq]
  have e2 : (f.dropSubtree a).dropSubtree c =
      { f with roots := plug (cutPath a pathc) (rk a lc ++ rk a rc) } := by
    have := cut_of_loc vc.loc vc.nodup
    show ((f.dropSubtree a).cut c).1 = _
    rw [this]; simp only; rw [vc.eq]
  -- both are `rk a (rk c roots)` … compute the right side from the left decomposition instead
  rw [e1]
  -- `(f.dropSubtree a)` seen from a's own decomposition
  have ea : f.dropSubtree a = { f with roots := plug patha (la ++ ra) } := by
    unfold dropSubtree; rw [cut_of_loc loca nd]
  -- dropping c from it: c is located somewhere in `plug patha (la ++ ra)`
  have hcin : c ∈ (f.dropSubtree a).allHandles := by
    rw [ea]
    unfold allHandles at hc ⊢
    rw [loca.eq, mem_handlesList_plug] at hc
    rw [mem_handlesList_plug]
    rcases hc with hc | hc
    · exact Or.inl hc
    · right
      simp only [fi_handlesList_append, fi_handlesList_cons, List.mem_append] at hc ⊢
      rcases hc with hc | hc | hc
      · exact Or.inl hc
      · exfalso
        rw [fi_handles_eq, loca.hk, List.mem_cons] at hc
        rcases hc with hc | hc
        · subst hc
          rw [ancestors_of_loc loca nd] at h2; simp at h2
        · exact hcA hc
      · exact Or.inr hc
  have nda : (f.dropSubtree a).allHandles.Nodup := vc.nodup
  obtain ⟨pc, l', C', r', locc'⟩ := exists_loc hcin
  have hcut := cut_eq_replaceKids locc' nda
  have : (f.dropSubtree a).dropSubtree c = { f.dropSubtree a with roots := rk c (f.dropSubtree a).roots } := by
    unfold dropSubtree at hcut ⊢; rw [hcut]
  rw [this, ea]
  simp only
  have hoff : ∀ fr ∈ patha, fr.h ≠ c := by
    intro fr hfr e
    rw [ancestors_of_loc loca nd] at h2
    simp only [List.contains_eq_mem, List.mem_cons, List.mem_reverse, List.mem_map,
      decide_eq_false_iff_not, not_or, not_exists, not_and] at h2
    exact h2.2 fr hfr e
  have ndp : (handlesList (plug patha (la ++ ra))).Nodup := by
    have := nda; rw [ea] at this; exact this
  rw [show rk c (plug patha (la ++ ra)) = plug (cutPath c patha) (rk c (la ++ ra)) from
    replaceKids_plug_off c _ patha _ ndp hoff]
  have ndl : (handlesList (la ++ ra)).Nodup := (List.nodup_append.mp (nodup_plug.mp ndp)).2.1
  rw [show rk c (la ++ ra) = rk c la ++ rk c ra from replaceKids_append_of_nodup c _ _ _ ndl]

end Forest
end XotModel
