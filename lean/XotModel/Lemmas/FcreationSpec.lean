/-
  FcreationSpec — C05 for the convenience calls of `Model/Fcreation.lean`: what a node creation
  does to the hypotheses of the move theorems (`Forest.Inv`, `Forest.Normal`, the corner
  `Spec.selfMerge`), `append_namespace` against `namespaces_mut().insert`, and the new setters
  against `specSetValue`.  (Lemma family of C05: not importable together with `Lemmas/Fcreation`.)
-/
import XotModel.Model.Fcreation
import XotModel.Lemmas.FspecSet2
import XotModel.Lemmas.FspecMapUpd3
import XotModel.Lemmas.FspecPairAppend4

namespace XotModel
namespace Fcreation
open HTree Spec
open Forest (MapKind entryKey entryUpdate)

/-! ### A fresh node -/

theorem findList_append : ∀ (x : Nat) (A B : List HTree),
    findList? x (A ++ B) = (findList? x A).or (findList? x B)
  | _, [], B => by simp [findList?]
  | x, k :: A, B => by
    simp only [List.cons_append, findList?]
    cases find? x k with
    | some t => rfl
    | none => exact findList_append x A B

theorem newNode_inv {f : Forest} (hi : f.Inv) (v : Value) : (f.newNode v).1.Inv := Fmap.newNode_inv f hi v

theorem newNode_normal {f : Forest} (norm : f.Normal) (v : Value) : (f.newNode v).1.Normal := by
  intro hc
  show validList true (f.roots ++ [.node f.next v []]) = true
  rw [Fmap.validList_append, Bool.and_eq_true]
  exact ⟨norm hc, by simp [validList, Fmap.validTree_leaf _ (.node f.next v []) rfl]⟩

theorem get_old {f : Forest} (v : Value) {x : Nat} {t : HTree} (h : f.get? x = some t) :
    (f.newNode v).1.get? x = some t := by
  show findList? x (f.roots ++ [.node f.next v []]) = some t
  rw [findList_append]
  have : findList? x f.roots = some t := h
  rw [this]; rfl

theorem next_fresh {f : Forest} (hi : f.Inv) : findList? f.next f.roots = none := by
  cases h : findList? f.next f.roots with
  | none => rfl
  | some t =>
    have := hi.below f.next (mem_of_findList?_some h)
    omega

theorem get_new {f : Forest} (hi : f.Inv) (v : Value) :
    (f.newNode v).1.get? f.next = some (.node f.next v []) := by
  show findList? f.next (f.roots ++ [.node f.next v []]) = _
  rw [findList_append, next_fresh hi]
  simp [findList?, find?]

theorem isRoot_new (f : Forest) (v : Value) : (f.newNode v).1.isRoot f.next = true := by
  show (f.roots ++ [HTree.node f.next v []]).any _ = true
  simp [HTree.handle]

theorem value_old {f : Forest} (v : Value) {x : Nat} {w : Value} (h : f.value? x = some w) :
    (f.newNode v).1.value? x = some w := by
  unfold Forest.value? at h ⊢
  cases hg : f.get? x with
  | none => rw [hg] at h; cases h
  | some t => rw [get_old v hg]; rw [hg] at h; exact h

theorem isElement_old {f : Forest} (v : Value) {x : Nat} (h : f.isElement x = true) :
    (f.newNode v).1.isElement x = true := Fmap.isElement_newNode f v x h

/-- The fresh node has no context: the corner `selfMerge` cannot arise for it. -/
theorem selfMerge_new {f : Forest} (hi : f.Inv) (v : Value) (p : Nat) :
    selfMerge (f.newNode v).1 (.lastChildOf p) f.next = false := by
  have hc := Forest.ctx_none_of_root (newNode_inv hi v).nodup (isRoot_new f v)
  unfold selfMerge
  rw [hc]; simp

/-- No node has the fresh node as its parent: the corner cannot arise under it either. -/
theorem selfMerge_under_new {f : Forest} (hi : f.Inv) (v : Value) (n : Nat) :
    selfMerge (f.newNode v).1 (.lastChildOf f.next) n = false := by
  unfold selfMerge
  cases hc : (f.newNode v).1.ctx? n with
  | none => simp
  | some c =>
    have hne : c.parent ≠ f.next := by
      intro e
      obtain ⟨_, w, hk⟩ := Forest.kids_of_ctx (newNode_inv hi v).nodup hc
      rw [e, get_new hi v] at hk
      have := congrArg HTree.kids (Option.some.inj hk)
      simp [HTree.kids] at this
    have : (f.next == c.parent) = false := by
      simp only [beq_eq_false_iff_ne, ne_eq]; exact fun e => hne e.symm
    simp only [hc]
    cases hr : c.right with
    | nil => simp
    | cons b rest => simp [this]

/-! ### `append_namespace` against `namespaces_mut().insert` -/

theorem mapGetNode_old {f : Forest} (v : Value) (k : MapKind) {e : Nat} (he : f.isElement e = true) (key : Nat) :
    (f.newNode v).1.mapGetNode k e key = f.mapGetNode k e key := by
  unfold Forest.mapGetNode
  unfold Forest.isElement Forest.value? at he
  cases hg : f.get? e with
  | none => rw [hg] at he; simp at he
  | some t => rw [get_old v hg]

theorem mapAt_fresh_leaf {h x : Nat} (g : HTree → HTree) (v : Value) (hne : x ≠ h) :
    mapAt h g (HTree.node x v []) = HTree.node x v [] := by
  simp [mapAt, mapAtList, hne]

/-- Writing a value of an old node commutes with the creation of a node. -/
theorem setValue_newNode (f : Forest) (v w : Value) {h : Nat} (hlt : h < f.next) :
    (f.newNode v).1.setValue h w = ((f.setValue h w).newNode v).1 := by
  have hne : f.next ≠ h := by omega
  show ({ f with roots := (f.roots ++ [HTree.node f.next v []]).map (mapAt h (HTree.setValue w)), next := f.next + 1 } : Forest) = _
  rw [List.map_append, List.map_cons, List.map_nil, mapAt_fresh_leaf _ _ hne]
  rfl

/-- An entry node of a live element is an old node. -/
theorem entry_lt_next {f : Forest} (hi : f.Inv) {k : MapKind} {e key : Nat} {x : HTree}
    (hm : f.mapGetNode k e key = some x) : x.handle < f.next := by
  unfold Forest.mapGetNode at hm
  cases hg : f.get? e with
  | none => rw [hg] at hm; cases hm
  | some t =>
    rw [hg] at hm
    have hx : x ∈ Forest.mapChildren k t := List.mem_of_find?_eq_some hm
    have hk : x ∈ t.kids := by
      cases k with
      | namespaces => exact (List.takeWhile_prefix _).subset hx
      | attributes => exact (List.dropWhile_suffix _).subset ((List.takeWhile_prefix _).subset hx)
    apply hi.below
    have hsub := fs_findList?_sublist f.roots t hg
    apply hsub.subset
    cases t with
    | node h' v' ks =>
      rw [handles_node]
      exact List.mem_cons_of_mem _ (handle_mem_handlesList hk)

/-- `append_namespace(e, prefix, ns)` on an element: the outcome is `ok`; for a new prefix the
    state is that of `namespaces_mut(e).insert(prefix, ns)` (the node created by the call IS the
    entry node); for an existing prefix it is that state plus the created node, left parentless. -/
theorem appendNamespace_mapInsert {f : Forest} (hi : f.Inv) {e : Nat} (he : f.isElement e = true) (pfx ns : Nat) :
    (f.appendNamespace e pfx ns).2.1 = .ok ∧
    (f.appendNamespace e pfx ns).1 =
      (match f.mapGetNode .namespaces e pfx with
       | some _ => ((f.mapInsert .namespaces e (.namespace pfx ns)).1.newNode (.namespace pfx ns)).1
       | none => (f.mapInsert .namespaces e (.namespace pfx ns)).1) ∧
    (f.appendNamespace e pfx ns).2.2 =
      (match f.mapGetNode .namespaces e pfx with | some x => x.handle | none => f.next) := by
  have he1 := isElement_old (.namespace pfx ns) he
  have hv1 : (f.newNode (.namespace pfx ns)).1.value? f.next = some (.namespace pfx ns) := by
    unfold Forest.value?; rw [get_new hi]; rfl
  have hg1 := mapGetNode_old (.namespace pfx ns) .namespaces he pfx
  have hmi := mapInsert_spec hi he (k := .namespaces) (entry := .namespace pfx ns) rfl
  unfold Forest.mapInsert at hmi ⊢
  unfold Forest.appendNamespace Forest.appendEntryNode Forest.mapInsertNode
  simp only [he, Bool.not_true, Bool.false_eq_true, if_false, entryKey] at hmi ⊢
  simp only [Forest.newNode] at hv1 hg1 he1 ⊢
  simp only [he1, hv1, MapKind.matches, Bool.not_true, Bool.false_eq_true, if_false, entryKey, hg1]
  cases hm : f.mapGetNode .namespaces e pfx with
  | none =>
    rw [hm] at hmi
    simp only [Forest.newNode] at hmi
    exact ⟨by rw [hmi], rfl, rfl⟩
  | some x =>
    refine ⟨rfl, ?_, rfl⟩
    exact setValue_newNode f _ _ (entry_lt_next hi hm)

end Fcreation
end XotModel
