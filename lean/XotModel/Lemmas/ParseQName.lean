/-
  XotModel.Lemmas.ParseQName — `check_qname` (/repo a5fafb0) as a layer over the token arms.

  `Builder.stepCore` is `Builder.step` WITHOUT the three `check_qname` calls (a proof device: the
  invariants of the builder were proved arm by arm before the check existed; they are facts about
  what an arm does once the check has let the token pass).  `Builder.step` is `stepCore` behind
  the test `Token.prefixOk`:

    step_eq_core      prefixOk t  → b.step t = b.stepCore t
    step_refused      ¬prefixOk t → b.step t = .err (UnknownPrefix "" (pfx.start, loc.end)) b.env
    step_cases        case principle over the two
    step_ok_core      b.step t = .ok b1 → b.stepCore t = .ok b1     (step_ok_prefixOk: prefixOk t)
    step_err_cases    b.step t = .err e env → refused (e, env as above) ∨ b.stepCore t = .err e env
    run_ok_prefixOk   a run that comes to its end has let every token pass
-/
import XotModel.Model.Parse
import XotModel.Model.TokenRender

namespace XotModel

/-- The arms of `_parse` after `check_qname` (`Builder.step` as it was before /repo a5fafb0). -/
def Builder.stepCore (b : Builder) : Token → Step Builder
  | .attribute pfx loc value _ =>
    if pfx.text == ['x', 'm', 'l', 'n', 's'] then b.prefix loc.text value (Span.fromPrefixName pfx loc)
    else if pfx.text.isEmpty && loc.text == ['x', 'm', 'l', 'n', 's'] then
      b.prefix [] value (Span.fromPrefixName pfx loc)
    else b.attribute pfx loc value
  | .text t => b.text t
  | .cdata t _ => b.cdata t
  | .elementStart pfx loc _ => .ok (b.element pfx loc)
  | .elementEnd .open _ => b.openElement
  | .elementEnd (.close pfx loc) sp => b.closeElement pfx loc sp
  | .elementEnd .empty sp =>
    match b.openElement with
    | .ok b1 => b1.closeImmediate sp
    | r => r
  | .comment t _ => .ok (b.comment t)
  | .pi target content _ =>
    if isReservedPiTarget target.text then .err (.invalidTarget target.text target.span) b.env
    else .ok (b.processingInstruction target content)
  | .declaration version _ _ _ =>
    if version.text != ['1', '.', '0'] then .err (.unsupportedVersion version.text version.span) b.env
    else .ok b
  | .dtdStart sp => .err (.dtdUnsupported sp.span) b.env
  | .dtdEnd sp => .err (.dtdUnsupported sp.span) b.env
  | .emptyDtd sp => .err (.dtdUnsupported sp.span) b.env
  | .entityDecl sp => .err (.dtdUnsupported sp.span) b.env

/-- The prefix and the local name `check_qname` is called on. -/
def Token.qname : Token → Option (StrSpan × StrSpan)
  | .attribute pfx loc _ _ => some (pfx, loc)
  | .elementStart pfx loc _ => some (pfx, loc)
  | .elementEnd (.close pfx loc) _ => some (pfx, loc)
  | _ => none

theorem Token.qname_elim {t : Token} {p l : StrSpan} (hq : t.qname = some (p, l)) :
    (∃ v sp, t = .attribute p l v sp) ∨ (∃ sp, t = .elementStart p l sp) ∨
      (∃ sp, t = .elementEnd (.close p l) sp) := by
  cases t with
  | elementEnd e sp =>
    cases e <;> simp only [Token.qname, Option.some.injEq, Prod.mk.injEq, reduceCtorEq] at hq
    obtain ⟨rfl, rfl⟩ := hq; exact .inr (.inr ⟨sp, rfl⟩)
  | «attribute» pfx loc value sp =>
    simp only [Token.qname, Option.some.injEq, Prod.mk.injEq] at hq; obtain ⟨rfl, rfl⟩ := hq
    exact .inl ⟨value, sp, rfl⟩
  | elementStart pfx loc sp =>
    simp only [Token.qname, Option.some.injEq, Prod.mk.injEq] at hq; obtain ⟨rfl, rfl⟩ := hq
    exact .inr (.inl ⟨sp, rfl⟩)
  | _ => simp [Token.qname] at hq

theorem Token.prefixOk_of_qname_none {t : Token} (h : t.qname = none) : t.prefixOk = true := by
  cases t with
  | elementEnd e sp => cases e <;> simp_all [Token.qname, Token.prefixOk]
  | _ => simp_all [Token.qname, Token.prefixOk]

theorem Token.prefixOk_of_qname {t : Token} {p l : StrSpan} (h : t.qname = some (p, l)) :
    t.prefixOk = !p.bareColon := by
  cases t with
  | elementEnd e sp =>
    cases e <;> simp only [Token.qname, Option.some.injEq, Prod.mk.injEq, reduceCtorEq] at h
    obtain ⟨rfl, rfl⟩ := h; rfl
  | «attribute» pfx loc value sp =>
    simp only [Token.qname, Option.some.injEq, Prod.mk.injEq] at h; obtain ⟨rfl, rfl⟩ := h; rfl
  | elementStart pfx loc sp =>
    simp only [Token.qname, Option.some.injEq, Prod.mk.injEq] at h; obtain ⟨rfl, rfl⟩ := h; rfl
  | _ => simp [Token.qname] at h

theorem Token.qname_of_not_prefixOk {t : Token} (h : t.prefixOk = false) :
    ∃ p l, t.qname = some (p, l) ∧ p.bareColon = true := by
  cases hq : t.qname with
  | none => rw [Token.prefixOk_of_qname_none hq] at h; cases h
  | some pl =>
    obtain ⟨p, l⟩ := pl
    rw [Token.prefixOk_of_qname hq] at h
    exact ⟨p, l, rfl, by simpa using h⟩

theorem Builder.step_eq_core (b : Builder) {t : Token} (h : t.prefixOk = true) :
    b.step t = b.stepCore t := by
  cases t with
  | «attribute» pfx loc value sp =>
    simp only [Token.prefixOk, Bool.not_eq_true'] at h
    simp only [Builder.step, Builder.stepCore, h, Bool.false_eq_true, if_false]
  | elementStart pfx loc sp =>
    simp only [Token.prefixOk, Bool.not_eq_true'] at h
    simp only [Builder.step, Builder.stepCore, h, Bool.false_eq_true, if_false]
  | elementEnd e sp =>
    cases e with
    | close pfx loc =>
      simp only [Token.prefixOk, Bool.not_eq_true'] at h
      simp only [Builder.step, Builder.stepCore, h, Bool.false_eq_true, if_false]
    | «open» => rfl
    | empty => rfl
  | _ => rfl

/-- A token refused by `check_qname`: the error, the tables untouched. -/
theorem Builder.step_refused_of (b : Builder) {t : Token} {p l : StrSpan} (hq : t.qname = some (p, l))
    (hp : p.bareColon = true) : b.step t = .err (.unknownPrefix [] ⟨p.start, l.stop⟩) b.env := by
  cases t with
  | elementEnd e sp =>
    cases e <;> simp only [Token.qname, Option.some.injEq, Prod.mk.injEq, reduceCtorEq] at hq
    obtain ⟨rfl, rfl⟩ := hq
    simp only [Builder.step, hp, if_true, qnameError]
  | «attribute» pfx loc value sp =>
    simp only [Token.qname, Option.some.injEq, Prod.mk.injEq] at hq; obtain ⟨rfl, rfl⟩ := hq
    simp only [Builder.step, hp, if_true, qnameError]
  | elementStart pfx loc sp =>
    simp only [Token.qname, Option.some.injEq, Prod.mk.injEq] at hq; obtain ⟨rfl, rfl⟩ := hq
    simp only [Builder.step, hp, if_true, qnameError]
  | _ => simp [Token.qname] at hq

theorem Builder.step_refused (b : Builder) {t : Token} (h : t.prefixOk = false) :
    ∃ p l, t.qname = some (p, l) ∧ p.bareColon = true ∧
      b.step t = .err (.unknownPrefix [] ⟨p.start, l.stop⟩) b.env := by
  obtain ⟨p, l, h1, h2⟩ := Token.qname_of_not_prefixOk h
  exact ⟨p, l, h1, h2, b.step_refused_of h1 h2⟩

/-- Case principle: a statement about `b.step t` follows from the statement about the arm (for a
    token that passes `check_qname`) and about the error of `check_qname`. -/
theorem Builder.step_cases {P : Step Builder → Prop} (b : Builder) (t : Token)
    (hcore : t.prefixOk = true → P (b.stepCore t))
    (href : ∀ p l, t.qname = some (p, l) → p.bareColon = true →
      P (.err (.unknownPrefix [] ⟨p.start, l.stop⟩) b.env)) : P (b.step t) := by
  cases hq : t.prefixOk with
  | true => rw [b.step_eq_core hq]; exact hcore hq
  | false =>
    obtain ⟨p, l, h1, h2, he⟩ := b.step_refused hq
    rw [he]; exact href p l h1 h2

theorem Builder.step_ok_prefixOk {b b1 : Builder} {t : Token} (h : b.step t = .ok b1) :
    t.prefixOk = true := by
  cases hq : t.prefixOk with
  | true => rfl
  | false =>
    obtain ⟨_, _, _, _, he⟩ := b.step_refused hq
    rw [he] at h; cases h

theorem Builder.step_ok_core {b b1 : Builder} {t : Token} (h : b.step t = .ok b1) :
    b.stepCore t = .ok b1 := by
  rw [← Builder.step_eq_core b (Builder.step_ok_prefixOk h)]; exact h

theorem Builder.step_panic_core {b : Builder} {t : Token} (h : b.step t = .panic) :
    b.stepCore t = .panic := by
  cases hq : t.prefixOk with
  | true => rw [← Builder.step_eq_core b hq]; exact h
  | false =>
    obtain ⟨_, _, _, _, he⟩ := b.step_refused hq
    rw [he] at h; cases h

theorem Builder.step_err_cases {b : Builder} {t : Token} {e : ParseErr} {env : Env}
    (h : b.step t = .err e env) :
    (∃ p l, t.qname = some (p, l) ∧ p.bareColon = true ∧
        e = .unknownPrefix [] ⟨p.start, l.stop⟩ ∧ env = b.env) ∨
      (t.prefixOk = true ∧ b.stepCore t = .err e env) := by
  cases hq : t.prefixOk with
  | true => right; exact ⟨rfl, by rw [← Builder.step_eq_core b hq]; exact h⟩
  | false =>
    left
    obtain ⟨p, l, h1, h2, he⟩ := b.step_refused hq
    rw [he] at h
    simp only [Step.err.injEq] at h
    exact ⟨p, l, h1, h2, h.1.symm, h.2.symm⟩

/-- A run that reaches the end of the token list has let every token pass. -/
theorem Builder.run_ok_prefixOk : ∀ (ts : List Token) (b b1 : Builder) (le : Option Nat),
    b.run ts le = .ok b1 → tokensPrefixOk ts = true := by
  intro ts
  induction ts with
  | nil => intro _ _ _ _; rfl
  | cons t r ih =>
    intro b b1 le h
    simp only [Builder.run] at h
    cases hs : b.step t with
    | ok b2 =>
      rw [hs] at h
      simp only [tokensPrefixOk, List.all_cons, Bool.and_eq_true]
      exact ⟨Builder.step_ok_prefixOk hs, ih b2 b1 le h⟩
    | err e env => rw [hs] at h; cases h
    | panic => rw [hs] at h; cases h

/-! ### Erasure: an erased token always passes -/

theorem StrSpan.erase_bareColon (s : StrSpan) : s.erase.bareColon = false := by
  simp [StrSpan.erase, StrSpan.bareColon]

theorem Token.erase_prefixOk (t : Token) : t.erase.prefixOk = true := by
  cases t with
  | elementEnd e sp => cases e <;> simp [Token.erase, Token.prefixOk, StrSpan.erase_bareColon]
  | _ => simp [Token.erase, Token.prefixOk, StrSpan.erase_bareColon]

theorem Token.erase_erase (t : Token) : t.erase.erase = t.erase := by
  cases t with
  | elementEnd e sp => cases e <;> rfl
  | declaration v e s sp => cases e <;> rfl
  | pi t c sp => cases c <;> rfl
  | _ => rfl

theorem tokensPrefixOk_erase (ts : List Token) : tokensPrefixOk (ts.map Token.erase) = true := by
  simp [tokensPrefixOk, Token.erase_prefixOk]

theorem tokensPrefixOk_append (a b : List Token) :
    tokensPrefixOk (a ++ b) = (tokensPrefixOk a && tokensPrefixOk b) := by
  simp [tokensPrefixOk]

theorem tokensPrefixOk_cons (t : Token) (ts : List Token) :
    tokensPrefixOk (t :: ts) = (t.prefixOk && tokensPrefixOk ts) := by
  simp [tokensPrefixOk]

theorem StrSpan.bareColon_zero (t : Str) : (⟨t, 0⟩ : StrSpan).bareColon = false := by
  simp [StrSpan.bareColon]

/-- A prefix that is not empty, or that stands at offset 0, passes. -/
theorem StrSpan.bareColon_false_of_start {s : StrSpan} (h : s.start = 0) : s.bareColon = false := by
  simp [StrSpan.bareColon, h]

theorem StrSpan.bareColon_false_of_ne {s : StrSpan} (h : s.text ≠ []) : s.bareColon = false := by
  cases hs : s.text with
  | nil => exact absurd hs h
  | cons c cs => simp [StrSpan.bareColon, hs]

end XotModel
