/-
  XotModel.Lemmas.ArenaSubtree — subtrees in the list-level content of a well-formed arena:
  descendants, the node that follows a subtree in document order (`NextAfter`: next sibling of the
  nearest ancestor-or-self that has one), and induction from the children to the parent.
-/
import XotModel.Lemmas.ArenaFreeMany

namespace XotModel
namespace Arena

/-- The cursor `remove_subtree` moves to after a subtree: the next sibling of the node, else of its
    parent, … (`none` when the climb reaches a parentless node). -/
inductive NextAfter (g : Shape) : Nat → Option Nat → Prop where
  | sib {c q n : Nat} {L R : List Nat} : g.par c = some q → g.kids q = L ++ c :: n :: R → NextAfter g c (some n)
  | up {c q : Nat} {L : List Nat} {r : Option Nat} : g.par c = some q → g.kids q = L ++ [c] → NextAfter g q r →
      NextAfter g c r
  | root {c : Nat} : g.par c = none → NextAfter g c none

theorem UpChain.unique {par : Nat → Option Nat} {c : Nat} {l1 l2 : List Nat} (h1 : UpChain par c l1)
    (h2 : UpChain par c l2) : l1 = l2 := by
  induction h1 generalizing l2 with
  | root hc =>
    cases h2 with
    | root _ => rfl
    | step hc' _ => rw [hc] at hc'; cases hc'
  | step hc _ ih =>
    cases h2 with
    | root hc' => rw [hc] at hc'; cases hc'
    | step hc' h2' => rw [hc] at hc'; cases hc'; rw [ih h2']

theorem Reach.linear {par : Nat → Option Nat} {u x y : Nat} (h1 : Reach par u x) (h2 : Reach par u y) :
    Reach par x y ∨ Reach par y x := by
  induction h1 with
  | refl => exact Or.inl h2
  | @step c q d hc _ ih =>
    cases h2 with
    | refl => exact Or.inr (.step hc (by assumption))
    | step hc' h2' => rw [hc] at hc'; cases hc'; exact ih h2'

namespace Rep
variable {a : Arena} {g : Shape}

theorem nextAfter_exists (r : Rep a g) (c : Nat) (hc : Live a c) : ∃ o, NextAfter g c o := by
  obtain ⟨l, hl, hlen⟩ := r.upChain c hc
  clear hc hlen
  induction hl with
  | root hp => exact ⟨none, .root hp⟩
  | @step c q l hp _ ih =>
    obtain ⟨L, R, hk⟩ := List.append_of_mem (r.parKids c q hp).2
    cases R with
    | nil => obtain ⟨o, ho⟩ := ih; exact ⟨o, .up hp hk ho⟩
    | cons n R' => exact ⟨some n, .sib hp hk⟩

/-- Descendants of `c` other than `c` are descendants of a child. -/
theorem reach_child (r : Rep a g) {u c : Nat} (h : Reach g.par u c) : u = c ∨ ∃ k ∈ g.kids c, Reach g.par u k := by
  induction h with
  | refl => exact Or.inl rfl
  | @step x q d hx _ ih =>
    rcases ih with e | ⟨k, hk, hr⟩
    · subst e; exact Or.inr ⟨x, (r.parKids x q hx).2, .refl _⟩
    · exact Or.inr ⟨k, hk, .step hx hr⟩

theorem reach_of_child (r : Rep a g) {u c k : Nat} (hk : k ∈ g.kids c) (h : Reach g.par u k) : Reach g.par u c :=
  h.trans (.single (r.kidsLive c k hk).2.2)

/-- Subtrees of different children are disjoint. -/
theorem child_unique (r : Rep a g) {u c k1 k2 : Nat} (h1 : k1 ∈ g.kids c) (h2 : k2 ∈ g.kids c)
    (r1 : Reach g.par u k1) (r2 : Reach g.par u k2) : k1 = k2 := by
  have p1 := (r.kidsLive c k1 h1).2.2
  have p2 := (r.kidsLive c k2 h2).2.2
  rcases Reach.linear r1 r2 with h | h
  · cases h with
    | refl => rfl
    | step hp hr => rw [p1] at hp; cases hp; exact absurd hr (r.acyclic k2 _ p2)
  · cases h with
    | refl => rfl
    | step hp hr => rw [p2] at hp; cases hp; exact absurd hr (r.acyclic k1 _ p1)

/-- Induction from the children to the parent. -/
theorem kids_induction (r : Rep a g) (P : Nat → Prop) (step : ∀ c, Live a c → (∀ k ∈ g.kids c, P k) → P c) :
    ∀ c, Live a c → P c := by
  have key : ∀ (d : Nat) (c : Nat) (l : List Nat), Live a c → UpChain g.par c l → a.nodes.length - l.length ≤ d → P c := by
    intro d
    induction d with
    | zero =>
      intro c l hc hl hd
      refine step c hc (fun k hk => ?_)
      exfalso
      have hpk := (r.kidsLive c k hk).2.2
      obtain ⟨lk, hlk, hlen⟩ := r.upChain k (r.kidsLive c k hk).2.1
      have := UpChain.unique hlk (.step hpk hl)
      rw [this] at hlen
      simp at hlen
      omega
    | succ d ih =>
      intro c l hc hl hd
      refine step c hc (fun k hk => ?_)
      have hpk := (r.kidsLive c k hk).2.2
      exact ih k (k :: l) (r.kidsLive c k hk).2.1 (.step hpk hl) (by simp; omega)
  intro c hc
  obtain ⟨l, hl, _⟩ := r.upChain c hc
  exact key a.nodes.length c l hc hl (by omega)

end Rep

end Arena
end XotModel
