/-
  XotModel.Lemmas.WriterXml — the XML Write entry point in front of a failing writer
  (`serializeXmlWriteW`): it is its call trace replayed (`serializeXmlWriteW_eq_replayCalls`), and the trace's
  calls concatenated / its end are the never-failing model of `XmlDecl.lean`
  (`serializeXmlCalls_eq`), so every theorem about `serializeXmlWriteWith` speaks about the
  unlimited-budget instance (`serializeXmlWriteW_unlimited`).
-/
import XotModel.Model.XmlDecl
import XotModel.Lemmas.Writer

namespace XotModel
open Gen

theorem tokenCalls_flatten (k : OutputToken) : (tokenCalls k).flatten = tokenBytes k := by
  unfold tokenCalls tokenBytes
  cases k.space <;> simp

/-- `serialize`: the calls concatenated are the bytes of the never-failing model, same end. -/
theorem writeGoCalls_eq (esc : Escapers) (env : Env) (pr : TokenParams) (t : Tree) (s : FStack)
    (outs : List (Path × Output)) :
    ((writeGoCalls esc env pr t s outs).1.flatten, (writeGoCalls esc env pr t s outs).2)
      = writeGoWith esc env pr t s outs := by
  induction outs generalizing s with
  | nil => simp [writeGoCalls, callsLoop, writeGoWith]
  | cons po rest ih =>
    obtain ⟨p, o⟩ := po
    unfold writeGoCalls at ih ⊢
    simp only [callsLoop, writeGoWith, nodeStepCalls]
    cases hr : renderAtWith esc env pr t s p o with
    | ok v =>
      obtain ⟨s', tok⟩ := v
      simp only [List.flatten_append, tokenCalls_flatten]
      rw [← ih s']
    | err e => simp
    | panic => simp

/-- `serialize_pretty`: same. -/
theorem writePrettyGoCalls_eq (esc : Escapers) (env : Env) (pr : TokenParams) (sup : List Nat)
    (t : Tree) (ps : PStack) (s : FStack) (outs : List (Path × Output)) :
    ((writePrettyGoCalls esc env pr sup t (ps, s) outs).1.flatten,
      (writePrettyGoCalls esc env pr sup t (ps, s) outs).2)
      = writePrettyGoWith esc env pr sup t ps s outs := by
  induction outs generalizing ps s with
  | nil => simp [writePrettyGoCalls, callsLoop, writePrettyGoWith]
  | cons po rest ih =>
    obtain ⟨p, o⟩ := po
    unfold writePrettyGoCalls at ih ⊢
    simp only [callsLoop, writePrettyGoWith, prettyStepCalls]
    cases hp : prettifyAt sup t ps p o with
    | mk ps' r =>
      obtain ⟨ind, nl⟩ := r
      simp only []
      cases hr : renderAtWith esc env pr t s p o with
      | ok v =>
        obtain ⟨s', tok⟩ := v
        simp only [List.flatten_append, tokenCalls_flatten]
        rw [← ih ps' s']
        by_cases hi : ind > 0 <;> cases nl <;> simp [hi]
      | err e => by_cases hi : ind > 0 <;> simp [hi]
      | panic => by_cases hi : ind > 0 <;> simp [hi]

theorem Declaration.calls_flatten (d : Declaration) : d.calls.flatten = d.bytes := by
  unfold Declaration.calls Declaration.bytes
  cases d.encoding <;> cases d.standalone <;> simp

theorem DocType.calls_flatten (d : DocType) (name : Str) : (d.calls name).flatten = d.bytes name := by
  unfold DocType.calls DocType.bytes
  cases d <;> simp

/-- The threaded entry point is its trace replayed against the writer. -/
theorem serializeXmlWriteW_eq_replayCalls (P : WriterPolicy) (esc : Escapers) (env : Env) (p : XmlParams)
    (t : Tree) (start : Path) :
    serializeXmlWriteW P esc env p t start = replayCalls P [] (serializeXmlCalls esc env p t start) := by
  unfold serializeXmlWriteW serializeXmlCalls
  cases hd : (doctypeBlockCalls env p t start).2 with
  | err e =>
    simp only [replayCalls]
    cases writeCalls P [] p.declCalls <;> rfl
  | panic =>
    simp only [replayCalls]
    cases writeCalls P [] p.declCalls <;> rfl
  | ok u =>
    cases u
    simp only [List.append_assoc]
    rw [replayCalls_append]
    cases h1 : writeCalls P [] p.declCalls with
    | error b => rfl
    | ok h1' =>
      simp only []
      rw [replayCalls_append]
      cases h2 : writeCalls P h1' (doctypeBlockCalls env p t start).1 with
      | error b => rfl
      | ok h2' =>
        simp only []
        cases p.indentation with
        | none => simp only [writeGoW, writeGoCalls]; exact writeLoopW_eq_replayCalls P _ _ _ _
        | some sup => simp only [writePrettyGoW, writePrettyGoCalls]; exact writeLoopW_eq_replayCalls P _ _ _ _

theorem writeGoCalls_fst (esc : Escapers) (env : Env) (pr : TokenParams) (t : Tree) (s : FStack)
    (outs : List (Path × Output)) :
    (writeGoCalls esc env pr t s outs).1.flatten = (writeGoWith esc env pr t s outs).1 :=
  congrArg Prod.fst (writeGoCalls_eq esc env pr t s outs)

theorem writeGoCalls_snd (esc : Escapers) (env : Env) (pr : TokenParams) (t : Tree) (s : FStack)
    (outs : List (Path × Output)) :
    (writeGoCalls esc env pr t s outs).2 = (writeGoWith esc env pr t s outs).2 :=
  congrArg Prod.snd (writeGoCalls_eq esc env pr t s outs)

theorem writePrettyGoCalls_fst (esc : Escapers) (env : Env) (pr : TokenParams) (sup : List Nat)
    (t : Tree) (ps : PStack) (s : FStack) (outs : List (Path × Output)) :
    (writePrettyGoCalls esc env pr sup t (ps, s) outs).1.flatten
      = (writePrettyGoWith esc env pr sup t ps s outs).1 :=
  congrArg Prod.fst (writePrettyGoCalls_eq esc env pr sup t ps s outs)

theorem writePrettyGoCalls_snd (esc : Escapers) (env : Env) (pr : TokenParams) (sup : List Nat)
    (t : Tree) (ps : PStack) (s : FStack) (outs : List (Path × Output)) :
    (writePrettyGoCalls esc env pr sup t (ps, s) outs).2
      = (writePrettyGoWith esc env pr sup t ps s outs).2 :=
  congrArg Prod.snd (writePrettyGoCalls_eq esc env pr sup t ps s outs)

/-- The trace's calls concatenated are what the never-failing model writes, and it ends the same way. -/
theorem serializeXmlCalls_eq (esc : Escapers) (env : Env) (p : XmlParams) (t : Tree) (start : Path) :
    ((serializeXmlCalls esc env p t start).1.flatten, (serializeXmlCalls esc env p t start).2)
      = serializeXmlWriteWith esc env p t start := by
  unfold serializeXmlCalls serializeXmlWriteWith doctypeBlockCalls XmlParams.declCalls
  cases p.declaration <;> cases p.doctype <;> try (cases doctypeName env t start) <;>
    cases p.indentation <;>
    simp only [List.append_nil, List.nil_append, List.flatten_append, List.flatten_nil,
      Declaration.calls_flatten, DocType.calls_flatten, serializeWriteWith, serializePrettyWriteWith,
      writeGoCalls_fst, writeGoCalls_snd, writePrettyGoCalls_fst, writePrettyGoCalls_snd]

/-- The instance lemma: in front of a writer that never fails (`Vec<u8>`, unlimited budget) the
    threaded entry point is the never-failing model. -/
theorem serializeXmlWriteW_unlimited (esc : Escapers) (env : Env) (p : XmlParams) (t : Tree) (start : Path) :
    serializeXmlWriteW WriterPolicy.unlimited esc env p t start = serializeXmlWriteWith esc env p t start := by
  rw [serializeXmlWriteW_eq_replayCalls, replayCalls_unlimited, List.nil_append, serializeXmlCalls_eq]

/-- Loop level: `serialize` in front of a never-failing writer that already holds `hist`. -/
theorem writeGoW_unlimited (esc : Escapers) (env : Env) (pr : TokenParams) (t : Tree) (hist : List Str)
    (s : FStack) (outs : List (Path × Output)) :
    writeGoW WriterPolicy.unlimited esc env pr t hist s outs
      = (hist.flatten ++ (writeGoWith esc env pr t s outs).1, (writeGoWith esc env pr t s outs).2) := by
  unfold writeGoW
  rw [writeLoopW_eq_replayCalls, replayCalls_unlimited, List.flatten_append]
  have h1 := writeGoCalls_fst esc env pr t s outs
  have h2 := writeGoCalls_snd esc env pr t s outs
  unfold writeGoCalls at h1 h2
  rw [h1, h2]

/-- Loop level: `serialize_pretty` in front of a never-failing writer that already holds `hist`. -/
theorem writePrettyGoW_unlimited (esc : Escapers) (env : Env) (pr : TokenParams) (sup : List Nat) (t : Tree)
    (hist : List Str) (ps : PStack) (s : FStack) (outs : List (Path × Output)) :
    writePrettyGoW WriterPolicy.unlimited esc env pr sup t hist (ps, s) outs
      = (hist.flatten ++ (writePrettyGoWith esc env pr sup t ps s outs).1,
         (writePrettyGoWith esc env pr sup t ps s outs).2) := by
  unfold writePrettyGoW
  rw [writeLoopW_eq_replayCalls, replayCalls_unlimited, List.flatten_append]
  have h1 := writePrettyGoCalls_fst esc env pr sup t ps s outs
  have h2 := writePrettyGoCalls_snd esc env pr sup t ps s outs
  unfold writePrettyGoCalls at h1 h2
  rw [h1, h2]

/-- `Xot::write` in front of a never-failing writer is `serializeWriteWith`. -/
theorem serializeWriteW_unlimited (esc : Escapers) (env : Env) (pr : TokenParams) (t : Tree) (start : Path) :
    serializeWriteW WriterPolicy.unlimited esc env pr t start = serializeWriteWith esc env pr t start := by
  unfold serializeWriteW serializeWriteWith
  rw [writeGoW_unlimited]
  simp

/-- `Xot::write` (default parameters) threaded = the full entry point with default parameters. -/
theorem serializeXmlWriteW_default (P : WriterPolicy) (esc : Escapers) (env : Env) (t : Tree) (start : Path) :
    serializeXmlWriteW P esc env {} t start = serializeWriteW P esc env {} t start := by
  unfold serializeXmlWriteW serializeWriteW doctypeBlockCalls XmlParams.declCalls
  simp [writeCalls, XmlParams.tokenParams]

end XotModel
