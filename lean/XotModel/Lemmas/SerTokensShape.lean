/-
  Shape of `serNode` on the nodes of a tree that satisfies `nodeOK` everywhere: inversion lemmas
  (what a successful result looks like per node kind) and the facts `nodeOK` gives about the
  children, declarations and attributes of a node.
-/
import XotModel.Lemmas.SerTokensMain

namespace XotModel

variable (env : Env)

/-! ### Inversion -/

theorem appendOk_ok {a b : Except XotError (List Token)} {ts : List Token}
    (h : appendOk a b = .ok ts) : ∃ x y, a = .ok x ∧ b = .ok y ∧ ts = x ++ y := by
  cases a with
  | error e => simp [appendOk] at h
  | ok x =>
    cases b with
    | error e => simp [appendOk] at h
    | ok y =>
      simp only [appendOk, Except.ok.injEq] at h
      exact ⟨x, y, rfl, rfl, h.symm⟩

theorem serKids_cons_ok {ugt : Bool} {inScope : List (Nat × Nat)} {s : FStack} {k : Tree}
    {ks : List Tree} {ts : List Token}
    (h : serNode.serKids env ugt inScope s (k :: ks) = .ok ts) :
    ∃ x y, serNode env ugt inScope false s k = .ok x ∧
      serNode.serKids env ugt inScope s ks = .ok y ∧ ts = x ++ y := by
  rw [serNode.serKids] at h
  exact appendOk_ok h

theorem serNode_element_ok {ugt : Bool} {inScope : List (Nat × Nat)} {isTop : Bool} {s : FStack}
    {name : Nat} {ks : List Tree} {ts : List Token}
    (h : serNode env ugt inScope isTop s (.node (.element name) ks) = .ok ts) :
    ∃ p ats content,
      ¬ (env.nsOfName name = Env.noNamespace ∧
          (s.push (Tree.node (.element name) ks).nsDecls).hasDefaultNamespace = true) ∧
      (s.push (Tree.node (.element name) ks).nsDecls).elementPrefix env name = .ok p ∧
      attrTokens env (s.push (Tree.node (.element name) ks).nsDecls)
        (Tree.node (.element name) ks).attrs = .ok ats ∧
      serNode.serKids env ugt inScope (s.push (Tree.node (.element name) ks).nsDecls) ks = .ok content ∧
      ts = elementTokens (prefixText env p) (env.localName name)
        (((if isTop then inScope.filter (fun d => !(Tree.node (.element name) ks).declaresPrefix d.1)
            else []) ++ (Tree.node (.element name) ks).nsDecls).flatMap (declTokens env))
        ats (Tree.node (.element name) ks).firstChild?.isNone content := by
  rw [serNode] at h
  by_cases hc : (env.nsOfName name == Env.noNamespace &&
      (s.push (Tree.node (.element name) ks).nsDecls).hasDefaultNamespace) = true
  · simp [hc] at h
  · simp only [hc, Bool.false_eq_true, if_false] at h
    cases hp : (s.push (Tree.node (.element name) ks).nsDecls).elementPrefix env name with
    | error e => simp [hp] at h
    | ok p =>
      simp only [hp] at h
      cases ha : attrTokens env (s.push (Tree.node (.element name) ks).nsDecls)
          (Tree.node (.element name) ks).attrs with
      | error e => simp [ha] at h
      | ok ats =>
        simp only [ha] at h
        cases hk : serNode.serKids env ugt inScope (s.push (Tree.node (.element name) ks).nsDecls) ks with
        | error e => simp [hk] at h
        | ok content =>
          simp only [hk, Except.ok.injEq] at h
          refine ⟨p, ats, content, ?_, rfl, rfl, rfl, h.symm⟩
          intro hh
          apply hc
          simp [hh.1, hh.2]

theorem attrTokens_cons_ok {s : FStack} {name : Nat} {v : Str} {rest : List (Nat × Str)}
    {ts : List Token} (h : attrTokens env s ((name, v) :: rest) = .ok ts) :
    ∃ p ts', s.attributePrefix env name = .ok p ∧ attrTokens env s rest = .ok ts' ∧
      ts = .attribute (sp0 (prefixText env p)) (sp0 (env.localName name)) (sp0 (serializeAttribute v))
        noSpan :: ts' := by
  rw [attrTokens] at h
  cases hp : s.attributePrefix env name with
  | error e => simp [hp] at h
  | ok p =>
    simp only [hp] at h
    cases hr : attrTokens env s rest with
    | error e => simp [hr] at h
    | ok ts' =>
      simp only [hr, Except.ok.injEq] at h
      exact ⟨p, ts', rfl, rfl, h.symm⟩

/-! ### What `nodeOK` everywhere gives -/

theorem nodeOK_iff (v : Value) (ks : List Tree) :
    nodeOK env v ks = true ↔
      OrderedKids ks ∧ KindsOk v ks ∧ UniqueKids ks ∧ noAdjText ks = true ∧ valueOK env v = true := by
  simp [nodeOK, and_assoc]

theorem allNodes_value {n : Tree} (h : n.allNodes (nodeOK env) = true) : valueOK env n.value = true := by
  cases n with
  | node v ks =>
    rw [allNodes_node, Bool.and_eq_true] at h
    exact ((nodeOK_iff env v ks).mp h.1).2.2.2.2

theorem allNodes_kid {p : Value → List Tree → Bool} {v : Value} {ks : List Tree}
    (h : (Tree.node v ks).allNodes p = true) {k : Tree} (hk : k ∈ ks) : k.allNodes p = true := by
  rw [allNodes_node, Bool.and_eq_true, List.all_eq_true] at h
  exact h.2 k hk

/-- A leaf kind below a valid node has no children. -/
theorem allNodes_leaf {v : Value} {ks : List Tree} (h : (Tree.node v ks).allNodes (nodeOK env) = true)
    (hl : v.isLeafKind = true) : ks = [] := by
  rw [allNodes_node, Bool.and_eq_true] at h
  exact ((nodeOK_iff env v ks).mp h.1).2.1.1 hl

theorem mem_nsDecls {n : Tree} {d : Nat × Nat} (h : d ∈ n.nsDecls) :
    ∃ k ∈ n.kids, k.value = .namespace d.1 d.2 := by
  simp only [Tree.nsDecls, List.mem_filterMap] at h
  obtain ⟨k, hk, hv⟩ := h
  refine ⟨k, (List.takeWhile_sublist _).subset hk, ?_⟩
  split at hv
  · rename_i p ns heq
    simp only [Option.some.injEq] at hv
    subst hv
    exact heq
  · cases hv

theorem mem_attrs {n : Tree} {a : Nat × Str} (h : a ∈ n.attrs) :
    ∃ k ∈ n.kids, k.value = .attribute a.1 a.2 := by
  simp only [Tree.attrs, List.mem_filterMap] at h
  obtain ⟨k, hk, hv⟩ := h
  refine ⟨k, (List.dropWhile_sublist _).subset ((List.takeWhile_sublist _).subset hk), ?_⟩
  split at hv
  · rename_i p ns heq
    simp only [Option.some.injEq] at hv
    subst hv
    exact heq
  · cases hv

theorem nsDecls_valueOK {v : Value} {ks : List Tree} (h : (Tree.node v ks).allNodes (nodeOK env) = true)
    {d : Nat × Nat} (hd : d ∈ (Tree.node v ks).nsDecls) : valueOK env (.namespace d.1 d.2) = true := by
  obtain ⟨k, hk, hv⟩ := mem_nsDecls hd
  rw [← hv]
  exact allNodes_value env (allNodes_kid h hk)

theorem attrs_valueOK {v : Value} {ks : List Tree} (h : (Tree.node v ks).allNodes (nodeOK env) = true)
    {a : Nat × Str} (ha : a ∈ (Tree.node v ks).attrs) : valueOK env (.attribute a.1 a.2) = true := by
  obtain ⟨k, hk, hv⟩ := mem_attrs ha
  rw [← hv]
  exact allNodes_value env (allNodes_kid h hk)

/-- A declared prefix other than the empty one is a non-empty NCName. -/
theorem valueOK_namespace_prefix {p ns : Nat} (h : valueOK env (.namespace p ns) = true)
    (hp : p ≠ Env.emptyPrefix) : ncNameNE (env.prefixStr p) = true := by
  simp only [valueOK, Bool.and_eq_true, Bool.or_eq_true, beq_iff_eq] at h
  rcases h.1.1.2 with h1 | h1
  · exact absurd h1 hp
  · exact h1.1.1

theorem valueOK_namespace_uri {p ns : Nat} (h : valueOK env (.namespace p ns) = true) :
    (env.namespaceStr ns).all isXmlChar = true := by
  simp only [valueOK, Bool.and_eq_true] at h
  exact h.2

/-- `nodeOK` everywhere implies the side condition of `toXmlString_serTokensTop`. -/
theorem nodeOK_declsNamed (n : Tree) (h : n.allNodes (nodeOK env) = true) :
    n.allNodes (declsNamed env) = true := by
  have key : ∀ (m : Tree), m.allNodes (nodeOK env) = true →
      m.allNodes (fun v ks => (Tree.node v ks).allNodes (nodeOK env)) = true := by
    intro m
    induction m using Tree.rec (motive_2 := fun ks => ∀ k ∈ ks, k.allNodes (nodeOK env) = true →
        k.allNodes (fun v ks => (Tree.node v ks).allNodes (nodeOK env)) = true) with
    | node v ks ih =>
      intro hm
      rw [allNodes_node, Bool.and_eq_true, List.all_eq_true]
      exact ⟨hm, fun k hk => ih k hk (allNodes_kid hm hk)⟩
    | nil => rename_i hk _; cases hk
    | cons k ks ih1 ih2 =>
      rename_i k' hk' hk2
      rcases List.mem_cons.mp hk' with rfl | hk'
      · exact ih1 hk2
      · exact ih2 k' hk' hk2
  refine allNodes_mono ?_ n (key n h)
  intro v ks hv
  simp only [declsNamed, List.all_eq_true, Bool.or_eq_true, beq_iff_eq, Bool.not_eq_true',
    List.isEmpty_eq_false_iff]
  intro d hd
  by_cases hp : d.1 = Env.emptyPrefix
  · exact Or.inl hp
  · right
    have := valueOK_namespace_prefix env (nsDecls_valueOK env hv hd) hp
    simp only [ncNameNE, Bool.and_eq_true, Bool.not_eq_true', List.isEmpty_eq_false_iff] at this
    exact this.2

end XotModel
