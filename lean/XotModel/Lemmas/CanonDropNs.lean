/-
  `deep_equal` does not see namespace nodes, stated on a neutral eraser `dropNs` so that the C10
  (`Repair.stripNs`) and C15 (`stripNs` of Lemmas/ScopeDedup.lean) developments — which cannot import
  C13's Lemmas/CompareVariants.lean (same names) — can both use it: two valid trees that agree after
  erasing every namespace node are `deep_equal`.
-/
import XotModel.Lemmas.CompareCanon

namespace XotModel

mutual
/-- Erase every namespace node below the root. -/
def dropNs : Tree → Tree
  | .node v ks => .node v (dropNsList ks)
def dropNsList : List Tree → List Tree
  | [] => []
  | k :: ks => if k.value.category == .namespace then dropNsList ks else dropNs k :: dropNsList ks
end

theorem dropNs_value (t : Tree) : (dropNs t).value = t.value := by
  cases t; simp [dropNs, Tree.value]

mutual
theorem canon_dropNs : ∀ t : Tree, canon (dropNs t) = canon t
  | .node v ks => by
    have h := canonList_dropNsList ks
    simp only [dropNs, canon, h.1]
    cases v <;> simp [cvalue, h.2]
theorem canonList_dropNsList : ∀ ks : List Tree,
    canon.canonList (dropNsList ks) = canon.canonList ks ∧ attrPairs (dropNsList ks) = attrPairs ks
  | [] => by simp [dropNsList]
  | k :: ks => by
    have hk := canon_dropNs k
    have hks := canonList_dropNsList ks
    by_cases hn : k.value.category = .namespace
    · have hnn : ¬ k.value.isNormal = true := by simp [Value.isNormal, hn]
      have hv : ∀ n s, k.value ≠ .attribute n s := by
        intro n s h; rw [h] at hn; simp [Value.category] at hn
      simp only [dropNsList, hn, beq_self_eq_true, ↓reduceIte, canonList_cons_abnormal hnn, hks.1, true_and]
      rw [hks.2]
      simp only [attrPairs]
    · have hb : (k.value.category == Category.namespace) = false := by simpa using hn
      simp only [dropNsList, hb, Bool.false_eq_true, ↓reduceIte]
      constructor
      · simp only [canon.canonList, dropNs_value, hk, hks.1]
      · simp only [attrPairs, dropNs_value, hks.2]
end

/-- Namespace nodes (declarations, hence the prefixes they bind) are invisible to `deep_equal`. -/
theorem deepEqual_of_dropNs (a b : Tree) (va : a.valid = true) (vb : b.valid = true)
    (h : dropNs a = dropNs b) : deepEqual a b = true :=
  (deepEqual_iff_canon a b va vb).mpr (by rw [← canon_dropNs a, ← canon_dropNs b, h])

end XotModel
