/-
  Lemmas for C13, part 1: the zip of two filtered edge streams is structural equality of the
  filtered forests (for every pair of trees, every filter, every text comparison).
-/
import XotModel.Model.Compare

namespace XotModel

/-- A node of the filtered forest: the original node (value and attributes are read off it)
    and the kept nodes below it, children of dropped nodes hoisted in place. -/
inductive FNode where
  | mk (orig : Tree) (kids : List FNode)

/-- A node's edges survive both filters of `advanced_deep_equal`. -/
def keepNode (f : NodeFilter) (t : Tree) : Bool := t.value.isNormal && f t

mutual
/-- The filtered forest below (and including) a node. -/
def proj (f : NodeFilter) : Tree → List FNode
  | .node v ks => if keepNode f (.node v ks) then [.mk (.node v ks) (projList f ks)] else projList f ks
def projList (f : NodeFilter) : List Tree → List FNode
  | [] => []
  | k :: ks => proj f k ++ projList f ks
end

mutual
def fedges : FNode → List Edge
  | .mk o ks => .start o :: (fedgesList ks ++ [.stop o])
def fedgesList : List FNode → List Edge
  | [] => []
  | k :: ks => fedges k ++ fedgesList ks
end

mutual
/-- Structural equality of filtered nodes / forests up to `compareValue`. -/
def nodeEqv (cmp : TextCmp) : FNode → FNode → Bool
  | .mk a ka, .mk b kb => compareValue cmp a b && forestEqv cmp ka kb
def forestEqv (cmp : TextCmp) : List FNode → List FNode → Bool
  | [], [] => true
  | [], _ :: _ => false
  | _ :: _, [] => false
  | x :: xs, y :: ys => nodeEqv cmp x y && forestEqv cmp xs ys
end

theorem fedgesList_append (a b : List FNode) : fedgesList (a ++ b) = fedgesList a ++ fedgesList b := by
  induction a with
  | nil => simp [fedgesList]
  | cons x xs ih => simp [fedgesList, ih]

mutual
theorem filter_allEdges (f : NodeFilter) : ∀ t : Tree,
    ((allEdges t).filter normalEdge).filter (filterEdge f) = fedgesList (proj f t)
  | .node v ks => by
    have ih := filter_allEdgesList f ks
    simp only [allEdges, proj, List.filter_cons, List.filter_append, List.filter_nil]
    by_cases hn : (Tree.node v ks).value.isNormal = true
    · by_cases hf : f (.node v ks) = true
      · simp [normalEdge, filterEdge, Edge.node, keepNode, hn, hf, ih, fedgesList, fedges]
      · simp [normalEdge, filterEdge, Edge.node, keepNode, hn, hf, ih]
    · simp [normalEdge, Edge.node, keepNode, hn, ih]
theorem filter_allEdgesList (f : NodeFilter) : ∀ ks : List Tree,
    ((allEdges.allEdgesList ks).filter normalEdge).filter (filterEdge f) = fedgesList (projList f ks)
  | [] => by simp [allEdges.allEdgesList, projList, fedgesList]
  | k :: ks => by
    simp only [allEdges.allEdgesList, projList, List.filter_append, fedgesList_append]
    rw [filter_allEdges f k, filter_allEdgesList f ks]
end

theorem traverse_filter_eq (f : NodeFilter) (t : Tree) :
    (traverseEdges t).filter (filterEdge f) = fedgesList (proj f t) := filter_allEdges f t

/-! ### The zip loop on the edges of two forests -/

theorem zipEdges_stop_stop (cmp : TextCmp) (a b : Tree) (ra rb : List Edge) :
    zipEdges cmp (.stop a :: ra) (.stop b :: rb) = zipEdges cmp ra rb := by
  simp [zipEdges]

theorem zipEdges_start_start (cmp : TextCmp) (a b : Tree) (ra rb : List Edge) :
    zipEdges cmp (.start a :: ra) (.start b :: rb) = (compareValue cmp a b && zipEdges cmp ra rb) := by
  simp only [zipEdges]
  cases compareValue cmp a b <;> simp

theorem zipEdges_start_stop (cmp : TextCmp) (a b : Tree) (ra rb : List Edge) :
    zipEdges cmp (.start a :: ra) (.stop b :: rb) = false := by
  simp [zipEdges]

theorem zipEdges_stop_start (cmp : TextCmp) (a b : Tree) (ra rb : List Edge) :
    zipEdges cmp (.stop a :: ra) (.start b :: rb) = false := by
  simp [zipEdges]

theorem fedges_eq_cons (x : FNode) : ∃ o rest, fedges x = .start o :: rest ∧ rest ≠ [] := by
  cases x with
  | mk o ks => exact ⟨o, fedgesList ks ++ [.stop o], by simp [fedges], by simp⟩

mutual
/-- One node against one node, with arbitrary continuations. -/
theorem zipEdges_node (cmp : TextCmp) : ∀ (x y : FNode) (r₁ r₂ : List Edge),
    zipEdges cmp (fedges x ++ r₁) (fedges y ++ r₂) = (nodeEqv cmp x y && zipEdges cmp r₁ r₂)
  | .mk a ka, .mk b kb, r₁, r₂ => by
    have ih := zipEdges_forest cmp ka kb a b r₁ r₂
    simp only [fedges, List.cons_append, List.append_assoc, List.nil_append, zipEdges_start_start, ih, nodeEqv,
      Bool.and_assoc]
/-- The children of two nodes up to the parents' End edges. -/
theorem zipEdges_forest (cmp : TextCmp) : ∀ (xs ys : List FNode) (o₁ o₂ : Tree) (r₁ r₂ : List Edge),
    zipEdges cmp (fedgesList xs ++ .stop o₁ :: r₁) (fedgesList ys ++ .stop o₂ :: r₂)
      = (forestEqv cmp xs ys && zipEdges cmp r₁ r₂)
  | [], [], o₁, o₂, r₁, r₂ => by simp [fedgesList, forestEqv, zipEdges_stop_stop]
  | [], y :: ys, o₁, o₂, r₁, r₂ => by
    obtain ⟨o, rest, h, _⟩ := fedges_eq_cons y
    simp [fedgesList, forestEqv, h, zipEdges_stop_start]
  | x :: xs, [], o₁, o₂, r₁, r₂ => by
    obtain ⟨o, rest, h, _⟩ := fedges_eq_cons x
    simp [fedgesList, forestEqv, h, zipEdges_start_stop]
  | x :: xs, y :: ys, o₁, o₂, r₁, r₂ => by
    have h1 := zipEdges_node cmp x y (fedgesList xs ++ .stop o₁ :: r₁) (fedgesList ys ++ .stop o₂ :: r₂)
    have h2 := zipEdges_forest cmp xs ys o₁ o₂ r₁ r₂
    simp only [fedgesList, List.append_assoc, h1, h2, forestEqv, Bool.and_assoc]
end

/-- Two whole forests (no enclosing End edge): the left-over tests of `advanced_deep_equal`.
    An edge list of a forest never has exactly one element more than another one, so the edge
    `zip` drops is never the last. -/
theorem zipEdges_top (cmp : TextCmp) : ∀ (xs ys : List FNode),
    zipEdges cmp (fedgesList xs) (fedgesList ys) = forestEqv cmp xs ys
  | [], [] => by simp [fedgesList, forestEqv, zipEdges]
  | [], y :: ys => by
    obtain ⟨o, rest, h, _⟩ := fedges_eq_cons y
    simp [fedgesList, forestEqv, h, zipEdges]
  | x :: xs, [] => by
    obtain ⟨o, rest, h, hne⟩ := fedges_eq_cons x
    simp [fedgesList, forestEqv, h, zipEdges, hne]
  | x :: xs, y :: ys => by
    have h1 := zipEdges_node cmp x y (fedgesList xs) (fedgesList ys)
    simp only [fedgesList, h1, zipEdges_top cmp xs ys, forestEqv]

/-- `advanced_deep_equal` on two normal nodes is structural equality of the filtered forests. -/
theorem advancedDeepEqual_eq (f : NodeFilter) (cmp : TextCmp) (a b : Tree)
    (na : a.value.isNormal = true) (nb : b.value.isNormal = true) :
    advancedDeepEqual f cmp a b = forestEqv cmp (proj f a) (proj f b) := by
  unfold advancedDeepEqual
  simp only [na, nb, Bool.not_true, Bool.or_self, Bool.false_eq_true, ↓reduceIte]
  rw [traverse_filter_eq, traverse_filter_eq, zipEdges_top]

/-- … and the direct value comparison as soon as one of them is an attribute / namespace node. -/
theorem advancedDeepEqual_abnormal (f : NodeFilter) (cmp : TextCmp) (a b : Tree)
    (h : ¬ a.value.isNormal = true ∨ ¬ b.value.isNormal = true) :
    advancedDeepEqual f cmp a b = compareValue cmp a b := by
  unfold advancedDeepEqual
  rcases h with h | h <;> simp [h]

end XotModel
