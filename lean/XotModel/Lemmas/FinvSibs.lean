/-
  Finv (C04), part 12: the first step of every move,
  `remove_consolidate_text_nodes(previous_sibling(c), next_sibling(c))` — what the state after it
  (`g`) has in common with the state before (`f`).
-/
import XotModel.Lemmas.FinvMove

namespace XotModel
open HTree

namespace Forest

theorem fi_removeConsolidate_true {f f' : Forest} {prev next : Option Nat}
    (h : f.removeConsolidate prev next = (f', true)) :
    f.consolidation = true ∧ ∃ p n ps ns, prev = some p ∧ next = some n ∧
      f.textOf p = some ps ∧ f.textOf n = some ns := by
  unfold removeConsolidate at h
  split at h
  · cases h
  · rename_i hc
    refine ⟨by simpa using hc, ?_⟩
    split at h
    · rename_i p n
      cases hp : f.textOf p with
      | none => rw [hp] at h; cases h
      | some ps =>
        cases hn : f.textOf n with
        | none => rw [hp, hn] at h; cases h
        | some ns => exact ⟨p, n, ps, ns, rfl, rfl, hp, hn⟩
    · cases h

theorem prevSibling_of_loc_nil {f : Forest} {h : Nat} {l k r} (lc : Loc f.roots h [] l k r)
    (nd : f.allHandles.Nodup) : f.prevSibling h = none := by
  unfold prevSibling; rw [ctx?_of_loc_nil lc nd]

theorem nextSibling_of_loc_nil {f : Forest} {h : Nat} {l k r} (lc : Loc f.roots h [] l k r)
    (nd : f.allHandles.Nodup) : f.nextSibling h = none := by
  unfold nextSibling; rw [ctx?_of_loc_nil lc nd]

theorem isRoot_plug_congr (fr : ZipFrame) (rest : List ZipFrame) (X Y : List HTree) (x : Nat) :
    (plug (fr :: rest) X).any (fun r => decide (r.handle = x)) =
    (plug (fr :: rest) Y).any (fun r => decide (r.handle = x)) := by
  simp only [plug_cons, List.any_append, List.any_cons, node_handle]
  rfl

/-- The value of a child of a live node. -/
theorem value?_of_mem_kids {f : Forest} (nd : f.allHandles.Nodup) {p : Nat} {K n : HTree}
    (hK : f.get? p = some K) (hn : n ∈ K.kids) : f.value? n.handle = some n.value := by
  have hl : f.isLive p = true := by simp [isLive, hK]
  obtain ⟨path, l, K', r, lc⟩ := exists_loc (mem_allHandles_of_isLive hl)
  have := get?_of_loc lc nd
  rw [hK] at this; cases this
  obtain ⟨a, b, hab⟩ := List.append_of_mem hn
  have lcn : Loc f.roots n.handle (path ++ [⟨l, K.handle, K.value, r⟩]) a n b := by
    refine ⟨?_, rfl⟩
    rw [plug_append, lc.eq, ← hab]
    simp [node_eta]
  exact value?_of_loc lcn nd

/-- Pairs other than those of `P` and the leaf `N` survive the merge of `P` and `N`. -/
theorem hv_transfer_merge {x : Nat} {v w : Value} {l0 r0 : List HTree} {P C N : HTree}
    (h : (x, v) ∈ hvList (l0 ++ [P] ++ C :: N :: r0)) (hP : x ≠ P.handle) (hN : x ≠ N.handle)
    (hNk : N.kids = []) : (x, v) ∈ hvList (l0 ++ P.setValue w :: ([C] ++ r0)) := by
  simp only [hvList_append, hvList_cons, hvList_nil, List.append_nil, List.append_assoc,
    List.nil_append, List.cons_append] at h ⊢
  rcases List.mem_append.mp h with h | h
  · exact List.mem_append.mpr (Or.inl h)
  refine List.mem_append.mpr (Or.inr ?_)
  rcases List.mem_append.mp h with h | h
  · rw [hv_eq] at h
    rw [hv_eq, fi_setValue_handle, fi_setValue_kids]
    rcases List.mem_cons.mp h with h | h
    · exact absurd (Prod.mk.inj h).1 hP
    · exact List.mem_append.mpr (Or.inl (List.mem_cons_of_mem _ h))
  refine List.mem_append.mpr (Or.inr ?_)
  rcases List.mem_append.mp h with h | h
  · exact List.mem_append.mpr (Or.inl h)
  refine List.mem_append.mpr (Or.inr ?_)
  rcases List.mem_append.mp h with h | h
  · rw [hv_eq, hNk, hvList_nil] at h
    rcases List.mem_cons.mp h with h | h
    · exact absurd (Prod.mk.inj h).1 hN
    · cases h
  · exact h

/-- What the state `g` after the consolidation of `c`'s neighbours shares with `f`. -/
structure SibsOut (f : Forest) (c : Nat) (g : Forest) (b : Bool) : Prop where
  eq : f.removeConsolidate (f.prevSibling c) (f.nextSibling c) = (g, b)
  inv : g.Inv
  everOff : g.everOff = f.everOff
  consolidation : g.consolidation = f.consolidation
  valC : g.value? c = f.value? c
  keep : ∀ x v, f.value? x = some v → (b = true → f.nextSibling c ≠ some x) →
    ∃ v', g.value? x = some v' ∧ SameKind v v' ∧ (v.isText = false → v' = v)
  cutOK : g.CutOK c
  same : f.everOff = false → (∀ cv, f.value? c = some cv → cv.isText = true) → g = f ∧ b = false
  isRoot : ∀ x, g.isRoot x = f.isRoot x
  anc : ∀ x, x ∈ g.allHandles → (g.ancestors x).contains c = (f.ancestors x).contains c
  sub : ∀ x, x ∈ g.allHandles → x ∈ f.allHandles
  merged : b = true → ∃ P N ps ns, f.prevSibling c = some P ∧ f.nextSibling c = some N ∧
    f.value? P = some (.text ps) ∧ f.value? N = some (.text ns) ∧
    g.value? P = some (.text (ps ++ ns)) ∧ g.isRoot P = false ∧ (g.ancestors P).contains c = false ∧
    N ∉ g.allHandles ∧ f.prevSibling N = some c

theorem sibsOut_refl {f : Forest} (hi : f.Inv) {c : Nat}
    (he : f.removeConsolidate (f.prevSibling c) (f.nextSibling c) = (f, false)) (hcut : f.CutOK c) :
    SibsOut f c f false :=
  { eq := he, inv := hi, everOff := rfl, consolidation := rfl, valC := rfl,
    keep := fun x v hv _ => ⟨v, hv, SameKind.refl v, fun _ => rfl⟩,
    cutOK := hcut, same := fun _ _ => ⟨rfl, rfl⟩, isRoot := fun _ => rfl, anc := fun _ _ => rfl,
    sub := fun _ h => h, merged := fun h => by cases h }

theorem exists_sibsOut {f : Forest} (hi : f.Inv) {c : Nat} (hc : c ∈ f.allHandles) :
    ∃ g b, SibsOut f c g b := by
  obtain ⟨path, l, C, r, lc⟩ := exists_loc hc
  have nd := hi.nodup
  obtain ⟨k1, k2⟩ := hi.kids_at lc.eq
  have k2' : validList (!f.everOff) l = true ∧ validTree (!f.everOff) C = true ∧
      validList (!f.everOff) r = true := by
    simpa only [validList_append, validList_cons, Bool.and_eq_true] using k2
  by_cases hm : f.consolidation = true ∧ path ≠ [] ∧ lastText l = true ∧ headText r = true ∧
      C.value.category = .normal
  · -- the merge happens
    obtain ⟨hcons, hne, hlt, hht, hCn⟩ := hm
    rcases List.eq_nil_or_concat path with hp0 | ⟨init, fr, hp0⟩
    · exact absurd hp0 hne
    rw [List.concat_eq_append] at hp0
    subst hp0
    obtain ⟨l0, P, rfl, hPt⟩ := exists_of_lastText hlt
    obtain ⟨N, r0, rfl, hNt⟩ := exists_of_headText hht
    obtain ⟨ps, hP⟩ := exists_text_of_isText hPt
    obtain ⟨ns, hN⟩ := exists_text_of_isText hNt
    have hPn : P.value.category = .normal := category_normal_of_isText hPt
    have hNn : N.value.category = .normal := category_normal_of_isText hNt
    have hNkids : N.kids = [] := by
      have : validTree (!f.everOff) N = true := by
        have := k2'.2.2; simp only [validList_cons, Bool.and_eq_true] at this; exact this.1
      exact kids_nil_of_text this hNt
    rw [innerValue_snoc] at k1
    have K := (kidsOK_iff _ _ _).mp k1
    have eprev : f.prevSibling c = some P.handle := by
      rw [prevSibling_of_loc_snoc lc nd]; simp [hPn, hCn]
    have enext : f.nextSibling c = some N.handle := by
      rw [nextSibling_of_loc_snoc lc nd]; simp [hNn, hCn]
    have hroots : f.roots = plug (init ++ [fr]) (l0 ++ P :: ([C] ++ N :: r0)) := by
      rw [lc.eq]; simp
    have hmerge := removeConsolidate_merge nd hcons hroots hP hN hNkids
    rw [← eprev, ← enext] at hmerge
    have hgi := removeConsolidate_inv hi (f.prevSibling c) (f.nextSibling c)
    rw [hmerge] at hgi
    simp only at hgi
    have lcP : Loc f.roots P.handle (init ++ [fr]) l0 P (C :: N :: r0) := ⟨by rw [lc.eq]; simp, rfl⟩
    have lcN : Loc f.roots N.handle (init ++ [fr]) (l0 ++ [P] ++ [C]) N r0 := ⟨by rw [lc.eq]; simp, rfl⟩
    refine ⟨_, true, ⟨hmerge, hgi, rfl, rfl, ?_, ?_, ?_, ?_, ?_, ?_, ?_, ?_⟩⟩
    all_goals
      have lcg : Loc (plug (init ++ [fr]) (l0 ++ P.setValue (.text (ps ++ ns)) :: ([C] ++ r0)))
          c (init ++ [fr]) (l0 ++ [P.setValue (.text (ps ++ ns))]) C r0 := ⟨by simp, lc.hk⟩
      have lcgP : Loc (plug (init ++ [fr]) (l0 ++ P.setValue (.text (ps ++ ns)) :: ([C] ++ r0)))
          P.handle (init ++ [fr]) l0 (P.setValue (.text (ps ++ ns))) ([C] ++ r0) := ⟨rfl, by simp⟩
      have ndg := hgi.nodup
    · rw [value?_of_loc lcg ndg, value?_of_loc lc nd]
    · -- keep
      intro x v hv hx
      have hxN : x ≠ N.handle := fun e => hx rfl (by rw [enext, e])
      rw [value?_eq_some_iff nd, lc.eq] at hv
      by_cases hxP : x = P.handle
      · subst hxP
        have := value?_of_loc lcP nd
        rw [(value?_eq_some_iff nd _ _).mpr (by rw [lc.eq]; exact hv)] at this
        have hvP : v = P.value := Option.some.inj this
        refine ⟨.text (ps ++ ns), ?_, ?_, ?_⟩
        · rw [value?_of_loc lcgP ndg]; simp
        · rw [hvP, hP]; exact ⟨rfl, rfl, rfl, rfl⟩
        · intro hnt; rw [hvP, hP] at hnt; cases hnt
      · refine ⟨v, ?_, SameKind.refl v, fun _ => rfl⟩
        rw [value?_eq_some_iff ndg]
        rw [mem_hvList_plug] at hv ⊢
        rcases hv with hv | hv
        · exact Or.inl hv
        · exact Or.inr (hv_transfer_merge hv hxP hxN hNkids)
    · -- cutOK
      intro hoff ctx hctx
      rw [ctx?_of_loc_snoc lcg ndg] at hctx
      cases hctx
      have hoff' : f.everOff = false := hoff
      have hs : (!f.everOff) = true := by simp [hoff']
      have K1 : KidsOK (!f.everOff) fr.v ((l0 ++ [P] ++ [C]) ++ N :: r0) := by simpa using K
      simp [K1.headText_after_text hs hNt]
    · -- same: impossible, `c` would be a text node between two text nodes
      intro hoff hct
      exfalso
      have hs : (!f.everOff) = true := by simp [hoff]
      have hCt := hct _ (value?_of_loc lc nd)
      have K1 : KidsOK (!f.everOff) fr.v ((l0 ++ [P]) ++ C :: N :: r0) := K
      have := K1.lastText_before_text hs hCt
      simp [hPt] at this
    · -- isRoot
      intro x
      unfold Forest.isRoot
      simp only [lc.eq]
      cases init with
      | nil => exact isRoot_plug_congr _ _ _ _ _
      | cons fr0 rest => exact isRoot_plug_congr _ _ _ _ _
    · -- anc
      intro x hx
      have hxf : x ∈ f.allHandles := by
        unfold allHandles at hx ⊢
        rw [lc.eq]
        simp only [mem_handlesList_plug, fi_handlesList_append, fi_handlesList_cons, List.mem_append,
          handles_setValue, fi_handlesList_nil, List.append_nil] at hx ⊢
        rcases hx with hx | hx | hx | hx | hx
        · exact Or.inl hx
        · exact Or.inr (Or.inl (Or.inl hx))
        · exact Or.inr (Or.inl (Or.inr hx))
        · exact Or.inr (Or.inr (Or.inl hx))
        · exact Or.inr (Or.inr (Or.inr (Or.inr hx)))
      rw [Bool.eq_iff_iff]
      constructor
      · intro ha
        exact anc_of_mem_subtree lc nd (mem_subtree_of_anc lcg ndg hx ha)
      · intro ha
        exact anc_of_mem_subtree lcg ndg (mem_subtree_of_anc lc nd hxf ha)
    · -- sub
      intro x hx
      unfold allHandles at hx ⊢
      rw [lc.eq]
      simp only [mem_handlesList_plug, fi_handlesList_append, fi_handlesList_cons, List.mem_append,
        handles_setValue, fi_handlesList_nil, List.append_nil] at hx ⊢
      rcases hx with hx | hx | hx | hx | hx
      · exact Or.inl hx
      · exact Or.inr (Or.inl (Or.inl hx))
      · exact Or.inr (Or.inl (Or.inr hx))
      · exact Or.inr (Or.inr (Or.inl hx))
      · exact Or.inr (Or.inr (Or.inr (Or.inr hx)))
    · -- merged
      intro _
      refine ⟨P.handle, N.handle, ps, ns, eprev, enext, ?_, ?_, ?_, ?_, ?_, ?_, ?_⟩
      · rw [value?_of_loc lcP nd, hP]
      · rw [value?_of_loc lcN nd, hN]
      · rw [value?_of_loc lcgP ndg]; simp
      · exact isRoot_of_loc_ne lcgP (by simp) ndg
      · rw [ancestors_of_loc lcgP ndg]
        have hf := lcg.fresh ndg
        simp only [List.contains_eq_mem, List.mem_cons, List.mem_reverse, List.mem_map,
          decide_eq_false_iff_not, not_or, not_exists, not_and]
        refine ⟨?_, ?_⟩
        · intro e
          apply hf.left
          simp only [fi_handlesList_append, fi_handlesList_cons, handles_setValue, fi_handlesList_nil,
            List.append_nil, List.mem_append]
          exact Or.inr (e ▸ fi_handle_mem_handles P)
        · intro fr' hfr' e
          apply hf.path
          clear hmerge hgi lcg lcgP ndg
          generalize init ++ [fr] = pth at hfr'
          induction pth with
          | nil => cases hfr'
          | cons a rest ih =>
            simp only [pathHandles, List.mem_append, List.mem_cons]
            rw [List.mem_cons] at hfr'
            rcases hfr' with h1 | h1
            · subst h1; exact Or.inr (Or.inl e.symm)
            · exact Or.inr (Or.inr (Or.inl (ih h1)))
      · intro hmem
        unfold allHandles at hmem
        simp only [mem_handlesList_plug, fi_handlesList_append, fi_handlesList_cons, List.mem_append,
          handles_setValue, fi_handlesList_nil, List.append_nil] at hmem
        have hfN := lcN.fresh nd
        rcases hmem with hx | hx | hx | hx | hx
        · exact hfN.path hx
        · exact hfN.left (by simp [hx])
        · exact hfN.left (by simp [hx])
        · exact hfN.left (by simp [hx])
        · exact hfN.right hx
      · rw [prevSibling_of_loc_snoc lcN nd]
        simp [hNn, hCn, lc.hk]
  · -- nothing happens
    have hres : f.removeConsolidate (f.prevSibling c) (f.nextSibling c) = (f, false) := by
      cases hr : f.removeConsolidate (f.prevSibling c) (f.nextSibling c) with
      | mk f' b =>
        cases b with
        | false => rw [removeConsolidate_false hr]
        | true =>
          exfalso
          apply hm
          obtain ⟨hcons, p, n, ps, ns, hp, hn, tp, tn⟩ := fi_removeConsolidate_true hr
          rcases List.eq_nil_or_concat path with hp0 | ⟨init, fr, hp0⟩
          · subst hp0
            rw [prevSibling_of_loc_nil lc nd] at hp; cases hp
          rw [List.concat_eq_append] at hp0
          subst hp0
          rw [prevSibling_of_loc_snoc lc nd] at hp
          rw [nextSibling_of_loc_snoc lc nd] at hn
          cases hl : l.getLast? with
          | none => rw [hl] at hp; cases hp
          | some P =>
            cases hh : r.head? with
            | none => rw [hh] at hn; cases hn
            | some N =>
              rw [hl] at hp; rw [hh] at hn
              simp only [Option.bind_some] at hp hn
              split at hp
              · rename_i hcatP
                split at hn
                · rename_i hcatN
                  cases hp; cases hn
                  obtain ⟨l0, rfl⟩ : ∃ l0, l = l0 ++ [P] := by
                    rcases List.eq_nil_or_concat l with h0 | ⟨l0, P', h0⟩
                    · subst h0; simp at hl
                    · rw [List.concat_eq_append] at h0; subst h0
                      simp at hl; subst hl; exact ⟨l0, rfl⟩
                  obtain ⟨r0, rfl⟩ : ∃ r0, r = N :: r0 := by
                    cases r with
                    | nil => simp at hh
                    | cons a r0 => simp at hh; subst hh; exact ⟨r0, rfl⟩
                  have lcP : Loc f.roots P.handle (init ++ [fr]) l0 P (C :: N :: r0) :=
                    ⟨by rw [lc.eq]; simp, rfl⟩
                  have lcN : Loc f.roots N.handle (init ++ [fr]) (l0 ++ [P] ++ [C]) N r0 :=
                    ⟨by rw [lc.eq]; simp, rfl⟩
                  rw [textOf_eq_some_iff, value?_of_loc lcP nd] at tp
                  rw [textOf_eq_some_iff, value?_of_loc lcN nd] at tn
                  have hPv : P.value = .text ps := Option.some.inj tp
                  have hNv : N.value = .text ns := Option.some.inj tn
                  refine ⟨hcons, by simp, by simp [hPv, Value.isText], by simp [hNv, Value.isText], ?_⟩
                  have : P.value.category = C.value.category := by simpa using hcatP
                  rw [← this, hPv]; rfl
                · cases hn
              · cases hp
    refine ⟨f, false, sibsOut_refl hi hres ?_⟩
    -- CutOK
    intro hoff ctx hctx
    rcases List.eq_nil_or_concat path with hp0 | ⟨init, fr, hp0⟩
    · subst hp0; rw [ctx?_of_loc_nil lc nd] at hctx; cases hctx
    rw [List.concat_eq_append] at hp0
    subst hp0
    rw [ctx?_of_loc_snoc lc nd] at hctx
    cases hctx
    simp only
    cases hb : (lastText l && headText r) with
    | false => rfl
    | true =>
      exfalso
      apply hm
      simp only [Bool.and_eq_true] at hb
      have hcons : f.consolidation = true := by
        cases hi.consOn with
        | inl h => exact h
        | inr h => rw [hoff] at h; cases h
      obtain ⟨l0, P, rfl, hPt⟩ := exists_of_lastText hb.1
      rw [innerValue_snoc] at k1
      have K := (kidsOK_iff _ _ _).mp k1
      have K' : KidsOK (!f.everOff) fr.v (l0 ++ P :: C :: r) := by simpa using K
      exact ⟨hcons, by simp, hb.1, hb.2, K'.normal_after_normal (category_normal_of_isText hPt)⟩

end Forest
end XotModel
