/-
  Finv (C04), part 8: the text merge of `remove_consolidate_text_nodes` at a known place, and
  "cut a subtree, then consolidate its former neighbours" (`detach`, `remove`).
-/
import XotModel.Lemmas.FinvCons

namespace XotModel
open HTree

theorem exists_of_lastText {l : List HTree} (h : lastText l = true) :
    ∃ l0 P, l = l0 ++ [P] ∧ P.value.isText = true := by
  rcases List.eq_nil_or_concat l with h0 | ⟨l0, P, h0⟩
  · subst h0; simp at h
  · rw [List.concat_eq_append] at h0
    subst h0
    exact ⟨l0, P, rfl, by simpa using h⟩

theorem exists_of_headText {r : List HTree} (h : headText r = true) :
    ∃ N r0, r = N :: r0 ∧ N.value.isText = true := by
  cases r with
  | nil => simp at h
  | cons N r0 => exact ⟨N, r0, rfl, by simpa using h⟩

theorem exists_text_of_isText {v : Value} (h : v.isText = true) : ∃ s, v = .text s := by
  cases v <;> simp [Value.isText] at h
  exact ⟨_, rfl⟩

theorem category_normal_of_isText {v : Value} (h : v.isText = true) : v.category = .normal := by
  cases v <;> simp [Value.isText] at h
  rfl

theorem category_normal_of_rank {c : Category} (h : 2 ≤ c.rank) : c = .normal := by
  cases c <;> simp [Category.rank] at h ⊢

theorem rankOf_normal {k : HTree} (h : k.value.category = .normal) : rankOf k = 2 := by
  simp [rankOf, h, Category.rank]

/-- In strict mode nothing after a text child is text. -/
theorem KidsOK.headText_after_text {s : Bool} {v : Value} {a : List HTree} {N : HTree} {r0 : List HTree}
    (h : KidsOK s v (a ++ N :: r0)) (hs : s = true) (hN : N.value.isText = true) :
    headText r0 = false := by
  have h5 := h.text hs
  simp only [textFlags_append, textFlags_cons, noAdjB_append, noAdjB_cons, Bool.and_eq_true,
    Bool.not_eq_true', hN, Bool.true_and] at h5
  exact h5.1.2.1

/-- In strict mode nothing before a text child is text. -/
theorem KidsOK.lastText_before_text {s : Bool} {v : Value} {a : List HTree} {N : HTree} {r0 : List HTree}
    (h : KidsOK s v (a ++ N :: r0)) (hs : s = true) (hN : N.value.isText = true) :
    lastText a = false := by
  have h5 := h.text hs
  simp only [textFlags_append, textFlags_cons, noAdjB_append, noAdjB_cons, Bool.and_eq_true,
    Bool.not_eq_true', hN, headB, List.head?_cons, Option.getD_some, Bool.and_true] at h5
  exact h5.2

/-- A child between two normal children is normal. -/
theorem KidsOK.normal_after_normal {s : Bool} {v : Value} {a : List HTree} {P k : HTree} {b : List HTree}
    (h : KidsOK s v (a ++ P :: k :: b)) (hP : P.value.category = .normal) :
    k.value.category = .normal := by
  have h2 := h.sorted
  unfold Sorted at h2
  simp only [List.map_append, List.map_cons, List.pairwise_append, List.pairwise_cons,
    List.mem_cons] at h2
  have := h2.2.1.1 (rankOf k) (Or.inl rfl)
  rw [rankOf_normal hP] at this
  exact category_normal_of_rank this

/-- Extra roots after a plugged forest can be moved into the outermost frame. -/
theorem plug_snoc_append_extra (path : List ZipFrame) (fr : ZipFrame) (E : List HTree) :
    ∃ path' fr', (∀ X, plug (path ++ [fr]) X ++ E = plug (path' ++ [fr']) X) ∧ fr'.h = fr.h ∧ fr'.v = fr.v := by
  cases path with
  | nil => exact ⟨[], ⟨fr.l, fr.h, fr.v, fr.r ++ E⟩, by intro X; simp, rfl, rfl⟩
  | cons fr0 rest =>
    exact ⟨⟨fr0.l, fr0.h, fr0.v, fr0.r ++ E⟩ :: rest, fr, by intro X; simp, rfl, rfl⟩

namespace Forest

theorem prevSibling_of_loc_snoc {f : Forest} {h : Nat} {rest : List ZipFrame} {fr : ZipFrame} {l k r}
    (lc : Loc f.roots h (rest ++ [fr]) l k r) (nd : f.allHandles.Nodup) :
    f.prevSibling h = l.getLast?.bind
      (fun p => if p.value.category == k.value.category then some p.handle else none) := by
  unfold prevSibling
  rw [ctx?_of_loc_snoc lc nd]
  simp only
  cases l.getLast? <;> rfl

theorem nextSibling_of_loc_snoc {f : Forest} {h : Nat} {rest : List ZipFrame} {fr : ZipFrame} {l k r}
    (lc : Loc f.roots h (rest ++ [fr]) l k r) (nd : f.allHandles.Nodup) :
    f.nextSibling h = r.head?.bind
      (fun n => if n.value.category == k.value.category then some n.handle else none) := by
  unfold nextSibling
  rw [ctx?_of_loc_snoc lc nd]
  simp only
  cases r.head? <;> rfl

/-- The merge performed by `remove_consolidate_text_nodes(P, N)` on two text children of the same
    parent (`m` is what lies between them). -/
theorem removeConsolidate_merge {f : Forest} (nd : f.allHandles.Nodup) (hc : f.consolidation = true)
    {path : List ZipFrame} {fr : ZipFrame} {l0 m r0 : List HTree} {P N : HTree} {ps ns : Str}
    (he : f.roots = plug (path ++ [fr]) (l0 ++ P :: (m ++ N :: r0)))
    (hP : P.value = .text ps) (hN : N.value = .text ns) (hNk : N.kids = []) :
    f.removeConsolidate (some P.handle) (some N.handle) =
      ({ f with roots := plug (path ++ [fr]) (l0 ++ P.setValue (.text (ps ++ ns)) :: (m ++ r0)) }, true) := by
  have lcP : Loc f.roots P.handle (path ++ [fr]) l0 P (m ++ N :: r0) := ⟨he, rfl⟩
  have lcN : Loc f.roots N.handle (path ++ [fr]) (l0 ++ P :: m) N r0 := ⟨by rw [he]; simp, rfl⟩
  have tP : f.textOf P.handle = some ps := by
    rw [textOf_eq_some_iff, value?_of_loc lcP nd, hP]
  have tN : f.textOf N.handle = some ns := by
    rw [textOf_eq_some_iff, value?_of_loc lcN nd, hN]
  unfold removeConsolidate
  simp only [hc, Bool.not_true, Bool.false_eq_true, if_false, tP, tN]
  have hg := setValue_of_loc (.text (ps ++ ns)) lcP nd
  have nd' : (f.setValue P.handle (.text (ps ++ ns))).allHandles.Nodup := by
    rw [allHandles_setValue]; exact nd
  have lcN' : Loc (f.setValue P.handle (.text (ps ++ ns))).roots N.handle (path ++ [fr])
      (l0 ++ P.setValue (.text (ps ++ ns)) :: m) N r0 := ⟨by rw [hg]; simp, rfl⟩
  rw [spliceOut_of_loc_ne lcN' (by simp) nd', hNk, hg]
  simp [hc]

/-- Cut the located subtree `k` (keeping it as the extra roots `E`, or not), then run
    `remove_consolidate_text_nodes` on its former neighbours: the invariant holds again. -/
theorem cut_then_consolidate_inv {f : Forest} (hi : f.Inv) {node : Nat} {path l k r}
    (lc : Loc f.roots node path l k r) (E : List HTree) (X : List Nat)
    (hE : (handlesList E ++ X).Perm (handles k)) (hEv : validList (!f.everOff) E = true) :
    (({ f with roots := plug path (l ++ r) ++ E } : Forest).removeConsolidate
      (f.prevSibling node) (f.nextSibling node)).1.Inv := by
  obtain ⟨k1, k2⟩ := hi.kids_at lc.eq
  have k2' : validList (!f.everOff) l = true ∧ validTree (!f.everOff) k = true ∧
      validList (!f.everOff) r = true := by
    simpa only [validList_append, validList_cons, Bool.and_eq_true] using k2
  -- handles of the cut state
  have perm1 : ∀ ks' : List HTree, ∀ Y : List Nat, (handlesList ks' ++ Y).Perm (handlesList l ++ handlesList r) →
      (handlesList (plug path ks' ++ E) ++ (Y ++ X)).Perm f.allHandles := by
    intro ks' Y hY
    unfold allHandles
    rw [lc.eq]
    refine List.Perm.trans ?_ (handlesList_plug_perm path _).symm
    simp only [fi_handlesList_append, fi_handlesList_cons, List.append_assoc]
    have a1 : (handlesList (plug path ks') ++ (handlesList E ++ (Y ++ X))).Perm
        (pathHandles path ++ (handlesList ks' ++ Y) ++ (handlesList E ++ X)) := by
      refine ((handlesList_plug_perm path ks').append_right _).trans ?_
      simp only [List.append_assoc]
      refine List.Perm.append_left _ (List.Perm.append_left _ ?_)
      rw [← List.append_assoc, ← List.append_assoc]
      exact List.Perm.append_right _ List.perm_append_comm
    refine a1.trans ?_
    simp only [List.append_assoc]
    refine List.Perm.append_left _ ?_
    rw [← List.append_assoc]
    refine ((hY.append hE)).trans ?_
    simp only [List.append_assoc]
    exact List.Perm.append_left _ List.perm_append_comm
  -- the easy case: the cut state satisfies the invariant
  have easy : (f.everOff = false → (lastText l && headText r) = false ∨ path = []) →
      (({ f with roots := plug path (l ++ r) ++ E } : Forest).removeConsolidate
        (f.prevSibling node) (f.nextSibling node)).1.Inv := by
    intro hcond
    apply removeConsolidate_inv
    apply hi.with_roots _ ([] ++ X) (perm1 (l ++ r) [] (by simp))
    rw [validList_append, Bool.and_eq_true]
    refine ⟨?_, hEv⟩
    have hv := hi.valid
    rw [lc.eq] at hv
    apply valid_plug_replace _ path _ _ hv
    · cases hiv : innerValue path with
      | none => rfl
      | some pv =>
        rw [hiv] at k1
        refine (kidsOK_iff _ _ _).mpr (((kidsOK_iff _ _ _).mp k1).remove ?_)
        intro hs
        have hoff : f.everOff = false := by simpa using hs
        cases hcond hoff with
        | inl h => exact h
        | inr h => subst h; simp at hiv
    · simp [k2'.1, k2'.2.2]
  by_cases hoff : f.everOff = false
  · by_cases htt : (lastText l && headText r) = false
    · exact easy (fun _ => Or.inl htt)
    · rcases List.eq_nil_or_concat path with hpath | ⟨init, fr, hpath⟩
      · exact easy (fun _ => Or.inr hpath)
      · -- strict mode, both neighbours are text, not a root: the merge happens
        rw [List.concat_eq_append] at hpath
        subst hpath
        simp only [Bool.not_eq_false, Bool.and_eq_true] at htt
        obtain ⟨l0, P, rfl, hPt⟩ := exists_of_lastText htt.1
        obtain ⟨N, r0, rfl, hNt⟩ := exists_of_headText htt.2
        obtain ⟨ps, hP⟩ := exists_text_of_isText hPt
        obtain ⟨ns, hN⟩ := exists_text_of_isText hNt
        have hs : (!f.everOff) = true := by simp [hoff]
        have hcons : f.consolidation = true := by
          cases hi.consOn with
          | inl h => exact h
          | inr h => rw [hoff] at h; cases h
        rw [innerValue_snoc] at k1
        have K := (kidsOK_iff _ _ _).mp k1
        have hPn : P.value.category = .normal := category_normal_of_isText hPt
        have hNn : N.value.category = .normal := category_normal_of_isText hNt
        have hkn : k.value.category = .normal := by
          have K' : KidsOK (!f.everOff) fr.v (l0 ++ P :: k :: (N :: r0)) := by simpa using K
          exact K'.normal_after_normal hPn
        have hNkids : N.kids = [] := by
          have : validTree (!f.everOff) N = true := by
            have := k2'.2.2; simp only [validList_cons, Bool.and_eq_true] at this; exact this.1
          exact kids_nil_of_text this hNt
        have eprev : f.prevSibling node = some P.handle := by
          rw [prevSibling_of_loc_snoc lc hi.nodup]
          simp [hPn, hkn]
        have enext : f.nextSibling node = some N.handle := by
          rw [nextSibling_of_loc_snoc lc hi.nodup]
          simp [hNn, hkn]
        rw [eprev, enext]
        obtain ⟨path', fr', hplug, _, hfv⟩ := plug_snoc_append_extra init fr E
        have nd1 : (({ f with roots := plug (init ++ [fr]) (l0 ++ [P] ++ N :: r0) ++ E } : Forest)).allHandles.Nodup := by
          have := perm1 (l0 ++ [P] ++ N :: r0) [] (by simp)
          exact List.Nodup.sublist (List.sublist_append_left _ _) (this.symm.nodup hi.nodup)
        have hroots : ({ f with roots := plug (init ++ [fr]) (l0 ++ [P] ++ N :: r0) ++ E } : Forest).roots
            = plug (path' ++ [fr']) (l0 ++ P :: ([] ++ N :: r0)) := by
          show plug (init ++ [fr]) (l0 ++ [P] ++ N :: r0) ++ E = _
          rw [hplug]; simp
        rw [removeConsolidate_merge nd1 hcons hroots hP hN hNkids]
        show ({ f with roots := plug (path' ++ [fr']) (l0 ++ P.setValue (.text (ps ++ ns)) :: ([] ++ r0)) } : Forest).Inv
        rw [← hplug]
        apply hi.with_roots _ ([N.handle] ++ X)
        · apply perm1
          simp only [fi_handlesList_append, fi_handlesList_cons, handles_setValue, List.nil_append,
            fi_handlesList_nil, List.append_nil, fi_handles_eq N, hNkids, List.append_assoc]
          refine List.Perm.append_left _ (List.Perm.append_left _ ?_)
          exact List.perm_append_comm
        · rw [validList_append, Bool.and_eq_true]
          refine ⟨?_, hEv⟩
          have hv := hi.valid
          rw [lc.eq] at hv
          apply valid_plug_replace _ (init ++ [fr]) _ _ hv
          · rw [innerValue_snoc]
            refine (kidsOK_iff _ _ _).mpr ?_
            -- remove N (text), then k (now between P and the non-text head of r0), then retag P
            have K1 : KidsOK (!f.everOff) fr.v ((l0 ++ [P] ++ [k]) ++ N :: r0) := by simpa using K
            have hr0 : headText r0 = false := K1.headText_after_text hs hNt
            have K2 : KidsOK (!f.everOff) fr.v ((l0 ++ [P]) ++ k :: r0) := by
              simpa using K1.remove_text hNt
            have K3 : KidsOK (!f.everOff) fr.v (l0 ++ P :: r0) := by
              simpa using K2.remove (fun _ => by simp [hr0])
            have : KidsOK (!f.everOff) fr.v (l0 ++ P.setValue (.text (ps ++ ns)) :: r0) :=
              K3.sameKind (by rw [fi_setValue_value, hP]; exact ⟨rfl, rfl, rfl, rfl⟩)
            simpa using this
          · have hl0 : validList (!f.everOff) l0 = true ∧ validTree (!f.everOff) P = true := by
              have := k2'.1; simpa only [validList_append, validList_cons, validList_nil,
                Bool.and_true, Bool.and_eq_true] using this
            have hr0' : validList (!f.everOff) r0 = true := by
              have := k2'.2.2; simp only [validList_cons, Bool.and_eq_true] at this; exact this.2
            simp only [validList_append, validList_cons, List.nil_append, Bool.and_eq_true]
            exact ⟨hl0.1, validTree_setValue hl0.2 (by rw [hP]; intro x; rfl), hr0'⟩
  · exact easy (fun h => absurd h hoff)

end Forest
end XotModel
