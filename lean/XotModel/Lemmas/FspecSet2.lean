/-
  FspecSet2 — C05, last clause, second part: `text_content_mut(node).set(s)`.  An element
  without normal children gets exactly one new text child (handle `f.next`, after its attribute
  and namespace nodes); the data of a single text child is replaced; every other outcome is a
  refusal that changes nothing; under the invariant the call never panics.
-/
import XotModel.Lemmas.FspecSet

namespace XotModel
open HTree Spec

/-! ### List facts -/

theorem dropWhile_eq_nil_all {α : Type} (p : α → Bool) : ∀ l : List α, l.dropWhile p = [] →
    ∀ a ∈ l, p a = true
  | [], _, a, h => by cases h
  | b :: l, h, a, ha => by
    rw [List.dropWhile_cons] at h
    cases hp : p b with
    | false => rw [hp] at h; simp at h
    | true =>
      rw [hp] at h
      simp only [if_true] at h
      rcases List.mem_cons.1 ha with e | e
      · rw [e]; exact hp
      · exact dropWhile_eq_nil_all p l h a e

theorem takeWhile_sat {α : Type} (p : α → Bool) : ∀ l : List α, ∀ a ∈ l.takeWhile p, p a = true
  | [], a, h => by cases h
  | b :: l, a, h => by
    rw [List.takeWhile_cons] at h
    cases hp : p b with
    | false => rw [hp] at h; cases h
    | true =>
      rw [hp] at h
      simp only [if_true] at h
      rcases List.mem_cons.1 h with e | e
      · rw [e]; exact hp
      · exact takeWhile_sat p l a e

namespace Forest

theorem newText_eq (f : Forest) (s : Str) :
    f.newText s = (f.bump.addRoot (.node f.next (.text s) []), f.next) := rfl

theorem get_node_of_get {f : Forest} {n : Nat} {t : HTree} (h : f.get? n = some t) :
    ∃ v L, f.get? n = some (.node n v L) := by
  have hh : t.handle = n := (findList?_some f.roots t h).1
  cases t with
  | node h' v L =>
    simp only [HTree.handle] at hh
    subst hh
    exact ⟨v, L, h⟩

/-! ### The two shapes of the child list that `text_content_mut` accepts -/

/-- `first_child` is `None`: no child is normal. -/
theorem all_abn_of_firstChild_none {f : Forest} {n : Nat} {v : Value} {L : List HTree}
    (hg : f.get? n = some (.node n v L)) (h : f.firstChild n = none) : ∀ k ∈ L, abn k = true := by
  rw [firstChild_of_get hg] at h
  simp only [Option.map_eq_none_iff, List.head?_eq_none_iff] at h
  exact dropWhile_eq_nil_all abn L h

theorem filter_normal_nil {L : List HTree} (h : ∀ k ∈ L, abn k = true) :
    L.filter (fun k => k.value.isNormal) = [] := by
  rw [List.filter_eq_nil_iff]
  intro k hk
  have := h k hk
  unfold abn at this
  simpa using this

theorem lastOf_none_of_abn {L : List HTree} (h : ∀ k ∈ L, abn k = true) : lastOf L = none := by
  unfold lastOf
  cases hl : L.getLast? with
  | none => rfl
  | some k =>
    have := h k (List.mem_of_getLast? hl)
    unfold abn at this
    simp only [Bool.not_eq_true'] at this
    simp [this]

/-- `first_child` is `c` and `c` has no next sibling: under the child order of the invariant
    `c` is the only normal child. -/
theorem only_normal_child {f : Forest} (inv : f.Inv) {n c : Nat}
    (hfc : f.firstChild n = some c) (hns : f.nextSibling c = none) :
    ∃ k, (f.kidsOf n).filter (fun k => k.value.isNormal) = [k] ∧ k.handle = c := by
  have hlive : ∃ t, f.get? n = some t := by
    cases hg : f.get? n with
    | some t => exact ⟨t, rfl⟩
    | none => unfold Forest.firstChild at hfc; rw [hg] at hfc; cases hfc
  obtain ⟨t, ht⟩ := hlive
  obtain ⟨v, L, hg⟩ := get_node_of_get ht
  rw [firstChild_of_get hg] at hfc
  cases hd : L.dropWhile abn with
  | nil => rw [hd] at hfc; cases hfc
  | cons k rest =>
    rw [hd] at hfc
    simp only [List.head?_cons, Option.map_some, Option.some.injEq] at hfc
    have hL : L = L.takeWhile abn ++ k :: rest := by
      rw [← hd]; exact List.takeWhile_append_dropWhile.symm
    have hkn : abn k = false := by
      have := List.head?_dropWhile_not abn L
      rw [hd] at this
      simpa using this
    have hknorm : k.value.isNormal = true := by
      unfold abn at hkn; simpa using hkn
    have s : SiteAt f n v (L.takeWhile abn ++ k :: rest) := ⟨inv.nodup, hL ▸ hg⟩
    have hctx := s.ctx
    rw [hfc] at hctx
    rw [nextSibling_of_ctx hctx] at hns
    simp only at hns
    have hord : kidsOrdered (k :: rest) = true :=
      kidsOrdered_drop _ (validTree_node (s.valid inv.valid)).2.1
    have hrest : rest = [] := by
      cases rest with
      | nil => rfl
      | cons nx rest' =>
        exfalso
        have hle := kidsOrdered_rank_le _ hord nx List.mem_cons_self
        have hk2 : k.value.category.rank = 2 := rank_normal.2 (by
          unfold Value.isNormal at hknorm; simpa using hknorm)
        have hnx2 : nx.value.category.rank = 2 := by
          have := rank_le_two nx.value.category
          omega
        have hcat : nx.value.category = k.value.category := by
          rw [rank_normal.1 hk2, rank_normal.1 hnx2]
        unfold nextOf at hns
        simp [hcat] at hns
    refine ⟨k, ?_, hfc⟩
    rw [kidsOf_of_get hg, hL, hrest, List.filter_append,
      filter_normal_nil (fun a ha => takeWhile_sat abn L a ha)]
    simp [hknorm]

/-! ### `append` of a parentless node under a node without a normal last child -/

theorem append_root_noLast {Z : Forest} {w n : Nat} {vw : Value} {L : List HTree} {t : HTree}
    (nd : Z.allHandles.Nodup) (hgw : Z.get? w = some (.node w vw L)) (hl : lastOf L = none)
    (hgn : Z.get? n = some t) (hroot : Z.isRoot n = true) (hsc : Z.structureCheck (some w) n = true) :
    Z.append w n = ((Z.editAt none (dropTop n)).editAt (some w) (insertLast t), .ok) := by
  have hno := Forest.ctx_none_of_root nd hroot
  have hlast : Z.lastChild w = none := by rw [Forest.lastChild_of_get hgw]; exact hl
  obtain ⟨vp, Lp, t', hgp, hgc, hpt, _, _, _⟩ := structureCheck_unpack nd hsc
  have et : t' = t := by rw [hgn] at hgc; exact (Option.some.inj hgc).symm
  subst et
  have hwn : w ≠ n := by
    intro e
    apply hpt
    rw [e, ← (findList?_some Z.roots t' hgn).1]
    exact fs_handle_mem_handles t'
  have hanc : (Z.ancestors w).contains n = false := by
    cases h : (Z.ancestors w).contains n with
    | false => rfl
    | true =>
      obtain ⟨u, hu, hwu⟩ := (ancestors_contains_iff nd).1 h
      rw [hgn] at hu
      have := Option.some.inj hu
      subst this
      exact absurd hwu hpt
  rw [Forest.append_unfold]
  simp only [hsc, hlast, Bool.not_true, Bool.false_eq_true, if_false, Forest.prevSibling_of_no_ctx hno,
    Forest.removeConsolidate_none_left]
  have hadd : Z.addConsolidate n none none = (Z, false) :=
    Forest.addConsolidate_none (fun a h => by cases h) (fun a h => by cases h)
  have hbeq : ((none : Option Nat) == some n) = false := rfl
  simp only [hbeq, hadd, Bool.false_eq_true, if_false]
  have hca : Z.checkedAppend w n = ((Z.editAt none (dropTop n)).editAt (some w) (insertLast t'), true) := by
    unfold Forest.checkedAppend
    have hcond : (decide (w = n) || (Z.ancestors w).contains n) = false := by
      rw [hanc]; simp [hwn]
    rw [hcond]
    simp only [Bool.false_eq_true, if_false]
    rw [cut_any nd hgn, Forest.parent?_of_no_ctx hno]
    rfl
  rw [hca]
  simp only [if_true]

end Forest

/-! ### The element without normal children -/

section NewChild
variable {f : Forest} {n nm : Nat} {L : List HTree}

/-- The site of the element in the store whose counter is already advanced. -/
theorem bump_site (nd : f.allHandles.Nodup) (hg : f.get? n = some (.node n (.element nm) L)) :
    SiteAt f.bump n (.element nm) L := ⟨nd, hg⟩

theorem count_handles_leaf (z h : Nat) (v : Value) :
    (handlesList [HTree.node h v []]).count z = if h = z then 1 else 0 := by
  simp [handlesList, handles, List.count_cons]

/-- Handles stay distinct when a leaf with an unused handle becomes the last child. -/
theorem nodup_insertLast_fresh {X : Forest} {p : Nat} {v : Value} {K : List HTree} (s : SiteAt X p v K)
    {h : Nat} (hf : h ∉ X.allHandles) (vv : Value) :
    (X.editAt (some p) (insertLast (.node h vv []))).allHandles.Nodup := by
  apply s.nodup_of_count
  intro z
  unfold insertLast
  rw [fs_handlesList_append, List.count_append, count_handles_leaf]
  have h1 : X.allHandles.count z ≤ 1 := List.nodup_iff_count.1 s.nd z
  split
  · rename_i e
    subst e
    rw [List.count_eq_zero.2 hf]
    omega
  · omega

/-- The statements of `text_content_mut` + `set` on an element whose `first_child` is `None`. -/
theorem textContentSet_elem_unfold {f2 : Forest} {c : Nat} (s : Str) (hfc : f.firstChild n = none)
    (hel : f.isElement n = true)
    (happ : (f.bump.addRoot (.node f.next (.text []) [])).append n f.next = (f2, .ok))
    (hfc2 : f2.firstChild n = some c) (ht : f2.isText c = true) :
    f.textContentSet n s = (f2.setValue c (.text s), .ok) := by
  unfold Forest.textContentSet
  rw [hfc]
  simp only [hel, if_true, Forest.newText_eq, happ, hfc2, ht]

/-- The whole call on an element without normal children, step by step. -/
theorem textContentSet_new (inv : f.Inv) (s : Str)
    (hg : f.get? n = some (.node n (.element nm) L)) (hfc : f.firstChild n = none) :
    f.textContentSet n s =
      ({ f.editAt (some n) (insertLast (.node f.next (.text s) [])) with next := f.next + 1 }, .ok) := by
  have habn := Forest.all_abn_of_firstChild_none hg hfc
  have hfresh : f.next ∉ f.allHandles := fun h => Nat.lt_irrefl _ (inv.below _ h)
  have hnlive : n ∈ f.allHandles := mem_of_findList?_some hg
  have hne : n ≠ f.next := fun e => hfresh (e ▸ hnlive)
  have hel : f.isElement n = true := by
    unfold Forest.isElement Forest.value?; rw [hg]; rfl
  -- the store after `new_text("")`
  let T0 : HTree := .node f.next (.text []) []
  have hT0 : handles T0 = [f.next] := by simp [T0, handles, handlesList]
  have nd1 : (f.bump.addRoot T0).allHandles.Nodup := by
    rw [Forest.addRoot_allHandles, hT0]
    apply List.nodup_append.2
    refine ⟨inv.nodup, by simp, ?_⟩
    intro a ha b hb e
    simp only [List.mem_singleton] at hb
    exact hfresh (hb ▸ e ▸ ha)
  have hgw1 : (f.bump.addRoot T0).get? n = some (.node n (.element nm) L) := Forest.addRoot_get_left T0 hg
  have hgn1 : (f.bump.addRoot T0).get? f.next = some T0 := by
    rw [Forest.addRoot_get_new (X := f.bump) T0 hfresh]; exact fs_find?_self T0
  have hroot1 : (f.bump.addRoot T0).isRoot f.next = true := Forest.addRoot_isRoot f.bump T0
  have hanc1 : ((f.bump.addRoot T0).ancestors n).contains f.next = false := by
    cases h : ((f.bump.addRoot T0).ancestors n).contains f.next with
    | false => rfl
    | true =>
      obtain ⟨u, hu, hnu⟩ := (Forest.ancestors_contains_iff nd1).1 h
      rw [hgn1] at hu
      have := Option.some.inj hu
      subst this
      rw [hT0] at hnu
      exact absurd (List.mem_singleton.1 hnu) hne
  have hsc : (f.bump.addRoot T0).structureCheck (some n) f.next = true := by
    unfold Forest.structureCheck
    have h1 : (f.bump.addRoot T0).isElement n = true := by
      unfold Forest.isElement Forest.value?; rw [hgw1]; rfl
    have h2 : (f.bump.addRoot T0).value? f.next = some (.text []) := by
      unfold Forest.value?; rw [hgn1]; rfl
    simp only [h1, hanc1, h2, Bool.true_or, Bool.not_false, Bool.and_self]
  have happ := Forest.append_root_noLast nd1 hgw1 (Forest.lastOf_none_of_abn habn) hgn1 hroot1 hsc
  have hdrop : (f.bump.addRoot T0).editAt none (dropTop f.next) = f.bump := Forest.addRoot_drop f.bump T0 hfresh
  rw [hdrop] at happ
  -- the store after `append`
  have sb := bump_site inv.nodup hg
  have nd2 : (f.bump.editAt (some n) (insertLast T0)).allHandles.Nodup :=
    nodup_insertLast_fresh sb hfresh _
  have s2 : SiteAt (f.bump.editAt (some n) (insertLast T0)) n (.element nm) (L ++ T0 :: []) :=
    ⟨nd2, Forest.get?_editAt_self _ sb.kids⟩
  have hfc2 : (f.bump.editAt (some n) (insertLast T0)).firstChild n = some f.next := by
    rw [Forest.firstChild_of_get s2.kids, List.dropWhile_append_of_pos habn]
    rfl
  have hgt2 : (f.bump.editAt (some n) (insertLast T0)).get? f.next = some T0 := s2.getKid
  have htext2 : (f.bump.editAt (some n) (insertLast T0)).isText f.next = true := by
    unfold Forest.isText Forest.value?; rw [hgt2]; rfl
  have hctx2 : (f.bump.editAt (some n) (insertLast T0)).ctx? f.next = some ⟨n, L, T0, []⟩ := s2.ctx
  have hset := Forest.setValue_of_ctx (.text s) nd2 hctx2
  simp only at hset
  rw [textContentSet_elem_unfold s hfc hel happ hfc2 htext2, hset, Forest.editAt_editAt]
  congr 1
  have : f.bump.editAt (some n) ((replaceTop f.next fun k => [k.setValue (.text s)]) ∘ insertLast T0) =
      f.bump.editAt (some n) (insertLast (.node f.next (.text s) [])) := by
    apply sb.congr
    simp only [Function.comp, insertLast]
    have hLne : ∀ k ∈ L, k.handle ≠ f.next := by
      intro k hk e
      have hin : k.handle ∈ handles (HTree.node n (.element nm) L) := by
        rw [handles_node]; exact List.mem_cons_of_mem _ (handle_mem_handlesList hk)
      exact hfresh (e ▸ (findList?_some f.roots _ hg).2 _ hin)
    rw [replaceTop_mid (h := f.next) (s := T0) (r := []) rfl hLne]
    simp [T0, HTree.setValue]
  rw [this]
  rfl

end NewChild

/-! ### `text_content_mut(node).set(s)` against its specification -/

theorem textContentSet_some {f : Forest} {n c : Nat} (s : Str) (h : f.firstChild n = some c) :
    f.textContentSet n s =
      if (f.nextSibling c).isSome then (f, .err .invalidOperation)
      else if f.isText c then (f.setValue c (.text s), .ok) else (f, .err .invalidOperation) := by
  unfold Forest.textContentSet
  rw [h]

theorem textContentSet_none_other {f : Forest} {n : Nat} (s : Str) (h : f.firstChild n = none)
    (he : f.isElement n = false) : f.textContentSet n s = (f, .err .invalidOperation) := by
  unfold Forest.textContentSet
  rw [h]
  simp [he]

theorem get_element_of_isElement {f : Forest} {n : Nat} (he : f.isElement n = true) :
    ∃ nm L, f.get? n = some (.node n (.element nm) L) := by
  obtain ⟨nm, hv⟩ := Forest.value_element_of_isElement he
  unfold Forest.value? at hv
  have hlive : ∃ t, f.get? n = some t := by
    cases hg : f.get? n with
    | none => rw [hg] at hv; cases hv
    | some t => exact ⟨t, rfl⟩
  obtain ⟨t, hg⟩ := hlive
  obtain ⟨v, L, hg'⟩ := Forest.get_node_of_get hg
  rw [hg'] at hv
  simp only [Option.map_some, HTree.value, Option.some.injEq] at hv
  exact ⟨nm, L, hv ▸ hg'⟩

/-- **C05, setters, `text_content_mut`.**  A successful call is the specified one. -/
theorem textContentSet_spec {f : Forest} (inv : f.Inv) {n : Nat} {s : Str}
    (hok : (f.textContentSet n s).2 = .ok) :
    (f.textContentSet n s).1 = Spec.specTextContentSet n s f := by
  cases hfc : f.firstChild n with
  | some c =>
    rw [textContentSet_some s hfc] at hok ⊢
    cases hns : (f.nextSibling c).isSome with
    | true => rw [hns] at hok; simp at hok
    | false =>
      simp only [Bool.false_eq_true, if_false] at hok ⊢
      cases ht : f.isText c with
      | false => rw [ht] at hok; simp at hok
      | true =>
        simp only [if_true]
        have hns' : f.nextSibling c = none := by
          cases h : f.nextSibling c with
          | none => rfl
          | some x => rw [h] at hns; cases hns
        obtain ⟨k, hk, hkc⟩ := Forest.only_normal_child inv hfc hns'
        unfold Spec.specTextContentSet
        rw [hk]
        simp only
        rw [hkc, setValue_eq_spec]
  | none =>
    cases he : f.isElement n with
    | false => rw [textContentSet_none_other s hfc he] at hok; cases hok
    | true =>
      obtain ⟨nm, L, hg⟩ := get_element_of_isElement he
      rw [textContentSet_new inv s hg hfc]
      unfold Spec.specTextContentSet
      rw [Forest.kidsOf_of_get hg, Forest.filter_normal_nil (Forest.all_abn_of_firstChild_none hg hfc)]

/-- Under the invariant `text_content_mut(node).set(s)` never panics (live node or not). -/
theorem textContentSet_no_panic {f : Forest} (inv : f.Inv) (n : Nat) (s : Str) :
    (f.textContentSet n s).2 ≠ .panic := by
  cases hfc : f.firstChild n with
  | some c =>
    rw [textContentSet_some s hfc]
    split
    · intro h; cases h
    · split <;> (intro h; cases h)
  | none =>
    cases he : f.isElement n with
    | false => rw [textContentSet_none_other s hfc he]; intro h; cases h
    | true =>
      obtain ⟨nm, L, hg⟩ := get_element_of_isElement he
      rw [textContentSet_new inv s hg hfc]
      intro h; cases h

/-- A refusal changes nothing (no hypothesis on the forest). -/
theorem textContentSet_err {f : Forest} {n : Nat} {s : Str} {e : XotError}
    (h : (f.textContentSet n s).2 = .err e) : (f.textContentSet n s).1 = f := by
  cases hfc : f.firstChild n with
  | some c =>
    rw [textContentSet_some s hfc] at h ⊢
    split
    · rfl
    · rename_i h1
      rw [if_neg h1] at h
      split
      · rename_i h2; rw [if_pos h2] at h; cases h
      · rfl
  | none =>
    cases he : f.isElement n with
    | false => rw [textContentSet_none_other s hfc he]
    | true =>
      exfalso
      unfold Forest.textContentSet at h
      rw [hfc] at h
      simp only [he, if_true] at h
      generalize (f.newText []).1.append n (f.newText []).2 = x at h
      obtain ⟨f2, r⟩ := x
      cases r with
      | ok =>
        simp only at h
        cases hc : f2.firstChild n with
        | none => rw [hc] at h; cases h
        | some c =>
          rw [hc] at h
          simp only at h
          split at h <;> cases h
      | err e' => cases h
      | panic => cases h

/-- Under the invariant every outcome other than `ok` leaves the forest as it was. -/
theorem textContentSet_refused {f : Forest} (inv : f.Inv) {n : Nat} {s : Str}
    (h : (f.textContentSet n s).2 ≠ .ok) : (f.textContentSet n s).1 = f := by
  cases hr : (f.textContentSet n s).2 with
  | ok => exact absurd hr h
  | err e => exact textContentSet_err hr
  | panic => exact absurd hr (textContentSet_no_panic inv n s)

/-! ### The frame of `specTextContentSet` -/

section Frame
variable {f : Forest} {n : Nat} {v : Value} {L : List HTree}

/-- No normal child: the new-child case of the specification. -/
theorem specTextContentSet_new_eq (s : Str) (hg : f.get? n = some (.node n v L))
    (hk : L.filter (fun k => k.value.isNormal) = []) :
    Spec.specTextContentSet n s f =
      { f.editAt (some n) (insertLast (.node f.next (.text s) [])) with next := f.next + 1 } := by
  unfold Spec.specTextContentSet
  rw [Forest.kidsOf_of_get hg, hk]

/-- One normal child: exactly its value changes (framed by the `specSetValue_…` theorems). -/
theorem specTextContentSet_one_eq (s : Str) {c : HTree} (hg : f.get? n = some (.node n v L))
    (hk : L.filter (fun k => k.value.isNormal) = [c]) :
    Spec.specTextContentSet n s f = Spec.specSetValue c.handle (.text s) f := by
  unfold Spec.specTextContentSet
  rw [Forest.kidsOf_of_get hg, hk]

/-- Several normal children: the specification leaves the forest alone (xot refuses). -/
theorem specTextContentSet_many_eq (s : Str) {a b : HTree} {r : List HTree}
    (hg : f.get? n = some (.node n v L)) (hk : L.filter (fun k => k.value.isNormal) = a :: b :: r) :
    Spec.specTextContentSet n s f = f := by
  unfold Spec.specTextContentSet
  rw [Forest.kidsOf_of_get hg, hk]

/-- New-child case: every old handle is kept and exactly one new handle, `f.next`, appears. -/
theorem specTextContentSet_new_handles (s : Str) (nd : f.allHandles.Nodup)
    (hg : f.get? n = some (.node n v L)) (hk : L.filter (fun k => k.value.isNormal) = []) :
    (Spec.specTextContentSet n s f).allHandles.Perm (f.next :: f.allHandles) ∧
      (Spec.specTextContentSet n s f).next = f.next + 1 := by
  rw [specTextContentSet_new_eq s hg hk]
  refine ⟨?_, rfl⟩
  show (f.editAt (some n) (insertLast (.node f.next (.text s) []))).allHandles.Perm _
  rw [List.perm_iff_count]
  intro z
  have st : SiteAt f n v L := ⟨nd, hg⟩
  have := st.count (insertLast (.node f.next (.text s) [])) z
  have e : insertLast (.node f.next (.text s) []) L = L ++ [.node f.next (.text s) []] := rfl
  rw [e, fs_handlesList_append, List.count_append, count_handles_leaf] at this
  rw [List.count_cons]
  simp only [beq_iff_eq]
  omega

/-- New-child case: the element afterwards — its old children, in order, then the new text node. -/
theorem specTextContentSet_new_get_self (s : Str) (hg : f.get? n = some (.node n v L))
    (hk : L.filter (fun k => k.value.isNormal) = []) :
    (Spec.specTextContentSet n s f).get? n = some (.node n v (L ++ [.node f.next (.text s) []])) := by
  rw [specTextContentSet_new_eq s hg hk]
  exact Forest.get?_editAt_self _ hg

theorem findList?_insertLast_fresh {x h : Nat} (hx : x ≠ h) (vv : Value) (K : List HTree) :
    findList? x (insertLast (.node h vv []) K) = findList? x K := by
  unfold insertLast
  rw [findList?_append, findList?_cons, findList?_nil, find?_node, if_neg (fun e => hx e.symm), findList?_nil]
  cases findList? x K <;> rfl

/-- New-child case: every subtree that does not hold the element is still there, unchanged. -/
theorem specTextContentSet_new_get_far (s : Str) (nd : f.allHandles.Nodup) (hfresh : f.next ∉ f.allHandles)
    (hg : f.get? n = some (.node n v L)) (hk : L.filter (fun k => k.value.isNormal) = [])
    {x : Nat} {t : HTree} (hx : f.get? x = some t) (hn : n ∉ handles t) :
    (Spec.specTextContentSet n s f).get? x = some t := by
  rw [specTextContentSet_new_eq s hg hk]
  have hxt : t.handle = x := (findList?_some f.roots t hx).1
  have hxn : x ≠ n := fun e => hn (e ▸ hxt ▸ fs_handle_mem_handles t)
  have hxf : x ≠ f.next := fun e => hfresh (e ▸ mem_of_findList?_some hx)
  show (f.editAt (some n) (insertLast (.node f.next (.text s) []))).get? x = _
  rw [Forest.get?_editAt_other hxn nd (fun _ K _ => findList?_insertLast_fresh hxf _ K), hx, Option.map_some,
    editAt_of_not_mem t hn]

/-- New-child case: handles stay distinct. -/
theorem specTextContentSet_new_nodup (s : Str) (nd : f.allHandles.Nodup) (hfresh : f.next ∉ f.allHandles)
    (hg : f.get? n = some (.node n v L)) (hk : L.filter (fun k => k.value.isNormal) = []) :
    (Spec.specTextContentSet n s f).allHandles.Nodup := by
  rw [specTextContentSet_new_eq s hg hk]
  exact nodup_insertLast_fresh (X := f) ⟨nd, hg⟩ hfresh _

/-- New-child case: a node under another parent keeps parent, siblings (in order) and value. -/
theorem specTextContentSet_new_ctx_other (s : Str) (nd : f.allHandles.Nodup) (hfresh : f.next ∉ f.allHandles)
    (hg : f.get? n = some (.node n v L)) (hk : L.filter (fun k => k.value.isNormal) = [])
    {x : Nat} {cx : Ctx} (hx : f.ctx? x = some cx) (hne : cx.parent ≠ n) :
    ∃ cx', (Spec.specTextContentSet n s f).ctx? x = some cx' ∧ cx'.shape = cx.shape := by
  have hnd := specTextContentSet_new_nodup s nd hfresh hg hk
  rw [specTextContentSet_new_eq s hg hk] at hnd ⊢
  have st : SiteAt f n v L := ⟨nd, hg⟩
  have hpf : cx.parent ≠ f.next := by
    obtain ⟨_, vv, e1⟩ := Forest.kids_of_ctx nd hx
    exact fun e => hfresh (e ▸ mem_of_findList?_some e1)
  exact st.frame _ hnd hx hne (findList?_insertLast_fresh hpf _ L)

/-- New-child case: an old child of the element keeps its place; the new node is added at the end. -/
theorem specTextContentSet_new_ctx_kid (s : Str) (nd : f.allHandles.Nodup) (hfresh : f.next ∉ f.allHandles)
    (hk : L.filter (fun k => k.value.isNormal) = []) {l r : List HTree} {k : HTree}
    (hL : L = l ++ k :: r) (hg : f.get? n = some (.node n v L)) :
    (Spec.specTextContentSet n s f).ctx? k.handle =
      some ⟨n, l, k, r ++ [.node f.next (.text s) []]⟩ := by
  have hnd := specTextContentSet_new_nodup s nd hfresh hg hk
  have hget := specTextContentSet_new_get_self s hg hk
  rw [hL, List.append_assoc, List.cons_append] at hget
  exact Forest.ctx_of_kids hnd hget

/-- New-child case: the new node is the last child of the element. -/
theorem specTextContentSet_new_ctx_new (s : Str) (nd : f.allHandles.Nodup) (hfresh : f.next ∉ f.allHandles)
    (hg : f.get? n = some (.node n v L)) (hk : L.filter (fun k => k.value.isNormal) = []) :
    (Spec.specTextContentSet n s f).ctx? f.next = some ⟨n, L, .node f.next (.text s) [], []⟩ ∧
      (Spec.specTextContentSet n s f).get? f.next = some (.node f.next (.text s) []) := by
  have hnd := specTextContentSet_new_nodup s nd hfresh hg hk
  have hget := specTextContentSet_new_get_self s hg hk
  exact ⟨Forest.ctx_of_kids (s := .node f.next (.text s) []) hnd hget,
    findList?_kid (s := .node f.next (.text s) []) _ hnd hget⟩

/-- New-child case: a parentless tree stays parentless. -/
theorem specTextContentSet_new_root (s : Str) (nd : f.allHandles.Nodup) (hfresh : f.next ∉ f.allHandles)
    (hg : f.get? n = some (.node n v L)) (hk : L.filter (fun k => k.value.isNormal) = [])
    {x : Nat} (hx : f.isRoot x = true) : (Spec.specTextContentSet n s f).ctx? x = none := by
  have hnd := specTextContentSet_new_nodup s nd hfresh hg hk
  rw [specTextContentSet_new_eq s hg hk] at hnd ⊢
  exact frame_root _ hnd hx

end Frame

/-! ### The statements on a closed example -/

/-- `<e1 a2="a"><e3>x</e3><e5 a6="b"/></e1>`: handles 0 (e1), 1 (attribute), 2 (e3), 3 (text),
    4 (e5), 5 (attribute). -/
def setSample : Forest :=
  { roots := [.node 0 (.element 1) [.node 1 (.attribute 2 ['a']) [],
      .node 2 (.element 3) [.node 3 (.text ['x']) []],
      .node 4 (.element 5) [.node 5 (.attribute 6 ['b']) []]]], next := 6 }

example : setSample.inv = true := by decide
example : (setSample.textContentSet 2 ['y']).2 = .ok ∧
    (setSample.textContentSet 2 ['y']).1 = Spec.specTextContentSet 2 ['y'] setSample := by decide
example : (setSample.textContentSet 4 ['y']).2 = .ok ∧
    (setSample.textContentSet 4 ['y']).1 = Spec.specTextContentSet 4 ['y'] setSample := by decide
example : (setSample.textContentSet 4 ['y']).1.get? 4 =
    some (.node 4 (.element 5) [.node 5 (.attribute 6 ['b']) [], .node 6 (.text ['y']) []]) := by decide
example : setSample.textContentSet 0 ['y'] = (setSample, .err .invalidOperation) := by decide
example : (setSample.setText 3 ['z']).2 = .ok ∧ (setSample.setComment 3 ['z']).2 ≠ .ok := by decide

end XotModel
