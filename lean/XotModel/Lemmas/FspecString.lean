/-
  FspecString — merging adjacent text nodes does not change the string value of any node: the
  specification of a move with consolidation on gives every non-text node the same string
  value (and the same document order) as the plain, unmerged move.
-/
import XotModel.Lemmas.FspecSurvivor

namespace XotModel
open HTree Spec

theorem text_node (h : Nat) (v : Value) (ks : List HTree) :
    HTree.text (.node h v ks) = v.textStr ++ textList ks := by
  simp [HTree.text]

theorem textList_nil : textList [] = [] := by simp [textList]
theorem textList_cons (k : HTree) (ks : List HTree) : textList (k :: ks) = HTree.text k ++ textList ks := by
  simp [textList]

theorem strValues_node (h : Nat) (v : Value) (ks : List HTree) :
    strValues (.node h v ks) = (if v.isText then [] else [(h, HTree.text (.node h v ks))]) ++ strValuesList ks := by
  simp [strValues]
theorem strValuesList_nil : strValuesList [] = [] := by simp [strValuesList]
theorem strValuesList_cons (k : HTree) (ks : List HTree) :
    strValuesList (k :: ks) = strValues k ++ strValuesList ks := by simp [strValuesList]

/-! ### "Every text child is a leaf", at every depth -/

/-- The text nodes among these children are leaves. -/
def TopLeaf (L : List HTree) : Prop := ∀ k ∈ L, k.value.isText = true → k.kids = []

mutual
  def kl : HTree → Bool
    | .node _ _ ks => klList ks
  /-- all text nodes among these trees' descendants-or-selves-as-children are leaves -/
  def klList : List HTree → Bool
    | [] => true
    | k :: ks => (!k.value.isText || k.kids.isEmpty) && kl k && klList ks
end

theorem kl_node (h : Nat) (v : Value) (ks : List HTree) : kl (.node h v ks) = klList ks := by simp [kl]
theorem klList_nil : klList [] = true := by simp [klList]
theorem klList_cons (k : HTree) (ks : List HTree) :
    klList (k :: ks) = ((!k.value.isText || k.kids.isEmpty) && kl k && klList ks) := by simp [klList]

theorem klList_iff {L : List HTree} :
    klList L = true ↔ TopLeaf L ∧ ∀ k ∈ L, kl k = true := by
  induction L with
  | nil => simp [klList_nil, TopLeaf]
  | cons a L ih =>
    rw [klList_cons]
    simp only [Bool.and_eq_true, Bool.or_eq_true, Bool.not_eq_true', List.isEmpty_iff, ih, TopLeaf,
      List.mem_cons, forall_eq_or_imp]
    constructor
    · intro ⟨⟨h1, h2⟩, h3, h4⟩
      refine ⟨⟨?_, h3⟩, h2, h4⟩
      intro ht
      cases h1 with
      | inl h => rw [ht] at h; cases h
      | inr h => exact h
    · intro ⟨⟨h1, h3⟩, h2, h4⟩
      refine ⟨⟨?_, h2⟩, h3, h4⟩
      cases ht : a.value.isText with
      | false => exact Or.inl rfl
      | true => exact Or.inr (h1 ht)

mutual
  theorem kl_of_valid {b : Bool} : ∀ t : HTree, validTree b t = true → kl t = true
    | .node h v ks => by
      intro hv
      rw [kl_node]
      exact klList_of_valid ks (validTree_node hv).2.2.2
  theorem klList_of_valid {b : Bool} : ∀ ks : List HTree, validList b ks = true → klList ks = true
    | [] => fun _ => klList_nil
    | k :: ks => by
      intro hv
      rw [validList_cons, Bool.and_eq_true] at hv
      rw [klList_cons, kl_of_valid k hv.1, klList_of_valid ks hv.2]
      simp only [Bool.and_true, Bool.or_eq_true, Bool.not_eq_true', List.isEmpty_iff]
      cases ht : k.value.isText with
      | false => exact Or.inl rfl
      | true =>
        right
        cases k with
        | node kh kv kks =>
          simp only [HTree.value] at ht
          simp only [HTree.kids]
          apply kids_nil_of_valid hv.1
          · cases kv <;> simp_all [Value.isText, Value.isElement]
          · cases kv <;> simp_all [Value.isText, Value.isDocument]
end

mutual
  theorem kl_find {x : Nat} : ∀ (t u : HTree), kl t = true → find? x t = some u → kl u = true
    | .node h v ks, u => by
      intro hk e
      rw [find?_node] at e
      by_cases hh : h = x
      · rw [if_pos hh] at e
        have := Option.some.inj e
        subst this
        exact hk
      · rw [if_neg hh] at e
        rw [kl_node] at hk
        exact klList_find ks u hk e
  theorem klList_find {x : Nat} : ∀ (ks : List HTree) (u : HTree), klList ks = true →
      findList? x ks = some u → kl u = true
    | [], u => by intro _ e; rw [findList?_nil] at e; cases e
    | k :: ks, u => by
      intro hk e
      obtain ⟨_, h2⟩ := klList_iff.1 hk
      cases hf : find? x k with
      | some w =>
        rw [findList?_cons_some hf] at e
        have := Option.some.inj e
        subst this
        exact kl_find k w (h2 k List.mem_cons_self) hf
      | none =>
        rw [findList?_cons_none hf] at e
        rw [klList_cons, Bool.and_eq_true] at hk
        exact klList_find ks u hk.2 e
end

/-! ### The list functions of the specification keep the property -/

theorem klList_dropTop (n : Nat) {L : List HTree} (h : klList L = true) : klList (dropTop n L) = true := by
  obtain ⟨h1, h2⟩ := klList_iff.1 h
  have hsub : ∀ k ∈ dropTop n L, k ∈ L := by
    intro k hk
    rw [dropTop_eq_filter] at hk
    exact (List.mem_filter.1 hk).1
  exact klList_iff.2 ⟨fun k hk => h1 k (hsub k hk), fun k hk => h2 k (hsub k hk)⟩

theorem klList_insert (dest : Dest) {t : HTree} {L : List HTree} (h : klList L = true) (ht : kl t = true)
    (htl : t.value.isText = true → t.kids = []) : klList (dest.insert t L) = true := by
  obtain ⟨h1, h2⟩ := klList_iff.1 h
  apply klList_iff.2
  constructor
  · intro k hk hkt
    cases mem_insert hk with
    | inl e => rw [e] at hkt ⊢; exact htl hkt
    | inr e => exact h1 k e hkt
  · intro k hk
    cases mem_insert hk with
    | inl e => rw [e]; exact ht
    | inr e => exact h2 k e

theorem text_of_text_leaf {k : HTree} {s : Str} (hv : k.value = .text s) (hk : k.kids = []) : HTree.text k = s := by
  cases k with
  | node h v ks =>
    simp only [HTree.value] at hv
    simp only [HTree.kids] at hk
    subst hv hk
    simp [text_node, textList_nil, Value.textStr]

theorem strValues_of_text_leaf {k : HTree} (hv : k.value.isText = true) (hk : k.kids = []) : strValues k = [] := by
  cases k with
  | node h v ks =>
    simp only [HTree.value] at hv
    simp only [HTree.kids] at hk
    subst hk
    simp [strValues_node, hv, strValuesList_nil]

theorem kl_of_leaf {k : HTree} (hk : k.kids = []) : kl k = true := by
  cases k with
  | node h v ks =>
    simp only [HTree.kids] at hk
    subst hk
    rw [kl_node, klList_nil]

theorem join_text (keep : Keep) {a b : HTree} {x y : Str} (hx : a.value = .text x) (hy : b.value = .text y)
    (ha : a.kids = []) (hb : b.kids = []) : HTree.text (join keep a b x y) = HTree.text a ++ HTree.text b := by
  rw [text_of_text_leaf hx ha, text_of_text_leaf hy hb]
  unfold join
  split
  · exact text_of_text_leaf (setValue_value _ a) (by rw [setValue_kids]; exact ha)
  · exact text_of_text_leaf (setValue_value _ b) (by rw [setValue_kids]; exact hb)

/-- Merging text runs: same character data, same non-text nodes, and the leaf property persists. -/
theorem mergeInto_text (keep : Keep) : ∀ (rest : List HTree) (cur : HTree),
    klList (cur :: rest) = true →
    textList (mergeInto keep cur rest) = HTree.text cur ++ textList rest ∧
    strValuesList (mergeInto keep cur rest) = strValues cur ++ strValuesList rest ∧
    klList (mergeInto keep cur rest) = true
  | [], cur => fun h => by
    rw [mergeInto_nil, textList_cons, textList_nil, strValuesList_cons, strValuesList_nil]
    exact ⟨rfl, rfl, h⟩
  | b :: rest, cur => by
    intro h
    obtain ⟨h1, h2⟩ := klList_iff.1 h
    have hrest : klList (b :: rest) = true := by
      rw [klList_cons, Bool.and_eq_true] at h; exact h.2
    by_cases hb : cur.value.isText = true ∧ b.value.isText = true
    · obtain ⟨x, hx⟩ := isText_iff_textData.1 hb.1
      obtain ⟨y, hy⟩ := isText_iff_textData.1 hb.2
      have ca := h1 cur List.mem_cons_self hb.1
      have ba := h1 b (by simp) hb.2
      rw [mergeInto_cons_text (textData_some hx) (textData_some hy)]
      have hjk : (join keep cur b x y).kids = [] := by
        unfold join; split <;> rw [setValue_kids] <;> assumption
      have hjt : (join keep cur b x y).value.isText = true := by rw [join_value]; rfl
      have hkl : klList (join keep cur b x y :: rest) = true := by
        rw [klList_cons, kl_of_leaf hjk]
        have : klList rest = true := by
          rw [klList_cons, Bool.and_eq_true] at hrest; exact hrest.2
        simp [hjk, this]
      obtain ⟨i1, i2, i3⟩ := mergeInto_text keep rest (join keep cur b x y) hkl
      refine ⟨?_, ?_, i3⟩
      · rw [i1, join_text keep (textData_some hx) (textData_some hy) ca ba, textList_cons]; simp
      · rw [i2, strValuesList_cons, strValues_of_text_leaf hjt hjk, strValues_of_text_leaf hb.1 ca,
          strValues_of_text_leaf hb.2 ba]; simp
    · obtain ⟨i1, i2, i3⟩ := mergeInto_text keep rest b hrest
      rw [mergeInto_cons_other hb, textList_cons, strValuesList_cons, i1, i2, textList_cons, strValuesList_cons]
      refine ⟨rfl, rfl, ?_⟩
      rw [klList_cons, i3]
      rw [klList_cons, Bool.and_eq_true] at h
      exact by simpa using h.1

theorem mergeRuns_text (keep : Keep) {L : List HTree} (h : klList L = true) :
    textList (mergeRuns keep L) = textList L ∧ strValuesList (mergeRuns keep L) = strValuesList L ∧
    klList (mergeRuns keep L) = true := by
  cases L with
  | nil => exact ⟨rfl, rfl, h⟩
  | cons a rest =>
    obtain ⟨i1, i2, i3⟩ := mergeInto_text keep rest a h
    exact ⟨by rw [textList_cons]; exact i1, by rw [strValuesList_cons]; exact i2, i3⟩

mutual
  /-- Merging at one site changes no string value. -/
  theorem text_editAt_merge (p : Nat) (keep : Keep) : ∀ t : HTree, kl t = true →
      HTree.text (HTree.editAt p (mergeRuns keep) t) = HTree.text t ∧
      strValues (HTree.editAt p (mergeRuns keep) t) = strValues t
    | .node h v ks => by
      intro hk
      rw [kl_node] at hk
      rw [editAt_node]
      by_cases hh : h = p
      · rw [if_pos hh]
        obtain ⟨i1, i2, _⟩ := mergeRuns_text keep hk
        rw [text_node, text_node, strValues_node, strValues_node, text_node, text_node, i1, i2]
        exact ⟨rfl, rfl⟩
      · rw [if_neg hh]
        obtain ⟨i1, i2⟩ := textList_editAt_merge p keep ks hk
        rw [text_node, text_node, strValues_node, strValues_node, text_node, text_node, i1, i2]
        exact ⟨rfl, rfl⟩
  theorem textList_editAt_merge (p : Nat) (keep : Keep) : ∀ ks : List HTree, klList ks = true →
      textList (ks.map (HTree.editAt p (mergeRuns keep))) = textList ks ∧
      strValuesList (ks.map (HTree.editAt p (mergeRuns keep))) = strValuesList ks
    | [] => fun _ => ⟨rfl, rfl⟩
    | k :: ks => by
      intro hl
      obtain ⟨_, h2⟩ := klList_iff.1 hl
      have hks : klList ks = true := by
        rw [klList_cons, Bool.and_eq_true] at hl; exact hl.2
      obtain ⟨i1, i2⟩ := text_editAt_merge p keep k (h2 k List.mem_cons_self)
      obtain ⟨j1, j2⟩ := textList_editAt_merge p keep ks hks
      rw [List.map_cons, textList_cons, textList_cons, strValuesList_cons, strValuesList_cons, i1, i2, j1, j2]
      exact ⟨rfl, rfl⟩
end

end XotModel

namespace XotModel
open HTree Spec

/-! ### No text node carries the handle of the edited site -/

mutual
  /-- No text node of the tree has handle `p`. -/
  def siteOk (p : Nat) : HTree → Bool
    | .node h v ks => (h != p || !v.isText) && siteOkList p ks
  def siteOkList (p : Nat) : List HTree → Bool
    | [] => true
    | k :: ks => siteOk p k && siteOkList p ks
end

theorem siteOk_node (p h : Nat) (v : Value) (ks : List HTree) :
    siteOk p (.node h v ks) = ((h != p || !v.isText) && siteOkList p ks) := by simp [siteOk]
theorem siteOkList_nil (p : Nat) : siteOkList p [] = true := by simp [siteOkList]
theorem siteOkList_cons (p : Nat) (k : HTree) (ks : List HTree) :
    siteOkList p (k :: ks) = (siteOk p k && siteOkList p ks) := by simp [siteOkList]

theorem siteOkList_iff {p : Nat} {L : List HTree} : siteOkList p L = true ↔ ∀ k ∈ L, siteOk p k = true := by
  induction L with
  | nil => simp [siteOkList_nil]
  | cons a L ih => rw [siteOkList_cons]; simp [ih]

theorem siteOk_top {p : Nat} {k : HTree} (h : siteOk p k = true) (ht : k.value.isText = true) : k.handle ≠ p := by
  cases k with
  | node kh kv ks =>
    simp only [HTree.value] at ht
    rw [siteOk_node, Bool.and_eq_true] at h
    intro e
    simp only [HTree.handle] at e
    have := h.1
    simp [e, ht] at this

mutual
  theorem siteOk_of_not_mem {p : Nat} : ∀ t : HTree, p ∉ handles t → siteOk p t = true
    | .node h v ks => by
      intro hn
      rw [handles_node] at hn
      simp only [List.mem_cons, not_or] at hn
      rw [siteOk_node, siteOkList_of_not_mem ks hn.2]
      have : (h != p) = true := by simpa using fun e => hn.1 e.symm
      simp [this]
  theorem siteOkList_of_not_mem {p : Nat} : ∀ ks : List HTree, p ∉ handlesList ks → siteOkList p ks = true
    | [] => fun _ => siteOkList_nil p
    | k :: ks => by
      intro hn
      rw [handlesList_cons] at hn
      simp only [List.mem_append, not_or] at hn
      rw [siteOkList_cons, siteOk_of_not_mem k hn.1, siteOkList_of_not_mem ks hn.2]
      rfl
end

mutual
  theorem siteOk_of_find {p : Nat} {u : HTree} (hu : u.value.isText = false) : ∀ t : HTree, (handles t).Nodup →
      find? p t = some u → siteOk p t = true
    | .node h v ks => by
      intro nd e
      obtain ⟨n1, n2⟩ := nodup_handles_node nd
      rw [find?_node] at e
      rw [siteOk_node]
      by_cases hh : h = p
      · rw [if_pos hh] at e
        have := Option.some.inj e
        subst this
        simp only [HTree.value] at hu
        rw [siteOkList_of_not_mem ks (hh ▸ n1)]
        simp [hu]
      · rw [if_neg hh] at e
        rw [siteOkList_of_find hu ks n2 e]
        have : (h != p) = true := by simpa using hh
        simp [this]
  theorem siteOkList_of_find {p : Nat} {u : HTree} (hu : u.value.isText = false) : ∀ ks : List HTree,
      (handlesList ks).Nodup → findList? p ks = some u → siteOkList p ks = true
    | [] => by intro _ e; rw [findList?_nil] at e; cases e
    | k :: ks => by
      intro nd e
      obtain ⟨n1, n2, n3⟩ := nodup_handlesList_cons nd
      rw [siteOkList_cons]
      cases hk : find? p k with
      | some w =>
        rw [findList?_cons_some hk] at e
        have := Option.some.inj e
        subst this
        rw [siteOk_of_find hu k n1 hk, siteOkList_of_not_mem ks (n3 p (mem_of_find?_some hk))]
        rfl
      | none =>
        rw [findList?_cons_none hk] at e
        have hpk : p ∉ handles k := by
          intro hm
          have := find?_isSome_of_mem k hm
          rw [hk] at this; cases this
        rw [siteOk_of_not_mem k hpk, siteOkList_of_find hu ks n2 e]
        rfl
end

mutual
  /-- The leaf property survives an edit of a non-text node's child list. -/
  theorem kl_editAt {p : Nat} {g : List HTree → List HTree} (hg : ∀ L, klList L = true → klList (g L) = true) :
      ∀ t : HTree, kl t = true → siteOk p t = true → kl (HTree.editAt p g t) = true
    | .node h v ks => by
      intro hk hs
      rw [kl_node] at hk
      rw [siteOk_node, Bool.and_eq_true] at hs
      rw [editAt_node]
      by_cases hh : h = p
      · rw [if_pos hh, kl_node]; exact hg ks hk
      · rw [if_neg hh, kl_node]; exact klList_editAt hg ks hk hs.2
  theorem klList_editAt {p : Nat} {g : List HTree → List HTree} (hg : ∀ L, klList L = true → klList (g L) = true) :
      ∀ ks : List HTree, klList ks = true → siteOkList p ks = true →
      klList (ks.map (HTree.editAt p g)) = true
    | [] => fun _ _ => klList_nil
    | k :: ks => by
      intro hk hs
      rw [klList_cons, Bool.and_eq_true, Bool.and_eq_true] at hk
      rw [siteOkList_cons, Bool.and_eq_true] at hs
      rw [List.map_cons, klList_cons, kl_editAt hg k hk.1.2 hs.1, klList_editAt hg ks hk.2 hs.2, editAt_value]
      simp only [Bool.and_true, Bool.or_eq_true, Bool.not_eq_true', List.isEmpty_iff]
      cases ht : k.value.isText with
      | false => exact Or.inl rfl
      | true =>
        right
        have hkp := siteOk_top hs.1 ht
        have hkl : k.kids = [] := by
          have := hk.1.1
          simpa [ht] using this
        cases k with
        | node kh kv kks =>
          simp only [HTree.kids] at hkl
          simp only [HTree.handle] at hkp
          subst hkl
          rw [editAt_node, if_neg hkp]
          rfl
end

mutual
  /-- `siteOk` survives an edit whose list function keeps it. -/
  theorem siteOk_editAt {p s : Nat} {g : List HTree → List HTree}
      (hg : ∀ L, siteOkList p L = true → siteOkList p (g L) = true) :
      ∀ t : HTree, siteOk p t = true → siteOk p (HTree.editAt s g t) = true
    | .node h v ks => by
      intro hs
      rw [siteOk_node, Bool.and_eq_true] at hs
      rw [editAt_node]
      by_cases hh : h = s
      · rw [if_pos hh, siteOk_node, hs.1, hg ks hs.2]; rfl
      · rw [if_neg hh, siteOk_node, hs.1, siteOkList_editAt hg ks hs.2]; rfl
  theorem siteOkList_editAt {p s : Nat} {g : List HTree → List HTree}
      (hg : ∀ L, siteOkList p L = true → siteOkList p (g L) = true) :
      ∀ ks : List HTree, siteOkList p ks = true → siteOkList p (ks.map (HTree.editAt s g)) = true
    | [] => fun _ => siteOkList_nil p
    | k :: ks => by
      intro hs
      rw [siteOkList_cons, Bool.and_eq_true] at hs
      rw [List.map_cons, siteOkList_cons, siteOk_editAt hg k hs.1, siteOkList_editAt hg ks hs.2]
      rfl
end

theorem siteOkList_dropTop (p n : Nat) {L : List HTree} (h : siteOkList p L = true) :
    siteOkList p (dropTop n L) = true := by
  rw [siteOkList_iff] at h ⊢
  intro k hk
  rw [dropTop_eq_filter] at hk
  exact h k (List.mem_filter.1 hk).1

theorem siteOkList_insert (p : Nat) (dest : Dest) {t : HTree} {L : List HTree} (h : siteOkList p L = true)
    (ht : siteOk p t = true) : siteOkList p (dest.insert t L) = true := by
  rw [siteOkList_iff] at h ⊢
  intro k hk
  cases mem_insert hk with
  | inl e => rw [e]; exact ht
  | inr e => exact h k e

end XotModel
