/-
  FspecString — merging adjacent text nodes does not change the string value of any node: the
  specification of a move with consolidation on gives every non-text node the same string
  value (and the same document order) as the plain, unmerged move.
-/
import XotModel.Lemmas.FspecSurvivor

namespace XotModel
open HTree Spec

theorem text_node (h : Nat) (v : Value) (ks : List HTree) :
    HTree.text (.node h v ks) = v.textStr ++ textList ks := by
  simp [HTree.text]

theorem textList_nil : textList [] = [] := by simp [textList]
theorem textList_cons (k : HTree) (ks : List HTree) : textList (k :: ks) = HTree.text k ++ textList ks := by
  simp [textList]

theorem strValues_node (h : Nat) (v : Value) (ks : List HTree) :
    strValues (.node h v ks) = (if v.isText then [] else [(h, HTree.text (.node h v ks))]) ++ strValuesList ks := by
  simp [strValues]
theorem strValuesList_nil : strValuesList [] = [] := by simp [strValuesList]
theorem strValuesList_cons (k : HTree) (ks : List HTree) :
    strValuesList (k :: ks) = strValues k ++ strValuesList ks := by simp [strValuesList]

/-! ### "Every text child is a leaf", at every depth -/

/-- The text nodes among these children are leaves. -/
def TopLeaf (L : List HTree) : Prop := ∀ k ∈ L, k.value.isText = true → k.kids = []

mutual
  def kl : HTree → Bool
    | .node _ _ ks => klList ks
  /-- all text nodes among these trees' descendants-or-selves-as-children are leaves -/
  def klList : List HTree → Bool
    | [] => true
    | k :: ks => (!k.value.isText || k.kids.isEmpty) && kl k && klList ks
end

theorem kl_node (h : Nat) (v : Value) (ks : List HTree) : kl (.node h v ks) = klList ks := by simp [kl]
theorem klList_nil : klList [] = true := by simp [klList]
theorem klList_cons (k : HTree) (ks : List HTree) :
    klList (k :: ks) = ((!k.value.isText || k.kids.isEmpty) && kl k && klList ks) := by simp [klList]

theorem klList_iff {L : List HTree} :
    klList L = true ↔ TopLeaf L ∧ ∀ k ∈ L, kl k = true := by
  induction L with
  | nil => simp [klList_nil, TopLeaf]
  | cons a L ih =>
    rw [klList_cons]
    simp only [Bool.and_eq_true, Bool.or_eq_true, Bool.not_eq_true', List.isEmpty_iff, ih, TopLeaf,
      List.mem_cons, forall_eq_or_imp]
    constructor
    · intro ⟨⟨h1, h2⟩, h3, h4⟩
      refine ⟨⟨?_, h3⟩, h2, h4⟩
      intro ht
      cases h1 with
      | inl h => rw [ht] at h; cases h
      | inr h => exact h
    · intro ⟨⟨h1, h3⟩, h2, h4⟩
      refine ⟨⟨?_, h2⟩, h3, h4⟩
      cases ht : a.value.isText with
      | false => exact Or.inl rfl
      | true => exact Or.inr (h1 ht)

mutual
  theorem kl_of_valid {b : Bool} : ∀ t : HTree, validTree b t = true → kl t = true
    | .node h v ks => by
      intro hv
      rw [kl_node]
      exact klList_of_valid ks (validTree_node hv).2.2.2
  theorem klList_of_valid {b : Bool} : ∀ ks : List HTree, validList b ks = true → klList ks = true
    | [] => fun _ => klList_nil
    | k :: ks => by
      intro hv
      rw [fs_validList_cons, Bool.and_eq_true] at hv
      rw [klList_cons, kl_of_valid k hv.1, klList_of_valid ks hv.2]
      simp only [Bool.and_true, Bool.or_eq_true, Bool.not_eq_true', List.isEmpty_iff]
      cases ht : k.value.isText with
      | false => exact Or.inl rfl
      | true =>
        right
        cases k with
        | node kh kv kks =>
          simp only [HTree.value] at ht
          simp only [HTree.kids]
          apply kids_nil_of_valid hv.1
          · cases kv <;> simp_all [Value.isText, Value.isElement]
          · cases kv <;> simp_all [Value.isText, Value.isDocument]
end

mutual
  theorem kl_find {x : Nat} : ∀ (t u : HTree), kl t = true → find? x t = some u → kl u = true
    | .node h v ks, u => by
      intro hk e
      rw [find?_node] at e
      by_cases hh : h = x
      · rw [if_pos hh] at e
        have := Option.some.inj e
        subst this
        exact hk
      · rw [if_neg hh] at e
        rw [kl_node] at hk
        exact klList_find ks u hk e
  theorem klList_find {x : Nat} : ∀ (ks : List HTree) (u : HTree), klList ks = true →
      findList? x ks = some u → kl u = true
    | [], u => by intro _ e; rw [findList?_nil] at e; cases e
    | k :: ks, u => by
      intro hk e
      obtain ⟨_, h2⟩ := klList_iff.1 hk
      cases hf : find? x k with
      | some w =>
        rw [findList?_cons_some hf] at e
        have := Option.some.inj e
        subst this
        exact kl_find k w (h2 k List.mem_cons_self) hf
      | none =>
        rw [findList?_cons_none hf] at e
        rw [klList_cons, Bool.and_eq_true] at hk
        exact klList_find ks u hk.2 e
end

/-! ### The list functions of the specification keep the property -/

theorem klList_dropTop (n : Nat) {L : List HTree} (h : klList L = true) : klList (dropTop n L) = true := by
  obtain ⟨h1, h2⟩ := klList_iff.1 h
  have hsub : ∀ k ∈ dropTop n L, k ∈ L := by
    intro k hk
    rw [dropTop_eq_filter] at hk
    exact (List.mem_filter.1 hk).1
  exact klList_iff.2 ⟨fun k hk => h1 k (hsub k hk), fun k hk => h2 k (hsub k hk)⟩

theorem klList_insert (dest : Dest) {t : HTree} {L : List HTree} (h : klList L = true) (ht : kl t = true)
    (htl : t.value.isText = true → t.kids = []) : klList (dest.insert t L) = true := by
  obtain ⟨h1, h2⟩ := klList_iff.1 h
  apply klList_iff.2
  constructor
  · intro k hk hkt
    cases mem_insert hk with
    | inl e => rw [e] at hkt ⊢; exact htl hkt
    | inr e => exact h1 k e hkt
  · intro k hk
    cases mem_insert hk with
    | inl e => rw [e]; exact ht
    | inr e => exact h2 k e

theorem text_of_text_leaf {k : HTree} {s : Str} (hv : k.value = .text s) (hk : k.kids = []) : HTree.text k = s := by
  cases k with
  | node h v ks =>
    simp only [HTree.value] at hv
    simp only [HTree.kids] at hk
    subst hv hk
    simp [text_node, textList_nil, Value.textStr]

theorem strValues_of_text_leaf {k : HTree} (hv : k.value.isText = true) (hk : k.kids = []) : strValues k = [] := by
  cases k with
  | node h v ks =>
    simp only [HTree.value] at hv
    simp only [HTree.kids] at hk
    subst hk
    simp [strValues_node, hv, strValuesList_nil]

theorem kl_of_leaf {k : HTree} (hk : k.kids = []) : kl k = true := by
  cases k with
  | node h v ks =>
    simp only [HTree.kids] at hk
    subst hk
    rw [kl_node, klList_nil]

theorem join_text (keep : Keep) {a b : HTree} {x y : Str} (hx : a.value = .text x) (hy : b.value = .text y)
    (ha : a.kids = []) (hb : b.kids = []) : HTree.text (join keep a b x y) = HTree.text a ++ HTree.text b := by
  rw [text_of_text_leaf hx ha, text_of_text_leaf hy hb]
  unfold join
  split
  · exact text_of_text_leaf (setValue_value _ a) (by rw [setValue_kids]; exact ha)
  · exact text_of_text_leaf (setValue_value _ b) (by rw [setValue_kids]; exact hb)

/-- Merging text runs: same character data, same non-text nodes, and the leaf property persists. -/
theorem mergeInto_text (keep : Keep) : ∀ (rest : List HTree) (cur : HTree),
    klList (cur :: rest) = true →
    textList (mergeInto keep cur rest) = HTree.text cur ++ textList rest ∧
    strValuesList (mergeInto keep cur rest) = strValues cur ++ strValuesList rest ∧
    klList (mergeInto keep cur rest) = true
  | [], cur => fun h => by
    rw [mergeInto_nil, textList_cons, textList_nil, strValuesList_cons, strValuesList_nil]
    exact ⟨rfl, rfl, h⟩
  | b :: rest, cur => by
    intro h
    obtain ⟨h1, h2⟩ := klList_iff.1 h
    have hrest : klList (b :: rest) = true := by
      rw [klList_cons, Bool.and_eq_true] at h; exact h.2
    by_cases hb : cur.value.isText = true ∧ b.value.isText = true
    · obtain ⟨x, hx⟩ := isText_iff_textData.1 hb.1
      obtain ⟨y, hy⟩ := isText_iff_textData.1 hb.2
      have ca := h1 cur List.mem_cons_self hb.1
      have ba := h1 b (by simp) hb.2
      rw [mergeInto_cons_text (textData_some hx) (textData_some hy)]
      have hjk : (join keep cur b x y).kids = [] := by
        unfold join; split <;> rw [setValue_kids] <;> assumption
      have hjt : (join keep cur b x y).value.isText = true := by rw [join_value]; rfl
      have hkl : klList (join keep cur b x y :: rest) = true := by
        rw [klList_cons, kl_of_leaf hjk]
        have : klList rest = true := by
          rw [klList_cons, Bool.and_eq_true] at hrest; exact hrest.2
        simp [hjk, this]
      obtain ⟨i1, i2, i3⟩ := mergeInto_text keep rest (join keep cur b x y) hkl
      refine ⟨?_, ?_, i3⟩
      · rw [i1, join_text keep (textData_some hx) (textData_some hy) ca ba, textList_cons]; simp
      · rw [i2, strValuesList_cons, strValues_of_text_leaf hjt hjk, strValues_of_text_leaf hb.1 ca,
          strValues_of_text_leaf hb.2 ba]; simp
    · obtain ⟨i1, i2, i3⟩ := mergeInto_text keep rest b hrest
      rw [mergeInto_cons_other hb, textList_cons, strValuesList_cons, i1, i2, textList_cons, strValuesList_cons]
      refine ⟨rfl, rfl, ?_⟩
      rw [klList_cons, i3]
      rw [klList_cons, Bool.and_eq_true] at h
      exact by simpa using h.1

theorem mergeRuns_text (keep : Keep) {L : List HTree} (h : klList L = true) :
    textList (mergeRuns keep L) = textList L ∧ strValuesList (mergeRuns keep L) = strValuesList L ∧
    klList (mergeRuns keep L) = true := by
  cases L with
  | nil => exact ⟨rfl, rfl, h⟩
  | cons a rest =>
    obtain ⟨i1, i2, i3⟩ := mergeInto_text keep rest a h
    exact ⟨by rw [textList_cons]; exact i1, by rw [strValuesList_cons]; exact i2, i3⟩

mutual
  /-- Merging at one site changes no string value. -/
  theorem text_editAt_merge (p : Nat) (keep : Keep) : ∀ t : HTree, kl t = true →
      HTree.text (HTree.editAt p (mergeRuns keep) t) = HTree.text t ∧
      strValues (HTree.editAt p (mergeRuns keep) t) = strValues t
    | .node h v ks => by
      intro hk
      rw [kl_node] at hk
      rw [editAt_node]
      by_cases hh : h = p
      · rw [if_pos hh]
        obtain ⟨i1, i2, _⟩ := mergeRuns_text keep hk
        rw [text_node, text_node, strValues_node, strValues_node, text_node, text_node, i1, i2]
        exact ⟨rfl, rfl⟩
      · rw [if_neg hh]
        obtain ⟨i1, i2⟩ := textList_editAt_merge p keep ks hk
        rw [text_node, text_node, strValues_node, strValues_node, text_node, text_node, i1, i2]
        exact ⟨rfl, rfl⟩
  theorem textList_editAt_merge (p : Nat) (keep : Keep) : ∀ ks : List HTree, klList ks = true →
      textList (ks.map (HTree.editAt p (mergeRuns keep))) = textList ks ∧
      strValuesList (ks.map (HTree.editAt p (mergeRuns keep))) = strValuesList ks
    | [] => fun _ => ⟨rfl, rfl⟩
    | k :: ks => by
      intro hl
      obtain ⟨_, h2⟩ := klList_iff.1 hl
      have hks : klList ks = true := by
        rw [klList_cons, Bool.and_eq_true] at hl; exact hl.2
      obtain ⟨i1, i2⟩ := text_editAt_merge p keep k (h2 k List.mem_cons_self)
      obtain ⟨j1, j2⟩ := textList_editAt_merge p keep ks hks
      rw [List.map_cons, textList_cons, textList_cons, strValuesList_cons, strValuesList_cons, i1, i2, j1, j2]
      exact ⟨rfl, rfl⟩
end

end XotModel

namespace XotModel
open HTree Spec

/-! ### No text node carries the handle of the edited site -/

mutual
  /-- No text node of the tree has handle `p`. -/
  def siteOk (p : Nat) : HTree → Bool
    | .node h v ks => (h != p || !v.isText) && siteOkList p ks
  def siteOkList (p : Nat) : List HTree → Bool
    | [] => true
    | k :: ks => siteOk p k && siteOkList p ks
end

theorem siteOk_node (p h : Nat) (v : Value) (ks : List HTree) :
    siteOk p (.node h v ks) = ((h != p || !v.isText) && siteOkList p ks) := by simp [siteOk]
theorem siteOkList_nil (p : Nat) : siteOkList p [] = true := by simp [siteOkList]
theorem siteOkList_cons (p : Nat) (k : HTree) (ks : List HTree) :
    siteOkList p (k :: ks) = (siteOk p k && siteOkList p ks) := by simp [siteOkList]

theorem siteOkList_iff {p : Nat} {L : List HTree} : siteOkList p L = true ↔ ∀ k ∈ L, siteOk p k = true := by
  induction L with
  | nil => simp [siteOkList_nil]
  | cons a L ih => rw [siteOkList_cons]; simp [ih]

theorem siteOk_top {p : Nat} {k : HTree} (h : siteOk p k = true) (ht : k.value.isText = true) : k.handle ≠ p := by
  cases k with
  | node kh kv ks =>
    simp only [HTree.value] at ht
    rw [siteOk_node, Bool.and_eq_true] at h
    intro e
    simp only [HTree.handle] at e
    have := h.1
    simp [e, ht] at this

mutual
  theorem siteOk_of_not_mem {p : Nat} : ∀ t : HTree, p ∉ handles t → siteOk p t = true
    | .node h v ks => by
      intro hn
      rw [handles_node] at hn
      simp only [List.mem_cons, not_or] at hn
      rw [siteOk_node, siteOkList_of_not_mem ks hn.2]
      have : (h != p) = true := by simpa using fun e => hn.1 e.symm
      simp [this]
  theorem siteOkList_of_not_mem {p : Nat} : ∀ ks : List HTree, p ∉ handlesList ks → siteOkList p ks = true
    | [] => fun _ => siteOkList_nil p
    | k :: ks => by
      intro hn
      rw [handlesList_cons] at hn
      simp only [List.mem_append, not_or] at hn
      rw [siteOkList_cons, siteOk_of_not_mem k hn.1, siteOkList_of_not_mem ks hn.2]
      rfl
end

mutual
  theorem siteOk_of_find {p : Nat} {u : HTree} (hu : u.value.isText = false) : ∀ t : HTree, (handles t).Nodup →
      find? p t = some u → siteOk p t = true
    | .node h v ks => by
      intro nd e
      obtain ⟨n1, n2⟩ := nodup_handles_node nd
      rw [find?_node] at e
      rw [siteOk_node]
      by_cases hh : h = p
      · rw [if_pos hh] at e
        have := Option.some.inj e
        subst this
        simp only [HTree.value] at hu
        rw [siteOkList_of_not_mem ks (hh ▸ n1)]
        simp [hu]
      · rw [if_neg hh] at e
        rw [siteOkList_of_find hu ks n2 e]
        have : (h != p) = true := by simpa using hh
        simp [this]
  theorem siteOkList_of_find {p : Nat} {u : HTree} (hu : u.value.isText = false) : ∀ ks : List HTree,
      (handlesList ks).Nodup → findList? p ks = some u → siteOkList p ks = true
    | [] => by intro _ e; rw [findList?_nil] at e; cases e
    | k :: ks => by
      intro nd e
      obtain ⟨n1, n2, n3⟩ := nodup_handlesList_cons nd
      rw [siteOkList_cons]
      cases hk : find? p k with
      | some w =>
        rw [findList?_cons_some hk] at e
        have := Option.some.inj e
        subst this
        rw [siteOk_of_find hu k n1 hk, siteOkList_of_not_mem ks (n3 p (mem_of_find?_some hk))]
        rfl
      | none =>
        rw [findList?_cons_none hk] at e
        have hpk : p ∉ handles k := by
          intro hm
          have := find?_isSome_of_mem k hm
          rw [hk] at this; cases this
        rw [siteOk_of_not_mem k hpk, siteOkList_of_find hu ks n2 e]
        rfl
end

mutual
  /-- The leaf property survives an edit of a non-text node's child list. -/
  theorem kl_editAt {p : Nat} {g : List HTree → List HTree} (hg : ∀ L, klList L = true → klList (g L) = true) :
      ∀ t : HTree, kl t = true → siteOk p t = true → kl (HTree.editAt p g t) = true
    | .node h v ks => by
      intro hk hs
      rw [kl_node] at hk
      rw [siteOk_node, Bool.and_eq_true] at hs
      rw [editAt_node]
      by_cases hh : h = p
      · rw [if_pos hh, kl_node]; exact hg ks hk
      · rw [if_neg hh, kl_node]; exact klList_editAt hg ks hk hs.2
  theorem klList_editAt {p : Nat} {g : List HTree → List HTree} (hg : ∀ L, klList L = true → klList (g L) = true) :
      ∀ ks : List HTree, klList ks = true → siteOkList p ks = true →
      klList (ks.map (HTree.editAt p g)) = true
    | [] => fun _ _ => klList_nil
    | k :: ks => by
      intro hk hs
      rw [klList_cons, Bool.and_eq_true, Bool.and_eq_true] at hk
      rw [siteOkList_cons, Bool.and_eq_true] at hs
      rw [List.map_cons, klList_cons, kl_editAt hg k hk.1.2 hs.1, klList_editAt hg ks hk.2 hs.2, editAt_value]
      simp only [Bool.and_true, Bool.or_eq_true, Bool.not_eq_true', List.isEmpty_iff]
      cases ht : k.value.isText with
      | false => exact Or.inl rfl
      | true =>
        right
        have hkp := siteOk_top hs.1 ht
        have hkl : k.kids = [] := by
          have := hk.1.1
          simpa [ht] using this
        cases k with
        | node kh kv kks =>
          simp only [HTree.kids] at hkl
          simp only [HTree.handle] at hkp
          subst hkl
          rw [editAt_node, if_neg hkp]
          rfl
end

mutual
  /-- `siteOk` survives an edit whose list function keeps it. -/
  theorem siteOk_editAt {p s : Nat} {g : List HTree → List HTree}
      (hg : ∀ L, siteOkList p L = true → siteOkList p (g L) = true) :
      ∀ t : HTree, siteOk p t = true → siteOk p (HTree.editAt s g t) = true
    | .node h v ks => by
      intro hs
      rw [siteOk_node, Bool.and_eq_true] at hs
      rw [editAt_node]
      by_cases hh : h = s
      · rw [if_pos hh, siteOk_node, hs.1, hg ks hs.2]; rfl
      · rw [if_neg hh, siteOk_node, hs.1, siteOkList_editAt hg ks hs.2]; rfl
  theorem siteOkList_editAt {p s : Nat} {g : List HTree → List HTree}
      (hg : ∀ L, siteOkList p L = true → siteOkList p (g L) = true) :
      ∀ ks : List HTree, siteOkList p ks = true → siteOkList p (ks.map (HTree.editAt s g)) = true
    | [] => fun _ => siteOkList_nil p
    | k :: ks => by
      intro hs
      rw [siteOkList_cons, Bool.and_eq_true] at hs
      rw [List.map_cons, siteOkList_cons, siteOk_editAt hg k hs.1, siteOkList_editAt hg ks hs.2]
      rfl
end

theorem siteOkList_dropTop (p n : Nat) {L : List HTree} (h : siteOkList p L = true) :
    siteOkList p (dropTop n L) = true := by
  rw [siteOkList_iff] at h ⊢
  intro k hk
  rw [dropTop_eq_filter] at hk
  exact h k (List.mem_filter.1 hk).1

theorem siteOkList_insert (p : Nat) (dest : Dest) {t : HTree} {L : List HTree} (h : siteOkList p L = true)
    (ht : siteOk p t = true) : siteOkList p (dest.insert t L) = true := by
  rw [siteOkList_iff] at h ⊢
  intro k hk
  cases mem_insert hk with
  | inl e => rw [e]; exact ht
  | inr e => exact h k e

end XotModel

namespace XotModel
open HTree Spec

theorem strValues_editAt_merge {X : Forest} (p : Nat) (keep : Keep) (h : klList X.roots = true) :
    (X.editAt (some p) (mergeRuns keep)).strValues = X.strValues :=
  (textList_editAt_merge p keep X.roots h).2

theorem klList_mergeRuns (keep : Keep) : ∀ L, klList L = true → klList (mergeRuns keep L) = true :=
  fun _ h => (mergeRuns_text keep h).2.2

/-- Merging at a site (if consolidation is on) changes no string value. -/
theorem strValues_mergeAt {X : Forest} (keep : Keep) (s : Option Nat) (h : klList X.roots = true) :
    (X.mergeAt keep s).strValues = X.strValues := by
  cases s with
  | none => rfl
  | some p =>
    rw [mergeAt_some]
    split
    · exact strValues_editAt_merge p keep h
    · rfl

theorem klList_mergeAt {X : Forest} (keep : Keep) (s : Option Nat) (h : klList X.roots = true)
    (hs : ∀ p, s = some p → siteOkList p X.roots = true) : klList (X.mergeAt keep s).roots = true := by
  cases s with
  | none => exact h
  | some p =>
    rw [mergeAt_some]
    split
    · exact klList_editAt (klList_mergeRuns keep) X.roots h (hs p rfl)
    · exact h

/-- A live node that has a child is not a text node. -/
theorem site_not_text {f : Forest} {p : Nat} {v : Value} {L : List HTree} (inv : f.Inv) (s : SiteAt f p v L)
    (hne : L ≠ []) : v.isText = false := by
  cases hv : v.isText with
  | false => rfl
  | true =>
    exfalso
    have := leaf_of_text inv.valid s.kids (by simpa [HTree.value] using hv)
    simp only [HTree.kids] at this
    exact hne this

/-- **String values**: the specification of a move with consolidation on assigns to every
    non-text node the string value the unmerged move assigns (same nodes, same document order). -/
theorem specMove_strValues {f : Forest} {keep : Keep} {dest : Dest} {c : Nat} {t : HTree} {q : Nat} {vq : Value}
    {Lq : List HTree} (inv : f.Inv) (hgc : f.get? c = some t) (sq : SiteAt f q vq Lq) (hqt : q ∉ handles t)
    (hvq : vq.isText = false) (hsite : dest.site f = some q) :
    (specMove keep dest c f).strValues =
      (specMove keep dest c { f with consolidation := false }).strValues := by
  have nd := inv.nodup
  let f0 : Forest := { f with consolidation := false }
  have hocc0 : dest.occupiedBy f0 c = dest.occupiedBy f c := by cases dest <;> rfl
  have hsite0 : dest.site f0 = dest.site f := by cases dest <;> rfl
  cases hocc : dest.occupiedBy f c with
  | true =>
    have h1 : specMove keep dest c f = f := by unfold specMove; rw [hocc]; rfl
    have h2 : specMove keep dest c f0 = f0 := by unfold specMove; rw [hocc0, hocc]; rfl
    rw [h1, h2]; rfl
  | false =>
    rw [specMove_unfold hocc hgc hsite]
    have hgc0 : f0.get? c = some t := hgc
    rw [specMove_unfold (f := f0) (by rw [hocc0]; exact hocc) hgc0 (by rw [hsite0]; exact hsite)]
    have hc0 : ∀ (Z : Forest), Z.consolidation = false → ∀ s, Z.mergeAt keep s = Z := fun Z h s => mergeAt_off h keep s
    have hpar0 : f0.parent? c = f.parent? c := rfl
    rw [hpar0]
    have e0 : (((f0.editAt (f.parent? c) (dropTop c)).editAt (some q) (dest.insert t)).mergeAt keep (f.parent? c)).mergeAt
        keep (some q) = (f0.editAt (f.parent? c) (dropTop c)).editAt (some q) (dest.insert t) := by
      have hX0 : ((f0.editAt (f.parent? c) (dropTop c)).editAt (some q) (dest.insert t)).consolidation = false := by
        rw [Forest.editAt_consolidation, Forest.editAt_consolidation]
      rw [hc0 _ hX0, hc0 _ hX0]
    rw [e0]
    -- the unmerged move, in `f` and in `f0`, has the same trees
    have eroots : ((f0.editAt (f.parent? c) (dropTop c)).editAt (some q) (dest.insert t)).strValues =
        ((f.editAt (f.parent? c) (dropTop c)).editAt (some q) (dest.insert t)).strValues := by
      cases f.parent? c <;> rfl
    rw [eroots]
    -- leaf property and site conditions
    have hklf : klList f.roots = true := klList_of_valid f.roots inv.valid
    have hklt : kl t = true := klList_find f.roots t hklf hgc
    have htl : t.value.isText = true → t.kids = [] := leaf_of_text inv.valid hgc
    have hsq : siteOkList q f.roots = true := siteOkList_of_find (by simpa [HTree.value] using hvq) f.roots nd sq.kids
    have hsqt : siteOk q t = true := siteOk_of_not_mem t hqt
    -- after the cut
    have hklZ : klList (f.editAt (f.parent? c) (dropTop c)).roots = true ∧
        siteOkList q (f.editAt (f.parent? c) (dropTop c)).roots = true ∧
        (∀ po, f.parent? c = some po → siteOkList po (f.editAt (f.parent? c) (dropTop c)).roots = true ∧
          siteOk po t = true) := by
      cases hpar : f.parent? c with
      | none =>
        refine ⟨klList_dropTop c hklf, siteOkList_dropTop q c hsq, fun po h => by cases h⟩
      | some po =>
        have hctx : ∃ cx, f.ctx? c = some cx := by
          cases h : f.ctx? c with
          | none => rw [Forest.parent?_of_no_ctx h] at hpar; cases hpar
          | some cx => exact ⟨cx, rfl⟩
        obtain ⟨cx, hctx⟩ := hctx
        obtain ⟨e0', vo, so⟩ := SiteAt.of_ctx nd hctx
        have hpo : cx.parent = po := by
          rw [Forest.parent?_of_ctx hctx] at hpar
          exact Option.some.inj hpar
        rw [hpo] at so
        have hvo : vo.isText = false := site_not_text inv so (by simp)
        have hspo : siteOkList po f.roots = true :=
          siteOkList_of_find (by simpa [HTree.value] using hvo) f.roots nd so.kids
        have hpot : po ∉ handles t := by
          intro hin
          have hself : cx.self = t := by
            have := Forest.get?_of_ctx nd hctx
            rw [hgc] at this
            exact (Option.some.inj this).symm
          apply so.nodupKids.2
          rw [fs_handlesList_append, handlesList_cons, hself]
          exact List.mem_append_right _ (List.mem_append_left _ hin)
        refine ⟨klList_editAt (fun L h => klList_dropTop c h) f.roots hklf hspo,
          siteOkList_editAt (fun L h => siteOkList_dropTop q c h) f.roots hsq, ?_⟩
        intro po' h
        have := Option.some.inj h
        subst this
        exact ⟨siteOkList_editAt (fun L h => siteOkList_dropTop _ c h) f.roots hspo, siteOk_of_not_mem t hpot⟩
    obtain ⟨hklZ, hsqZ, hpoZ⟩ := hklZ
    -- after the graft
    have hklX : klList ((f.editAt (f.parent? c) (dropTop c)).editAt (some q) (dest.insert t)).roots = true :=
      klList_editAt (fun L h => klList_insert dest h hklt htl) _ hklZ hsqZ
    have hspoX : ∀ po, f.parent? c = some po →
        siteOkList po ((f.editAt (f.parent? c) (dropTop c)).editAt (some q) (dest.insert t)).roots = true := by
      intro po h
      obtain ⟨h1, h2⟩ := hpoZ po h
      exact siteOkList_editAt (fun L hL => siteOkList_insert po dest hL h2) _ h1
    -- the two merges change no string value
    rw [strValues_mergeAt keep (some q) (klList_mergeAt keep _ hklX hspoX), strValues_mergeAt keep _ hklX]

end XotModel

namespace XotModel
open HTree Spec

/-- With consolidation off the survivor rule plays no role. -/
theorem specMove_off_keep (k1 k2 : Keep) (dest : Dest) (c : Nat) {f : Forest} (h : f.consolidation = false) :
    specMove k1 dest c f = specMove k2 dest c f := by
  unfold specMove
  split
  · rfl
  · split
    · rename_i t q _ _
      simp only
      have hX : ((f.editAt (f.parent? c) (dropTop c)).editAt (some q) (dest.insert t)).consolidation = false := by
        rw [Forest.editAt_consolidation, Forest.editAt_consolidation]; exact h
      rw [mergeAt_off hX, mergeAt_off hX, mergeAt_off hX, mergeAt_off hX]
    · rfl

/-- The unmerged move. -/
def plainMove (dest : Dest) (c : Nat) (f : Forest) : Forest :=
  specMove Keep.earlier dest c { f with consolidation := false }

theorem append_strValues {f : Forest} {p c : Nat} (inv : f.Inv) (norm : f.Normal)
    (hok : (f.append p c).2 = .ok) :
    (f.append p c).1.strValues = (plainMove (.lastChildOf p) c f).strValues := by
  rw [append_spec (Keep.earlier_spec c) inv norm hok]
  have nd := inv.nodup
  have hsc : f.structureCheck (some p) c = true := by
    cases h : f.structureCheck (some p) c with
    | true => rfl
    | false => rw [Forest.append_unfold] at hok; simp [h] at hok
  obtain ⟨vp, Lp, t, hgp, hgc, hpt, hnorm, hndoc, hvp⟩ := Forest.structureCheck_unpack nd hsc
  have hvq : vp.isText = false := by
    cases hvp with
    | inl h => cases vp <;> simp_all [Value.isElement, Value.isText]
    | inr h => cases vp <;> simp_all [Value.isDocument, Value.isText]
  exact specMove_strValues inv hgc ⟨nd, hgp⟩ hpt hvq (by simp [Dest.site, Forest.isLive_of_get hgp])

theorem prepend_strValues {f : Forest} {p c : Nat} (inv : f.Inv) (norm : f.Normal)
    (hok : (f.prepend p c).2 = .ok) :
    (f.prepend p c).1.strValues = (plainMove (.firstNormalChildOf p) c f).strValues := by
  rw [prepend_spec inv norm hok]
  have nd := inv.nodup
  have hsc : f.structureCheck (some p) c = true := by
    cases h : f.structureCheck (some p) c with
    | true => rfl
    | false => rw [prepend_unfold] at hok; simp [h] at hok
  obtain ⟨vp, Lp, t, hgp, hgc, hpt, hnorm, hndoc, hvp⟩ := Forest.structureCheck_unpack nd hsc
  have hvq : vp.isText = false := by
    cases hvp with
    | inl h => cases vp <;> simp_all [Value.isElement, Value.isText]
    | inr h => cases vp <;> simp_all [Value.isDocument, Value.isText]
  rw [specMove_strValues inv hgc ⟨nd, hgp⟩ hpt hvq (by simp [Dest.site, Forest.isLive_of_get hgp])]
  unfold plainMove
  rw [specMove_off_keep (Keep.resident c) Keep.earlier _ _ rfl]

theorem insertAfter_strValues {f : Forest} {r c : Nat} (inv : f.Inv) (norm : f.Normal)
    (hok : (f.insertAfter r c).2 = .ok) :
    (f.insertAfter r c).1.strValues = (plainMove (.after r) c f).strValues := by
  rw [insertAfter_spec inv norm hok]
  have nd := inv.nodup
  have hsc : f.structureCheck (f.parent? r) c = true := by
    cases h : f.structureCheck (f.parent? r) c with
    | true => rfl
    | false => rw [insertAfter_unfold] at hok; simp [h] at hok
  have hsr : f.siblingReferenceCheck r c = true := by
    cases h : f.siblingReferenceCheck r c with
    | true => rfl
    | false => rw [insertAfter_unfold] at hok; simp [hsc, h] at hok
  obtain ⟨q, vq, A, kr, B, t, sq, ekr, hkrn, hrc, hgc, hqt, hnorm, hndoc, hvq⟩ := sibling_checks_unpack nd hsc hsr
  subst ekr
  rw [specMove_strValues inv hgc sq hqt hvq (by simp only [Dest.site]; exact Forest.parent?_of_ctx sq.ctx)]
  unfold plainMove
  rw [specMove_off_keep (Keep.resident c) Keep.earlier _ _ rfl]

theorem insertBefore_strValues {f : Forest} {r c : Nat} (inv : f.Inv) (norm : f.Normal)
    (hok : (f.insertBefore r c).2 = .ok) :
    (f.insertBefore r c).1.strValues = (plainMove (.before r) c f).strValues := by
  rw [insertBefore_spec inv norm hok]
  have nd := inv.nodup
  have hsc : f.structureCheck (f.parent? r) c = true := by
    cases h : f.structureCheck (f.parent? r) c with
    | true => rfl
    | false => rw [insertBefore_unfold] at hok; simp [h] at hok
  have hsr : f.siblingReferenceCheck r c = true := by
    cases h : f.siblingReferenceCheck r c with
    | true => rfl
    | false => rw [insertBefore_unfold] at hok; simp [hsc, h] at hok
  obtain ⟨q, vq, A, kr, B, t, sq, ekr, hkrn, hrc, hgc, hqt, hnorm, hndoc, hvq⟩ := sibling_checks_unpack nd hsc hsr
  subst ekr
  rw [specMove_strValues inv hgc sq hqt hvq (by simp only [Dest.site]; exact Forest.parent?_of_ctx sq.ctx)]
  unfold plainMove
  rw [specMove_off_keep (Keep.resident c) Keep.earlier _ _ rfl]

end XotModel
