/-
  C08 and parsing, part 2: what the ids returned by a sequence of calls mean, on the plain tables.

  * `Env.Holds e r id`: in `e`, the id `id` of the table `r` goes to stands for the value `r`
    registers.  Every call returns an id that holds in the table it leaves (`Env.reg_holds`), ids
    keep holding as tables grow (`Env.Holds.mono`), so every id of a sequence holds in the tables
    reached (`Env.regAll_holds`).
  * With duplicate-free tables an id holds for one value and a value has one id: two calls of a
    sequence return the same id exactly when they registered the same value (`Env.regAll_ids_iff`).
  * `Env.RegsInRange`: every name registration names a namespace id the table already has; then
    `Env.DupFree` (duplicate-free + every name's namespace id in range) is kept.
-/
import XotModel.Lemmas.IdMapParse

namespace XotModel
open IdParse

/-- `id` is an id of the table `r` goes to, and stands for the value `r` registers. -/
def Env.Holds (e : Env) : Reg → Nat → Prop
  | .pfx p, id => e.prefixes[id]? = some p
  | .ns u, id => e.namespaces[id]? = some u
  | .name l n, id => e.names[id]? = some (l, n)

theorem Env.Holds.mono {e e' : Env} (h : e.PrefixOf e') {r : Reg} {id : Nat} (hh : e.Holds r id) :
    e'.Holds r id := by
  cases r with
  | pfx p => exact prefix_get h.prefixes hh
  | ns u => exact prefix_get h.namespaces hh
  | name l n => exact prefix_get h.names hh

theorem Env.reg_holds (e : Env) (r : Reg) : (e.reg r).1.Holds r (e.reg r).2 := by
  cases r with
  | pfx p => exact internIn_get e.prefixes p
  | ns u => exact internIn_get e.namespaces u
  | name l n => exact internIn_get e.names (l, n)

/-- Every id returned along a sequence of calls stands, in the tables reached, for the value that
    call registered. -/
theorem Env.regAll_holds (rs : List Reg) : ∀ (e : Env) (i : Nat) (r : Reg) (id : Nat),
    rs[i]? = some r → (e.regAll rs).2[i]? = some id → (e.regAll rs).1.Holds r id := by
  induction rs with
  | nil => intro e i r id h; simp at h
  | cons r0 rs ih =>
    intro e i r id hr hid
    cases i with
    | zero =>
      simp only [List.getElem?_cons_zero, Option.some.injEq, Env.regAll] at hr hid
      subst hr; subst hid
      exact (e.reg_holds r0).mono (Env.regAll_prefixOf rs _)
    | succ i =>
      simp only [List.getElem?_cons_succ, Env.regAll] at hr hid
      exact ih _ i r id hr hid

/-- The id is in range of its table. -/
theorem Env.Holds.lt {e : Env} {r : Reg} {id : Nat} (h : e.Holds r id) :
    match r with
    | .pfx _ => id < e.prefixes.length
    | .ns _ => id < e.namespaces.length
    | .name _ _ => id < e.names.length := by
  have aux : ∀ {α : Type} {l : List α} {i : Nat} {x : α}, l[i]? = some x → i < l.length := by
    intro α l i x hx
    rcases Nat.lt_or_ge i l.length with h' | h'
    · exact h'
    · rw [List.getElem?_eq_none h'] at hx; cases hx
  cases r with
  | pfx p => exact aux h
  | ns u => exact aux h
  | name l n => exact aux h

/-- Two calls go to the same table. -/
def Reg.sameTable : Reg → Reg → Bool
  | .pfx _, .pfx _ => true
  | .ns _, .ns _ => true
  | .name _ _, .name _ _ => true
  | _, _ => false

/-- One id, one value. -/
theorem Env.Holds.value_eq {e : Env} {r r' : Reg} {id : Nat} (hs : r.sameTable r' = true)
    (h : e.Holds r id) (h' : e.Holds r' id) : r = r' := by
  cases r <;> cases r' <;> simp only [Reg.sameTable, Bool.false_eq_true] at hs <;>
    simp only [Env.Holds] at h h' <;> rw [h] at h' <;> simp only [Option.some.injEq, Prod.mk.injEq] at h'
  · rw [h']
  · rw [h']
  · rw [h'.1, h'.2]

theorem getElem?_inj_of_nodup {α : Type} {l : List α} (hn : l.Nodup) {i j : Nat} {x : α}
    (hi : l[i]? = some x) (hj : l[j]? = some x) : i = j := by
  have aux : ∀ {k : Nat}, l[k]? = some x → k < l.length := by
    intro k hk
    rcases Nat.lt_or_ge k l.length with h' | h'
    · exact h'
    · rw [List.getElem?_eq_none h'] at hk; cases hk
  exact (List.getElem?_inj (aux hi) hn).1 (hi.trans hj.symm)

/-- One value, one id — in duplicate-free tables. -/
theorem Env.Holds.id_eq {e : Env} (hd : e.DupFree) {r : Reg} {id id' : Nat}
    (h : e.Holds r id) (h' : e.Holds r id') : id = id' := by
  cases r with
  | pfx p => exact getElem?_inj_of_nodup hd.prefixes h h'
  | ns u => exact getElem?_inj_of_nodup hd.namespaces h h'
  | name l n => exact getElem?_inj_of_nodup hd.names h h'

/-- C08 on the tables of the parser model: two calls of a sequence, on the same table, return the
    same id exactly when they registered the same value — provided the tables reached are
    duplicate-free. -/
theorem Env.regAll_ids_iff (e : Env) (rs : List Reg) (hd : (e.regAll rs).1.DupFree) {i j : Nat} {r r' : Reg}
    (hi : rs[i]? = some r) (hj : rs[j]? = some r') (hs : r.sameTable r' = true) :
    (e.regAll rs).2[i]? = (e.regAll rs).2[j]? ↔ r = r' := by
  have li : i < (e.regAll rs).2.length := by
    rw [Env.regAll_length]
    rcases Nat.lt_or_ge i rs.length with h' | h'
    · exact h'
    · rw [List.getElem?_eq_none h'] at hi; cases hi
  have lj : j < (e.regAll rs).2.length := by
    rw [Env.regAll_length]
    rcases Nat.lt_or_ge j rs.length with h' | h'
    · exact h'
    · rw [List.getElem?_eq_none h'] at hj; cases hj
  have gi := List.getElem?_eq_getElem li
  have gj := List.getElem?_eq_getElem lj
  have hi' := Env.regAll_holds rs e i r _ hi gi
  have hj' := Env.regAll_holds rs e j r' _ hj gj
  constructor
  · intro h
    rw [gi, gj, Option.some.injEq] at h
    rw [h] at hi'
    exact hi'.value_eq hs hj'
  · intro h
    subst h
    rw [gi, gj, hi'.id_eq hd hj']

/-! ### Namespace ids of registered names stay in range -/

/-- A name registration names a namespace id this table already has. -/
def Reg.NsInRange (e : Env) : Reg → Prop
  | .name _ n => n < e.namespaces.length
  | _ => True

/-- … for every call of the sequence, at the time it is made. -/
def Env.RegsInRange (e : Env) : List Reg → Prop
  | [] => True
  | r :: rs => r.NsInRange e ∧ Env.RegsInRange (e.reg r).1 rs

theorem Env.regsInRange_append (a b : List Reg) : ∀ (e : Env),
    e.RegsInRange (a ++ b) ↔ e.RegsInRange a ∧ (e.regAll a).1.RegsInRange b := by
  induction a with
  | nil => intro e; simp [Env.RegsInRange, Env.regAll]
  | cons r rs ih => intro e; simp only [List.cons_append, Env.RegsInRange, Env.regAll, ih, and_assoc]

theorem Env.reg_dupFree {e : Env} (hd : e.DupFree) (r : Reg) (hr : r.NsInRange e) : (e.reg r).1.DupFree := by
  cases r with
  | pfx p => exact ⟨hd.names, hd.namespaces, internIn_nodup hd.prefixes p, hd.nsInRange⟩
  | ns u =>
    refine ⟨hd.names, internIn_nodup hd.namespaces u, hd.prefixes, ?_⟩
    intro x hx
    exact Nat.lt_of_lt_of_le (hd.nsInRange x hx) (internIn_length_le e.namespaces u)
  | name l n =>
    refine ⟨internIn_nodup hd.names (l, n), hd.namespaces, hd.prefixes, ?_⟩
    intro x hx
    have hx' : x ∈ (internIn e.names (l, n)).1 := hx
    unfold internIn at hx'
    split at hx'
    · exact hd.nsInRange x hx'
    · simp only [List.mem_append, List.mem_singleton] at hx'
      rcases hx' with hx' | rfl
      · exact hd.nsInRange x hx'
      · exact hr

theorem Env.regAll_dupFree (rs : List Reg) : ∀ {e : Env}, e.DupFree → e.RegsInRange rs → (e.regAll rs).1.DupFree := by
  induction rs with
  | nil => intro e hd _; exact hd
  | cons r rs ih => intro e hd hr; exact ih (Env.reg_dupFree hd r hr.1) hr.2

end XotModel
