/-
  XotModel.Lemmas.ScopeInner — `deduplicate_namespaces(node)` for an INNER node.

  1. The call on the node at `path` is the root-call rebuild of that subtree, put back in place:
     the name stack and the tracker start EMPTY at the node, nothing above it is looked at
     (`deduplicateNamespaces_inner`).
  2. Under `noShadow` for the whole tree, what `to_string(root)` could write before, it can write
     afterwards (`namesWritable_dedup_inner`): `keep_tree` with the declarations above the node as
     the outer part `X` of the serialiser's frame, carried down the path by `wr_modifyAt`.
-/
import XotModel.Lemmas.ScopeKeepNames

namespace XotModel

/-! ### The inner call as a rebuild in place -/

theorem modify_congr_at {α : Type} (f g : α → α) : ∀ (l : List α) (i : Nat) (k : α),
    l[i]? = some k → f k = g k → l.modify i f = l.modify i g
  | [], _, _, h, _ => by simp at h
  | a :: l, 0, k, h, hfg => by
    simp only [List.getElem?_cons_zero, Option.some.injEq] at h
    subst h
    simp [hfg]
  | a :: l, i + 1, k, h, hfg => by
    simp only [List.getElem?_cons_succ] at h
    simp [modify_congr_at f g l i k h hfg]

theorem scopeModifyAt_congr (f g : Tree → Tree) : ∀ (q : Path) (x sub : Tree),
    x.at? q = some sub → f sub = g sub → scopeModifyAt f x q = scopeModifyAt g x q
  | [], x, sub, h, hfg => by
    simp only [Tree.at?, Option.some.injEq] at h
    subst h
    simpa [scopeModifyAt] using hfg
  | i :: q, .node v l, sub, h, hfg => by
    simp only [Tree.at?] at h
    cases hk : l[i]? with
    | none => simp [hk] at h
    | some k =>
      simp only [hk] at h
      simp only [scopeModifyAt]
      congr 1
      exact modify_congr_at _ _ l i k hk (scopeModifyAt_congr f g q k sub h hfg)

theorem prefixPath_cons (i : Nat) (q : Path) (fps : List (Path × List Nat)) :
    fps.map (prefixPath (i :: q)) = (fps.map (prefixPath q)).map (prefixPath [i]) := by
  simp [prefixPath]

theorem prefixPath_nil (fps : List (Path × List Nat)) : fps.map (prefixPath []) = fps := by
  have : prefixPath [] = id := by funext ⟨a, b⟩; rfl
  rw [this, List.map_id]

/-- Fix-ups recorded below `q` only touch the subtree at `q`. -/
theorem applyFixups_at (fps : List (Path × List Nat)) : ∀ (q : Path) (x sub : Tree),
    x.at? q = some sub →
    applyFixups x (dedupFixupPrefixes x (fps.map (prefixPath q))) =
      scopeModifyAt (fun s => applyFixups s (dedupFixupPrefixes s fps)) x q
  | [], x, sub, _ => by simp [prefixPath_nil, scopeModifyAt]
  | i :: q, .node v l, sub, h => by
    simp only [Tree.at?] at h
    cases hk : l[i]? with
    | none => simp [hk] at h
    | some k =>
      simp only [hk] at h
      rw [prefixPath_cons, dedupFixupPrefixes_kid v l i k hk, applyFixups_kid]
      simp only [scopeModifyAt]
      congr 1
      exact modify_congr_at _ _ l i k hk (applyFixups_at fps q k sub h)

/-- `deduplicate_namespaces(node)` = the subtree at `node` rebuilt as if it were a root. -/
theorem deduplicateNamespaces_inner (env : Env) (t : Tree) (path : Path) (sub : Tree)
    (hs : t.at? path = some sub) :
    deduplicateNamespaces env t path =
      some (scopeModifyAt (fun s => (rbWalk env [] s []).2) t path) := by
  simp only [deduplicateNamespaces, hs, dedupFixups_eq, Option.some.injEq]
  rw [applyFixups_at _ path t sub hs]
  exact scopeModifyAt_congr _ _ path t sub hs (rebuild_tree env sub [] []).2

theorem deduplicateNamespaces_isSome (env : Env) (t t' : Tree) (path : Path)
    (h : deduplicateNamespaces env t path = some t') : ∃ sub, t.at? path = some sub := by
  unfold deduplicateNamespaces at h
  cases hs : t.at? path with
  | none => simp [hs] at h
  | some sub => exact ⟨sub, rfl⟩

/-! ### Writability is carried down the path -/

theorem scopeModifyAt_value (f : Tree → Tree) (hf : ∀ s, (f s).value = s.value) :
    ∀ (q : Path) (x : Tree), (scopeModifyAt f x q).value = x.value
  | [], x => by simp [scopeModifyAt, hf]
  | _ :: _, .node _ _ => rfl

theorem modify_map_value (g : Tree → Tree) (hg : ∀ k, (g k).value = k.value) :
    ∀ (l : List Tree) (i : Nat), (l.modify i g).map Tree.value = l.map Tree.value
  | [], _ => by simp
  | a :: l, 0 => by simp [hg]
  | a :: l, i + 1 => by simp [modify_map_value g hg l i]

theorem noShadowList_get : ∀ (l : List Tree) (above : List Nat) (i : Nat) (k : Tree),
    noShadow.noShadowList above l → l[i]? = some k → noShadow above k
  | [], _, _, _, _, h => by simp at h
  | a :: l, above, 0, k, hg, h => by
    simp only [List.getElem?_cons_zero, Option.some.injEq] at h
    subst h
    exact hg.1
  | a :: l, above, i + 1, k, hg, h => by
    simp only [List.getElem?_cons_succ] at h
    exact noShadowList_get l above i k hg.2 h

theorem wrList_modify (env : Env) (top : List (Nat × Nat)) (g : Tree → Tree) :
    ∀ (l : List Tree) (i : Nat) (k : Tree), l[i]? = some k →
    (wr env top k = true → wr env top (g k) = true) →
    wr.wrList env top l = true → wr.wrList env top (l.modify i g) = true
  | [], _, _, h, _, _ => by simp at h
  | a :: l, 0, k, h, hk, hw => by
    simp only [List.getElem?_cons_zero, Option.some.injEq] at h
    subst h
    simp only [wr.wrList, Bool.and_eq_true] at hw
    simp only [List.modify_zero_cons, wr.wrList, Bool.and_eq_true]
    exact ⟨hk hw.1, hw.2⟩
  | a :: l, i + 1, k, h, hk, hw => by
    simp only [List.getElem?_cons_succ] at h
    simp only [wr.wrList, Bool.and_eq_true] at hw
    simp only [List.modify_succ_cons, wr.wrList, Bool.and_eq_true]
    exact ⟨hw.1, wrList_modify env top g l i k h hk hw.2⟩

/-- A change at `q` that keeps values and, at `q`, writability in every frame the guard allows,
    keeps the whole tree writable. -/
theorem wr_modifyAt (env : Env) (f : Tree → Tree) (hfv : ∀ s, (f s).value = s.value) :
    ∀ (q : Path) (x sub : Tree) (W : List (Nat × Nat)), x.at? q = some sub →
    (∀ W, noShadow (W.map Prod.fst) sub → wr env W sub = true → wr env W (f sub) = true) →
    noShadow (W.map Prod.fst) x → wr env W x = true → wr env W (scopeModifyAt f x q) = true
  | [], x, sub, W, h, hf, hg, hw => by
    simp only [Tree.at?, Option.some.injEq] at h
    subst h
    exact hf W hg hw
  | i :: q, .node v l, sub, W, h, hf, hg, hw => by
    simp only [Tree.at?] at h
    cases hk : l[i]? with
    | none => simp [hk] at h
    | some k =>
      simp only [hk] at h
      have hvals : (l.modify i (fun k => scopeModifyAt f k q)).map Tree.value = l.map Tree.value :=
        modify_map_value _ (fun k => scopeModifyAt_value f hfv q k) l i
      have hdecls := declsOfKids_congr _ _ hvals
      simp only [scopeModifyAt]
      cases v with
      | element name =>
        simp only [noShadow, nsDecls_node] at hg
        obtain ⟨_, hdis, hkids⟩ := hg
        have hW : pushTop W (declsOfKids l) = W ++ declsOfKids l := pushTop_disjoint _ _ hdis
        simp only [wr, nsDecls_node, hdecls, hW, Bool.and_eq_true] at hw ⊢
        refine ⟨?_, ?_⟩
        · have ha := attrs_congr (.element name) (.element name) _ _ hvals
          simpa only [elementOk, ha] using hw.1
        · apply wrList_modify env _ _ l i k hk _ hw.2
          exact wr_modifyAt env f hfv q k sub (W ++ declsOfKids l) h hf
            (by simpa [List.map_append] using noShadowList_get l _ i k hkids hk)
      | document => simp only [noShadow] at hg; simp only [wr] at hw ⊢; exact wrList_modify env _ _ l i k hk (wr_modifyAt env f hfv q k sub W h hf (noShadowList_get l _ i k hg.2 hk)) hw
      | text s => simp only [noShadow] at hg; simp only [wr] at hw ⊢; exact wrList_modify env _ _ l i k hk (wr_modifyAt env f hfv q k sub W h hf (noShadowList_get l _ i k hg.2 hk)) hw
      | pi a b => simp only [noShadow] at hg; simp only [wr] at hw ⊢; exact wrList_modify env _ _ l i k hk (wr_modifyAt env f hfv q k sub W h hf (noShadowList_get l _ i k hg.2 hk)) hw
      | comment s => simp only [noShadow] at hg; simp only [wr] at hw ⊢; exact wrList_modify env _ _ l i k hk (wr_modifyAt env f hfv q k sub W h hf (noShadowList_get l _ i k hg.2 hk)) hw
      | «attribute» a b => simp only [noShadow] at hg; simp only [wr] at hw ⊢; exact wrList_modify env _ _ l i k hk (wr_modifyAt env f hfv q k sub W h hf (noShadowList_get l _ i k hg.2 hk)) hw
      | «namespace» a b => simp only [noShadow] at hg; simp only [wr] at hw ⊢; exact wrList_modify env _ _ l i k hk (wr_modifyAt env f hfv q k sub W h hf (noShadowList_get l _ i k hg.2 hk)) hw

/-- The rebuild of a subtree from an empty stack, seen from a serialiser frame `W`. -/
theorem keep_from_empty (env : Env) (sub : Tree) (W : List (Nat × Nat))
    (hg : noShadow (W.map Prod.fst) sub) (hw : wr env W sub = true) :
    wr env W (rbWalk env [] sub []).2 = true := by
  have := keep_tree env W sub [] [] []
    ⟨fun _ h => h, fun _ h => h, fun ns h => by simp at h⟩
    (fun ns h => by simp [attrKnownIn] at h) (by simpa using hg) (by simpa using hw)
  simpa using this

theorem RootOk.modifyAt (env : Env) {t : Tree} (h : RootOk t) (path : Path) :
    RootOk (scopeModifyAt (fun s => (rbWalk env [] s []).2) t path) := by
  cases path with
  | nil => simpa [scopeModifyAt] using h.rebuild env
  | cons i q =>
    obtain ⟨v, l⟩ := t
    have hvals : (l.modify i (fun k => scopeModifyAt (fun s => (rbWalk env [] s []).2) k q)).map Tree.value =
        l.map Tree.value :=
      modify_map_value _ (fun k => scopeModifyAt_value _ (fun s => rb_value env s [] []) q k) l i
    simp only [scopeModifyAt]
    cases v <;> simp only [RootOk] at h ⊢ <;> rw [declsOfKids_congr _ _ hvals] <;> exact h

/-- Names `to_string(root)` could write before `deduplicate_namespaces(node)`, for ANY node, it
    can write afterwards, under the guard. -/
theorem namesWritable_dedup_inner (env : Env) (t t' : Tree) (path : Path)
    (hd : deduplicateNamespaces env t path = some t') (hg : noShadow [Env.xmlPrefix] t)
    (hw : namesWritable env t [] = some true) : namesWritable env t' [] = some true := by
  obtain ⟨sub, hs⟩ := deduplicateNamespaces_isSome env t t' path hd
  rw [deduplicateNamespaces_inner env t path sub hs] at hd
  simp only [Option.some.injEq] at hd
  subst hd
  simp only [namesWritable, Tree.ancestorsOrSelf, Tree.at?, namesWritableChain_eq,
    Option.some.injEq] at hw ⊢
  have hroot := RootOk.of_noShadow hg
  rw [wr_root env t hroot] at hw
  rw [wr_root env _ (hroot.modifyAt env path)]
  exact wr_modifyAt env _ (fun s => rb_value env s [] []) path t sub _ hs
    (fun W hgW hwW => keep_from_empty env sub W hgW hwW) hg hw

end XotModel
