/-
  Lemmas for C12, part 30: the clone of `clone_with_prefixes` lies in the round-trip domain of C01
  whenever the tree containing the source does — the added declarations have pairwise distinct
  prefixes the copy does not declare, and each of them is a declaration of an ancestor of the
  source (hence `valueOK`).
-/
import XotModel.Lemmas.FcloneRepr1

namespace XotModel
open HTree

variable {env : Env}

theorem nsPrefixes_eraseList (L : List HTree) :
    nsPrefixes (eraseList L) = (L.filterMap (fun k => fcNsPair k.value)).map Prod.fst := by
  induction L with
  | nil => rfl
  | cons k L ih =>
    obtain ⟨h, v, ks⟩ := k
    simp only [eraseList, erase, nsPrefixes, List.filterMap_cons, Tree.value, HTree.value] at ih ⊢
    cases v <;> simp [fcNsPair, ih]

/-- A declaration of a `nodeOK` node is a `valueOK` namespace value. -/
theorem valueOK_of_nsDecls (a : Tree) (ha : a.allNodes (nodeOK env) = true) (d : Nat × Nat)
    (hd : d ∈ a.nsDecls) : valueOK env (.namespace d.1 d.2) = true := by
  rw [nsDecls_eq] at hd
  obtain ⟨k, hk, hkd⟩ := List.mem_filterMap.mp hd
  have hk' : k ∈ a.kids := (List.takeWhile_sublist _).subset hk
  cases a with
  | node v ks =>
    have hval := allNodes_value env (allNodes_kid ha hk')
    cases hv : k.value <;> simp only [hv, fcNsPair, reduceCtorEq, Option.some.injEq] at hkd
    subst hkd
    rw [hv] at hval
    exact hval

/-- Every inherited prefix is a declaration of an ancestor. -/
theorem inheritedPrefixes_valueOK (f : Forest) (node : Nat) (src : HTree) (rest : List HTree)
    (hpath : f.pathTo node = src :: rest) (hget : f.get? node = some src)
    (hok : ∀ x ∈ rest, (erase x).allNodes (nodeOK env) = true)
    (b : Nat × Nat) (hb : b ∈ f.inheritedPrefixes env node) : valueOK env (.namespace b.1 b.2) = true := by
  unfold Forest.inheritedPrefixes at hb
  rw [hpath] at hb
  have hun : f.unresolvedNamespaces env node = unresolvedTree env (FStack.new []) (erase src) := by
    unfold Forest.unresolvedNamespaces
    rw [hget]
  cases rest with
  | nil => simp at hb
  | cons q rest' =>
    simp only [List.mem_filter] at hb
    obtain ⟨hin, hu⟩ := hb
    rw [hun] at hu
    have hnt := unresolvedTree_nontrivial env _ _ b.2 (by simpa using hu)
    rcases namespacesInScopeChain_origin _ b hin with h | ⟨a, ha, hda⟩
    · simp only [basePrefixes, List.mem_singleton] at h
      exact absurd (congrArg Prod.snd h) hnt.2
    · obtain ⟨x, hx, rfl⟩ := List.mem_map.mp ha
      exact valueOK_of_nsDecls _ (hok x hx) b hda

/-- **The clone is in the round-trip domain** when the tree containing the source is: tables with
    the built-in values, `nodeOK` at every node of the source's root tree, no repeated `xml:id` value
    inside the source. -/
theorem cloneWithPrefixes_representable (env : Env) (f : Forest) (inv : f.Inv)
    (node : Nat) (hs : Nat) (name : Nat) (Ks : List HTree) (rest : List HTree)
    (hpath : f.pathTo node = .node hs (.element name) Ks :: rest)
    (order : List (Nat × Nat))
    (hord : ∀ b ∈ order, b ∈ f.inheritedPrefixes env node)
    (henv : envOK env = true)
    (hok : ∀ r ∈ f.roots, HTree.pathTo node r = some (.node hs (.element name) Ks :: rest) →
      (erase r).allNodes (nodeOK env) = true)
    (hids : (xmlIdValues env (erase (.node hs (.element name) Ks))).Nodup) :
    ∀ c C, (f.cloneWithPrefixes node order).2 = some c →
      (f.cloneWithPrefixes node order).1.get? c = some C →
      Representable env (.node .document [C.erase]) = true ∧
        expectedClone f.consolidation (erase (.node hs (.element name) Ks)) =
          erase (.node hs (.element name) Ks) := by
  intro c0 C0 hc0 hC0
  obtain ⟨hget, r, hr, hp⟩ := Forest.get?_of_pathTo hpath
  have hpathok := pathTo_allNodes (nodeOK env) node r _ (hok r hr hp) hp
  have hsrcok : (erase (.node hs (.element name) Ks)).allNodes (nodeOK env) = true := hpathok _ (by simp)
  have hfix := expectedClone_of_nodeOK (env := env) f.consolidation _ hsrcok
  refine ⟨?_, hfix⟩
  obtain ⟨f2, c, A, New, B, hres, -, hg2, -, hA, hB, hNew, h6, hsub, hnodup⟩ :=
    cloneWithPrefixes_shape f inv node hs name Ks rest hpath order
  rw [hres] at hc0 hC0
  have hcc : c = c0 := Option.some.inj hc0
  subst hcc
  rw [hg2] at hC0
  have hCC : HTree.node c (.element name) (A ++ New ++ B) = C0 := Option.some.inj hC0
  subst hCC
  rw [hfix] at h6
  -- the source, as the copy sees it
  have hS : (Tree.node (.element name) (eraseList A ++ eraseList B)).allNodes (nodeOK env) = true := by
    have : erase (.node c (.element name) (A ++ B)) = .node (.element name) (eraseList A ++ eraseList B) := by
      simp only [erase, eraseList_append]
    rw [← this, h6]; exact hsrcok
  have hAc := fcr_erase_cat A hA
  have hBc : ∀ y, (eraseList B).head? = some y → (y.value.category == Category.namespace) = false := by
    intro y hy
    cases B with
    | nil => simp [eraseList] at hy
    | cons b B' =>
      simp only [eraseList, List.head?_cons, Option.some.injEq] at hy
      subst hy
      rw [erase_value']
      exact hB b rfl
  have hAN : ∀ x ∈ A ++ New, (x.value.category == Category.namespace) = true := by
    intro x hx
    rcases List.mem_append.mp hx with h | h
    · exact hA x h
    · exact (hNew x h).cat
  have hdecls : fcDeclsOfKids (A ++ New ++ B) = (A ++ New).filterMap (fun k => fcNsPair k.value) :=
    declsOfKids_split (A ++ New) B hAN hB
  -- the new leaves
  have hNl : ∀ x ∈ eraseList New, ∃ p ns, x = .node (.namespace p ns) [] ∧ valueOK env (.namespace p ns) = true := by
    intro x hx
    rw [eraseList_map] at hx
    obtain ⟨y, hy, rfl⟩ := List.mem_map.mp hx
    obtain ⟨h, p, ns, rfl⟩ := hNew y hy
    refine ⟨p, ns, rfl, ?_⟩
    have hmem : (p, ns) ∈ fcDeclsOfKids (A ++ New ++ B) := by
      rw [hdecls]
      exact List.mem_filterMap.mpr ⟨_, List.mem_append_right _ hy, rfl⟩
    rcases hsub _ hmem with h1 | ⟨h1, -⟩
    · -- declared by the copy: a namespace child of the source
      obtain ⟨k, hk, hkd⟩ := List.mem_filterMap.mp h1
      have hk' : erase k ∈ eraseList A ++ eraseList B := by
        rw [eraseList_map]; exact List.mem_append_left _ (List.mem_map_of_mem hk)
      have hval := allNodes_value env (allNodes_kid hS hk')
      rw [erase_value'] at hval
      cases hv : k.value <;> simp only [hv, fcNsPair, reduceCtorEq, Option.some.injEq] at hkd
      cases hkd
      rw [hv] at hval
      exact hval
    · exact inheritedPrefixes_valueOK f node _ rest hpath hget
        (fun x hx => hpathok x (by simp [hx])) (p, ns) (hord _ h1)
  -- distinct prefixes
  have hnd : (nsPrefixes (eraseList A ++ eraseList New)).Nodup := by
    rw [← eraseList_append, nsPrefixes_eraseList, ← hdecls]
    have hnodeS : nodeOK env (.element name) (eraseList A ++ eraseList B) = true := by
      rw [allNodes_node, Bool.and_eq_true] at hS; exact hS.1
    obtain ⟨-, -, huniq, -, -⟩ := (nodeOK_iff env _ _).mp hnodeS
    have hAnd : ((A.filterMap (fun k => fcNsPair k.value)).map Prod.fst).Nodup := by
      rw [← nsPrefixes_eraseList]
      have := huniq.2
      rw [fcr_nsPrefixes_append] at this
      exact (List.nodup_append.mp this).1
    exact hnodup hAnd
  have hT : erase (.node c (.element name) (A ++ New ++ B)) =
      .node (.element name) (eraseList A ++ eraseList New ++ eraseList B) := by
    simp only [erase, eraseList_append]
  rw [hT]
  apply representable_doc_single henv
  · exact nodeOK_insert_ns name _ _ _ hS hAc hBc hNl hnd
  · rw [xmlIdValues_insert_ns _ _ _ _ (fun x hx => by
      obtain ⟨p, ns, rfl, -⟩ := hNl x hx; exact ⟨p, ns, rfl⟩)]
    have : erase (.node c (.element name) (A ++ B)) = .node (.element name) (eraseList A ++ eraseList B) := by
      simp only [erase, eraseList_append]
    rw [← this, h6]
    exact hids

end XotModel
