/-
  Fpx (C06, `create_missing_prefixes` / `deduplicate_namespaces` at forest level), part 1: a list of
  `namespaces_mut(h).insert(..)` / `namespaces_mut(h).remove(..)` calls on ELEMENTS of a forest
  satisfying the invariant is carried out to the end: every call answers `ok`, the invariant is kept,
  and no node changes between element and non-element (so the later calls of the list, whose targets
  were collected before the first one, still meet elements).
-/
import XotModel.Lemmas.FmapHistOps
import XotModel.Lemmas.FinvPrefix

namespace XotModel
namespace Forest

/-- A namespace-map insertion or removal whose target is an element of `f`. -/
def Call.isNsEdit (f : Forest) : Call → Prop
  | .mapInsert .namespaces h (.namespace _ _) => f.isElement h = true
  | .mapRemove .namespaces h _ => f.isElement h = true
  | _ => False

theorem fpx_call_ok {f : Forest} (hi : f.Inv) {c : Call} (hc : c.isNsEdit f) :
    (c.run f).2 = .ok ∧ (c.run f).1.Inv ∧ ∀ x, (c.run f).1.isElement x = f.isElement x := by
  cases c with
  | mapInsert k h e =>
    cases k with
    | attributes => exact hc.elim
    | namespaces =>
      cases e with
      | «namespace» p n =>
        have he : f.isElement h = true := hc
        obtain ⟨hok, t⟩ := Fmap.touch_mapInsert hi .namespaces h (.namespace p n) he rfl
        refine ⟨hok, t.inv, fun x => ?_⟩
        by_cases hx : x = h
        · subst hx; show (f.mapInsert _ _ _).1.isElement x = _; rw [t.elem, he]
        · exact (t.frame x hx).elem
      | _ => exact hc.elim
  | mapRemove k h key =>
    cases k with
    | attributes => exact hc.elim
    | namespaces =>
      have he : f.isElement h = true := hc
      obtain ⟨hok, t⟩ := Fmap.touch_mapRemove hi .namespaces h key he
      refine ⟨hok, t.inv, fun x => ?_⟩
      by_cases hx : x = h
      · subst hx; show (f.mapRemove _ _ _).1.isElement x = _; rw [t.elem, he]
      · exact (t.frame x hx).elem
  | _ => exact hc.elim

theorem fpx_isNsEdit_congr {f f' : Forest} (h : ∀ x, f'.isElement x = f.isElement x) {c : Call}
    (hc : c.isNsEdit f) : c.isNsEdit f' := by
  cases c with
  | mapInsert k p e =>
    cases k with
    | attributes => exact hc.elim
    | namespaces =>
      cases e with
      | «namespace» a b => show f'.isElement p = true; rw [h]; exact hc
      | _ => exact hc.elim
  | mapRemove k p key =>
    cases k with
    | attributes => exact hc.elim
    | namespaces => show f'.isElement p = true; rw [h]; exact hc
  | _ => exact hc.elim

/-- A list of namespace edits on elements runs to the end. -/
theorem fpx_runCalls_ok : ∀ (cs : List Call) {f : Forest}, f.Inv → (∀ c ∈ cs, c.isNsEdit f) →
    (f.runCalls cs).2 = .ok ∧ (f.runCalls cs).1.Inv ∧ ∀ x, (f.runCalls cs).1.isElement x = f.isElement x
  | [], _, hi, _ => ⟨rfl, hi, fun _ => rfl⟩
  | c :: cs, f, hi, hc => by
    obtain ⟨h1, h2, h3⟩ := fpx_call_ok hi (hc c (by simp))
    unfold runCalls
    rcases hr : c.run f with ⟨f', r⟩
    rw [hr] at h1 h2 h3
    simp only at h1 h2 h3
    subst h1
    simp only
    obtain ⟨k1, k2, k3⟩ := fpx_runCalls_ok cs h2 (fun c' h' => fpx_isNsEdit_congr h3 (hc c' (by simp [h'])))
    exact ⟨k1, k2, fun x => (k3 x).trans (h3 x)⟩

end Forest
end XotModel
