/-
  XotModel.Lemmas.DedupFuel — `while self.deduplicate_namespaces_pass(node) {}` terminates.

  * every pass that reports a removal makes the tree strictly smaller (`dedupPass_size_lt`): each
    entry of `to_remove` names an element and a prefix among its declarations, so the first
    `remove(prefix)` carried out deletes a node, and no removal adds one;
  * hence `t.size + 1` rounds are enough: the loop of the model stops because a pass removed
    nothing, never because the fuel ran out (`dedupLoop_fixpoint`), more fuel changes nothing
    (`dedupLoop_fuel_irrelevant`);
  * a second call does one pass that removes nothing (`deduplicateNamespaces_idem`).
-/
import XotModel.Lemmas.DedupWalk

namespace XotModel

/-! ### Values are preserved by the rebuild -/

theorem removeOwn_nil (ks : List Tree) : removeOwn [] ks = ks := rfl

mutual
theorem dpWalk_value (env : Env) : ∀ (x : Tree) (K : List (List (Nat × Nat))),
    (dpWalk env K x).value = x.value
  | .node v ks, K => by
    unfold dpWalk
    split <;> rfl
theorem dpWalkList_values (env : Env) : ∀ (ks : List Tree) (K : List (List (Nat × Nat))),
    (dpWalk.dpWalkList env K ks).map Tree.value = ks.map Tree.value
  | [], K => by simp [dpWalk.dpWalkList]
  | k :: ks, K => by
    simp [dpWalk.dpWalkList, dpWalk_value env k K, dpWalkList_values env ks K]
end

theorem ddDeclsOfKids_congr : ∀ (ks ks' : List Tree), ks.map Tree.value = ks'.map Tree.value →
    declsOfKids ks = declsOfKids ks'
  | [], [], _ => rfl
  | [], _ :: _, h => by simp at h
  | _ :: _, [], h => by simp at h
  | k :: ks, k' :: ks', h => by
    simp only [List.map_cons, List.cons.injEq] at h
    simp only [declsOfKids, h.1, ddDeclsOfKids_congr ks ks' h.2]

theorem declsOfKids_dpWalkList (env : Env) (ks : List Tree) (K : List (List (Nat × Nat))) :
    declsOfKids (dpWalk.dpWalkList env K ks) = declsOfKids ks :=
  ddDeclsOfKids_congr _ _ (dpWalkList_values env ks K)

/-! ### Sizes -/

theorem removeNsKid_not_namespace (pfx : Nat) (k : Tree) (rest : List Tree)
    (hc : ¬ (k.value.category == Category.namespace) = true) :
    removeNsKid pfx (k :: rest) = k :: rest := by
  unfold removeNsKid
  split
  · rename_i p n h; exact absurd ((category_namespace_iff_ex _).2 ⟨p, n, h⟩) hc
  · rfl

theorem declsOfKids_not_namespace (k : Tree) (rest : List Tree)
    (hc : ¬ (k.value.category == Category.namespace) = true) : declsOfKids (k :: rest) = [] := by
  unfold declsOfKids
  split
  · rename_i p n h; exact absurd ((category_namespace_iff_ex _).2 ⟨p, n, h⟩) hc
  · rfl

theorem sizeList_removeNsKid_le (pfx : Nat) : ∀ ks : List Tree,
    Tree.size.sizeList (removeNsKid pfx ks) ≤ Tree.size.sizeList ks := by
  intro ks
  induction ks with
  | nil => exact Nat.le_refl _
  | cons k rest ih =>
    by_cases hc : (k.value.category == Category.namespace) = true
    · obtain ⟨p, n, hv⟩ := (category_namespace_iff_ex _).1 hc
      simp only [removeNsKid, hv]
      split
      · simp only [Tree.size.sizeList]; omega
      · simp only [Tree.size.sizeList]; omega
    · rw [removeNsKid_not_namespace pfx k rest hc]; exact Nat.le_refl _

theorem size_pos (t : Tree) : 0 < t.size := by
  obtain ⟨v, ks⟩ := t
  simp only [Tree.size]; omega

theorem sizeList_removeNsKid_lt (pfx : Nat) : ∀ ks : List Tree,
    pfx ∈ (declsOfKids ks).map Prod.fst →
    Tree.size.sizeList (removeNsKid pfx ks) < Tree.size.sizeList ks := by
  intro ks
  induction ks with
  | nil => intro h; simp [declsOfKids] at h
  | cons k rest ih =>
    intro h
    by_cases hc : (k.value.category == Category.namespace) = true
    · obtain ⟨p, n, hv⟩ := (category_namespace_iff_ex _).1 hc
      simp only [declsOfKids, hv, List.map_cons, List.mem_cons] at h
      simp only [removeNsKid, hv]
      by_cases hp : p = pfx
      · simp only [hp, beq_self_eq_true, ↓reduceIte, Tree.size.sizeList]
        have := size_pos k; omega
      · have hb : (p == pfx) = false := by simpa using hp
        simp only [hb, Bool.false_eq_true, ↓reduceIte, Tree.size.sizeList]
        rcases h with h | h
        · exact absurd h.symm hp
        · have := ih h; omega
    · rw [declsOfKids_not_namespace k rest hc] at h; simp at h

theorem removeNsKid_of_not_mem (pfx : Nat) : ∀ ks : List Tree,
    pfx ∉ (declsOfKids ks).map Prod.fst → removeNsKid pfx ks = ks := by
  intro ks
  induction ks with
  | nil => intro _; rfl
  | cons k rest ih =>
    intro h
    by_cases hc : (k.value.category == Category.namespace) = true
    · obtain ⟨p, n, hv⟩ := (category_namespace_iff_ex _).1 hc
      simp only [declsOfKids, hv, List.map_cons, List.mem_cons, not_or] at h
      simp only [removeNsKid, hv]
      have hb : (p == pfx) = false := by simpa using (Ne.symm h.1)
      simp only [hb, Bool.false_eq_true, ↓reduceIte]
      rw [ih h.2]
    · exact removeNsKid_not_namespace pfx k rest hc

theorem sizeList_foldl_remove_le (l : List Nat) : ∀ ks : List Tree,
    Tree.size.sizeList (l.foldl (fun ks p => removeNsKid p ks) ks) ≤ Tree.size.sizeList ks := by
  induction l with
  | nil => intro ks; exact Nat.le_refl _
  | cons a rest ih =>
    intro ks
    simp only [List.foldl_cons]
    exact Nat.le_trans (ih _) (sizeList_removeNsKid_le a ks)

theorem sizeList_foldl_remove_lt (l : List Nat) : ∀ ks : List Tree,
    (∃ p ∈ l, p ∈ (declsOfKids ks).map Prod.fst) →
    Tree.size.sizeList (l.foldl (fun ks p => removeNsKid p ks) ks) < Tree.size.sizeList ks := by
  induction l with
  | nil => intro ks h; obtain ⟨p, hp, _⟩ := h; simp at hp
  | cons a rest ih =>
    intro ks h
    simp only [List.foldl_cons]
    by_cases ha : a ∈ (declsOfKids ks).map Prod.fst
    · exact Nat.lt_of_le_of_lt (sizeList_foldl_remove_le rest _) (sizeList_removeNsKid_lt a ks ha)
    · rw [removeNsKid_of_not_mem a ks ha]
      apply ih
      obtain ⟨p, hp, hk⟩ := h
      simp only [List.mem_cons] at hp
      rcases hp with rfl | hp
      · exact absurd hk ha
      · exact ⟨p, hp, hk⟩

theorem sizeList_removeOwn_le (pfxs : List Nat) (ks : List Tree) :
    Tree.size.sizeList (removeOwn pfxs ks) ≤ Tree.size.sizeList ks :=
  sizeList_foldl_remove_le _ ks

theorem sizeList_removeOwn_lt (pfxs : List Nat) (ks : List Tree)
    (h : ∃ p ∈ pfxs, p ∈ (declsOfKids ks).map Prod.fst) :
    Tree.size.sizeList (removeOwn pfxs ks) < Tree.size.sizeList ks := by
  apply sizeList_foldl_remove_lt
  obtain ⟨p, hp, hk⟩ := h
  exact ⟨p, by simpa using hp, hk⟩

theorem dpRed_keys_mem (env : Env) (K : List (List (Nat × Nat))) (v : Value) (ks : List Tree)
    (kv : Nat × Nat) (h : kv ∈ dpRed env K (.node v ks)) : kv.1 ∈ (declsOfKids ks).map Prod.fst := by
  simp only [dpRed, List.mem_filter, nsDecls_node] at h
  exact List.mem_map.2 ⟨kv, h.1, rfl⟩

mutual
theorem size_dpWalk (env : Env) : ∀ (x : Tree) (K : List (List (Nat × Nat))),
    (dpWalk env K x).size ≤ x.size ∧ (dpRem env K x ≠ [] → (dpWalk env K x).size < x.size)
  | .node v ks, K => by
    by_cases he : v.isElement = true
    · obtain ⟨h1, h2⟩ := size_dpWalkList env ks (dpKeep env K (.node v ks) :: K) 0
      simp only [dpWalk, dpRem, he, ↓reduceIte, Tree.size]
      have h3 := sizeList_removeOwn_le ((dpRed env K (.node v ks)).map (·.1))
        (dpWalk.dpWalkList env (dpKeep env K (.node v ks) :: K) ks)
      refine ⟨by omega, fun hne => ?_⟩
      by_cases hred : dpRed env K (.node v ks) = []
      · simp only [hred, List.map_nil, List.nil_append] at hne
        have := h2 hne
        omega
      · obtain ⟨kv, hkv⟩ := List.exists_mem_of_ne_nil _ hred
        have hk : kv.1 ∈ (declsOfKids ks).map Prod.fst := dpRed_keys_mem env K v ks kv hkv
        have h4 := sizeList_removeOwn_lt ((dpRed env K (.node v ks)).map (·.1))
          (dpWalk.dpWalkList env (dpKeep env K (.node v ks) :: K) ks)
          ⟨kv.1, List.mem_map.2 ⟨kv, hkv, rfl⟩, by rw [declsOfKids_dpWalkList]; exact hk⟩
        omega
    · have he' : v.isElement = false := by simpa using he
      obtain ⟨h1, h2⟩ := size_dpWalkList env ks K 0
      simp only [dpWalk, dpRem, he', Bool.false_eq_true, ↓reduceIte, Tree.size]
      exact ⟨by omega, fun hne => by have := h2 hne; omega⟩
theorem size_dpWalkList (env : Env) : ∀ (ks : List Tree) (K : List (List (Nat × Nat))) (i : Nat),
    Tree.size.sizeList (dpWalk.dpWalkList env K ks) ≤ Tree.size.sizeList ks ∧
    (dpRem.dpRemList env K i ks ≠ [] →
      Tree.size.sizeList (dpWalk.dpWalkList env K ks) < Tree.size.sizeList ks)
  | [], K, i => by simp [dpWalk.dpWalkList, dpRem.dpRemList]
  | k :: ks, K, i => by
    obtain ⟨h1, h2⟩ := size_dpWalk env k K
    obtain ⟨h3, h4⟩ := size_dpWalkList env ks K (i + 1)
    simp only [dpWalk.dpWalkList, dpRem.dpRemList, Tree.size.sizeList]
    refine ⟨by omega, fun hne => ?_⟩
    by_cases hk : dpRem env K k = []
    · simp only [hk, List.map_nil, List.nil_append] at hne
      have := h4 hne; omega
    · have := h2 hk; omega
end

/-! ### Modifying below a path: size and `at?` -/

theorem sizeList_modify (f : Tree → Tree) : ∀ (l : List Tree) (i : Nat) (k : Tree), l[i]? = some k →
    (f k).size ≤ k.size →
    Tree.size.sizeList (l.modify i f) ≤ Tree.size.sizeList l ∧
    ((f k).size < k.size → Tree.size.sizeList (l.modify i f) < Tree.size.sizeList l)
  | [], _, _, h, _ => by simp at h
  | a :: l, 0, k, h, hle => by
    simp only [List.getElem?_cons_zero, Option.some.injEq] at h
    subst h
    simp only [List.modify_zero_cons, Tree.size.sizeList]
    exact ⟨by omega, fun hlt => by omega⟩
  | a :: l, i + 1, k, h, hle => by
    simp only [List.getElem?_cons_succ] at h
    obtain ⟨h1, h2⟩ := sizeList_modify f l i k h hle
    simp only [List.modify_succ_cons, Tree.size.sizeList]
    exact ⟨by omega, fun hlt => by have := h2 hlt; omega⟩

theorem size_scopeModifyAt (f : Tree → Tree) : ∀ (q : Path) (x sub : Tree), x.at? q = some sub →
    (f sub).size ≤ sub.size →
    (scopeModifyAt f x q).size ≤ x.size ∧
    ((f sub).size < sub.size → (scopeModifyAt f x q).size < x.size)
  | [], x, sub, h, hle => by
    simp only [Tree.at?, Option.some.injEq] at h
    subst h
    exact ⟨by simpa [scopeModifyAt] using hle, fun hlt => by simpa [scopeModifyAt] using hlt⟩
  | i :: q, .node v l, sub, h, hle => by
    simp only [Tree.at?] at h
    cases hk : l[i]? with
    | none => simp [hk] at h
    | some k =>
      simp only [hk] at h
      obtain ⟨h1, h2⟩ := size_scopeModifyAt f q k sub h hle
      obtain ⟨h3, h4⟩ := sizeList_modify (fun k => scopeModifyAt f k q) l i k hk h1
      simp only [scopeModifyAt, Tree.size]
      exact ⟨by omega, fun hlt => by have := h4 (h2 hlt); omega⟩

theorem ddAt?_scopeModifyAt (f : Tree → Tree) : ∀ (q : Path) (x sub : Tree), x.at? q = some sub →
    (scopeModifyAt f x q).at? q = some (f sub)
  | [], x, sub, h => by
    simp only [Tree.at?, Option.some.injEq] at h
    subst h
    simp [scopeModifyAt, Tree.at?]
  | i :: q, .node v l, sub, h => by
    simp only [Tree.at?] at h
    cases hk : l[i]? with
    | none => simp [hk] at h
    | some k =>
      simp only [hk] at h
      simp only [scopeModifyAt, Tree.at?, List.getElem?_modify_eq, hk]
      exact ddAt?_scopeModifyAt f q k sub h

/-! ### One pass -/

/-- No removal reported: the pass is the identity. -/
theorem dedupPass_of_no_removal (env : Env) (t : Tree) (path : Path) (sub : Tree)
    (h : (dedupPass env t path sub).2 = false) : (dedupPass env t path sub).1 = t := by
  simp only [dedupPass, Bool.not_eq_eq_eq_not, Bool.not_false, List.isEmpty_iff] at h
  simp [dedupPass, h, applyFixups]

/-- **Progress**: a pass that reports a removal has made the tree strictly smaller. -/
theorem dedupPass_size_lt (env : Env) (t : Tree) (path : Path) (sub : Tree)
    (hs : t.at? path = some sub) (h : (dedupPass env t path sub).2 = true) :
    (dedupPass env t path sub).1.size < t.size := by
  rw [dedupPass_eq env t path sub hs] at h ⊢
  simp only [Bool.not_eq_eq_eq_not, Bool.not_true, List.isEmpty_eq_false_iff] at h
  obtain ⟨h1, h2⟩ := size_dpWalk env sub []
  exact (size_scopeModifyAt _ path t sub hs h1).2 (h2 h)

theorem dedupPass_size_le (env : Env) (t : Tree) (path : Path) (sub : Tree)
    (hs : t.at? path = some sub) : (dedupPass env t path sub).1.size ≤ t.size := by
  rw [dedupPass_eq env t path sub hs]
  exact (size_scopeModifyAt _ path t sub hs (size_dpWalk env sub []).1).1

/-- The call node is still there after a pass. -/
theorem dedupPass_at? (env : Env) (t : Tree) (path : Path) (sub : Tree)
    (hs : t.at? path = some sub) :
    (dedupPass env t path sub).1.at? path = some (dpWalk env [] sub) := by
  rw [dedupPass_eq env t path sub hs]
  exact ddAt?_scopeModifyAt _ path t sub hs

/-! ### The loop -/

/-- A tree on which a pass from `path` finds nothing to remove. -/
def DedupFixpoint (env : Env) (path : Path) (t : Tree) : Prop :=
  ∃ sub, t.at? path = some sub ∧ dedupToRemove env path sub = []

theorem dedupLoop_at? (env : Env) (path : Path) : ∀ (fuel : Nat) (t : Tree),
    (t.at? path).isSome = true → ((dedupLoop env path fuel t).at? path).isSome = true
  | 0, t, h => h
  | fuel + 1, t, h => by
    unfold dedupLoop
    cases hs : t.at? path with
    | none => simp [hs] at h
    | some sub =>
      dsimp only
      have h1 := dedupPass_at? env t path sub hs
      split
      · exact dedupLoop_at? env path fuel _ (by rw [h1]; rfl)
      · rw [h1]; rfl

/-- **The fuel suffices**: with more fuel than the tree has nodes the loop stops because a pass
    found nothing to remove — the result is a fixpoint of the pass. -/
theorem dedupLoop_fixpoint (env : Env) (path : Path) : ∀ (fuel : Nat) (t : Tree),
    t.size < fuel → (t.at? path).isSome = true → DedupFixpoint env path (dedupLoop env path fuel t)
  | 0, t, hf, _ => by omega
  | fuel + 1, t, hf, h => by
    unfold dedupLoop
    cases hs : t.at? path with
    | none => simp [hs] at h
    | some sub =>
      dsimp only
      cases hr : (dedupPass env t path sub).2 with
      | true =>
        simp only [↓reduceIte]
        have hlt := dedupPass_size_lt env t path sub hs hr
        exact dedupLoop_fixpoint env path fuel _ (by omega)
          (by rw [dedupPass_at? env t path sub hs]; rfl)
      | false =>
        simp only [Bool.false_eq_true, ↓reduceIte]
        rw [dedupPass_of_no_removal env t path sub hr]
        refine ⟨sub, hs, ?_⟩
        simpa [dedupPass] using hr

/-- On a fixpoint the loop does nothing, whatever the fuel. -/
theorem dedupLoop_of_fixpoint (env : Env) (path : Path) (t : Tree) (h : DedupFixpoint env path t) :
    ∀ fuel, dedupLoop env path fuel t = t
  | 0 => rfl
  | fuel + 1 => by
    obtain ⟨sub, hs, hr⟩ := h
    unfold dedupLoop
    simp only [hs]
    have : (dedupPass env t path sub).2 = false := by simp [dedupPass, hr]
    simp only [this, Bool.false_eq_true, ↓reduceIte]
    exact dedupPass_of_no_removal env t path sub this

/-- More fuel than `t.size + 1` changes nothing: the bound of the model is not a restriction. -/
theorem dedupLoop_fuel_irrelevant (env : Env) (path : Path) : ∀ (fuel extra : Nat) (t : Tree),
    t.size < fuel → dedupLoop env path (fuel + extra) t = dedupLoop env path fuel t
  | 0, _, t, hf => by omega
  | fuel + 1, extra, t, hf => by
    rw [show fuel + 1 + extra = (fuel + extra) + 1 by omega]
    unfold dedupLoop
    cases hs : t.at? path with
    | none => rfl
    | some sub =>
      dsimp only
      cases hr : (dedupPass env t path sub).2 with
      | true =>
        simp only [↓reduceIte]
        have hlt := dedupPass_size_lt env t path sub hs hr
        exact dedupLoop_fuel_irrelevant env path fuel extra _ (by omega)
      | false => rfl

theorem deduplicateNamespaces_isSome (env : Env) (t t' : Tree) (path : Path)
    (h : deduplicateNamespaces env t path = some t') : ∃ sub, t.at? path = some sub := by
  unfold deduplicateNamespaces at h
  cases hs : t.at? path with
  | none => simp [hs] at h
  | some sub => exact ⟨sub, rfl⟩

/-- `dedupLoop_fuel_suffices`: the result of `deduplicate_namespaces` is a tree on which a pass
    removes nothing. -/
theorem deduplicateNamespaces_fixpoint (env : Env) (t t' : Tree) (path : Path)
    (h : deduplicateNamespaces env t path = some t') : DedupFixpoint env path t' := by
  obtain ⟨sub, hs⟩ := deduplicateNamespaces_isSome env t t' path h
  simp only [deduplicateNamespaces, hs, Option.some.injEq] at h
  subst h
  exact dedupLoop_fixpoint env path (t.size + 1) t (by omega) (by rw [hs]; rfl)

/-- A second call removes nothing. -/
theorem deduplicateNamespaces_idem (env : Env) (t t' : Tree) (path : Path)
    (h : deduplicateNamespaces env t path = some t') : deduplicateNamespaces env t' path = some t' := by
  have hf := deduplicateNamespaces_fixpoint env t t' path h
  obtain ⟨sub', hs', _⟩ := id hf
  simp only [deduplicateNamespaces, hs', Option.some.injEq]
  exact dedupLoop_of_fixpoint env path t' hf _

end XotModel
