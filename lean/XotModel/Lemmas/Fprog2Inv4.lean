/-
  Lemmas for C20 (extended construction programs), part 7: `clone_node` preserves the C04 invariant
  on the SPECIFICATION side — `specClone n f` in a forest without adjacent text nodes.  Structural
  validity only depends on the tree with the handles forgotten (`validTree_congr`), and the copy
  erases to the source (C12: `cloneNode_full`, `specCloneContent_normal`).
-/
import XotModel.Lemmas.Fprog2Inv1
import XotModel.Lemmas.FspecClone

namespace XotModel
namespace Prog2
open HTree Spec Prog Fmap
open Forest (entryKey)

/-! ### Validity is a property of the erased tree -/

def rootValue : Tree → Value
  | .node v _ => v

theorem value_eq_rootValue (t : HTree) : t.value = rootValue t.erase := by
  cases t; rfl

theorem map_value_eq_erase : ∀ ks : List HTree, ks.map HTree.value = (eraseList ks).map rootValue
  | [] => rfl
  | k :: ks => by
    simp only [List.map_cons, eraseList, value_eq_rootValue k, map_value_eq_erase ks]

def kidsOrderedV : List Value → Bool
  | [] => true
  | [_] => true
  | a :: b :: rest => a.category.rank ≤ b.category.rank && kidsOrderedV (b :: rest)

def noAdjacentTextV : List Value → Bool
  | [] => true
  | [_] => true
  | a :: b :: rest => !(a.isText && b.isText) && noAdjacentTextV (b :: rest)

theorem kidsOrdered_eq_V : ∀ ks : List HTree, kidsOrdered ks = kidsOrderedV (ks.map HTree.value)
  | [] => rfl
  | [_] => rfl
  | a :: b :: rest => by
    have ih := kidsOrdered_eq_V (b :: rest)
    simp only [List.map_cons] at ih ⊢
    simp only [kidsOrdered, kidsOrderedV, ih]

theorem noAdjacentText_eq_V : ∀ ks : List HTree, noAdjacentText ks = noAdjacentTextV (ks.map HTree.value)
  | [] => rfl
  | [_] => rfl
  | a :: b :: rest => by
    have ih := noAdjacentText_eq_V (b :: rest)
    simp only [List.map_cons] at ih ⊢
    simp only [noAdjacentText, noAdjacentTextV, ih]

theorem keys_eq_V (c : Category) : ∀ ks : List HTree,
    (ks.filter (fun k => k.value.category == c)).map (fun k => entryKey k.value) =
      ((ks.map HTree.value).filter (fun v => v.category == c)).map entryKey
  | [] => rfl
  | k :: ks => by
    simp only [List.map_cons, List.filter_cons]
    split
    · simp only [List.map_cons, keys_eq_V c ks]
    · exact keys_eq_V c ks

/-- The local conditions of a child list are a function of the children's values. -/
theorem localOK_congr {b : Bool} {v : Value} {ks ks' : List HTree}
    (h : ks.map HTree.value = ks'.map HTree.value) : localOK b v ks = localOK b v ks' := by
  have h1 : ks.all (fun k => kidAllowed v k.value) = ks'.all (fun k => kidAllowed v k.value) := by
    have e : ∀ L : List HTree, L.all (fun k => kidAllowed v k.value) = (L.map HTree.value).all (kidAllowed v) := by
      intro L; rw [List.all_map]; rfl
    rw [e ks, e ks', h]
  simp only [localOK, h1, kidsOrdered_eq_V, noAdjacentText_eq_V, keysUnique, keys_eq_V, h]

mutual
  theorem validTree_congr (b : Bool) : ∀ t u : HTree, t.erase = u.erase → validTree b t = validTree b u
    | .node h v ks, .node h' v' ks' => by
      intro e
      simp only [HTree.erase, Tree.node.injEq] at e
      obtain ⟨e1, e2⟩ := e
      subst e1
      rw [validTree_eq, validTree_eq, validList_congr b ks ks' e2]
      have hm : ks.map HTree.value = ks'.map HTree.value := by
        rw [map_value_eq_erase ks, map_value_eq_erase ks', e2]
      rw [localOK_congr hm]
  theorem validList_congr (b : Bool) : ∀ ks ks' : List HTree, eraseList ks = eraseList ks' →
      validList b ks = validList b ks'
    | [], [] => fun _ => rfl
    | [], _ :: _ => by intro e; simp [eraseList] at e
    | _ :: _, [] => by intro e; simp [eraseList] at e
    | k :: ks, k' :: ks' => by
      intro e
      simp only [eraseList, List.cons.injEq] at e
      rw [fs_validList_cons, fs_validList_cons, validTree_congr b k k' e.1, validList_congr b ks ks' e.2]
end

/-! ### clone_node -/

/-- **`specClone` preserves the invariant** (forests without adjacent text nodes). -/
theorem specClone_inv {f : Forest} {n : Nat} {src : HTree} (inv : f.Inv) (norm : f.Normal)
    (hg : f.get? n = some src) : (specClone n f).Inv := by
  obtain ⟨C, f', h1, h2, _, h4, h5, h6, h7, h8, h9, h10⟩ := cloneNode_full f inv n src hg
  have hex := cloneNode_eq_specClone inv hg
  rw [h1] at hex
  simp only at hex
  subst hex
  -- the copy erases to the source
  have hCe : C.erase = src.erase := by
    have h := specCloneContent_normal norm hg
    unfold specCloneContent at h
    rw [hg] at h
    simp only at h
    have := List.append_cancel_left h
    rw [h6]
    simpa using this
  have hsv : validTree (!f.everOff) src = true := valid_findList f.roots src inv.valid hg
  refine ⟨by rw [h9]; exact inv.notCorrupt, h10, ?_, ?_, by rw [h7, h8]; exact inv.consOn⟩
  · intro z hz
    have : z ∈ f.allHandles ++ handles C := by
      have e : (specClone n f).allHandles = f.allHandles ++ handles C := by
        show handlesList (specClone n f).roots = _
        rw [h2, fs_handlesList_append, handlesList_cons, handlesList_nil, List.append_nil]
        rfl
      rw [← e]; exact hz
    rcases List.mem_append.1 this with e | e
    · exact Nat.lt_of_lt_of_le (inv.below z e) h5
    · exact (h4 z e).2
  · rw [h8, h2, Fmap.validList_append, Bool.and_eq_true, fs_validList_cons, Bool.and_eq_true]
    exact ⟨inv.valid, by rw [validTree_congr _ C src hCe]; exact hsv, rfl⟩

theorem specClone_fields {f : Forest} {n : Nat} {src : HTree} (hg : f.get? n = some src) :
    (specClone n f).consolidation = f.consolidation ∧ (specClone n f).everOff = f.everOff := by
  unfold specClone
  rw [hg]
  exact ⟨rfl, rfl⟩

end Prog2
end XotModel
