/-
  XotModel.Lemmas.SpanDescWitness — closed token lists used by the non-vacuity `example`s of
  Props/C17.lean (spans set to 0 are filled in by `placeTokens`; see the examples for the texts).
-/
import XotModel.Lemmas.ParseWitness

namespace XotModel.Witness

/-- `<p:a b="1">x<!--c--></p:a>`. -/
def lexWitness : List Token :=
  [.elementStart ⟨['p'], 0⟩ ⟨['a'], 0⟩ ⟨[], 0⟩, .attribute ⟨[], 0⟩ ⟨['b'], 0⟩ ⟨['1'], 0⟩ ⟨[], 0⟩,
   .elementEnd .open ⟨[], 0⟩, .text ⟨['x'], 0⟩, .comment ⟨['c'], 0⟩ ⟨[], 0⟩,
   .elementEnd (.close ⟨['p'], 0⟩ ⟨['a'], 0⟩) ⟨[], 0⟩]

/-- `<p:a xmlns:p="u" b="x&#10;y">t&lt;<![CDATA[c]]><!--k--><?pi d?></p:a>`. -/
def sliceWitness : List Token :=
  [.elementStart ⟨['p'], 0⟩ ⟨['a'], 0⟩ ⟨[], 0⟩,
   .attribute ⟨['x', 'm', 'l', 'n', 's'], 0⟩ ⟨['p'], 0⟩ ⟨['u'], 0⟩ ⟨[], 0⟩,
   .attribute ⟨[], 0⟩ ⟨['b'], 0⟩ ⟨['x', '&', '#', '1', '0', ';', 'y'], 0⟩ ⟨[], 0⟩,
   .elementEnd .open ⟨[], 0⟩, .text ⟨['t', '&', 'l', 't', ';'], 0⟩, .cdata ⟨['c'], 0⟩ ⟨[], 0⟩,
   .comment ⟨['k'], 0⟩ ⟨[], 0⟩, .pi ⟨['p', 'i'], 0⟩ (some ⟨['d'], 0⟩) ⟨[], 0⟩,
   .elementEnd (.close ⟨['p'], 0⟩ ⟨['a'], 0⟩) ⟨[], 0⟩]

/-- What is looked at in the parse result (a `Bool`, so that the kernel can evaluate it). -/
def sliceWitnessCheck (r : BuildResult) : Bool :=
  match r with
  | .ok p =>
    (match p.tree.at? [0] with
     | some (.node (.element _) ks) =>
       ks.any (fun k => match k.value with | .attribute _ v => v == ['x', '\n', 'y'] | _ => false)
     | _ => false) &&
    (match p.tree.at? [0, 2] with | some (.node (.text v) _) => v == ['t', '<', 'c'] | _ => false) &&
    (match p.tree.at? [0, 3] with | some (.node (.comment v) _) => v == ['k'] | _ => false) &&
    (match p.tree.at? [0, 4] with | some (.node (.pi _ d) _) => d == some ['d'] | _ => false) &&
    p.spans.get ⟨[0], .elementStart⟩ == some ⟨1, 4⟩ && p.spans.get ⟨[0, 2], .text⟩ == some ⟨29, 44⟩
  | _ => false

/-- The spans around which Props/C17.lean shows the delimiters, on the same text: `ElementEnd` = `</p:a>`
    (63..69), the comment body `k` (51..52), the PI target `pi` (57..59) and data `d` (60..61). -/
def delimWitnessCheck (r : BuildResult) : Bool :=
  match r with
  | .ok p =>
    p.spans.get ⟨[0], .elementEnd⟩ == some ⟨63, 69⟩ && p.spans.get ⟨[0, 3], .comment⟩ == some ⟨51, 52⟩ &&
    p.spans.get ⟨[0, 4], .piTarget⟩ == some ⟨57, 59⟩ && p.spans.get ⟨[0, 4], .piContent⟩ == some ⟨60, 61⟩
  | _ => false

/-- `<a><![CDATA[c]]>t</a>`: a text node whose run starts with a CDATA section. -/
def cdataFirstWitness : List Token :=
  [.elementStart ⟨[], 0⟩ ⟨['a'], 0⟩ ⟨[], 0⟩, .elementEnd .open ⟨[], 0⟩, .cdata ⟨['c'], 0⟩ ⟨[], 0⟩,
   .text ⟨['t'], 0⟩, .elementEnd (.close ⟨[], 0⟩ ⟨['a'], 0⟩) ⟨[], 0⟩]

def cdataFirstCheck (r : BuildResult) : Bool :=
  match r with
  | .ok p =>
    (match p.tree.at? [0, 0] with | some (.node (.text v) _) => v == ['c', 't'] | _ => false) &&
    p.spans.get ⟨[0, 0], .text⟩ == some ⟨12, 17⟩
  | _ => false

/-- `<?XmL d?><a/>` (13 bytes) and `<a xmlns:p=""/>` (15 bytes), with their positions. -/
def xmlPiDoc : List Token :=
  [.pi ⟨['X', 'm', 'L'], 2⟩ (some ⟨['d'], 6⟩) ⟨['<', '?', 'X', 'm', 'L', ' ', 'd', '?', '>'], 0⟩,
   .elementStart ⟨[], 0⟩ ⟨['a'], 10⟩ ⟨['<', 'a'], 9⟩, .elementEnd .empty ⟨['/', '>'], 11⟩]

def undeclDoc : List Token :=
  [.elementStart ⟨[], 0⟩ ⟨['a'], 1⟩ ⟨['<', 'a'], 0⟩,
   .attribute ⟨['x', 'm', 'l', 'n', 's'], 3⟩ ⟨['p'], 9⟩ ⟨[], 12⟩ ⟨['x', 'm', 'l', 'n', 's', ':', 'p', '=', '"', '"'], 3⟩,
   .elementEnd .empty ⟨['/', '>'], 13⟩]

/-- `<a><!--x\r\ny--><?p u\rv?></a>`. -/
def crWitness : List Token :=
  [.elementStart ⟨[], 0⟩ ⟨['a'], 0⟩ ⟨[], 0⟩, .elementEnd .open ⟨[], 0⟩,
   .comment ⟨['x', '\r', '\n', 'y'], 0⟩ ⟨[], 0⟩, .pi ⟨['p'], 0⟩ (some ⟨['u', '\r', 'v'], 0⟩) ⟨[], 0⟩,
   .elementEnd (.close ⟨[], 0⟩ ⟨['a'], 0⟩) ⟨[], 0⟩]

def crWitnessCheck (r : BuildResult) : Bool :=
  match r with
  | .ok p =>
    (match p.tree.at? [0, 0] with | some (.node (.comment v) _) => v == ['x', '\n', 'y'] | _ => false) &&
    (match p.tree.at? [0, 1] with | some (.node (.pi _ d) _) => d == some ['u', '\n', 'v'] | _ => false) &&
    p.spans.get ⟨[0, 0], .comment⟩ == some ⟨7, 11⟩ && p.spans.get ⟨[0, 1], .piTarget⟩ == some ⟨16, 17⟩ &&
    p.spans.get ⟨[0, 1], .piContent⟩ == some ⟨18, 21⟩
  | _ => false

end XotModel.Witness
