/-
  Round trip, strengthening: a tree all of whose strings are already interned in `env` is what
  `NPNode.encode` (ids interned in document order, Lemmas/ParseNsDefs.lean) makes of the abstract
  document it reads back as — interning adds nothing, every id comes back:
  `encodeList env ds = (env, ks)` when `decodeNs env ks = some ds`.  Hence the reparsed tree of C01_main
  IS the original tree, and the tables are unchanged.
-/
import XotModel.Lemmas.RoundTripTop

namespace XotModel

variable {env : Env}

/-! ### Interning what is there -/

theorem getD_eq_getElem_of_lt {α : Type} {l : List α} {i : Nat} (d : α) (hi : i < l.length) :
    l.getD i d = l[i] := by
  simp [List.getD_eq_getElem?_getD, List.getElem?_eq_getElem hi]

theorem idxOf_getD {α : Type} [BEq α] [LawfulBEq α] {l : List α} (hn : l.Nodup) {i : Nat} (d : α)
    (hi : i < l.length) : l.getD i d ∈ l ∧ l.idxOf (l.getD i d) = i := by
  rw [getD_eq_getElem_of_lt d hi]
  exact ⟨List.getElem_mem hi, List.Nodup.idxOf_getElem hn i hi⟩

theorem EnvFacts.internPrefix_id (he : EnvFacts env) {p : Nat} (hp : p < env.prefixes.length) :
    env.internPrefix (env.prefixStr p) = (env, p) := by
  obtain ⟨h1, h2⟩ := idxOf_getD he.pNodup ([] : Str) hp
  unfold Env.prefixStr
  rw [internPrefix_of_mem h1, h2]

theorem EnvFacts.internNamespace_id (he : EnvFacts env) {n : Nat} (hn : n < env.namespaces.length) :
    env.internNamespace (env.namespaceStr n) = (env, n) := by
  obtain ⟨h1, h2⟩ := idxOf_getD he.nsNodup ([] : Str) hn
  unfold Env.namespaceStr
  rw [internNamespace_of_mem h1, h2]

theorem EnvFacts.internName_id (he : EnvFacts env) {n : Nat} (hn : n < env.names.length) :
    env.internName (env.localName n) (env.nsOfName n) = (env, n) := by
  obtain ⟨h1, h2⟩ := idxOf_getD he.nNodup (([], 0) : Str × Nat) hn
  unfold Env.internName
  have : (env.localName n, env.nsOfName n) = env.names.getD n ([], 0) := rfl
  rw [this, internIn_of_mem h1, h2]

/-! ### Sorted child lists -/

def isPhase (i : Nat) (k : Tree) : Bool := k.value.phase == i

theorem rt_phase_le_two (v : Value) : v.phase ≤ 2 := by cases v <;> simp [Value.phase]

theorem filter_cons_phase (i : Nat) (k : Tree) (ks : List Tree) :
    (k :: ks).filter (isPhase i) = if k.value.phase = i then k :: ks.filter (isPhase i) else ks.filter (isPhase i) := by
  simp only [List.filter_cons, isPhase, beq_iff_eq]

theorem sorted_split : ∀ (ks : List Tree), OrderedKids ks →
    ks = ks.filter (isPhase 0) ++ (ks.filter (isPhase 1) ++ ks.filter (isPhase 2))
  | [], _ => rfl
  | k :: ks, hord => by
    obtain ⟨h1, h2⟩ := List.pairwise_cons.mp hord
    have ih := sorted_split ks h2
    have hle := rt_phase_le_two k.value
    have hnone : ∀ i, i < k.value.phase → ks.filter (isPhase i) = [] := fun i hi =>
      List.filter_eq_nil_iff.mpr (fun b hb => by
        have := h1 b hb
        simp only [isPhase, beq_iff_eq]
        omega)
    by_cases p0 : k.value.phase = 0
    · simpa [filter_cons_phase, p0] using ih
    · by_cases p1 : k.value.phase = 1
      · have a0 := hnone 0 (by omega)
        simpa [filter_cons_phase, p1, a0] using ih
      · have p2 : k.value.phase = 2 := by omega
        have a0 := hnone 0 (by omega)
        have a1 := hnone 1 (by omega)
        simpa [filter_cons_phase, p2, a0, a1] using ih

/-! ### The tree induction -/

/-- The hypotheses on a node: `nodeOK` and `nsInterned` everywhere below. -/
def Interned (env : Env) (n : Tree) : Prop :=
  n.allNodes (nodeOK env) = true ∧ n.allNodes (nsInterned env) = true

theorem Interned.kid {v : Value} {ks : List Tree} (h : Interned env (.node v ks)) {k : Tree} (hk : k ∈ ks) :
    Interned env k :=
  ⟨allNodes_kid h.1 hk, allNodes_kid h.2 hk⟩

theorem valueOK_element_lt {name : Nat} (h : valueOK env (.element name) = true) : name < env.names.length := by
  simp only [valueOK, ncNameNE, Bool.and_eq_true, Bool.not_eq_true', List.isEmpty_eq_false_iff] at h
  exact EnvFacts.name_lt_of_ne h.2

theorem valueOK_pi_facts {target : Nat} {data : Option Str} (h : valueOK env (.pi target data) = true) :
    target < env.names.length ∧ env.nsOfName target = Env.noNamespace := by
  simp only [valueOK, ncNameNE, Bool.and_eq_true, Bool.not_eq_true', List.isEmpty_eq_false_iff, beq_iff_eq] at h
  exact ⟨EnvFacts.name_lt_of_ne h.1.1.2.2, h.1.1.1⟩

theorem valueOK_namespace_lt (he : EnvFacts env) {p ns : Nat} (h : valueOK env (.namespace p ns) = true) :
    p < env.prefixes.length ∧ ns < env.namespaces.length := by
  obtain ⟨_, _, h3, h4⟩ := valueOK_namespace_facts h
  constructor
  · by_cases hp : p = Env.emptyPrefix
    · rw [hp]; exact he.emptyPrefix_lt
    · exact EnvFacts.prefix_lt_of_ne (h3 hp).1
  · by_cases hn : ns = Env.noNamespace
    · rw [hn]; exact he.noNamespace_lt
    · exact EnvFacts.namespace_lt_of_ne (h4 hn)

/-- A content node decodes to a content item. -/
theorem decode_normal {k : Tree} {a : NItem} (h : decodeNsTree env k = some a) (hp : k.value.phase = 2) :
    ∃ d, a = .node d := by
  cases k with
  | node v kk =>
    cases v with
    | document => simp [decodeNsTree] at h
    | «attribute» x y => simp [Tree.value, Value.phase] at hp
    | «namespace» x y => simp [Tree.value, Value.phase] at hp
    | text str => cases kk <;> simp [decodeNsTree] at h; exact ⟨_, h.symm⟩
    | comment str => cases kk <;> simp [decodeNsTree] at h; exact ⟨_, h.symm⟩
    | pi target data => cases kk <;> simp [decodeNsTree] at h; exact ⟨_, h.symm⟩
    | element name =>
      simp only [decodeNsTree] at h
      cases hitems : decodeNsTree.decodeItems env kk with
      | none => simp [hitems] at h
      | some items =>
        simp only [hitems, Option.some.injEq] at h
        exact ⟨_, h.symm⟩

section Steps

variable {ks : List Tree} {as : List NItem}
  (i1 : encodeDecls env (as.filterMap NItem.decl?) = (env, ks.filter (isPhase 0)))
  (i2 : encodeNsAttrs env (as.filterMap NItem.attr?) = (env, ks.filter (isPhase 1)))
  (i3 : NPNode.encode.encodeList env (as.filterMap NItem.node?) = (env, ks.filter (isPhase 2)))
include i1 i2 i3

theorem kids_step_decl (he : EnvFacts env) {p ns : Nat} (hp : p < env.prefixes.length)
    (hns : ns < env.namespaces.length) :
    encodeDecls env ((NItem.decl (env.prefixStr p, env.namespaceStr ns) :: as).filterMap NItem.decl?) =
        (env, (Tree.node (.namespace p ns) [] :: ks).filter (isPhase 0)) ∧
      encodeNsAttrs env ((NItem.decl (env.prefixStr p, env.namespaceStr ns) :: as).filterMap NItem.attr?) =
        (env, (Tree.node (.namespace p ns) [] :: ks).filter (isPhase 1)) ∧
      NPNode.encode.encodeList env ((NItem.decl (env.prefixStr p, env.namespaceStr ns) :: as).filterMap NItem.node?) =
        (env, (Tree.node (.namespace p ns) [] :: ks).filter (isPhase 2)) := by
  simp only [encodeDecls, Prod.mk.injEq] at i1
  refine ⟨?_, ?_, ?_⟩
  · simp only [List.filterMap_cons, NItem.decl?, encodeDecls, declIds, he.internPrefix_id hp,
      he.internNamespace_id hns, List.map_cons, i1.1, i1.2, filter_cons_phase, Tree.value, Value.phase, if_true]
  · simpa [List.filterMap_cons, NItem.attr?, filter_cons_phase, Tree.value, Value.phase] using i2
  · simpa [List.filterMap_cons, NItem.node?, filter_cons_phase, Tree.value, Value.phase] using i3

theorem kids_step_attr (he : EnvFacts env) {name : Nat} {val : Str} (hname : name < env.names.length)
    (hns : env.nsOfName name < env.namespaces.length) :
    encodeDecls env ((NItem.attr (env.expanded name, val) :: as).filterMap NItem.decl?) =
        (env, (Tree.node (.attribute name val) [] :: ks).filter (isPhase 0)) ∧
      encodeNsAttrs env ((NItem.attr (env.expanded name, val) :: as).filterMap NItem.attr?) =
        (env, (Tree.node (.attribute name val) [] :: ks).filter (isPhase 1)) ∧
      NPNode.encode.encodeList env ((NItem.attr (env.expanded name, val) :: as).filterMap NItem.node?) =
        (env, (Tree.node (.attribute name val) [] :: ks).filter (isPhase 2)) := by
  refine ⟨?_, ?_, ?_⟩
  · simpa [List.filterMap_cons, NItem.decl?, filter_cons_phase, Tree.value, Value.phase] using i1
  · simp only [List.filterMap_cons, NItem.attr?, Env.expanded, encodeNsAttrs, he.internNamespace_id hns,
      he.internName_id hname, i2, filter_cons_phase, Tree.value, Value.phase, if_true]
  · simpa [List.filterMap_cons, NItem.node?, filter_cons_phase, Tree.value, Value.phase] using i3

theorem kids_step_node {k : Tree} {d : NPNode} (hk : d.encode env = (env, k)) (hp : k.value.phase = 2) :
    encodeDecls env ((NItem.node d :: as).filterMap NItem.decl?) = (env, (k :: ks).filter (isPhase 0)) ∧
      encodeNsAttrs env ((NItem.node d :: as).filterMap NItem.attr?) = (env, (k :: ks).filter (isPhase 1)) ∧
      NPNode.encode.encodeList env ((NItem.node d :: as).filterMap NItem.node?) =
        (env, (k :: ks).filter (isPhase 2)) := by
  refine ⟨?_, ?_, ?_⟩
  · simpa [List.filterMap_cons, NItem.decl?, filter_cons_phase, hp] using i1
  · simpa [List.filterMap_cons, NItem.attr?, filter_cons_phase, hp] using i2
  · simp only [List.filterMap_cons, NItem.node?, NPNode.encode.encodeList, hk, i3, filter_cons_phase, hp, if_true]

end Steps

mutual
/-- A content node (element, text, comment, PI). -/
theorem encode_decode_node (he : EnvFacts env) (n : Tree) (hi : Interned env n) (d : NPNode)
    (hd : decodeNsTree env n = some (.node d)) : d.encode env = (env, n) := by
  cases n with
  | node v ks =>
    have hval := allNodes_value env hi.1
    cases v with
    | document => simp [decodeNsTree] at hd
    | «attribute» a b => cases ks <;> simp [decodeNsTree] at hd
    | «namespace» a b => cases ks <;> simp [decodeNsTree] at hd
    | text str =>
      cases ks <;> simp [decodeNsTree] at hd
      subst hd; rfl
    | comment str =>
      cases ks <;> simp [decodeNsTree] at hd
      subst hd; rfl
    | pi target data =>
      cases ks <;> simp [decodeNsTree] at hd
      subst hd
      obtain ⟨h1, h2⟩ := valueOK_pi_facts hval
      have := he.internName_id h1
      rw [h2] at this
      simp only [NPNode.encode, this]
    | element name =>
      simp only [decodeNsTree] at hd
      cases hitems : decodeNsTree.decodeItems env ks with
      | none => simp [hitems] at hd
      | some items =>
        simp only [hitems, Option.some.injEq, NItem.node.injEq] at hd
        subst hd
        have hnode : nodeOK env (.element name) ks = true := by
          have := hi.1; rw [allNodes_node, Bool.and_eq_true] at this; exact this.1
        obtain ⟨hord, hkinds, _, _, _⟩ := (nodeOK_iff env _ ks).mp hnode
        have hself : nsInterned env (.element name) ks = true := by
          have := hi.2; rw [allNodes_node, Bool.and_eq_true] at this; exact this.1
        simp only [nsInterned, Bool.and_eq_true, decide_eq_true_eq, List.all_eq_true] at hself
        obtain ⟨k1, k2, k3⟩ := encode_decode_kids he ks (fun k hk => hi.kid hk) hkinds.2.2 hself.2 items hitems
        have hn := he.internNamespace_id hself.1
        have hm := he.internName_id (valueOK_element_lt hval)
        simp only [Env.expanded, NPNode.encode, k1, hn, hm, k2, k3]
        rw [← sorted_split ks hord]

/-- A child list: declarations, attributes and content nodes, each kind in order. -/
theorem encode_decode_kids (he : EnvFacts env) (ks : List Tree) (hi : ∀ k ∈ ks, Interned env k)
    (hdoc : ∀ k ∈ ks, k.value.isDocument = false)
    (hattr : ∀ a ∈ kidAttrs ks, env.nsOfName a.1 < env.namespaces.length) (items : List NItem)
    (hd : decodeNsTree.decodeItems env ks = some items) :
    encodeDecls env (items.filterMap NItem.decl?) = (env, ks.filter (isPhase 0)) ∧
      encodeNsAttrs env (items.filterMap NItem.attr?) = (env, ks.filter (isPhase 1)) ∧
      NPNode.encode.encodeList env (items.filterMap NItem.node?) = (env, ks.filter (isPhase 2)) := by
  cases ks with
  | nil =>
    simp only [decodeNsTree.decodeItems, Option.some.injEq] at hd
    subst hd
    exact ⟨rfl, rfl, rfl⟩
  | cons k ks =>
    obtain ⟨a, as, hk, hks, rfl⟩ := decodeItems_cons_some hd
    have hattr' : ∀ a ∈ kidAttrs ks, env.nsOfName a.1 < env.namespaces.length := fun a' ha' =>
      hattr a' (by simp only [kidAttrs, List.filterMap_cons] at ha' ⊢; split <;> simp [ha'])
    obtain ⟨i1, i2, i3⟩ := encode_decode_kids he ks (fun k' hk' => hi k' (by simp [hk']))
      (fun k' hk' => hdoc k' (by simp [hk'])) hattr' as hks
    have hik := hi k (by simp)
    have hval := allNodes_value env hik.1
    cases k with
    | node v kk =>
      cases v with
      | document => simp [decodeNsTree] at hk
      | «namespace» p ns =>
        cases kk <;> simp [decodeNsTree] at hk
        subst hk
        obtain ⟨hp, hns⟩ := valueOK_namespace_lt he hval
        exact kids_step_decl i1 i2 i3 he hp hns
      | «attribute» name val =>
        cases kk <;> simp [decodeNsTree] at hk
        subst hk
        exact kids_step_attr i1 i2 i3 he (EnvFacts.name_lt_of_ne (valueOK_attribute_facts hval).1)
          (hattr (name, val) (by simp [kidAttrs, attrPair, Tree.value]))
      | text str =>
        obtain ⟨d, rfl⟩ := decode_normal hk rfl
        exact kids_step_node i1 i2 i3 (encode_decode_node he _ hik d hk) rfl
      | comment str =>
        obtain ⟨d, rfl⟩ := decode_normal hk rfl
        exact kids_step_node i1 i2 i3 (encode_decode_node he _ hik d hk) rfl
      | pi target data =>
        obtain ⟨d, rfl⟩ := decode_normal hk rfl
        exact kids_step_node i1 i2 i3 (encode_decode_node he _ hik d hk) rfl
      | element name =>
        obtain ⟨d, rfl⟩ := decode_normal hk rfl
        exact kids_step_node i1 i2 i3 (encode_decode_node he _ hik d hk) rfl
end

/-- Encoding the abstract document a whole tree reads back as gives the tree back and interns
    nothing. -/
theorem spellTop_encode {ks : List Tree} {ts : List Token} (hf : TopFacts env ks ts) :
    NPNode.encode.encodeList env (NSNode.denote.denoteList baseScope (spellTop env (.node .document ks))) =
      (env, ks) := by
  obtain ⟨_, items, h1, h2, _⟩ := spellTop_denote hf
  have hv := serKids_nsInterned hf.he basePrefixes ks _ _ _ (ScopeRel.base hf.he) hf.hkids ts hf.hser
  obtain ⟨_, _, k3⟩ := encode_decode_kids hf.he ks (fun k hk => ⟨hf.hkids k hk, hv k hk⟩) hf.hdocs
    (by rw [(kids_normal_none ks hf.hnormal).2]; intro a ha; cases ha) items h1
  rw [h2, k3]
  congr 1
  apply List.filter_eq_self.mpr
  intro k hk
  have := (phase_normal k.value).mp (hf.hnormal k hk)
  simp [isPhase, this]

end XotModel
