/-
  Lemmas for C11, part 2: locality.  With distinct handles, a rewrite at a direct child `c` of
  the node `e` (`mapAt c g`, `replaceKids c fn`) is the same as rewriting `e`'s child list in
  place (`mapAt e (atKids F)`); handle lists under such a rewrite.
-/
import XotModel.Lemmas.FmapTree

namespace XotModel
namespace Fmap
open HTree

/-- Rewrite the child list of a node. -/
def atKids (F : List HTree → List HTree) (n : HTree) : HTree := n.setKids (F n.kids)

@[simp] theorem atKids_handle (F : List HTree → List HTree) (n : HTree) :
    (atKids F n).handle = n.handle := by
  cases n; rfl

@[simp] theorem atKids_value (F : List HTree → List HTree) (n : HTree) :
    (atKids F n).value = n.value := by
  cases n; rfl

@[simp] theorem atKids_kids (F : List HTree → List HTree) (n : HTree) :
    (atKids F n).kids = F n.kids := by
  cases n; rfl

theorem atKids_node (F : List HTree → List HTree) (h : Nat) (v : Value) (ks : List HTree) :
    atKids F (.node h v ks) = .node h v (F ks) := rfl

theorem handlesList_append (a b : List HTree) :
    handlesList (a ++ b) = handlesList a ++ handlesList b := by
  induction a with
  | nil => simp [handlesList]
  | cons x a ih => simp [handlesList, ih]

/-- What lies strictly below a found node lies strictly below the tree searched. -/
theorem find?_kids_sub' (e : Nat) (k t : HTree) (hf : find? e k = some t) :
    ∀ x, x ∈ handlesList t.kids → x ∈ handlesList k.kids := by
  intro x hx
  by_cases hk : k.handle = e
  · cases k with
    | node h' v ks =>
      simp only [HTree.handle] at hk
      simp only [find?, if_pos hk] at hf
      cases hf; exact hx
  · apply find?_kids_sub e k t hf hk
    rw [handles_eq]; exact List.mem_cons_of_mem _ hx

mutual
  theorem mapAt_inside (e c : Nat) (g : HTree → HTree) : ∀ (k t : HTree), (handles k).Nodup →
      find? e k = some t → c ∈ handlesList t.kids →
      mapAt c g k = mapAt e (atKids (mapAtList c g)) k
    | .node h' v ks, t => by
      intro hnd hf hc
      have hcm : c ∈ handlesList ks := find?_kids_sub' e _ t hf c hc
      simp only [handles, List.nodup_cons] at hnd
      have hne : h' ≠ c := fun hh => hnd.1 (hh ▸ hcm)
      simp only [find?] at hf
      simp only [mapAt]
      rw [if_neg hne]
      split at hf
      · rename_i hh
        rw [if_pos hh]; rfl
      · rename_i hh
        rw [if_neg hh, mapAtList_inside e c g ks t hnd.2 hf hc]
  theorem mapAtList_inside (e c : Nat) (g : HTree → HTree) : ∀ (ks : List HTree) (t : HTree),
      (handlesList ks).Nodup → findList? e ks = some t → c ∈ handlesList t.kids →
      mapAtList c g ks = mapAtList e (atKids (mapAtList c g)) ks
    | [], t => by simp [findList?]
    | k :: ks, t => by
      intro hnd hf hc
      simp only [handlesList] at hnd
      have hnd' := List.nodup_append.mp hnd
      simp only [findList?] at hf
      simp only [mapAtList]
      cases hk : find? e k with
      | some t' =>
        rw [hk] at hf; cases hf
        have hck : c ∈ handles k := by
          rw [handles_eq]; exact List.mem_cons_of_mem _ (find?_kids_sub' e k _ hk c hc)
        have hek : e ∈ handles k := find?_mem e k _ hk
        have h1 : c ∉ handlesList ks := fun hx => hnd'.2.2 _ hck _ hx rfl
        have h2 : e ∉ handlesList ks := fun hx => hnd'.2.2 _ hek _ hx rfl
        rw [mapAt_inside e c g k _ hnd'.1 hk hc, mapAtList_not_mem c g ks h1,
          mapAtList_not_mem e _ ks h2]
      | none =>
        rw [hk] at hf
        have h2 : e ∉ handles k := not_mem_of_find?_none e k hk
        have hcm : c ∈ handlesList ks := by
          apply findList?_sub e ks t hf
          rw [handles_eq]; exact List.mem_cons_of_mem _ hc
        have h1 : c ∉ handles k := fun hx => hnd'.2.2 _ hx _ hcm rfl
        rw [mapAt_not_mem c g k h1, mapAt_not_mem e _ k h2,
          mapAtList_inside e c g ks t hnd'.2.1 hf hc]
end

mutual
  theorem replaceBelow_inside (e c : Nat) (fn : HTree → List HTree) : ∀ (k t : HTree),
      (handles k).Nodup → find? e k = some t → c ∈ handlesList t.kids →
      replaceBelow c fn k = mapAt e (atKids (replaceKids c fn)) k
    | .node h' v ks, t => by
      intro hnd hf hc
      simp only [handles, List.nodup_cons] at hnd
      simp only [find?] at hf
      simp only [replaceBelow, mapAt]
      split at hf
      · rename_i hh
        rw [if_pos hh]; rfl
      · rename_i hh
        rw [if_neg hh, replaceKids_inside e c fn ks t hnd.2 hf hc]
  theorem replaceKids_inside (e c : Nat) (fn : HTree → List HTree) : ∀ (ks : List HTree) (t : HTree),
      (handlesList ks).Nodup → findList? e ks = some t → c ∈ handlesList t.kids →
      replaceKids c fn ks = mapAtList e (atKids (replaceKids c fn)) ks
    | [], t => by simp [findList?]
    | k :: ks, t => by
      intro hnd hf hc
      simp only [handlesList] at hnd
      have hnd' := List.nodup_append.mp hnd
      simp only [findList?] at hf
      simp only [mapAtList, replaceKids]
      cases hk : find? e k with
      | some t' =>
        rw [hk] at hf; cases hf
        have hckk : c ∈ handlesList k.kids := find?_kids_sub' e k _ hk c hc
        have hck : c ∈ handles k := by rw [handles_eq]; exact List.mem_cons_of_mem _ hckk
        have hek : e ∈ handles k := find?_mem e k _ hk
        have h1 : c ∉ handlesList ks := fun hx => hnd'.2.2 _ hck _ hx rfl
        have h2 : e ∉ handlesList ks := fun hx => hnd'.2.2 _ hek _ hx rfl
        have h3 : k.handle ≠ c := by
          have := hnd'.1
          rw [handles_eq, List.nodup_cons] at this
          exact fun hh => this.1 (hh ▸ hckk)
        rw [if_neg h3, replaceBelow_inside e c fn k _ hnd'.1 hk hc, replaceKids_not_mem c fn ks h1,
          mapAtList_not_mem e _ ks h2]
      | none =>
        rw [hk] at hf
        have h2 : e ∉ handles k := not_mem_of_find?_none e k hk
        have hcm : c ∈ handlesList ks := by
          apply findList?_sub e ks t hf
          rw [handles_eq]; exact List.mem_cons_of_mem _ hc
        have h1 : c ∉ handles k := fun hx => hnd'.2.2 _ hx _ hcm rfl
        have h3 : k.handle ≠ c := fun hh => h1 (hh ▸ handle_mem_handles k)
        have h4 : c ∉ handlesList k.kids := fun hx => h1 (by rw [handles_eq]; exact List.mem_cons_of_mem _ hx)
        rw [if_neg h3, replaceBelow_not_mem c fn k h4, mapAt_not_mem e _ k h2,
          replaceKids_inside e c fn ks t hnd'.2.1 hf hc]
end

theorem map_replaceBelow_not_mem (c : Nat) (fn : HTree → List HTree) (ks : List HTree)
    (hn : c ∉ handlesList ks) : ks.map (replaceBelow c fn) = ks := by
  induction ks with
  | nil => rfl
  | cons k ks ih =>
    simp only [handlesList, List.mem_append, not_or] at hn
    have h4 : c ∉ handlesList k.kids := fun hx => hn.1 (by rw [handles_eq]; exact List.mem_cons_of_mem _ hx)
    simp [replaceBelow_not_mem c fn k h4, ih hn.2]

/-- The forest-level form (`roots.map (replaceBelow c fn)`). -/
theorem map_replaceBelow_inside (e c : Nat) (fn : HTree → List HTree) (ks : List HTree) (t : HTree)
    (hnd : (handlesList ks).Nodup) (hf : findList? e ks = some t) (hc : c ∈ handlesList t.kids) :
    ks.map (replaceBelow c fn) = mapAtList e (atKids (replaceKids c fn)) ks := by
  induction ks with
  | nil => simp [findList?] at hf
  | cons k ks ih =>
    simp only [handlesList] at hnd
    have hnd' := List.nodup_append.mp hnd
    simp only [findList?] at hf
    simp only [mapAtList, List.map_cons]
    cases hk : find? e k with
    | some t' =>
      rw [hk] at hf; cases hf
      have hckk : c ∈ handlesList k.kids := find?_kids_sub' e k _ hk c hc
      have hck : c ∈ handles k := by rw [handles_eq]; exact List.mem_cons_of_mem _ hckk
      have hek : e ∈ handles k := find?_mem e k _ hk
      have h1 : c ∉ handlesList ks := fun hx => hnd'.2.2 _ hck _ hx rfl
      have h2 : e ∉ handlesList ks := fun hx => hnd'.2.2 _ hek _ hx rfl
      rw [replaceBelow_inside e c fn k _ hnd'.1 hk hc, map_replaceBelow_not_mem c fn ks h1,
        mapAtList_not_mem e _ ks h2]
    | none =>
      rw [hk] at hf
      have h2 : e ∉ handles k := not_mem_of_find?_none e k hk
      have hcm : c ∈ handlesList ks := by
        apply findList?_sub e ks t hf
        rw [handles_eq]; exact List.mem_cons_of_mem _ hc
      have h1 : c ∉ handles k := fun hx => hnd'.2.2 _ hx _ hcm rfl
      have h4 : c ∉ handlesList k.kids := fun hx => h1 (by rw [handles_eq]; exact List.mem_cons_of_mem _ hx)
      rw [replaceBelow_not_mem c fn k h4, mapAt_not_mem e _ k h2, ih hnd'.2.1 hf]

/-- The forest-level form of `mapAt_inside`. -/
theorem map_mapAt_inside (e c : Nat) (g : HTree → HTree) (ks : List HTree) (t : HTree)
    (hnd : (handlesList ks).Nodup) (hf : findList? e ks = some t) (hc : c ∈ handlesList t.kids) :
    ks.map (mapAt c g) = mapAtList e (atKids (mapAtList c g)) ks := by
  rw [← mapAtList_eq_map]
  exact mapAtList_inside e c g ks t hnd hf hc

/-! ### Rewrites of a child list at a direct child -/

theorem mapAtList_direct (c : Nat) (g : HTree → HTree) (l r : List HTree) (n : HTree)
    (hn : n.handle = c) (hl : c ∉ handlesList l) (hr : c ∉ handlesList r) :
    mapAtList c g (l ++ n :: r) = l ++ g n :: r := by
  induction l with
  | nil =>
    cases n with
    | node h v ks =>
      simp only [HTree.handle] at hn
      simp [mapAtList, mapAt, hn, mapAtList_not_mem c g r hr]
  | cons x l ih =>
    simp only [handlesList, List.mem_append, not_or] at hl
    simp [mapAtList, mapAt_not_mem c g x hl.1, ih hl.2]

theorem replaceKids_direct (c : Nat) (fn : HTree → List HTree) (l r : List HTree) (n : HTree)
    (hn : n.handle = c) (hl : c ∉ handlesList l) :
    replaceKids c fn (l ++ n :: r) = l ++ fn n ++ r := by
  induction l with
  | nil => simp [replaceKids, hn]
  | cons x l ih =>
    simp only [handlesList, List.mem_append, not_or] at hl
    have h3 : x.handle ≠ c := fun hh => hl.1 (hh ▸ handle_mem_handles x)
    have h4 : c ∉ handlesList x.kids := fun hx => hl.1 (by rw [handles_eq]; exact List.mem_cons_of_mem _ hx)
    simp [replaceKids, h3, replaceBelow_not_mem c fn x h4, ih hl.2]

/-- In a child list with distinct handles, a child's handle occurs nowhere else. -/
theorem nodup_split (l r : List HTree) (n : HTree) (hnd : (handlesList (l ++ n :: r)).Nodup) :
    n.handle ∉ handlesList l ∧ n.handle ∉ handlesList r ∧
    (handlesList l).Nodup ∧ (handlesList r).Nodup ∧ (handles n).Nodup := by
  rw [handlesList_append] at hnd
  simp only [handlesList] at hnd
  have h1 := List.nodup_append.mp hnd
  have h2 := List.nodup_append.mp h1.2.1
  refine ⟨?_, ?_, h1.1, h2.2.1, h2.1⟩
  · intro hx
    exact h1.2.2 _ hx _ (List.mem_append_left _ (handle_mem_handles n)) rfl
  · intro hx
    exact h2.2.2 _ (handle_mem_handles n) _ hx rfl

/-! ### Handle lists under a rewrite of one node -/

mutual
  /-- The pre-order handle list changes only in the block of the rewritten node. -/
  theorem handles_mapAt_split (e : Nat) (g : HTree → HTree) : ∀ (k t : HTree), (handles k).Nodup →
      find? e k = some t →
      ∃ pre post, handles k = pre ++ handles t ++ post ∧
        handles (mapAt e g k) = pre ++ handles (g t) ++ post
    | .node h' v ks, t => by
      intro hnd hf
      simp only [find?] at hf
      simp only [mapAt]
      split at hf
      · rename_i hh
        cases hf
        rw [if_pos hh]
        exact ⟨[], [], by simp, by simp⟩
      · rename_i hh
        rw [if_neg hh]
        simp only [handles, List.nodup_cons] at hnd
        obtain ⟨pre, post, h1, h2⟩ := handlesList_mapAtList_split e g ks t hnd.2 hf
        exact ⟨h' :: pre, post, by simp [handles, h1], by simp [handles, h2]⟩
  theorem handlesList_mapAtList_split (e : Nat) (g : HTree → HTree) : ∀ (ks : List HTree) (t : HTree),
      (handlesList ks).Nodup → findList? e ks = some t →
      ∃ pre post, handlesList ks = pre ++ handles t ++ post ∧
        handlesList (mapAtList e g ks) = pre ++ handles (g t) ++ post
    | [], t => by simp [findList?]
    | k :: ks, t => by
      intro hnd hf
      simp only [handlesList] at hnd
      have hnd' := List.nodup_append.mp hnd
      simp only [findList?] at hf
      simp only [mapAtList, handlesList]
      cases hk : find? e k with
      | some t' =>
        rw [hk] at hf; cases hf
        have hek : e ∈ handles k := find?_mem e k _ hk
        have h2 : e ∉ handlesList ks := fun hx => hnd'.2.2 _ hek _ hx rfl
        obtain ⟨pre, post, h1, h3⟩ := handles_mapAt_split e g k _ hnd'.1 hk
        rw [mapAtList_not_mem e g ks h2]
        exact ⟨pre, post ++ handlesList ks, by simp [h1], by simp [h3]⟩
      | none =>
        rw [hk] at hf
        have h2 : e ∉ handles k := not_mem_of_find?_none e k hk
        obtain ⟨pre, post, h1, h3⟩ := handlesList_mapAtList_split e g ks t hnd'.2.1 hf
        rw [mapAt_not_mem e g k h2]
        exact ⟨handles k ++ pre, post, by simp [h1], by simp [h3]⟩
end

/-- Distinctness survives a rewrite whose new handles are new to the whole forest. -/
theorem nodup_mapAtList (e : Nat) (g : HTree → HTree) (ks : List HTree) (t : HTree)
    (hnd : (handlesList ks).Nodup) (hf : findList? e ks = some t)
    (hg : (handles (g t)).Nodup)
    (hnew : ∀ x ∈ handles (g t), x ∈ handles t ∨ x ∉ handlesList ks) :
    (handlesList (mapAtList e g ks)).Nodup := by
  obtain ⟨pre, post, h1, h2⟩ := handlesList_mapAtList_split e g ks t hnd hf
  rw [h2]
  rw [h1] at hnd
  have ha := List.nodup_append.mp hnd
  have hb := List.nodup_append.mp ha.1
  have hout : ∀ x ∈ handles (g t), x ∉ pre ∧ x ∉ post := by
    intro x hx
    rcases hnew x hx with hin | hout
    · exact ⟨fun hp => hb.2.2 _ hp _ hin rfl,
        fun hp => ha.2.2 _ (List.mem_append_right _ hin) _ hp rfl⟩
    · rw [h1] at hout
      simp only [List.mem_append, not_or] at hout
      exact ⟨hout.1.1, hout.2⟩
  apply List.nodup_append.mpr
  refine ⟨List.nodup_append.mpr ⟨hb.1, hg, ?_⟩, ha.2.1, ?_⟩
  · intro a ha1 b hb1 hab
    subst hab
    exact (hout _ hb1).1 ha1
  · intro a ha1 b hb1 hab
    subst hab
    rcases List.mem_append.mp ha1 with hp | hp
    · exact ha.2.2 _ (List.mem_append_left _ hp) _ hb1 rfl
    · exact (hout _ hp).2 hb1

theorem mem_handlesList_mapAtList (e : Nat) (g : HTree → HTree) (ks : List HTree) (t : HTree)
    (hnd : (handlesList ks).Nodup) (hf : findList? e ks = some t) (x : Nat)
    (hx : x ∈ handlesList (mapAtList e g ks)) : x ∈ handlesList ks ∨ x ∈ handles (g t) := by
  obtain ⟨pre, post, h1, h2⟩ := handlesList_mapAtList_split e g ks t hnd hf
  rw [h2] at hx
  rw [h1]
  simp only [List.mem_append] at hx ⊢
  rcases hx with (hx | hx) | hx
  · exact Or.inl (Or.inl (Or.inl hx))
  · exact Or.inr hx
  · exact Or.inl (Or.inr hx)

end Fmap
end XotModel
