/-
  XotModel.Lemmas.ScopeDedup — the removal phase of every pass of `deduplicate_namespaces` only
  deletes namespace-node children: whatever the removal lists are, the result relates to the input
  by `NsShrink` (same non-namespace skeleton, per node a sublist of the declarations).
-/
import XotModel.Model.Scope

namespace XotModel

/-- The tree without its namespace nodes: element names, attributes, content, in order. -/
def stripNs : Tree → Tree
  | .node v ks => .node v (stripNsList ks)
where
  stripNsList : List Tree → List Tree
    | [] => []
    | k :: ks =>
      if k.value.category == .namespace then stripNsList ks else stripNs k :: stripNsList ks

/-- The declarations of every non-namespace node, in raw document order. -/
def declsOfTree : Tree → List (List (Nat × Nat))
  | .node v ks => (Tree.node v ks).nsDecls :: declsOfList ks
where
  declsOfList : List Tree → List (List (Nat × Nat))
    | [] => []
    | k :: ks =>
      if k.value.category == .namespace then declsOfList ks else declsOfTree k ++ declsOfList ks

/-- Pointwise sublist. -/
inductive AllSub : List (List (Nat × Nat)) → List (List (Nat × Nat)) → Prop
  | nil : AllSub [] []
  | cons {a b : List (Nat × Nat)} {as bs : List (List (Nat × Nat))} :
      a.Sublist b → AllSub as bs → AllSub (a :: as) (b :: bs)

theorem AllSub.refl : ∀ l, AllSub l l
  | [] => .nil
  | a :: as => .cons (List.Sublist.refl a) (AllSub.refl as)

theorem AllSub.trans {a b c : List (List (Nat × Nat))} (h1 : AllSub a b) (h2 : AllSub b c) :
    AllSub a c := by
  induction h1 generalizing c with
  | nil => exact h2
  | cons hs _ ih =>
    cases h2 with
    | cons hs2 h2' => exact .cons (hs.trans hs2) (ih h2')

theorem AllSub.append {a b c d : List (List (Nat × Nat))} (h1 : AllSub a b) (h2 : AllSub c d) :
    AllSub (a ++ c) (b ++ d) := by
  induction h1 with
  | nil => exact h2
  | cons hs _ ih => exact .cons hs ih

theorem AllSub.length_eq {a b : List (List (Nat × Nat))} (h : AllSub a b) : a.length = b.length := by
  induction h with
  | nil => rfl
  | cons _ _ ih => simp [ih]

/-- `namespace_declarations` read off the child list: the leading run of namespace nodes. -/
def declsOfKids : List Tree → List (Nat × Nat)
  | [] => []
  | k :: ks =>
    match k.value with
    | .namespace p n => (p, n) :: declsOfKids ks
    | _ => []

theorem category_namespace_iff_ex (v : Value) :
    (v.category == Category.namespace) = true ↔ ∃ p n, v = .namespace p n := by
  cases v <;> simp [Value.category]

theorem nsDecls_node (v : Value) (ks : List Tree) : (Tree.node v ks).nsDecls = declsOfKids ks := by
  simp only [Tree.nsDecls, Tree.namespaceNodes, Tree.kids]
  induction ks with
  | nil => rfl
  | cons k rest ih =>
    by_cases hc : (k.value.category == Category.namespace) = true
    · obtain ⟨p, n, hv⟩ := (category_namespace_iff_ex _).1 hc
      rw [List.takeWhile_cons]
      simp only [hc, ↓reduceIte, List.filterMap_cons]
      simp only [hv, declsOfKids]
      rw [ih]
    · have hv : ∀ p n, k.value ≠ .namespace p n := fun p n h =>
        hc ((category_namespace_iff_ex _).2 ⟨p, n, h⟩)
      rw [List.takeWhile_cons]
      simp only [hc, Bool.false_eq_true, ↓reduceIte, List.filterMap_nil]
      unfold declsOfKids
      split
      · rename_i p n h; exact absurd h (hv p n)
      · rfl

/-- `t'` is `t` with some namespace-node children deleted, as far as values, skeleton and
    declarations can tell. -/
structure NsShrink (t' t : Tree) : Prop where
  value : t'.value = t.value
  strip : stripNs t' = stripNs t
  decls : AllSub (declsOfTree t') (declsOfTree t)

theorem NsShrink.refl (t : Tree) : NsShrink t t := ⟨rfl, rfl, AllSub.refl _⟩

theorem NsShrink.trans {a b c : Tree} (h1 : NsShrink a b) (h2 : NsShrink b c) : NsShrink a c :=
  ⟨h1.value.trans h2.value, h1.strip.trans h2.strip, h1.decls.trans h2.decls⟩

/-! ### Removing one namespace node -/

theorem stripNsList_removeNsKid (pfx : Nat) (ks : List Tree) :
    stripNs.stripNsList (removeNsKid pfx ks) = stripNs.stripNsList ks := by
  induction ks with
  | nil => rfl
  | cons k rest ih =>
    by_cases hc : (k.value.category == Category.namespace) = true
    · obtain ⟨p, n, hv⟩ := (category_namespace_iff_ex _).1 hc
      simp only [removeNsKid, hv]
      by_cases hp : p = pfx
      · simp [hp, stripNs.stripNsList, hc]
      · have : (p == pfx) = false := by simpa using hp
        simp [this, stripNs.stripNsList, hc, ih]
    · have : removeNsKid pfx (k :: rest) = k :: rest := by
        unfold removeNsKid
        split
        · rename_i p n h; exact absurd ((category_namespace_iff_ex _).2 ⟨p, n, h⟩) hc
        · rfl
      rw [this]

theorem declsOfList_removeNsKid (pfx : Nat) (ks : List Tree) :
    declsOfTree.declsOfList (removeNsKid pfx ks) = declsOfTree.declsOfList ks := by
  induction ks with
  | nil => rfl
  | cons k rest ih =>
    by_cases hc : (k.value.category == Category.namespace) = true
    · obtain ⟨p, n, hv⟩ := (category_namespace_iff_ex _).1 hc
      simp only [removeNsKid, hv]
      by_cases hp : p = pfx
      · simp [hp, declsOfTree.declsOfList, hc]
      · have : (p == pfx) = false := by simpa using hp
        simp [this, declsOfTree.declsOfList, hc, ih]
    · have : removeNsKid pfx (k :: rest) = k :: rest := by
        unfold removeNsKid
        split
        · rename_i p n h; exact absurd ((category_namespace_iff_ex _).2 ⟨p, n, h⟩) hc
        · rfl
      rw [this]

theorem declsOfKids_removeNsKid (pfx : Nat) (ks : List Tree) :
    (declsOfKids (removeNsKid pfx ks)).Sublist (declsOfKids ks) := by
  induction ks with
  | nil => exact List.Sublist.refl _
  | cons k rest ih =>
    by_cases hc : (k.value.category == Category.namespace) = true
    · obtain ⟨p, n, hv⟩ := (category_namespace_iff_ex _).1 hc
      simp only [removeNsKid, hv]
      by_cases hp : p = pfx
      · simp only [hp, beq_self_eq_true, ↓reduceIte, declsOfKids, hv]
        exact List.sublist_cons_self _ _
      · have : (p == pfx) = false := by simpa using hp
        simp only [this, Bool.false_eq_true, ↓reduceIte, declsOfKids, hv]
        exact ih.cons_cons _
    · have : removeNsKid pfx (k :: rest) = k :: rest := by
        unfold removeNsKid
        split
        · rename_i p n h; exact absurd ((category_namespace_iff_ex _).2 ⟨p, n, h⟩) hc
        · rfl
      rw [this]
      exact List.Sublist.refl _

theorem NsShrink.removeNsKidsOf (pfx : Nat) (t : Tree) : NsShrink (removeNsKidsOf pfx t) t := by
  obtain ⟨v, ks⟩ := t
  refine ⟨rfl, ?_, ?_⟩
  · simp [XotModel.removeNsKidsOf, stripNs, stripNsList_removeNsKid]
  · simp only [XotModel.removeNsKidsOf, declsOfTree, nsDecls_node, declsOfList_removeNsKid]
    exact .cons (declsOfKids_removeNsKid pfx ks) (AllSub.refl _)

/-! ### Modifying below a path -/

theorem category_eq_of_value {a b : Tree} (h : a.value = b.value) :
    a.value.category = b.value.category := by rw [h]

theorem modify_shrink (f : Tree → Tree) (hf : ∀ k, NsShrink (f k) k) (ks : List Tree) : ∀ (i : Nat),
    declsOfKids (ks.modify i f) = declsOfKids ks ∧
    stripNs.stripNsList (ks.modify i f) = stripNs.stripNsList ks ∧
    AllSub (declsOfTree.declsOfList (ks.modify i f)) (declsOfTree.declsOfList ks) := by
  induction ks with
  | nil => intro i; simp [AllSub.refl]
  | cons k rest ih =>
    intro i
    cases i with
    | zero =>
      have h := hf k
      simp only [List.modify_zero_cons, declsOfKids, h.value, stripNs.stripNsList,
        declsOfTree.declsOfList, h.strip, true_and]
      split
      · exact AllSub.refl _
      · exact h.decls.append (AllSub.refl _)
    | succ j =>
      obtain ⟨h1, h2, h3⟩ := ih j
      simp only [List.modify_succ_cons, declsOfKids, h1, stripNs.stripNsList, h2,
        declsOfTree.declsOfList, true_and]
      split
      · exact h3
      · exact (AllSub.refl _).append h3

theorem NsShrink.scopeModifyAt (f : Tree → Tree) (hf : ∀ k, NsShrink (f k) k) :
    ∀ (path : Path) (t : Tree), NsShrink (scopeModifyAt f t path) t := by
  intro path
  induction path with
  | nil => intro t; simpa [XotModel.scopeModifyAt] using hf t
  | cons i p ih =>
    intro t
    obtain ⟨v, ks⟩ := t
    obtain ⟨h1, h2, h3⟩ := modify_shrink (fun k => XotModel.scopeModifyAt f k p) (fun k => ih k) ks i
    refine ⟨rfl, ?_, ?_⟩
    · simp [XotModel.scopeModifyAt, stripNs, h2]
    · simp only [XotModel.scopeModifyAt, declsOfTree, nsDecls_node, h1]
      exact .cons (List.Sublist.refl _) h3

theorem NsShrink.removeNamespacesAt (path : Path) (pfxs : List Nat) :
    ∀ t : Tree, NsShrink (removeNamespacesAt t path pfxs) t := by
  induction pfxs with
  | nil => intro t; exact NsShrink.refl t
  | cons pfx rest ih =>
    intro t
    simp only [XotModel.removeNamespacesAt, List.foldl_cons]
    exact (ih _).trans (NsShrink.scopeModifyAt _ (NsShrink.removeNsKidsOf pfx) path t)

theorem NsShrink.applyFixups (fps : List (Path × List Nat)) :
    ∀ t : Tree, NsShrink (applyFixups t fps) t := by
  induction fps with
  | nil => intro t; exact NsShrink.refl t
  | cons fp rest ih =>
    intro t
    simp only [XotModel.applyFixups, List.foldl_cons]
    exact (ih _).trans (NsShrink.removeNamespacesAt fp.1 fp.2 t)

/-- One pass only deletes namespace nodes, whatever the traversal decided. -/
theorem NsShrink.dedupPass (env : Env) (t : Tree) (path : Path) (sub : Tree) :
    NsShrink (dedupPass env t path sub).1 t :=
  NsShrink.applyFixups _ t

/-- ... and so does any number of passes. -/
theorem NsShrink.dedupLoop (env : Env) (path : Path) : ∀ (fuel : Nat) (t : Tree),
    NsShrink (dedupLoop env path fuel t) t
  | 0, t => NsShrink.refl t
  | fuel + 1, t => by
    unfold XotModel.dedupLoop
    split
    · exact NsShrink.refl t
    · rename_i sub _
      dsimp only
      split
      · exact (NsShrink.dedupLoop env path fuel _).trans (NsShrink.dedupPass env t path sub)
      · exact NsShrink.dedupPass env t path sub

/-- Whatever the traversals decided, `deduplicate_namespaces` only deletes namespace nodes. -/
theorem NsShrink.deduplicateNamespaces (env : Env) (t t' : Tree) (path : Path)
    (h : deduplicateNamespaces env t path = some t') : NsShrink t' t := by
  unfold XotModel.deduplicateNamespaces at h
  split at h
  · cases h
  · simp only [Option.some.injEq] at h
    subst h
    exact NsShrink.dedupLoop env path _ t

end XotModel
