/-
  Lemmas for C12, part 27: the SHAPE of the result of `clone_with_prefixes` on an element — the clone
  is a parentless element `c` whose children are the children `A ++ B` of `clone_node`'s result
  (`A` the namespace nodes) with new declaration leaves `New` in between; every declaration of the
  clone is one of the copy or an entry of `order` whose prefix the copy does not declare, and no
  prefix is declared twice.
  (First half of the proof of `cloneWithPrefixes_serialises`, exported.)
-/
import XotModel.Lemmas.FclonePrefix8

namespace XotModel
open HTree

/-- The loop never declares a prefix twice. -/
theorem addSpec_nodup : ∀ (order : List (Nat × Nat)) (A B : List HTree) (n : Nat),
    (∀ x ∈ A, (x.value.category == Category.namespace) = true) →
    (∀ y, B.head? = some y → (y.value.category == Category.namespace) = false) →
    ((A.filterMap (fun k => fcNsPair k.value)).map Prod.fst).Nodup →
    ((fcDeclsOfKids (addSpec (A ++ B) n order).1).map Prod.fst).Nodup
  | [], A, B, n, hA, hB, h => by
    simp only [addSpec]
    rw [declsOfKids_split A B hA hB]
    exact h
  | (p, ns) :: rest, A, B, n, hA, hB, h => by
    obtain ⟨ht, hd⟩ := takeWhile_split (fun c : HTree => c.value.category == .namespace) A B hA hB
    simp only [addSpec]
    rw [ht, hd]
    by_cases hs : (A.find? (fun c => Forest.entryKey c.value == p)).isSome = true
    · rw [if_pos hs]
      exact addSpec_nodup rest A B n hA hB h
    · rw [if_neg hs]
      have hA' : ∀ x ∈ A ++ [HTree.node n (.namespace p ns) []],
          (x.value.category == Category.namespace) = true := by
        intro x hx
        rcases List.mem_append.mp hx with h | h
        · exact hA x h
        · simp at h; subst h; rfl
      have e : (A ++ [HTree.node n (.namespace p ns) []]).filterMap (fun k => fcNsPair k.value) =
          A.filterMap (fun k => fcNsPair k.value) ++ [(p, ns)] := by
        simp [List.filterMap_append, fcNsPair, HTree.value]
      apply addSpec_nodup rest (A ++ [HTree.node n (.namespace p ns) []]) B (n + 1) hA' hB
      rw [e, List.map_append, List.nodup_append]
      refine ⟨h, by simp, ?_⟩
      intro x hx y hy
      simp only [List.map_cons, List.map_nil, List.mem_singleton] at hy
      subst hy
      intro e'
      obtain ⟨b, hb, hb1⟩ := List.mem_map.mp hx
      exact hs ((find_key_iff A hA _).mpr ⟨b, hb, by rw [hb1, e']⟩)

theorem cloneWithPrefixes_shape (f : Forest) (inv : f.Inv)
    (node : Nat) (hs : Nat) (name : Nat) (Ks : List HTree) (rest : List HTree)
    (hpath : f.pathTo node = .node hs (.element name) Ks :: rest) (order : List (Nat × Nat)) :
    ∃ (f2 : Forest) (c : Nat) (A New B : List HTree),
      f.cloneWithPrefixes node order = (f2, some c) ∧
      f2.roots = f.roots ++ [.node c (.element name) (A ++ New ++ B)] ∧
      f2.get? c = some (.node c (.element name) (A ++ New ++ B)) ∧
      f2.pathTo c = [.node c (.element name) (A ++ New ++ B)] ∧
      (∀ x ∈ A, (x.value.category == Category.namespace) = true) ∧
      (∀ y, B.head? = some y → (y.value.category == Category.namespace) = false) ∧
      (∀ x ∈ New, IsNsLeaf x) ∧
      erase (.node c (.element name) (A ++ B)) =
        expectedClone f.consolidation (erase (.node hs (.element name) Ks)) ∧
      (∀ b ∈ fcDeclsOfKids (A ++ New ++ B), b ∈ A.filterMap (fun k => fcNsPair k.value) ∨
        (b ∈ order ∧ ∀ x ∈ A.filterMap (fun k => fcNsPair k.value), x.1 ≠ b.1)) ∧
      (((A.filterMap (fun k => fcNsPair k.value)).map Prod.fst).Nodup →
        ((fcDeclsOfKids (A ++ New ++ B)).map Prod.fst).Nodup) := by
  obtain ⟨hget, r, hr, hp⟩ := Forest.get?_of_pathTo hpath
  obtain ⟨C, f1, h1, h2, h3, h4, h5, h6, h7, h8, h9, h10⟩ :=
    cloneNode_full f inv node _ hget
  obtain ⟨L, hL, -, -, -⟩ := expectedClone_serial default _ f.consolidation hs (.element name) Ks
    (inv.valid_get hget)
  have h6' := h6
  rw [hL] at h6
  obtain ⟨c, vC, Kc⟩ := C
  have hvC : vC = .element name := by
    have := congrArg Tree.value h6
    simpa [erase, Tree.value] using this
  subst hvC
  have cl := cloning_after_clone f inv _ f1 h2 h4 h5 h10 c (.element name) Kc rfl
  obtain ⟨f2, ha, cl2, _, _⟩ := addPrefixes_spec order cl rfl
  have hiel : f1.isElement c = true := by
    simp [Forest.isElement, Forest.value?, cl.get?_c, HTree.value, Value.isElement]
  have hres : f.cloneWithPrefixes node order = (f2, some c) := by
    unfold Forest.cloneWithPrefixes
    rw [h1]
    simp only [HTree.handle, hiel, if_true, ha]
  have hcR : c ∉ handlesList f.roots := by
    intro h
    have := inv.below c h
    have := (h4 c (by simp [handles])).1
    omega
  have hg2 : f2.get? c = some (.node c (.element name) (addSpec Kc f1.next order).1) := cl2.get?_c
  have hp2 := pathTo_top f2 f.roots c (.element name) _ cl2.roots hcR
  have hr2 := cl2.roots
  simp only [fcPlug] at hr2
  have hA : ∀ x ∈ Kc.takeWhile (fun c => c.value.category == .namespace),
      (x.value.category == Category.namespace) = true := fun x hx => mem_takeWhile_imp _ Kc x hx
  have hB : ∀ y, (Kc.dropWhile (fun c => c.value.category == .namespace)).head? = some y →
      (y.value.category == Category.namespace) = false := fun y hy => head_dropWhile_not _ Kc y hy
  have hsplit : Kc.takeWhile (fun c => c.value.category == .namespace) ++
      Kc.dropWhile (fun c => c.value.category == .namespace) = Kc := List.takeWhile_append_dropWhile
  generalize Kc.takeWhile (fun c => c.value.category == .namespace) = A at hA hsplit
  generalize Kc.dropWhile (fun c => c.value.category == .namespace) = B at hB hsplit
  subst hsplit
  obtain ⟨New, hNew, hshape⟩ := addSpec_shape order A B f1.next hA hB
  have hsub := addSpec_decls_sub order A B f1.next hA hB
  have hnodup := addSpec_nodup order A B f1.next hA hB
  rw [hshape] at hg2 hp2 hsub hr2 hnodup
  exact ⟨f2, c, A, New, B, hres, hr2, hg2, hp2, hA, hB, hNew, h6', hsub, hnodup⟩

end XotModel
