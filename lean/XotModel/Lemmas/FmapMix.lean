/-
  Lemmas for C11 (interleavings): map updates interleaved with arbitrary `PCall` steps
  (Model/FmapMixSpec.lean).  The reference step `specStep` is local (it reads and writes the maps of
  `MapOp2.elems` only); a `PCall` step that names no written argument inside the root tree of `x` leaves
  `get? x` alone (`SepB.fphl_step`, Lemmas/FparseHistLocal.lean).
-/
import XotModel.Model.FmapMixSpec
import XotModel.Lemmas.FmapHistAll
import XotModel.Lemmas.FparseHistLocal

namespace XotModel
namespace Fmap
open HTree
open Forest (MapKind)

/-! ### The reference step is local -/

theorem upd_off (F : Fam) (e : Nat) (k : MapKind) (g : OMap Payload → OMap Payload) (x : Nat) (k' : MapKind)
    (h : x ≠ e) : F.upd e k g x k' = F x k' := by
  simp [Fam.upd, Fam.set, h]

theorem upd_congr (F G : Fam) (e : Nat) (k : MapKind) (g : OMap Payload → OMap Payload) (x : Nat) (k' : MapKind)
    (he : F e k = G e k) (hx : F x k' = G x k') : F.upd e k g x k' = G.upd e k g x k' := by
  simp only [Fam.upd, Fam.set]
  split
  · rw [he]
  · exact hx

theorem specAppendEntryOf_off (F : Fam) (k : MapKind) (e e2 key x : Nat) (k' : MapKind)
    (h1 : x ≠ e) (h2 : x ≠ e2) : specAppendEntryOf F k e e2 key x k' = F x k' := by
  unfold specAppendEntryOf
  split
  · rfl
  · generalize omGet (F e2 k) key = o
    cases o with
    | none => rfl
    | some p =>
      simp only []
      split
      · exact upd_off _ _ _ _ _ _ h1
      · rw [upd_off _ _ _ _ _ _ h1, upd_off _ _ _ _ _ _ h2]

theorem specAppendEntryOf_congr (F G : Fam) (k : MapKind) (e e2 key x : Nat) (k' : MapKind)
    (he : ∀ k, F e k = G e k) (he2 : ∀ k, F e2 k = G e2 k) (hx : F x k' = G x k') :
    specAppendEntryOf F k e e2 key x k' = specAppendEntryOf G k e e2 key x k' := by
  unfold specAppendEntryOf
  rw [he2 k, he k]
  split
  · exact hx
  · generalize omGet (G e2 k) key = o
    cases o with
    | none => exact hx
    | some p =>
      simp only []
      split
      · exact upd_congr _ _ _ _ _ _ _ (he k) hx
      · refine upd_congr _ _ _ _ _ _ _ ?_ ?_
        · by_cases h : e = e2
          · subst h; simp [Fam.upd, Fam.set, he k]
          · rw [upd_off _ _ _ _ _ _ h, upd_off _ _ _ _ _ _ h]; exact he k
        · exact upd_congr _ _ _ _ _ _ _ (he2 k) hx

/-- Outside `elems` the reference step changes nothing. -/
theorem specStep_off (F : Fam) (op : MapOp2) (x : Nat) (k' : MapKind) (hx : x ∉ op.elems) :
    specStep F op x k' = F x k' := by
  cases op with
  | appendAttachedNode k e e2 key =>
    simp only [MapOp2.elems, List.mem_cons, List.not_mem_nil, or_false, not_or] at hx
    exact specAppendEntryOf_off F k e e2 key x k' hx.1 hx.2
  | anyAppend e r =>
    cases r with
    | entry k e2 key =>
      simp only [MapOp2.elems, List.mem_cons, List.not_mem_nil, or_false, not_or] at hx
      exact specAppendEntryOf_off F k e e2 key x k' hx.1 hx.2
    | new v =>
      simp only [MapOp2.elems, MapOp2.target, List.mem_singleton] at hx
      simp only [specStep]
      cases kindOf? v with
      | some k => exact upd_off _ _ _ _ _ _ hx
      | none => rfl
    | detached nd v =>
      simp only [MapOp2.elems, MapOp2.target, List.mem_singleton] at hx
      simp only [specStep]
      cases kindOf? v with
      | some k => exact upd_off _ _ _ _ _ _ hx
      | none => rfl
  | appendOwnNode k e key => rfl
  | _ =>
    simp only [MapOp2.elems, MapOp2.target, List.mem_singleton] at hx
    simp only [specStep]
    exact upd_off _ _ _ _ _ _ hx

/-- Two families that agree on `elems` (and at `x`) give the same map at `x` after the step. -/
theorem specStep_congr_on (F G : Fam) (op : MapOp2) (x : Nat) (k' : MapKind)
    (he : ∀ y ∈ op.elems, ∀ k, F y k = G y k) (hx : F x k' = G x k') :
    specStep F op x k' = specStep G op x k' := by
  cases op with
  | appendAttachedNode k e e2 key =>
    exact specAppendEntryOf_congr F G k e e2 key x k' (he e (by simp [MapOp2.elems]))
      (he e2 (by simp [MapOp2.elems])) hx
  | anyAppend e r =>
    cases r with
    | entry k e2 key =>
      exact specAppendEntryOf_congr F G k e e2 key x k' (he e (by simp [MapOp2.elems]))
        (he e2 (by simp [MapOp2.elems])) hx
    | new v =>
      simp only [specStep]
      cases kindOf? v with
      | some k => exact upd_congr _ _ _ _ _ _ _ (he e (by simp [MapOp2.elems, MapOp2.target]) _) hx
      | none => exact hx
    | detached nd v =>
      simp only [specStep]
      cases kindOf? v with
      | some k => exact upd_congr _ _ _ _ _ _ _ (he e (by simp [MapOp2.elems, MapOp2.target]) _) hx
      | none => exact hx
  | appendOwnNode k e key => exact hx
  | _ =>
    simp only [specStep]
    exact upd_congr _ _ _ _ _ _ _ (he _ (by simp [MapOp2.elems, MapOp2.target]) _) hx

/-- Locality of the reference step for a set of tracked elements closed under the step's `elems`. -/
theorem specStep_congr (T : List Nat) (F G : Fam) (op : MapOp2)
    (hFG : ∀ y ∈ T, ∀ k, F y k = G y k)
    (hcl : (∃ x ∈ op.elems, x ∈ T) → ∀ y ∈ op.elems, y ∈ T) :
    ∀ x ∈ T, ∀ k, specStep F op x k = specStep G op x k := by
  intro x hx k
  by_cases hm : x ∈ op.elems
  · exact specStep_congr_on F G op x k (fun y hy k => hFG y (hcl ⟨x, hm, hx⟩ y hy) k) (hFG x hx k)
  · rw [specStep_off F op x k hm, specStep_off G op x k hm]; exact hFG x hx k

/-! ### A step that does not touch the tree of `x` -/

theorem findList?_eq_find?_of_mem {x : Nat} {r : HTree} : ∀ {ks : List HTree}, (handlesList ks).Nodup → r ∈ ks →
    x ∈ handles r → findList? x ks = find? x r
  | [], _, hr, _ => by cases hr
  | a :: ks, hn, hr, hx => by
    unfold handlesList at hn
    unfold findList?
    rcases List.mem_cons.1 hr with e | e
    · subst e
      cases h : find? x r with
      | some t => rfl
      | none => exact absurd hx ((find?_none_iff _ _).1 h)
    · have hks : x ∈ handlesList ks := handles_sub_of_mem e _ hx
      have hna : x ∉ handles a := fun ha => (List.nodup_append.1 hn).2.2 _ ha _ hks rfl
      rw [(find?_none_iff _ _).2 hna]
      exact findList?_eq_find?_of_mem (List.nodup_append.1 hn).2.1 e hx

theorem rootOf?_some {f : Forest} {x : Nat} {r : HTree} (h : rootOf? f x = some r) :
    r ∈ f.roots ∧ x ∈ handles r := by
  unfold rootOf? at h
  refine ⟨List.mem_of_find?_eq_some h, ?_⟩
  have := List.find?_some h
  simpa using this

/-- The step leaves `get? x` alone. -/
theorem get?_step_of_not_touches {s : PStore} (hi : s.forest.Inv) (c : PCall) (hw : c.wellKinded) (x : Nat)
    (ht : touchesEntries s.forest x c = false) : (s.step c).forest.get? x = s.forest.get? x := by
  have hi' : (s.step c).forest.Inv := PStore.fph_step_inv hi c hw
  have key : ∀ r, rootOf? s.forest x = some r →
      (∀ y, c = .api y → ∀ a ∈ y.writeArgs, a ∉ handles r) → (s.step c).forest.get? x = s.forest.get? x := by
    intro r hr hargs
    obtain ⟨hm, hx⟩ := rootOf?_some hr
    have sep := SepB.of_inv hi hm
    have hm' : r ∈ (s.step c).forest.roots := (sep.fphl_step c hargs).sep.mem
    show findList? x _ = findList? x _
    rw [findList?_eq_find?_of_mem hi'.nodup hm' hx, findList?_eq_find?_of_mem hi.nodup hm hx]
  cases c with
  | parse m text =>
    simp only [touchesEntries, Bool.not_eq_false'] at ht
    obtain ⟨t, hg⟩ := (Forest.isLive_iff s.forest x).mp ht
    obtain ⟨r, hr, hf⟩ := findList?_root x _ t hg
    have hxr : x ∈ handles r := by
      by_cases hn : x ∈ handles r
      · exact hn
      · rw [(find?_none_iff _ _).2 hn] at hf; cases hf
    have hro : ∃ r', rootOf? s.forest x = some r' := by
      unfold rootOf?
      cases h : s.forest.roots.find? (fun r => (handles r).contains x) with
      | some r' => exact ⟨r', rfl⟩
      | none =>
        have := List.find?_eq_none.mp h r hr
        simp [hxr] at this
    obtain ⟨r', hr'⟩ := hro
    exact key r' hr' (fun y hy => by cases hy)
  | api y =>
    simp only [touchesEntries] at ht
    cases hr : rootOf? s.forest x with
    | none => rw [hr] at ht; cases ht
    | some r =>
      rw [hr] at ht
      simp only [] at ht
      refine key r hr (fun y' hy' a ha har => ?_)
      cases hy'
      have : (y.writeArgs.any fun a => (handles r).contains a) = true :=
        List.any_eq_true.mpr ⟨a, ha, by simpa using har⟩
      rw [this] at ht; cases ht

theorem abs_step_of_not_touches {s : PStore} (hi : s.forest.Inv) (c : PCall) (hw : c.wellKinded) (x : Nat)
    (ht : touchesEntries s.forest x c = false) (k : MapKind) :
    abs k (s.step c).forest x = abs k s.forest x := by
  unfold abs; rw [get?_step_of_not_touches hi c hw x ht]

theorem isElement_step_of_not_touches {s : PStore} (hi : s.forest.Inv) (c : PCall) (hw : c.wellKinded) (x : Nat)
    (ht : touchesEntries s.forest x c = false) :
    (s.step c).forest.isElement x = s.forest.isElement x := by
  unfold Forest.isElement Forest.value?; rw [get?_step_of_not_touches hi c hw x ht]

/-! ### Interleaved histories -/

theorem mix_history (T : List Nat) : ∀ (steps : List MixStep) (s : PStore) (F : Fam), s.forest.Inv →
    (∀ x ∈ T, ∀ k, abs k s.forest x = F x k) → mixOk T s steps →
    (mixRun s steps).forest.Inv ∧
    (∀ x ∈ T, ∀ k, abs k (mixRun s steps).forest x = specOps2 F (mapOpsOf steps) x k) ∧
    (∀ x ∈ T, (mixRun s steps).forest.isElement x = s.forest.isElement x)
  | [], s, F, hi, hF, _ => ⟨hi, hF, fun _ _ => rfl⟩
  | .map op :: rest, s, F, hi, hF, hok => by
    obtain ⟨h1, hcl, h3⟩ := hok
    obtain ⟨_, st⟩ := step_all (F := famOf s.forest) hi (fun _ _ => rfl) op h1
    have hF' : ∀ x ∈ T, ∀ k, abs k (MixStep.run s (.map op)).forest x = specStep F op x k := by
      intro x hx k
      show abs k (op.run s.forest).1 x = _
      rw [st.agree x k]
      exact specStep_congr T (famOf s.forest) F op hF hcl x hx k
    obtain ⟨g1, g2, g3⟩ := mix_history T rest (MixStep.run s (.map op)) (specStep F op) st.inv hF' h3
    refine ⟨g1, g2, fun x hx => ?_⟩
    rw [show mixRun s (.map op :: rest) = mixRun (MixStep.run s (.map op)) rest from rfl, g3 x hx]
    exact st.elem x
  | .other c :: rest, s, F, hi, hF, hok => by
    obtain ⟨hw, hnt, h3⟩ := hok
    have hi' : (MixStep.run s (.other c)).forest.Inv := PStore.fph_step_inv hi c hw
    have hF' : ∀ x ∈ T, ∀ k, abs k (MixStep.run s (.other c)).forest x = F x k := by
      intro x hx k
      show abs k (s.step c).forest x = _
      rw [abs_step_of_not_touches hi c hw x (hnt x hx) k]; exact hF x hx k
    obtain ⟨g1, g2, g3⟩ := mix_history T rest (MixStep.run s (.other c)) F hi' hF' h3
    refine ⟨g1, g2, fun x hx => ?_⟩
    rw [show mixRun s (.other c :: rest) = mixRun (MixStep.run s (.other c)) rest from rfl, g3 x hx]
    exact isElement_step_of_not_touches hi c hw x (hnt x hx)

end Fmap
end XotModel
