/-
  XotModel.Lemmas.LexCanonStep — one iteration of the tokenizer loop: unfolding lemmas for
  `lexLoop`, and `parse_next_impl` on canonical text in each tokenizer state.
-/
import XotModel.Lemmas.LexCanonParse

namespace XotModel.Lex.Canon

open XotModel.Lex XotModel.Lex.Stream

/-! ### Unfolding `lexLoop` -/

theorem lexLoop_end {tk : Tokenizer} (position : Nat) (h : tk.stream.atEnd = true) :
    lexLoop tk position = ([], none) := by
  rw [lexLoop.eq_def]; simp [h]

theorem lexLoop_token {tk tk' : Tokenizer} {t : Token} (position : Nat)
    (he : tk.stream.atEnd = false) (hf : tk.state ≠ .finished)
    (h : parseNextImpl tk = .token t tk') :
    lexLoop tk position = (t :: (lexLoop tk' tk'.stream.pos).1, (lexLoop tk' tk'.stream.pos).2) := by
  rw [lexLoop.eq_def]
  simp only [he, Bool.false_eq_true, hf, or_self, dite_false]
  split
  · next hs => rw [h] at hs; cases hs
  · next hs => rw [h] at hs; cases hs; rfl
  · next hs => rw [h] at hs; cases hs

theorem lexLoop_skip {tk tk' : Tokenizer} (position : Nat)
    (he : tk.stream.atEnd = false) (hf : tk.state ≠ .finished)
    (h : parseNextImpl tk = .skip tk') :
    lexLoop tk position = lexLoop tk' position := by
  rw [lexLoop.eq_def]
  simp only [he, Bool.false_eq_true, hf, or_self, dite_false]
  split
  · next hs => rw [h] at hs; cases hs; rfl
  · next hs => rw [h] at hs; cases hs
  · next hs => rw [h] at hs; cases hs

theorem lexLoop_error {tk : Tokenizer} (position : Nat)
    (he : tk.stream.atEnd = false) (hf : tk.state ≠ .finished)
    (h : parseNextImpl tk = .error) :
    lexLoop tk position = ([], some position) := by
  rw [lexLoop.eq_def]
  simp only [he, Bool.false_eq_true, hf, or_self, dite_false]
  split
  · next hs => rw [h] at hs; cases hs
  · next hs => rw [h] at hs; cases hs
  · rfl

/-! ### Facts about the first characters of a canonical token -/

theorem nameChar_blank : isNameChar ' ' = false := by decide

/-- A canonical PI never looks like an XML declaration (`<?xml `). -/
theorem pi_not_xmldecl (t : StrSpan) (c : Option StrSpan) (sp : StrSpan) (r : Str)
    (h : (Token.pi t c sp).lexOK = true) :
    litXmlDecl.isPrefixOf (renderToken (.pi t c sp) ++ r) = false := by
  cases c with
  | none =>
    simp only [Token.lexOK] at h
    obtain ⟨a, as, ha, _, h2⟩ := nameOK_cons h
    simp only [renderToken, ha, litXmlDecl, List.cons_append, List.isPrefixOf_cons_cons,
      beq_self_eq_true, Bool.true_and]
    rcases as with _ | ⟨b, _ | ⟨c, _ | ⟨d, ds⟩⟩⟩ <;>
      simp [List.isPrefixOf_cons_cons]
    intro _ _ _ hd
    simp only [List.all_cons, Bool.and_eq_true] at h2
    rw [← hd, nameChar_blank] at h2
    exact absurd h2.2.2.1 (by simp)
  | some c =>
    simp only [Token.lexOK, Bool.and_eq_true, bne_iff_ne, ne_eq] at h
    obtain ⟨⟨⟨⟨⟨hname, hx⟩, _⟩, _⟩, _⟩, _⟩ := h
    obtain ⟨a, as, ha, _, h2⟩ := nameOK_cons hname
    rw [ha] at hx
    simp only [renderToken, ha, litXmlDecl, List.cons_append, List.isPrefixOf_cons_cons,
      beq_self_eq_true, Bool.true_and]
    rcases as with _ | ⟨b, _ | ⟨c, _ | ⟨d, ds⟩⟩⟩ <;>
      simp [List.isPrefixOf_cons_cons]
    · intro h1 h2 h3; subst h1 h2 h3; exact absurd rfl hx
    · intro _ _ _ hd
      simp only [List.all_cons, Bool.and_eq_true] at h2
      rw [← hd, nameChar_blank] at h2
      exact absurd h2.2.2.1 (by simp)

theorem atEnd_cons (p : Nat) (c : Char) (r : Str) : (Stream.mk p (c :: r)).atEnd = false := rfl

/-! ### `State::Attributes` -/

theorem step_attr_attribute (tk : Tokenizer) (pos : Nat) (p l v sp : StrSpan) (r : Str)
    (hst : tk.state = .attributes)
    (hs : tk.stream = ⟨pos, renderToken (.attribute p l v sp) ++ r⟩)
    (hok : (Token.attribute p l v sp).lexOK = true) :
    parseNextImpl tk = .token ((Token.attribute p l v sp).place pos)
      { tk with stream := ⟨pos + strLen (renderToken (.attribute p l v sp)), r⟩ } := by
  simp only [Token.lexOK, Bool.and_eq_true] at hok
  have he : tk.stream.atEnd = false := by rw [hs]; rfl
  unfold parseNextImpl
  simp only [he, Bool.false_eq_true, if_false, hst]
  rw [hs, parseAttribute_attr pos p l v sp r hok.1 hok.2]
  rfl

theorem step_attr_open (tk : Tokenizer) (pos : Nat) (sp : StrSpan) (r : Str)
    (hst : tk.state = .attributes)
    (hs : tk.stream = ⟨pos, renderToken (.elementEnd .open sp) ++ r⟩) :
    parseNextImpl tk = .token ((Token.elementEnd .open sp).place pos)
      { tk with stream := ⟨pos + strLen (renderToken (.elementEnd .open sp)), r⟩,
                depth := tk.depth + 1, state := .elements } := by
  have he : tk.stream.atEnd = false := by rw [hs]; rfl
  unfold parseNextImpl
  simp only [he, Bool.false_eq_true, if_false, hst]
  rw [hs, parseAttribute_open pos sp r]
  simp [Token.place, stateAfterTag]

theorem step_attr_empty (tk : Tokenizer) (pos : Nat) (sp : StrSpan) (r : Str)
    (hst : tk.state = .attributes)
    (hs : tk.stream = ⟨pos, renderToken (.elementEnd .empty sp) ++ r⟩) :
    parseNextImpl tk = .token ((Token.elementEnd .empty sp).place pos)
      { tk with stream := ⟨pos + strLen (renderToken (.elementEnd .empty sp)), r⟩,
                state := stateAfterTag tk.depth tk.fragment } := by
  have he : tk.stream.atEnd = false := by rw [hs]; rfl
  unfold parseNextImpl
  simp only [he, Bool.false_eq_true, if_false, hst]
  rw [hs, parseAttribute_empty pos sp r]
  simp [Token.place]

/-! ### `State::Elements` -/

theorem step_el_text (tk : Tokenizer) (pos : Nat) (t : StrSpan) (r : Str)
    (hst : tk.state = .elements) (hs : tk.stream = ⟨pos, renderToken (.text t) ++ r⟩)
    (hok : (Token.text t).lexOK = true) (hr : StartsMarkup r) :
    parseNextImpl tk = .token ((Token.text t).place pos)
      { tk with stream := ⟨pos + strLen (renderToken (.text t)), r⟩ } := by
  have hok' := hok
  simp only [Token.lexOK, Bool.and_eq_true, Bool.not_eq_true', List.isEmpty_eq_false_iff] at hok'
  obtain ⟨c, cs, hc⟩ := List.exists_cons_of_ne_nil hok'.1.1
  have hall := hok'.1.2
  rw [hc] at hall
  simp only [List.all_cons, Bool.and_eq_true, bne_iff_ne, ne_eq] at hall
  have he : tk.stream.atEnd = false := by rw [hs]; simp [renderToken, hc, atEnd]
  have hcur : (tk.stream.curr? == some '<') = false := by
    rw [hs]; simp [renderToken, hc, curr?, hall.1.2]
  unfold parseNextImpl
  simp only [he, Bool.false_eq_true, if_false, hst, hcur]
  rw [hs, parseText_app pos t r hok hr]
  simp only [Step.ofParse, hst]

theorem step_el_cdata (tk : Tokenizer) (pos : Nat) (t sp : StrSpan) (r : Str)
    (hst : tk.state = .elements) (hs : tk.stream = ⟨pos, renderToken (.cdata t sp) ++ r⟩)
    (hok : (Token.cdata t sp).lexOK = true) :
    parseNextImpl tk = .token ((Token.cdata t sp).place pos)
      { tk with stream := ⟨pos + strLen (renderToken (.cdata t sp)), r⟩ } := by
  have he : tk.stream.atEnd = false := by rw [hs]; rfl
  unfold parseNextImpl
  simp only [he, Bool.false_eq_true, if_false, hst]
  rw [hs, parseCdata_app pos t sp r hok]
  simp [renderToken, curr?, next?, startsWith, litCommentOpen, litCdataOpen, List.isPrefixOf_cons_cons,
    Step.ofParse, hst]

theorem step_el_comment (tk : Tokenizer) (pos : Nat) (t sp : StrSpan) (r : Str)
    (hst : tk.state = .elements) (hs : tk.stream = ⟨pos, renderToken (.comment t sp) ++ r⟩)
    (hok : (Token.comment t sp).lexOK = true) :
    parseNextImpl tk = .token ((Token.comment t sp).place pos)
      { tk with stream := ⟨pos + strLen (renderToken (.comment t sp)), r⟩ } := by
  have he : tk.stream.atEnd = false := by rw [hs]; rfl
  unfold parseNextImpl
  simp only [he, Bool.false_eq_true, if_false, hst]
  rw [hs, parseComment_app pos t sp r hok]
  simp [renderToken, curr?, next?, startsWith, litCommentOpen, Step.ofParse, hst]

theorem step_el_pi (tk : Tokenizer) (pos : Nat) (t : StrSpan) (c : Option StrSpan) (sp : StrSpan) (r : Str)
    (hst : tk.state = .elements) (hs : tk.stream = ⟨pos, renderToken (.pi t c sp) ++ r⟩)
    (hok : (Token.pi t c sp).lexOK = true) :
    parseNextImpl tk = .token ((Token.pi t c sp).place pos)
      { tk with stream := ⟨pos + strLen (renderToken (.pi t c sp)), r⟩ } := by
  have hx := pi_not_xmldecl t c sp r hok
  have hp : parsePI ⟨pos, renderToken (.pi t c sp) ++ r⟩ = some ((Token.pi t c sp).place pos,
      ⟨pos + strLen (renderToken (.pi t c sp)), r⟩) := by
    cases c with
    | none => exact parsePI_none pos t sp r hok
    | some c => exact parsePI_some pos t c sp r hok
  have he : tk.stream.atEnd = false := by rw [hs]; cases c <;> rfl
  have h1 : tk.stream.curr? = some '<' := by rw [hs]; cases c <;> rfl
  have h2 : tk.stream.next? = some '?' := by rw [hs]; cases c <;> rfl
  unfold parseNextImpl
  simp only [he, Bool.false_eq_true, if_false, hst, h1, h2, beq_self_eq_true, if_true,
    show ('?' == '!') = false from by decide, startsWith]
  rw [hs]
  simp only [hx, Bool.not_false, if_true, hp, Step.ofParse, hst]

theorem step_el_close (tk : Tokenizer) (pos : Nat) (p l sp : StrSpan) (r : Str)
    (hst : tk.state = .elements)
    (hs : tk.stream = ⟨pos, renderToken (.elementEnd (.close p l) sp) ++ r⟩)
    (hok : (Token.elementEnd (.close p l) sp).lexOK = true) :
    parseNextImpl tk = .token ((Token.elementEnd (.close p l) sp).place pos)
      { tk with stream := ⟨pos + strLen (renderToken (.elementEnd (.close p l) sp)), r⟩,
                depth := tk.depth - 1, state := stateAfterTag (tk.depth - 1) tk.fragment } := by
  have he : tk.stream.atEnd = false := by rw [hs]; rfl
  have h1 : tk.stream.curr? = some '<' := by rw [hs]; rfl
  have h2 : tk.stream.next? = some '/' := by rw [hs]; rfl
  have hd : (if tk.depth > 0 then tk.depth - 1 else tk.depth) = tk.depth - 1 := by
    split <;> omega
  unfold parseNextImpl
  simp only [he, Bool.false_eq_true, if_false, hst, h1, h2, beq_self_eq_true, if_true,
    show ('/' == '!') = false from by decide, show ('/' == '?') = false from by decide, hd]
  rw [hs, parseCloseElement_app pos p l sp r hok]
  rfl

theorem step_el_start (tk : Tokenizer) (pos : Nat) (p l sp : StrSpan) (r : Str)
    (hst : tk.state = .elements)
    (hs : tk.stream = ⟨pos, renderToken (.elementStart p l sp) ++ r⟩)
    (hok : (Token.elementStart p l sp).lexOK = true) (hr : Stops isNameChar r) :
    parseNextImpl tk = .token ((Token.elementStart p l sp).place pos)
      { tk with stream := ⟨pos + strLen (renderToken (.elementStart p l sp)), r⟩,
                state := .attributes } := by
  obtain ⟨qc, qs, hq, hqc⟩ := tokQName_head hok
  have he : tk.stream.atEnd = false := by rw [hs]; rfl
  have h1 : tk.stream.curr? = some '<' := by rw [hs]; rfl
  have h2 : tk.stream.next? = some qc := by rw [hs]; simp [renderToken, hq, next?]
  have n1 : (qc == '!') = false := by simpa using nameStart_ne hqc (d := '!') (by decide)
  have n2 : (qc == '?') = false := by simpa using nameStart_ne hqc (d := '?') (by decide)
  have n3 : (qc == '/') = false := by simpa using nameStart_ne hqc (d := '/') (by decide)
  unfold parseNextImpl
  simp only [he, Bool.false_eq_true, if_false, hst, h1, h2, beq_self_eq_true, if_true, n1, n2, n3]
  rw [hs, parseElementStart_app pos p l sp r hok hr]
  rfl

/-! ### Outside the root element: `miscStep` -/

theorem miscStep_comment (tk : Tokenizer) (other : Step) (pos : Nat) (t sp : StrSpan) (r : Str)
    (hs : tk.stream = ⟨pos, renderToken (.comment t sp) ++ r⟩)
    (hok : (Token.comment t sp).lexOK = true) :
    miscStep tk other = .token ((Token.comment t sp).place pos)
      { tk with stream := ⟨pos + strLen (renderToken (.comment t sp)), r⟩ } := by
  unfold miscStep
  rw [hs]
  dsimp only
  rw [parseComment_app pos t sp r hok]
  simp [renderToken, startsWith, litCommentOpen, Step.ofParse]

theorem miscStep_pi (tk : Tokenizer) (other : Step) (pos : Nat) (t : StrSpan) (c : Option StrSpan)
    (sp : StrSpan) (r : Str) (hs : tk.stream = ⟨pos, renderToken (.pi t c sp) ++ r⟩)
    (hok : (Token.pi t c sp).lexOK = true) :
    miscStep tk other = .token ((Token.pi t c sp).place pos)
      { tk with stream := ⟨pos + strLen (renderToken (.pi t c sp)), r⟩ } := by
  have hx := pi_not_xmldecl t c sp r hok
  have hp : parsePI ⟨pos, renderToken (.pi t c sp) ++ r⟩ = some ((Token.pi t c sp).place pos,
      ⟨pos + strLen (renderToken (.pi t c sp)), r⟩) := by
    cases c with
    | none => exact parsePI_none pos t sp r hok
    | some c => exact parsePI_some pos t c sp r hok
  have h1 : litCommentOpen.isPrefixOf (renderToken (.pi t c sp) ++ r) = false := by
    cases c <;> simp [renderToken, litCommentOpen, List.isPrefixOf_cons_cons]
  have h2 : litPiOpen.isPrefixOf (renderToken (.pi t c sp) ++ r) = true := by
    cases c <;> simp [renderToken, litPiOpen]
  unfold miscStep
  rw [hs]
  dsimp only
  simp only [startsWith, h1, h2, hx, Bool.false_eq_true, if_false, if_true, hp, Step.ofParse]

theorem miscStep_start (tk : Tokenizer) (other : Step) (pos : Nat) (p l sp : StrSpan) (r : Str)
    (hs : tk.stream = ⟨pos, renderToken (.elementStart p l sp) ++ r⟩)
    (hok : (Token.elementStart p l sp).lexOK = true) :
    miscStep tk other = other := by
  obtain ⟨qc, qs, hq, hqc⟩ := tokQName_head hok
  have n1 : ¬ '!' = qc := fun e => nameStart_ne hqc (d := '!') (by decide) e.symm
  have n2 : ¬ '?' = qc := fun e => nameStart_ne hqc (d := '?') (by decide) e.symm
  unfold miscStep
  rw [hs]
  dsimp only
  simp [renderToken, hq, startsWith, litCommentOpen, litPiOpen, List.isPrefixOf_cons_cons, n1, n2]

/-- The three states in which a canonical comment / PI outside the root element is read. -/
def MiscState (st : State) : Prop := st = .afterDeclaration ∨ st = .afterDtd ∨ st = .afterElements

theorem step_misc_comment (tk : Tokenizer) (pos : Nat) (t sp : StrSpan) (r : Str)
    (hst : MiscState tk.state) (hs : tk.stream = ⟨pos, renderToken (.comment t sp) ++ r⟩)
    (hok : (Token.comment t sp).lexOK = true) :
    parseNextImpl tk = .token ((Token.comment t sp).place pos)
      { tk with stream := ⟨pos + strLen (renderToken (.comment t sp)), r⟩ } := by
  have he : tk.stream.atEnd = false := by rw [hs]; rfl
  have hd : tk.stream.startsWith litDoctype = false := by
    rw [hs]; simp [renderToken, startsWith, litDoctype, List.isPrefixOf_cons_cons]
  unfold parseNextImpl
  rcases hst with h | h | h <;>
    simp only [he, Bool.false_eq_true, if_false, h, hd, miscStep_comment tk _ pos t sp r hs hok]

theorem step_misc_pi (tk : Tokenizer) (pos : Nat) (t : StrSpan) (c : Option StrSpan) (sp : StrSpan)
    (r : Str) (hst : MiscState tk.state) (hs : tk.stream = ⟨pos, renderToken (.pi t c sp) ++ r⟩)
    (hok : (Token.pi t c sp).lexOK = true) :
    parseNextImpl tk = .token ((Token.pi t c sp).place pos)
      { tk with stream := ⟨pos + strLen (renderToken (.pi t c sp)), r⟩ } := by
  have he : tk.stream.atEnd = false := by rw [hs]; cases c <;> rfl
  have hd : tk.stream.startsWith litDoctype = false := by
    rw [hs]; cases c <;> simp [renderToken, startsWith, litDoctype, List.isPrefixOf_cons_cons]
  unfold parseNextImpl
  rcases hst with h | h | h <;>
    simp only [he, Bool.false_eq_true, if_false, h, hd, miscStep_pi tk _ pos t c sp r hs hok]

/-! ### The prolog: leaving `Declaration` and `AfterDeclaration`, the root's start tag -/

theorem step_declaration_skip (tk : Tokenizer) (hst : tk.state = .declaration)
    (he : tk.stream.atEnd = false) (hx : tk.stream.startsWith litXmlDecl = false) :
    parseNextImpl tk = .skip { tk with state := .afterDeclaration } := by
  unfold parseNextImpl
  simp only [he, Bool.false_eq_true, if_false, hst, hx]

theorem step_afterDeclaration_start (tk : Tokenizer) (pos : Nat) (p l sp : StrSpan) (r : Str)
    (hst : tk.state = .afterDeclaration)
    (hs : tk.stream = ⟨pos, renderToken (.elementStart p l sp) ++ r⟩)
    (hok : (Token.elementStart p l sp).lexOK = true) :
    parseNextImpl tk = .skip { tk with state := .afterDtd } := by
  obtain ⟨qc, qs, hq, hqc⟩ := tokQName_head hok
  have n1 : ¬ '!' = qc := fun e => nameStart_ne hqc (d := '!') (by decide) e.symm
  have he : tk.stream.atEnd = false := by rw [hs]; rfl
  have hd : tk.stream.startsWith litDoctype = false := by
    rw [hs]; simp [renderToken, hq, startsWith, litDoctype, List.isPrefixOf_cons_cons, n1]
  have hsp : tk.stream.startsWithSpace = false := by rw [hs]; rfl
  unfold parseNextImpl
  simp only [he, Bool.false_eq_true, if_false, hst, hd, miscStep_start tk _ pos p l sp r hs hok, hsp]

theorem step_afterDtd_start (tk : Tokenizer) (pos : Nat) (p l sp : StrSpan) (r : Str)
    (hst : tk.state = .afterDtd)
    (hs : tk.stream = ⟨pos, renderToken (.elementStart p l sp) ++ r⟩)
    (hok : (Token.elementStart p l sp).lexOK = true) (hr : Stops isNameChar r) :
    parseNextImpl tk = .token ((Token.elementStart p l sp).place pos)
      { tk with stream := ⟨pos + strLen (renderToken (.elementStart p l sp)), r⟩,
                state := .attributes } := by
  obtain ⟨qc, qs, hq, hqc⟩ := tokQName_head hok
  have n1 : ¬ '!' = qc := fun e => nameStart_ne hqc (d := '!') (by decide) e.symm
  have he : tk.stream.atEnd = false := by rw [hs]; rfl
  have hb : tk.stream.startsWith litBang = false := by
    rw [hs]; simp [renderToken, hq, startsWith, litBang, List.isPrefixOf_cons_cons, n1]
  have hl : tk.stream.startsWith litLt = true := by
    rw [hs]; simp [renderToken, startsWith, litLt]
  unfold parseNextImpl
  simp only [he, Bool.false_eq_true, if_false, hst, miscStep_start tk _ pos p l sp r hs hok, hb, hl,
    if_true]
  rw [hs, parseElementStart_app pos p l sp r hok hr]
  rfl

end XotModel.Lex.Canon
