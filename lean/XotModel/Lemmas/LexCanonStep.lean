/-
  XotModel.Lemmas.LexCanonStep — one iteration of the tokenizer loop: unfolding lemmas for
  `lexLoop`, and `parse_next_impl` on canonical text in each tokenizer state.
-/
import XotModel.Lemmas.LexCanonParse

namespace XotModel.Lex.Canon

open XotModel.Lex XotModel.Lex.Stream

/-! ### Unfolding `lexLoop` -/

theorem lexLoop_end {tk : Tokenizer} (position : Nat) (h : tk.stream.atEnd = true) :
    lexLoop tk position = ([], none) := by
  rw [lexLoop.eq_def]; simp [h]

theorem lexLoop_token {tk tk' : Tokenizer} {t : Token} (position : Nat)
    (he : tk.stream.atEnd = false) (hf : tk.state ≠ .finished)
    (h : parseNextImpl tk = .token t tk') :
    lexLoop tk position = (t :: (lexLoop tk' tk'.stream.pos).1, (lexLoop tk' tk'.stream.pos).2) := by
  rw [lexLoop.eq_def]
  simp only [he, Bool.false_eq_true, hf, or_self, dite_false]
  split
  · next hs => rw [h] at hs; cases hs
  · next hs => rw [h] at hs; cases hs; rfl
  · next hs => rw [h] at hs; cases hs

theorem lexLoop_skip {tk tk' : Tokenizer} (position : Nat)
    (he : tk.stream.atEnd = false) (hf : tk.state ≠ .finished)
    (h : parseNextImpl tk = .skip tk') :
    lexLoop tk position = lexLoop tk' position := by
  rw [lexLoop.eq_def]
  simp only [he, Bool.false_eq_true, hf, or_self, dite_false]
  split
  · next hs => rw [h] at hs; cases hs; rfl
  · next hs => rw [h] at hs; cases hs
  · next hs => rw [h] at hs; cases hs

theorem lexLoop_error {tk : Tokenizer} (position : Nat)
    (he : tk.stream.atEnd = false) (hf : tk.state ≠ .finished)
    (h : parseNextImpl tk = .error) :
    lexLoop tk position = ([], some position) := by
  rw [lexLoop.eq_def]
  simp only [he, Bool.false_eq_true, hf, or_self, dite_false]
  split
  · next hs => rw [h] at hs; cases hs
  · next hs => rw [h] at hs; cases hs
  · rfl

end XotModel.Lex.Canon
