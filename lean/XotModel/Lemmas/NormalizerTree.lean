/-
  `Tree.mapText N` keeps everything the serialisers read except the strings it maps: value categories,
  child structure, namespace declarations, attribute names, paths, namespaces in scope; and the event
  stream of the mapped tree is the mapped event stream (`genOutputs_mapText`).
-/
import XotModel.Model.Normalizer

namespace XotModel
open Gen

variable (N : Str → Str)

theorem mapTextList_eq_map (ks : List Tree) :
    Tree.mapText.mapTextList N ks = ks.map (Tree.mapText N) := by
  induction ks with
  | nil => rfl
  | cons k ks ih => simp [Tree.mapText.mapTextList, ih]

theorem mapText_node (v : Value) (ks : List Tree) :
    Tree.mapText N (.node v ks) = .node (v.mapText N) (ks.map (Tree.mapText N)) := by
  rw [Tree.mapText, mapTextList_eq_map]

@[simp] theorem mapText_value (t : Tree) : (t.mapText N).value = t.value.mapText N := by
  cases t with | node v ks => simp [mapText_node, Tree.value]

@[simp] theorem mapText_kids (t : Tree) : (t.mapText N).kids = t.kids.map (Tree.mapText N) := by
  cases t with | node v ks => simp [mapText_node, Tree.kids]

@[simp] theorem Value.mapText_category (v : Value) : (v.mapText N).category = v.category := by
  cases v <;> rfl

@[simp] theorem Value.mapText_isNormal (v : Value) : (v.mapText N).isNormal = v.isNormal := by
  simp [Value.isNormal]

@[simp] theorem Value.mapText_isElement (v : Value) : (v.mapText N).isElement = v.isElement := by
  cases v <;> rfl

@[simp] theorem Value.mapText_isText (v : Value) : (v.mapText N).isText = v.isText := by
  cases v <;> rfl

@[simp] theorem Value.mapText_isDocument (v : Value) : (v.mapText N).isDocument = v.isDocument := by
  cases v <;> rfl

theorem Value.mapText_element {v : Value} {name : Nat} (h : v = .element name) :
    v.mapText N = .element name := by subst h; rfl

/-! ### Child views -/

theorem mapText_normalKids (t : Tree) : (t.mapText N).normalKids = t.normalKids.map (Tree.mapText N) := by
  simp [Tree.normalKids, List.dropWhile_map, Function.comp_def]

theorem mapText_abnormalKids (t : Tree) :
    (t.mapText N).abnormalKids = t.abnormalKids.map (Tree.mapText N) := by
  simp [Tree.abnormalKids, List.takeWhile_map, Function.comp_def]

theorem mapText_namespaceNodes (t : Tree) :
    (t.mapText N).namespaceNodes = t.namespaceNodes.map (Tree.mapText N) := by
  simp [Tree.namespaceNodes, List.takeWhile_map, Function.comp_def]

theorem mapText_attributeNodes (t : Tree) :
    (t.mapText N).attributeNodes = t.attributeNodes.map (Tree.mapText N) := by
  simp [Tree.attributeNodes, List.takeWhile_map, List.dropWhile_map, Function.comp_def]

@[simp] theorem mapText_nsDecls (t : Tree) : (t.mapText N).nsDecls = t.nsDecls := by
  simp only [Tree.nsDecls, mapText_namespaceNodes, List.filterMap_map]
  congr 1
  funext k
  simp only [Function.comp_def, mapText_value]
  cases k.value <;> rfl

theorem mapText_attrs (t : Tree) : (t.mapText N).attrs = t.attrs.map (fun a => (a.1, N a.2)) := by
  simp only [Tree.attrs, mapText_attributeNodes, List.filterMap_map, List.map_filterMap]
  congr 1
  funext k
  simp only [Function.comp_def, mapText_value]
  cases k.value <;> rfl

theorem lookup_map_snd (n : Nat) (l : List (Nat × Str)) :
    (l.map (fun a => (a.1, N a.2))).lookup n = (l.lookup n).map N := by
  induction l with
  | nil => rfl
  | cons a l ih =>
    obtain ⟨k, v⟩ := a
    simp only [List.map_cons, List.lookup_cons]
    cases n == k <;> simp [ih]

theorem mapText_getAttribute (t : Tree) (n : Nat) :
    (t.mapText N).getAttribute n = (t.getAttribute n).map N := by
  simp [Tree.getAttribute, mapText_attrs, lookup_map_snd]

@[simp] theorem mapText_hasNsDecls (t : Tree) : (t.mapText N).hasNsDecls = t.hasNsDecls := by
  simp [Tree.hasNsDecls]

@[simp] theorem mapText_declaresPrefix (t : Tree) (p : Nat) :
    (t.mapText N).declaresPrefix p = t.declaresPrefix p := by
  simp [Tree.declaresPrefix]

theorem mapText_firstChild? (t : Tree) : (t.mapText N).firstChild? = t.firstChild?.map (Tree.mapText N) := by
  simp [Tree.firstChild?, mapText_normalKids, List.head?_map]

@[simp] theorem mapText_firstChild?_isNone (t : Tree) :
    (t.mapText N).firstChild?.isNone = t.firstChild?.isNone := by
  simp [mapText_firstChild?]

@[simp] theorem mapText_firstChild?_isSome (t : Tree) :
    (t.mapText N).firstChild?.isSome = t.firstChild?.isSome := by
  simp [mapText_firstChild?]

/-! ### Paths -/

theorem mapText_at? (t : Tree) (p : Path) : (t.mapText N).at? p = (t.at? p).map (Tree.mapText N) := by
  induction p generalizing t with
  | nil => simp [Tree.at?]
  | cons i p ih =>
    cases t with
    | node v ks =>
      rw [mapText_node]
      simp only [Tree.at?, List.getElem?_map]
      cases ks[i]? with
      | none => rfl
      | some k => simpa using ih k

theorem mapText_parentAt? (t : Tree) (p : Path) :
    (t.mapText N).parentAt? p = (t.parentAt? p).map (Tree.mapText N) := by
  unfold Tree.parentAt?
  split
  · rfl
  · exact mapText_at? N t _

theorem mapText_ancestorsOrSelf (t : Tree) (p : Path) :
    (t.mapText N).ancestorsOrSelf p = (t.ancestorsOrSelf p).map (List.map (Tree.mapText N)) := by
  induction p generalizing t with
  | nil => simp [Tree.ancestorsOrSelf]
  | cons i p ih =>
    simp only [Tree.ancestorsOrSelf, mapText_kids, List.getElem?_map]
    cases t.kids[i]? with
    | none => rfl
    | some k =>
      simp only [Option.map_some, ih k, Option.map_map]
      congr 1
      funext l
      simp

theorem traverseChain_mapText (seen : List Nat) (chain : List Tree) :
    traverseChain seen (chain.map (Tree.mapText N)) = traverseChain seen chain := by
  induction chain generalizing seen with
  | nil => rfl
  | cons t rest ih => simp [traverseChain, ih]

@[simp] theorem mapText_namespacesInScope (t : Tree) (p : Path) :
    namespacesInScope (t.mapText N) p = namespacesInScope t p := by
  simp only [namespacesInScope, mapText_ancestorsOrSelf, Option.map_map]
  congr 1
  funext chain
  simp [namespacesInScopeChain, traverseChain_mapText]

@[simp] theorem mapText_initStack (t : Tree) (p : Path) : initStack (t.mapText N) p = initStack t p := by
  simp [initStack]

/-! ### The event stream -/

@[simp] theorem mapText_extraPrefixes (inScope : List (Nat × Nat)) (n : Tree) :
    extraPrefixes inScope (n.mapText N) = extraPrefixes inScope n := by
  simp [extraPrefixes]

theorem extraPrefixes_map_mapText (inScope : List (Nat × Nat)) (n : Tree) :
    (extraPrefixes inScope n).map (Output.mapText N) = extraPrefixes inScope n := by
  simp [extraPrefixes, Function.comp_def, Output.mapText]

theorem mapText_edgeStart (inScope : List (Nat × Nat)) (isTop : Bool) (n : Tree) :
    edgeStart inScope isTop (n.mapText N) = (edgeStart inScope isTop n).map (Output.mapText N) := by
  unfold edgeStart
  rw [mapText_value]
  cases hv : n.value <;> simp [Value.mapText, Output.mapText]
  · cases isTop
    · simp [mapText_attrs, Function.comp_def, Output.mapText]
    · simp [mapText_attrs, Function.comp_def, Output.mapText, extraPrefixes]

theorem mapText_edgeEnd (n : Tree) : edgeEnd (n.mapText N) = (edgeEnd n).map (Output.mapText N) := by
  unfold edgeEnd
  rw [mapText_value]
  cases hv : n.value <;> simp [Value.mapText, Output.mapText]

/-- The tagged event of the normalised tree. -/
def tagMapText (po : Path × Output) : Path × Output := (po.1, po.2.mapText N)

mutual
theorem genNode_mapText (inScope : List (Nat × Nat)) (isTop : Bool) (path : Path) (n : Tree) :
    genNode inScope isTop path (n.mapText N) = (genNode inScope isTop path n).map (tagMapText N) := by
  cases n with
  | node v ks =>
    rw [mapText_node]
    unfold genNode
    rw [← mapText_node, Value.mapText_isNormal, genKids_mapText inScope path 0 ks]
    by_cases hv : v.isNormal = true
    · simp [hv, mapText_edgeStart, mapText_edgeEnd, Function.comp_def, tagMapText]
    · simp [hv]
theorem genKids_mapText (inScope : List (Nat × Nat)) (path : Path) (i : Nat) (ks : List Tree) :
    genNode.genKids inScope path i (ks.map (Tree.mapText N)) =
      (genNode.genKids inScope path i ks).map (tagMapText N) := by
  cases ks with
  | nil => simp [genNode.genKids]
  | cons k ks =>
    simp only [List.map_cons, genNode.genKids, List.map_append]
    rw [genNode_mapText inScope false (path ++ [i]) k, genKids_mapText inScope path (i + 1) ks]
end

theorem genOutputs_mapText (t : Tree) (start : Path) :
    genOutputs (t.mapText N) start = (genOutputs t start).map (tagMapText N) := by
  unfold genOutputs
  rw [mapText_at?, mapText_namespacesInScope]
  cases h1 : t.at? start with
  | none => simp
  | some n =>
    cases h2 : namespacesInScope t start with
    | none => simp
    | some inScope => simp [genNode_mapText]

end XotModel
