/-
  FpxRefine, part 2: a list of `namespaces_mut(h).insert(p, ns)` calls addressed by HANDLE, run on a
  forest, erases to `eraseWith`: the erased tree in which every element `h` has received, in the order
  of the list, exactly the insertions addressed to it.  (Insertions on different nodes touch disjoint
  child lists, so only the relative order of the calls on one node is observable — this is what the
  tree-level `applyRepair` of Model/Repair.lean relies on.)
-/
import XotModel.Lemmas.FpxRefineIns

namespace XotModel
open HTree
open Forest (MapKind entryKey entryUpdate)

namespace HTree

/-- The insertions addressed to the node `h` (only elements take any). -/
def declsFor (cs : List (Nat × Nat × Nat)) (h : Nat) (v : Value) : List (Nat × Nat) :=
  if v.isElement then (cs.filter (fun c => c.1 == h)).map (·.2) else []

mutual
  /-- Forget the handles, giving every element the insertions `(handle, prefix, namespace)` of `cs`
      addressed to it. -/
  def eraseWith (cs : List (Nat × Nat × Nat)) : HTree → Tree
    | node h v ks => insertNamespaces (declsFor cs h v) (.node v (eraseWithList cs ks))
  def eraseWithList (cs : List (Nat × Nat × Nat)) : List HTree → List Tree
    | [] => []
    | k :: ks => eraseWith cs k :: eraseWithList cs ks
end

theorem insertNamespaces_nil (t : Tree) : insertNamespaces [] t = t := rfl

theorem insertNamespaces_cons (d : Nat × Nat) (ds : List (Nat × Nat)) (t : Tree) :
    insertNamespaces (d :: ds) t = insertNamespaces ds (insertNamespace d.1 d.2 t) := rfl

theorem insertNamespaces_append (a b : List (Nat × Nat)) (t : Tree) :
    insertNamespaces (a ++ b) t = insertNamespaces b (insertNamespaces a t) := by
  simp [insertNamespaces, List.foldl_append]

theorem insertNamespace_value (p ns : Nat) (t : Tree) : (insertNamespace p ns t).value = t.value := by
  cases t; rfl

theorem insertNamespaces_value (ds : List (Nat × Nat)) : ∀ t : Tree, (insertNamespaces ds t).value = t.value := by
  induction ds with
  | nil => intro t; rfl
  | cons d ds ih => intro t; rw [insertNamespaces_cons, ih, insertNamespace_value]

theorem declsFor_nil (h : Nat) (v : Value) : declsFor [] h v = [] := by
  unfold declsFor; split <;> rfl

mutual
  theorem eraseWith_nil : ∀ r : HTree, eraseWith [] r = erase r
    | node h v ks => by simp only [eraseWith, declsFor_nil, insertNamespaces_nil, erase, eraseWithList_nil ks]
  theorem eraseWithList_nil : ∀ ks : List HTree, eraseWithList [] ks = eraseList ks
    | [] => rfl
    | k :: ks => by simp only [eraseWithList, eraseList, eraseWith_nil k, eraseWithList_nil ks]
end

theorem eraseWith_value (cs : List (Nat × Nat × Nat)) (k : HTree) : (eraseWith cs k).value = k.value := by
  cases k with
  | node h v ks => simp only [eraseWith, insertNamespaces_value]; rfl

theorem eraseWith_nonElement (cs : List (Nat × Nat × Nat)) (h : Nat) (v : Value) (ks : List HTree)
    (hv : v.isElement = false) : eraseWith cs (node h v ks) = .node v (eraseWithList cs ks) := by
  simp [eraseWith, declsFor, hv, insertNamespaces_nil]

theorem eraseWith_ns (cs : List (Nat × Nat × Nat)) (h q x : Nat) (ks : List HTree) :
    eraseWith cs (node h (.namespace q x) ks) = .node (.namespace q x) (eraseWithList cs ks) :=
  eraseWith_nonElement cs h _ ks rfl

/-- `insertNsKidH` under `eraseWithList` is the tree-level `insertNsKid` (namespace nodes take no
    insertions themselves). -/
theorem eraseWithList_insertNsKidH (cs : List (Nat × Nat × Nat)) (p ns fresh : Nat) : ∀ ks : List HTree,
    eraseWithList cs (insertNsKidH p ns fresh ks) = insertNsKid p ns (eraseWithList cs ks)
  | [] => by
    simp only [insertNsKidH, insertNsKid, eraseWithList, eraseWith_ns]
  | k :: ks => by
    have ih := eraseWithList_insertNsKidH cs p ns fresh ks
    cases k with
    | node h v kk =>
      by_cases hv : ∃ q x, v = .namespace q x
      · obtain ⟨q, x, rfl⟩ := hv
        by_cases hq : (q == p) = true
        · simp only [insertNsKidH, insertNsKid, eraseWithList, eraseWith_ns, HTree.value, Tree.value, hq,
            if_true, HTree.handle, HTree.kids, Tree.kids]
        · simp only [insertNsKidH, insertNsKid, eraseWithList, eraseWith_ns, HTree.value, Tree.value, hq,
            Bool.false_eq_true, if_false, ih]
      · have h1 : insertNsKidH p ns fresh (node h v kk :: ks) =
            node fresh (.namespace p ns) [] :: node h v kk :: ks := by
          cases v <;> first | (exfalso; exact hv ⟨_, _, rfl⟩) | rfl
        rw [h1]
        simp only [eraseWithList]
        have h2 : (eraseWith cs (node h v kk)).value = v := eraseWith_value cs _
        generalize eraseWith cs (node h v kk) = t at h2
        rw [eraseWith_ns]
        cases t with
        | node tv tk =>
          simp only [Tree.value] at h2
          subst h2
          cases tv <;> first | (exfalso; exact hv ⟨_, _, rfl⟩) | rfl

mutual
  /-- Calls addressed to handles that are not in the tree do nothing to it. -/
  theorem eraseWith_cons_not_mem (c : Nat × Nat × Nat) (cs : List (Nat × Nat × Nat)) : ∀ r : HTree,
      c.1 ∉ handles r → eraseWith (c :: cs) r = eraseWith cs r
    | node h v ks => by
      intro hn
      simp only [fi_handles_node, List.mem_cons, not_or] at hn
      have : declsFor (c :: cs) h v = declsFor cs h v := by
        unfold declsFor
        have : (c.1 == h) = false := by simpa using hn.1
        simp [this]
      simp only [eraseWith, this, eraseWithList_cons_not_mem c cs ks hn.2]
  theorem eraseWithList_cons_not_mem (c : Nat × Nat × Nat) (cs : List (Nat × Nat × Nat)) : ∀ ks : List HTree,
      c.1 ∉ handlesList ks → eraseWithList (c :: cs) ks = eraseWithList cs ks
    | [] => fun _ => rfl
    | k :: ks => by
      intro hn
      simp only [fi_handlesList_cons, List.mem_append, not_or] at hn
      simp only [eraseWithList, eraseWith_cons_not_mem c cs k hn.1, eraseWithList_cons_not_mem c cs ks hn.2]
end

/-- The edit one insertion call makes at its target, were it asked of a non-element too (it is not:
    `Forest.mapInsert` panics there). -/
def nsEdit (p ns fresh : Nat) (n : HTree) : HTree :=
  if n.value.isElement then Fmap.atKids (insertNsKidH p ns fresh) n else n

theorem eraseWith_cons_self_node (cs : List (Nat × Nat × Nat)) (h p ns : Nat) (v : Value)
    (ks : List HTree) (hn : h ∉ handlesList ks) :
    eraseWith ((h, p, ns) :: cs) (node h v ks) =
      insertNamespaces (declsFor ((h, p, ns) :: cs) h v) (.node v (eraseWithList cs ks)) := by
  simp only [eraseWith, eraseWithList_cons_not_mem (h, p, ns) cs ks hn]

mutual
  /-- **One call, erased**: editing the child list of `e` by `insertNsKidH` and then giving every node
      the calls `cs` is giving every node the calls `(e, p, ns) :: cs`. -/
  theorem eraseWith_nsEdit (cs : List (Nat × Nat × Nat)) (e p ns fresh : Nat) : ∀ r : HTree, (handles r).Nodup →
      eraseWith cs (mapAt e (nsEdit p ns fresh) r) = eraseWith ((e, p, ns) :: cs) r
    | node h v ks => by
      intro hnd
      simp only [fi_handles_node, List.nodup_cons] at hnd
      unfold mapAt
      by_cases hh : h = e
      · subst hh
        rw [if_pos rfl, eraseWith_cons_self_node cs h p ns v ks hnd.1]
        by_cases hv : v.isElement = true
        · have hd : declsFor ((h, p, ns) :: cs) h v = (p, ns) :: declsFor cs h v := by
            simp [declsFor, hv]
          simp only [nsEdit, HTree.value, hv, if_true, Fmap.atKids, HTree.setKids, HTree.kids, eraseWith,
            eraseWithList_insertNsKidH, hd, insertNamespaces_cons, insertNamespace]
        · have hd : declsFor ((h, p, ns) :: cs) h v = declsFor cs h v := by
            simp [declsFor, hv]
          simp only [nsEdit, HTree.value, hv, Bool.false_eq_true, if_false, eraseWith, hd]
      · have hd : declsFor ((e, p, ns) :: cs) h v = declsFor cs h v := by
          unfold declsFor
          have : (e == h) = false := by simpa using fun x : e = h => hh x.symm
          simp [this]
        rw [if_neg hh]
        simp only [eraseWith, hd, eraseWithList_nsEdit cs e p ns fresh ks hnd.2]
  theorem eraseWithList_nsEdit (cs : List (Nat × Nat × Nat)) (e p ns fresh : Nat) : ∀ ks : List HTree,
      (handlesList ks).Nodup →
      eraseWithList cs (mapAtList e (nsEdit p ns fresh) ks) = eraseWithList ((e, p, ns) :: cs) ks
    | [] => fun _ => rfl
    | k :: ks => by
      intro hnd
      simp only [fi_handlesList_cons, List.nodup_append] at hnd
      simp only [mapAtList, eraseWithList, eraseWith_nsEdit cs e p ns fresh k hnd.1,
        eraseWithList_nsEdit cs e p ns fresh ks hnd.2.1]
end

end HTree
end XotModel
