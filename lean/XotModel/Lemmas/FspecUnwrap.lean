/-
  FspecUnwrap — C05 for `element_unwrap`: the wrapper is replaced by its normal children, its
  attribute and namespace nodes disappear, and the text runs at the two seams are merged.
-/
import XotModel.Lemmas.FspecSurvivor

namespace XotModel
open HTree Spec

/-! ### The child list of the wrapper: non-normal prefix, normal suffix -/

theorem isNormal_iff_rank {v : Value} : v.isNormal = true ↔ v.category.rank = 2 := by
  rw [rank_normal]; unfold Value.isNormal; simp

theorem takeWhile_abn_all : ∀ (K : List HTree), ∀ k ∈ K.takeWhile abn, k.value.isNormal = false
  | [] => by intro k hk; cases hk
  | a :: K => by
    intro k hk
    rw [List.takeWhile_cons] at hk
    cases ha : abn a with
    | false => rw [ha] at hk; cases hk
    | true =>
      rw [ha] at hk
      cases List.mem_cons.1 hk with
      | inl e => rw [e]; unfold abn at ha; simpa using ha
      | inr e => exact takeWhile_abn_all K k e

theorem dropWhile_abn_normal : ∀ (K : List HTree), kidsOrdered K = true →
    ∀ k ∈ K.dropWhile abn, k.value.isNormal = true
  | [] => by intro _ k hk; cases hk
  | a :: K => by
    intro ho k hk
    rw [List.dropWhile_cons] at hk
    cases ha : abn a with
    | true => rw [ha] at hk; exact dropWhile_abn_normal K (kidsOrdered_tail ho) k hk
    | false =>
      rw [ha] at hk
      have han : a.value.isNormal = true := by unfold abn at ha; simpa using ha
      cases List.mem_cons.1 hk with
      | inl e => rw [e]; exact han
      | inr e =>
        have := kidsOrdered_rank_le K ho k e
        rw [isNormal_iff_rank.1 han] at this
        exact isNormal_iff_rank.2 (Nat.le_antisymm (rank_le_two _) this)

theorem filter_normal_eq_dropWhile {K : List HTree} (ho : kidsOrdered K = true) :
    K.filter (fun k => k.value.isNormal) = K.dropWhile abn := by
  have e : K.filter (fun k => k.value.isNormal) =
      (K.takeWhile abn ++ K.dropWhile abn).filter (fun k => k.value.isNormal) := by
    rw [List.takeWhile_append_dropWhile]
  rw [e, List.filter_append]
  have h1 : (K.takeWhile abn).filter (fun k => k.value.isNormal) = [] := by
    rw [List.filter_eq_nil_iff]
    intro k hk; rw [takeWhile_abn_all K k hk]; simp
  have h2 : (K.dropWhile abn).filter (fun k => k.value.isNormal) = K.dropWhile abn := by
    rw [List.filter_eq_self]
    intro k hk; exact dropWhile_abn_normal K ho k hk
  rw [h1, h2]; rfl

theorem fs_validList_mem {b : Bool} : ∀ {L : List HTree}, validList b L = true → ∀ t ∈ L, validTree b t = true
  | [], _, t, ht => by cases ht
  | k :: ks, h, t, ht => by
    rw [fs_validList_cons, Bool.and_eq_true] at h
    cases List.mem_cons.1 ht with
    | inl e => rw [e]; exact h.1
    | inr e => exact fs_validList_mem h.2 t e

/-- Attribute and namespace nodes are leaves. -/
theorem abn_leaf {b : Bool} {t : HTree} (hv : validTree b t = true) (hn : t.value.isNormal = false) :
    t.kids = [] := by
  cases t with
  | node th tv tks =>
    simp only [HTree.value] at hn
    simp only [HTree.kids]
    apply kids_nil_of_valid hv
    · cases tv <;> simp_all [Value.isNormal, Value.category, Value.isElement]
    · cases tv <;> simp_all [Value.isNormal, Value.category, Value.isDocument]

/-! ### `mergeRuns` at a seam, without assumptions on what follows -/

theorem mergeInto_seam' (keep : Keep) {a b : HTree} {x y : Str} {r : List HTree}
    (hx : a.value = .text x) (hy : b.value = .text y) :
    ∀ (l : List HTree) (cur : HTree), noAdjacentText (cur :: (l ++ [a])) = true →
    mergeInto keep cur (l ++ a :: b :: r) = cur :: (l ++ mergeInto keep (join keep a b x y) r)
  | [], cur => by
    intro h
    simp only [List.nil_append] at h ⊢
    rw [noAdj_cons_cons, Bool.and_eq_true] at h
    have h1 : ¬ (cur.value.isText = true ∧ a.value.isText = true) := by
      intro ⟨p, q⟩; simp [p, q] at h
    rw [mergeInto_cons_other h1, mergeInto_cons_text hx hy]
  | d :: l, cur => by
    intro h
    simp only [List.cons_append] at h ⊢
    rw [noAdj_cons_cons, Bool.and_eq_true] at h
    have h1 : ¬ (cur.value.isText = true ∧ d.value.isText = true) := by
      intro ⟨p, q⟩; simp [p, q] at h
    rw [mergeInto_cons_other h1, mergeInto_seam' keep hx hy l d h.2]

theorem mergeRuns_seam' (keep : Keep) {a b : HTree} {x y : Str} {l r : List HTree}
    (hx : a.value = .text x) (hy : b.value = .text y) (hl : noAdjacentText (l ++ [a]) = true) :
    mergeRuns keep (l ++ a :: b :: r) = l ++ mergeInto keep (join keep a b x y) r := by
  cases l with
  | nil =>
    simp only [List.nil_append, mergeRuns]
    rw [mergeInto_cons_text hx hy]
  | cons c l =>
    simp only [List.cons_append, mergeRuns]
    exact mergeInto_seam' keep hx hy l c hl

/-- The head of a list may be exchanged for a node of the same kind. -/
theorem noAdj_head {b c : HTree} {r : List HTree} (h : noAdjacentText (b :: r) = true)
    (e : c.value.isText = b.value.isText) : noAdjacentText (c :: r) = true := by
  cases r with
  | nil => rfl
  | cons d r => rw [noAdj_cons_cons] at h ⊢; rw [e]; exact h

theorem join_keep {keep : Keep} {a b : HTree} {x y : Str} (h : keep a.handle b.handle = true) :
    join keep a b x y = a.setValue (.text (x ++ y)) := by
  simp [join, h]

/-! ### `remove_element` as one edit of the parent's child list -/

namespace Forest

/-- An edit of the child list of `n`, itself a child of `p`, is an edit of `p`'s child list. -/
theorem editAt_kid {f : Forest} {n : Nat} {c : Ctx} (g : List HTree → List HTree) (nd : f.allHandles.Nodup)
    (e : f.ctx? n = some c) :
    f.editAt (some n) g = f.editAt (some c.parent) (replaceTop n (fun k => [kidsFn g k])) := by
  have := map_mapAt (kidsFn g) nd e
  simp only [Forest.editAt]
  rw [← this]
  rfl

/-- Splicing out leading leaves of `n`'s child list one by one. -/
theorem fs_foldl_spliceOut_leaves {n : Nat} {vn : Value} {R : List HTree} : ∀ (A : List HTree) (g : Forest),
    (∀ k ∈ A, k.kids = []) → SiteAt g n vn (A ++ R) →
    A.foldl (fun acc k => acc.spliceOut k.handle) g = g.editAt (some n) (fun _ => R)
  | [], g => by
    intro _ s
    simp only [List.foldl_nil]
    have := s.congr (g := fun _ => R) (g' := id) (by simp)
    rw [this, Forest.editAt_id]
  | a :: A, g => by
    intro hl s
    simp only [List.foldl_cons]
    have s' : SiteAt g n vn ([] ++ a :: (A ++ R)) := s
    have hsp : g.spliceOut a.handle = g.editAt (some n) (dropTop a.handle) := by
      rw [spliceOut_leaf s.nd s'.getKid (hl a List.mem_cons_self), parent?_of_ctx s'.ctx]
    obtain ⟨ndL, _⟩ := s'.nodupKids
    obtain ⟨tl, tr⟩ := tops_ne_of_nodup ndL
    have hd : dropTop a.handle ([] ++ a :: (A ++ R)) = A ++ R := by rw [dropTop_mid rfl tl tr]; rfl
    have s1 : SiteAt (g.editAt (some n) (dropTop a.handle)) n vn (A ++ R) := by
      have := s'.edit (dropTop a.handle) (handlesList_dropTop_sublist _ _)
      rw [hd] at this; exact this
    rw [hsp, fs_foldl_spliceOut_leaves A _ (fun k hk => hl k (List.mem_cons_of_mem _ hk)) s1,
      Forest.editAt_editAt]
    exact s'.congr rfl

theorem removeElement_site {f : Forest} {p n : Nat} {v vn : Value} {l K r : List HTree}
    (s : SiteAt f p v (l ++ .node n vn K :: r)) (hleaf : ∀ k ∈ K.takeWhile abn, k.kids = []) :
    f.removeElement n = f.editAt (some p) (fun _ => l ++ K.dropWhile abn ++ r) ∧
    SiteAt (f.removeElement n) p v (l ++ K.dropWhile abn ++ r) := by
  have hgn : f.get? n = some (.node n vn K) := s.getKid
  have hctx : f.ctx? n = some ⟨p, l, .node n vn K, r⟩ := s.ctx
  have sn : SiteAt f n vn (K.takeWhile abn ++ K.dropWhile abn) := by
    rw [List.takeWhile_append_dropWhile]; exact ⟨s.nd, hgn⟩
  obtain ⟨ndL, _⟩ := s.nodupKids
  obtain ⟨tl, tr⟩ := tops_ne_of_nodup ndL
  have hsubK : (handlesList (K.dropWhile abn)).Sublist (handlesList K) := by
    have : handlesList K = handlesList (K.takeWhile abn ++ K.dropWhile abn) := by
      rw [List.takeWhile_append_dropWhile]
    rw [this, fs_handlesList_append]
    exact List.sublist_append_right _ _
  have e1 : f.removeElement n =
      (f.editAt (some n) (fun _ => K.dropWhile abn)).spliceOut n := by
    unfold Forest.removeElement
    rw [hgn]
    simp only [HTree.kids]
    exact congrArg (fun z => Forest.spliceOut z n) (fs_foldl_spliceOut_leaves _ f hleaf sn)
  let g1 : List HTree → List HTree := replaceTop n (fun k => [kidsFn (fun _ => K.dropWhile abn) k])
  have hg1 : g1 (l ++ .node n vn K :: r) = l ++ .node n vn (K.dropWhile abn) :: r := by
    simp only [g1]
    rw [replaceTop_mid (h := n) (s := .node n vn K) rfl tl]
    simp [kidsFn, HTree.setKids]
  have s0 : SiteAt (f.editAt (some p) g1) p v (l ++ .node n vn (K.dropWhile abn) :: r) := by
    have := s.edit g1 (by
      rw [hg1]
      simp only [fs_handlesList_append, handlesList_cons, handles_node]
      exact (List.Sublist.refl _).append ((hsubK.cons_cons n).append (List.Sublist.refl _)))
    rw [hg1] at this; exact this
  obtain ⟨ndL0, _⟩ := s0.nodupKids
  obtain ⟨tl0, _⟩ := tops_ne_of_nodup ndL0
  have e2 : f.removeElement n = f.editAt (some p) (fun _ => l ++ K.dropWhile abn ++ r) := by
    rw [e1, editAt_kid _ s.nd hctx]
    show (f.editAt (some p) g1).spliceOut n = _
    have hc0 : (f.editAt (some p) g1).ctx? n = some ⟨p, l, .node n vn (K.dropWhile abn), r⟩ := s0.ctx
    rw [spliceOut_of_ctx s0.nd hc0, Forest.editAt_editAt]
    apply s.congr
    simp only [Function.comp]
    rw [hg1, replaceTop_mid (h := n) (s := .node n vn (K.dropWhile abn)) rfl tl0]
    rfl
  refine ⟨e2, ?_⟩
  rw [e2]
  exact s.edit (fun _ => l ++ K.dropWhile abn ++ r) (by
    simp only [fs_handlesList_append, handlesList_cons, handles_node, List.append_assoc]
    exact (List.Sublist.refl _).append (((hsubK.cons n)).append (List.Sublist.refl _)))

theorem elementUnwrap_nokids {f : Forest} {n : Nat} (hel : f.isElement n = true)
    (hfc : f.firstChild n = none) : f.elementUnwrap n = f.remove n := by
  unfold Forest.elementUnwrap
  rw [hfc]
  simp [hel]

/-- The consolidation steps of `element_unwrap` after `remove_element`. -/
def unwrapSteps (f1 : Forest) (first last : Nat) : Forest :=
  if (f1.removeConsolidate (f1.prevSibling first) (some first)).2 = true then
    if first = last then
      ((f1.removeConsolidate (f1.prevSibling first) (some first)).1.removeConsolidate
        (f1.prevSibling first) (f1.nextSibling last)).1
    else
      ((f1.removeConsolidate (f1.prevSibling first) (some first)).1.removeConsolidate
        (some last) ((f1.removeConsolidate (f1.prevSibling first) (some first)).1.nextSibling last)).1
  else
    ((f1.removeConsolidate (f1.prevSibling first) (some first)).1.removeConsolidate
      (some last) ((f1.removeConsolidate (f1.prevSibling first) (some first)).1.nextSibling last)).1

theorem elementUnwrap_kids {f : Forest} {n first last p : Nat} (hel : f.isElement n = true)
    (hfc : f.firstChild n = some first) (hpar : f.parent? n = some p) (hlc : f.lastChild n = some last) :
    (f.elementUnwrap n).1 = (f.removeElement n).unwrapSteps first last := by
  unfold Forest.elementUnwrap Forest.unwrapSteps
  rw [hfc]
  simp only [hel, hpar, hlc, Bool.not_true, Bool.false_eq_true, if_false, Option.isNone_some]
  generalize (f.removeElement n).removeConsolidate ((f.removeElement n).prevSibling first) (some first) = r1
  obtain ⟨f2, c⟩ := r1
  cases c
  · simp
  · simp only [if_true]
    by_cases hfl : first = last
    · simp [hfl]
    · simp [hfl]

end Forest

/-! ### One consolidation step at a seam of the child list -/

theorem seamStep {g : Forest} {p : Nat} {v : Value} {A B : List HTree} (k : HTree) (sg : SiteAt g p v (A ++ B))
    (hc : g.consolidation = true) (hleaf : ∀ t ∈ B, t.value.isText = true → t.kids = [])
    (hk : ∀ a b, A.getLast? = some a → B.head? = some b → a.value.isText = true → b.value.isText = true →
      k.value.category = .normal) :
    (g.removeConsolidate (prevOf A k) (nextOf B k) = (g, false) ∧
      ∀ a b, A.getLast? = some a → B.head? = some b → ¬ (a.value.isText = true ∧ b.value.isText = true))
    ∨ (∃ A' a b B' x y, A = A' ++ [a] ∧ B = b :: B' ∧ a.value = .text x ∧ b.value = .text y ∧
        prevOf A k = some a.handle ∧ nextOf B k = some b.handle ∧
        g.removeConsolidate (prevOf A k) (nextOf B k) =
          (g.editAt (some p) (fun _ => A' ++ a.setValue (.text (x ++ y)) :: B'), true) ∧
        SiteAt (g.editAt (some p) (fun _ => A' ++ a.setValue (.text (x ++ y)) :: B')) p v
          (A' ++ a.setValue (.text (x ++ y)) :: B')) := by
  have s' : SiteAt g p v (A ++ ([] ++ B)) := sg
  have hcat : ∀ a b, A.getLast? = some a → B.head? = some b → a.value.isText = true → b.value.isText = true →
      a.value.category = k.value.category ∧ b.value.category = k.value.category := by
    intro a b h1 h2 h3 h4
    rw [hk a b h1 h2 h3 h4, text_category h3, text_category h4]
    exact ⟨rfl, rfl⟩
  rcases oldSite (k := k) s' hleaf hcat with ⟨h1, h2⟩ | ⟨_, A', a, b, B', x, y, eA, eB, hx, hy, hp, hn, h3⟩
  · exact Or.inl ⟨h1, h2 hc⟩
  · right
    subst eA eB
    refine ⟨A', a, b, B', x, y, rfl, rfl, hx, hy, hp, hn, h3, ?_⟩
    exact sg.edit (fun _ => A' ++ a.setValue (.text (x ++ y)) :: B') (by
      simp only [fs_handlesList_append, handlesList_cons, handlesList_nil, setValue_handles, List.append_assoc,
        List.append_nil]
      exact (List.Sublist.refl _).append ((List.Sublist.refl _).append (List.sublist_append_right _ _)))

/-- The step at the seam after the last unwrapped child `kl`. -/
theorem lastStep {g : Forest} {p : Nat} {v : Value} {P r : List HTree} {kl : HTree}
    (sg : SiteAt g p v (P ++ kl :: r)) (hc : g.consolidation = true)
    (hleaf : ∀ t ∈ r, t.value.isText = true → t.kids = []) :
    ((g.removeConsolidate (some kl.handle) (g.nextSibling kl.handle)).1 = g ∧
      ∀ b, r.head? = some b → ¬ (kl.value.isText = true ∧ b.value.isText = true))
    ∨ (∃ b r' x y, r = b :: r' ∧ kl.value = .text x ∧ b.value = .text y ∧
        (g.removeConsolidate (some kl.handle) (g.nextSibling kl.handle)).1 =
          g.editAt (some p) (fun _ => P ++ kl.setValue (.text (x ++ y)) :: r')) := by
  rw [Forest.nextSibling_of_ctx sg.ctx]
  have hp : prevOf (P ++ [kl]) kl = some kl.handle := by simp [prevOf]
  have sg' : SiteAt g p v ((P ++ [kl]) ++ r) := by
    have : (P ++ [kl]) ++ r = P ++ kl :: r := by simp
    rw [this]; exact sg
  have hlast : (P ++ [kl]).getLast? = some kl := by simp
  rcases seamStep kl sg' hc hleaf (by
      intro a b h1 _ h3 _
      rw [hlast] at h1; cases h1
      exact text_category h3) with ⟨h1, h2⟩ | ⟨A', a, b, B', x, y, eA, eB, hx, hy, _, _, h3, _⟩
  · left
    rw [hp] at h1
    simp only
    rw [h1]
    exact ⟨rfl, fun b hb => h2 kl b hlast hb⟩
  · right
    obtain ⟨eP, ea⟩ := List.append_inj' eA rfl
    cases ea
    subst eP
    rw [hp] at h3
    simp only
    rw [h3]
    exact ⟨b, B', x, y, eB, hx, hy, rfl⟩

/-! ### The consolidation steps against `mergeRuns` -/

theorem steps_spec {f1 : Forest} {p : Nat} {v : Value} {l Nm r : List HTree} {first last : Nat} {keep : Keep}
    (s1 : SiteAt f1 p v (l ++ Nm ++ r))
    (hkp : ∀ k ∈ l ++ Nm, ∀ b, keep k.handle b = true)
    (hfirst : Nm.head?.map (·.handle) = some first) (hlast : Nm.getLast?.map (·.handle) = some last)
    (hleaf : ∀ t ∈ Nm ++ r, t.value.isText = true → t.kids = [])
    (hadj : f1.consolidation = true →
      noAdjacentText l = true ∧ noAdjacentText Nm = true ∧ noAdjacentText r = true) :
    f1.unwrapSteps first last = f1.mergeAt keep (some p) := by
  cases hcc : f1.consolidation with
  | false =>
    rw [mergeAt_off hcc]
    unfold Forest.unwrapSteps
    rw [Forest.removeConsolidate_off hcc]
    simp only [Bool.false_eq_true, if_false]
    rw [Forest.removeConsolidate_off hcc]
  | true =>
    rw [mergeAt_on hcc]
    obtain ⟨hl, hNm, hr⟩ := hadj hcc
    cases Nm with
    | nil => simp at hfirst
    | cons kf Nm' =>
    simp only [List.head?_cons, Option.map_some, Option.some.injEq] at hfirst
    subst hfirst
    obtain ⟨Nm'', kl, hsplit⟩ : ∃ Nm'' kl, kf :: Nm' = Nm'' ++ [kl] := by
      rcases List.eq_nil_or_concat (kf :: Nm') with h | ⟨L, b, h⟩
      · cases h
      · exact ⟨L, b, by rw [h, List.concat_eq_append]⟩
    have hlast' : kl.handle = last := by
      rw [hsplit] at hlast; simpa using hlast
    subst hlast'
    have hleafr : ∀ t ∈ r, t.value.isText = true → t.kids = [] :=
      fun t ht => hleaf t (List.mem_append_right _ ht)
    have s1a : SiteAt f1 p v (l ++ kf :: (Nm' ++ r)) := by
      have : l ++ kf :: (Nm' ++ r) = l ++ (kf :: Nm') ++ r := by simp
      rw [this]; exact s1
    have hprev : f1.prevSibling kf.handle = prevOf l kf := Forest.prevSibling_of_ctx s1a.ctx
    have hnx : nextOf (kf :: (Nm' ++ r)) kf = some kf.handle := by simp [nextOf]
    have hKlast : (l ++ kf :: Nm').getLast? = some kl := by rw [hsplit]; simp
    have hkl : ∀ b, keep kl.handle b = true := by
      apply hkp; rw [hsplit]; simp
    unfold Forest.unwrapSteps
    rw [hprev]
    rcases seamStep kf s1a hcc (fun t ht => hleaf t (by simpa using ht)) (by
        intro a b _ h2 _ h4
        simp only [List.head?_cons, Option.some.injEq] at h2
        subst h2
        exact text_category h4) with ⟨h1, h2⟩ | ⟨A', a, b, B', x, y, eA, eB, hx, hy, hp, _, h3, s2⟩
    · -- no merge at the first seam
      rw [hnx] at h1
      rw [h1]
      simp only [Bool.false_eq_true, if_false]
      have s1b : SiteAt f1 p v ((l ++ Nm'') ++ kl :: r) := by
        have : (l ++ Nm'') ++ kl :: r = l ++ (kf :: Nm') ++ r := by rw [hsplit]; simp
        rw [this]; exact s1
      have hseam1 : ∀ a b, l.getLast? = some a → (kf :: Nm').head? = some b →
          ¬ (a.value.isText = true ∧ b.value.isText = true) := by
        intro a b ha hb
        exact h2 a b ha (by simpa using hb)
      have hlN : noAdjacentText (l ++ kf :: Nm') = true := noAdj_append.2 ⟨hl, hNm, hseam1⟩
      rcases lastStep s1b hcc hleafr with ⟨h3, h4⟩ | ⟨b, r', x, y, er, hx, hy, h3⟩
      · rw [h3]
        have := s1.congr (g := mergeRuns keep) (g' := id) (by
          simp only [id]
          apply mergeRuns_id
          refine noAdj_append.2 ⟨hlN, hr, ?_⟩
          intro a b ha hb
          rw [hKlast] at ha; cases ha
          exact h4 b hb)
        rw [this, Forest.editAt_id]
      · subst er
        rw [h3]
        apply s1.congr
        show (l ++ Nm'') ++ kl.setValue (.text (x ++ y)) :: r' = mergeRuns keep (l ++ (kf :: Nm') ++ b :: r')
        have : l ++ (kf :: Nm') ++ b :: r' = (l ++ Nm'') ++ kl :: b :: r' := by rw [hsplit]; simp
        rw [this, mergeRuns_seam keep hx hy (by
          have : (l ++ Nm'') ++ [kl] = l ++ kf :: Nm' := by rw [hsplit]; simp
          rw [this]; exact hlN) hr, join_keep (hkl _)]
    · -- the first unwrapped child is merged into the text before it
      subst eA
      injection eB with eb eB'
      subst eb eB'
      rw [hnx] at h3
      rw [h3]
      simp only [if_true]
      rw [hp]
      have hka : ∀ b, keep a.handle b = true := by
        apply hkp; simp
      have hc2 : (f1.editAt (some p) (fun _ => A' ++ a.setValue (.text (x ++ y)) :: (Nm' ++ r))).consolidation
          = true := by rw [Forest.editAt_consolidation]; exact hcc
      have hla : noAdjacentText (A' ++ [a]) = true := hl
      have hta : (a.setValue (.text (x ++ y))).value.isText = kf.value.isText := by
        rw [setValue_value, hy]; rfl
      rcases List.eq_nil_or_concat Nm' with hN | ⟨Nm3, kl2, hN⟩
      · -- exactly one unwrapped child: the three-way case
        subst hN
        obtain ⟨e3, e4⟩ := List.append_inj' (s₁ := []) (t₁ := [kf]) hsplit rfl
        cases e4
        subst e3
        rw [if_pos rfl, Forest.nextSibling_of_ctx s1a.ctx]
        have s2' : SiteAt (f1.editAt (some p) (fun _ => A' ++ a.setValue (.text (x ++ y)) :: ([] ++ r))) p v
            ((A' ++ [a.setValue (.text (x ++ y))]) ++ r) := by
          have : (A' ++ [a.setValue (.text (x ++ y))]) ++ r = A' ++ a.setValue (.text (x ++ y)) :: ([] ++ r) := by
            simp
          rw [this]; exact s2
        have hp2 : prevOf (A' ++ [a.setValue (.text (x ++ y))]) kf = some a.handle := by
          simp [prevOf, setValue_value, setValue_handle, hy, Value.category]
        have hLeq : (A' ++ [a]) ++ [kf] ++ r = A' ++ a :: kf :: r := by simp
        rcases seamStep kf s2' hc2 hleafr (fun _ _ _ _ _ _ => by rw [hy]; rfl)
          with ⟨h5, h6⟩ | ⟨A2, a2, b, r', x2, z, eA2, er, hx2, hz, _, _, h7, _⟩
        · rw [hp2] at h5
          simp only [List.nil_append] at h5 ⊢
          rw [h5]
          apply s1.congr
          show A' ++ a.setValue (.text (x ++ y)) :: r = mergeRuns keep ((A' ++ [a]) ++ [kf] ++ r)
          rw [hLeq, mergeRuns_seam' keep hx hy hla, join_keep (hka _), mergeInto_id]
          have : a.setValue (.text (x ++ y)) :: r = [a.setValue (.text (x ++ y))] ++ r := rfl
          rw [this]
          refine noAdj_append.2 ⟨rfl, hr, ?_⟩
          intro a0 b ha0 hb
          exact h6 a0 b (by simpa using ha0) hb
        · obtain ⟨eA3, ea3⟩ := List.append_inj' eA2 rfl
          cases ea3
          subst eA3 er
          rw [setValue_value] at hx2
          injection hx2 with hx2
          subst hx2
          rw [hp2] at h7
          simp only [List.nil_append] at h7 ⊢
          rw [h7, Forest.editAt_editAt]
          apply s1.congr
          show A' ++ (a.setValue (.text (x ++ y))).setValue (.text (x ++ y ++ z)) :: r'
            = mergeRuns keep ((A' ++ [a]) ++ [kf] ++ b :: r')
          have : (A' ++ [a]) ++ [kf] ++ b :: r' = A' ++ a :: kf :: b :: r' := by simp
          rw [this, mergeRuns_seam' keep hx hy hla, join_keep (hka _),
            mergeInto_cons_text (setValue_value _ _) hz, join_keep (by rw [setValue_handle]; exact hka _),
            mergeInto_id]
          exact noAdj_head hr (by rw [setValue_value, hz]; rfl)
      · -- several unwrapped children: the last one is looked at separately
        rw [List.concat_eq_append] at hN
        subst hN
        obtain ⟨e3, e4⟩ := List.append_inj' (s₁ := kf :: Nm3) (t₁ := [kl2]) hsplit rfl
        cases e4
        subst e3
        have hne : ¬ kf.handle = kl.handle := by
          obtain ⟨ndL, _⟩ := s1a.nodupKids
          obtain ⟨_, tr⟩ := tops_ne_of_nodup ndL
          exact fun e => tr kl (by simp) e.symm
        rw [if_neg hne]
        have s2b : SiteAt (f1.editAt (some p) (fun _ => A' ++ a.setValue (.text (x ++ y)) :: (Nm3 ++ [kl] ++ r))) p v
            ((A' ++ a.setValue (.text (x ++ y)) :: Nm3) ++ kl :: r) := by
          have : (A' ++ a.setValue (.text (x ++ y)) :: Nm3) ++ kl :: r
              = A' ++ a.setValue (.text (x ++ y)) :: (Nm3 ++ [kl] ++ r) := by simp
          rw [this]; exact s2
        have hLeq : ∀ R, (A' ++ [a]) ++ (kf :: (Nm3 ++ [kl])) ++ R = A' ++ a :: kf :: (Nm3 ++ kl :: R) := by
          intro R; simp
        rcases lastStep s2b hc2 hleafr with ⟨h5, h6⟩ | ⟨b, r', x2, z, er, hx2, hz, h7⟩
        · rw [h5]
          apply s1.congr
          show A' ++ a.setValue (.text (x ++ y)) :: (Nm3 ++ [kl] ++ r)
            = mergeRuns keep ((A' ++ [a]) ++ (kf :: (Nm3 ++ [kl])) ++ r)
          rw [hLeq, mergeRuns_seam' keep hx hy hla, join_keep (hka _), mergeInto_id]
          · simp
          · apply noAdj_head (b := kf) _ hta
            have : kf :: (Nm3 ++ kl :: r) = (kf :: (Nm3 ++ [kl])) ++ r := by simp
            rw [this]
            refine noAdj_append.2 ⟨hNm, hr, ?_⟩
            intro a0 b ha0 hb
            have : (kf :: (Nm3 ++ [kl])).getLast? = some kl := by
              have e : kf :: (Nm3 ++ [kl]) = (kf :: Nm3) ++ [kl] := rfl
              rw [e, List.getLast?_append]; rfl
            rw [this] at ha0; cases ha0
            exact h6 b hb
        · subst er
          rw [h7, Forest.editAt_editAt]
          apply s1.congr
          show (A' ++ a.setValue (.text (x ++ y)) :: Nm3) ++ kl.setValue (.text (x2 ++ z)) :: r'
            = mergeRuns keep ((A' ++ [a]) ++ (kf :: (Nm3 ++ [kl])) ++ b :: r')
          rw [hLeq, mergeRuns_seam' keep hx hy hla, join_keep (hka _),
            mergeInto_seam keep hx2 hz hr Nm3 _ (noAdj_head hNm hta), join_keep (hkl _)]
          simp

/-! ### `element_unwrap` -/

theorem unwrap_core {f : Forest} {p n : Nat} {v vn : Value} {l K r : List HTree} {first last : Nat} {keep : Keep}
    (hkeep : ∀ a b, a ≠ n → keep a b = true) (inv : f.Inv) (norm : f.Normal)
    (s : SiteAt f p v (l ++ .node n vn K :: r))
    (hfc : ((K.dropWhile abn).head?).map (·.handle) = some first) (hlc : Forest.lastOf K = some last) :
    (f.removeElement n).unwrapSteps first last = specUnwrap keep n f := by
  have hctx : f.ctx? n = some ⟨p, l, .node n vn K, r⟩ := s.ctx
  have hpar : f.parent? n = some p := Forest.parent?_of_ctx hctx
  obtain ⟨ndL, _⟩ := s.nodupKids
  obtain ⟨tl, _⟩ := tops_ne_of_nodup ndL
  obtain ⟨_, _, _, _, ndw, _⟩ := nodup_mid ndL
  have hnK : n ∉ handlesList K := (nodup_handles_node ndw).1
  have hwmem : HTree.node n vn K ∈ l ++ .node n vn K :: r := List.mem_append_right _ List.mem_cons_self
  have hvp := s.valid inv.valid
  have hvw := fs_validList_mem (validTree_node hvp).2.2.2 _ hwmem
  have hordK := (validTree_node hvw).2.1
  have hvK := (validTree_node hvw).2.2.2
  have hleafAb : ∀ k ∈ K.takeWhile abn, k.kids = [] := fun k hk =>
    abn_leaf (fs_validList_mem hvK k ((List.takeWhile_sublist _).subset hk)) (takeWhile_abn_all K k hk)
  have hleafK : ∀ t ∈ K, t.value.isText = true → t.kids = [] :=
    SiteAt.leaf (f := f) (p := n) (v := vn) ⟨s.nd, s.getKid⟩ inv.valid
  have hleafr : ∀ t ∈ r, t.value.isText = true → t.kids = [] :=
    fun t ht => s.leaf inv.valid t (List.mem_append_right _ (List.mem_cons_of_mem _ ht))
  obtain ⟨e1, s1⟩ := Forest.removeElement_site s hleafAb
  have hspec : specUnwrap keep n f =
      (f.editAt (some p) (fun _ => l ++ K.dropWhile abn ++ r)).mergeAt keep (some p) := by
    unfold specUnwrap
    rw [hpar]
    simp only
    congr 1
    apply s.congr
    rw [replaceTop_mid (h := n) (s := .node n vn K) rfl tl]
    simp only [HTree.kids]
    rw [filter_normal_eq_dropWhile hordK]
  rw [hspec, ← e1]
  have hc1 : (f.removeElement n).consolidation = f.consolidation := by
    rw [e1, Forest.editAt_consolidation]
  have hK : K = K.takeWhile abn ++ K.dropWhile abn := List.takeWhile_append_dropWhile.symm
  have hNmK : ∀ t ∈ K.dropWhile abn, t ∈ K := fun t ht => (List.dropWhile_sublist _).subset ht
  generalize f.removeElement n = f1 at e1 s1 hc1 ⊢
  generalize K.dropWhile abn = Nm at *
  generalize K.takeWhile abn = Ab at *
  apply steps_spec s1
  · intro k hk b
    apply hkeep
    cases List.mem_append.1 hk with
    | inl h => exact tl k h
    | inr h => exact fun e => hnK (e ▸ handle_mem_handlesList (hNmK k h))
  · exact hfc
  · cases hNl : Nm.getLast? with
    | none =>
      rw [List.getLast?_eq_none_iff.1 hNl] at hfc
      cases hfc
    | some z =>
      have : K.getLast? = some z := by
        rw [hK, List.getLast?_append, hNl]; rfl
      unfold Forest.lastOf at hlc
      rw [this] at hlc
      simp only at hlc
      split at hlc
      · simpa using hlc
      · cases hlc
  · intro t ht
    cases List.mem_append.1 ht with
    | inl h => exact hleafK t (hNmK t h)
    | inr h => exact hleafr t h
  · intro hc
    have hcf : f.consolidation = true := hc1 ▸ hc
    have hsP := s.valid (norm hcf)
    obtain ⟨hl, hwr, _⟩ := noAdj_append.1 ((validTree_node hsP).2.2.1 rfl)
    have hsW := fs_validList_mem (validTree_node hsP).2.2.2 _ hwmem
    have hsK := (validTree_node hsW).2.2.1 rfl
    rw [hK] at hsK
    exact ⟨hl, (noAdj_append.1 hsK).2.1, noAdj_tail hwr⟩

theorem replaceTop_eq_dropTop {n : Nat} {F : HTree → List HTree} {l : List HTree} {w : HTree} {r : List HTree}
    (hw : w.handle = n) (hl : ∀ k ∈ l, k.handle ≠ n) (hr : ∀ k ∈ r, k.handle ≠ n) (hF : F w = []) :
    replaceTop n F (l ++ w :: r) = dropTop n (l ++ w :: r) := by
  rw [replaceTop_mid hw hl, dropTop_mid hw hl hr, hF]; simp

/-- Without normal children, unwrapping is removing. -/
theorem specUnwrap_eq_specRemove {f : Forest} {n : Nat} {keep : Keep} {w : HTree} (nd : f.allHandles.Nodup)
    (hg : f.get? n = some w) (hF : w.kids.filter (fun k => k.value.isNormal) = []) :
    specUnwrap keep n f = specRemove keep n f := by
  unfold specUnwrap specRemove
  simp only
  congr 1
  rcases Forest.root_or_ctx hg with hroot | ⟨c, hctx⟩
  · rw [Forest.parent?_of_no_ctx (Forest.ctx_none_of_root nd hroot)]
    unfold Forest.isRoot at hroot
    obtain ⟨k, hk, hkc⟩ := List.any_eq_true.1 hroot
    have hkc' : k.handle = n := by simpa using hkc
    have hkt := root_is nd hg k hk hkc'
    subst hkt
    obtain ⟨A, B, hAB⟩ := List.append_of_mem hk
    have nd' := nd
    unfold Forest.allHandles at nd'
    rw [hAB] at nd'
    obtain ⟨tl, tr⟩ := tops_ne_of_nodup nd'
    simp only [Forest.editAt]
    rw [hAB, replaceTop_eq_dropTop hkc' (fun k' h' => hkc' ▸ tl k' h') (fun k' h' => hkc' ▸ tr k' h') hF]
  · obtain ⟨e0, v, s⟩ := SiteAt.of_ctx nd hctx
    have hself : c.self = w := by
      have := Forest.get?_of_ctx nd hctx
      rw [hg] at this
      exact (Option.some.inj this).symm
    rw [Forest.parent?_of_ctx hctx]
    obtain ⟨ndL, _⟩ := s.nodupKids
    obtain ⟨tl, tr⟩ := tops_ne_of_nodup ndL
    apply s.congr
    exact replaceTop_eq_dropTop e0 (fun k hk => e0 ▸ tl k hk) (fun k hk => e0 ▸ tr k hk) (by rw [hself]; exact hF)

theorem Forest.get_of_isElement {f : Forest} {n : Nat} (h : f.isElement n = true) :
    ∃ nm K, f.get? n = some (.node n (.element nm) K) := by
  unfold Forest.isElement Forest.value? at h
  cases hg : f.get? n with
  | none => rw [hg] at h; simp at h
  | some t =>
    have hh := (findList?_some f.roots t hg).1
    cases t with
    | node th tv tk =>
      simp only [HTree.handle] at hh
      subst hh
      rw [hg] at h
      cases tv <;> simp [HTree.value, Value.isElement] at h
      exact ⟨_, _, rfl⟩

/-- **C05, `element_unwrap`**: a successful call replaces the element by its normal children and
    merges the text runs this creates. -/
theorem unwrap_spec {f : Forest} {n : Nat} {keep : Keep} (hkeep : ∀ a b, a ≠ n → keep a b = true)
    (inv : f.Inv) (norm : f.Normal) (hok : (f.elementUnwrap n).2 = .ok) :
    (f.elementUnwrap n).1 = specUnwrap keep n f := by
  have nd := inv.nodup
  cases hel : f.isElement n with
  | false =>
    unfold Forest.elementUnwrap at hok
    simp [hel] at hok
  | true =>
  obtain ⟨nm, K, hg⟩ := Forest.get_of_isElement hel
  cases hfc : f.firstChild n with
  | none =>
    rw [Forest.elementUnwrap_nokids hel hfc, remove_spec hkeep inv norm (Forest.isLive_of_get hg)]
    symm
    apply specUnwrap_eq_specRemove nd hg
    rw [Forest.firstChild_of_get hg] at hfc
    simp only [HTree.kids]
    have hd : K.dropWhile abn = [] := by
      cases h : K.dropWhile abn with
      | nil => rfl
      | cons a t => rw [h] at hfc; simp at hfc
    have htk : K.takeWhile abn = K := by
      have := List.takeWhile_append_dropWhile (p := abn) (l := K)
      rw [hd, List.append_nil] at this
      exact this
    rw [List.filter_eq_nil_iff]
    intro k hk
    rw [← htk] at hk
    rw [takeWhile_abn_all K k hk]
    simp
  | some first =>
    cases hpar : f.parent? n with
    | none =>
      unfold Forest.elementUnwrap at hok
      rw [hfc] at hok
      simp [hel, hpar] at hok
    | some p =>
    cases hlc : f.lastChild n with
    | none =>
      unfold Forest.elementUnwrap at hok
      rw [hfc] at hok
      simp [hel, hpar, hlc] at hok
    | some last =>
    rw [Forest.elementUnwrap_kids hel hfc hpar hlc]
    cases hctx : f.ctx? n with
    | none => rw [Forest.parent?_of_no_ctx hctx] at hpar; cases hpar
    | some c =>
    obtain ⟨e0, v, s⟩ := SiteAt.of_ctx nd hctx
    have hself : c.self = .node n (.element nm) K := by
      have := Forest.get?_of_ctx nd hctx
      rw [hg] at this
      exact (Option.some.inj this).symm
    have hp : c.parent = p := by
      rw [Forest.parent?_of_ctx hctx] at hpar
      exact Option.some.inj hpar
    obtain ⟨p', l, w, r⟩ := c
    simp only at e0 s hself hp
    subst hself hp
    exact unwrap_core hkeep inv norm s (by rw [← Forest.firstChild_of_get hg]; exact hfc)
      (by rw [← Forest.lastChild_of_get hg]; exact hlc)

end XotModel
