/-
  XotModel.Lemmas.ArenaRmsTop — `NodeId::remove_subtree` of a live node on a well-formed arena,
  assembled: no panic, the loops end, the subtree is freed in document order.
-/
import XotModel.Lemmas.ArenaRms

namespace XotModel
namespace Arena

/-- What `remove_subtree` guarantees. -/
structure RemoveSubtreeOk (a : Arena) (g : Shape) (i : Nat) (a' : Arena) (l : List Nat) : Prop where
  rep : Rep a' ((g.detach i).prune l)
  nodup : l.Nodup
  mem : ∀ u, u ∈ l ↔ Reach (g.detach i).par u i
  mono : StampMono a a'
  gone : ∀ u, u ∈ l → (a.idAt u).stamp < 32767 → Gone a' (a.idAt u)
  live : ∀ j, Live a' j ↔ (Live a j ∧ j ∉ l)
  payload : ∀ j s v, j ∉ l → a.slot j = some s → s.data = .data v → ∃ s', a'.slot j = some s' ∧ s'.data = .data v

theorem Rep.removeSubtree {a : Arena} {g : Shape} (r : Rep a g) (i : Nat) (hi : Live a i) :
    ∃ a' l, Arena.removeSubtree a (a.idAt i) = .done a' () ∧ RemoveSubtreeOk a g i a' l := by
  obtain ⟨a1, hd, r1, hM⟩ := r.detach (a.idAt i) (LiveId.idAt hi)
  rw [idAt_index0] at r1
  have hi1 : Live a1 i := (hM.live i).mpr hi
  obtain ⟨l, hnd, hmem, hloop⟩ := r1.subtreeOk i hi1
  have hroot : (g.detach i).par i = none := Shape.detach_par_self g i
  have hlive : ∀ u, u ∈ l → Live a1 u := by
    intro u hu
    have := (hmem u).mp hu
    cases this with
    | refl => exact hi1
    | step hp _ => exact (r1.live_of_par hp).1
  have hlen : l.length ≤ a1.nodes.length :=
    nodup_bounded _ _ hnd (fun u hu => by obtain ⟨s, hs, _⟩ := hlive u hu; exact lt_of_slot hs)
  obtain ⟨b', e, m⟩ := hloop none (.root hroot) (g.detach i).free [] a1 a1.fuel (FreeMany.refl r1.free)
    (fun u _ h => by cases h) (by unfold fuel; omega)
  simp only [List.nil_append, Option.map_none] at e m
  have hdone : removeSubtreeLoop (a1.fuel - l.length) b' none = .done b' () := by
    obtain ⟨n, hn⟩ : ∃ n, a1.fuel - l.length = n + 1 := ⟨a1.fuel - l.length - 1, by unfold fuel; omega⟩
    rw [hn]; rfl
  have hcomp : Arena.removeSubtree a (a.idAt i) = .done b' () := by
    unfold Arena.removeSubtree
    rw [hd]
    simp only [Step.bind_done]
    rw [← hM.idAt i, e, hdone]
  have hdown : ∀ c q, (g.detach i).par c = some q → q ∈ l → c ∈ l := fun c q hp hq =>
    (hmem c).mpr (.step hp ((hmem q).mp hq))
  have hup : ∀ c q, (g.detach i).par c = some q → c ∈ l → q ∈ l := by
    intro c q hp hc
    have := (hmem c).mp hc
    cases this with
    | refl => rw [hroot] at hp; cases hp
    | step hp' hr => rw [hp] at hp'; cases hp'; exact (hmem q).mpr hr
  have rep' := r1.prune l m hlive hdown hup
  have mono1 : StampMono a1 b' := by
    intro j s hs
    by_cases hj : j ∈ l
    · obtain ⟨s0, hs0, h00⟩ := hlive j hj
      rw [hs] at hs0; cases hs0
      obtain ⟨s', nf, hs', e1, _⟩ := m.self j hj s hs
      refine ⟨s', hs', ?_⟩
      unfold AbsLe
      split at e1 <;> omega
    · obtain ⟨s', hs', _, hst⟩ := m.slot_other hj hs
      exact ⟨s', hs', by unfold AbsLe; omega⟩
  refine ⟨b', l, hcomp, rep', hnd, hmem, hM.stampMono.trans mono1, ?_, ?_, ?_⟩
  rotate_left
  · intro j
    rw [← hM.live j]
    constructor
    · rintro ⟨s', hs', h0'⟩
      have hp := m.ptrs j
      rw [hs'] at hp
      cases hs1 : a1.slot j with
      | none => rw [hs1] at hp; simp at hp
      | some s1 =>
        by_cases hj : j ∈ l
        · exfalso
          obtain ⟨s0, hs0, h00⟩ := hlive j hj
          rw [hs1] at hs0; cases hs0
          obtain ⟨s2, nf, hs2, e1, _⟩ := m.self j hj s1 hs1
          rw [hs'] at hs2; cases hs2
          split at e1 <;> omega
        · obtain ⟨s2, hs2, _, hst⟩ := m.slot_other hj hs1
          rw [hs'] at hs2; cases hs2
          exact ⟨⟨s1, hs1, by omega⟩, hj⟩
    · rintro ⟨⟨s1, hs1, h0⟩, hj⟩
      obtain ⟨s2, hs2, _, hst⟩ := m.slot_other hj hs1
      exact ⟨s2, hs2, by omega⟩
  · intro j s v hj hs hd
    obtain ⟨s1, hs1, _, hd1⟩ := hM.slot_some hs
    exact m.payload j s1 v hj hs1 (by rw [hd1]; exact hd)
  intro u hu hlt
  obtain ⟨s, hs, h0⟩ := hlive u hu
  obtain ⟨s', nf, hs', e1, _⟩ := m.self u hu s hs
  have est : (a.idAt u).stamp = s.stamp := by rw [← hM.idAt u, idAt_of_slot hs]
  rw [est] at hlt
  refine ⟨s', by rw [idAt_index0]; exact hs', by rw [est]; exact h0, ?_⟩
  rw [est, e1, if_pos hlt]
  omega

end Arena
end XotModel
