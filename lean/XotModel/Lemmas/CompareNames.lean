/-
  Lemmas for C13, part 13: the canonical form over expanded-name STRINGS.
  `canon` holds name ids.  With the interning tables duplicate-free (the C08 invariant) an id in
  range stands for exactly one (namespace URI, local name) pair of strings, so resolving every id
  of `canon t` to its strings (`canonStr`) loses nothing.
-/
import XotModel.Lemmas.CompareCanon
import XotModel.Lemmas.IdMap
import XotModel.Lemmas.SharedDefs

namespace XotModel

-- `Env.expanded` (`(namespace URI, local name)` of a name id) is in `Lemmas/SharedDefs.lean`.

/-- Canonical value with every id resolved to its string(s). -/
inductive SValue where
  | document
  | element (name : Str × Str) (attrs : List ((Str × Str) × Str))
  | text (s : Str)
  | comment (s : Str)
  | pi (target : Str × Str) (data : Option Str)
  | attribute (name : Str × Str) (value : Str)
  | namespace (pfx : Str) (uri : Str)
  deriving Repr, DecidableEq

inductive SCanon where
  | node (v : SValue) (kids : List SCanon)
  deriving Repr

def resolveAttrs (e : Env) (l : List (Nat × Str)) : List ((Str × Str) × Str) :=
  l.map fun kv => (e.expanded kv.1, kv.2)

def CValue.resolve (e : Env) : CValue → SValue
  | .document => .document
  | .element n attrs => .element (e.expanded n) (resolveAttrs e attrs)
  | .text s => .text s
  | .comment s => .comment s
  | .pi t d => .pi (e.expanded t) d
  | .attribute n v => .attribute (e.expanded n) v
  | .namespace p ns => .namespace (e.prefixStr p) (e.namespaceStr ns)

def Canon.resolve (e : Env) : Canon → SCanon
  | .node v ks => .node (v.resolve e) (resolveList e ks)
where
  resolveList (e : Env) : List Canon → List SCanon
    | [] => []
    | k :: ks => Canon.resolve e k :: resolveList e ks

/-- The canonical form of a subtree over strings: kind, expanded names (namespace URI, local
    name), attributes (in the order of `canon`: sorted by the id their name has in this `Xot`),
    text / comment / PI content, children. -/
def canonStr (e : Env) (t : Tree) : SCanon := (canon t).resolve e

/-- The C08 invariant on the three tables (`by_id` duplicate-free), and every registered name's
    namespace id is an id of the same `Xot`. -/
structure Env.DupFree (e : Env) : Prop where
  names : e.names.Nodup
  namespaces : e.namespaces.Nodup
  prefixes : e.prefixes.Nodup
  nsInRange : ∀ x ∈ e.names, x.2 < e.namespaces.length

/-- The `Env` of an interner state: the three `by_id` vectors. -/
def Env.ofInterner (x : Interner) : Env :=
  { namespaces := x.namespaceLookup.byId, prefixes := x.prefixLookup.byId, names := x.nameLookup.byId }

/-- The three duplicate-freeness clauses are the invariant C08 proves of every reachable
    interner (`C08_inv_reachable`). -/
theorem Env.dupFree_of_inv (x : Interner) (h : Interner.Inv x)
    (hr : ∀ k ∈ x.nameLookup.byId, k.2 < x.namespaceLookup.byId.length) : (Env.ofInterner x).DupFree :=
  ⟨h.nm.nodup, h.ns.nodup, h.pf.nodup, hr⟩

/-! ### An id in range stands for one expanded name -/

theorem getD_mem {α} {l : List α} {i : Nat} (d : α) (h : i < l.length) : l.getD i d ∈ l := by
  rw [List.getD_eq_getElem?_getD, List.getElem?_eq_getElem h]
  exact List.getElem_mem h

theorem Env.expanded_inj {e : Env} (hd : e.DupFree) {n m : Nat} (hn : n < e.names.length) (hm : m < e.names.length)
    (h : e.expanded n = e.expanded m) : n = m := by
  simp only [Env.expanded, Prod.mk.injEq, Env.namespaceStr, Env.nsOfName, Env.localName] at h
  obtain ⟨hns, hl⟩ := h
  have r1 := hd.nsInRange _ (getD_mem ([], 0) hn)
  have r2 := hd.nsInRange _ (getD_mem ([], 0) hm)
  have e2 := (List.getD_inj r1 r2 hd.namespaces).mp hns
  exact (List.getD_inj hn hm hd.names).mp (Prod.ext hl e2)

theorem Env.prefixStr_inj {e : Env} (hd : e.DupFree) {p q : Nat} (hp : p < e.prefixes.length)
    (hq : q < e.prefixes.length) (h : e.prefixStr p = e.prefixStr q) : p = q :=
  (List.getD_inj hp hq hd.prefixes).mp h

theorem Env.namespaceStr_inj {e : Env} (hd : e.DupFree) {p q : Nat} (hp : p < e.namespaces.length)
    (hq : q < e.namespaces.length) (h : e.namespaceStr p = e.namespaceStr q) : p = q :=
  (List.getD_inj hp hq hd.namespaces).mp h

/-! ### Ids in range -/

def CValue.idsIn (e : Env) : CValue → Prop
  | .element n attrs => n < e.names.length ∧ ∀ kv ∈ attrs, kv.1 < e.names.length
  | .pi t _ => t < e.names.length
  | .attribute n _ => n < e.names.length
  | .namespace p ns => p < e.prefixes.length ∧ ns < e.namespaces.length
  | _ => True

def Canon.idsIn (e : Env) : Canon → Prop
  | .node v ks => v.idsIn e ∧ idsInList e ks
where
  idsInList (e : Env) : List Canon → Prop
    | [] => True
    | k :: ks => Canon.idsIn e k ∧ idsInList e ks

/-- Every id in the value is an id of this `Xot`. -/
def Value.idsIn (e : Env) : Value → Bool
  | .element n => decide (n < e.names.length)
  | .pi t _ => decide (t < e.names.length)
  | .attribute n _ => decide (n < e.names.length)
  | .namespace p ns => decide (p < e.prefixes.length) && decide (ns < e.namespaces.length)
  | _ => true

/-- … at every node of the tree. -/
def Tree.idsIn (e : Env) : Tree → Bool
  | .node v ks => v.idsIn e && idsInList e ks
where
  idsInList (e : Env) : List Tree → Bool
    | [] => true
    | k :: ks => Tree.idsIn e k && idsInList e ks

theorem idsInList_iff (e : Env) (ks : List Tree) : Tree.idsIn.idsInList e ks = true ↔ ∀ k ∈ ks, k.idsIn e = true := by
  induction ks with
  | nil => simp [Tree.idsIn.idsInList]
  | cons k ks ih => simp [Tree.idsIn.idsInList, ih]

theorem mem_attrPairs {ks : List Tree} {kv : Nat × Str} (h : kv ∈ attrPairs ks) :
    ∃ k ∈ ks, k.value = .attribute kv.1 kv.2 := by
  induction ks with
  | nil => simp [attrPairs] at h
  | cons k ks ih =>
    simp only [attrPairs] at h
    split at h
    · rename_i n v hv
      rcases List.mem_cons.mp h with e | h'
      · subst e; exact ⟨k, List.mem_cons_self, hv⟩
      · obtain ⟨k', hk', e⟩ := ih h'
        exact ⟨k', List.mem_cons_of_mem _ hk', e⟩
    · obtain ⟨k', hk', e⟩ := ih h
      exact ⟨k', List.mem_cons_of_mem _ hk', e⟩

theorem cvalue_idsIn {e : Env} {v : Value} {ks : List Tree} (hv : v.idsIn e = true)
    (hk : ∀ k ∈ ks, k.idsIn e = true) : (cvalue v ks).idsIn e := by
  cases v <;> simp_all [cvalue, CValue.idsIn, Value.idsIn]
  intro n s hmem
  have hmem' := (sortAttrs_perm (attrPairs ks)).subset hmem
  obtain ⟨k, hk', hval⟩ := mem_attrPairs hmem'
  have := hk k hk'
  obtain ⟨w, js⟩ := k
  simp only [Tree.value] at hval
  subst hval
  simp only [Tree.idsIn, Value.idsIn, Bool.and_eq_true, decide_eq_true_eq] at this
  exact this.1

theorem canonList_idsIn {e : Env} {ks : List Tree} (h : ∀ k ∈ ks, (canon k).idsIn e) :
    Canon.idsIn.idsInList e (canon.canonList ks) := by
  induction ks with
  | nil => simp [canon.canonList, Canon.idsIn.idsInList]
  | cons k ks ih =>
    have ih' := ih (fun x hx => h x (List.mem_cons_of_mem _ hx))
    simp only [canon.canonList]
    split
    · exact ⟨h k List.mem_cons_self, ih'⟩
    · exact ih'

theorem canon_idsIn (e : Env) (t : Tree) : t.idsIn e = true → (canon t).idsIn e := by
  induction t using Tree.induct_mem with
  | h v ks ih =>
    intro hi
    simp only [Tree.idsIn, Bool.and_eq_true, idsInList_iff] at hi
    exact ⟨cvalue_idsIn hi.1 hi.2, canonList_idsIn (fun k hk => ih k hk (hi.2 k hk))⟩

/-! ### Resolving is injective on canonical forms with ids in range -/

theorem resolveAttrs_inj {e : Env} (hd : e.DupFree) : ∀ {a b : List (Nat × Str)},
    (∀ kv ∈ a, kv.1 < e.names.length) → (∀ kv ∈ b, kv.1 < e.names.length) →
    resolveAttrs e a = resolveAttrs e b → a = b
  | [], [], _, _, _ => rfl
  | [], _ :: _, _, _, h => by simp [resolveAttrs] at h
  | _ :: _, [], _, _, h => by simp [resolveAttrs] at h
  | (k, v) :: as, (k', v') :: bs, ha, hb, h => by
    simp only [resolveAttrs, List.map_cons, List.cons.injEq, Prod.mk.injEq] at h
    have hk : k = k' := Env.expanded_inj hd (ha (k, v) List.mem_cons_self) (hb (k', v') List.mem_cons_self) h.1.1
    have hrest := resolveAttrs_inj hd (fun x hx => ha x (List.mem_cons_of_mem _ hx))
      (fun x hx => hb x (List.mem_cons_of_mem _ hx)) h.2
    rw [hk, h.1.2, hrest]

theorem CValue.resolve_inj {e : Env} (hd : e.DupFree) {v w : CValue} (hv : v.idsIn e) (hw : w.idsIn e)
    (h : v.resolve e = w.resolve e) : v = w := by
  cases v <;> cases w <;> simp only [CValue.resolve, reduceCtorEq, SValue.element.injEq, SValue.text.injEq,
    SValue.comment.injEq, SValue.pi.injEq, SValue.attribute.injEq, SValue.namespace.injEq] at h <;>
    simp only [CValue.idsIn] at hv hw
  · rfl
  · rw [Env.expanded_inj hd hv.1 hw.1 h.1, resolveAttrs_inj hd hv.2 hw.2 h.2]
  · rw [h]
  · rw [h]
  · rw [Env.expanded_inj hd hv hw h.1, h.2]
  · rw [Env.expanded_inj hd hv hw h.1, h.2]
  · rw [Env.prefixStr_inj hd hv.1 hw.1 h.1, Env.namespaceStr_inj hd hv.2 hw.2 h.2]

mutual
theorem Canon.resolve_inj {e : Env} (hd : e.DupFree) : ∀ (x y : Canon), x.idsIn e → y.idsIn e →
    x.resolve e = y.resolve e → x = y
  | .node v ks, .node w js, hx, hy, h => by
    simp only [Canon.resolve, SCanon.node.injEq] at h
    rw [CValue.resolve_inj hd hx.1 hy.1 h.1, Canon.resolveList_inj hd ks js hx.2 hy.2 h.2]
theorem Canon.resolveList_inj {e : Env} (hd : e.DupFree) : ∀ (xs ys : List Canon),
    Canon.idsIn.idsInList e xs → Canon.idsIn.idsInList e ys →
    Canon.resolve.resolveList e xs = Canon.resolve.resolveList e ys → xs = ys
  | [], [], _, _, _ => rfl
  | [], _ :: _, _, _, h => by simp [Canon.resolve.resolveList] at h
  | _ :: _, [], _, _, h => by simp [Canon.resolve.resolveList] at h
  | x :: xs, y :: ys, hx, hy, h => by
    simp only [Canon.resolve.resolveList, List.cons.injEq] at h
    rw [Canon.resolve_inj hd x y hx.1 hy.1 h.1, Canon.resolveList_inj hd xs ys hx.2 hy.2 h.2]
end

/-- Equal canonical forms over ids ⇔ equal canonical forms over strings. -/
theorem canon_eq_iff_canonStr_eq {e : Env} (hd : e.DupFree) {a b : Tree} (ia : a.idsIn e = true)
    (ib : b.idsIn e = true) : canon a = canon b ↔ canonStr e a = canonStr e b :=
  ⟨fun h => by simp only [canonStr, h],
   fun h => Canon.resolve_inj hd _ _ (canon_idsIn e a ia) (canon_idsIn e b ib) h⟩

/-- A closed duplicate-free table with the same local name in two namespaces (non-vacuity). -/
def envEx : Env :=
  { namespaces := [[], ['u']], prefixes := [[], ['p']], names := [(['a'], 0), (['a'], 1), (['b'], 0)] }

theorem envEx_dupFree : envEx.DupFree := ⟨by decide, by decide, by decide, by decide⟩

end XotModel
