/-
  C02: the namespace-free spelled theorems as the special case of the namespaced ones.

  A namespace-free spelling (`SNode`, Lemmas/ParseSpellDefs.lean) IS a namespaced spelling (`NSNode`,
  Lemmas/ParseNsDefs.lean) in which every prefix is absent (empty text, the offset the `SNode` carries) and no
  item of a start tag is a declaration (`SAttr.Well` excludes the name `xmlns`): `SNode.toNs`.  It has the same
  tokens, is well formed in the base scope when the `SNode` is (`WellNsDoc`), denotes the same abstract
  document with every name in no namespace and no declarations (`PNode.toNs`), and — the empty URI being
  namespace 0 — that document is encoded to the same id tree over the same tables.
-/
import XotModel.Lemmas.ParseSpellTop
import XotModel.Lemmas.ParseNsTop

namespace XotModel

/-! ### The embedding -/

def SAttr.toNs (a : SAttr) : NSAttr := ⟨⟨[], a.pstart⟩, a.name, a.pieces, a.vstart, a.junk⟩

def SNode.toNs : SNode → NSNode
  | .elem name pstart junk attrs openSp kids cname cpstart closeSp =>
    .elem ⟨[], pstart⟩ name junk (attrs.map SAttr.toNs) openSp (toNsList kids) ⟨[], cpstart⟩ cname closeSp
  | .empty name pstart junk attrs endSp => .empty ⟨[], pstart⟩ name junk (attrs.map SAttr.toNs) endSp
  | .chars parts => .chars parts
  | .comment t j => .comment t j
  | .pi t c j => .pi t c j
where
  toNsList : List SNode → List NSNode
    | [] => []
    | k :: ks => SNode.toNs k :: toNsList ks

/-- A namespace-free abstract node as a namespaced one: no namespace, no declarations. -/
def PNode.toNs : PNode → NPNode
  | .elem name attrs kids => .elem [] name [] (attrs.map fun a => (([], a.1), a.2)) (toNsList kids)
  | .text s => .text s
  | .comment s => .comment s
  | .pi t d => .pi t d
where
  toNsList : List PNode → List NPNode
    | [] => []
    | k :: ks => PNode.toNs k :: toNsList ks

theorem PNode.toNsList_append : ∀ (a b : List PNode),
    PNode.toNs.toNsList (a ++ b) = PNode.toNs.toNsList a ++ PNode.toNs.toNsList b
  | [], _ => rfl
  | x :: xs, b => by simp only [List.cons_append, PNode.toNs.toNsList, PNode.toNsList_append xs b]

/-! ### Same tokens -/

theorem SAttr.toNs_token (a : SAttr) : (SAttr.toNs a).token = a.token := rfl

theorem attrs_toNs_tokens (attrs : List SAttr) :
    (attrs.map SAttr.toNs).map NSAttr.token = attrs.map SAttr.token := by
  rw [List.map_map]; rfl

mutual
theorem SNode.toNs_tokens : ∀ (s : SNode), s.toNs.tokens = s.tokens
  | .elem name pstart junk attrs openSp kids cname cpstart closeSp => by
    simp only [SNode.toNs, NSNode.tokens, SNode.tokens, attrs_toNs_tokens, SNode.toNsList_tokens kids]
  | .empty name pstart junk attrs endSp => by
    simp only [SNode.toNs, NSNode.tokens, SNode.tokens, attrs_toNs_tokens]
  | .chars parts => rfl
  | .comment t j => rfl
  | .pi t c j => rfl
theorem SNode.toNsList_tokens : ∀ (ks : List SNode),
    NSNode.tokens.tokensList (SNode.toNs.toNsList ks) = SNode.tokens.tokensList ks
  | [] => rfl
  | k :: ks => by
    simp only [SNode.toNs.toNsList, NSNode.tokens.tokensList, SNode.tokens.tokensList, SNode.toNs_tokens k,
      SNode.toNsList_tokens ks]
end

/-! ### No declarations, every attribute in no namespace -/

theorem SAttr.toNs_declares {a : SAttr} (h : a.Well) : (SAttr.toNs a).declares = none := by
  have h1 : (([] : Str) == xmlnsStr) = false := by decide
  have h2 : (a.name.text == xmlnsStr) = false := by
    rw [beq_eq_false_iff_ne]; exact h.2.1
  simp [NSAttr.declares, SAttr.toNs, h1, h2]

theorem declsOf_toNs {attrs : List SAttr} (h : ∀ a ∈ attrs, a.Well) : declsOf (attrs.map SAttr.toNs) = [] := by
  simp only [declsOf, List.filterMap_eq_nil_iff, List.mem_map]
  rintro _ ⟨a, ha, rfl⟩
  rw [SAttr.toNs_declares (h a ha)]; rfl

theorem ordinary_toNs {attrs : List SAttr} (h : ∀ a ∈ attrs, a.Well) :
    ordinary (attrs.map SAttr.toNs) = attrs.map SAttr.toNs := by
  simp only [ordinary, List.filter_eq_self, List.mem_map]
  rintro _ ⟨a, ha, rfl⟩
  simp [NSAttr.isDecl, SAttr.toNs_declares (h a ha)]

theorem nil_ne_xmlNs (x : Str) : (((([] : Str), x)) == (xmlNsUri, ['i', 'd'])) = false := by
  rw [beq_eq_false_iff_ne]
  intro h
  have := congrArg Prod.fst h
  simp [xmlNsUri] at this

theorem SAttr.toNs_denote (scope : Scope) (a : SAttr) :
    (SAttr.toNs a).denote scope = (([], a.name.text), valueOf true a.pieces) := by
  have h0 : scope.attrNs (SAttr.toNs a).pfx.text = [] := by simp [Scope.attrNs, SAttr.toNs]
  have hl : (SAttr.toNs a).loc.text = a.name.text := rfl
  have hp : (SAttr.toNs a).pieces = a.pieces := rfl
  simp only [NSAttr.denote, NSAttr.value, h0, hl, hp, nil_ne_xmlNs, Bool.false_eq_true, if_false]

theorem attrsOf_toNs (scope : Scope) {attrs : List SAttr} (h : ∀ a ∈ attrs, a.Well) :
    attrsOf scope (attrs.map SAttr.toNs) = (attrs.map SAttr.denote).map fun a => (([], a.1), a.2) := by
  rw [attrsOf, ordinary_toNs h, List.map_map, List.map_map]
  apply List.map_congr_left
  intro a _
  simp only [Function.comp, SAttr.toNs_denote, SAttr.denote]

theorem push_nil (scope : Scope) : scope.push [] = scope := by simp [Scope.push]

/-! ### Well formed in the base scope -/

theorem attrsWellNs_toNs (scope : Scope) {attrs : List SAttr} (h : attrsWell attrs) :
    attrsWellNs scope (attrs.map SAttr.toNs) := by
  obtain ⟨hw, hnd⟩ := h
  refine ⟨?_, ?_, ?_, ?_, ?_, ?_⟩
  · intro a ha
    obtain ⟨a0, ha0, rfl⟩ := List.mem_map.mp ha
    exact (hw a0 ha0).1
  · rw [declsOf_toNs hw]; intro d hd; cases hd
  · rw [declsOf_toNs hw]; exact List.nodup_nil
  · rw [attrsOf_toNs scope hw, List.map_map, List.map_map]
    have : (attrs.map ((Prod.fst ∘ fun a : Str × Str => ((([] : Str), a.1), a.2)) ∘ SAttr.denote)) =
        (attrs.map fun a => a.name.text).map fun n => (([] : Str), n) := by
      rw [List.map_map]; rfl
    rw [this]
    exact List.Pairwise.map _ (fun a b hab e => hab (congrArg Prod.snd e)) hnd
  · intro a ha hne
    rw [ordinary_toNs hw] at ha
    obtain ⟨a0, _, rfl⟩ := List.mem_map.mp ha
    exact absurd rfl hne
  · intro a ha
    obtain ⟨a0, ha0, rfl⟩ := List.mem_map.mp ha
    simp [StrSpan.bareColon, SAttr.toNs, (hw a0 ha0).2.2]

theorem SNode.toNs_isChars (s : SNode) : s.toNs.isChars = s.isChars := by cases s <;> rfl

theorem noAdjCharsNs_toNs : ∀ (ks : List SNode), noAdjCharsNs (SNode.toNs.toNsList ks) = noAdjChars ks
  | [] => rfl
  | [_] => rfl
  | a :: b :: rest => by
    simp only [SNode.toNs.toNsList, noAdjCharsNs, noAdjChars, SNode.toNs_isChars]
    have := noAdjCharsNs_toNs (b :: rest)
    simp only [SNode.toNs.toNsList] at this
    rw [this]

mutual
theorem SNode.toNs_well : ∀ (s : SNode), s.Well → NSNode.Well baseScope s.toNs
  | .elem name pstart junk attrs openSp kids cname cpstart closeSp, h => by
    obtain ⟨ha, hc, hadj, hk, hp, hcp⟩ := h
    simp only [SNode.toNs, NSNode.Well, declsOf_toNs ha.1, push_nil]
    refine ⟨attrsWellNs_toNs _ ha, by decide, trivial, hc, ?_, SNode.toNsList_well kids hk, ?_, ?_⟩
    · rw [noAdjCharsNs_toNs]; exact hadj
    · simp [StrSpan.bareColon, hp]
    · simp [StrSpan.bareColon, hcp]
  | .empty name pstart junk attrs endSp, h => by
    obtain ⟨ha, hp⟩ := h
    simp only [SNode.toNs, NSNode.Well, declsOf_toNs ha.1, push_nil]
    exact ⟨attrsWellNs_toNs _ ha, by decide, by simp [StrSpan.bareColon, hp]⟩
  | .chars parts, h => h
  | .comment t j, _ => trivial
  | .pi t c j, h => h
theorem SNode.toNsList_well : ∀ (ks : List SNode), SNode.Well.wellList ks →
    NSNode.Well.wellList baseScope (SNode.toNs.toNsList ks)
  | [], _ => trivial
  | k :: ks, h => ⟨SNode.toNs_well k h.1, SNode.toNsList_well ks h.2⟩
end

/-! ### Same denotation -/

mutual
theorem SNode.toNs_denote : ∀ (s : SNode), s.Well →
    NSNode.denote baseScope s.toNs = PNode.toNs.toNsList s.denote
  | .elem name pstart junk attrs openSp kids cname cpstart closeSp, h => by
    obtain ⟨ha, _, _, hk, _, _⟩ := h
    simp only [SNode.toNs, NSNode.denote, declsOf_toNs ha.1, push_nil, attrsOf_toNs _ ha.1,
      SNode.toNsList_denote kids hk, SNode.denote, PNode.toNs.toNsList, PNode.toNs]
    rfl
  | .empty name pstart junk attrs endSp, h => by
    obtain ⟨ha, _⟩ := h
    simp only [SNode.toNs, NSNode.denote, declsOf_toNs ha.1, push_nil, attrsOf_toNs _ ha.1,
      SNode.denote, PNode.toNs.toNsList, PNode.toNs]
    rfl
  | .chars parts, _ => by
    simp only [SNode.toNs, NSNode.denote, SNode.denote]
    split <;> rfl
  | .comment t j, _ => rfl
  | .pi t c j, _ => rfl
theorem SNode.toNsList_denote : ∀ (ks : List SNode), SNode.Well.wellList ks →
    NSNode.denote.denoteList baseScope (SNode.toNs.toNsList ks) = PNode.toNs.toNsList (SNode.denote.denoteList ks)
  | [], _ => rfl
  | k :: ks, h => by
    simp only [SNode.toNs.toNsList, NSNode.denote.denoteList, SNode.denote.denoteList, PNode.toNsList_append,
      SNode.toNs_denote k h.1, SNode.toNsList_denote ks h.2]
end

/-! ### No ID values -/

theorem attrIds_free (attrs : List (Str × Str)) : attrIds (attrs.map fun a => (([], a.1), a.2)) = [] := by
  simp only [attrIds, List.map_eq_nil_iff, List.filter_eq_nil_iff, List.mem_map]
  rintro _ ⟨a, _, rfl⟩
  simp [nil_ne_xmlNs]

mutual
theorem PNode.toNs_ids : ∀ (d : PNode), (PNode.toNs d).ids = []
  | .elem name attrs kids => by
    simp only [PNode.toNs, NPNode.ids, attrIds_free, PNode.toNsList_ids kids, List.append_nil]
  | .text _ => rfl
  | .comment _ => rfl
  | .pi _ _ => rfl
theorem PNode.toNsList_ids : ∀ (ds : List PNode), NPNode.ids.idsList (PNode.toNs.toNsList ds) = []
  | [] => rfl
  | d :: ds => by
    simp only [PNode.toNs.toNsList, NPNode.ids.idsList, PNode.toNs_ids d, PNode.toNsList_ids ds, List.append_nil]
end

/-- A well-formed namespace-free spelling is a `WellNsDoc`. -/
theorem wellNsDoc_toNs {sns : List SNode} (hw : SNode.Well.wellList sns) (hadj : noAdjChars sns = true) :
    WellNsDoc (SNode.toNs.toNsList sns) := by
  refine ⟨SNode.toNsList_well sns hw, by rw [noAdjCharsNs_toNs]; exact hadj, ?_⟩
  rw [SNode.toNsList_denote sns hw, PNode.toNsList_ids]
  exact List.nodup_nil

/-! ### Same id tree, same tables -/

theorem internNamespace_nil {env : Env} (h : ∃ rest, env.namespaces = [] :: rest) :
    env.internNamespace [] = (env, Env.noNamespace) := by
  obtain ⟨rest, hr⟩ := h
  cases env with
  | mk namespaces prefixes names =>
    simp only at hr
    subst hr
    simp [Env.internNamespace, internIn, Env.noNamespace]

theorem internName_namespaces (env : Env) (a : Str) (n : Nat) : (env.internName a n).1.namespaces = env.namespaces := rfl

theorem encodeNsAttrs_free : ∀ (attrs : List (Str × Str)) (env : Env), (∃ rest, env.namespaces = [] :: rest) →
    encodeNsAttrs env (attrs.map fun a => (([], a.1), a.2)) = encodeAttrs env attrs ∧
      (encodeAttrs env attrs).1.namespaces = env.namespaces
  | [], _, _ => ⟨rfl, rfl⟩
  | (a, v) :: rest, env, h => by
    have h' : ∃ r, (env.internName a Env.noNamespace).1.namespaces = [] :: r := h
    obtain ⟨e1, e2⟩ := encodeNsAttrs_free rest _ h'
    simp only [List.map_cons, encodeNsAttrs, encodeAttrs, internNamespace_nil h]
    exact ⟨by rw [e1], by rw [e2]; rfl⟩

mutual
theorem PNode.toNs_encode : ∀ (d : PNode) (env : Env), (∃ rest, env.namespaces = [] :: rest) →
    NPNode.encode env (PNode.toNs d) = PNode.encode env d ∧ (PNode.encode env d).1.namespaces = env.namespaces
  | .elem name attrs kids, env, h => by
    have h1 : ∃ r, (env.internName name Env.noNamespace).1.namespaces = [] :: r := h
    obtain ⟨a1, a2⟩ := encodeNsAttrs_free attrs _ h1
    have h2 : ∃ r, (encodeAttrs (env.internName name Env.noNamespace).1 attrs).1.namespaces = [] :: r := by
      rw [a2]; exact h1
    obtain ⟨k1, k2⟩ := PNode.toNsList_encode kids _ h2
    simp only [PNode.toNs, NPNode.encode, PNode.encode, encodeDecls, declIds, internNamespace_nil h, a1, k1,
      List.map_nil, List.nil_append]
    exact ⟨trivial, by rw [k2, a2]; rfl⟩
  | .text _, _, _ => ⟨rfl, rfl⟩
  | .comment _, _, _ => ⟨rfl, rfl⟩
  | .pi _ _, _, _ => ⟨rfl, rfl⟩
theorem PNode.toNsList_encode : ∀ (ds : List PNode) (env : Env), (∃ rest, env.namespaces = [] :: rest) →
    NPNode.encode.encodeList env (PNode.toNs.toNsList ds) = PNode.encode.encodeList env ds ∧
      (PNode.encode.encodeList env ds).1.namespaces = env.namespaces
  | [], _, _ => ⟨rfl, rfl⟩
  | d :: ds, env, h => by
    obtain ⟨d1, d2⟩ := PNode.toNs_encode d env h
    have h' : ∃ r, (PNode.encode env d).1.namespaces = [] :: r := by rw [d2]; exact h
    obtain ⟨l1, l2⟩ := PNode.toNsList_encode ds _ h'
    simp only [PNode.toNs.toNsList, NPNode.encode.encodeList, PNode.encode.encodeList, d1, l1]
    exact ⟨trivial, by rw [l2, d2]⟩
end

theorem EnvBaseNs.ns0 {env : Env} (h : EnvBaseNs env) : ∃ rest, env.namespaces = [] :: rest := by
  obtain ⟨rest, hr⟩ := h.ns
  exact ⟨_, hr⟩

/-- The hypothesis of the namespaced theorems implies that of the namespace-free ones. -/
theorem EnvBaseNs.envBase {env : Env} (h : EnvBaseNs env) : EnvBase env := by
  obtain ⟨rest, hp⟩ := h.pfx
  obtain ⟨n0, rest', hn, _⟩ := h.names
  exact ⟨by rw [hp]; rfl, ⟨['i', 'd'], 1, by rw [hn]; rfl, by decide⟩⟩

/-- … and not conversely: tables with the empty prefix only (no `xml`, no namespaces) meet `EnvBase`. -/
def envBaseOnly : Env := { namespaces := [], prefixes := [[]], names := [([], 0), ([], 1)] }

theorem envBaseOnly_spec : EnvBase envBaseOnly ∧ ¬ EnvBaseNs envBaseOnly := by
  refine ⟨⟨rfl, ⟨[], 1, rfl, by decide⟩⟩, fun h => ?_⟩
  obtain ⟨rest, hr⟩ := h.ns
  simp [envBaseOnly] at hr

end XotModel
