/-
  XotModel.Lemmas.LexSpellDefs — what the spans of one token SPELL in the source, beyond "each span
  is a slice" (Lemmas/LexSlice.lean):

    * `NameSlice src p l`  : prefix and local name of a start tag / attribute / end tag, taken together
                             (`Span::from_prefix_name`), slice to the qualified name as written
                             (`tokQName`: `prefix:local`, or `local`);
    * `Token.Spelled src`  : the per-token facts (names; the whole-token span of `>` / `/>` / `</q >`;
                             a CDATA token's whole span is `<![CDATA[` + content + `]]>` with the
                             content starting 9 bytes in; a text token is not empty and has no `<`);
    * the stream algebra they are proved with: `(sliceBack a b).text ++ b.rest = a.rest` whenever
      `b` lies further along the same text.
-/
import XotModel.Lemmas.LexSliceOrder
import XotModel.Model.TokenRender
import XotModel.Lemmas.SharedDefs

namespace XotModel

/-- The qualified name of a tag or attribute as ONE span: from the start of the prefix (of the
    local name when the prefix is empty) with the text `prefix:local` (`local`). -/
def qnameSpan (p l : StrSpan) : StrSpan := ⟨tokQName p.text l.text, (Span.fromPrefixName p l).start⟩

/-- The name span xot records (`Span::from_prefix_name(prefix, local)`) is the slice of the source
    that reads `prefix:local` resp. `local`. -/
structure NameSlice (src : Str) (p l : StrSpan) : Prop where
  slice : (qnameSpan p l).SliceOf src
  span : (qnameSpan p l).span = Span.fromPrefixName p l

/-- The `span` field of a token (the token itself for text). -/
def Token.wholeSpan : Token → StrSpan
  | .declaration _ _ _ sp => sp
  | .pi _ _ sp => sp
  | .comment _ sp => sp
  | .dtdStart sp => sp
  | .emptyDtd sp => sp
  | .entityDecl sp => sp
  | .dtdEnd sp => sp
  | .elementStart _ _ sp => sp
  | .attribute _ _ _ sp => sp
  | .elementEnd _ sp => sp
  | .text t => t
  | .cdata _ sp => sp

-- `Token.isCharData` (text and CDATA tokens) is in `Lemmas/SharedDefs.lean`.

def Token.isTextTok : Token → Bool
  | .text _ => true
  | _ => false

def Token.isDecl : Token → Bool
  | .declaration _ _ _ _ => true
  | _ => false

/-- `]]>` does not begin at any position inside the CDATA content `t` (followed by its `]]>`). -/
def NoCloseInside (t : Str) : Prop :=
  ∀ j, j < t.length → Lex.litCdataClose.isPrefixOf ((t ++ Lex.litCdataClose).drop j) = false

/-- What the spans of a token spell. -/
def Token.Spelled (src : Str) : Token → Prop
  | .elementStart p l _ => NameSlice src p l
  | .attribute p l v sp => NameSlice src p l ∧
      ∃ q pre, (q = '"' ∨ q = '\'') ∧ sp.text = pre ++ q :: (v.text ++ [q]) ∧ v.start = sp.start + strLen pre + 1
  | .elementEnd (.close p l) sp => NameSlice src p l ∧ ∃ mid, sp.text = '<' :: '/' :: (mid ++ ['>'])
  | .elementEnd .open sp => sp.text = ['>']
  | .elementEnd .empty sp => sp.text = ['/', '>']
  | .cdata t sp => sp.text = Lex.litCdataOpen ++ t.text ++ Lex.litCdataClose ∧ t.start = sp.start + 9 ∧
      NoCloseInside t.text
  | .text t => t.text ≠ [] ∧ '<' ∉ t.text
  | _ => True

/-- Consecutive tokens `a b`: a character-data token `b` is never preceded by the XML declaration,
    starts where a preceding character-data token's whole span ends, and two text tokens never
    follow each other. -/
def CharAdj (a b : Token) : Prop :=
  b.isCharData = true → a.isDecl = false ∧ (a.isCharData = true → a.wholeSpan.stop = b.wholeSpan.start) ∧
    (a.isTextTok = true → b.isTextTok = false)

/-- `R` holds between every two consecutive tokens. -/
def AdjChain (R : Token → Token → Prop) : List Token → Prop
  | [] => True
  | [_] => True
  | a :: b :: rest => R a b ∧ AdjChain R (b :: rest)

namespace Lex.Slice

open XotModel.Lex.Stream

/-! ### Stream algebra -/

theorem sliceBack_text_adv (a : Lex.Stream) (k : Nat) : (sliceBack a (a.adv k)).text = a.rest.take k := by
  simp only [Stream.sliceBack, Stream.adv, List.length_drop]
  rcases Nat.le_total k a.rest.length with hk | hk
  · have : a.rest.length - (a.rest.length - k) = k := by omega
    rw [this]
  · have : a.rest.length - (a.rest.length - k) = a.rest.length := by omega
    rw [this, List.take_of_length_le (Nat.le_refl _), List.take_of_length_le hk]

/-- KEY: the text between two states, followed by what lies ahead of the later one, is what lay
    ahead of the earlier one. -/
theorem Reach.text_append {a b : Lex.Stream} (h : Reach a b) : (sliceBack a b).text ++ b.rest = a.rest := by
  obtain ⟨k, rfl⟩ := h
  rw [sliceBack_text_adv]
  exact List.take_append_drop k a.rest

theorem Reach.text_split {a m b : Lex.Stream} (h1 : Reach a m) (h2 : Reach m b) :
    (sliceBack a b).text = (sliceBack a m).text ++ (sliceBack m b).text := by
  have e1 := Reach.text_append (h1.trans h2)
  have e2 := Reach.text_append h1
  have e3 := Reach.text_append h2
  rw [← e3, ← List.append_assoc] at e2
  rw [← e2] at e1
  exact List.append_cancel_right e1

theorem Reach.pos_eq {a b : Lex.Stream} (h : Reach a b) : b.pos = a.pos + strLen (sliceBack a b).text := by
  obtain ⟨k, rfl⟩ := h
  rw [sliceBack_text_adv]
  rfl

theorem startsWith_take {s : Lex.Stream} {lit : Str} (h : s.startsWith lit = true) :
    s.rest.take lit.length = lit := by
  simp only [Stream.startsWith] at h
  obtain ⟨r, hr⟩ := List.isPrefixOf_iff_prefix.mp h
  rw [← hr]
  simp

theorem curr_rest {s : Lex.Stream} {c : Char} (h : s.curr? = some c) : ∃ r, s.rest = c :: r := by
  simp only [Stream.curr?] at h
  cases hr : s.rest with
  | nil => rw [hr] at h; cases h
  | cons d r => rw [hr] at h; simp only [List.head?_cons, Option.some.injEq] at h; exact ⟨r, by rw [h]⟩

theorem consumeByte_text {c : Char} {s s' : Lex.Stream} (h : s.consumeByte c = some s') :
    (sliceBack s s').text = [c] := by
  have e := consumeByte_eq h
  subst e
  unfold Stream.consumeByte at h
  split at h
  · next hc =>
    obtain ⟨r, hr⟩ := curr_rest (c := c) (by simpa using hc)
    rw [sliceBack_text_adv, hr]; rfl
  · cases h

theorem skipString_text {lit : Str} {s s' : Lex.Stream} (h : s.skipString lit = some s') :
    (sliceBack s s').text = lit := by
  have e := skipString_eq h
  subst e
  unfold Stream.skipString at h
  split at h
  · next hc => rw [sliceBack_text_adv]; exact startsWith_take hc
  · cases h

theorem consumeQuote_text {q : Char} {s s' : Lex.Stream} (h : s.consumeQuote = some (q, s')) :
    (sliceBack s s').text = [q] ∧ (q = '"' ∨ q = '\'') := by
  have e := consumeQuote_eq h
  subst e
  unfold Stream.consumeQuote at h
  split at h
  · cases h
  · next c hc =>
    split at h
    · next hq =>
      simp only [Option.some.injEq, Prod.mk.injEq] at h
      obtain ⟨rfl, _⟩ := h
      obtain ⟨r, hr⟩ := curr_rest hc
      refine ⟨by rw [sliceBack_text_adv, hr]; rfl, ?_⟩
      simp only [Bool.or_eq_true, beq_iff_eq] at hq
      rcases hq with hq | hq
      · exact .inr hq
      · exact .inl hq
    · cases h

/-! ### `consume_qname`: the two spans together spell the qualified name -/

theorem sliceBack_self_adv (s : Lex.Stream) (k : Nat) : sliceBack s (s.adv k) = ⟨s.rest.take k, s.pos⟩ := by
  have := sliceBack_text_adv s k
  cases h : sliceBack s (s.adv k) with
  | mk t st =>
    rw [h] at this
    simp only at this
    subst this
    have : (sliceBack s (s.adv k)).start = s.pos := rfl
    rw [h] at this
    simp only at this
    rw [this]

theorem consumeQName_name {src : Str} {s s' : Lex.Stream} {p l : StrSpan} (hw : SWf src s)
    (h : s.consumeQName = some (p, l, s')) : NameSlice src p l := by
  unfold consumeQName at h
  split at h
  · simp at h
  · next k sp hk =>
    cases sp with
    | none =>
      dsimp only at h
      split at h
      · simp at h
      · split at h
        · simp at h
        · simp only [Option.some.injEq, Prod.mk.injEq] at h
          obtain ⟨rfl, rfl, _⟩ := h
          have e : qnameSpan emptySpan (sliceBack s (s.adv k)) = sliceBack s (s.adv k) := by
            simp [qnameSpan, tokQName, emptySpan, Span.fromPrefixName]
          refine ⟨by rw [e]; exact hw.sliceBack _, ?_⟩
          rw [e]
          simp [StrSpan.span, Span.fromPrefixName, emptySpan]
    | some i =>
      dsimp only at h
      split at h
      · simp at h
      · split at h
        · simp at h
        · simp only [Option.some.injEq, Prod.mk.injEq] at h
          obtain ⟨rfl, rfl, _⟩ := h
          obtain ⟨hik, hkl, hcol⟩ := qnameLoop_colon hk
          have hab := abut_of_colon (s := s) (s.adv k) hcol
          by_cases hp : (sliceBack s (s.adv i)).text = []
          · -- a name written `:local`: the empty prefix is dropped from the recorded span
            have hpe : (sliceBack s (s.adv i)).text.isEmpty = true := by rw [hp]; rfl
            have e : qnameSpan (sliceBack s (s.adv i)) (sliceBack (s.adv (i + 1)) (s.adv k)) =
                sliceBack (s.adv (i + 1)) (s.adv k) := by
              simp [qnameSpan, tokQName, Span.fromPrefixName, hpe]
            refine ⟨by rw [e]; exact (hw.adv _).sliceBack _, ?_⟩
            rw [e]
            simp [StrSpan.span, Span.fromPrefixName, hpe]
          · have hpe : (sliceBack s (s.adv i)).text.isEmpty = false := by
              cases hx : (sliceBack s (s.adv i)).text with
              | nil => exact absurd hx hp
              | cons c cs => rfl
            -- the whole name is the text between `s` and `s.adv k`
            have r1 : Reach s (s.adv i) := Reach.adv s i
            have r2 : Reach (s.adv i) (s.adv (i + 1)) := ⟨1, by rw [adv_adv]⟩
            have r3 : Reach (s.adv (i + 1)) (s.adv k) := ⟨k - (i + 1), by rw [adv_adv]; congr 1; omega⟩
            have hcolon : (sliceBack (s.adv i) (s.adv (i + 1))).text = [':'] := by
              have : s.adv (i + 1) = (s.adv i).adv 1 := by rw [adv_adv]
              rw [this, sliceBack_text_adv]
              simp only [adv_rest]
              have hlt : i < s.rest.length := by omega
              rw [List.drop_eq_getElem_cons hlt]
              have : s.rest[i] = ':' := by
                have := List.getElem?_eq_getElem hlt
                rw [this] at hcol
                exact Option.some.inj hcol
              rw [this]; rfl
            have htext : (sliceBack s (s.adv k)).text =
                (sliceBack s (s.adv i)).text ++ ':' :: (sliceBack (s.adv (i + 1)) (s.adv k)).text := by
              rw [Reach.text_split r1 (r2.trans r3), Reach.text_split r2 r3, hcolon]
              rfl
            have e : qnameSpan (sliceBack s (s.adv i)) (sliceBack (s.adv (i + 1)) (s.adv k)) =
                sliceBack s (s.adv k) := by
              have h1 : (sliceBack s (s.adv k)).start = s.pos := rfl
              cases hq : sliceBack s (s.adv k) with
              | mk t st =>
                rw [hq] at htext h1
                simp only at htext h1
                simp only [qnameSpan, tokQName, hpe, Bool.false_eq_true, if_false, Span.fromPrefixName,
                  StrSpan.mk.injEq]
                exact ⟨htext.symm, by rw [h1]; rfl⟩
            refine ⟨by rw [e]; exact hw.sliceBack _, ?_⟩
            rw [e]
            simp only [StrSpan.span, Span.fromPrefixName, hpe, Bool.false_eq_true, if_false, Span.mk.injEq]
            refine ⟨rfl, ?_⟩
            rw [Reach.sliceBack_stop (Reach.adv s k), Reach.sliceBack_stop r3]

end Lex.Slice

end XotModel
