/-
  XotModel.Lemmas.LexSliceDefs — `sliceBytes`: the `List Char` analogue of Rust's
  `s.get(start..stop)` (byte offsets; `none` unless both offsets are char boundaries of `s` with
  `start ≤ stop ≤ s.len()`), and the fact that a span which is a slice of the source
  (`StrSpan.SliceOf`, Lemmas/ParseSpanEnds.lean) is recovered by it.
-/
import XotModel.Lemmas.ParseSpanEnds

namespace XotModel

/-- Drop the characters whose UTF-8 lengths sum to exactly `n` bytes (`s.get(n..)`):
    `none` when `n` is not a char boundary of the text. -/
def dropBytes : Nat → Str → Option Str
  | n, [] => if n = 0 then some [] else none
  | n, c :: cs =>
    if n = 0 then some (c :: cs)
    else if utf8Len c ≤ n then dropBytes (n - utf8Len c) cs
    else none

/-- Take the characters whose UTF-8 lengths sum to exactly `n` bytes (`s.get(..n)`):
    `none` when `n` is not a char boundary of the text. -/
def takeBytes : Nat → Str → Option Str
  | n, [] => if n = 0 then some [] else none
  | n, c :: cs =>
    if n = 0 then some []
    else if utf8Len c ≤ n then (takeBytes (n - utf8Len c) cs).map (c :: ·)
    else none

/-- `s.get(start..stop)` on byte offsets. -/
def sliceBytes (s : Str) (start stop : Nat) : Option Str :=
  if start ≤ stop then (dropBytes start s).bind (takeBytes (stop - start)) else none

theorem dropBytes_zero (s : Str) : dropBytes 0 s = some s := by
  cases s <;> simp [dropBytes]

theorem takeBytes_zero (s : Str) : takeBytes 0 s = some [] := by
  cases s <;> simp [takeBytes]

theorem dropBytes_strLen_append (a b : Str) : dropBytes (strLen a) (a ++ b) = some b := by
  induction a with
  | nil => simp [strLen, dropBytes_zero]
  | cons c cs ih =>
    have hc := utf8Len_pos c
    have h0 : ¬ (utf8Len c + strLen cs = 0) := by omega
    have h1 : utf8Len c ≤ utf8Len c + strLen cs := by omega
    have h2 : utf8Len c + strLen cs - utf8Len c = strLen cs := by omega
    simp only [strLen, List.cons_append, dropBytes, h0, h1, h2, if_true, if_false]
    exact ih

theorem takeBytes_strLen_append (a b : Str) : takeBytes (strLen a) (a ++ b) = some a := by
  induction a with
  | nil => simp [strLen, takeBytes_zero]
  | cons c cs ih =>
    have hc := utf8Len_pos c
    have h0 : ¬ (utf8Len c + strLen cs = 0) := by omega
    have h1 : utf8Len c ≤ utf8Len c + strLen cs := by omega
    have h2 : utf8Len c + strLen cs - utf8Len c = strLen cs := by omega
    simp only [strLen, List.cons_append, takeBytes, h0, h1, h2, if_true, if_false, ih,
      Option.map_some]

/-- A span that is a slice of `src` is what `src.get(start..stop)` returns. -/
theorem sliceBytes_of_sliceOf {src : Str} {sp : StrSpan} (h : sp.SliceOf src) :
    sliceBytes src sp.start sp.stop = some sp.text := by
  obtain ⟨a, b, hsrc, hst⟩ := h
  have hle : sp.start ≤ sp.stop := by simp only [StrSpan.stop]; omega
  have hd : sp.stop - sp.start = strLen sp.text := by simp only [StrSpan.stop]; omega
  simp only [sliceBytes, hle, if_true, hd]
  rw [hst, hsrc, List.append_assoc, dropBytes_strLen_append]
  simp only [Option.bind_some]
  exact takeBytes_strLen_append _ _

/-- `Token.All` is monotone in the predicate. -/
theorem Token.All.imp {p q : StrSpan → Prop} (hpq : ∀ s, p s → q s) :
    ∀ t : Token, t.All p → t.All q
  | .declaration _ _ _ _, h => ⟨hpq _ h.1, fun x hx => hpq _ (h.2.1 x hx), hpq _ h.2.2⟩
  | .pi _ _ _, h => ⟨hpq _ h.1, fun x hx => hpq _ (h.2.1 x hx), hpq _ h.2.2⟩
  | .comment _ _, h => ⟨hpq _ h.1, hpq _ h.2⟩
  | .dtdStart _, h => hpq _ h
  | .emptyDtd _, h => hpq _ h
  | .entityDecl _, h => hpq _ h
  | .dtdEnd _, h => hpq _ h
  | .elementStart _ _ _, h => ⟨hpq _ h.1, hpq _ h.2.1, hpq _ h.2.2⟩
  | .attribute _ _ _ _, h => ⟨hpq _ h.1, hpq _ h.2.1, hpq _ h.2.2.1, hpq _ h.2.2.2⟩
  | .elementEnd (.close _ _) _, h => ⟨hpq _ h.1, hpq _ h.2.1, hpq _ h.2.2⟩
  | .elementEnd .open _, h => hpq _ h
  | .elementEnd .empty _, h => hpq _ h
  | .text _, h => hpq _ h
  | .cdata _ _, h => ⟨hpq _ h.1, hpq _ h.2⟩

/-- A slice of `src` ends inside `src`. -/
theorem StrSpan.SliceOf.inside {src : Str} {sp : StrSpan} (h : sp.SliceOf src) :
    sp.Inside (strLen src) := by
  obtain ⟨a, b, hsrc, hst⟩ := h
  simp only [StrSpan.Inside, StrSpan.stop]
  rw [hsrc, strLen_append, strLen_append, hst]
  omega

/-- `Token.Inside` is `Token.All` of `StrSpan.Inside`. -/
theorem Token.inside_of_all {len : Nat} : ∀ t : Token, t.All (StrSpan.Inside len) → t.Inside len
  | .declaration _ _ _ _, h => h
  | .pi _ _ _, h => h
  | .comment _ _, h => h
  | .dtdStart _, h => h
  | .emptyDtd _, h => h
  | .entityDecl _, h => h
  | .dtdEnd _, h => h
  | .elementStart _ _ _, h => h
  | .attribute _ _ _ _, h => h
  | .elementEnd (.close _ _) _, h => h
  | .elementEnd .open _, h => h
  | .elementEnd .empty _, h => h
  | .text _, h => h
  | .cdata _ _, h => h

end XotModel
