/-
  XotModel.Lemmas.ArenaRms — `NodeId::remove_subtree` of a live node on a well-formed arena:
  `detach`, then every node of the subtree is freed in document order; no panic, the loop ends,
  the arena reached stores the list-level content without the subtree.
-/
import XotModel.Lemmas.ArenaRmsNode

namespace XotModel
namespace Arena

/-- List-level removal of a set of whole trees: the slots `l` (in the order they were freed). -/
def Shape.prune (g : Shape) (l : List Nat) : Shape :=
  ⟨fun u => if u ∈ l then none else g.par u, fun u => if u ∈ l then [] else g.kids u, g.free ++ l⟩

theorem Rep.prune {a b : Arena} {g : Shape} (r : Rep a g) (l : List Nat) (m : FreeMany a g.free l b)
    (hl : ∀ u ∈ l, Live a u) (hdown : ∀ c q, g.par c = some q → q ∈ l → c ∈ l)
    (hup : ∀ c q, g.par c = some q → c ∈ l → q ∈ l) : Rep b (g.prune l) := by
  have aslot : ∀ k s', b.slot k = some s' → ∃ s, a.slot k = some s ∧ s'.ptrs = s.ptrs := by
    intro k s' hs'
    have := m.ptrs k
    rw [hs'] at this
    cases h : a.slot k with
    | none => rw [h] at this; simp at this
    | some s => rw [h] at this; simp at this; exact ⟨s, rfl, this⟩
  have hlive : ∀ k, Live b k ↔ (Live a k ∧ k ∉ l) := by
    intro k
    constructor
    · rintro ⟨s', hs', h0'⟩
      obtain ⟨s, hs, _⟩ := aslot k s' hs'
      by_cases hk : k ∈ l
      · exfalso
        obtain ⟨s0, hs0, h00⟩ := hl k hk
        rw [hs] at hs0; cases hs0
        obtain ⟨s2, nf, hs2, e1, _⟩ := m.self k hk s hs
        rw [hs'] at hs2; cases hs2
        split at e1 <;> omega
      · obtain ⟨s2, hs2, _, hst⟩ := m.slot_other hk hs
        rw [hs'] at hs2; cases hs2
        exact ⟨⟨s, hs, by omega⟩, hk⟩
    · rintro ⟨⟨s, hs, h0⟩, hk⟩
      obtain ⟨s2, hs2, _, hst⟩ := m.slot_other hk hs
      exact ⟨s2, hs2, by omega⟩
  have hid : ∀ k, k ∉ l → Live a k → b.idAt k = a.idAt k := by
    intro k hk ⟨s, hs, _⟩
    obtain ⟨s2, hs2, _, hst⟩ := m.slot_other hk hs
    rw [idAt_of_slot hs, idAt_of_slot hs2, hst]
  have mapc : ∀ (o : Option Nat), (∀ k, o = some k → Live a k ∧ k ∉ l) → o.map b.idAt = o.map a.idAt := by
    intro o ho
    cases o with
    | none => rfl
    | some k => simp [hid k (ho k rfl).2 (ho k rfl).1]
  have live_kids : ∀ p c, c ∈ g.kids p → Live a c := fun p c hc => (r.kidsLive p c hc).2.1
  refine ⟨?_, ?_, m.free, ?_, ?_, ?_, ?_, ?_⟩
  · intro k s' hs'
    obtain ⟨s, hs, _⟩ := aslot k s' hs'
    by_cases hk : k ∈ l
    · obtain ⟨s0, hs0, h00⟩ := hl k hk
      rw [hs] at hs0; cases hs0
      have := r.stampRange k s hs
      obtain ⟨s2, nf, hs2, e1, _⟩ := m.self k hk s hs
      rw [hs'] at hs2; cases hs2
      split at e1 <;> omega
    · obtain ⟨s2, hs2, _, hst⟩ := m.slot_other hk hs
      rw [hs'] at hs2; cases hs2
      rw [hst]; exact r.stampRange k s hs
  · intro k s' hs'
    obtain ⟨s, hs, _⟩ := aslot k s' hs'
    by_cases hk : k ∈ l
    · obtain ⟨s0, hs0, h00⟩ := hl k hk
      rw [hs] at hs0; cases hs0
      have := r.stampRange k s hs
      obtain ⟨s2, nf, hs2, e1, e2⟩ := m.self k hk s hs
      rw [hs'] at hs2; cases hs2
      constructor
      · intro h; exfalso; split at e1 <;> omega
      · rintro ⟨v, hv⟩; rw [e2] at hv; cases hv
    · obtain ⟨s2, hs2, _, hst⟩ := m.slot_other hk hs
      rw [hs'] at hs2; cases hs2
      obtain ⟨s3, hs3, e3⟩ := m.dataOther k s hk hs
      rw [hs'] at hs3; cases hs3
      rw [hst, e3]; exact r.dataLive k s hs
  · intro p c hc
    simp only [Shape.prune] at hc ⊢
    by_cases hp : p ∈ l
    · rw [if_pos hp] at hc; cases hc
    · rw [if_neg hp] at hc
      obtain ⟨l1, l2, l3⟩ := r.kidsLive p c hc
      have hcl : c ∉ l := fun h => hp (hup c p l3 h)
      exact ⟨(hlive p).mpr ⟨l1, hp⟩, (hlive c).mpr ⟨l2, hcl⟩, by rw [if_neg hcl]; exact l3⟩
  · intro c p hcp
    simp only [Shape.prune] at hcp ⊢
    by_cases hcl : c ∈ l
    · rw [if_pos hcl] at hcp; cases hcp
    · rw [if_neg hcl] at hcp
      obtain ⟨l1, l2⟩ := r.parKids c p hcp
      have hp : p ∉ l := fun h => hcl (hdown c p hcp h)
      exact ⟨(hlive c).mpr ⟨l1, hcl⟩, by rw [if_neg hp]; exact l2⟩
  · intro p
    simp only [Shape.prune]
    split
    · exact List.nodup_nil
    · exact r.kidsNodup p
  · intro c q hcq hreach
    have hmono : ∀ c q, (g.prune l).par c = some q → g.par c = some q := by
      intro c q h
      simp only [Shape.prune] at h
      split at h
      · cases h
      · exact h
    exact r.acyclic c q (hmono c q hcq) (Reach.mono hmono hreach)
  · intro j s' hs' h0'
    have hjl := (hlive j).mp ⟨s', hs', h0'⟩
    obtain ⟨⟨s, hs, h0⟩, hj⟩ := hjl
    obtain ⟨s2, hs2, hpt, _⟩ := m.slot_other hj hs
    rw [hs'] at hs2; cases hs2
    obtain ⟨e1, e2, e3, e4, e5⟩ := Slot.ptrs_eq hpt
    have P := r.ptrs j s hs h0
    have hpar' : (g.prune l).par j = g.par j := by simp [Shape.prune, hj]
    have hkids' : (g.prune l).kids j = g.kids j := by simp [Shape.prune, hj]
    refine ⟨?_, ?_, ?_, ?_, ?_⟩
    · rw [e1, P.parent, hpar', mapc]
      intro k hk
      exact ⟨(r.live_of_par hk).2, fun h => hj (hdown j k hk h)⟩
    · rw [e4, P.first, hkids', mapc]
      intro k hk
      have hm := List.mem_of_mem_head? hk
      exact ⟨live_kids j k hm, fun h => hj (hup k j (r.kidsLive j k hm).2.2 h)⟩
    · rw [e5, P.last, hkids', mapc]
      intro k hk
      have hm := List.mem_of_getLast? hk
      exact ⟨live_kids j k hm, fun h => hj (hup k j (r.kidsLive j k hm).2.2 h)⟩
    · intro hn; rw [hpar'] at hn; rw [e2, e3]; exact P.root hn
    · intro p hp
      rw [hpar'] at hp
      obtain ⟨L, R, hk, hprev, hnext⟩ := P.sib p hp
      have hpl : p ∉ l := fun h => hj (hdown j p hp h)
      refine ⟨L, R, by simp [Shape.prune, hpl, hk], ?_, ?_⟩
      · rw [e2, hprev, mapc]
        intro k hk'
        have hm : k ∈ g.kids p := by rw [hk]; exact List.mem_append_left _ (List.mem_of_getLast? hk')
        exact ⟨live_kids p k hm, fun h => hpl (hup k p (r.kidsLive p k hm).2.2 h)⟩
      · rw [e3, hnext, mapc]
        intro k hk'
        have hm : k ∈ g.kids p := by rw [hk]; exact List.mem_append_right _ (List.mem_cons_of_mem _ (List.mem_of_mem_head? hk'))
        exact ⟨live_kids p k hm, fun h => hpl (hup k p (r.kidsLive p k hm).2.2 h)⟩

end Arena
end XotModel
