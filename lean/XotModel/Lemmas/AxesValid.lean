/-
  Every node an entry point of access.rs / levelorder.rs hands out is a node of the tree: for a
  well-formed tree `t` and a valid start path `p`, every path in the answer of every traversal is a
  valid path of `t` (`trav_valid`).  `Trav` enumerates the entry points of Model/Axes.lean;
  `Trav.result` flattens their answers (options, edges, level-order items, outcomes) to the list of
  node paths occurring in them.  Used by C04 (`C04_traversals_live`).
-/
import XotModel.Lemmas.Axes
import XotModel.Model.AxesChildLists

namespace XotModel.Axes

/-- The node-returning entry points. -/
inductive Trav where
  | parent | firstChild | lastChild | nextSibling | previousSibling
  | ancestors | children | allChildren | abnormalChildren | namespaceNodes | attributeNodes
  | reverseChildren | descendants | allDescendants | followingSiblings | precedingSiblings
  | following | allFollowing | preceding | reversePreorder | allReversePreorder
  | traverse | allTraverse | reverseTraverse | reverseAllTraverse
  | edgeNextStart | edgeNextEnd | edgePreviousStart | edgePreviousEnd
  | levelOrder | root | topElement | documentElement
  | axis (a : Axis)
  deriving Repr, DecidableEq

def outcomePaths : Outcome AxErr Path → List Path
  | .ok p => [p]
  | _ => []

def LevelOrder.node? : LevelOrder → Option Path
  | .node p => some p
  | .stop => none

def optEdgePaths : Option Edge → List Path
  | some e => [e.node]
  | none => []

/-- The node paths occurring in the answer of the entry point at `p`. -/
def Trav.result (t : Tree) (p : Path) : Trav → List Path
  | .parent => (Axes.parent p).toList
  | .firstChild => (Axes.firstChild t p).toList
  | .lastChild => (Axes.lastChild t p).toList
  | .nextSibling => (Axes.nextSibling t p).toList
  | .previousSibling => (Axes.previousSibling t p).toList
  | .ancestors => Axes.ancestors p
  | .children => Axes.children t p
  | .allChildren => (Axes.allChildren t p).map (·.1)
  | .abnormalChildren => (Axes.abnormalChildren t p).map (·.1)
  | .namespaceNodes => Axes.namespaceNodes t p
  | .attributeNodes => Axes.attributeNodes t p
  | .reverseChildren => Axes.reverseChildren t p
  | .descendants => Axes.descendants t p
  | .allDescendants => Axes.allDescendants t p
  | .followingSiblings => Axes.followingSiblings t p
  | .precedingSiblings => Axes.precedingSiblings t p
  | .following => Axes.following t p
  | .allFollowing => Axes.allFollowing t p
  | .preceding => Axes.preceding t p
  | .reversePreorder => Axes.reversePreorder t p
  | .allReversePreorder => Axes.allReversePreorder t p
  | .traverse => (Axes.traverse t p).map Edge.node
  | .allTraverse => (Axes.allTraverse t p).map Edge.node
  | .reverseTraverse => (Axes.reverseTraverse t p).map Edge.node
  | .reverseAllTraverse => (Axes.reverseAllTraverse t p).map Edge.node
  | .edgeNextStart => optEdgePaths (Edge.next t (.start p))
  | .edgeNextEnd => optEdgePaths (Edge.next t (.stop p))
  | .edgePreviousStart => optEdgePaths (Edge.previous t (.start p))
  | .edgePreviousEnd => optEdgePaths (Edge.previous t (.stop p))
  | .levelOrder => (Axes.levelOrder t p).filterMap LevelOrder.node?
  | .root => outcomePaths (Axes.root p)
  | .topElement => outcomePaths (Axes.topElement t p)
  | .documentElement => outcomePaths (Axes.documentElement t p)
  | .axis a => Axes.axis t a p

/-! ### Building blocks -/

theorem valid_append {t : Tree} {p q : Path} (h : Valid t p) (hq : Valid (subAt t p) q) : Valid t (p ++ q) := by
  have h1 := h.at?
  unfold Valid at *
  rw [at?_append, h1]
  exact hq

theorem valid_allChildren {t : Tree} {p : Path} (h : Valid t p) :
    ∀ q ∈ (allChildren t p).map (·.1), Valid t q := by
  intro q hq
  obtain ⟨x, hx, rfl⟩ := List.mem_map.mp hq
  exact (allChildren_item h hx).2.1

theorem valid_sub_allChildren {t : Tree} {p : Path} (h : Valid t p) {l : List (Path × Tree)}
    (hl : l.Sublist (allChildren t p)) : ∀ q ∈ l.map (·.1), Valid t q := by
  intro q hq
  obtain ⟨x, hx, rfl⟩ := List.mem_map.mp hq
  exact (allChildren_item h (hl.subset hx)).2.1

theorem valid_rawChildPaths {t : Tree} {p : Path} (h : Valid t p) : ∀ q ∈ rawChildPaths t p, Valid t q := by
  rw [← allChildren_paths]; exact valid_allChildren h

theorem valid_parent {t : Tree} {p q : Path} (h : Valid t p) (hq : parent p = some q) : Valid t q := by
  obtain ⟨j, rfl⟩ := (parent_eq_some_iff _ _).mp hq
  exact valid_prefix h

theorem valid_ancestors {t : Tree} {p : Path} (hw : wf t = true) (h : Valid t p) :
    ∀ q ∈ ancestors p, Valid t q := by
  intro q hq
  rw [ancestors_eq, ← axis_ancestor_eq t p, List.mem_cons] at hq
  rcases hq with rfl | hq
  · exact h
  · exact (ancestor_normal_only hw h q hq).1

theorem valid_firstChild {t : Tree} {p q : Path} (h : Valid t p) (hq : firstChild t p = some q) : Valid t q := by
  rw [firstChild_eq] at hq
  exact (children_valid h (List.mem_of_mem_head? hq)).1

theorem valid_lastChild {t : Tree} {p q : Path} (h : Valid t p) (hq : lastChild t p = some q) : Valid t q := by
  unfold lastChild at hq
  cases hl : (allChildren t p).getLast? with
  | none => rw [hl] at hq; cases hq
  | some x =>
    rw [hl] at hq
    simp only at hq
    split at hq
    · cases hq; exact (allChildren_item h (List.mem_of_getLast? hl)).2.1
    · cases hq

theorem valid_internalNextSibling {t : Tree} {p q : Path} (h : Valid t p)
    (hq : internalNextSibling t p = some q) : Valid t q := by
  rcases path_cases p with rfl | ⟨π, i, rfl⟩
  · simp at hq
  · have hπ := valid_prefix h
    have h1 := hπ.at?
    rw [tree_eta (subAt t π)] at h1
    rw [internalNextSibling_snoc h1] at hq
    split at hq
    · cases hq; exact (valid_snoc_iff hπ _).mpr (by assumption)
    · cases hq

theorem valid_internalPreviousSibling {t : Tree} {p q : Path} (h : Valid t p)
    (hq : internalPreviousSibling p = some q) : Valid t q := by
  rcases path_cases p with rfl | ⟨π, i, rfl⟩
  · simp [internalPreviousSibling, splitLast] at hq
  · have hπ := valid_prefix h
    have hi := (valid_snoc_iff hπ i).mp h
    rw [internalPreviousSibling_snoc] at hq
    split at hq
    · cases hq
    · cases hq; exact (valid_snoc_iff hπ _).mpr (by omega)

theorem valid_nextSibling {t : Tree} {p q : Path} (h : Valid t p) (hq : nextSibling t p = some q) : Valid t q := by
  unfold nextSibling at hq
  cases hs : internalNextSibling t p with
  | none => rw [hs] at hq; cases hq
  | some s =>
    rw [hs] at hq
    simp only at hq
    split at hq
    · cases hq
    · cases hq; exact valid_internalNextSibling h hs

theorem valid_previousSibling {t : Tree} {p q : Path} (h : Valid t p) (hq : previousSibling t p = some q) :
    Valid t q := by
  unfold previousSibling at hq
  cases hs : internalPreviousSibling p with
  | none => rw [hs] at hq; cases hq
  | some s =>
    rw [hs] at hq
    simp only at hq
    split at hq
    · cases hq
    · cases hq; exact valid_internalPreviousSibling h hs

theorem valid_followingSiblings {t : Tree} {p : Path} (h : Valid t p) : ∀ q ∈ followingSiblings t p, Valid t q := by
  intro q hq
  rcases path_cases p with rfl | ⟨π, i, rfl⟩
  · rw [(siblings_root t).1] at hq; simp at hq; subst hq; exact h
  · rw [(followingSiblings_snoc h).1, List.mem_cons] at hq
    rcases hq with rfl | hq
    · exact h
    · exact valid_rawChildPaths (valid_prefix h) q ((List.drop_sublist _ _).subset (List.mem_filter.mp hq).1)

theorem valid_precedingSiblings {t : Tree} {p : Path} (h : Valid t p) : ∀ q ∈ precedingSiblings t p, Valid t q := by
  intro q hq
  rcases path_cases p with rfl | ⟨π, i, rfl⟩
  · rw [(siblings_root t).2.1] at hq; simp at hq; subst hq; exact h
  · rw [(precedingSiblings_snoc h).1, List.mem_cons] at hq
    rcases hq with rfl | hq
    · exact h
    · rw [List.mem_reverse] at hq
      exact valid_rawChildPaths (valid_prefix h) q ((List.take_sublist _ _).subset (List.mem_filter.mp hq).1)

mutual
  theorem rawEdges_valid : ∀ (s : Tree) (e : Edge), e ∈ rawEdges s → Valid s e.node
    | .node v ks, e, h => by
      simp only [rawEdges, List.mem_cons, List.mem_append, List.not_mem_nil, or_false] at h
      rcases h with rfl | h | rfl
      · exact valid_nil _
      · simpa using rawEdgesList_valid v ks 0 [] e rfl h
      · exact valid_nil _
  theorem rawEdgesList_valid (v : Value) : ∀ (ks : List Tree) (i : Nat) (pre : List Tree) (e : Edge),
      i = pre.length → e ∈ rawEdgesList i ks → Valid (.node v (pre ++ ks)) e.node
    | [], _, _, _, _, h => by simp [rawEdgesList] at h
    | k :: ks, i, pre, e, hi, h => by
      simp only [rawEdgesList, List.mem_append, List.mem_map] at h
      rcases h with ⟨e', he', rfl⟩ | h
      · have := rawEdges_valid k e' he'
        cases e' <;>
        · simp only [Edge.mapPath, Edge.node] at this ⊢
          unfold Valid at *
          simp only [Tree.at?]
          rw [hi]
          simpa using this
      · have := rawEdgesList_valid v ks (i + 1) (pre ++ [k]) e (by simp [hi]) h
        simpa using this
end

theorem valid_arenaTraverse {t : Tree} {p : Path} (h : Valid t p) : ∀ e ∈ arenaTraverse t p, Valid t e.node := by
  intro e he
  unfold arenaTraverse at he
  obtain ⟨e', he', rfl⟩ := List.mem_map.mp he
  have := rawEdges_valid _ e' he'
  cases e' <;> exact valid_append h this

theorem withEnds_nodes : ∀ (last : Path) (l : List Path), (withEnds last l).filterMap LevelOrder.node? = l
  | _, [] => by simp [withEnds, LevelOrder.node?]
  | last, n :: ns => by
    simp only [withEnds]
    split <;>
      simp only [List.cons_append, List.nil_append, List.filterMap_cons, LevelOrder.node?, withEnds_nodes n ns]

theorem valid_levelOrder {t : Tree} {p : Path} (h : Valid t p) :
    ∀ q ∈ (levelOrder t p).filterMap LevelOrder.node?, Valid t q := by
  intro q hq
  rw [levelOrder_eq h, withEnds_nodes] at hq
  unfold bfsOrder at hq
  obtain ⟨k, _, hk⟩ := List.mem_flatMap.mp hq
  exact (levelAt_valid h k q hk).1

theorem valid_documentElement {t : Tree} {p c : Path} (h : Valid t p) (hc : documentElement t p = .ok c) :
    Valid t c := by
  rw [documentElement_eq] at hc
  split at hc
  · cases hf : (children t p).find? (fun c => (valueAt t c).isElement) with
    | none => rw [hf] at hc; cases hc
    | some c' =>
      rw [hf] at hc
      simp only [docElemOf, Outcome.ok.injEq] at hc
      subst hc
      exact (children_valid h (List.mem_of_find?_eq_some hf)).1
  · cases hc

theorem valid_topElement {t : Tree} {p c : Path} (hw : wf t = true) (h : Valid t p)
    (hc : topElement t p = .ok c) : Valid t c := by
  unfold topElement at hc
  split at hc
  · cases hd : documentElement t p with
    | ok c' => rw [hd] at hc; cases hc; exact valid_documentElement h hd
    | err e => rw [hd] at hc; cases hc; exact h
    | panic => rw [hd] at hc; cases hc; exact h
  · simp only [Outcome.ok.injEq] at hc
    rw [foldl_last] at hc
    cases hf : (ancestors p).reverse.find? (fun a => (valueAt t a).isElement) with
    | none => rw [hf] at hc; simp at hc; subst hc; exact h
    | some a =>
      rw [hf] at hc; simp at hc; subst hc
      exact valid_ancestors hw h _ (List.mem_reverse.mp (List.mem_of_find?_eq_some hf))

theorem valid_optEdge_next {t : Tree} {e : Edge} (h : Valid t e.node) :
    ∀ q ∈ optEdgePaths (Edge.next t e), Valid t q := by
  intro q hq
  cases e with
  | start c =>
    simp only [Edge.next] at hq
    cases hf : firstChild t c with
    | none => rw [hf] at hq; simp [optEdgePaths, Edge.node] at hq; subst hq; exact h
    | some x => rw [hf] at hq; simp [optEdgePaths, Edge.node] at hq; subst hq; exact valid_firstChild h hf
  | stop c =>
    simp only [Edge.next] at hq
    cases hf : nextSibling t c with
    | some x => rw [hf] at hq; simp [optEdgePaths, Edge.node] at hq; subst hq; exact valid_nextSibling h hf
    | none =>
      rw [hf] at hq
      cases hp : parent c with
      | none => rw [hp] at hq; simp [optEdgePaths] at hq
      | some x => rw [hp] at hq; simp [optEdgePaths, Edge.node] at hq; subst hq; exact valid_parent h hp

theorem valid_optEdge_previous {t : Tree} {e : Edge} (h : Valid t e.node) :
    ∀ q ∈ optEdgePaths (Edge.previous t e), Valid t q := by
  intro q hq
  cases e with
  | stop c =>
    simp only [Edge.previous] at hq
    cases hf : lastChild t c with
    | none => rw [hf] at hq; simp [optEdgePaths, Edge.node] at hq; subst hq; exact h
    | some x => rw [hf] at hq; simp [optEdgePaths, Edge.node] at hq; subst hq; exact valid_lastChild h hf
  | start c =>
    simp only [Edge.previous] at hq
    cases hf : previousSibling t c with
    | some x => rw [hf] at hq; simp [optEdgePaths, Edge.node] at hq; subst hq; exact valid_previousSibling h hf
    | none =>
      rw [hf] at hq
      cases hp : parent c with
      | none => rw [hp] at hq; simp [optEdgePaths] at hq
      | some x => rw [hp] at hq; simp [optEdgePaths, Edge.node] at hq; subst hq; exact valid_parent h hp

theorem valid_axis {t : Tree} {p : Path} (hw : wf t = true) (h : Valid t p) (a : Axis) :
    ∀ q ∈ axis t a p, Valid t q := by
  intro q hq
  cases a with
  | child => exact (children_valid h hq).1
  | descendant => exact (descendants_normal_only h q ((List.drop_sublist _ _).subset hq)).1
  | parent =>
    simp only [axis] at hq
    cases hp : parent p with
    | none => rw [hp] at hq; simp at hq
    | some x => rw [hp] at hq; simp at hq; subst hq; exact valid_parent h hp
  | ancestor => exact (ancestor_normal_only hw h q hq).1
  | followingSibling => exact valid_followingSiblings h q ((List.drop_sublist _ _).subset hq)
  | precedingSibling => exact valid_precedingSiblings h q ((List.drop_sublist _ _).subset hq)
  | following => exact (following_normal_only h q hq).1
  | preceding => exact (preceding_normal_only hw h q hq).1
  | «attribute» => exact (attributeNodes_sound h hq).2.2
  | self => simp [axis] at hq; subst hq; exact h
  | descendantOrSelf => exact (descendants_normal_only h q hq).1
  | ancestorOrSelf => exact valid_ancestors hw h q hq

/-- **Every node handed out by a traversal is a node of the tree.** -/
theorem trav_valid {t : Tree} {p : Path} (hw : wf t = true) (h : Valid t p) (tr : Trav) :
    ∀ q ∈ tr.result t p, Valid t q := by
  intro q hq
  cases tr with
  | parent => exact valid_parent h (by simpa [Trav.result] using hq)
  | firstChild => exact valid_firstChild h (by simpa [Trav.result] using hq)
  | lastChild => exact valid_lastChild h (by simpa [Trav.result] using hq)
  | nextSibling => exact valid_nextSibling h (by simpa [Trav.result] using hq)
  | previousSibling => exact valid_previousSibling h (by simpa [Trav.result] using hq)
  | ancestors => exact valid_ancestors hw h q hq
  | children => exact (children_valid h hq).1
  | allChildren => exact valid_allChildren h q hq
  | abnormalChildren => exact valid_sub_allChildren h (List.takeWhile_sublist _) q hq
  | namespaceNodes => exact valid_sub_allChildren h (List.takeWhile_sublist _) q hq
  | attributeNodes => exact (attributeNodes_sound h hq).2.2
  | reverseChildren =>
    simp only [Trav.result] at hq
    rw [reverseChildren_eq_spec h] at hq
    exact valid_rawChildPaths h q (List.mem_reverse.mp ((List.takeWhile_sublist _).subset hq))
  | descendants => exact (descendants_normal_only h q hq).1
  | allDescendants =>
    simp only [Trav.result, allDescendants] at hq
    rw [arenaDescendants_eq h] at hq
    exact (mem_allPre_iff t q).mp (List.mem_filter.mp hq).1
  | followingSiblings => exact valid_followingSiblings h q hq
  | precedingSiblings => exact valid_precedingSiblings h q hq
  | following => exact (following_normal_only h q hq).1
  | allFollowing =>
    simp only [Trav.result] at hq
    rw [allFollowing_eq h] at hq
    exact (mem_allPre_iff t q).mp (List.mem_filter.mp hq).1
  | preceding => exact (preceding_normal_only hw h q hq).1
  | reversePreorder => exact (reversePreorder_normal_only h q hq).1
  | allReversePreorder =>
    simp only [Trav.result] at hq
    rw [allReversePreorder_eq h, List.mem_reverse] at hq
    exact (mem_allPre_iff t q).mp (List.mem_filter.mp hq).1
  | traverse =>
    obtain ⟨e, he, rfl⟩ := List.mem_map.mp hq
    exact valid_arenaTraverse h e (List.mem_filter.mp he).1
  | allTraverse =>
    obtain ⟨e, he, rfl⟩ := List.mem_map.mp hq
    exact valid_arenaTraverse h e he
  | reverseTraverse =>
    obtain ⟨e, he, rfl⟩ := List.mem_map.mp hq
    exact valid_arenaTraverse h e (List.mem_reverse.mp (List.mem_filter.mp he).1)
  | reverseAllTraverse =>
    obtain ⟨e, he, rfl⟩ := List.mem_map.mp hq
    exact valid_arenaTraverse h e (List.mem_reverse.mp he)
  | edgeNextStart => exact valid_optEdge_next (e := .start p) h q hq
  | edgeNextEnd => exact valid_optEdge_next (e := .stop p) h q hq
  | edgePreviousStart => exact valid_optEdge_previous (e := .start p) h q hq
  | edgePreviousEnd => exact valid_optEdge_previous (e := .stop p) h q hq
  | levelOrder => exact valid_levelOrder h q hq
  | root =>
    simp only [Trav.result, root] at hq
    cases hl : (ancestors p).getLast? with
    | none => rw [hl] at hq; simp [outcomePaths] at hq
    | some r =>
      rw [hl] at hq; simp [outcomePaths] at hq; subst hq
      exact valid_ancestors hw h _ (List.mem_of_getLast? hl)
  | topElement =>
    simp only [Trav.result] at hq
    cases hc : topElement t p with
    | ok c => rw [hc] at hq; simp [outcomePaths] at hq; subst hq; exact valid_topElement hw h hc
    | err e => rw [hc] at hq; simp [outcomePaths] at hq
    | panic => rw [hc] at hq; simp [outcomePaths] at hq
  | documentElement =>
    simp only [Trav.result] at hq
    cases hc : documentElement t p with
    | ok c => rw [hc] at hq; simp [outcomePaths] at hq; subst hq; exact valid_documentElement h hc
    | err e => rw [hc] at hq; simp [outcomePaths] at hq
    | panic => rw [hc] at hq; simp [outcomePaths] at hq
  | axis a => exact valid_axis hw h a q hq

end XotModel.Axes
