/-
  Reading HTML text and attribute values back (C19_text_roundtrip, C19_attr_roundtrip): a strict
  decoder of character references (`&name;`, `&#N;`, `&#xH;`, with `&nbsp;` besides the XML
  names) — every `&` must start a complete known reference — and the round trip through the
  table-driven escaping functions.
-/
import XotModel.Lemmas.Html5Esc

namespace XotModel
open Gen

/-- The entity names an HTML reader of the serialiser's output has to know: `nbsp`, the five XML
    names and numeric references (`decodeEntity`). -/
def htmlEntity (e : Str) : Option Char :=
  if e = ['n','b','s','p'] then some '\u00a0' else decodeEntity e

/-- Strict decoding: `none` when some `&` does not start a complete known reference. -/
def htmlDecode : Str → Option Str
  | [] => some []
  | c :: rest =>
    if c = '&' then
      match h : splitSemi rest with
      | none => none
      | some (ent, rest') =>
        match htmlEntity ent with
        | none => none
        | some ch => (htmlDecode rest').map (ch :: ·)
    else (htmlDecode rest).map (c :: ·)
termination_by s => s.length
decreasing_by
  all_goals simp_wf
  · have := splitSemi_length h; omega

/-- A row `c ↦ &ent;` the decoder reads back as `c`. -/
def htmlRefOk (c : Char) (esc : Str) : Bool :=
  match esc with
  | '&' :: body =>
    (match body.reverse with
     | ';' :: rent => !(rent.contains ';') && htmlEntity rent.reverse == some c
     | _ => false)
  | _ => false

theorem htmlRefOk_shape {c : Char} {esc : Str} (h : htmlRefOk c esc = true) :
    ∃ ent, esc = '&' :: (ent ++ [';']) ∧ ';' ∉ ent ∧ htmlEntity ent = some c := by
  unfold htmlRefOk at h
  split at h
  · rename_i body
    split at h
    · rename_i rent hb
      simp at h
      refine ⟨rent.reverse, ?_, ?_, h.2⟩
      · have : body = (';' :: rent).reverse := by rw [← hb]; simp
        simp [this]
      · simpa using h.1
    · simp at h
  · simp at h

/-- Every row is a reference the decoder reads back, and `&` has a row. -/
def htmlTableOk (t : List (Char × Str)) : Bool :=
  (t.lookup '&').isSome && t.all (fun r => htmlRefOk r.1 r.2)

theorem htmlDecode_ref {c : Char} {esc : Str} (h : htmlRefOk c esc = true) (rest : Str) :
    htmlDecode (esc ++ rest) = (htmlDecode rest).map (c :: ·) := by
  obtain ⟨ent, rfl, hsemi, hent⟩ := htmlRefOk_shape h
  rw [htmlDecode.eq_def]
  simp only [List.cons_append, List.append_assoc, List.singleton_append, List.nil_append, if_true]
  have hs := splitSemi_append ent rest hsemi
  split
  · rename_i hn; rw [hs] at hn; cases hn
  · rename_i e r hn
    rw [hs] at hn
    simp only [Option.some.injEq, Prod.mk.injEq] at hn
    obtain ⟨rfl, rfl⟩ := hn
    simp [hent]

theorem htmlDecode_plain {c : Char} (hc : c ≠ '&') (rest : Str) :
    htmlDecode (c :: rest) = (htmlDecode rest).map (c :: ·) := by
  rw [htmlDecode.eq_def]
  simp [hc]

/-- The round trip: decoding the escaped string gives the string back. -/
theorem htmlDecode_escape {t : List (Char × Str)} (ht : htmlTableOk t = true) (s : Str) :
    htmlDecode (s.flatMap (escapeWith t)) = some s := by
  simp only [htmlTableOk, Bool.and_eq_true, List.all_eq_true] at ht
  obtain ⟨hamp, hrows⟩ := ht
  induction s with
  | nil => simp [htmlDecode]
  | cons c s ih =>
    rw [List.flatMap_cons]
    cases hl : t.lookup c with
    | none =>
      have hc : c ≠ '&' := by intro e; subst e; simp [hl] at hamp
      have he : escapeWith t c = [c] := by simp [escapeWith, hl]
      rw [he, List.singleton_append, htmlDecode_plain hc, ih]; rfl
    | some esc =>
      have := hrows (c, esc) (htmlLookup_mem hl)
      have he : escapeWith t c = esc := by simp [escapeWith, hl]
      rw [he, htmlDecode_ref this, ih]; rfl

/-! ### The four functions of the serialiser -/

theorem htmlDecode_serializeTextHtml (s : Str) : htmlDecode (serializeTextHtml s) = some s :=
  htmlDecode_escape (by decide) s

theorem htmlDecode_serializeText (s : Str) : htmlDecode (serializeText false s) = some s := by
  rw [serializeText_false_eq]
  exact htmlDecode_escape (by decide) s

theorem htmlDecode_serializeAttributeHtml (s : Str) : htmlDecode (serializeAttributeHtml s) = some s :=
  htmlDecode_escape (by decide) s

theorem htmlDecode_serializeAttribute (s : Str) : htmlDecode (serializeAttribute s) = some s :=
  htmlDecode_escape (by decide) s

end XotModel
