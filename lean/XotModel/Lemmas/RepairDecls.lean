/-
  The declarations of the repaired element after the call: the old ones, the new prefixes, and —
  for an element in no namespace under a default namespace — `xmlns=""` in place of its own default
  declaration.
-/
import XotModel.Lemmas.RepairBridge

namespace XotModel.Repair
open XotModel

theorem mem_nsDecls_rebuild_top (nsOf : Nat → Nat) (nd : List (Nat × Nat)) (name : Nat) (ks : List Tree)
    (inh : List (Nat × Nat)) (hD : (keys (declsOfKids ks)).Nodup) (hn2 : (keys nd).Nodup)
    (hndD : ∀ p ∈ keys nd, p ∉ keys (declsOfKids ks)) (q m : Nat) :
    (q, m) ∈ (rebuild nsOf nd true inh (.node (.element name) ks)).nsDecls ↔
      if needsUndeclare nsOf inh (.node (.element name) ks) name = true then
        (q ≠ Env.emptyPrefix ∧ ((q, m) ∈ declsOfKids ks ∨ (q, m) ∈ nd)) ∨
          (q = Env.emptyPrefix ∧ m = Env.noNamespace)
      else (q, m) ∈ declsOfKids ks ∨ (q, m) ∈ nd := by
  have hvals := map_value_rebuildKids nsOf nd (walkTop nsOf inh (.node (.element name) ks) name) ks
  obtain ⟨hD2u, hD2⟩ := mem_foldl_insertDecl nd (declsOfKids ks) hD hn2 hndD
  cases hc : needsUndeclare nsOf inh (.node (.element name) ks) name with
  | false =>
    simp only [rebuild, hc, Bool.false_eq_true, if_false, if_true]
    rw [nsDecls_insertNamespaces, nsDecls_node, declsOfKids_congr hvals, hD2]
  | true =>
    simp only [rebuild, hc, if_true]
    rw [nsDecls_insertNamespace, nsDecls_insertNamespaces, nsDecls_node, declsOfKids_congr hvals,
      mem_insertDecl _ _ _ hD2u, hD2]

/-- The namespace a declaration list binds the empty prefix to is what makes the repaired element
    need `xmlns=""`: it is in no namespace and a default namespace is in force at it. -/
theorem needsUndeclare_iff (nsOf : Nat → Nat) (inh : List (Nat × Nat)) (t : Tree) (name : Nat) :
    needsUndeclare nsOf inh t name = true ↔
      nsOf name = Env.noNamespace ∧
        ∃ n, n ≠ Env.noNamespace ∧ (Env.emptyPrefix, n) ∈ pushTop inh t.nsDecls := by
  unfold needsUndeclare
  rw [Bool.and_eq_true, beq_iff_eq, hasDefault_iff]

end XotModel.Repair
