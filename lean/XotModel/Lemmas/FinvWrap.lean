/-
  Finv (C04), part 23: `element_wrap` of a node that sits between two text nodes in strict mode,
  by evaluating its steps on the explicit forest (the intermediate states have two adjacent text
  nodes, so the step lemmas do not apply).  Together with `elementWrap_inv_of_noGap` this gives the
  full preservation theorem for `element_wrap`.
-/
import XotModel.Lemmas.FinvOps6

namespace XotModel
open HTree

namespace Forest

theorem fi_removeConsolidate_none (g : Forest) : g.removeConsolidate none none = (g, false) := by
  unfold removeConsolidate; split <;> rfl

theorem structureCheck_eval {g : Forest} {p c : Nat} {pv cv : Value}
    (hpv : g.value? p = some pv) (hpk : pv.isElement = true ∨ pv.isDocument = true)
    (hanc : (g.ancestors p).contains c = false) (hcv : g.value? c = some cv)
    (hcn : cv.category = .normal) (hcd : cv.isDocument = false) :
    g.structureCheck (some p) c = true := by
  unfold structureCheck
  simp only
  have h1 : (g.isElement p || g.isDocument p) = true := by
    unfold isElement isDocument; rw [hpv]
    rcases hpk with h | h <;> simp [h]
  rw [h1, hanc, hcv]
  cases cv <;> simp_all [Value.category, Value.isDocument]

theorem fi_addConsolidate_nontext {g : Forest} {node : Nat} (prev next : Option Nat)
    (h : g.textOf node = none) : g.addConsolidate node prev next = (g, false) := by
  rw [addConsolidate_eq_old]; exact addConsolidateOld_not_text h _ _

theorem addConsolidate_none_none (g : Forest) (node : Nat) :
    g.addConsolidate node none none = (g, false) := by
  rw [addConsolidate_eq_old, selfPrev_none, selfNext_none]
  exact addConsolidateOld_none_none g node

theorem textOf_none_of_value {g : Forest} {x : Nat} {v : Value} (hv : g.value? x = some v)
    (ht : v.isText = false) : g.textOf x = none := by
  unfold textOf; rw [hv]; cases v <;> simp_all [Value.isText]

/-- `append(w, a)` for a parentless `a` and a parentless childless element `w`, the last two roots. -/
theorem append_root_explicit {g : Forest} (nd : g.allHandles.Nodup) {R0 : List HTree} {w a name : Nat}
    {av : Value} {kids : List HTree}
    (hr : g.roots = R0 ++ [.node w (.element name) [], .node a av kids])
    (hcn : av.category = .normal) (hcd : av.isDocument = false) :
    g.append w a = ({ g with roots := R0 ++ [.node w (.element name) [.node a av kids]] }, .ok) := by
  have lcA : Loc g.roots a [] (R0 ++ [.node w (.element name) []]) (.node a av kids) [] :=
    ⟨by rw [hr]; simp, rfl⟩
  have lcW : Loc g.roots w [] R0 (.node w (.element name) []) [.node a av kids] :=
    ⟨by rw [hr]; simp, rfl⟩
  have hwa : w ≠ a := by
    intro e
    have := (lcW.fresh nd).right
    apply this; simp [e]
  have hsc : g.structureCheck (some w) a = true := by
    apply structureCheck_eval (value?_of_loc lcW nd) (Or.inl rfl) ?_ (value?_of_loc lcA nd) hcn hcd
    rw [ancestors_of_loc lcW nd]; simp [Ne.symm hwa]
  have hlast : g.lastChild w = none := by
    unfold lastChild; rw [get?_of_loc lcW nd]; rfl
  have hca : (w = a || (g.ancestors w).contains a) = false := by
    rw [ancestors_of_loc lcW nd]; simp [hwa, Ne.symm hwa]
  unfold append
  simp only [hsc, hlast, Bool.not_true, Bool.false_eq_true, if_false, prevSibling_of_loc_nil lcA nd,
    nextSibling_of_loc_nil lcA nd, fi_removeConsolidate_none, addConsolidate_none_none]
  have hne : (none == some a) = false := rfl
  simp only [hne, Bool.false_eq_true, if_false]
  unfold checkedAppend
  rw [hca, cut_of_loc lcA nd]
  simp only [Bool.false_eq_true, if_false]
  have nd' : ({ g with roots := plug [] (R0 ++ [.node w (.element name) []] ++ []) } : Forest).allHandles.Nodup := by
    have := cut_perm nd (cut_of_loc lcA nd)
    exact List.Nodup.sublist (List.sublist_append_left _ _) (this.symm.nodup nd)
  have lcW' : Loc ({ g with roots := plug [] (R0 ++ [.node w (.element name) []] ++ []) } : Forest).roots
      w [] R0 (.node w (.element name) []) [] := ⟨by simp, rfl⟩
  rw [placeLast_of_loc _ lcW' nd']
  simp [HTree.setKids]

/-- A node of another root tree is not below the last root. -/
theorem not_anc_of_other_root {g : Forest} (nd : g.allHandles.Nodup) {L : List HTree} {Wt : HTree}
    (hr : g.roots = L ++ [Wt]) {x : Nat} (hx : x ∈ handlesList L) :
    (g.ancestors x).contains Wt.handle = false := by
  have lcW : Loc g.roots Wt.handle [] L Wt [] := ⟨by rw [hr]; simp, rfl⟩
  cases hc : (g.ancestors x).contains Wt.handle with
  | false => rfl
  | true =>
    exfalso
    have hxa : x ∈ g.allHandles := by unfold allHandles; rw [hr]; simp [hx]
    have hm := mem_subtree_of_anc lcW nd hxa hc
    have hnd := nd
    unfold allHandles at hnd
    rw [hr, fi_handlesList_append] at hnd
    exact (List.nodup_append.mp hnd).2.2 x hx x (by simpa using hm) rfl

/-- `insert_after(P, w)` for a parentless non-text normal node `w` (the last root) and a
    non-root normal node `P`. -/
theorem insertAfter_root_explicit {g : Forest} (nd : g.allHandles.Nodup) {init : List ZipFrame} {fr : ZipFrame}
    {l0 : List HTree} {P : HTree} {r : List HTree} {Wt : HTree}
    (hr : g.roots = plug (init ++ [fr]) (l0 ++ P :: r) ++ [Wt])
    (hfrk : fr.v.isElement = true ∨ fr.v.isDocument = true)
    (hPn : P.value.category = .normal)
    (hWn : Wt.value.category = .normal) (hWd : Wt.value.isDocument = false)
    (hWt : Wt.value.isText = false) :
    g.insertAfter P.handle Wt.handle =
      ({ g with roots := plug (init ++ [fr]) (l0 ++ P :: Wt :: r) }, .ok) := by
  obtain ⟨path', fr', hplug, hfh, hfv⟩ := plug_snoc_append_extra init fr [Wt]
  have hr' : g.roots = plug (path' ++ [fr']) (l0 ++ P :: r) := by rw [hr, hplug]
  have lcP : Loc g.roots P.handle (path' ++ [fr']) l0 P r := ⟨hr', rfl⟩
  have lcW : Loc g.roots Wt.handle [] (plug (init ++ [fr]) (l0 ++ P :: r)) Wt [] := ⟨by rw [hr]; simp, rfl⟩
  have lcPar : Loc g.roots fr'.h path' fr'.l (.node fr'.h fr'.v (l0 ++ P :: r)) fr'.r :=
    ⟨by rw [hr', plug_append]; rfl, rfl⟩
  have hL : ∀ x, x ∈ handlesList (plug (init ++ [fr]) (l0 ++ P :: r)) →
      x ≠ Wt.handle ∧ (g.ancestors x).contains Wt.handle = false := by
    intro x hx
    refine ⟨?_, not_anc_of_other_root nd hr hx⟩
    intro e
    exact (lcW.fresh nd).left (e ▸ hx)
  have hPin : P.handle ∈ handlesList (plug (init ++ [fr]) (l0 ++ P :: r)) := by
    rw [mem_handlesList_plug]; right
    simp only [fi_handlesList_append, fi_handlesList_cons, List.mem_append]
    exact Or.inr (Or.inl (fi_handle_mem_handles P))
  have hParin : fr'.h ∈ handlesList (plug (init ++ [fr]) (l0 ++ P :: r)) := by
    rw [hfh, mem_handlesList_plug]; left
    clear hplug hr hr' lcP lcW lcPar hL hPin
    induction init with
    | nil => simp [pathHandles]
    | cons a rest ih => simp only [List.cons_append, pathHandles, List.mem_append, List.mem_cons]; exact Or.inr (Or.inr (Or.inl ih))
  have hpar : g.parent? P.handle = some fr'.h := by
    unfold parent?; rw [ctx?_of_loc_snoc lcP nd]; rfl
  have hsc : g.structureCheck (some fr'.h) Wt.handle = true :=
    structureCheck_eval (value?_of_loc lcPar nd) (by simpa [hfv] using hfrk) (hL _ hParin).2
      (value?_of_loc lcW nd) hWn hWd
  have hsr : g.siblingReferenceCheck P.handle Wt.handle = true := by
    unfold siblingReferenceCheck isNormalNode
    rw [value?_of_loc lcP nd]
    simp [(hL _ hPin).1, Value.isNormal, hPn]
  have hnext : (g.nextSibling P.handle == some Wt.handle) = false := by
    rw [nextSibling_of_loc_snoc lcP nd]
    cases r with
    | nil => rfl
    | cons N r0 =>
      simp only [List.head?_cons, Option.bind_some]
      have hNin : N.handle ∈ handlesList (plug (init ++ [fr]) (l0 ++ P :: N :: r0)) := by
        rw [mem_handlesList_plug]; right
        simp only [fi_handlesList_append, fi_handlesList_cons, List.mem_append]
        exact Or.inr (Or.inr (Or.inl (fi_handle_mem_handles N)))
      split
      · simp [(hL _ hNin).1]
      · rfl
  have htw : g.textOf Wt.handle = none := textOf_none_of_value (value?_of_loc lcW nd) hWt
  unfold insertAfter
  simp only [hpar, hsc, hsr, hnext, Bool.not_true, Bool.false_eq_true, if_false,
    prevSibling_of_loc_nil lcW nd, nextSibling_of_loc_nil lcW nd, fi_removeConsolidate_none,
    Bool.false_and, fi_addConsolidate_nontext _ _ htw]
  unfold checkedInsertAfter
  rw [if_neg (hL _ hPin).1, (hL _ hPin).2, isRoot_of_loc_ne lcP (by simp) nd, cut_of_loc lcW nd]
  simp only [Bool.or_self, Bool.false_eq_true, if_false]
  have nd' : ({ g with roots := plug [] (plug (init ++ [fr]) (l0 ++ P :: r) ++ []) } : Forest).allHandles.Nodup := by
    have := cut_perm nd (cut_of_loc lcW nd)
    exact List.Nodup.sublist (List.sublist_append_left _ _) (this.symm.nodup nd)
  have lcP' : Loc ({ g with roots := plug [] (plug (init ++ [fr]) (l0 ++ P :: r) ++ []) } : Forest).roots
      P.handle (init ++ [fr]) l0 P r := ⟨by simp, rfl⟩
  rw [placeAfter_of_loc_ne Wt lcP' (by simp) nd']
  simp

theorem validTree_wrapper {s : Bool} {w name : Nat} {A : HTree} (hA : validTree s A = true)
    (hn : A.value.category = .normal) (hd : A.value.isDocument = false) :
    validTree s (.node w (.element name) [A]) = true := by
  rw [fi_validTree_node, Bool.and_eq_true]
  refine ⟨(kidsOK_iff _ _ _).mpr ⟨?_, ?_, ?_, ?_, ?_⟩, by simp [hA]⟩
  · intro k hk; simp only [List.mem_singleton] at hk; subst hk; simp [kidAllowed, hd]
  · simp [Sorted]
  · simp [KeysU, hn]
  · simp [KeysU, hn]
  · intro _; simp [textFlags, noAdjB]

/-- `element_wrap` of a node between two text nodes in strict mode. -/
theorem elementWrap_inv_of_gap {f : Forest} (hi : f.Inv) (node name : Nat) (hg : f.textGap node = true) :
    (f.elementWrap node name).1.Inv := by
  have nd := hi.nodup
  -- unpack the gap
  unfold textGap at hg
  cases hctx : f.ctx? node with
  | none => rw [hctx] at hg; cases hg
  | some c =>
  rw [hctx] at hg
  simp only [Bool.and_eq_true, Bool.not_eq_true'] at hg
  obtain ⟨⟨hoff, hlt⟩, hht⟩ := hg
  have hs : (!f.everOff) = true := by simp [hoff]
  obtain ⟨init, fr, lc, hfr⟩ := ctx?_some_loc nd hctx
  have hlt' : lastText c.left = true := by
    unfold lastText lastB textFlags; rw [List.getLast?_map]; exact hlt
  have hht' : headText c.right = true := by
    unfold headText headB textFlags; rw [List.head?_map]; exact hht
  obtain ⟨l0, P, hl, hPt⟩ := exists_of_lastText hlt'
  obtain ⟨N, r0, hrr, hNt⟩ := exists_of_headText hht'
  obtain ⟨k1, k2⟩ := hi.kids_at lc.eq
  rw [innerValue_snoc] at k1
  have K := (kidsOK_iff _ _ _).mp k1
  rw [hl] at K
  have hPn : P.value.category = .normal := category_normal_of_isText hPt
  have hAn : c.self.value.category = .normal := by
    have K' : KidsOK (!f.everOff) fr.v (l0 ++ P :: c.self :: c.right) := by simpa using K
    exact K'.normal_after_normal hPn
  have hAt : c.self.value.isText = false := by
    cases h : c.self.value.isText with
    | false => rfl
    | true =>
      have := K.lastText_before_text hs h
      simp [hPt] at this
  have hfrk : fr.v.isElement = true ∨ fr.v.isDocument = true := parent_kind_of_kidsOK K (k := c.self) (by simp)
  have k2' : validList (!f.everOff) c.left = true ∧ validTree (!f.everOff) c.self = true ∧
      validList (!f.everOff) c.right = true := by
    simpa only [validList_append, validList_cons, Bool.and_eq_true] using k2
  have hself := value?_of_ctx_self nd hctx
  unfold elementWrap
  split
  · exact hi
  rename_i hdoc
  have hAd : c.self.value.isDocument = false := by
    unfold isDocument at hdoc; rw [hself] at hdoc
    cases h : c.self.value.isDocument with
    | false => rfl
    | true => simp [h] at hdoc
  split
  · exact hi
  split
  · exact hi
  have hpar : f.parent? node = some fr.h := by unfold parent?; rw [hctx, hfr]; rfl
  have hprev : f.prevSibling node = some P.handle := by
    rw [prevSibling_of_loc_snoc lc nd, hl]; simp [hPn, hAn]
  rw [hpar]
  simp only [hprev]
  -- the states, explicitly
  obtain ⟨path', fr', hplug, _, _⟩ := plug_snoc_append_extra init fr [HTree.node f.next (.element name) []]
  have hi1 : (f.newNode (.element name)).1.Inv := newNode_inv hi _
  have hroots1 : (f.newNode (.element name)).1.roots = plug (path' ++ [fr']) (c.left ++ c.self :: c.right) := by
    show f.roots ++ [_] = _
    rw [lc.eq, hplug]
  have lc1 : Loc (f.newNode (.element name)).1.roots node (path' ++ [fr']) c.left c.self c.right :=
    ⟨hroots1, lc.hk⟩
  have hcut := cut_of_loc lc1 hi1.nodup
  have e1 : f.newElement name = ((f.newNode (.element name)).1, f.next) := rfl
  rw [e1]
  simp only
  -- detachRaw
  have hdet : (f.newNode (.element name)).1.detachRaw node =
      { (f.newNode (.element name)).1 with roots := plug (init ++ [fr]) (c.left ++ c.right) ++
          [.node f.next (.element name) [], .node node c.self.value c.self.kids] } := by
    unfold detachRaw
    rw [hcut]
    simp only [addRoot, ← hplug]
    rw [← lc.hk, node_eta]
    simp
  rw [hdet]
  have nd2 : ({ (f.newNode (.element name)).1 with roots := plug (init ++ [fr]) (c.left ++ c.right) ++
      [.node f.next (.element name) [], .node node c.self.value c.self.kids] } : Forest).allHandles.Nodup := by
    have hp := cut_perm hi1.nodup hcut
    refine (List.Perm.nodup_iff ?_).mpr hi1.nodup
    refine List.Perm.trans ?_ hp
    unfold allHandles
    simp only [← hplug, fi_handlesList_append, fi_handlesList_cons, fi_handlesList_nil, List.append_nil,
      fi_handles_node, List.append_assoc]
    rw [fi_handles_eq c.self, lc.hk]
  rw [append_root_explicit nd2 rfl hAn hAd]
  simp only
  have nd3 : ({ (f.newNode (.element name)).1 with roots := plug (init ++ [fr]) (c.left ++ c.right) ++
      [.node f.next (.element name) [.node node c.self.value c.self.kids]] } : Forest).allHandles.Nodup := by
    refine (List.Perm.nodup_iff ?_).mpr nd2
    unfold allHandles
    simp only [fi_handlesList_append, fi_handlesList_cons, fi_handlesList_nil, List.append_nil, fi_handles_node,
      List.append_assoc, List.cons_append, List.nil_append]
    exact List.Perm.refl _
  have hroots3 : ({ (f.newNode (.element name)).1 with roots := plug (init ++ [fr]) (c.left ++ c.right) ++
      [.node f.next (.element name) [.node node c.self.value c.self.kids]] } : Forest).roots =
      plug (init ++ [fr]) (l0 ++ P :: c.right) ++ [.node f.next (.element name) [.node node c.self.value c.self.kids]] := by
    show plug (init ++ [fr]) (c.left ++ c.right) ++ _ = _
    rw [hl]; simp
  have hE2 := insertAfter_root_explicit (Wt := .node f.next (.element name) [.node node c.self.value c.self.kids])
    nd3 hroots3 hfrk hPn rfl rfl rfl
  simp only [node_handle] at hE2
  rw [hE2]
  simp only
  -- the final state
  refine Inv.of_perm (f := (f.newNode (.element name)).1) hi1 rfl rfl rfl rfl ?_ ?_
  · unfold allHandles
    simp only
    rw [hroots1, ← hplug, hl, fi_handlesList_append]
    refine (handlesList_plug_perm _ _).trans (List.Perm.trans ?_
      ((handlesList_plug_perm _ _).symm.append_right _))
    simp only [fi_handlesList_append, fi_handlesList_cons, fi_handlesList_nil, List.append_nil, fi_handles_node,
      List.append_assoc, List.cons_append, List.nil_append]
    rw [fi_handles_eq c.self, lc.hk]
    -- move the fresh handle to the end
    refine List.Perm.append_left _ (List.Perm.append_left _ (List.Perm.append_left _ ?_))
    have e : node :: handlesList c.self.kids ++ (handlesList c.right ++ [f.next]) =
        (node :: (handlesList c.self.kids ++ handlesList c.right)) ++ [f.next] := by simp
    rw [e]
    exact List.perm_append_comm (l₁ := [f.next])
  · show validList (!f.everOff) (plug (init ++ [fr]) (l0 ++ P :: .node f.next (.element name) [.node node c.self.value c.self.kids] :: c.right)) = true
    have hv := hi.valid
    rw [lc.eq] at hv
    apply valid_plug_replace _ _ _ _ hv
    · rw [innerValue_snoc]
      refine (kidsOK_iff _ _ _).mpr ?_
      have := K.sameKind (k' := .node f.next (.element name) [.node node c.self.value c.self.kids])
        ⟨by rw [hAn]; rfl, by rw [hAt]; rfl, by cases h : c.self.value <;> simp_all [entryKey, Value.category], by rw [hAd]; rfl⟩
      simpa using this
    · rw [hl] at k2'
      have hl0 : validList (!f.everOff) l0 = true ∧ validTree (!f.everOff) P = true := by
        simpa only [validList_append, validList_cons, validList_nil, Bool.and_true, Bool.and_eq_true] using k2'.1
      simp only [validList_append, validList_cons, Bool.and_eq_true]
      refine ⟨hl0.1, hl0.2, ?_, k2'.2.2⟩
      have := k2'.2.1
      rw [← node_eta c.self, lc.hk] at this
      exact validTree_wrapper (A := .node node c.self.value c.self.kids) this (by simpa using hAn)
        (by simpa using hAd)

/-- `element_wrap` preserves the invariant, whatever it answers. -/
theorem elementWrap_inv {f : Forest} (hi : f.Inv) (node name : Nat) : (f.elementWrap node name).1.Inv := by
  cases hg : f.textGap node with
  | false => exact elementWrap_inv_of_noGap hi node name hg
  | true => exact elementWrap_inv_of_gap hi node name hg

end Forest
end XotModel
