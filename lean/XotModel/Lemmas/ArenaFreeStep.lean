/-
  XotModel.Lemmas.ArenaFreeStep — `free_node` without the tree part of the invariant: on any arena
  whose free list is well threaded, freeing a live slot appends it to the free list, negates its
  stamp (with larger magnitude unless saturated) and writes no tree pointer.  Iterated over a
  list of slots (`remove_subtree` frees a whole subtree in document order).
-/
import XotModel.Lemmas.ArenaStamp

namespace XotModel
namespace Arena

/-- The five tree pointers of a slot. -/
def Slot.ptrs (s : Slot) : Option NodeId × Option NodeId × Option NodeId × Option NodeId × Option NodeId :=
  (s.parent, s.prev, s.next, s.first, s.last)

/-- The arena after `free_node` on slot `j`. -/
def free1 (b : Arena) (j : Nat) : Arena := (freeNode b ⟨j + 1, 0⟩).arena

/-- What one `free_node` does (no tree invariant needed). -/
structure FreeStep (b : Arena) (fl : List Nat) (j : Nat) (b' : Arena) : Prop where
  free : FreeOk b' (fl ++ [j])
  ptrs : ∀ k, (b'.slot k).map Slot.ptrs = (b.slot k).map Slot.ptrs
  stampOther : ∀ k, k ≠ j → (b'.slot k).map (·.stamp) = (b.slot k).map (·.stamp)
  dataOther : ∀ k s, k ≠ j → b.slot k = some s → ∃ s', b'.slot k = some s' ∧
    ((∃ v, s'.data = .data v) ↔ (∃ v, s.data = .data v))
  self : ∀ s, b.slot j = some s → ∃ s' nf, b'.slot j = some s' ∧
    s'.stamp = (if s.stamp < 32767 then -s.stamp - 1 else -s.stamp) ∧ s'.data = .nextFree nf
  length : b'.nodes.length = b.nodes.length
  payload : ∀ k s v, k ≠ j → b.slot k = some s → s.data = .data v → ∃ s', b'.slot k = some s' ∧ s'.data = .data v

theorem freeNode_index (b : Arena) (id : NodeId) : freeNode b id = freeNode b ⟨id.index0 + 1, 0⟩ := by
  unfold freeNode
  simp [NodeId.index0]

theorem setSlot_length (a : Arena) (i : Nat) (s : Slot) : (a.setSlot i s).nodes.length = a.nodes.length := by
  simp [setSlot]

theorem freeStep {b : Arena} {fl : List Nat} (f : FreeOk b fl) (j : Nat) (s : Slot) (hs : b.slot j = some s)
    (h0 : 0 ≤ s.stamp) (hhi : s.stamp ≤ 32767) (id : NodeId) (hid : id.index0 = j) :
    freeNode b id = .done (free1 b j) () ∧ FreeStep b fl j (free1 b j) := by
  have hst := asRemoved_of_nonneg s.stamp h0 hhi
  have hneg : Stamp.asRemoved s.stamp < 0 := by rw [hst]; split <;> omega
  have hlo : -32767 ≤ Stamp.asRemoved s.stamp := by rw [hst]; split <;> omega
  have hjfree : j ∉ fl := fun hm => by
    obtain ⟨s', hs', hn⟩ := (f.mem j).mp hm
    rw [hs] at hs'; cases hs'; omega
  let node' : Slot := { s with data := .nextFree none, stamp := Stamp.asRemoved s.stamp }
  have hreuse : Stamp.reuseable node'.stamp = true := by
    simp only [Stamp.reuseable, decide_eq_true_eq]; show Stamp.asRemoved s.stamp > -32768; omega
  have hb1 : ∀ k, (b.setSlot j node').slot k = if j = k then some node' else b.slot k :=
    fun k => slot_setSlot b j k s node' hs
  rw [freeNode_index, hid]
  cases hlf : fl.getLast? with
  | none =>
    have hfnil : fl = [] := List.getLast?_eq_none_iff.mp hlf
    have hlast : b.lastFree = none := by rw [f.last, hlf]
    have hcomp : freeNode b ⟨j + 1, 0⟩ = .done { (b.setSlot j node') with firstFree := some j, lastFree := some j } () := by
      unfold freeNode
      have : (⟨j + 1, 0⟩ : NodeId).index0 = j := by simp [NodeId.index0]
      rw [this]
      have : b.nodes[j]? = some s := hs
      simp only [this]
      rw [if_pos hreuse]
      have : (b.setSlot j node').lastFree = none := hlast
      rw [this]
    have hfree1 : free1 b j = { (b.setSlot j node') with firstFree := some j, lastFree := some j } := by
      unfold free1; rw [hcomp]; rfl
    refine ⟨by rw [hcomp, hfree1], ?_⟩
    rw [hfree1]
    generalize hb' : ({ (b.setSlot j node') with firstFree := some j, lastFree := some j } : Arena) = b'
    have hslot : ∀ k, b'.slot k = if j = k then some node' else b.slot k := fun k => by rw [← hb']; exact hb1 k
    refine ⟨⟨by simp [hfnil], ?_, by rw [← hb']; simp [hfnil], by rw [← hb']; simp [hfnil], ?_⟩, ?_, ?_, ?_, ?_, ?_,
      fun k sk v hk hsk hd => ⟨sk, by rw [hslot, if_neg (Ne.symm hk)]; exact hsk, hd⟩⟩
    · intro k
      simp only [hfnil, List.nil_append, List.mem_singleton]
      constructor
      · intro e; subst e; exact ⟨node', by rw [hslot, if_pos rfl], hneg⟩
      · rintro ⟨s', hs', hn⟩
        by_cases hjk : j = k
        · exact hjk.symm
        · rw [hslot, if_neg hjk] at hs'
          have := (f.mem k).mpr ⟨s', hs', hn⟩
          rw [hfnil] at this; cases this
    · intro k m hk
      simp only [hfnil, List.nil_append] at hk ⊢
      cases k with
      | zero => simp at hk; subst hk; exact ⟨node', by rw [hslot, if_pos rfl], by simp [node']⟩
      | succ k => simp at hk
    · intro k
      rw [hslot]
      by_cases hjk : j = k
      · subst hjk; rw [if_pos rfl, hs]; rfl
      · rw [if_neg hjk]
    · intro k hk; rw [hslot, if_neg (Ne.symm hk)]
    · intro k sk hk hsk
      exact ⟨sk, by rw [hslot, if_neg (Ne.symm hk)]; exact hsk, Iff.rfl⟩
    · intro s2 hs2
      rw [hs] at hs2; cases hs2
      exact ⟨node', none, by rw [hslot, if_pos rfl], hst, rfl⟩
    · rw [← hb']; exact setSlot_length _ _ _
  | some jl =>
    have hjl : jl ∈ fl := List.mem_of_getLast? hlf
    obtain ⟨sj, hsj, hsjn⟩ := (f.mem jl).mp hjl
    have hjli : j ≠ jl := fun e => hjfree (e ▸ hjl)
    have hlast : b.lastFree = some jl := by rw [f.last, hlf]
    have hsj1 : (b.setSlot j node').slot jl = some sj := by rw [hb1, if_neg hjli]; exact hsj
    have hcomp : freeNode b ⟨j + 1, 0⟩ = .done
        { ((b.setSlot j node').setSlot jl { sj with data := .nextFree (some j) }) with lastFree := some j } () := by
      unfold freeNode
      have : (⟨j + 1, 0⟩ : NodeId).index0 = j := by simp [NodeId.index0]
      rw [this]
      have : b.nodes[j]? = some s := hs
      simp only [this]
      rw [if_pos hreuse]
      have : (b.setSlot j node').lastFree = some jl := hlast
      rw [this]
      simp only []
      rw [show (b.setSlot j { s with data := Data.nextFree none, stamp := Stamp.asRemoved s.stamp }).nodes[jl]? = some sj from hsj1]
    have hfree1 : free1 b j =
        { ((b.setSlot j node').setSlot jl { sj with data := .nextFree (some j) }) with lastFree := some j } := by
      unfold free1; rw [hcomp]; rfl
    refine ⟨by rw [hcomp, hfree1], ?_⟩
    rw [hfree1]
    generalize hb' : ({ ((b.setSlot j node').setSlot jl { sj with data := .nextFree (some j) }) with lastFree := some j } : Arena) = b'
    have hslot : ∀ k, b'.slot k = if jl = k then some { sj with data := .nextFree (some j) }
        else if j = k then some node' else b.slot k := fun k => by
      rw [← hb']
      show ((b.setSlot j node').setSlot jl _).slot k = _
      rw [slot_setSlot _ jl k sj _ hsj1, hb1]
    have hlen : fl.length ≠ 0 := fun e => by
      have : fl = [] := List.length_eq_zero_iff.mp e
      rw [this] at hlf; cases hlf
    have hjlidx : fl[fl.length - 1]? = some jl := by
      rw [List.getLast?_eq_getElem?] at hlf; exact hlf
    have hsjfree : ∃ nf, sj.data = .nextFree nf := by
      obtain ⟨kk, hkk⟩ := List.getElem?_of_mem hjl
      obtain ⟨s2, hs2, hd2⟩ := f.link kk jl hkk
      rw [hsj] at hs2; cases hs2
      exact ⟨_, hd2⟩
    refine ⟨⟨?_, ?_, ?_, by rw [← hb']; simp, ?_⟩, ?_, ?_, ?_, ?_, ?_, ?_⟩
    rotate_right
    · intro k s2 v hk hs2 hd
      by_cases hjj : jl = k
      · subst hjj
        rw [hsj] at hs2; cases hs2
        obtain ⟨nf, hnf⟩ := hsjfree
        rw [hnf] at hd; cases hd
      · exact ⟨s2, by rw [hslot, if_neg hjj, if_neg (Ne.symm hk)]; exact hs2, hd⟩
    · exact List.nodup_append.mpr ⟨f.nodup, by simp, fun x hx y hy e => by simp at hy; subst hy; subst e; exact hjfree hx⟩
    · intro k
      simp only [List.mem_append, List.mem_singleton]
      rw [hslot]
      by_cases hjj : jl = k
      · subst hjj; rw [if_pos rfl]
        exact ⟨fun _ => ⟨_, rfl, hsjn⟩, fun _ => Or.inl hjl⟩
      · rw [if_neg hjj]
        by_cases hij : j = k
        · subst hij; rw [if_pos rfl]
          exact ⟨fun _ => ⟨_, rfl, hneg⟩, fun _ => Or.inr rfl⟩
        · rw [if_neg hij, ← f.mem k]
          exact ⟨fun hh => hh.elim (fun x => x) (fun e => absurd e.symm hij), Or.inl⟩
    · rw [← hb']; show b.firstFree = _
      rw [f.head]
      cases hf : fl with
      | nil => rw [hf] at hlf; cases hlf
      | cons y ys => rfl
    · intro k m hk
      by_cases hklt : k < fl.length
      · rw [List.getElem?_append_left hklt] at hk
        obtain ⟨sk, hsk, hdk⟩ := f.link k m hk
        have hmmem : m ∈ fl := List.mem_of_getElem? hk
        have hmj : j ≠ m := fun e => hjfree (e ▸ hmmem)
        by_cases hjj : jl = m
        · subst hjj
          have hkeq : k = fl.length - 1 := by
            have h1 := hk
            have h2 := hjlidx
            rw [List.getElem?_eq_some_iff] at h1 h2
            obtain ⟨h1a, h1b⟩ := h1
            obtain ⟨h2a, h2b⟩ := h2
            exact (List.getElem_inj f.nodup).mp (h1b.trans h2b.symm)
          refine ⟨_, by rw [hslot, if_pos rfl], ?_⟩
          have : k + 1 = fl.length := by omega
          simp [this]
        · refine ⟨sk, by rw [hslot, if_neg hjj, if_neg hmj]; exact hsk, ?_⟩
          rw [hdk]
          have hk1 : k + 1 < fl.length := by
            rcases Nat.lt_or_ge (k + 1) fl.length with h1 | h1
            · exact h1
            · exfalso
              have hkeq : k = fl.length - 1 := by omega
              rw [hkeq, hjlidx] at hk
              cases hk; exact hjj rfl
          rw [List.getElem?_append_left hk1]
      · have hkge : fl.length ≤ k := Nat.le_of_not_lt hklt
        rw [List.getElem?_append_right hkge] at hk
        have hk0 : k - fl.length = 0 := by
          cases hkk : k - fl.length with
          | zero => rfl
          | succ m' => rw [hkk] at hk; simp at hk
        rw [hk0] at hk; simp at hk; subst hk
        refine ⟨node', by rw [hslot, if_neg hjli.symm, if_pos rfl], ?_⟩
        have : fl.length ≤ k + 1 := by omega
        rw [List.getElem?_append_right this]
        have : k + 1 - fl.length = 1 := by omega
        simp [this, node']
    · intro k
      rw [hslot]
      by_cases hjj : jl = k
      · subst hjj; rw [if_pos rfl, hsj]; rfl
      · rw [if_neg hjj]
        by_cases hjk : j = k
        · subst hjk; rw [if_pos rfl, hs]; rfl
        · rw [if_neg hjk]
    · intro k hk
      rw [hslot]
      by_cases hjj : jl = k
      · subst hjj; rw [if_pos rfl, hsj]; rfl
      · rw [if_neg hjj, if_neg (Ne.symm hk)]
    · intro k sk hk hsk
      rw [hslot]
      by_cases hjj : jl = k
      · subst hjj
        rw [hsj] at hsk; cases hsk
        refine ⟨_, by rw [if_pos rfl], ?_⟩
        constructor
        · rintro ⟨v, hv⟩; cases hv
        · rintro ⟨v, hv⟩
          -- a slot of the free list carries a free-list link
          obtain ⟨kk, hkk⟩ := List.getElem?_of_mem hjl
          obtain ⟨s2, hs2, hd2⟩ := f.link kk jl hkk
          rw [hsj] at hs2; cases hs2
          rw [hd2] at hv; cases hv
      · exact ⟨sk, by rw [if_neg hjj, if_neg (Ne.symm hk)]; exact hsk, Iff.rfl⟩
    · intro s2 hs2
      rw [hs] at hs2; cases hs2
      exact ⟨node', none, by rw [hslot, if_neg hjli.symm, if_pos rfl], hst, rfl⟩
    · rw [← hb']; show ((b.setSlot j node').setSlot jl _).nodes.length = _
      rw [setSlot_length, setSlot_length]

end Arena
end XotModel
