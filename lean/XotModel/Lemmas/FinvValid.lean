/-
  Finv (C04), part 4: structural validity as per-node conditions on child lists (`kidsOK`), its
  behaviour under `plug`, and the child-list edits (remove one, insert one, change a value
  within its kind).
-/
import XotModel.Lemmas.FinvPrim

namespace XotModel
open HTree

/-- The condition `validTree` puts on the child list `ks` of a node with value `v`. -/
def kidsOK (strict : Bool) (v : Value) (ks : List HTree) : Bool :=
  ks.all (fun k => kidAllowed v k.value) &&
  kidsOrdered ks && keysUnique .attribute ks && keysUnique .namespace ks &&
  (!strict || noAdjacentText ks)

theorem fi_validTree_node (s : Bool) (h : Nat) (v : Value) (ks : List HTree) :
    validTree s (.node h v ks) = (kidsOK s v ks && validList s ks) := by
  simp [validTree, kidsOK]

@[simp] theorem validList_nil (s : Bool) : validList s [] = true := by simp [validList]

@[simp] theorem validList_cons (s : Bool) (k : HTree) (ks : List HTree) :
    validList s (k :: ks) = (validTree s k && validList s ks) := by simp [validList]

@[simp] theorem validList_append (s : Bool) (a b : List HTree) :
    validList s (a ++ b) = (validList s a && validList s b) := by
  induction a with
  | nil => simp
  | cons k ks ih => simp [ih, Bool.and_assoc]

theorem validTree_eq (s : Bool) (t : HTree) :
    validTree s t = (kidsOK s t.value t.kids && validList s t.kids) := by
  cases t; simp [fi_validTree_node]

/-! ### The components of `kidsOK` as propositions -/

def rankOf (k : HTree) : Nat := k.value.category.rank

def Sorted (ks : List HTree) : Prop := (ks.map rankOf).Pairwise (· ≤ ·)

def KeysU (c : Category) (ks : List HTree) : Prop :=
  ((ks.filter (fun k => k.value.category == c)).map (fun k => Forest.entryKey k.value)).Nodup

/-- Text flags of a child list. -/
def textFlags (ks : List HTree) : List Bool := ks.map (fun k => k.value.isText)

/-- `noAdjacentText` on the flags. -/
def noAdjB : List Bool → Bool
  | [] => true
  | [_] => true
  | a :: b :: rest => !(a && b) && noAdjB (b :: rest)

theorem kidsOrdered_iff (ks : List HTree) : kidsOrdered ks = true ↔ Sorted ks := by
  unfold Sorted
  induction ks with
  | nil => simp [kidsOrdered]
  | cons a as ih =>
    cases as with
    | nil => simp [kidsOrdered]
    | cons b rest =>
      simp only [kidsOrdered, Bool.and_eq_true, decide_eq_true_eq, ih, List.map_cons,
        List.pairwise_cons, List.mem_cons, forall_eq_or_imp]
      constructor
      · intro ⟨h1, h2, h3⟩
        refine ⟨⟨h1, ?_⟩, h2, h3⟩
        intro x hx
        exact Nat.le_trans h1 (h2 x hx)
      · intro ⟨⟨h1, _⟩, h2, h3⟩
        exact ⟨h1, h2, h3⟩

theorem keysUnique_iff (c : Category) (ks : List HTree) : keysUnique c ks = true ↔ KeysU c ks := by
  simp [keysUnique, KeysU]

theorem noAdjacentText_eq (ks : List HTree) : noAdjacentText ks = noAdjB (textFlags ks) := by
  unfold textFlags
  induction ks with
  | nil => simp [noAdjacentText, noAdjB]
  | cons a as ih =>
    cases as with
    | nil => simp [noAdjacentText, noAdjB]
    | cons b rest =>
      simp only [noAdjacentText, noAdjB, List.map_cons]
      rw [ih]
      simp

/-- Is the last / first flag set? -/
def lastB (l : List Bool) : Bool := l.getLast?.getD false
def headB (l : List Bool) : Bool := l.head?.getD false

theorem noAdjB_cons (a : Bool) (l : List Bool) : noAdjB (a :: l) = (!(a && headB l) && noAdjB l) := by
  cases l with
  | nil => simp [noAdjB, headB]
  | cons b rest => simp [noAdjB, headB]

theorem noAdjB_append (a b : List Bool) :
    noAdjB (a ++ b) = (noAdjB a && noAdjB b && !(lastB a && headB b)) := by
  induction a with
  | nil => simp [noAdjB, lastB]
  | cons x xs ih =>
    rw [List.cons_append, noAdjB_cons, noAdjB_cons, ih]
    cases xs with
    | nil => simp [lastB, headB, noAdjB]; cases x <;> cases noAdjB b <;> cases (b.head?.getD false) <;> rfl
    | cons y ys =>
      have e1 : headB (y :: ys ++ b) = y := rfl
      have e2 : headB (y :: ys) = y := rfl
      have e3 : lastB (x :: y :: ys) = lastB (y :: ys) := by simp [lastB, List.getLast?_cons_cons]
      rw [e1, e2, e3]
      generalize noAdjB (y :: ys) = p
      generalize noAdjB b = q
      generalize lastB (y :: ys) = L
      generalize headB b = H
      cases x <;> cases y <;> cases p <;> cases q <;> cases L <;> cases H <;> rfl

/-- `kidsOK` unpacked. -/
structure KidsOK (s : Bool) (v : Value) (ks : List HTree) : Prop where
  allowed : ∀ k ∈ ks, kidAllowed v k.value = true
  sorted : Sorted ks
  attrs : KeysU .attribute ks
  nss : KeysU .namespace ks
  text : s = true → noAdjB (textFlags ks) = true

theorem kidsOK_iff (s : Bool) (v : Value) (ks : List HTree) : kidsOK s v ks = true ↔ KidsOK s v ks := by
  unfold kidsOK
  simp only [Bool.and_eq_true, List.all_eq_true, kidsOrdered_iff, keysUnique_iff, Bool.or_eq_true,
    Bool.not_eq_true', noAdjacentText_eq]
  constructor
  · intro ⟨⟨⟨⟨h1, h2⟩, h3⟩, h4⟩, h5⟩
    refine ⟨h1, h2, h3, h4, ?_⟩
    intro hs
    cases h5 with
    | inl h => rw [hs] at h; cases h
    | inr h => exact h
  · intro ⟨h1, h2, h3, h4, h5⟩
    refine ⟨⟨⟨⟨h1, h2⟩, h3⟩, h4⟩, ?_⟩
    cases s with
    | false => exact Or.inl rfl
    | true => exact Or.inr (h5 rfl)

/-- `kidsOK` only looks at the values of the children. -/
theorem kidsOK_congr (s : Bool) (v : Value) (ks ks' : List HTree)
    (h : ks.map HTree.value = ks'.map HTree.value) : kidsOK s v ks = kidsOK s v ks' := by
  have hiff : KidsOK s v ks ↔ KidsOK s v ks' := by
    have key : ∀ a b : List HTree, a.map HTree.value = b.map HTree.value → KidsOK s v a → KidsOK s v b := by
      intro a b hab ⟨h1, h2, h3, h4, h5⟩
      have e : ∀ {β : Type} (φ : Value → β), a.map (fun k => φ k.value) = b.map (fun k => φ k.value) := by
        intro β φ
        have := congrArg (List.map φ) hab
        simpa [List.map_map, Function.comp_def] using this
      have ef : ∀ c : Category, (a.filter (fun k => k.value.category == c)).map (fun k => Forest.entryKey k.value)
          = (b.filter (fun k => k.value.category == c)).map (fun k => Forest.entryKey k.value) := by
        intro c
        have h1 : ∀ x : List HTree, (x.filter (fun k => k.value.category == c)).map (fun k => Forest.entryKey k.value)
            = ((x.map HTree.value).filter (fun w => w.category == c)).map Forest.entryKey := by
          intro x; rw [List.filter_map, List.map_map]; rfl
        rw [h1 a, h1 b, hab]
      refine ⟨?_, ?_, ?_, ?_, ?_⟩
      · have := e (fun w => kidAllowed v w)
        intro k hk
        have hm : kidAllowed v k.value ∈ b.map (fun k => kidAllowed v k.value) := List.mem_map.mpr ⟨k, hk, rfl⟩
        rw [← this] at hm
        obtain ⟨k', hk', he⟩ := List.mem_map.mp hm
        rw [← he]; exact h1 k' hk'
      · unfold Sorted rankOf at *
        rw [← e (fun w => w.category.rank)]; exact h2
      · unfold KeysU at *; rw [← ef]; exact h3
      · unfold KeysU at *; rw [← ef]; exact h4
      · unfold textFlags at *
        rw [← e (fun w => w.isText)]; exact h5
    exact ⟨key ks ks' h, key ks' ks h.symm⟩
  cases h1 : kidsOK s v ks with
  | true => exact ((kidsOK_iff s v ks').mpr (hiff.mp ((kidsOK_iff s v ks).mp h1))).symm
  | false =>
    cases h2 : kidsOK s v ks' with
    | false => rfl
    | true => rw [(kidsOK_iff s v ks).mpr (hiff.mpr ((kidsOK_iff s v ks').mp h2))] at h1; cases h1

/-! ### Validity and `plug` -/

/-- Value of the node whose child list has the hole (`none` at root level). -/
def innerValue (path : List ZipFrame) : Option Value := path.getLast?.map (·.v)

def kidsOKopt (s : Bool) : Option Value → List HTree → Bool
  | none, _ => true
  | some v, ks => kidsOK s v ks

@[simp] theorem innerValue_nil : innerValue [] = none := rfl
@[simp] theorem innerValue_snoc (path : List ZipFrame) (fr : ZipFrame) : innerValue (path ++ [fr]) = some fr.v := by
  simp [innerValue]
theorem innerValue_cons_cons (fr fr' : ZipFrame) (rest : List ZipFrame) :
    innerValue (fr :: fr' :: rest) = innerValue (fr' :: rest) := by
  simp [innerValue, List.getLast?_cons_cons]
@[simp] theorem innerValue_singleton (fr : ZipFrame) : innerValue [fr] = some fr.v := rfl

theorem map_value_plug_cons (fr : ZipFrame) (rest : List ZipFrame) (ks ks' : List HTree) :
    (plug (fr :: rest) ks).map HTree.value = (plug (fr :: rest) ks').map HTree.value := by
  simp

/-- What validity of a plugged forest says about the hole's content. -/
theorem valid_plug_inner (s : Bool) (path : List ZipFrame) (ks : List HTree)
    (hv : validList s (plug path ks) = true) :
    kidsOKopt s (innerValue path) ks = true ∧ validList s ks = true := by
  induction path with
  | nil => exact ⟨rfl, hv⟩
  | cons fr rest ih =>
    simp only [plug_cons, validList_append, validList_cons, fi_validTree_node, Bool.and_eq_true] at hv
    obtain ⟨_, ⟨h2, h3⟩, _⟩ := hv
    cases rest with
    | nil => exact ⟨h2, h3⟩
    | cons fr' rest' => rw [innerValue_cons_cons]; exact ih h3

/-- The hole's content may be replaced by any valid child list that suits the hole's parent. -/
theorem valid_plug_replace (s : Bool) (path : List ZipFrame) (ks ks' : List HTree)
    (hv : validList s (plug path ks) = true)
    (hk : kidsOKopt s (innerValue path) ks' = true) (hl : validList s ks' = true) :
    validList s (plug path ks') = true := by
  induction path with
  | nil => exact hl
  | cons fr rest ih =>
    simp only [plug_cons, validList_append, validList_cons, fi_validTree_node, Bool.and_eq_true] at hv ⊢
    obtain ⟨h1, ⟨h2, h3⟩, h4⟩ := hv
    refine ⟨h1, ⟨?_, ?_⟩, h4⟩
    · cases rest with
      | nil => exact hk
      | cons fr' rest' =>
        rw [kidsOK_congr s fr.v _ _ (map_value_plug_cons fr' rest' ks' ks)]; exact h2
    · cases rest with
      | nil => exact hl
      | cons fr' rest' => rw [innerValue_cons_cons] at hk; exact ih h3 hk

end XotModel
